#!/bin/sh
# Build the whole Coq development (full .vo build, no -vos) from files on disk; offline.
cd /verif || exit 1
exec python3 - <<'PY'
import sys
sys.path.insert(0, "/verif")
import vlib
c = vlib.Ctx("SETUP", "quick", 0)
ok, log = c.coq_make([], timeout=3000)
print(log[-3000:])
# a file that fails to build is reported by the check that owns it (its obligations are then not
# discharged); setup itself only pre-builds, so it does not fail the whole restore
import subprocess
r = subprocess.run([sys.executable, '/verif/tools/lint_coq.py'], capture_output=True, text=True)
print(r.stdout[-2000:])
print('setup: coq build ' + ('ok' if ok else 'INCOMPLETE (see log above)'))
sys.exit(0)
PY
