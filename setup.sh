#!/bin/sh
# Build the whole Coq development (full .vo build, no -vos) from files on disk; offline.
cd /verif || exit 1
exec python3 - <<'PY'
import sys
sys.path.insert(0, "/verif")
import vlib
c = vlib.Ctx("SETUP", "quick", 0)
ok, log = c.coq_make([], timeout=3000)
print(log[-3000:])
sys.exit(0 if ok else 1)
PY
