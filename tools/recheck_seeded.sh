#!/bin/sh
# tools/recheck_seeded.sh <seeded id> [<Cxx to run instead of the owner>]  — re-run the (current) quick check of the owning
# property against seeded/<id>/patch.diff in a scratch worktree and record the verdict as "final_verdict" in its meta.json.
set -u
SID=$1; PID=${2:-$(echo $SID | cut -d_ -f1)}
D=/verif/seeded/$SID
[ -f $D/patch.diff ] || { echo "no $D/patch.diff"; exit 2; }
WT=$(mktemp -d /tmp/wt_re_XXXXXX); rmdir $WT
git -C /repo worktree add -q $WT HEAD || exit 2
PATCH=$D/patch.diff
# a later fix: commit may have changed the context lines: seeded/<id>/patch_rebased.diff is the same change ported onto HEAD
if ! git -C $WT apply --check $PATCH 2>/dev/null && [ -f $D/patch_rebased.diff ]; then PATCH=$D/patch_rebased.diff; fi
if ! git -C $WT apply $PATCH; then
  echo "$SID PATCH DOES NOT APPLY to HEAD"; git -C /repo worktree remove --force $WT
  python3 - "$SID" <<'PY'
import json, sys
p = "/verif/seeded/%s/meta.json" % sys.argv[1]
m = json.load(open(p)); m["final_verdict"] = "n/a (patch no longer applies to /repo HEAD: the code it edits was changed by a later fix)"
json.dump(m, open(p, "w"), indent=1)
PY
  exit 2
fi
OUT=$(cd /verif && VERIF_BUILD_TAG=_re$$ VERIF_EVIDENCE_DIR=/verif/build/evidence_scratch VERIF_REPO=$WT timeout 3000 ./check.py $PID --tier quick 2>&1 | grep -E "VIOLATION|KNOWN-FINDING|why:|no longer shown|INTERNAL| (OK|FAIL) tier" | cut -c1-400 | head -8)
git -C /repo worktree remove --force $WT
rm -rf /verif/build/${PID}_re$$
python3 - "$SID" "$PID" "$OUT" <<'PY'
import json, sys
sid, pid, out = sys.argv[1:4]
p = "/verif/seeded/%s/meta.json" % sid
m = json.load(open(p))
v = "caught (concrete replay)" if ("VIOLATION" in out and "no-failing-input-found" not in out) else \
    ("caught (no-failing-input-found)" if "VIOLATION" in out else ("INTERNAL ERROR" if "INTERNAL" in out else "MISSED"))
key = "final_verdict" if pid == sid.split("_")[0] else "final_verdict_" + pid
m[key] = v
m[key + "_output"] = out.splitlines()
json.dump(m, open(p, "w"), indent=1)
print(sid, pid, "|", v)
PY
