#!/bin/sh
# tools/commit_fix.sh "<commit message>" <patch>...   — apply patches in a scratch worktree of /repo HEAD, one commit
# (message given; several patches = one commit each needs separate calls), build + run the 44 unit tests, and only when
# they all pass fast-forward /repo main to it.  Coordinator only.
set -eu
MSG=$1; shift
WT=/tmp/wt_fix; rm -rf $WT; git -C /repo worktree prune; git -C /repo worktree add -q $WT HEAD
cd $WT
for P in "$@"; do git apply "$P"; done
git -c user.name=builder -c user.email=builder@example.com commit -q -am "$MSG"
cmake -S . -B _build -G Ninja -DBUILD_TESTS=ON -DCMAKE_BUILD_TYPE=RelWithDebInfo -DCMAKE_PREFIX_PATH=/root/miniconda -DCMAKE_CXX_FLAGS=-Wno-error >/dev/null
cmake --build _build -j8 2>&1 | tail -1
if ctest --test-dir _build -j8 --timeout 900 2>&1 | tee /tmp/ctest_fix.log | grep -q "100% tests passed, 0 tests failed out of 5"; then
  H=$(git rev-parse HEAD); cd /repo; git merge -q --ff-only $H; echo "COMMITTED $(git log --oneline | head -1)"
else
  tail -20 /tmp/ctest_fix.log; echo "TESTS FAILED - not committed"
fi
cd /; git -C /repo worktree remove --force $WT
