#!/usr/bin/env python3
"""tools/design_tables.py — regenerate the generated parts of DESIGN.md section 9 (9.2 dispositions, 9.4 seeded changes,
9.5 per-property summary) from known_findings.json, seeded/*/meta.json, MANIFEST.json and evidence/*.json.
Hand-written parts (9.1, 9.3) are kept."""
import glob, json, os, re, subprocess
V = "/verif"
d = open(V + "/DESIGN.md").read()
head, rest = d.split("### 9.2", 1)
m = re.search(r"### 9\.3.*?(?=\n### 9\.4)", rest, re.S)
sec93 = m.group(0) if m else "### 9.3 Observations that are NOT violations\n"
kf = json.load(open(V + "/known_findings.json"))
fixed = {}
for e in kf:
    if e["kind"] == "fixed":
        fixed.setdefault((e["commit"], e["signature"]), []).append(e)
def subject(c):
    try:
        return subprocess.check_output(["git", "-C", "/repo", "log", "-1", "--format=%s", c], text=True).strip()
    except Exception:
        return ""
order = subprocess.check_output(["git", "-C", "/repo", "log", "--reverse", "--format=%h"], text=True).split()
def pos(c):
    for i, h in enumerate(order):
        if h.startswith(c) or c.startswith(h):
            return i
    return 10 ** 6
out = ["### 9.2 Defects of the pinned tree: disposition (generated from known_findings.json)\n",
       "Every row was reproduced against the real code by the owning check before the repair; every repair is one unguarded\n"
       "`fix:` commit in /repo and the 44 unit tests pass unedited after each; a `fixed` entry suppresses nothing; the reverse of\n"
       "each patch in `fixes/` is a ready-made regression that the owning check must report with a concrete replay.\n",
       "| commit | properties | signature | what failed |", "|---|---|---|---|"]
for (c, sig), es in sorted(fixed.items(), key=lambda kv: pos(kv[0][0])):
    what = es[0]["what"]
    what = re.sub(r"^fixed: property=\S+ \S+ ", "", what)
    out.append("| %s | %s | %s | %s |" % (c, " ".join(sorted({e["property"] for e in es})), sig, what.replace("|", "/")[:300]))
out.append("\nKnown findings kept (genuine, no small safe repair or a unit test pins the behaviour):\n")
seen = {}
for e in kf:
    if e["kind"] == "finding":
        seen.setdefault(e["signature"], []).append(e)
for sig, es in seen.items():
    out.append("* `%s` (%s): %s" % (sig, " ".join(sorted({e["property"] for e in es})), es[0]["what"][:420].replace("\n", " ")))
out.append("\nHook: H1 only (commit 64c754f, guard `TAPKEE_VERIF`, add-only).\n")
out.append(sec93.rstrip() + "\n")
out.append("### 9.4 Independent seeded changes (fresh agents, property text only) and what the checks did (generated)\n"
           "Each change compiles, passes the 44 unit tests and comes with a demonstration that fails with it and passes without it;\n"
           "all of that was re-confirmed by `tools/keep_mutant.sh` in a scratch worktree before it was kept under `seeded/<id>/`\n"
           "(patch.diff, demo, meta.json with the commands run and the check's output).  Rounds: `_1`,`_2` first round, `_r2` second,\n"
           "`_3` third, `_4` fourth, `_5` fifth; each later round was written against the list of earlier ideas.  `first` = verdict of the owning check when the\n"
           "change arrived; `final` = verdict of the check as committed (tools/recheck_seeded.sh).  concrete = `VIOLATION ... replay=<file>`\n"
           "with a failing input; nfif = `no-failing-input-found`.\n")
out += ["| seeded id | change | first | final |", "|---|---|---|---|"]
stats = {}
for dd in sorted(glob.glob(V + "/seeded/*/")):
    mp = os.path.join(dd, "meta.json")
    if not os.path.exists(mp):
        continue
    j = json.load(open(mp))
    s = " ".join(str(j.get("summary") or j.get("mechanism") or "").split())[:200].replace("|", "/")
    sh = lambda v: {"caught (concrete replay)": "concrete", "caught (no-failing-input-found)": "nfif"}.get(v, v or "-")
    fin = j.get("final_verdict")
    out.append("| %s | %s | %s | %s |" % (os.path.basename(dd[:-1]), s, sh(j.get("check_verdict")), sh(fin)))
    stats[sh(fin or j.get("check_verdict"))] = stats.get(sh(fin or j.get("check_verdict")), 0) + 1
out.append("\nTotals (final verdict where re-run, else first): " + ", ".join("%s %d" % kv for kv in sorted(stats.items())) + ".\n")
man = json.load(open(V + "/MANIFEST.json"))
out.append("### 9.5 Per property: what is proved, what ties it to the source (generated from MANIFEST.json and the evidence files)\n")
for c in man["checks"]:
    pid = c["property_id"]
    ev = {}
    try:
        ev = json.load(open(V + "/evidence/%s.json" % pid))
    except Exception:
        pass
    cov = ev.get("coverage", {})
    ax = [t for t in cov.get("trusted_base", []) if t.startswith("axioms reported")]
    out.append("**%s** — obligations %s (discharged %s), quick evaluations %s. Technique: %s\n\n%s\n\nTrusted / assumed: %s %s\n" % (
        pid, cov.get("obligations", "?"), cov.get("discharged", "?"), cov.get("evaluations", "?"), c.get("technique", ""),
        c["level_claimed"]["text"], c["level_note"], ("(" + ax[0] + ")") if ax else ""))
out.append("### 9.6 Trusted base as measured (generated from the `Print Assumptions` output each check stores in its evidence)\n")
out.append("`assumptions_by_theorem` in evidence/<id>.json maps every property theorem to what `Print Assumptions` printed under it on that run.\n"
           "Entries named `PrimFloat.*` / `PrimInt63.*` are the kernel's primitive machine types and operations (not axioms of mine);\n"
           "`FloatAxioms.*` are the standard library's specification of those primitives against `SpecFloat`;\n"
           "`ClassicalDedekindReals.*`, `Classical_Prop.classic`, `functional_extensionality_dep` come with `Coq.Reals` / Flocq.\n"
           "No file declares an axiom itself (tools/lint_coq.py, run by setup.sh: Axiom/Parameter/Conjecture/Admitted/admit,\n"
           "Variable/Hypothesis outside a Section, guard switches).  No `native_compute` anywhere.  Extraction uses `ExtrOcamlBasic` only,\n"
           "no `Extract Constant` / `Extract Inductive` directive of its own (grep over coq/ and coq/extract/); the directives in force are\n"
           "exactly those of Coq 8.16.1's ExtrOcamlBasic.v: `Extract Inductive` bool => bool, option => option, unit => unit, list => list,\n"
           "prod => ( * ), sumbool => bool, sumor => option; `Extract Inlined Constant` andb => (&&), orb => (||).  nat, positive, N, Z, Q,\n"
           "Qc, ascii and string stay the extracted Coq datatypes (no machine integers), so no overflow can hide in the extracted models.\n")
out += ["| property | theorems with Print Assumptions | closed under the global context | library axioms / primitives relied on by the others |", "|---|---|---|---|"]
for c in man["checks"]:
    pid = c["property_id"]
    try:
        abt = json.load(open(V + "/evidence/%s.json" % pid))["coverage"].get("assumptions_by_theorem", {})
    except Exception:
        abt = {}
    ne = {k: v for k, v in abt.items() if v}
    tot = set()
    for v in ne.values():
        tot |= {str(x) for x in v}
    real = sorted(x for x in tot if not (x.startswith("PrimFloat.") or x.startswith("PrimInt63.") or "." not in x))
    prim = len(tot) - len(real)
    txt = ", ".join(real) + ((" + " if real else "") + "%d primitive float/int63 operations" % prim if prim else "")
    out.append("| %s | %d | %d | %s |" % (pid, len(abt), len(abt) - len(ne), (txt + " (in: " + ", ".join(sorted(ne)) + ")") if ne else "-"))
out.append("")
open(V + "/DESIGN.md", "w").write(head + "\n".join(out) + "\n")
print("DESIGN.md regenerated: %d fixed rows, %d findings, %d seeded, %d properties" % (len(fixed), len(seen), sum(stats.values()), len(man["checks"])))
