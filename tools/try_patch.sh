#!/bin/sh
# tools/try_patch.sh <patch.diff> <Cxx> [tier]  — apply a patch in a scratch worktree of /repo HEAD, run one check
# against it (VERIF_REPO), print the verdict lines, remove the worktree.  Never touches /repo's working tree.
set -u
P=$(readlink -f "$1"); ID=$2; TIER=${3:-quick}
WT=$(mktemp -d /tmp/wt_try_XXXXXX); rmdir "$WT"
git -C /repo worktree add -q "$WT" HEAD || exit 2
if ! git -C "$WT" apply "$P"; then echo "PATCH DOES NOT APPLY"; git -C /repo worktree remove --force "$WT"; exit 2; fi
cd /verif && VERIF_REPO="$WT" timeout 3000 ./check.py "$ID" --tier "$TIER" 2>&1 | grep -E "VIOLATION|KNOWN-FINDING|why:|no longer shown|INTERNAL| (OK|FAIL) tier" | cut -c1-400 | head -12
git -C /repo worktree remove --force "$WT"
