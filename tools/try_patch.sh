#!/bin/sh
# tools/try_patch.sh [-R] <patch.diff> <Cxx> [tier]  — apply a patch (or its reverse with -R) in a scratch worktree of
# /repo HEAD, run one check against it (VERIF_REPO), print the verdict lines, remove the worktree.  Never touches /repo.
set -u
REV=""
if [ "$1" = "-R" ]; then REV="-R"; shift; fi
P=$(readlink -f "$1"); ID=$2; TIER=${3:-quick}
WT=$(mktemp -d /tmp/wt_try_XXXXXX); rmdir "$WT"
git -C /repo worktree add -q "$WT" HEAD || exit 2
if ! git -C "$WT" apply $REV "$P"; then echo "PATCH DOES NOT APPLY"; git -C /repo worktree remove --force "$WT"; exit 2; fi
cd /verif && VERIF_REPO="$WT" timeout 3000 ./check.py "$ID" --tier "$TIER" 2>&1 | grep -E "VIOLATION|KNOWN-FINDING|why:|no longer shown|INTERNAL| (OK|FAIL) tier" | cut -c1-400 | head -12
git -C /repo worktree remove --force "$WT"
