#!/usr/bin/env python3
"""Lint the Coq development for constructs the brief forbids.

 * Admitted / admit / Axiom / Parameter / Conjecture / Admit Obligations anywhere (outside comments);
 * Variable(s) / Hypothesis / Hypotheses / Context outside a Section (each declares an axiom there);
 * switches that turn off kernel checks (Unset Guard Checking, bypass_check, -type-in-type, ...).
Prints offending lines, exits 1 if any.  Usage: tools/lint_coq.py [dir ...]   (default: coq/)
"""
import os
import re
import sys

ROOT = os.path.dirname(os.path.dirname(os.path.abspath(__file__)))


def strip_comments(src):
    out = []
    depth = 0
    i = 0
    in_str = False
    while i < len(src):
        c = src[i]
        if depth == 0 and c == '"':
            in_str = not in_str
            out.append(c)
            i += 1
            continue
        if not in_str and src.startswith("(*", i):
            depth += 1
            i += 2
            continue
        if not in_str and depth > 0 and src.startswith("*)", i):
            depth -= 1
            i += 2
            continue
        if depth == 0:
            out.append(c)
        elif c == "\n":
            out.append("\n")
        i += 1
    return "".join(out)


FORBIDDEN = re.compile(
    r"\b(Admitted|admit|Axiom|Axioms|Parameter|Parameters|Conjecture|Conjectures)\b|Admit\s+Obligations|"
    r"Unset\s+Guard\s+Checking|Unset\s+Positivity\s+Checking|Unset\s+Universe\s+Checking|bypass_check|"
    r"type-in-type|impredicative-set"
)
SECTION_ONLY = re.compile(r"^\s*(Local\s+|Global\s+|#\[[^\]]*\]\s*)*(Variable|Variables|Hypothesis|Hypotheses|Context)\b")
OPEN = re.compile(r"^\s*Section\s+([A-Za-z_][\w']*)\s*\.")
MOPEN = re.compile(r"^\s*Module\s+(Type\s+)?([A-Za-z_][\w']*)\b[^:=]*\.\s*$")
END = re.compile(r"^\s*End\s+([A-Za-z_][\w']*)\s*\.")


def lint(path):
    bad = []
    src = strip_comments(open(path, encoding="utf-8", errors="replace").read())
    stack = []
    for n, line in enumerate(src.split("\n"), 1):
        m = FORBIDDEN.search(line)
        if m:
            bad.append((path, n, "forbidden: " + m.group(0), line.strip()))
        m = OPEN.match(line)
        if m:
            stack.append(("S", m.group(1)))
        m = MOPEN.match(line)
        if m:
            stack.append(("M", m.group(2)))
        m = END.match(line)
        if m and stack:
            # pop to the matching name
            for k in range(len(stack) - 1, -1, -1):
                if stack[k][1] == m.group(1):
                    del stack[k:]
                    break
        if SECTION_ONLY.match(line) and not any(k == "S" for k, _ in stack):
            bad.append((path, n, "outside a Section", line.strip()))
    return bad


def main():
    dirs = sys.argv[1:] or [os.path.join(ROOT, "coq")]
    bad = []
    nfiles = 0
    for d in dirs:
        for base, _, files in os.walk(d):
            for f in files:
                if f.endswith(".v"):
                    nfiles += 1
                    bad += lint(os.path.join(base, f))
    for path, n, what, line in bad:
        print("%s:%d: %s: %s" % (os.path.relpath(path, ROOT), n, what, line))
    print("lint_coq: %d files, %d problems" % (nfiles, len(bad)))
    return 1 if bad else 0


if __name__ == "__main__":
    sys.exit(main())
