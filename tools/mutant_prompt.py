#!/usr/bin/env python3
"""tools/mutant_prompt.py Cxx <n>  — print the prompt for a fresh mutation sub-agent (property text only)."""
import json, sys
pid, n = sys.argv[1], sys.argv[2]
p = next(json.loads(l) for l in open('/verif/properties.jsonl') if json.loads(l)['id'] == pid)
wt = "/tmp/mut_%s_%s" % (pid.lower(), n)
print(f"""You are testing how robust a C++ library's guarantees are against subtle regressions. The library is lisitsyn/tapkee (header-only C++ dimensionality reduction library on Eigen). Create your own scratch git worktree of it and work ONLY there: `git -C /repo worktree add {wt} HEAD` (never edit /repo itself, never look at or touch /verif). Build flags that work: `g++ -std=gnu++23 -fopenmp -DFMT_HEADER_ONLY=1 -DTAPKEE_USE_LGPL_COVERTREE -I{wt}/include -isystem /root/miniconda/include -isystem /usr/include/eigen3 -O1 prog.cpp -o prog` (add -DTAPKEE_USE_FIBONACCI_HEAP to select the Fibonacci-heap Dijkstra). The unit tests live in {wt}/test/unit (gtest under /root/miniconda; configure with `cmake -S {wt} -B {wt}/_build -G Ninja -DBUILD_TESTS=ON -DCMAKE_BUILD_TYPE=RelWithDebInfo -DCMAKE_PREFIX_PATH=/root/miniconda -DCMAKE_CXX_FLAGS=-Wno-error`, build with `cmake --build {wt}/_build -j4` (shared machine: at most -j4), run `ctest --test-dir {wt}/_build -j8`; binaries land in {wt}/bin).

The property (a guarantee users rely on):
  id: {p['id']} — {p['title']}
  statement: {p['statement']}
  quantified over: {p['quantifier']['text']}
  code it is anchored in: {', '.join(p['anchors']['files'])}

YOUR TASK: produce ONE realistic change to the library source (the kind of regression a well-meaning refactoring, optimisation or "cleanup" could introduce; a few lines; in the anchored files or code they call) that BREAKS this property while the library still compiles and ALL existing unit tests still pass. It must need something specific to manifest — an unusual input, a particular multi-step sequence of operations, a boundary size, ties/duplicates, a particular configuration or two cooperating sites that each look fine alone — NOT something ordinary use would expose at once. Prefer a mechanism different from an obvious one-token comparison flip if you can find one. Variant number {n}: if n > 1 pick a different mechanism / different function than the most obvious one.
Deliver in {wt}/MUTANT/: (1) patch.diff (`git -C {wt} diff` of the source change only), (2) demo.cpp (or demo.sh) — a small self-contained program using the library that exits 0 / prints PASS on the ORIGINAL source and exits non-zero / prints FAIL with your change, demonstrating the property violation (state in a comment what specific condition it needs), (3) meta.json with keys: property, summary, mechanism, needs_to_manifest, files_changed, demo_build_cmd, demo_passes_on_original (true/false as you verified), demo_fails_on_mutant (verified), unit_tests_pass_on_mutant (verified: you must actually build and run the unit tests with the change). Verify all three claims yourself. Do not remove the worktree (the coordinator will), but delete {wt}/_build when you are done with it. Final answer: the path {wt}/MUTANT and a 5-line summary.""")
