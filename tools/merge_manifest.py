#!/usr/bin/env python3
"""tools/merge_manifest.py Cxx [agentfile]  — merge an agent's manifest proposal into MANIFEST.json (coordinator only)."""
import json, sys
pid = sys.argv[1].upper()
src = sys.argv[2] if len(sys.argv) > 2 else "/verif/agents/%s_manifest.json" % pid.lower()
prop = json.load(open(src))
m = json.load(open("/verif/MANIFEST.json"))
entry = {
    "property_id": pid,
    "quick_cmd": "./check.py %s --tier quick" % pid,
    "thorough_cmd": "./check.py %s --tier thorough" % pid,
    "evidence_file": "/verif/evidence/%s.json" % pid,
    "replay_cmd_template": "./check.py %s --replay {path}" % pid,
    "engine": "coq+correspondence",
    "level_claimed": {"category": prop["level_claimed"].get("category", "proof"),
                      "text": prop["level_claimed"]["text"],
                      "design_ref": prop["level_claimed"].get("design_ref", "DESIGN.md section 6 " + pid)},
    "level_note": prop["level_note"],
    "technique": prop.get("technique", "Coq proof + model/implementation correspondence"),
}
m["checks"] = [c for c in m["checks"] if c["property_id"] != pid] + [entry]
m["checks"].sort(key=lambda c: c["property_id"])
m["not_applicable"] = [n for n in m.get("not_applicable", []) if n["property_id"] != pid]
for e in m.get("engines", []):
    if e["name"] == "coq+correspondence":
        e["serves_properties"] = sorted(c["property_id"] for c in m["checks"])
json.dump(m, open("/verif/MANIFEST.json", "w"), indent=1)
print("merged", pid, "checks:", [c["property_id"] for c in m["checks"]])
