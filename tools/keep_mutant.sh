#!/bin/sh
# tools/keep_mutant.sh <Cxx> <n> [extra demo flags]  — confirm a seeded change delivered in /tmp/mut_<cxx>_<n>/MUTANT and keep it
# as /verif/seeded/<Cxx>_<n>/ : patch applies to /repo HEAD, unit tests pass with it, demo passes on HEAD and fails with it,
# then run the property's quick check against it and record everything in meta.json.  Coordinator only.
set -u
ID=$1; N=$2; shift 2; XF="$*"
low=$(echo $ID | tr A-Z a-z)
SRC=/tmp/mut_${low}_$N/MUTANT
OUT=/verif/seeded/${ID}_$N; mkdir -p $OUT
# re-confirmation of an already kept change (the agent's scratch directory is gone): take the files from seeded/<id>/ itself
if [ ! -d $SRC ] && [ -f $OUT/patch.diff ]; then
  SRC=/tmp/keep_src_$$; rm -rf $SRC; mkdir -p $SRC; cp $OUT/patch.diff $OUT/demo.* $SRC/ 2>/dev/null; cp $OUT/agent_meta.json $SRC/meta.json
fi
cp $SRC/patch.diff $OUT/; cp $SRC/demo.* $OUT/ 2>/dev/null; cp $SRC/meta.json $OUT/agent_meta.json
WT=/tmp/wt_keep_${low}_$N; rm -rf $WT; git -C /repo worktree prune; git -C /repo worktree add -q $WT HEAD || exit 2
if ! git -C $WT apply $OUT/patch.diff; then echo "PATCH DOES NOT APPLY to HEAD"; git -C /repo worktree remove --force $WT; exit 2; fi
F="-std=gnu++23 -fopenmp -DFMT_HEADER_ONLY=1 -DTAPKEE_USE_LGPL_COVERTREE -isystem /root/miniconda/include -isystem /usr/include/eigen3 -O1 -w $XF"
DEMO_ORIG=skip; DEMO_MUT=skip
if [ -f $OUT/demo.cpp ]; then
  g++ $F -I/repo/include -I/repo/src $OUT/demo.cpp -o /tmp/keep_demo_o_$$ && { timeout 600 /tmp/keep_demo_o_$$ >/tmp/keep_o_$$.log 2>&1; DEMO_ORIG=$?; }
  g++ $F -I$WT/include -I$WT/src $OUT/demo.cpp -o /tmp/keep_demo_m_$$ && { timeout 600 /tmp/keep_demo_m_$$ >/tmp/keep_m_$$.log 2>&1; DEMO_MUT=$?; }
fi
if [ ! -f $OUT/demo.cpp ] && [ -f $OUT/demo.sh ]; then
  # script demos locate the tree from their own position (<tree>/MUTANT/demo.sh): run a copy inside a clean export and inside the mutated worktree
  OR=/tmp/keep_orig_$$; rm -rf $OR; mkdir -p $OR; git -C /repo archive HEAD | tar -x -C $OR; mkdir -p $OR/MUTANT $WT/MUTANT
  cp $SRC/* $OR/MUTANT/ 2>/dev/null; cp $SRC/* $WT/MUTANT/ 2>/dev/null
  ( cd $OR/MUTANT && ROOT=$OR timeout 1200 bash ./demo.sh >/tmp/keep_o_$$.log 2>&1 ); DEMO_ORIG=$?
  ( cd $WT/MUTANT && ROOT=$WT timeout 1200 bash ./demo.sh >/tmp/keep_m_$$.log 2>&1 ); DEMO_MUT=$?
  rm -rf $OR $WT/MUTANT
fi
( cd $WT && cmake -S . -B _build -G Ninja -DBUILD_TESTS=ON -DCMAKE_BUILD_TYPE=RelWithDebInfo -DCMAKE_PREFIX_PATH=/root/miniconda -DCMAKE_CXX_FLAGS=-Wno-error >/dev/null 2>&1 && cmake --build _build -j6 >/dev/null 2>&1; ctest --test-dir _build -j8 --timeout 900 2>&1 | grep -E "tests passed|tests failed" ) > /tmp/keep_ut_$$.log 2>&1
UT=$(cat /tmp/keep_ut_$$.log)
rm -rf $WT/_build $WT/bin
CHECK=$(cd /verif && VERIF_EVIDENCE_DIR=/verif/build/evidence_scratch VERIF_REPO=$WT timeout 3000 ./check.py $ID --tier quick 2>&1 | grep -E "VIOLATION|KNOWN-FINDING|why:|no longer shown|INTERNAL| (OK|FAIL) tier" | cut -c1-500 | head -8)
git -C /repo worktree remove --force $WT
python3 - "$ID" "$N" "$DEMO_ORIG" "$DEMO_MUT" "$UT" "$CHECK" "$OUT" <<'PY'
import json, sys
pid, n, do, dm, ut, chk, out = sys.argv[1:8]
am = json.load(open(out + "/agent_meta.json"))
verdict = "caught (concrete replay)" if ("VIOLATION" in chk and "no-failing-input-found" not in chk) else \
          ("caught (no-failing-input-found)" if "VIOLATION" in chk else "MISSED")
meta = {"property": pid, "summary": am.get("summary"), "mechanism": am.get("mechanism"),
        "needs_to_manifest": am.get("needs_to_manifest"), "files_changed": am.get("files_changed"),
        "confirmed_by_coordinator": {"patch_applies_to_repo_HEAD": True, "unit_tests_with_change": ut.strip(),
                                     "demo_exit_on_HEAD": do, "demo_exit_with_change": dm,
                                     "check_cmd": "VERIF_REPO=<scratch worktree with patch> ./check.py %s --tier quick" % pid,
                                     "check_output": chk.splitlines()},
        "check_verdict": verdict}
json.dump(meta, open(out + "/meta.json", "w"), indent=1)
print(pid, n, "| demo HEAD rc", do, "| demo mutant rc", dm, "|", ut.strip(), "|", verdict)
PY
rm -rf /tmp/keep_*_$$*
