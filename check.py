#!/usr/bin/env python3
"""./check.py Cxx [--tier quick|thorough] [--replay file]   (see CONVENTIONS.md)"""
import argparse
import importlib
import json
import os
import sys
import traceback

sys.path.insert(0, os.path.dirname(os.path.abspath(__file__)))
import vlib  # noqa: E402


def main():
    ap = argparse.ArgumentParser()
    ap.add_argument("property")
    ap.add_argument("--tier", default=os.environ.get("VERIF_TIER", "quick"),
                    choices=["quick", "thorough"])
    ap.add_argument("--replay", default=None)
    a = ap.parse_args()
    pid = a.property.upper()
    seed = int(os.environ.get("VERIF_SEED", "20260926"))
    os.chdir(vlib.VERIF)
    ctx = vlib.Ctx(pid, a.tier, seed)
    try:
        mod = importlib.import_module("checks." + pid.lower())
    except ImportError:
        traceback.print_exc()
        print("no check module for " + pid)
        sys.exit(3)
    try:
        if a.replay:
            case = json.load(open(a.replay))
            if not hasattr(mod, "replay"):
                print("check %s has no replay entry point" % pid)
                sys.exit(3)
            rc = mod.replay(ctx, case.get("case", case))
            sys.exit(int(rc or 0))
        mod.run(ctx)
        # a run() that returns without finish(): finish with what was recorded
        ctx.finish()
    except vlib.BuildError as ex:
        ctx.unshown("build against the current tree failed: " + str(ex)[-1500:])
        ctx.finish()
    except SystemExit:
        raise
    except Exception:
        traceback.print_exc()
        print("INTERNAL ERROR in check %s (not a verdict)" % pid)
        sys.exit(3)


if __name__ == "__main__":
    main()
