(* FibHeap_Proof_Refuted.v — the constructor as shipped before /repo 5c47b41
   (Dn = 1 + floor(log2 cap)) lets consolidate() leave A[]: a concrete history at
   capacity 31 (found by the C16 search, replayed on the real heap under ASan:
   heap-buffer-overflow in consolidate).  Kept as a regression theorem about the old formula. *)
From Coq Require Import List ZArith.
From TK Require Import FibHeap_Model.
Import ListNotations.
Local Open Scope Z_scope.

Definition thin31 : list op :=
  [Insert 1 11; Insert 2 12; Insert 3 13; Insert 4 14; Insert 5 15; Insert 6 16; Insert 7 17;
   Insert 8 18; Insert 9 19; Insert 10 20; Insert 12 22; Insert 13 23; Insert 14 24; Insert 15 25;
   Insert 18 28; Insert 19 29; Insert 20 30; Insert 21 31; Insert 22 32; Insert 23 33; Insert 24 34;
   Insert 25 35; Insert 26 36; Insert 27 37; Insert 28 38; Insert 29 39; Insert 30 40; ExtractMin;
   Decrease 27 (-1); Decrease 10 (-2); Insert 17 32; ExtractMin].

Lemma thin31_oob : run (empty_heap 31 (dn_shipped 31)) thin31 = OOB 5 5.
Proof. vm_compute. reflexivity. Qed.

Lemma log2_dn_refuted : exists cap ops d s, 0 <= cap /\ run (empty_heap cap (dn_shipped cap)) ops = OOB d s.
Proof. exists 31, thin31, 5%nat, 5%nat. split; [discriminate|exact thin31_oob]. Qed.
