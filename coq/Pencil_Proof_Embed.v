(* ====================================================================== *)
(*  Pencil_Proof_Embed.v — property C10 end to end for the model of the    *)
(*  three embed() bodies (Pencil_Model.embed_body): for EVERY eigensolver  *)
(*  oracle whose answer on what it reads is a full ascending decomposition *)
(*  the method returns a projection matrix whose columns solve the         *)
(*  property's generalised problem for the d smallest eigenvalues          *)
(*  (optimal among B-orthonormal frames), the sample mean, and the centred *)
(*  samples projected on those columns.                                    *)
(* ====================================================================== *)
From Coq Require Import Field Ring Arith Lia List Bool.
From TK Require Import Mat_Sums Mat_Core Mat_EigSelect Spectral_KyFan Pencil_Model Pencil_Spec
     Pencil_Proof_Sums Pencil_Proof Pencil_Proof_KyFan.

Section Embed.
  Context {F : Type} {Fo : FieldOps F} {Ff : IsField F} {Fle : OrderedField F}.
  Add Field EmbedField : (@Fth F Fo Ff).
  Local Open Scope nat_scope.
  Local Open Scope F_scope.

  Definition embed_correct (D d N : nat) (X A B : mat F) (r : embed_result) : Prop :=
    gen_eig_solution D d A B (e_proj r) (e_vals r) /\
    (forall f, e_mean r f = sumn N (fun s => X f s) / of_nat N) /\
    (forall s j, e_emb r s j = dot D (mcol (e_proj r) j) (vsub (fvec X s) (e_mean r))) /\
    (of_nat N <> 0 -> forall j, sumn N (fun s => e_emb r s j) = 0) /\
    quad D d A (e_proj r) = sumn d (e_vals r) /\
    (forall Q, meq d d (mmul D (mtrans Q) (mmul D B Q)) mI -> fle (quad D d A (e_proj r)) (quad D d A Q)).

  Theorem embed_body_correct D d N (X A B : mat F) (p : pencil F) oracle V lam :
    solver_sees D A B p -> d <= D -> oracle (seen p) = (V, lam) ->
    full_contract D (p_lhs (seen p)) (p_rhs (seen p)) V lam -> ascending D lam ->
    exists r, embed_body oracle p D d N X = Ok r /\ embed_correct D d N X A B r.
  Proof.
    intros Hsees Hd Ho Hc Hasc. unfold embed_body. rewrite Ho.
    destruct (select_cols_ok D d V Hd) as [P [Esel HP]]. rewrite Esel.
    eexists. split; [reflexivity|]. cbn [e_proj e_mean e_emb e_vals].
    destruct Hsees as [HA HB].
    pose proof (full_contract_meq D _ A _ B V lam HA HB Hc) as Hc'.
    destruct Hc' as [H1 [H2 H3]].
    repeat split.
    - apply (selected_solves D d A B V P lam Hd (conj H1 H2) Esel).
    - apply (selected_solves D d A B V P lam Hd (conj H1 H2) Esel).
    - intros f. apply compute_mean_is_mean.
    - intros HN j. apply embedding_columns_sum_to_zero. assumption.
    - apply (selected_attains D d A B V P lam Hd (conj H1 (conj H2 H3)) Esel).
    - intros Q HQ.
      apply (selected_is_optimal D d A B V P Q lam Hd (conj H1 (conj H2 H3)) Hasc Esel HQ).
  Qed.

  Theorem npe_embed_correct D d N (X : mat F) (W : sparse F) oracle V lam :
    indices_ok N W -> d <= D ->
    oracle (seen (npe_repaired X N W)) = (V, lam) ->
    full_contract D (p_lhs (seen (npe_repaired X N W))) (p_rhs (seen (npe_repaired X N W))) V lam ->
    ascending D lam ->
    exists r, npe_embed oracle D d N X W = Ok r /\
              embed_correct D d N X (npe_lhs N X W) (npe_rhs N X) r.
  Proof.
    intros Hok. apply embed_body_correct. apply npe_seen_gen. assumption.
  Qed.

  Theorem lltsa_embed_correct D d N (X : mat F) (W : sparse F) oracle V lam :
    of_nat N <> 0 -> indices_ok N W -> d <= D ->
    oracle (seen (lltsa_centred X N W)) = (V, lam) ->
    full_contract D (p_lhs (seen (lltsa_centred X N W))) (p_rhs (seen (lltsa_centred X N W))) V lam ->
    ascending D lam ->
    exists r, lltsa_embed oracle D d N X W = Ok r /\
              embed_correct D d N X (lltsa_lhs N X W) (lltsa_rhs N X) r.
  Proof.
    intros HN Hok. apply embed_body_correct. apply lltsa_seen_gen; assumption.
  Qed.

  Theorem lpp_embed_correct D d N (X : mat F) (L : sparse F) (dv : vec F) oracle V lam :
    indices_ok N L -> d <= D ->
    oracle (seen (lpp_repaired X N L dv)) = (V, lam) ->
    full_contract D (p_lhs (seen (lpp_repaired X N L dv))) (p_rhs (seen (lpp_repaired X N L dv))) V lam ->
    ascending D lam ->
    exists r, lpp_embed oracle D d N X L dv = Ok r /\
              embed_correct D d N X (lpp_lhs N X L) (lpp_rhs N X dv) r.
  Proof.
    intros Hok. apply embed_body_correct. apply lpp_seen_gen. assumption.
  Qed.

  (* target_dimension beyond the number of features leaves the eigenvector matrix: what the
     validate() checks added by fix F21 exclude *)
  Theorem embed_body_out_of_range D d N (X : mat F) (p : pencil F) oracle :
    D < d -> embed_body oracle p D d N X = OOB 3 d D.
  Proof.
    intros Hd. unfold embed_body. destruct (oracle (seen p)) as [V lam].
    rewrite (select_cols_oob D d V Hd). reflexivity.
  Qed.

End Embed.
