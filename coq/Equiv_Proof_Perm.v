(* ====================================================================== *)
(*  Equiv_Proof_Perm.v — C12: sums over a permuted index set, and the      *)
(*  permutation equivariance of every assemble stage of Equiv_Model.v.     *)
(* ====================================================================== *)
Require Import Field Ring Arith Lia List Bool Permutation.
From TK Require Import Mat_Sums Mat_Core Equiv_Model Equiv_Spec.
Import ListNotations.

(* ---------------------------------------------------------------------- *)
(* bijections of [0,n) as permutations of seq 0 n                          *)
(* ---------------------------------------------------------------------- *)
Lemma is_bij_sym n p q : is_bij n p q -> is_bij n q p.
Proof. intros (H1 & H2 & H3 & H4). repeat split; assumption. Qed.

Lemma is_bij_id n : is_bij n (fun i => i) (fun i => i).
Proof. repeat split; intros; assumption || reflexivity. Qed.

Lemma is_bij_inj n p q i j :
  is_bij n p q -> i < n -> j < n -> q i = q j -> i = j.
Proof.
  intros (_ & _ & _ & H4) Hi Hj E.
  rewrite <- (H4 i Hi), <- (H4 j Hj), E. reflexivity.
Qed.

Lemma NoDup_map_bij n p q l :
  is_bij n p q -> NoDup l -> (forall x, In x l -> x < n) -> NoDup (map q l).
Proof.
  intros Hb Hnd. induction Hnd as [|x l Hx Hnd IH]; intros Hr; cbn [map].
  - constructor.
  - constructor.
    + intros Hin. apply in_map_iff in Hin. destruct Hin as (y & Hy & Hyl).
      assert (y = x) by (eapply is_bij_inj; eauto; apply Hr; [right|left]; auto).
      subst y. contradiction.
    + apply IH. intros y Hy. apply Hr. right. exact Hy.
Qed.

Lemma map_bij_perm n p q :
  is_bij n p q -> Permutation (map q (seq 0 n)) (seq 0 n).
Proof.
  intros Hb. apply NoDup_Permutation_bis.
  - eapply NoDup_map_bij; eauto using seq_NoDup. intros x Hx. apply in_seq in Hx. lia.
  - rewrite map_length. lia.
  - intros y Hy. apply in_map_iff in Hy. destruct Hy as (x & <- & Hx).
    apply in_seq in Hx. apply in_seq. destruct Hb as (_ & Hq & _). specialize (Hq x). lia.
Qed.

Section PermSums.
  Context {F : Type} {Fo : FieldOps F} {Ff : IsField F}.
  Add Field EquivPermField : (@Fth F Fo Ff).
  Local Open Scope F_scope.

  (* ---------------- lsum ---------------- *)
  Lemma lsum_app {A} (l l' : list A) f : lsum (l ++ l') f = lsum l f + lsum l' f.
  Proof. induction l as [|x r IH]; cbn [lsum app]; [ring|]. rewrite IH. ring. Qed.

  Lemma lsum_ext {A} (l : list A) f g :
    (forall x, In x l -> f x = g x) -> lsum l f = lsum l g.
  Proof.
    induction l as [|x r IH]; intros H; cbn [lsum]; [reflexivity|].
    rewrite H by (left; reflexivity). rewrite IH by (intros; apply H; right; assumption).
    reflexivity.
  Qed.

  Lemma lsum_map {A B} (g : A -> B) (l : list A) f :
    lsum (map g l) f = lsum l (fun x => f (g x)).
  Proof. induction l as [|x r IH]; cbn [lsum map]; [reflexivity|]. rewrite IH. reflexivity. Qed.

  Lemma lsum_perm {A} (l l' : list A) f : Permutation l l' -> lsum l f = lsum l' f.
  Proof.
    induction 1 as [|x l l' _ IH|x y l|l l' l'' _ IH1 _ IH2]; cbn [lsum].
    - reflexivity.
    - rewrite IH. reflexivity.
    - ring.
    - rewrite IH1. exact IH2.
  Qed.

  Lemma lsum_zero {A} (l : list A) : lsum l (fun _ => 0) = 0.
  Proof. induction l as [|x r IH]; cbn [lsum]; [reflexivity|]. rewrite IH. ring. Qed.

  Lemma lsum_add {A} (l : list A) f g :
    lsum l (fun x => f x + g x) = lsum l f + lsum l g.
  Proof. induction l as [|x r IH]; cbn [lsum]; [ring|]. rewrite IH. ring. Qed.

  Lemma lsum_mul_l {A} (l : list A) c f : lsum l (fun x => c * f x) = c * lsum l f.
  Proof. induction l as [|x r IH]; cbn [lsum]; [ring|]. rewrite IH. ring. Qed.

  Lemma sumn_lsum n (f : nat -> F) : sumn n f = lsum (seq 0 n) f.
  Proof.
    induction n as [|n IH]; [reflexivity|].
    rewrite seq_S, lsum_app. cbn [sumn lsum Nat.add]. rewrite IH. ring.
  Qed.

  (* ---------------- THE reindexing lemma ---------------- *)
  Lemma sumn_perm n p q (f : nat -> F) :
    is_bij n p q -> sumn n (fun i => f (q i)) = sumn n f.
  Proof.
    intros Hb. rewrite !sumn_lsum. rewrite <- (lsum_map q (seq 0 n) f).
    apply lsum_perm. eapply map_bij_perm; eauto.
  Qed.

  Lemma sumn_perm2 n p q (f : nat -> nat -> F) :
    is_bij n p q ->
    sumn n (fun i => sumn n (fun j => f (q i) (q j))) = sumn n (fun i => sumn n (fun j => f i j)).
  Proof.
    intros Hb.
    rewrite (sumn_ext n _ (fun i => sumn n (fun j => f (q i) j))).
    - exact (sumn_perm n p q (fun i => sumn n (fun j => f i j)) Hb).
    - intros i _. exact (sumn_perm n p q (fun j => f (q i) j) Hb).
  Qed.

  (* ---------------- centring ---------------- *)
  Lemma colsum_pact n p q M j :
    is_bij n p q -> colsum n (pact q M) j = colsum n M (q j).
  Proof. intros Hb. unfold colsum, pact. exact (sumn_perm n p q (fun i => M i (q j)) Hb). Qed.

  Lemma colmean_pact n p q M j :
    is_bij n p q -> colmean n (pact q M) j = colmean n M (q j).
  Proof. intros Hb. unfold colmean. rewrite (colsum_pact n p q) by assumption. reflexivity. Qed.

  Lemma grandmean_pact n p q M :
    is_bij n p q -> grandmean n n (pact q M) = grandmean n n M.
  Proof.
    intros Hb. unfold grandmean, totsum, pact.
    rewrite (sumn_perm2 n p q (fun i j => M i j) Hb). reflexivity.
  Qed.

  (* centerMatrix commutes with every simultaneous permutation of rows and columns;
     holds for EVERY matrix, entry by entry, also outside the n x n box *)
  Theorem center_matrix_perm n p q M i j :
    is_bij n p q ->
    center_matrix n (pact q M) i j = pact q (center_matrix n M) i j.
  Proof.
    intros Hb. unfold center_matrix.
    rewrite (grandmean_pact n p q), !(colmean_pact n p q) by assumption.
    reflexivity.
  Qed.

  (* ---------------- callback tables ---------------- *)
  Lemma lin_kernel_perm D q X i j :
    lin_kernel D (perm_rows q X) i j = pact q (lin_kernel D X) i j.
  Proof. reflexivity. Qed.

  Lemma sq_dist_perm D q X i j :
    sq_dist D (perm_rows q X) i j = pact q (sq_dist D X) i j.
  Proof. reflexivity. Qed.

  Lemma kernel_sq_dist_perm q K l r :
    kernel_sq_dist (pact q K) l r = pact q (kernel_sq_dist K) l r.
  Proof. reflexivity. Qed.

  (* the callbacks are asked for i <= j only: the table is a function of the
     unordered pair iff the callback is symmetric *)
  Lemma dist_sq_matrix_of_sym n dist i j :
    msym n dist -> i < n -> j < n -> dist_sq_matrix dist i j = dist i j * dist i j.
  Proof.
    intros Hs Hi Hj. unfold dist_sq_matrix. destruct (Nat.leb i j); [reflexivity|].
    rewrite (Hs j i) by assumption. reflexivity.
  Qed.

  Lemma kernel_matrix_of_sym n (kern : mat F) i j :
    msym n kern -> i < n -> j < n -> kernel_matrix kern i j = kern i j.
  Proof.
    intros Hs Hi Hj. unfold kernel_matrix. destruct (Nat.leb i j); [reflexivity|].
    apply Hs; assumption.
  Qed.

  Lemma msym_pact n p q (M : mat F) : is_bij n p q -> msym n M -> msym n (pact q M).
  Proof.
    intros (_ & Hq & _) Hs i j Hi Hj. unfold pact. apply Hs; apply Hq; assumption.
  Qed.

  Theorem dist_sq_matrix_perm n p q dist :
    is_bij n p q -> msym n dist ->
    meq n n (dist_sq_matrix (pact q dist)) (pact q (dist_sq_matrix dist)).
  Proof.
    intros Hb Hs i j Hi Hj. pose proof Hb as (_ & Hq & _).
    rewrite (dist_sq_matrix_of_sym n) by (try assumption; eapply msym_pact; eauto).
    unfold pact at 3. rewrite (dist_sq_matrix_of_sym n) by (try assumption; apply Hq; assumption).
    reflexivity.
  Qed.

  Theorem kernel_matrix_perm n p q (kern : mat F) :
    is_bij n p q -> msym n kern ->
    meq n n (kernel_matrix (pact q kern)) (pact q (kernel_matrix kern)).
  Proof.
    intros Hb Hs i j Hi Hj. pose proof Hb as (_ & Hq & _).
    rewrite (kernel_matrix_of_sym n) by (try assumption; eapply msym_pact; eauto).
    unfold pact at 2. rewrite (kernel_matrix_of_sym n) by (try assumption; apply Hq; assumption).
    reflexivity.
  Qed.

  (* centring only looks inside the box *)
  Lemma center_matrix_meq n A B :
    meq n n A B -> meq n n (center_matrix n A) (center_matrix n B).
  Proof.
    intros H i j Hi Hj. unfold center_matrix, grandmean, totsum, colmean, colsum.
    rewrite (H i j Hi Hj).
    rewrite (sumn_ext n (fun i0 => sumn n (fun j0 => A i0 j0)) (fun i0 => sumn n (fun j0 => B i0 j0)))
      by (intros a Ha; apply sumn_ext; intros b Hb; apply H; assumption).
    rewrite (sumn_ext n (fun i0 => A i0 j) (fun i0 => B i0 j)) by (intros a Ha; apply H; assumption).
    rewrite (sumn_ext n (fun i0 => A i0 i) (fun i0 => B i0 i)) by (intros a Ha; apply H; assumption).
    reflexivity.
  Qed.

  (* MDS: the matrix handed to the solver *)
  Theorem mds_matrix_perm n p q dist :
    is_bij n p q -> msym n dist ->
    meq n n (mds_matrix n (pact q dist)) (pact q (mds_matrix n dist)).
  Proof.
    intros Hb Hs i j Hi Hj. unfold mds_matrix.
    rewrite (center_matrix_meq n _ _ (dist_sq_matrix_perm n p q dist Hb Hs) i j Hi Hj).
    rewrite (center_matrix_perm n p q) by assumption. reflexivity.
  Qed.

  (* KPCA: the matrix handed to the solver *)
  Theorem kpca_matrix_perm n p q kern :
    is_bij n p q -> msym n kern ->
    meq n n (kpca_matrix n (pact q kern)) (pact q (kpca_matrix n kern)).
  Proof.
    intros Hb Hs i j Hi Hj. unfold kpca_matrix.
    rewrite (center_matrix_meq n _ _ (kernel_matrix_perm n p q kern Hb Hs) i j Hi Hj).
    rewrite (center_matrix_perm n p q) by assumption. reflexivity.
  Qed.

  (* ---------------- PCA: mean and covariance are INVARIANT ---------------- *)
  Theorem mean_vec_perm n p q X t :
    is_bij n p q -> mean_vec n (perm_rows q X) t = mean_vec n X t.
  Proof.
    intros Hb. unfold mean_vec, perm_rows.
    rewrite (sumn_perm n p q (fun i => X i t) Hb). reflexivity.
  Qed.

  Lemma cov_accum_entry n X a b :
    cov_accum n X a b = if Nat.leb a b then sumn n (fun i => 1 * (X i a * X i b)) else 0.
  Proof.
    induction n as [|n IH]; cbn [cov_accum sumn].
    - unfold mconst. destruct (Nat.leb a b); reflexivity.
    - unfold rank_update_upper. rewrite IH. destruct (Nat.leb a b); reflexivity.
  Qed.

  Lemma cov_upper_entry n X a b :
    cov_upper n X a b =
      if Nat.leb a b
      then sumn n (fun i => 1 * (X i a * X i b)) / of_nat n + - (1) * (mean_vec n X a * mean_vec n X b)
      else 0 / of_nat n.
  Proof.
    unfold cov_upper, rank_update_upper. rewrite cov_accum_entry.
    destruct (Nat.leb a b); reflexivity.
  Qed.

  Theorem cov_upper_perm n p q X a b :
    is_bij n p q -> cov_upper n (perm_rows q X) a b = cov_upper n X a b.
  Proof.
    intros Hb. rewrite !cov_upper_entry. rewrite !(mean_vec_perm n p q) by assumption.
    unfold perm_rows. rewrite (sumn_perm n p q (fun i => 1 * (X i a * X i b)) Hb). reflexivity.
  Qed.

  Corollary pca_matrix_shipped_perm n p q X a b :
    is_bij n p q -> pca_matrix_shipped n (perm_rows q X) a b = pca_matrix_shipped n X a b.
  Proof.
    intros Hb. unfold pca_matrix_shipped, sym_avg. rewrite !(cov_upper_perm n p q) by assumption.
    reflexivity.
  Qed.

  Corollary pca_matrix_fixed_perm n p q X a b :
    is_bij n p q -> pca_matrix_fixed n (perm_rows q X) a b = pca_matrix_fixed n X a b.
  Proof.
    intros Hb. unfold pca_matrix_fixed, sym_avg, sym_from_upper, read_upper.
    rewrite !(cov_upper_perm n p q) by assumption. reflexivity.
  Qed.

  Theorem cov_full_perm n p q X a b :
    is_bij n p q -> cov_full n (perm_rows q X) a b = cov_full n X a b.
  Proof.
    intros Hb. unfold cov_full. rewrite !(mean_vec_perm n p q) by assumption.
    unfold perm_rows. rewrite (sumn_perm n p q (fun i => X i a * X i b) Hb). reflexivity.
  Qed.

  (* project(): rows of the result are permuted (same projection matrix, same mean) *)
  Theorem project_perm D P m q X i c :
    project D P m (perm_rows q X) i c = project D P m X (q i) c.
  Proof. reflexivity. Qed.

  (* ---------------- local Grams ---------------- *)
  (* nb' = p o nb o (position): the i-th neighbour of sample (p x) is p (nb i) *)
  Theorem lle_gram_perm n p q K x nb i j :
    is_bij n p q -> x < n -> nb i < n -> nb j < n ->
    lle_gram (pact q K) (p x) (fun t => p (nb t)) i j = lle_gram K x nb i j.
  Proof.
    intros (_ & _ & Hqp & _) Hx Hi Hj. unfold lle_gram, pact.
    rewrite !Hqp by assumption. reflexivity.
  Qed.

  Theorem local_gram_perm n p q (K : mat F) nb i j :
    is_bij n p q -> nb i < n -> nb j < n ->
    local_gram (pact q K) (fun t => p (nb t)) i j = local_gram K nb i j.
  Proof.
    intros (_ & _ & Hqp & _) Hi Hj. unfold local_gram, pact.
    rewrite !Hqp by assumption. reflexivity.
  Qed.

  Theorem local_centered_gram_perm n k p q K nb :
    is_bij n p q -> (forall t, t < k -> nb t < n) ->
    meq k k (local_centered_gram k (pact q K) (fun t => p (nb t))) (local_centered_gram k K nb).
  Proof.
    intros Hb Hnb. unfold local_centered_gram. apply center_matrix_meq.
    intros i j Hi Hj. eapply local_gram_perm; eauto.
  Qed.

  (* ---------------- Laplacian ---------------- *)
  Lemma delta_bij n p q a i :
    is_bij n p q -> a < n -> i < n -> delta (F:=F) (p a) i = delta a (q i).
  Proof.
    intros (Hp & Hq & Hqp & Hpq) Ha Hi. unfold delta.
    destruct (Nat.eqb (p a) i) eqn:E1; destruct (Nat.eqb a (q i)) eqn:E2; try reflexivity.
    - apply Nat.eqb_eq in E1. apply Nat.eqb_neq in E2. exfalso. apply E2.
      rewrite <- E1. symmetry. apply Hqp. assumption.
    - apply Nat.eqb_neq in E1. apply Nat.eqb_eq in E2. exfalso. apply E1.
      rewrite E2. apply Hpq. assumption.
  Qed.

  Lemma first_row_k_uniform n k nb : 0 < n -> uniform_rows n k nb -> first_row_k nb = k.
  Proof. intros Hn Hu. unfold first_row_k. apply Hu. exact Hn. Qed.

  Lemma uniform_rows_pnbrs n k p q nb :
    is_bij n p q -> uniform_rows n k nb -> uniform_rows n k (pnbrs p q nb).
  Proof.
    intros (_ & Hq & _) Hu a Ha. unfold pnbrs. rewrite map_length. apply Hu. apply Hq. exact Ha.
  Qed.

  Lemma used_nbrs_uniform n k nb a :
    0 < n -> uniform_rows n k nb -> a < n -> used_nbrs nb a = nb a.
  Proof.
    intros Hn Hu Ha. unfold used_nbrs. rewrite (first_row_k_uniform n k) by assumption.
    rewrite <- (Hu a Ha). apply firstn_all.
  Qed.

  Lemma rows_in_bounds_uniform n k nb :
    0 < n -> uniform_rows n k nb -> rows_in_bounds n nb = true.
  Proof.
    intros Hn Hu. unfold rows_in_bounds. apply forallb_forall. intros a Ha.
    apply in_seq in Ha. apply Nat.leb_le.
    rewrite (first_row_k_uniform n k), (Hu a) by (assumption || lia). lia.
  Qed.

  (* generic form: a sum over all (sample, neighbour) pairs of a term that is
     transported by the permutation *)
  Lemma nbr_sum_perm n k p q nb (g g' : nat -> nat -> F) :
    0 < n -> is_bij n p q -> uniform_rows n k nb -> rows_in_range n nb ->
    (forall a b, a < n -> b < n -> g' (p a) (p b) = g a b) ->
    sumn n (fun a => lsum (used_nbrs (pnbrs p q nb) a) (fun b => g' a b)) =
    sumn n (fun a => lsum (used_nbrs nb a) (fun b => g a b)).
  Proof.
    intros Hn Hb Hu Hr Hg. pose proof Hb as (Hp & Hq & Hqp & Hpq).
    rewrite <- (sumn_perm n p q (fun a => lsum (used_nbrs nb a) (fun b => g a b)) Hb).
    apply sumn_ext. intros a Ha.
    rewrite (used_nbrs_uniform n k (pnbrs p q nb)) by
      (try assumption; eapply uniform_rows_pnbrs; eauto).
    rewrite (used_nbrs_uniform n k nb) by (try assumption; apply Hq; assumption).
    unfold pnbrs. rewrite lsum_map. apply lsum_ext. intros b Hbn.
    rewrite <- (Hpq a Ha) at 1. apply Hg.
    - apply Hq; assumption.
    - eapply Hr; [|exact Hbn]. apply Hq; assumption.
  Qed.

  Theorem lap_W_perm n k p q nb h h' :
    0 < n -> is_bij n p q -> uniform_rows n k nb -> rows_in_range n nb ->
    (forall a b, a < n -> b < n -> h' (p a) (p b) = h a b) ->
    meq n n (lap_W n (pnbrs p q nb) h') (pact q (lap_W n nb h)).
  Proof.
    intros Hn Hb Hu Hr Hh i j Hi Hj. unfold lap_W, pact.
    apply (nbr_sum_perm n k p q nb
             (fun a b => (delta b (q i) * delta a (q j) + delta a (q i) * delta b (q j)) * h a b)
             (fun a b => (delta b i * delta a j + delta a i * delta b j) * h' a b));
      try assumption.
    intros a b Ha Hb'. rewrite Hh by assumption.
    rewrite !(delta_bij n p q) by assumption. reflexivity.
  Qed.

  Theorem lap_D_perm n k p q nb h h' :
    0 < n -> is_bij n p q -> uniform_rows n k nb -> rows_in_range n nb ->
    (forall a b, a < n -> b < n -> h' (p a) (p b) = h a b) ->
    veq n (lap_D n (pnbrs p q nb) h') (pvec q (lap_D n nb h)).
  Proof.
    intros Hn Hb Hu Hr Hh i Hi. unfold lap_D, pvec.
    apply (nbr_sum_perm n k p q nb
             (fun a b => (delta a (q i) + delta b (q i)) * h a b)
             (fun a b => (delta a i + delta b i) * h' a b));
      try assumption.
    intros a b Ha Hb'. rewrite Hh by assumption.
    rewrite !(delta_bij n p q) by assumption. reflexivity.
  Qed.

  Theorem lap_L_perm n k p q nb h h' :
    0 < n -> is_bij n p q -> uniform_rows n k nb -> rows_in_range n nb ->
    (forall a b, a < n -> b < n -> h' (p a) (p b) = h a b) ->
    meq n n (lap_L n (pnbrs p q nb) h') (pact q (lap_L n nb h)).
  Proof.
    intros Hn Hb Hu Hr Hh i j Hi Hj. unfold lap_L.
    rewrite (lap_W_perm n k p q nb h h' Hn Hb Hu Hr Hh i j Hi Hj).
    rewrite (lap_D_perm n k p q nb h h' Hn Hb Hu Hr Hh i Hi).
    unfold pact at 2. unfold pvec.
    destruct (Nat.eqb i j) eqn:E1; destruct (Nat.eqb (q i) (q j)) eqn:E2; try reflexivity.
    - apply Nat.eqb_eq in E1. apply Nat.eqb_neq in E2. subst j. contradiction.
    - apply Nat.eqb_neq in E1. apply Nat.eqb_eq in E2. exfalso. apply E1.
      eapply is_bij_inj; eauto.
  Qed.

  (* the heat weights are transported when the distance table is *)
  Lemma heat_perm n p q fexp w dist a b :
    is_bij n p q -> a < n -> b < n ->
    heat fexp w (pact q dist) (p a) (p b) = heat fexp w dist a b.
  Proof.
    intros (_ & _ & Hqp & _) Ha Hb. unfold heat, pact. rewrite !Hqp by assumption. reflexivity.
  Qed.

  (* ---------------- diffusion map ---------------- *)
  Lemma diff_K0_of_sym n fexp w dist i j :
    msym n dist -> i < n -> j < n -> diff_K0 fexp w dist i j = heat fexp w dist i j.
  Proof.
    intros Hs Hi Hj. unfold diff_K0. destruct (Nat.leb i j); [reflexivity|].
    unfold heat. rewrite (Hs j i) by assumption. reflexivity.
  Qed.

  Lemma colsum_meq n (A B : mat F) j : meq n n A B -> j < n -> colsum n A j = colsum n B j.
  Proof. intros H Hj. unfold colsum. apply sumn_ext. intros i Hi. apply H; assumption. Qed.

  Theorem diffusion_matrix_perm n p q fexp fsqrt w dist :
    is_bij n p q -> msym n dist ->
    meq n n (diffusion_matrix fexp fsqrt w n (pact q dist))
            (pact q (diffusion_matrix fexp fsqrt w n dist)).
  Proof.
    intros Hb Hs. pose proof Hb as (Hp & Hq & Hqp & Hpq).
    assert (H0 : meq n n (diff_K0 fexp w (pact q dist)) (pact q (diff_K0 fexp w dist))).
    { intros i j Hi Hj. rewrite (diff_K0_of_sym n) by (try assumption; eapply msym_pact; eauto).
      unfold pact at 2. rewrite (diff_K0_of_sym n) by (try assumption; apply Hq; assumption).
      reflexivity. }
    assert (H1 : meq n n (diff_K1 n (diff_K0 fexp w (pact q dist)))
                         (pact q (diff_K1 n (diff_K0 fexp w dist)))).
    { intros i j Hi Hj. unfold diff_K1.
      rewrite (H0 i j Hi Hj), !(colsum_meq n _ _ _ H0) by assumption.
      rewrite !(colsum_pact n p q) by assumption. reflexivity. }
    intros i j Hi Hj. unfold diffusion_matrix, diff_K2.
    rewrite (H1 i j Hi Hj), !(colsum_meq n _ _ _ H1) by assumption.
    rewrite !(colsum_pact n p q) by assumption. reflexivity.
  Qed.

  (* ---------------- feature-space pencils are INVARIANT ---------------- *)
  Theorem npe_rhs_perm n p q X a b :
    is_bij n p q -> npe_rhs n (perm_rows q X) a b = npe_rhs n X a b.
  Proof.
    intros Hb. unfold npe_rhs, perm_rows. exact (sumn_perm n p q (fun i => X i a * X i b) Hb).
  Qed.

  Theorem lpp_rhs_perm n p q Dg X a b :
    is_bij n p q -> lpp_rhs n (pvec q Dg) (perm_rows q X) a b = lpp_rhs n Dg X a b.
  Proof.
    intros Hb. unfold lpp_rhs, perm_rows, pvec.
    exact (sumn_perm n p q (fun i => Dg i * (X i a * X i b)) Hb).
  Qed.

  Theorem pencil_lhs_perm n p q W X a b :
    is_bij n p q -> pencil_lhs n (pact q W) (perm_rows q X) a b = pencil_lhs n W X a b.
  Proof.
    intros Hb. unfold pencil_lhs, perm_rows, pact.
    exact (sumn_perm2 n p q (fun r c => W r c * (X r a * X c b + X c a * X r b)) Hb).
  Qed.

  Theorem feat_sum_perm n p q X a :
    is_bij n p q -> feat_sum n (perm_rows q X) a = feat_sum n X a.
  Proof.
    intros Hb. unfold feat_sum, perm_rows. exact (sumn_perm n p q (fun i => X i a) Hb).
  Qed.

  Theorem lltsa_rhs_perm n p q X a b :
    is_bij n p q -> lltsa_rhs n (perm_rows q X) a b = lltsa_rhs n X a b.
  Proof.
    intros Hb. unfold lltsa_rhs.
    rewrite (npe_rhs_perm n p q), !(feat_sum_perm n p q) by assumption. reflexivity.
  Qed.

  (* ---------------- the eigen oracle's answer SET is transported ---------------- *)
  (* G' = p·G  has the answer  V' = rows of V permuted, same eigenvalues *)
  Theorem eig_answer_perm n d p q G G' V lam :
    is_bij n p q -> meq n n G' (pact q G) ->
    eig_answer n d G V lam -> eig_answer n d G' (perm_rows q V) lam.
  Proof.
    intros Hb HG (Hev & Hon). pose proof Hb as (Hp & Hq & Hqp & Hpq). split.
    - intros i c Hi Hc. unfold mmul, perm_rows.
      rewrite (sumn_ext n _ (fun t => G (q i) (q t) * V (q t) c))
        by (intros t Ht; rewrite (HG i t Hi Ht); reflexivity).
      rewrite (sumn_perm n p q (fun t => G (q i) t * V t c) Hb).
      apply (Hev (q i) c); [apply Hq|]; assumption.
    - intros c c' Hc Hc'. unfold mmul, mtrans, perm_rows.
      rewrite (sumn_perm n p q (fun t => V t c * V t c') Hb).
      apply (Hon c c' Hc Hc').
  Qed.

  (* hence: embedding = V * sqrt(lam) has its rows permuted *)
  Corollary spectral_embedding_perm n d p q G G' V lam s :
    is_bij n p q -> meq n n G' (pact q G) -> eig_answer n d G V lam ->
    eig_answer n d G' (perm_rows q V) lam /\
    rows_permuted n d q (scale_cols V s) (scale_cols (perm_rows q V) s).
  Proof.
    intros Hb HG Ha. split.
    - eapply eig_answer_perm; eauto.
    - intros i c Hi Hc. reflexivity.
  Qed.

  (* and a row permutation leaves the set of embedding distances in place *)
  Lemma rows_permuted_distances n d q Y Y' i j :
    rows_permuted n d q Y Y' -> i < n -> j < n ->
    emb_sq_dist d Y' i j = emb_sq_dist d Y (q i) (q j).
  Proof.
    intros H Hi Hj. unfold emb_sq_dist. apply sumn_ext. intros c Hc.
    rewrite !(H _ c) by assumption. reflexivity.
  Qed.

End PermSums.
