(* Knn_Wrapper_Model.v — executable model of the dispatcher tapkee_internal::find_neighbors
   (include/tapkee/neighbors/neighbors.hpp), check_connectivity = false.  No proofs in this file.

     if (k > N - 1) k = N - 1;                                            fn_clamp
     if (method.is(Brute))     neighbors = find_neighbors_bruteforce_impl(begin, end, callback, k);
     if (method.is(VpTree))    neighbors = find_neighbors_vptree_impl(...);      } the result of a tree search is a
     if (method.is(CoverTree)) neighbors = find_neighbors_covertree_impl(...);   } PARAMETER here: any table of rows
     if (!method.is(Brute))
       for (iter = neighbors.begin(); iter != neighbors.end(); ++iter)           fn_incomplete (first row whose
         if (iter->size() != k) {                                                 size is not k)
           warning;                                                              the flag `fired`
           neighbors = find_neighbors_bruteforce_impl(begin, end, callback, k);  brute_rows: ALL rows recomputed
           break; }

   The tree result is arbitrary (when the callback is not a metric the trees promise nothing: fix F48 / F50), the
   exhaustive search is the model of Knn_Brute_Model.v run for every sample with one nth_element oracle answer per
   row.  fn_rowwise is the variant "recompute only the rows whose size is wrong" (a tempting optimisation, seeded
   change C02_4); Knn_Wrapper_Proof.v refutes it.

   fn_shape is the structural table of the fallback block as translate/t_knn_wrapper.py reads it from the source
   (coq/gen/KnnWrapper.v; comments, white space, string literals, logger calls, static_cast<IndexType> and the spelling
   of the row iterator's type removed); fn_shape_model is the shape this model transcribes. *)
From Coq Require Import String List ZArith Bool.
From TK Require Import Knn_Spec Knn_Brute_Model.
Import ListNotations.
Local Open Scope Z_scope.

Inductive nmethod := MBrute | MVpTree | MCoverTree.

Definition is_brute (m : nmethod) : bool := match m with MBrute => true | _ => false end.

Definition nrows := list (list Z).      (* Neighbors: row i = LocalNeighbors of sample i *)

(* k > N - 1  ->  k = N - 1   (IndexType is signed: N = 0 gives -1, outside the model: N >= 1) *)
Definition fn_clamp (N k : nat) : nat := if Nat.ltb (N - 1) k then (N - 1)%nat else k.

(* find_neighbors_bruteforce_impl over the queries qs; sels q = what std::nth_element leaves in `distances` of row q *)
Fixpoint brute_rows (sels : Z -> list drec) (k : nat) (qs : list Z) : option nrows :=
  match qs with
  | [] => Some []
  | q :: r =>
      match brute_row_fixed (sels q) k, brute_rows sels k r with
      | Some l, Some rest => Some (l :: rest)
      | _, _ => None
      end
  end.

(* the scan of the fallback loop: is there a row whose size is not k *)
Fixpoint fn_incomplete (k : nat) (rows : nrows) : bool :=
  match rows with
  | [] => false
  | r :: rest => if Nat.eqb (length r) k then fn_incomplete k rest else true
  end.

(* find_neighbors(method, begin, end, callback, k, false): (did the fallback fire, the table returned) *)
Definition find_neighbors_core (m : nmethod) (tree_rows : nrows) (sels : Z -> list drec) (N k0 : nat)
  : option (bool * nrows) :=
  let k := fn_clamp N k0 in
  if is_brute m then
    match brute_rows sels k (samples N) with Some rows => Some (false, rows) | None => None end
  else if fn_incomplete k tree_rows then
    match brute_rows sels k (samples N) with Some rows => Some (true, rows) | None => None end
  else Some (false, tree_rows).

(* ---- the variant that recomputes only the rows of the wrong size (NOT the committed code) ---- *)
Fixpoint rowwise (sels : Z -> list drec) (k : nat) (qs : list Z) (rows : nrows) : option nrows :=
  match qs, rows with
  | q :: qr, r :: rr =>
      match (if Nat.eqb (length r) k then Some r else brute_row_fixed (sels q) k), rowwise sels k qr rr with
      | Some l, Some rest => Some (l :: rest)
      | _, _ => None
      end
  | _, _ => Some []
  end.

Definition find_neighbors_rowwise (m : nmethod) (tree_rows : nrows) (sels : Z -> list drec) (N k0 : nat)
  : option (bool * nrows) :=
  let k := fn_clamp N k0 in
  if is_brute m then
    match brute_rows sels k (samples N) with Some rows => Some (false, rows) | None => None end
  else if fn_incomplete k tree_rows then
    match rowwise sels k (samples N) tree_rows with Some rows => Some (true, rows) | None => None end
  else Some (false, tree_rows).

(* every row of a table judged by the spec's decision procedure (what the check runs on the returned table) *)
Fixpoint all_knn_b (d : dist) (N k : nat) (qs : list Z) (rows : nrows) : bool :=
  match qs, rows with
  | [], [] => true
  | q :: qr, r :: rr => is_knn_b d N q k r && all_knn_b d N k qr rr
  | _, _ => false
  end.

(* reference oracle: one deterministic admissible nth_element answer per row *)
Definition sels_ref (d : dist) (N : nat) (q : Z) : list drec := nth_element_ref (brute_dists_fixed d N q).

(* ---- structural table of the fallback block (read from the source by translate/t_knn_wrapper.py) ---- *)
Record fn_shape := mk_fn_shape {
  fs_clamp : list string;      (* the clamp of k: condition, assignment *)
  fs_dispatch : list string;   (* the method dispatch statements, in source order *)
  fs_guard : string;           (* condition of the block that holds the fallback *)
  fs_loop : string;            (* header of the scan over the rows *)
  fs_test : string;            (* condition under which a row triggers the fallback *)
  fs_action : list string      (* statements executed when it does (the logger call left out) *)
}.

Local Open Scope string_scope.
Definition fn_shape_model : fn_shape := mk_fn_shape
  [ "k>(end-begin-1)"; "k=(end-begin-1);" ]
  [ "if(method.is(Brute))neighbors=find_neighbors_bruteforce_impl(begin,end,callback,k);";
    "if(method.is(VpTree))neighbors=find_neighbors_vptree_impl(begin,end,callback,k);";
    "if(method.is(CoverTree))neighbors=find_neighbors_covertree_impl(begin,end,callback,k);" ]
  "!method.is(Brute)"
  "for(ITERiter=neighbors.begin();iter!=neighbors.end();++iter)"
  "(iter->size())!=k"
  [ "neighbors=find_neighbors_bruteforce_impl(begin,end,callback,k);"; "break;" ].
