(* Par_Event_Proof.v — property C15: what the classes the checker computes from the event list of a
   thread-private variable MEAN, in the model, at whole-object granularity: for every choice of which
   conditional events execute, the abstract program of the events satisfies the hypothesis of T2 (PInit:
   reinit False) or of T20 (PConst: untouched; PRestored: canonical at the end). *)
From Coq Require Import ZArith List String Bool Lia.
Import ListNotations.
From TK Require Import Par_Model Par_Spec Par_Region_Model Par_Fill_Model.

Section EvProof.
  Variable K : Type.
  Variable K_eqb : K -> K -> bool.
  Hypothesis K_eqb_spec : forall a b, K_eqb a b = true <-> a = b.
  Variable V C : Type.
  Variable x : K.
  Variable v : V.
  Variable f : V -> V.
  Variable canon : V.
  Notation prog_of := (prog_of K V C x v f canon).
  Notation run := (run K_eqb).

  (* once x may be read, the whole abstract program may run *)
  Lemma reinit_prog_of : forall evs take (P : K -> Prop), P x -> reinit P (prog_of evs take).
  Proof.
    induction evs as [|e evs IH]; intros take P HP; cbn [Par_Fill_Model.prog_of]; [exact I|].
    destruct (e_cond e && negb match take with b :: _ => b | [] => true end); [apply IH; exact HP|].
    destruct (e_kind e); cbn.
    - apply IH. left. reflexivity.
    - split; [exact HP|]. intros u. apply IH. left. reflexivity.
    - split; [exact HP|]. intros u. apply IH. exact HP.
    - split; [exact HP|]. intros u. apply IH. left. reflexivity.
    - apply IH. left. reflexivity.
  Qed.

  (* PInit: the first thing the body does, unconditionally, is a plain write: nothing stale is ever read *)
  Theorem classify_init_sound : forall evs, classify evs = PInit ->
    forall take, reinit (fun _ => False) (prog_of evs take).
  Proof.
    intros evs H take. unfold classify in H.
    destruct (negb (existsb ev_writes evs)); [discriminate|].
    destruct evs as [|e evs]; [discriminate|].
    destruct (e_kind e) eqn:Ek, (e_cond e) eqn:Ec;
      try (destruct (last (e :: evs) (mkEv ER true false)) as [[] [] []]; discriminate).
    cbn [Par_Fill_Model.prog_of]. rewrite Ec, Ek. cbn. apply reinit_prog_of. left. reflexivity.
  Qed.

  (* PConst: the body never writes the variable: whatever it holds is still there afterwards *)
  Theorem classify_const_sound : forall evs, classify evs = PConst ->
    forall take t i (st : state K V C),
      run t i (prog_of evs take) st = st /\ reinit (fun y => y = x) (prog_of evs take).
  Proof.
    intros evs H take t i st. split; [|apply reinit_prog_of; reflexivity].
    assert (Hw : existsb ev_writes evs = false).
    { unfold classify in H. destruct (existsb ev_writes evs) eqn:E; [|reflexivity]. cbn in H.
      destruct evs as [|e evs]; [cbn in E; discriminate|].
      destruct (e_kind e), (e_cond e);
        try discriminate; destruct (last (e :: evs) (mkEv ER true false)) as [[] [] []]; discriminate. }
    clear H. revert take st. induction evs as [|e evs IH]; intros take st; [reflexivity|].
    cbn in Hw. apply orb_false_iff in Hw. destruct Hw as [He Hw].
    cbn [Par_Fill_Model.prog_of].
    destruct (e_cond e && negb match take with b :: _ => b | [] => true end); [apply IH; exact Hw|].
    unfold ev_writes in He. destruct (e_kind e); try discriminate. cbn. apply IH. exact Hw.
  Qed.

  Lemma run_prog_of_last_clear : forall evs tp, evs <> [] ->
    (forall d, last evs d = mkEv ECLR false tp) ->
    forall take t i (st : state K V C), pr (run t i (prog_of evs take) st) t x = canon.
  Proof.
    induction evs as [|e evs IH]; intros tp Hne Hl take t i st; [contradiction|].
    destruct evs as [|e2 evs].
    - specialize (Hl e). cbn in Hl. subst e. cbn. unfold updp. rewrite Nat.eqb_refl. unfold upd.
      rewrite (proj2 (K_eqb_spec x x) eq_refl). reflexivity.
    - assert (Hl' : forall d, last (e2 :: evs) d = mkEv ECLR false tp) by (intros d; exact (Hl d)).
      assert (Hne' : e2 :: evs <> []) by discriminate.
      cbn [Par_Fill_Model.prog_of].
      destruct (e_cond e && negb match take with b :: _ => b | [] => true end);
        [apply (IH tp Hne' Hl')|].
      destruct (e_kind e); cbn [Par_Model.run]; apply (IH tp Hne' Hl').
  Qed.

  (* PRestored: the last top-level thing the body does is clear(): the variable is canonical again when
     the iteration ends, whatever it did with it before *)
  Theorem classify_restored_sound : forall evs, classify evs = PRestored ->
    forall take t i (st : state K V C),
      pr (run t i (prog_of evs take) st) t x = canon /\ reinit (fun y => y = x) (prog_of evs take).
  Proof.
    intros evs H take t i st. split; [|apply reinit_prog_of; reflexivity].
    unfold classify in H. destruct (negb (existsb ev_writes evs)); [discriminate|].
    destruct evs as [|e evs]; [discriminate|].
    assert (Hlast : last (e :: evs) (mkEv ER true false) = mkEv ECLR false true).
    { destruct (e_kind e), (e_cond e); try discriminate;
        destruct (last (e :: evs) (mkEv ER true false)) as [[] [] []]; try discriminate; reflexivity. }
    apply (run_prog_of_last_clear (e :: evs) true); [discriminate|].
    intros d. rewrite <- Hlast. clear. revert e. induction evs as [|e2 evs IH]; intros e; [reflexivity|].
    change (last (e :: e2 :: evs) d) with (last (e2 :: evs) d).
    change (last (e :: e2 :: evs) (mkEv ER true false)) with (last (e2 :: evs) (mkEv ER true false)).
    apply IH.
  Qed.
End EvProof.
