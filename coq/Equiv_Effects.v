(* ====================================================================== *)
(*  Equiv_Effects.v — property C12, last sentence (the result of a call    *)
(*  does not depend on which calls were made earlier in the same           *)
(*  process): a small model of HOW the objects on the allow-list of        *)
(*  Equiv_Spec.v can reach a computation.                                  *)
(*                                                                         *)
(*  The inventory theorem (no_hidden_state_partial) says that the only     *)
(*  objects under include/ that outlive a call are: the std::rand stream   *)
(*  and its wrappers (defines/random.hpp), random_shuffle's generator      *)
(*  (std::random_device or hook H1), the Logging singleton, the three      *)
(*  default_* objects (never written: no write entry) and stateless        *)
(*  function-local statics.  A call is modelled as a program over exactly  *)
(*  these three interfaces:                                                *)
(*    Draw k      std::rand(): the continuation receives the value drawn   *)
(*    Shuffle k   tapkee::random_shuffle: the continuation receives the    *)
(*                seed taken from std::random_device / hook H1             *)
(*    Log l m k   Logging::instance().message_<l>(m): NO answer — the      *)
(*                translator's logger-read scan shows that the library     *)
(*                uses the singleton only through message_* (void)         *)
(*  The embed driver (harness/c12_emb.cpp) observes, for every call, the   *)
(*  number of Draw and Shuffle nodes on the EXECUTED path (it defines      *)
(*  rand() itself and reads hook H1's call counter): `effects p s` below.  *)
(*  Theorems (Equiv_Proof_Effects.v): a path without draws gives the same  *)
(*  result from every process state; the logger never matters.             *)
(*  NO proofs in this file.                                                *)
(* ====================================================================== *)
Require Import Arith List Bool.
Import ListNotations.

(* the process-wide state that outlives a call *)
Record pstate : Type := mk_pstate {
  ps_rnd : nat -> nat;          (* the std::rand stream: value of the i-th draw of the process *)
  ps_pos : nat;                 (* number of draws made so far *)
  ps_dev : nat -> nat;          (* what std::random_device / hook H1 hands to the c-th random_shuffle *)
  ps_shuf : nat;                (* number of random_shuffle calls so far *)
  ps_log : nat -> bool;      (* level flags of the Logging singleton *)
  ps_sink : list (nat * nat)    (* messages delivered to the logger implementation (level, text id) *)
}.

Inductive prog (A : Type) : Type :=
| Ret : A -> prog A
| Draw : (nat -> prog A) -> prog A
| Shuffle : (nat -> prog A) -> prog A
| Log : nat -> nat -> prog A -> prog A.
Arguments Ret {A} _.
Arguments Draw {A} _.
Arguments Shuffle {A} _.
Arguments Log {A} _ _ _.

Definition do_draw (s : pstate) : pstate :=
  mk_pstate (ps_rnd s) (S (ps_pos s)) (ps_dev s) (ps_shuf s) (ps_log s) (ps_sink s).
Definition do_shuffle (s : pstate) : pstate :=
  mk_pstate (ps_rnd s) (ps_pos s) (ps_dev s) (S (ps_shuf s)) (ps_log s) (ps_sink s).
Definition do_log (l m : nat) (s : pstate) : pstate :=
  mk_pstate (ps_rnd s) (ps_pos s) (ps_dev s) (ps_shuf s) (ps_log s)
            (if ps_log s l then (l, m) :: ps_sink s else ps_sink s).

(* one call: its result and the state it leaves behind *)
Fixpoint run {A : Type} (p : prog A) (s : pstate) : A * pstate :=
  match p with
  | Ret a => (a, s)
  | Draw k => run (k (ps_rnd s (ps_pos s))) (do_draw s)
  | Shuffle k => run (k (ps_dev s (ps_shuf s))) (do_shuffle s)
  | Log l m k => run k (do_log l m s)
  end.

(* what the driver's probe reports: draws of std::rand + random_shuffle calls on the executed path *)
Fixpoint effects {A : Type} (p : prog A) (s : pstate) : nat :=
  match p with
  | Ret _ => 0
  | Draw k => S (effects (k (ps_rnd s (ps_pos s))) (do_draw s))
  | Shuffle k => S (effects (k (ps_dev s (ps_shuf s))) (do_shuffle s))
  | Log l m k => effects k (do_log l m s)
  end.

(* a history: earlier calls (any programs, any result types collapsed to unit) then the call under test *)
Fixpoint run_history {A : Type} (h : list (prog unit)) (p : prog A) (s : pstate) : A * pstate :=
  match h with
  | [] => run p s
  | q :: r => run_history r p (snd (run q s))
  end.

(* two states that differ in the logger only *)
Definition same_streams (s s' : pstate) : Prop :=
  ps_rnd s = ps_rnd s' /\ ps_pos s = ps_pos s' /\ ps_dev s = ps_dev s' /\ ps_shuf s = ps_shuf s'.
