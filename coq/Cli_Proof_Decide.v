(* ====================================================================== *)
(*  Cli_Proof_Decide.v — the option table interpreted by the model        *)
(*  (Cli_Model.cli_decide over the documented tables) IS the documented    *)
(*  behaviour (Cli_Spec.spec_decide), for every command line; corollaries: *)
(*  wiring of every keyword, exit codes, never stuck; regression theorems  *)
(*  about the lines shipped before fixes F15 / F40.                        *)
(* ====================================================================== *)
From Coq Require Import String Ascii List ZArith QArith Bool Arith Lia.
From TK Require Import Cli_Model Cli_Spec.
Import ListNotations.
Local Close Scope Q_scope.
Local Open Scope string_scope.

Arguments lookup_name : simpl never.
Arguments cmpZ : simpl never.
Arguments cmpQ : simpl never.
Arguments flag : simpl never.
Arguments str_of : simpl never.
Arguments int_of : simpl never.
Arguments dbl_of : simpl never.

(* case analysis on the outermost scrutinee of the left-hand side, outermost first, so that
   the failing branch of every step closes at once (linear, not exponential) *)
Ltac head_destruct e :=
  lazymatch e with
  | match ?e' with _ => _ end => head_destruct e'
  | _ => destruct e
  end.

Ltac step :=
  lazymatch goal with
  | |- ?x = ?x => reflexivity
  | |- match ?e with _ => _ end = _ => head_destruct e; cbn
  end.

Lemma decide_view_spec : forall ok g, decide_view doc_tables ok g = spec_view ok g.
Proof.
  intros ok g.
  unfold decide_view, spec_view.
  destruct ok; [|reflexivity].
  cbn.
  repeat step.
Qed.

Theorem cli_decide_spec : forall a, cli_decide doc_tables a = spec_decide a.
Proof. intro a. unfold cli_decide, spec_decide. apply decide_view_spec. Qed.

(* ---------------------------------------------------------------------- *)
(*  inversion of a successful run of the specification                     *)
(* ---------------------------------------------------------------------- *)
Record run_facts (ok : bool) (g : view) (ps io : list (string * value)) : Prop := {
  rf_ok : ok = true;
  rf_help : flag g ["h"; "help"] = false;
  rf_method : exists ms m, str_of g ["m"; "method"] "locally_linear_embedding" = Some ms /\
                           lookup_name ms (doc_map "DIMENSION_REDUCTION_METHODS") = Some m /\
                           assoc "method" ps = Some (VEnum m);
  rf_nm : exists s m, str_of g ["nm"; "neighbors-method"] "covertree" = Some s /\
                      lookup_name s (doc_map "NEIGHBORS_METHODS") = Some m /\
                      assoc "neighbors_method" ps = Some (VEnum m);
  rf_em : exists s m, str_of g ["em"; "eigen-method"] "dense" = Some s /\
                      lookup_name s (doc_map "EIGEN_METHODS") = Some m /\
                      assoc "eigen_method" ps = Some (VEnum m);
  rf_cs : exists s m, str_of g ["cs"; "computation-strategy"] "cpu" = Some s /\
                      lookup_name s (doc_map "COMPUTATION_STRATEGIES") = Some m /\
                      assoc "computation_strategy" ps = Some (VEnum m);
  rf_td : exists z, int_of g ["td"; "target-dimension"] 2 = Some z /\ (0 < z)%Z /\
                    assoc "target_dimension" ps = Some (VInt z);
  rf_k : exists z, int_of g ["k"; "num-neighbors"] 10 = Some z /\ (3 <= z)%Z /\
                   assoc "num_neighbors" ps = Some (VInt z);
  rf_gw : exists q, dbl_of g ["gw"; "gaussian-width"] (1 # 1) = Some q /\ cmpQ CLt q (0 # 1) = false /\
                    assoc "gaussian_kernel_width" ps = Some (VDbl q);
  rf_ts : exists z, int_of g ["timesteps"] 1 = Some z /\ (0 <= z)%Z /\
                    assoc "diffusion_map_timesteps" ps = Some (VInt z);
  rf_fe : exists q, dbl_of g ["fa-epsilon"] (1 # 100000) = Some q /\ assoc "fa_epsilon" ps = Some (VDbl q);
  rf_lr : exists q, dbl_of g ["landmark-ratio"] (1 # 5) = Some q /\ assoc "landmark_ratio" ps = Some (VDbl q);
  rf_mi : exists z, int_of g ["max-iters"] 1000 = Some z /\ assoc "max_iteration" ps = Some (VInt z);
  rf_sh : exists q, dbl_of g ["eigenshift"] (1 # 1000000000) = Some q /\
                    assoc "nullspace_shift" ps = Some (VDbl q);
  rf_pe : exists q, dbl_of g ["sne-perplexity"] (30 # 1) = Some q /\ assoc "sne_perplexity" ps = Some (VDbl q);
  rf_th : exists q, dbl_of g ["sne-theta"] (1 # 2) = Some q /\ assoc "sne_theta" ps = Some (VDbl q);
  rf_nu : exists z, int_of g ["spe-num-updates"] 100 = Some z /\ assoc "spe_num_updates" ps = Some (VInt z);
  rf_tol : exists q, dbl_of g ["spe-tolerance"] (1 # 100000) = Some q /\
                     assoc "spe_tolerance" ps = Some (VDbl q);
  rf_sq : exists q, dbl_of g ["squishing-rate"] (99 # 100) = Some q /\
                    assoc "squishing_rate" ps = Some (VDbl q);
  rf_spe : assoc "spe_global_strategy" ps = Some (VBool (negb (flag g ["spe-local"])));
  rf_cc : assoc "check_connectivity" ps = Some (VBool true);
  rf_keys : map fst ps = map fst doc_wiring;
  rf_tin : assoc "transpose_input_when" io = Some (VBool (negb (flag g ["transpose-input"])));
  rf_tout : assoc "transpose_output_when" io = Some (VBool (flag g ["transpose-output"]));
  rf_pre : assoc "precompute_when" io = Some (VBool (flag g ["precompute"]));
  rf_proj : assoc "write_projection_when" io =
            Some (VBool (flag g ["opmat"; "output-projection-matrix-file"]
                         && flag g ["opmean"; "output-projection-mean-file"]));
  rf_delim : exists s, str_of g ["d"; "delimiter"] "," = Some s /\
                       assoc "delimiter_read" io = Some (first_char s) /\
                       assoc "delimiter_write" io = Some (first_char s) /\
                       assoc "delimiter_projection" io = Some (first_char s);
  rf_in : exists s, str_of g ["i"; "input-file"] "/dev/stdin" = Some s /\ assoc "input_file" io = Some (VStr s);
  rf_out : exists s, str_of g ["o"; "output-file"] "/dev/stdout" = Some s /\
                     assoc "output_file" io = Some (VStr s)
}.

Ltac inv_step :=
  lazymatch goal with
  | H : match ?e with _ => _ end = Run _ _ |- _ =>
      let E := fresh "E" in destruct e eqn:E; try discriminate H
  end.

Lemma cmpZ_CLe_false : forall x k, cmpZ CLe x k = false -> (k < x)%Z.
Proof. unfold cmpZ. intros x k H. apply Z.leb_gt in H. exact H. Qed.

Lemma cmpZ_CLt_false : forall x k, cmpZ CLt x k = false -> (k <= x)%Z.
Proof. unfold cmpZ. intros x k H. apply Z.ltb_ge in H. exact H. Qed.

Lemma spec_run_inv : forall ok g ps io, spec_view ok g = Run ps io -> run_facts ok g ps io.
Proof.
  intros ok g ps io H.
  unfold spec_view in H.
  destruct ok; [|discriminate H]. cbn [negb] in H.
  destruct (flag g ["h"; "help"]) eqn:Eh; [discriminate H|].
  repeat inv_step.
  injection H as <- <-.
  repeat match goal with
         | E : cmpZ CLe _ _ = false |- _ => apply cmpZ_CLe_false in E
         | E : cmpZ CLt _ _ = false |- _ => apply cmpZ_CLt_false in E
         end.
  constructor; try reflexivity; try assumption; eauto 10.
Qed.

Lemma spec_total : forall ok g, spec_view ok g = Exit 1%Z \/ exists ps io, spec_view ok g = Run ps io.
Proof.
  intros ok g. unfold spec_view.
  repeat lazymatch goal with
  | |- (if ?b then _ else _) = _ \/ _ => destruct b; [left; reflexivity|]
  | |- (match ?e with _ => _ end) = _ \/ _ => destruct e; [|left; reflexivity]
  end.
  right. eauto.
Qed.

(* ---------------------------------------------------------------------- *)
(*  exit codes                                                             *)
(* ---------------------------------------------------------------------- *)
Lemma cmpQ_CLt_false : forall q, cmpQ CLt q (0 # 1) = false -> ~ (q < 0)%Q.
Proof.
  unfold cmpQ, Qltb. intros q H Hlt.
  apply negb_false_iff in H. apply Qle_bool_iff in H.
  exact (Qlt_not_le _ _ Hlt H).
Qed.

Lemma eq_some_inj : forall {A} (x y : A) o, o = Some x -> o = Some y -> x = y.
Proof. intros A x y o H1 H2. rewrite H1 in H2. injection H2. auto. Qed.

Theorem spec_exit_codes : forall ok g, bad_input g -> spec_view ok g = Exit 1%Z.
Proof.
  intros ok g Hbad.
  destruct (spec_total ok g) as [H|[ps [io H]]]; [exact H|].
  exfalso. apply spec_run_inv in H. destruct H.
  destruct Hbad as [[s [H1 H2]]|[[s [H1 H2]]|[[s [H1 H2]]|[[z [H1 H2]]|[[z [H1 H2]]|[[q [H1 H2]]|[z [H1 H2]]]]]]]].
  - destruct rf_method0 as [ms [m [A [B _]]]]. rewrite (eq_some_inj _ _ _ H1 A) in H2. congruence.
  - destruct rf_nm0 as [ms [m [A [B _]]]]. rewrite (eq_some_inj _ _ _ H1 A) in H2. congruence.
  - destruct rf_em0 as [ms [m [A [B _]]]]. rewrite (eq_some_inj _ _ _ H1 A) in H2. congruence.
  - destruct rf_td0 as [z' [A [B _]]]. rewrite (eq_some_inj _ _ _ H1 A) in H2. lia.
  - destruct rf_k0 as [z' [A [B _]]]. rewrite (eq_some_inj _ _ _ H1 A) in H2. lia.
  - destruct rf_gw0 as [q' [A [B _]]]. rewrite (eq_some_inj _ _ _ H1 A) in H2.
    exact (cmpQ_CLt_false _ B H2).
  - destruct rf_ts0 as [z' [A [B _]]]. rewrite (eq_some_inj _ _ _ H1 A) in H2. lia.
Qed.

(* options.parse() threw (unknown option, value of the wrong type) or --help: exit 1 too *)
Theorem spec_exit_parse : forall g, spec_view false g = Exit 1%Z.
Proof. reflexivity. Qed.

Theorem spec_never_stuck : forall ok g, spec_view ok g <> Stuck.
Proof.
  intros ok g H. destruct (spec_total ok g) as [E|[ps [io E]]]; rewrite E in H; discriminate H.
Qed.

(* ---------------------------------------------------------------------- *)
(*  regression theorems about the lines shipped before F15 / F40           *)
(* ---------------------------------------------------------------------- *)
Theorem spe_local_refuted_old :
  exists a ps io, cli_decide tables_before_F15 a = Run ps io /\
                  flag (view_of a) ["spe-local"] = true /\
                  assoc "spe_global_strategy" ps = Some (VBool true).
Proof.
  exists [("spe-local", AFlag)]. eexists. eexists.
  split; [vm_compute; reflexivity|]. split; vm_compute; reflexivity.
Qed.

Theorem to_string_default_refuted_old :
  exists ps io, cli_decide tables_before_F40 [] = Run ps io /\
                assoc "nullspace_shift" ps = Some (VDbl (0 # 1000000)) /\
                find_decl "eigenshift" doc_options
                = Some {| o_names := ["eigenshift"]; o_default := DDbl (1 # 1000000000) |}.
Proof.
  eexists. eexists. split; [vm_compute; reflexivity|]. split; vm_compute; reflexivity.
Qed.

(* with the documented tables a default is the literal that was written *)
Theorem defaults_are_literals :
  forall ps io, cli_decide doc_tables [] = Run ps io ->
    assoc "nullspace_shift" ps = Some (VDbl (1 # 1000000000)) /\
    assoc "spe_tolerance" ps = Some (VDbl (1 # 100000)) /\
    assoc "fa_epsilon" ps = Some (VDbl (1 # 100000)) /\
    assoc "num_neighbors" ps = Some (VInt 10) /\
    assoc "spe_global_strategy" ps = Some (VBool true).
Proof.
  intros ps io H. vm_compute in H. injection H as <- <-. repeat split.
Qed.
