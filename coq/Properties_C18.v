(* Properties_C18.v — Barnes-Hut quadtree (tsne::QuadTree, quadtree.hpp).
   Model: QuadTree_Model.v (exact rationals; fx = true is the code as it is now, with the per-slot
   count[] of fix F24; fx = false is the code before that fix).  Specification: QuadTree_Spec.v.
   Every theorem is for all point lists, all root boxes, all insertion orders and all fuel values
   (a run that ends with `Done` is a run of the C++; `insert_fuel` bounds the recursion on grids and
   `insert_terminates` shows that for every input some fuel gives `Done`, so `OutOfFuel` is only ever
   a too small fuel argument, never a property of the input).  Only statements here; proofs are in QuadTree_Proof_*.v.
   Theorems 11-12: every theta (QuadTree_Proof_Theta.v).  Theorems 13-15: binary64 - the box arithmetic of the code in Coq
   primitive floats (QuadTree_Float_Model.v), the rounding crack F25 as a theorem, its absence on grid inputs with headroom
   and the refinement of the exact model there (QuadTree_Proof_Float.v, QuadTree_Proof_FloatExact.v, QuadTree_Proof_FloatQ.v;
   these three use the PrimFloat axioms of the standard library and, the last two, Flocq 4.1 and the classical reals).
   Theorem 16: the duplicate test of insert() in binary64 (QuadTree_Float_Dup.v, QuadTree_Proof_FloatDup.v; same axioms
   plus FloatAxioms.eqb_spec). *)
From Coq Require Import List Arith Bool ZArith QArith Permutation Reals.
From TK Require Import QuadTree_Model QuadTree_Spec QuadTree_SpecExec QuadTree_SpecExec2 QuadTree_Proof_Base
                       QuadTree_Proof_Insert QuadTree_Proof_Main QuadTree_Proof_Forces
                       QuadTree_Proof_Fuel QuadTree_Proof_Spec QuadTree_Proof_Exec
                       QuadTree_Proof_Observers QuadTree_Proof_Order QuadTree_Proof_Order2 QuadTree_Proof_Bound
                       QuadTree_Proof_Gradient QuadTree_Proof_Dump QuadTree_Proof_Coarse QuadTree_Proof_Counts QuadTree_Proof_Terminates
                       QuadTree_Proof_Final QuadTree_Proof_Sqrt
                       QuadTree_Proof_Theta QuadTree_Float_Model QuadTree_Proof_Float QuadTree_Proof_FloatExact
                       QuadTree_Proof_FloatQ QuadTree_Float_Dup QuadTree_Proof_FloatDup.
Import ListNotations.
Local Open Scope Q_scope.

(* 1. the online update  com*(n-1)/n + p/n  is the arithmetic mean (both code versions,
      coincident points allowed) *)
Theorem com_is_mean : forall fx fuel data order root ok t,
  in_root data root order ->
  fill_order fx fuel data order (init root) = Done ok t ->
  qcum t = length order /\
  Qn (qcum t) * fst (qcom t) == sumx data order /\
  Qn (qcum t) * snd (qcom t) == sumy data order /\
  (order <> [] -> fst (qcom t) == sumx data order / Qn (length order) /\
                  snd (qcom t) == sumy data order / Qn (length order)).
Proof. exact com_is_mean_final. Qed.
Print Assumptions com_is_mean.
Example com_is_mean_nonvacuous :
  in_root ex_data ex_root ex_order /\
  exists t, fill_order true 6 ex_data ex_order (init ex_root) = Done true t.
Proof. exact (conj ex_in_root ex_builds0). Qed.

(* 2. the four closed half-size boxes cover the closed parent box, and insert() of a point inside
      the root box never reaches its `return false` ("this should never happen") *)
Theorem children_cover :
  (forall c p, contains c p = true ->
     contains (nwc c) p = true \/ contains (nec c) p = true \/
     contains (swc c) p = true \/ contains (sec c) p = true) /\
  (forall fuel data order root ok t,
     in_root data root order ->
     fill_order true fuel data order (init root) = Done ok t -> ok = true).
Proof. exact children_cover_final. Qed.
Print Assumptions children_cover.
Example children_cover_nonvacuous :
  in_root ex_data ex_root ex_order /\ exists t, fill_order true 6 ex_data ex_order (init ex_root) = Done true t.
Proof. exact ex_hyps_basic. Qed.

(* 3. every inserted index is routed down exactly one root-to-leaf path of cells that contain
      its point; every cell's cum_size / center_of_mass are count / mean of the indices routed
      through it; stored indices are pairwise non-coincident; every index is stored or absorbed
      by a coincident stored one; children are the four half-size boxes *)
Theorem routed_once : forall fuel data order root ok t,
  in_root data root order ->
  fill_order true fuel data order (init root) = Done ok t ->
  ok = true /\ spec data order t /\ geom_ok t /\ qcell t = root.
Proof. exact routed_once_final. Qed.
Print Assumptions routed_once.
Example routed_once_nonvacuous :
  in_root ex_data ex_root ex_order /\
  exists t, fill_order true 6 ex_data ex_order (init ex_root) = Done true t
            /\ spec_okb ex_data ex_order t = true /\ struct_okb ex_data ex_order t = true.
Proof. exact (conj ex_in_root ex_builds). Qed.

(* 3'. the literal reading of "each cell's mass equals the count of the points inside its box": for EVERY cell c
       of the tree (all_cells),  #{inserted i strictly inside the open box of c} <= cum_size(c) <= #{inserted i inside
       the closed box of c}  (cell_counts_ok).  The two counts differ only by inserted points on the boundary of c,
       which lie in two or four closed boxes and are counted in exactly one (routed_once). *)
Theorem cell_mass_is_count_inside : forall fuel data order root ok t,
  in_root data root order -> NoDup order ->
  fill_order true fuel data order (init root) = Done ok t ->
  all_cells (cell_counts_ok data order) t.
Proof. exact cell_counts_final. Qed.
Print Assumptions cell_mass_is_count_inside.
Example cell_mass_is_count_inside_nonvacuous :
  in_root ex_data ex_root ex_order /\ NoDup ex_order /\
  exists t, fill_order true 6 ex_data ex_order (init ex_root) = Done true t.
Proof. exact ex_hyps_counts. Qed.

(* 3a. the code before fix F24 satisfies the same statement only without coincident points ... *)
Theorem routed_once_shipped_nocoinc : forall fuel data order root ok t,
  in_root data root order -> NoCo data order ->
  fill_order false fuel data order (init root) = Done ok t ->
  ok = true /\ spec data order t /\ geom_ok t /\ qcell t = root.
Proof. exact routed_once_shipped_nocoinc_final. Qed.
Print Assumptions routed_once_shipped_nocoinc.
Example routed_once_shipped_nocoinc_nonvacuous :
  in_root ex_data2 ex_root ex_order2 /\ NoCo ex_data2 ex_order2 /\
  exists t, fill_order false 6 ex_data2 ex_order2 (init ex_root) = Done true t.
Proof. exact (conj ex_in_root2 (conj ex_noco2 ex_builds2_shipped)). Qed.

(* 3b. ... and violates it as soon as a leaf that absorbed an exact duplicate is split (F24):
       the child cell holds two inserted points but has mass 1 *)
Theorem routed_once_shipped_refuted :
  exists data root order t,
    NoDup order /\ (forall i, In i order -> inside data root i) /\
    fill_order false 3 data order (init root) = Done true t /\
    ~ spec data order t /\
    (exists c st com ne sw se rc rcom, t = Node rc 3 rcom (Leaf c st 1 com) ne sw se /\
       inside data c 0%nat /\ inside data c 1%nat).
Proof. exact routed_once_shipped_refuted_gen. Qed.
Print Assumptions routed_once_shipped_refuted.
(* the same input on the current code *)
Example f24_witness_repaired :
  exists t, fill_order true 3 f24_data f24_order (init f24_root) = Done true t /\
            spec_okb f24_data f24_order t = true.
Proof. exact f24_repaired. Qed.

(* 4. count and centre of mass of the root do not depend on the insertion order *)
Theorem order_independent_aggregates : forall fx fuel1 fuel2 data order1 order2 root ok1 ok2 t1 t2,
  Permutation order1 order2 ->
  in_root data root order1 ->
  fill_order fx fuel1 data order1 (init root) = Done ok1 t1 ->
  fill_order fx fuel2 data order2 (init root) = Done ok2 t2 ->
  qcum t1 = qcum t2 /\ pt_eq (qcom t1) (qcom t2).
Proof. exact order_independent_final. Qed.
Print Assumptions order_independent_aggregates.
Example order_independent_nonvacuous :
  Permutation ex_order ex_order' /\ in_root ex_data ex_root ex_order /\
  (exists t, fill_order true 6 ex_data ex_order (init ex_root) = Done true t) /\
  (exists t, fill_order true 6 ex_data ex_order' (init ex_root) = Done true t).
Proof. exact (conj ex_perm (conj ex_in_root (conj ex_builds0 ex_builds'))). Qed.

(* 4a. the WHOLE tree is independent of the insertion order: same shape, same boxes, same cum_size in every
       cell, equal centres of mass, same multiplicity and a coincident stored index in every leaf (teq) *)
Theorem order_independent_tree : forall fuel1 fuel2 data order1 order2 root ok1 ok2 t1 t2,
  Permutation order1 order2 ->
  in_root data root order1 ->
  fill_order true fuel1 data order1 (init root) = Done ok1 t1 ->
  fill_order true fuel2 data order2 (init root) = Done ok2 t2 ->
  teq data t1 t2.
Proof. exact order_independent_tree_final. Qed.
Print Assumptions order_independent_tree.
Example order_independent_tree_nonvacuous :
  Permutation ex_order ex_order' /\ in_root ex_data ex_root ex_order /\
  (exists t, fill_order true 6 ex_data ex_order (init ex_root) = Done true t) /\
  (exists t, fill_order true 6 ex_data ex_order' (init ex_root) = Done true t).
Proof. exact ex_hyps_order. Qed.

(* 4b. the public observers: isCorrect() is true; getAllIndices() lists pairwise different inserted indices,
       exactly one for every class of coincident inserted points *)
Theorem observers : forall fuel data order root ok t,
  in_root data root order ->
  fill_order true fuel data order (init root) = Done ok t ->
  is_correct data t = true /\
  NoDup (all_indices t) /\ incl (all_indices t) order /\
  (forall i, In i order -> exists j, In j (all_indices t) /\ coinc data i j) /\
  (forall i j j', In i order -> In j (all_indices t) -> In j' (all_indices t) ->
                  coinc data i j -> coinc data i j' -> j = j').
Proof. exact observers_final. Qed.
Print Assumptions observers.
Example observers_nonvacuous :
  in_root ex_data ex_root ex_order /\ exists t, fill_order true 6 ex_data ex_order (init ex_root) = Done true t.
Proof. exact ex_hyps_basic. Qed.

(* 4c. the mean-centred root box of QuadTree(Y, N) (what tsne.hpp constructs) contains all N points, for
       every slack >= 0 (the code adds 1e-5): the hypothesis in_root of the theorems above holds for it *)
Theorem auto_root_in_root_box : forall slack data N c,
  0 <= slack -> (N <= length data)%nat ->
  auto_root slack data N = Some c -> in_root data c (seq 0 N).
Proof. exact auto_root_in_root. Qed.
Print Assumptions auto_root_in_root_box.
Example auto_root_nonvacuous :
  exists c, auto_root (1 # 100000) ex_data 5 = Some c /\ (5 <= length ex_data)%nat.
Proof. exact ex_auto_root. Qed.

(* 5. theta = 0, no coincident points: computeNonEdgeForces adds exactly the all-pairs sums
      neg_f += sum_{j<>i} q_ij^2 (y_i - y_j),  sum_Q += sum_{j<>i} q_ij,  q_ij = 1/(1+|y_i-y_j|^2) *)
Theorem forces_theta0 : forall fx fuel data order root ok t,
  in_root data root order -> NoCo data order ->
  fill_order fx fuel data order (init root) = Done ok t ->
  forall i p a, nth_error data i = Some p ->
    exists r, forces data i 0 t a = FDone r /\ feq r (fadd a (exact_sums data p i order)).
Proof. exact forces_theta0_final. Qed.
Print Assumptions forces_theta0.
Example forces_theta0_nonvacuous :
  in_root ex_data2 ex_root ex_order2 /\ NoCo ex_data2 ex_order2 /\
  exists t, fill_order true 6 ex_data2 ex_order2 (init ex_root) = Done true t.
Proof. exact (conj ex_in_root2 (conj ex_noco2 ex_builds2)). Qed.

(* 6. "the error vanishes as theta -> 0" in its discrete form: below some theta0 > 0 the
      computation is the theta = 0 computation, for every query index and accumulator *)
Theorem forces_eventually_exact : forall fuel data order root ok t,
  in_root data root order ->
  fill_order true fuel data order (init root) = Done ok t ->
  exists theta0, 0 < theta0 /\
    forall theta, 0 <= theta -> theta < theta0 ->
      forall i a, forces data i theta t a = forces data i 0 t a.
Proof. exact forces_eventually_exact_final. Qed.
Print Assumptions forces_eventually_exact.
Example forces_eventually_exact_nonvacuous :
  in_root ex_data ex_root ex_order /\ exists t, fill_order true 6 ex_data ex_order (init ex_root) = Done true t.
Proof. exact ex_hyps_basic. Qed.

(* 6a. 5 and 6 together *)
Theorem forces_small_theta_exact : forall fuel data order root ok t,
  in_root data root order -> NoCo data order ->
  fill_order true fuel data order (init root) = Done ok t ->
  exists theta0, 0 < theta0 /\
    forall theta, 0 <= theta -> theta < theta0 ->
      forall i p a, nth_error data i = Some p ->
        exists r, forces data i theta t a = FDone r /\ feq r (fadd a (exact_sums data p i order)).
Proof. exact forces_small_theta_exact_final. Qed.
Print Assumptions forces_small_theta_exact.
Example forces_small_theta_exact_nonvacuous :
  in_root ex_data2 ex_root ex_order2 /\ NoCo ex_data2 ex_order2 /\
  exists t, fill_order true 6 ex_data2 ex_order2 (init ex_root) = Done true t.
Proof. exact ex_hyps_noco. Qed.

(* 6b. quantitative form of "the error vanishes as theta -> 0": no coincident points, 0 <= theta, 8 theta^2 <= 1;
       with eps = 9 theta + 8 theta^2 (epsf) and kap = eps (2 + eps) / 2 (kapf), `bound theta r0 e` says
         |sum_Q(r0) - sum_Q(e)| <= eps * sum_Q(e)   and   |neg_f[d](r0) - neg_f[d](e)| <= kap * sum_Q(e), d = 0, 1,
       where r0 is what the tree code adds to the accumulator and e the exact all-pairs sums *)
Theorem forces_error_bound : forall fx fuel data order root ok t,
  in_root data root order -> NoCo data order ->
  fill_order fx fuel data order (init root) = Done ok t ->
  forall theta, 0 <= theta -> 8 * (theta * theta) <= 1 ->
  forall i p a, nth_error data i = Some p ->
    exists r r0, forces data i theta t a = FDone r /\ feq r (fadd a r0) /\
                 bound theta r0 (exact_sums data p i order).
Proof. exact forces_error_bound_final. Qed.
Print Assumptions forces_error_bound.
Example forces_error_bound_nonvacuous :
  (in_root ex_data2 ex_root ex_order2 /\ NoCo ex_data2 ex_order2 /\
   exists t, fill_order true 6 ex_data2 ex_order2 (init ex_root) = Done true t) /\
  0 <= (1 # 8) /\ 8 * ((1 # 8) * (1 # 8)) <= 1.
Proof. exact (conj (conj ex_in_root2 (conj ex_noco2 ex_builds2)) ex_theta). Qed.

(* 6c. without coincident points the sums do not depend on the insertion order, for EVERY theta *)
Theorem forces_order_independent : forall fx fuel1 fuel2 data order1 order2 root ok1 ok2 t1 t2,
  Permutation order1 order2 ->
  in_root data root order1 -> NoCo data order1 ->
  fill_order fx fuel1 data order1 (init root) = Done ok1 t1 ->
  fill_order fx fuel2 data order2 (init root) = Done ok2 t2 ->
  forall p i theta a, feq (forces_at p i theta t1 a) (forces_at p i theta t2 a).
Proof. exact forces_order_independent_final. Qed.
Print Assumptions forces_order_independent.
Example forces_order_independent_nonvacuous :
  Permutation ex_order2 ex_order2' /\ in_root ex_data2 ex_root ex_order2 /\ NoCo ex_data2 ex_order2 /\
  (exists t, fill_order true 6 ex_data2 ex_order2 (init ex_root) = Done true t) /\
  (exists t, fill_order true 6 ex_data2 ex_order2' (init ex_root) = Done true t).
Proof. exact ex_hyps_order2. Qed.

(* 6d. masses: every internal cell's cum_size is the sum of its children's and at least 2; every occupied leaf's
       count[0] (the field of fix F24) equals its cum_size *)
Theorem leaf_count_is_mass : forall fuel data order root ok t,
  in_root data root order ->
  fill_order true fuel data order (init root) = Done ok t -> count_ok t.
Proof. exact count_ok_final. Qed.
Print Assumptions leaf_count_is_mass.
Example leaf_count_is_mass_nonvacuous :
  in_root ex_data ex_root ex_order /\ exists t, fill_order true 6 ex_data ex_order (init ex_root) = Done true t.
Proof. exact ex_hyps_basic. Qed.

(* 6e. tsne.hpp (computeGradient / evaluateError): `for n: tree->computeNonEdgeForces(n, theta, neg_f + n*D, &sum_Q)`
       with neg_f zeroed and ONE running sum_Q (nonedge_loop).  theta = 0, no coincident points: every row is the exact
       all-pairs force on that point and the final sum_Q is the start value plus the sum of q_ij over all rows
       (total_sq); for 8 theta^2 <= 1 the final sum_Q stays within (9 theta + 8 theta^2) * total_sq of that. *)
Theorem nonedge_loop_theta0 : forall fx fuel data order root ok t,
  in_root data root order -> NoCo data order ->
  fill_order fx fuel data order (init root) = Done ok t ->
  forall ns sq, (forall n, In n ns -> (n < length data)%nat) ->
    exists l s, nonedge_loop data 0 t ns sq = Some (l, s) /\
                rows_ok data order ns l /\ s == sq + total_sq data order ns.
Proof. exact nonedge_loop_theta0_final. Qed.
Print Assumptions nonedge_loop_theta0.
Theorem nonedge_loop_bound : forall fx fuel data order root ok t,
  in_root data root order -> NoCo data order ->
  fill_order fx fuel data order (init root) = Done ok t ->
  forall theta, 0 <= theta -> 8 * (theta * theta) <= 1 ->
  forall ns sq, (forall n, In n ns -> (n < length data)%nat) ->
    exists l s, nonedge_loop data theta t ns sq = Some (l, s) /\ length l = length ns /\
                -(epsf theta * total_sq data order ns) <= s - (sq + total_sq data order ns) /\
                s - (sq + total_sq data order ns) <= epsf theta * total_sq data order ns.
Proof. exact nonedge_loop_bound_final. Qed.
Print Assumptions nonedge_loop_bound.
Example nonedge_loop_nonvacuous :
  (in_root ex_data2 ex_root ex_order2 /\ NoCo ex_data2 ex_order2 /\
   exists t, fill_order true 6 ex_data2 ex_order2 (init ex_root) = Done true t) /\
  (forall n, In n (seq 0 4) -> (n < length ex_data2)%nat) /\ 0 <= (1 # 8) /\ 8 * ((1 # 8) * (1 # 8)) <= 1.
Proof. exact ex_hyps_loop. Qed.

(* 7. points on a grid of step g in a root box of half-size <= 2^d g: fuel d + 3 suffices, i.e. the
      recursion of insert() is at most that deep and the run is never `OutOfFuel` *)
Theorem insert_fuel : forall fuel data order root g d,
  0 < g ->
  in_root data root order ->
  (forall i p, In i order -> nth_error data i = Some p -> on_grid g p) ->
  chw root <= pow2 d * g -> chh root <= pow2 d * g ->
  (d + 3 <= fuel)%nat ->
  exists t, fill_order true fuel data order (init root) = Done true t.
Proof. exact insert_fuel_final. Qed.
Print Assumptions insert_fuel.
Example insert_fuel_nonvacuous :
  0 < (1#4) /\ in_root ex_data ex_root ex_order /\
  (forall i p, In i ex_order -> nth_error ex_data i = Some p -> on_grid (1#4) p) /\
  chw ex_root <= pow2 2 * (1#4) /\ chh ex_root <= pow2 2 * (1#4) /\ (2 + 3 <= 5)%nat.
Proof. exact ex_fuel_hyps. Qed.

(* 7a. the recursion of insert() ends on EVERY input (over the rationals): all finite rational data lie on a common
       grid, so 7 applies with some d.  Hence "a run that ends with Done" in the theorems above is every run: for all
       data, root boxes and insertion orders inside the root box the tree exists and satisfies the specification. *)
Theorem insert_terminates : forall data order root,
  in_root data root order ->
  exists fuel t, fill_order true fuel data order (init root) = Done true t /\
                 spec data order t /\ geom_ok t /\ qcell t = root.
Proof. exact insert_terminates_final. Qed.
Print Assumptions insert_terminates.
Example insert_terminates_nonvacuous : in_root ex_data ex_root ex_order.
Proof. exact ex_in_root. Qed.

(* 8. the decision procedures the correspondence run applies to the dump of the real tree *)
Theorem spec_okb_sound : forall data ins t, spec_okb data ins t = true -> spec data ins t.
Proof. exact spec_okb_sound_gen. Qed.
Print Assumptions spec_okb_sound.
Theorem struct_okb_sound : forall data ins t,
  struct_okb data ins t = true -> spec data ins (recom data ins t) /\ cum_consistent t = true.
Proof. exact struct_okb_sound_final. Qed.
Print Assumptions struct_okb_sound.
Example decision_procedures_nonvacuous :
  exists t, spec_okb ex_data ex_order t = true /\ struct_okb ex_data ex_order t = true.
Proof. exact ex_spec_okb. Qed.

(* 8a. the force clauses follow from the SPECIFICATION of the tree alone - for any tree, however it was built; in
       particular for the dump of the real tree once the extracted checker struct_okb has accepted it (centres of
       mass replaced by the exact means, which the run compares with the dumped doubles) *)
Theorem spec_implies_force_clauses : forall data ins t,
  spec data ins t -> NoCo data ins ->
  forall i p, nth_error data i = Some p ->
    (forall a, feq (forces_at p i 0 t a) (fadd a (exact_sums data p i ins))) /\
    (forall theta, 0 <= theta -> 8 * (theta * theta) <= 1 ->
       bound theta (forces_at p i theta t (0, 0, 0)) (exact_sums data p i ins)).
Proof. exact spec_forces_final. Qed.
Print Assumptions spec_implies_force_clauses.
Example spec_implies_force_clauses_nonvacuous : exists t, spec ex_data2 ex_order2 t /\ NoCo ex_data2 ex_order2.
Proof. exact ex_spec_noco. Qed.
Theorem checked_dump_force_clauses : forall data ins t,
  struct_okb data ins t = true -> NoCo data ins ->
  forall i p, nth_error data i = Some p ->
    (forall a, feq (forces_at p i 0 (recom data ins t) a) (fadd a (exact_sums data p i ins))) /\
    (forall theta, 0 <= theta -> 8 * (theta * theta) <= 1 ->
       bound theta (forces_at p i theta (recom data ins t) (0, 0, 0)) (exact_sums data p i ins)).
Proof. exact dump_forces_final. Qed.
Print Assumptions checked_dump_force_clauses.
Example checked_dump_nonvacuous : exists t, struct_okb ex_data2 ex_order2 t = true /\ NoCo ex_data2 ex_order2.
Proof. exact ex_dump. Qed.

(* 8c. EVERY theta (the whole range [0, 2] of the property and beyond), no coincident points: the tree code returns
       the all-pairs sums of a coarsened point set - the inserted indices are partitioned into groups (`items`), each
       group g enters as |g| copies of its mean (item_ok: agg_ok g |g| com; add_item = one add_summary with cum = |g|),
       and the group {i} of the query point is dropped when its own leaf is reached (None).  theta only decides how
       coarse the partition is.  For any tree satisfying spec, e.g. the checked dump of the real tree. *)
Theorem forces_coarsened : forall data ins t,
  spec data ins t -> NoCo data ins ->
  forall p i theta,
    exists items : list item,
      Permutation (concat (map fst items)) ins /\
      Forall (item_ok data i) items /\
      forall a, forces_at p i theta t a = fold_left (add_item p) items a.
Proof. exact forces_coarsened_final. Qed.
Print Assumptions forces_coarsened.
Example forces_coarsened_nonvacuous : exists t, spec ex_data2 ex_order2 t /\ NoCo ex_data2 ex_order2.
Proof. exact ex_spec_noco. Qed.

(* 8b. end to end for the constructor tsne.hpp uses, `new QuadTree(Y, N)` = root box from the data + fill(N)
       (tsne_tree; slack is the 1e-5 of the code, any slack >= 0 will do): every clause of the property *)
Theorem tsne_tree_satisfies_property : forall slack fuel data N ok t,
  0 <= slack -> (N <= length data)%nat ->
  tsne_tree slack fuel data N = Some (Done ok t) ->
  ok = true /\ spec data (seq 0 N) t /\ geom_ok t /\ count_ok t /\ is_correct data t = true /\
  NoDup (all_indices t) /\
  (NoCo data (seq 0 N) ->
     forall i p, nth_error data i = Some p ->
       (forall a, feq (forces_at p i 0 t a) (fadd a (exact_sums data p i (seq 0 N)))) /\
       (forall theta, 0 <= theta -> 8 * (theta * theta) <= 1 ->
          bound theta (forces_at p i theta t (0, 0, 0)) (exact_sums data p i (seq 0 N)))).
Proof. exact tsne_tree_final. Qed.
Print Assumptions tsne_tree_satisfies_property.
Example tsne_tree_nonvacuous :
  exists ok t, tsne_tree (1 # 100000) 12 ex_data 5 = Some (Done ok t) /\ (5 <= length ex_data)%nat.
Proof. exact ex_tsne_tree. Qed.

(* 9. the list of summarised cells the model driver prints is what forces_at folds over *)
Theorem forces_fold_cells : forall p i theta t n a,
  forces_at p i theta t a = fold_left (add_cell p) (forces_cells p i theta n t) a.
Proof. exact forces_at_cells. Qed.
Print Assumptions forces_fold_cells.

(* 10. over the reals the C++ test  max(hh,hw)/sqrt(D) < theta  is the sqrt-free test of the model
       (classical-reals axioms of the standard library; used by nothing above) *)
Theorem summary_criterion_sqrt_free : forall m theta D : R,
  (0 <= m)%R -> (0 <= theta)%R -> (0 < D)%R ->
  (m / sqrt D < theta)%R <-> (m * m < theta * theta * D)%R.
Proof. exact summary_sqrt_free. Qed.
Print Assumptions summary_criterion_sqrt_free.

(* ======================= wave 2: every theta; binary64 ======================= *)

(* 11. EVERY 0 <= theta1 <= theta2 (the whole range [0, 2] and beyond): the traversal at the smaller theta is the traversal
       at the larger theta followed by a further descent inside each cell the larger theta summarised.  So the set of
       summarised cells only moves towards the root as theta grows (11a), and the results differ only inside the cells
       summarised at theta2 (11b; with theta1 = 0: the Barnes-Hut result differs from the exact traversal only there). *)
Theorem forces_theta_refinement : forall p i theta1 theta2 t,
  0 <= theta1 -> theta1 <= theta2 ->
  forces_subtrees p i theta1 t = flat_map (forces_subtrees p i theta1) (forces_subtrees p i theta2 t).
Proof. exact forces_subtrees_refine. Qed.
Print Assumptions forces_theta_refinement.
Theorem summarised_cells_monotone_in_theta : forall p i theta1 theta2 t s,
  0 <= theta1 -> theta1 <= theta2 ->
  In s (forces_subtrees p i theta1 t) ->
  exists s2, In s2 (forces_subtrees p i theta2 t) /\ subtree s s2.
Proof. exact summarised_cells_monotone. Qed.
Print Assumptions summarised_cells_monotone_in_theta.
Theorem forces_differ_only_inside_summaries : forall p i theta1 theta2 t a,
  0 <= theta1 -> theta1 <= theta2 ->
  forces_at p i theta1 t a =
  fold_left (fun a s => forces_at p i theta1 s a) (forces_subtrees p i theta2 t) a.
Proof. exact forces_at_refines. Qed.
Print Assumptions forces_differ_only_inside_summaries.
(* forces_subtrees is the list of cells the model driver prints (forces_cells), without the preorder numbers *)
Theorem forces_subtrees_are_forces_cells : forall p i theta t n,
  map (fun s => (qcum s, qcom s)) (forces_subtrees p i theta t) =
  map (fun x => (snd (fst x), snd x)) (forces_cells p i theta n t).
Proof. exact forces_subtrees_cells. Qed.
Print Assumptions forces_subtrees_are_forces_cells.
(* ... and forces_at is the fold of add_summary over it: the model driver runs forces_subtrees (and numbers the returned
   subtrees in preorder itself), the check re-evaluates this fold in floats *)
Theorem forces_fold_subtrees : forall p i theta t a,
  forces_at p i theta t a =
  fold_left (fun a s => add_summary p (qcum s) (qcom s) a) (forces_subtrees p i theta t) a.
Proof. exact forces_at_subtrees. Qed.
Print Assumptions forces_fold_subtrees.
Example theta_refinement_nonvacuous : 0 <= (1#8) /\ (1#8) <= (1#2).
Proof. split; discriminate. Qed.

(* 12. why forces_error_bound stops at 8 theta^2 <= 1: at theta = 1/2 (the t-SNE default; 8 theta^2 = 2) a set without
       coincident points in which the ROOT cell - which contains the query point - passes the criterion, so the whole map,
       the query included, is one summary; the tree's sum_Q is below 1/1000 of the exact all-pairs sum: relative error
       above 99.9 %.  No bound eps(theta) < 1 on the relative error exists beyond 2 sqrt 2 theta = 1. *)
Theorem forces_large_theta_relative_error :
  exists data order root t p r,
    in_root data root order /\ NoCo data order /\
    fill_order true 20 data order (init root) = Done true t /\
    nth_error data 0 = Some p /\
    1 < 8 * ((1#2) * (1#2)) /\
    contains (qcell t) p = true /\ forces_subtrees p 0 (1#2) t = [t] /\
    forces data 0 (1#2) t (0, 0, 0) = FDone r /\
    1000 * snd r < snd (exact_sums data p 0 order).
Proof. exact QuadTree_Proof_Theta.forces_large_theta_relative_error. Qed.
Print Assumptions forces_large_theta_relative_error.

(* 13. BINARY64 (Coq primitive floats; model QuadTree_Float_Model.v = containsPoint and the child boxes of subdivide(),
       bit for bit).  children_cover (theorem 2) is FALSE in binary64 - known finding F25:
       (a) a cell accepts a point that all four of its children reject (the point is dropped by subdivide(), or insert()
           returns false after the cell has counted it); witness = corpus/C18/f25_crack_point_dropped.json *)
Theorem children_cover_binary64_refuted :
  exists (c : fcell) (p : fpt),
    fcontains c p = true /\
    fcontains (fnwc c) p = false /\ fcontains (fnec c) p = false /\
    fcontains (fswc c) p = false /\ fcontains (fsec c) p = false.
Proof. exact children_cover_binary64_refuted_gen. Qed.
Print Assumptions children_cover_binary64_refuted.
(* the same from the root box of the corpus case: insert() routes the point root -> SW -> SW, that cell accepts it, none
   of its children does *)
Theorem point_dropped_binary64 :
  exists (root : fcell) (p : fpt),
    fcontains root p = true /\
    ffirst_child root p = Some 2%nat /\
    ffirst_child (fchild 2 root) p = Some 2%nat /\
    fcontains (fdescend [2%nat; 2%nat] root) p = true /\
    ffirst_child (fdescend [2%nat; 2%nat] root) p = None /\
    fcrack (fdescend [2%nat; 2%nat] root) p = true.
Proof. exact point_dropped_binary64_gen. Qed.
Print Assumptions point_dropped_binary64.
(*     (b) phantom mass: the NW child a of c accepts the point (cum_size++), a's only accepting child a/SE accepts it
           (cum_size++), all four children of a/SE reject it, so a/SE and a return false; c's NE child accepts and stores
           it: a and a/SE keep mass for a point that lives in their sibling; corpus/C18/f25_crack_phantom_mass.json *)
Theorem phantom_mass_binary64_refuted :
  exists (c : fcell) (p : fpt),
    fcontains c p = true /\
    fcontains (fnwc c) p = true /\
    ffirst_child (fnwc c) p = Some 3%nat /\
    fcrack (fsec (fnwc c)) p = true /\
    fcontains (fnec c) p = true.
Proof. exact phantom_mass_binary64_refuted_gen. Qed.
Print Assumptions phantom_mass_binary64_refuted.

(* 14. ... and it HOLDS in binary64, bit for bit, on a class of exact inputs: a cell whose centre and half sizes are
       multiples m * 2^g of one power of two (gmin = -1074 <= g <= gmax = 971) with headroom |mx| + 2|mw| < 2^53 in the
       significand (cell_on_grid), and EVERY finite point (on the grid or not).  On that class containsPoint decides the
       real-number containment (14a), the child boxes are the exact halves (14b), there is no crack (14), and the
       children are on the next finer grid with the bound doubled, so d levels below a root with |mx| + 2|mw| < 2^(53-d)
       are crack-free (14c).  This is the class the exact stream of the check generates (dyadic boxes and points), which
       is why model and implementation must agree exactly there.  FR x = the real value of the double x (Flocq B2R).
       Assumptions: the PrimFloat specification axioms of Coq.Floats.FloatAxioms and the classical reals. *)
Theorem children_cover_binary64_exact_inputs : forall g c p,
  (gmin <= g <= gmax)%Z -> cell_on_grid g c -> pt_finite p ->
  fcontains c p = true ->
  fcontains (fnwc c) p = true \/ fcontains (fnec c) p = true \/
  fcontains (fswc c) p = true \/ fcontains (fsec c) p = true.
Proof. exact children_cover_binary64_exact_inputs_gen. Qed.
Print Assumptions children_cover_binary64_exact_inputs.
Example children_cover_binary64_exact_inputs_nonvacuous :
  (gmin <= -1 <= gmax)%Z /\ cell_on_grid (-1) unit_cell /\ pt_finite origin_pt /\
  fcontains unit_cell origin_pt = true.
Proof. exact exact_inputs_hyps. Qed.
Theorem containsPoint_binary64_exact_on_grid : forall g c p,
  (gmin <= g <= gmax)%Z -> cell_on_grid g c -> pt_finite p ->
  (fcontains c p = true <->
   (FR (fcx c) - FR (fchw c) <= FR (fst p) <= FR (fcx c) + FR (fchw c) /\
    FR (fcy c) - FR (fchh c) <= FR (snd p) <= FR (fcy c) + FR (fchh c))%R).
Proof. exact fcontains_exact_on_grid. Qed.
Print Assumptions containsPoint_binary64_exact_on_grid.
Theorem child_boxes_binary64_exact_on_grid : forall g c,
  (gmin <= g <= gmax)%Z -> cell_on_grid g c ->
  (FR (fchw (fnwc c)) = FR (fchw c) / 2 /\ FR (fchh (fnwc c)) = FR (fchh c) / 2 /\
   FR (fcx (fnwc c)) = FR (fcx c) - FR (fchw c) / 2 /\ FR (fcx (fnec c)) = FR (fcx c) + FR (fchw c) / 2 /\
   FR (fcy (fnwc c)) = FR (fcy c) - FR (fchh c) / 2 /\ FR (fcy (fswc c)) = FR (fcy c) + FR (fchh c) / 2)%R.
Proof. exact fchildren_exact_on_grid. Qed.
Print Assumptions child_boxes_binary64_exact_on_grid.
Theorem no_crack_below_grid_root : forall (path : list nat) g d root p,
  (length path <= d)%nat -> (Z.of_nat d <= FloatOps.prec)%Z ->
  (gmin + Z.of_nat d <= g <= gmax)%Z ->
  cell_on_grid_b g (2 ^ (FloatOps.prec - Z.of_nat d)) root ->
  Forall (fun k => (k < 4)%nat) path ->
  pt_finite p ->
  fcrack (fdescend path root) p = false /\
  (fcontains (fdescend path root) p = true ->
   existsb (fun k => fcontains k p) (fchildren (fdescend path root)) = true).
Proof. exact no_crack_below_grid_root_gen. Qed.
Print Assumptions no_crack_below_grid_root.
Example no_crack_below_grid_root_nonvacuous :
  (length [0; 3; 1]%nat <= 40)%nat /\ (Z.of_nat 40 <= FloatOps.prec)%Z /\ (gmin + Z.of_nat 40 <= -1 <= gmax)%Z /\
  cell_on_grid_b (-1) (2 ^ (FloatOps.prec - Z.of_nat 40)) unit_cell /\
  Forall (fun k => (k < 4)%nat) [0; 3; 1]%nat /\ pt_finite origin_pt.
Proof. exact no_crack_hyps. Qed.

(* 15. on that class the binary64 box arithmetic REFINES the exact-rational model of this development (QuadTree_Model.v):
       F2Q x = the rational value of the double x, cellQ / ptQ = a binary64 cell / point read as rationals.  The real
       code's containment decision is the exact model's decision (15a), its child boxes are the exact model's child boxes
       (15b), and so along every path of length <= d below a root with d spare significand bits (15).  Hence on the exact
       stream of the check (dyadic inputs) "model and implementation must agree exactly" on every containment decision. *)
Theorem box_arithmetic_binary64_refines_exact_model : forall (path : list nat) g d root p,
  (length path <= d)%nat -> (Z.of_nat d <= FloatOps.prec)%Z ->
  (gmin + Z.of_nat d <= g <= gmax)%Z ->
  cell_on_grid_b g (2 ^ (FloatOps.prec - Z.of_nat d)) root ->
  Forall (fun k => (k < 4)%nat) path ->
  pt_finite p ->
  cell_eq (cellQ (fdescend path root)) (qdescend path (cellQ root)) /\
  fcontains (fdescend path root) p = contains (qdescend path (cellQ root)) (ptQ p).
Proof. exact box_arithmetic_refines_gen. Qed.
Print Assumptions box_arithmetic_binary64_refines_exact_model.
Example box_arithmetic_refines_nonvacuous :
  (length [0; 3; 1]%nat <= 40)%nat /\ (Z.of_nat 40 <= FloatOps.prec)%Z /\ (gmin + Z.of_nat 40 <= -1 <= gmax)%Z /\
  cell_on_grid_b (-1) (2 ^ (FloatOps.prec - Z.of_nat 40)) unit_cell /\
  Forall (fun k => (k < 4)%nat) [0; 3; 1]%nat /\ pt_finite origin_pt.
Proof. exact refines_hyps. Qed.
Theorem containsPoint_binary64_is_exact_model : forall g c p,
  (gmin <= g <= gmax)%Z -> cell_on_grid g c -> pt_finite p ->
  fcontains c p = contains (cellQ c) (ptQ p).
Proof. exact fcontains_refines_gen. Qed.
Print Assumptions containsPoint_binary64_is_exact_model.
Theorem child_boxes_binary64_are_exact_model : forall g c,
  (gmin <= g <= gmax)%Z -> cell_on_grid g c ->
  cell_eq (cellQ (fnwc c)) (nwc (cellQ c)) /\ cell_eq (cellQ (fnec c)) (nec (cellQ c)) /\
  cell_eq (cellQ (fswc c)) (swc (cellQ c)) /\ cell_eq (cellQ (fsec c)) (sec (cellQ c)).
Proof. exact fchildren_refine_gen. Qed.
Print Assumptions child_boxes_binary64_are_exact_model.

(* 16. the DUPLICATE TEST of insert() in binary64 (`point[d] != data[index[n]*2+d]` for d = 0, 1: the IEEE comparison,
       QuadTree_Float_Dup.fdup) is the duplicate test of the exact-rational model (QuadTree_Model.pt_eqb) on the rational
       values of the doubles, for EVERY pair of finite points.  In particular +0.0 and -0.0, which the model cannot tell
       apart (both are the rational 0), are duplicates for the code as well (16a).  A test on the bit patterns (memcmp
       over the coordinate pair) is a different function: (+0.0, 3/8) and (-0.0, 3/8) are one point for the model and two
       for it (16b) - with it the model and the code part ways on inputs that are the same numbers. *)
Theorem duplicate_test_binary64_is_exact_model : forall p q : fpt,
  pt_finite p -> pt_finite q -> fdup p q = pt_eqb (ptQ p) (ptQ q).
Proof. exact fdup_is_pt_eqb. Qed.
Print Assumptions duplicate_test_binary64_is_exact_model.
Example duplicate_test_binary64_nonvacuous : pt_finite zpos_pt /\ pt_finite zneg_pt.
Proof. exact zpts_finite. Qed.
Theorem duplicate_test_identifies_signed_zeros :
  pt_finite zpos_pt /\ pt_finite zneg_pt /\
  pt_eqb (ptQ zpos_pt) (ptQ zneg_pt) = true /\ fdup zpos_pt zneg_pt = true /\ fdup_bits zpos_pt zneg_pt = false.
Proof. exact signed_zero_twins. Qed.
Print Assumptions duplicate_test_identifies_signed_zeros.
Theorem bitwise_duplicate_test_refuted :
  exists p q : fpt, pt_finite p /\ pt_finite q /\ pt_eqb (ptQ p) (ptQ q) = true /\ fdup_bits p q = false.
Proof. exact QuadTree_Proof_FloatDup.bitwise_duplicate_test_refuted. Qed.
Print Assumptions bitwise_duplicate_test_refuted.
