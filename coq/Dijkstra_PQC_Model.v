(* Dijkstra_PQC_Model.v — the TAPKEE_USE_PRIORITY_QUEUE configuration of
     tapkee_internal::compute_shortest_distances_matrix (include/tapkee/routines/isomap.hpp)
   with the queue NOT abstracted: reservable_priority_queue<HeapElement, HeapElementComparator>
   = std::priority_queue over std::vector, i.e. libstdc++'s binary heap (bits/stl_heap.h, GCC 12):

     push(x)  : c.push_back(x); std::push_heap  -> __push_heap(first, hole = len-1, top = 0, x)
                    parent = (hole-1)/2;
                    while (hole > top && comp(first[parent], x)) { first[hole] = first[parent]; hole = parent; ... }
                    first[hole] = x;
     top()    : c.front()
     pop()    : std::pop_heap; c.pop_back()     -> if (len > 1) __pop_heap(first, last-1, last-1):
                    value = last[-1]; last[-1] = first[0]; __adjust_heap(first, 0, len-1, value)
                __adjust_heap(first, hole, L, value):
                    sc = hole;
                    while (sc < (L-1)/2) { sc = 2*(sc+1); if (comp(first[sc], first[sc-1])) sc--;
                                           first[hole] = first[sc]; hole = sc; }
                    if ((L & 1) == 0 && sc == (L-2)/2) { sc = 2*(sc+1); first[hole] = first[sc-1]; hole = sc-1; }
                    __push_heap(first, hole, top, value)
     comp(l, r) = l.second > r.second            (HeapElementComparator: a min-heap on the distance)

   The C++ moves a HOLE and writes `value` once at the end; the model keeps `value` IN the hole and swaps
   (the same arrays after every loop, the same comparisons in the same order), so that every operation is
   visibly a permutation.  The vector after pop() is the first len-1 cells (the old top sits in the last cell
   and is popped).

   `step_pqc` is step_pq of Dijkstra_Model.v with top() = the first cell.  It additionally CHECKS that this cell
   has a minimal key (`is_min`) and returns DOOB site_pick 1 otherwise (a distinguished result, as for every
   out-of-contract situation).  Dijkstra_Proof_PQC_Heap.v proves that push_heap / pop_heap keep the heap order,
   so the check never fires and full_matrix_pqc = DOk (sp_matrix ..) for every well-formed graph.
   The instrumented copy lists the distance-callback calls (u, v) in order, as Dijkstra_FibC_Model.v does for
   the Fibonacci configuration: with ties among keys the order in which vertices leave the queue — hence the
   call sequence — is the binary heap's own.  No proofs in this file. *)
From Coq Require Import List ZArith Bool Arith.
From TK Require Import Dijkstra_Model.
Import ListNotations.
Local Open Scope Z_scope.

(* HeapElementComparator *)
Definition comp (l r : entry) : bool := Z.ltb (snd r) (snd l).

Definition swap (c : list entry) (i j : nat) : list entry :=
  match nth_error c i, nth_error c j with
  | Some a, Some b => upd (upd c i b) j a
  | _, _ => c
  end.

(* __push_heap with the value sitting in the hole, topIndex = 0 *)
Fixpoint sift_up (fuel : nat) (c : list entry) (hole : nat) : list entry :=
  match fuel with
  | O => c
  | S f =>
    if Nat.ltb 0 hole then
      let parent := ((hole - 1) / 2)%nat in
      match nth_error c parent, nth_error c hole with
      | Some p, Some v => if comp p v then sift_up f (swap c hole parent) parent else c
      | _, _ => c
      end
    else c
  end.

Definition bh_push (x : entry) (c : list entry) : list entry :=
  sift_up (S (length c)) (c ++ [x]) (length c).

(* the descent of __adjust_heap over the first L cells, value in the hole; returns the array and the hole *)
Fixpoint sift_down (fuel : nat) (c : list entry) (L hole : nat) : list entry * nat :=
  match fuel with
  | O => (c, hole)
  | S f =>
    if Nat.ltb hole ((L - 1) / 2) then
      let r := (2 * (hole + 1))%nat in
      match nth_error c r, nth_error c (r - 1) with
      | Some a, Some b =>
        let sc := if comp a b then (r - 1)%nat else r in
        sift_down f (swap c hole sc) L sc
      | _, _ => (c, hole)
      end
    else if Nat.even L && Nat.eqb hole ((L - 2) / 2) && Nat.leb 2 L then
      (swap c hole (2 * (hole + 1) - 1), (2 * (hole + 1) - 1)%nat)
    else (c, hole)
  end.

(* pop(): the last element takes the place of the top, sinks to the bottom, then rises *)
Definition bh_pop (c : list entry) : list entry :=
  match c with
  | [] => []
  | top :: rest =>
    match rest with
    | [] => []
    | _ :: _ =>
      let body := last rest top :: removelast rest in
      let r := sift_down (length body) body (length body) 0 in
      sift_up (S (length body)) (fst r) (snd r)
    end
  end.

Definition is_min (e : entry) (c : list entry) : bool :=
  forallb (fun q => Z.leb (snd e) (snd q)) c.

Section RunC.
  Variable nbrs : list (list nat).
  Variable w : nat -> nat -> Z.
  Variable N : nat.
  Variable K : nat.

  (* relax_pq with heap.push = bh_push *)
  Fixpoint relax_pqc (u : nat) (ws : list nat) (st : dstate) : dres dstate :=
    match ws with
    | [] => DOk st
    | v :: ws' =>
      match nth_error (d_s st) v with
      | None => DOOB site_w v
      | Some true => relax_pqc u ws' st
      | Some false =>
        match nth_error (d_dist st) u, nth_error (d_dist st) v with
        | Some (Some du), Some dv =>
          let nd := du + w u v in
          if lt_inf nd dv
          then relax_pqc u ws'
                 (mkD (upd (d_dist st) v (Some nd)) (d_s st)
                      (upd (d_f st) v true) (bh_push (v, nd) (d_heap st)))
          else relax_pqc u ws' st
        | Some None, Some _ => relax_pqc u ws' st
        | None, _ => DOOB site_min_item u
        | _, None => DOOB site_w v
        end
      end
    end.

  Definition step_pqc (st : dstate) : option (dres dstate) :=
    match d_heap st with
    | [] => None
    | (u, d) :: _ =>
      Some (if is_min (u, d) (d_heap st) then
              let heap' := bh_pop (d_heap st) in
              match nth_error (d_dist st) u with
              | None => DOOB site_min_item u
              | Some du =>
                if gt_inf d du
                then DOk (mkD (d_dist st) (d_s st) (d_f st) heap')
                else expand nbrs K relax_pqc u (d_dist st) (d_s st) (d_f st) heap'
              end
            else DOOB site_pick 1)
    end.

  Definition row_pqc := row_of N K step_pqc.

  (* ----- instrumented copy: the calls callback.distance(begin[u], begin[v]) of one iteration ----- *)
  Definition trace_step_pqc (st : dstate) : list (nat * nat) :=
    match d_heap st with
    | [] => []
    | (u, d) :: _ =>
      match nth_error (d_dist st) u with
      | Some du =>
        if gt_inf d du then []
        else match nbr_row nbrs K u with
             | DOk ws => map (fun v => (u, v))
                             (filter (fun v => negb (nth v (upd (d_s st) u true) true)) ws)
             | _ => []
             end
      | None => []
      end
    end.

  Fixpoint loop_pqc_tr (fuel : nat) (st : dstate) : dres dstate * list (nat * nat) :=
    match fuel with
    | O => (DOutOfFuel, [])
    | S fuel' =>
      match step_pqc st with
      | None => (DOk st, [])
      | Some (DOk st') => let r := loop_pqc_tr fuel' st' in (fst r, trace_step_pqc st ++ snd r)
      | Some (DOOB a b) => (DOOB a b, trace_step_pqc st)
      | Some DOutOfFuel => (DOutOfFuel, trace_step_pqc st)
      end
    end.

  Definition row_pqc_tr (src fidx : nat) : dres (list (option Z)) * list (nat * nat) :=
    match init_state N src fidx with
    | DOk st0 =>
      let r := loop_pqc_tr (fuel_of N K) st0 in
      (match fst r with
       | DOk st => DOk (d_dist st)
       | DOOB a b => DOOB a b
       | DOutOfFuel => DOutOfFuel
       end, snd r)
    | DOOB a b => (DOOB a b, [])
    | DOutOfFuel => (DOutOfFuel, [])
    end.
End RunC.

Definition full_matrix_pqc (nbrs : list (list nat)) (w : nat -> nat -> Z) (N : nat)
  : dres (list (list (option Z))) :=
  match nbrs with
  | [] => DOOB site_n_neighbors 0
  | r0 :: _ => sequence (map (fun k => row_pqc nbrs w N (length r0) k k) (seq 0 N))
  end.

Definition landmark_matrix_pqc (nbrs : list (list nat)) (w : nat -> nat -> Z) (N : nat) (lm : list nat)
  : dres (list (list (option Z))) :=
  match nbrs with
  | [] => DOOB site_n_neighbors 0
  | r0 :: _ => sequence (map (fun src => row_pqc nbrs w N (length r0) src src) lm)
  end.

Definition full_trace_pqc (nbrs : list (list nat)) (w : nat -> nat -> Z) (N : nat) : list (nat * nat) :=
  match nbrs with
  | [] => []
  | r0 :: _ => flat_map (fun k => snd (row_pqc_tr nbrs w N (length r0) k k)) (seq 0 N)
  end.

Definition landmark_trace_pqc (nbrs : list (list nat)) (w : nat -> nat -> Z) (N : nat) (lm : list nat)
  : list (nat * nat) :=
  match nbrs with
  | [] => []
  | r0 :: _ => flat_map (fun src => snd (row_pqc_tr nbrs w N (length r0) src src)) lm
  end.
