(* ====================================================================== *)
(*  Spectral_Randomized.v — why tapkee's randomized front-end              *)
(*  (eigendecomposition_impl_randomized, redsvd style) returns exact       *)
(*  eigenpairs ON EXACT-RANK DATA, which is the only case the properties   *)
(*  quantify the randomized solver over.                                   *)
(*                                                                         *)
(*  Code:  Y = A O (O Gaussian, k = d + skip columns); Gram-Schmidt on the *)
(*  columns of Y; B1 = A Y; B = Y.householderQr().solve(B1); (W, Lam) =    *)
(*  SelfAdjointEigenSolver(B); return (Y W).rightCols(d).                  *)
(*                                                                         *)
(*  gram_schmidt_step / gram_schmidt : the orthonormalisation loop as      *)
(*  executed (modified Gram-Schmidt, column by column, the norm being a    *)
(*  sqrt ORACLE value s_i with s_i^2 = <y_i, y_i>), and the theorem that   *)
(*  its result has orthonormal columns whenever no norm vanishes.          *)
(*  randomized_contract : Y^T Y = I, Y Y^T A = A (the range of A was       *)
(*  captured: holds when rank A <= k and O is generic), B = Y^T A Y (the   *)
(*  least-squares solution for orthonormal Y), eigen contract for B  ==>   *)
(*  eigen contract for A with vectors Y W and the same values.             *)
(*  Every field; axiom free.                                               *)
(* ====================================================================== *)
Require Import Field Ring Arith Lia List Bool.
From TK Require Import Mat_Sums Mat_Core.

Section Randomized.
  Context {F : Type} {Fo : FieldOps F} {Ff : IsField F}.
  Add Field RandomizedField : (@Fth F Fo Ff).
  Local Open Scope nat_scope.
  Local Open Scope F_scope.

  Definition orthonormal_cols (n k : nat) (Y : mat F) : Prop :=
    meq k k (mmul n (mtrans Y) Y) mI.

  Definition eig_pairs (n k : nat) (A P : mat F) (lam : vec F) : Prop :=
    orthonormal_cols n k P /\ meq n k (mmul n A P) (mmul k P (mdiag lam)).

  Theorem randomized_contract n k (A Y B W : mat F) (lam : vec F) :
    orthonormal_cols n k Y ->
    meq n n (mmul k Y (mmul n (mtrans Y) A)) A ->
    meq k k B (mmul n (mtrans Y) (mmul n A Y)) ->
    eig_pairs k k B W lam ->
    eig_pairs n k A (mmul k Y W) lam.
  Proof.
    intros HY Hrange HB [HW HBW]. split.
    - (* (Y W)^T (Y W) = W^T (Y^T Y) W = W^T W = I *)
      intros a b Ha Hb.
      rewrite (mmul_ext_l n (mtrans (mmul k Y W)) (mmul k (mtrans W) (mtrans Y)) (mmul k Y W) a b)
        by (intros t _; apply mtrans_mmul).
      rewrite mmul_assoc.
      rewrite (mmul_ext_r k (mtrans W) (mmul n (mtrans Y) (mmul k Y W)) W a b).
      + apply HW; assumption.
      + intros s Hs. rewrite <- mmul_assoc.
        rewrite (mmul_meq k k k (mmul n (mtrans Y) Y) mI W W HY (meq_refl _ _ _) s b Hs Hb).
        apply mmul_I_l. assumption.
    - (* A (Y W) = (Y Y^T A) Y W = Y (Y^T A Y) W = Y B W = Y W Lam *)
      intros i c Hi Hc.
      set (Z := mmul n (mtrans Y) A).
      rewrite (mmul_ext_l n A (mmul k Y Z) (mmul k Y W) i c)
        by (intros t Ht; symmetry; apply Hrange; assumption).
      rewrite mmul_assoc.
      assert (HZ : meq k k (mmul n Z Y) B).
      { intros s t Hs Ht. unfold Z. rewrite mmul_assoc. symmetry. apply HB; assumption. }
      rewrite (mmul_ext_r k Y (mmul n Z (mmul k Y W)) (mmul k W (mdiag lam)) i c).
      + symmetry. apply mmul_assoc.
      + intros s Hs. rewrite <- mmul_assoc.
        rewrite (mmul_meq k k k (mmul n Z Y) B W W HZ (meq_refl _ _ _) s c Hs Hc).
        apply HBW; assumption.
  Qed.

  (* taking d of the k returned pairs (rightCols(d): columns k-d .. k-1) keeps the contract *)
  Theorem eig_pairs_select n k d off (A P : mat F) (lam : vec F) :
    off + d <= k -> eig_pairs n k A P lam ->
    eig_pairs n d A (fun i c => P i (off + c)%nat) (fun c => lam (off + c)%nat).
  Proof.
    intros Hle [Ho He]. split.
    - intros a b Ha Hb. unfold mmul, mtrans.
      specialize (Ho (off + a)%nat (off + b)%nat ltac:(lia) ltac:(lia)).
      unfold mmul, mtrans in Ho. rewrite Ho. unfold mI, delta.
      destruct (Nat.eqb a b) eqn:E.
      + apply Nat.eqb_eq in E. subst. rewrite Nat.eqb_refl. reflexivity.
      + apply Nat.eqb_neq in E.
        assert (E2 : Nat.eqb (off + a) (off + b) = false) by (apply Nat.eqb_neq; lia).
        rewrite E2. reflexivity.
    - intros i c Hi Hc. rewrite mmul_diag_r by assumption.
      specialize (He i (off + c)%nat Hi ltac:(lia)). rewrite mmul_diag_r in He by lia.
      unfold mmul in *. exact He.
  Qed.

  (* ---------------- the Gram-Schmidt loop, as executed ---------------- *)
  (* for j < i: r = Y.col(i).dot(Y.col(j)); Y.col(i) -= r * Y.col(j)   (sequentially: modified GS) *)
  Fixpoint gs_subtract (n : nat) (Y : mat F) (i j : nat) (col : vec F) : vec F :=
    match j with
    | O => col
    | S j' =>
        let col' := gs_subtract n Y i j' col in
        let r := dot n col' (fun t => Y t j') in
        fun t => col' t - r * Y t j'
    end.

  (* one outer iteration: column i becomes (column i minus its components) / norm, where
     `s` is the sqrt oracle's answer for the squared norm *)
  Definition gs_step (n : nat) (Y : mat F) (i : nat) (s : F) : mat F :=
    let col := gs_subtract n Y i i (fun t => Y t i) in
    fun t c => if Nat.eqb c i then col t * (1 / s) else Y t c.

  Fixpoint gram_schmidt (n : nat) (Y : mat F) (k : nat) (s : nat -> F) : mat F :=
    match k with
    | O => Y
    | S k' => gs_step n (gram_schmidt n Y k' s) k' (s k')
    end.

  Definition cols_orthonormal_upto (n k : nat) (Y : mat F) : Prop :=
    forall a b, a < k -> b < k -> dot n (fun t => Y t a) (fun t => Y t b) = delta a b.

  (* subtracting the components along orthonormal columns 0..j-1 leaves a vector orthogonal
     to each of them *)
  Lemma gs_subtract_orthogonal n (Y : mat F) i j (col : vec F) :
    cols_orthonormal_upto n j Y ->
    forall b, b < j -> dot n (gs_subtract n Y i j col) (fun t => Y t b) = 0.
  Proof.
    induction j as [|j IH]; intros HY b Hb; [lia|].
    cbn [gs_subtract]. cbv zeta.
    assert (HYj : cols_orthonormal_upto n j Y) by (intros a c Ha Hc; apply HY; lia).
    rewrite (dot_sub_l n (gs_subtract n Y i j col)
               (fun t => dot n (gs_subtract n Y i j col) (fun u => Y u j) * Y t j)).
    rewrite dot_scale_l.
    destruct (Nat.eq_dec b j) as [->|Hne].
    - rewrite (HY j j) by lia. rewrite delta_eq. ring.
    - rewrite (IH HYj b) by lia. rewrite (HY j b) by lia. rewrite delta_neq by lia. ring.
  Qed.

  Lemma gs_step_other n (Y : mat F) i s t c : c <> i -> gs_step n Y i s t c = Y t c.
  Proof. intros H. unfold gs_step. apply Nat.eqb_neq in H. rewrite H. reflexivity. Qed.

  Lemma gs_step_self n (Y : mat F) i s t :
    gs_step n Y i s t i = gs_subtract n Y i i (fun u => Y u i) t * (1 / s).
  Proof. unfold gs_step. rewrite Nat.eqb_refl. reflexivity. Qed.

  (* one step extends orthonormality from i to i+1 columns, given the sqrt contract *)
  Lemma gs_step_orthonormal n (Y : mat F) i s :
    cols_orthonormal_upto n i Y ->
    s <> 0 ->
    s * s = (let col := gs_subtract n Y i i (fun t => Y t i) in dot n col col) ->
    cols_orthonormal_upto n (S i) (gs_step n Y i s).
  Proof.
    intros HY Hs Hsq a b Ha Hb.
    set (col := gs_subtract n Y i i (fun t => Y t i)) in *.
    destruct (Nat.eq_dec a i) as [->|Ha'], (Nat.eq_dec b i) as [->|Hb'].
    - rewrite delta_eq.
      rewrite (dot_ext n _ (fun t => (1 / s) * col t) _ (fun t => (1 / s) * col t)).
      2,3: intros t _; rewrite gs_step_self; fold col; ring.
      rewrite dot_scale_l, dot_comm, dot_scale_l. cbv zeta in Hsq. rewrite <- Hsq. field. assumption.
    - rewrite delta_neq by lia.
      rewrite (dot_ext n _ (fun t => (1 / s) * col t) _ (fun t => Y t b)).
      2: intros t _; rewrite gs_step_self; fold col; ring.
      2: intros t _; apply gs_step_other; assumption.
      rewrite dot_scale_l. unfold col. rewrite (gs_subtract_orthogonal n Y i i _ HY b) by lia. ring.
    - rewrite delta_neq by lia.
      rewrite (dot_ext n _ (fun t => Y t a) _ (fun t => (1 / s) * col t)).
      2: intros t _; apply gs_step_other; assumption.
      2: intros t _; rewrite gs_step_self; fold col; ring.
      rewrite dot_comm, dot_scale_l. unfold col.
      rewrite (gs_subtract_orthogonal n Y i i _ HY a) by lia. ring.
    - rewrite (dot_ext n _ (fun t => Y t a) _ (fun t => Y t b))
        by (intros t _; apply gs_step_other; assumption).
      apply HY; lia.
  Qed.

  (* THEOREM: the loop leaves orthonormal columns, whenever every norm oracle value is a
     non-zero square root of the squared norm it was asked for *)
  Theorem gram_schmidt_orthonormal n (Y : mat F) k (s : nat -> F) :
    (forall i, i < k ->
       s i <> 0 /\
       s i * s i = (let Yi := gram_schmidt n Y i s in
                    let col := gs_subtract n Yi i i (fun t => Yi t i) in dot n col col)) ->
    cols_orthonormal_upto n k (gram_schmidt n Y k s).
  Proof.
    induction k as [|k IH]; intros H; [intros a b Ha; lia|].
    cbn [gram_schmidt]. destruct (H k (Nat.lt_succ_diag_r k)) as [Hs Hsq].
    apply gs_step_orthonormal; try assumption.
    apply IH. intros i Hi. apply H. lia.
  Qed.

  Lemma cols_orthonormal_is_meq n k (Y : mat F) :
    cols_orthonormal_upto n k Y <-> orthonormal_cols n k Y.
  Proof.
    unfold cols_orthonormal_upto, orthonormal_cols, meq, mmul, mtrans, dot, mI. split; intros H a b Ha Hb;
      apply H; assumption.
  Qed.
  (* ---------------- the loop WITH its threshold branch, as written ---------------- *)
  (* ScalarType norm = Y.col(i).norm();
     if (norm < 1e-4) { for (int k = i; k < Y.cols(); k++) Y.col(k).setZero(); }
     Y.col(i) *= (1.f / norm);
     `below` is the oracle for the comparison  norm < 1e-4  (a double comparison).  In the field
     model 0 * (1/s) = 0; in binary64 a zero norm gives 0 * inf = NaN (known finding F36). *)
  Definition gs_step_thr (below : F -> bool) (n : nat) (Y : mat F) (i : nat) (s : F) : mat F :=
    let col := gs_subtract n Y i i (fun t => Y t i) in
    if below s then
      fun t c => if Nat.leb i c then (if Nat.eqb c i then 0 * (1 / s) else 0) else Y t c
    else
      fun t c => if Nat.eqb c i then col t * (1 / s) else Y t c.

  Fixpoint gram_schmidt_thr (below : F -> bool) (n : nat) (Y : mat F) (k : nat) (s : nat -> F) : mat F :=
    match k with
    | O => Y
    | S k' => gs_step_thr below n (gram_schmidt_thr below n Y k' s) k' (s k')
    end.

  (* as long as the branch is never taken the loop is the plain Gram-Schmidt above *)
  Theorem gram_schmidt_thr_no_branch below n (Y : mat F) k (s : nat -> F) :
    (forall i, i < k -> below (s i) = false) ->
    forall t c, gram_schmidt_thr below n Y k s t c = gram_schmidt n Y k s t c.
  Proof.
    induction k as [|k IH]; intros H t c; [reflexivity|].
    cbn [gram_schmidt_thr gram_schmidt]. unfold gs_step_thr, gs_step.
    rewrite (H k (Nat.lt_succ_diag_r k)).
    assert (E : forall t' c', gram_schmidt_thr below n Y k s t' c' = gram_schmidt n Y k s t' c')
      by (intros; apply IH; intros; apply H; lia).
    destruct (Nat.eqb c k); [|apply E].
    f_equal.
    (* gs_subtract depends on the matrix only through its entries *)
    assert (G : forall (A B : mat F) j col, (forall t' c', A t' c' = B t' c') ->
                forall u, gs_subtract n A k j col u = gs_subtract n B k j col u).
    { intros A B j. induction j as [|j IHj]; intros col HAB u; [reflexivity|].
      cbn [gs_subtract]. rewrite (IHj col HAB u). rewrite (HAB u j). f_equal. f_equal.
      unfold dot. apply sumn_ext. intros v _. rewrite (IHj col HAB v), (HAB v j). reflexivity. }
    rewrite (G _ _ k _ E t).
    (* the starting column *)
    assert (G2 : forall j (c1 c2 : vec F), (forall u, c1 u = c2 u) ->
                 forall u, gs_subtract n (gram_schmidt n Y k s) k j c1 u =
                           gs_subtract n (gram_schmidt n Y k s) k j c2 u).
    { intros j. induction j as [|j IHj]; intros c1 c2 Hc u; [apply Hc|].
      cbn [gs_subtract]. rewrite (IHj c1 c2 Hc u). f_equal. f_equal.
      unfold dot. apply sumn_ext. intros v _. rewrite (IHj c1 c2 Hc v). reflexivity. }
    apply G2. intros u. apply E.
  Qed.

  (* Y.householderQr().solve(B1): the least-squares solution, i.e. the normal equations
     Y^T Y B = Y^T B1; with orthonormal Y it is Y^T B1 *)
  Theorem ls_solution_orthonormal n k (Y B B1 : mat F) :
    orthonormal_cols n k Y ->
    meq k k (mmul k (mmul n (mtrans Y) Y) B) (mmul n (mtrans Y) B1) ->
    meq k k B (mmul n (mtrans Y) B1).
  Proof.
    intros HY H a b Ha Hb. rewrite <- (H a b Ha Hb).
    rewrite (mmul_meq k k k (mmul n (mtrans Y) Y) mI B B HY (meq_refl _ _ _) a b Ha Hb).
    symmetry. apply mmul_I_l. assumption.
  Qed.
End Randomized.
