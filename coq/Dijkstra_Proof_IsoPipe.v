(* Dijkstra_Proof_IsoPipe.v — proofs about Dijkstra_IsoPipe_Model.v (wave 4) *)
From Coq Require Import List ZArith Arith Qcanon Lia.
From TK Require Import Mat_Sums Mat_Core Mat_Qc Dijkstra_Model Dijkstra_Spec Dijkstra_IsoModel Dijkstra_IsoExec
     Dijkstra_FibC_Model Dijkstra_PQC_Model Dijkstra_Proof_FibC Dijkstra_Proof_PQC_Heap Dijkstra_Proof_IsoExec
     Dijkstra_IsoPipe_Model.
Import ListNotations.
Local Open Scope Z_scope.

(* embed(), geodesic routine included, hands the eigensolver classical MDS of the graph's shortest-path lengths:
   whatever the graph (complete or not), whatever the weights (no triangle inequality, no symmetry assumed) *)
Theorem embed_handed_is_mds_of_shortest_paths : forall nbrs w N K,
    wf_graph nbrs N K -> nonneg_w nbrs w -> (0 < N)%nat ->
    embed_handed_pqc nbrs w N = mds_of_shortest_paths nbrs w N /\
    embed_handed_fibc nbrs w N = mds_of_shortest_paths nbrs w N.
Proof.
  intros nbrs w N K Hwf Hnn HN.
  unfold embed_handed_pqc, embed_handed_fibc, mds_of_shortest_paths, embed_tail.
  rewrite (full_matrix_pqc_correct nbrs w N K Hwf Hnn HN).
  rewrite (full_matrix_fibc_correct nbrs w N K Hwf Hnn HN).
  destruct (finite_table (sp_matrix nbrs w N)) as [t|] eqn:Ht.
  - rewrite (iso_current_exec_is_mds N t) by lia. split; reflexivity.
  - split; reflexivity.
Qed.

(* the "complete graph => direct distances" fast path is refuted by a symmetric, zero-diagonal, positive table *)
Theorem embed_complete_graph_shortcut_refuted :
  exists nbrs t N,
    wf_graph nbrs N (N - 1) /\ nonneg_w nbrs (table_w t) /\
    (forall u v, (u < N)%nat -> (v < N)%nat -> table_w t u v = table_w t v u) /\
    (forall u, (u < N)%nat -> table_w t u u = 0) /\
    embed_handed_shortcut nbrs (table_w t) N <> mds_of_shortest_paths nbrs (table_w t) N /\
    embed_handed_pqc nbrs (table_w t) N = mds_of_shortest_paths nbrs (table_w t) N.
Proof.
  exists line3_nbrs, line3_sq, 3%nat.
  assert (Hwf : wf_graph line3_nbrs 3 (3 - 1)).
  { split; [reflexivity|]. repeat constructor. }
  assert (Hnn : nonneg_w line3_nbrs (table_w line3_sq)).
  { intros u v _. unfold table_w, line3_sq.
    destruct u as [|[|[|u]]]; destruct v as [|[|[|v]]]; cbn; try lia;
      try (destruct v; cbn; lia); try (destruct u; cbn; lia). }
  split; [exact Hwf|]. split; [exact Hnn|].
  split.
  { intros u v Hu Hv. destruct u as [|[|[|u]]]; destruct v as [|[|[|v]]]; try lia; reflexivity. }
  split.
  { intros u Hu. destruct u as [|[|[|u]]]; try lia; reflexivity. }
  split.
  - intros H.
    assert (H' : match embed_handed_shortcut line3_nbrs (table_w line3_sq) 3,
                       mds_of_shortest_paths line3_nbrs (table_w line3_sq) 3 with
                 | Handed a, Handed b => mlist_eqb a b = true
                 | _, _ => True
                 end).
    { rewrite H. destruct (mds_of_shortest_paths line3_nbrs (table_w line3_sq) 3); try exact I.
      apply mlist_eqb_ok. reflexivity. }
    vm_compute in H'. discriminate.
  - apply (embed_handed_is_mds_of_shortest_paths line3_nbrs (table_w line3_sq) 3 (3 - 1) Hwf Hnn). lia.
Qed.

(* non-vacuity of embed_handed_is_mds_of_shortest_paths: the witness above satisfies the hypotheses and the result is
   a matrix (the graph is connected), computed *)
Example pipeline_hypotheses_satisfiable :
  wf_graph line3_nbrs 3 2 /\ nonneg_w line3_nbrs (table_w line3_sq) /\ (0 < 3)%nat /\
  exists B, embed_handed_pqc line3_nbrs (table_w line3_sq) 3 = Handed B.
Proof.
  split; [split; [reflexivity | repeat constructor]|].
  split.
  { intros u v _. unfold table_w, line3_sq.
    destruct u as [|[|[|u]]]; destruct v as [|[|[|v]]]; cbn; try lia;
      try (destruct v; cbn; lia); try (destruct u; cbn; lia). }
  split; [lia|].
  eexists. vm_compute. reflexivity.
Qed.
