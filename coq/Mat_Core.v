(* ====================================================================== *)
(*  Mat_Core.v — matrices over an abstract field (shared library)          *)
(*                                                                         *)
(*  Start your file as described in Mat_Sums.v (Context + Add Field).      *)
(*                                                                         *)
(*  Representation.  vec := nat -> F, mat := nat -> nat -> F  (row, col).  *)
(*  Functions are TOTAL; dimensions appear explicitly in the operations    *)
(*  that sum (`mmul k`, `mv k`, `dot k`) and in the statements (`meq n m`, *)
(*  `veq n`, hypotheses `i < n`).  Nothing is ever claimed about entries   *)
(*  outside the stated dimensions.                                         *)
(*                                                                         *)
(*  Equality       veq n x y, meq n m A B (pointwise inside the box),      *)
(*                 msym n A (A i j = A j i inside the box)                 *)
(*  Algebra        mmul k A B (inner dimension k), mtrans, madd, msub,     *)
(*                 mopp, mscale c A, mI, mdiag v, mconst c, outer u v,     *)
(*                 mv k A x, vadd, vsub, vscale, mrow, mcol                *)
(*    lemmas       mmul_assoc mmul_I_l mmul_I_r mtrans_mmul mmul_meq       *)
(*                 mmul_madd_l/r mmul_msub_l/r mmul_mscale_l/r             *)
(*                 mmul_diag_l mmul_diag_r mmul_mv mv_meq  meq_refl/sym/   *)
(*                 trans  msym_mtrans ...                                  *)
(*  Centring       Jn n = I - 1/n 11^T ; colsum rowsum colmean rowmean     *)
(*                 totsum grandmean ; double_center n M = J (M J) ;        *)
(*                 center_matrix n M  = what tapkee's centerMatrix         *)
(*                 literally computes (COLUMN means along both axes).      *)
(*    lemmas       Jn_sym Jn_idem Jn_row_sum Jn_col_sum                    *)
(*                 double_center_entry : = M_ij - r_i - c_j + g            *)
(*                 center_matrix_entry : = M_ij + g - c_j - c_i            *)
(*                 center_matrix_gap   : center = J M J + (r_i - c_i)      *)
(*                 center_matrix_sym   : msym M -> center = J M J          *)
(*                 (all need `of_nat n <> 0`)                              *)
(*  Triangles (DESIGN 1.4: model matrices are FULL tables; each operation  *)
(*  says which entries it writes / reads)                                  *)
(*    rank_update_upper a u M     selfadjointView<Upper>().rankUpdate(u,a) *)
(*    rank_update2_upper a u v M  ...rankUpdate(u,v,a)                     *)
(*    read_upper M, read_lower M  the symmetric matrix a consumer of that  *)
(*                                triangle sees                            *)
(*    sym_avg M = (M + M^T)/2     eigendecomposition_impl_dense            *)
(*    sym_from_upper M            repair: materialise both triangles       *)
(*    upper_only n M              strictly-lower part is zero              *)
(*    lemmas  read_upper_sym read_lower_sym read_upper_of_sym sym_avg_sym  *)
(*            sym_avg_of_sym sym_avg_upper_only (off-diagonals HALVED)     *)
(*            read_upper_rank_update_upper ...                             *)
(*  Lists (execution / extraction)                                         *)
(*    tab n f, vtab n x, mtab n m A ; vof l, mof L ; wf_vec, wf_mat,       *)
(*    wf_matb ; nth_tab vof_vtab mof_mtab mtab_ext mtab_inj mtab_mof       *)
(*    Use  `let L := mtab n m A in ... mof L ...`  in a model to memoise   *)
(*    a stage (functions recompute on every call); `mof_mtab` removes it   *)
(*    in proofs.                                                           *)
(* ====================================================================== *)

Require Import Field Ring Arith Lia List Bool.
From TK Require Import Mat_Sums.
Import ListNotations.

Section Core.
  Context {F : Type} {Fo : FieldOps F} {Ff : IsField F}.
  Add Field MatCoreField : (@Fth F Fo Ff).
  Local Open Scope F_scope.

  Definition vec := nat -> F.
  Definition mat := nat -> nat -> F.

  Definition veq (n : nat) (x y : vec) : Prop := forall i, i < n -> x i = y i.
  Definition meq (n m : nat) (A B : mat) : Prop :=
    forall i j, i < n -> j < m -> A i j = B i j.
  Definition msym (n : nat) (A : mat) : Prop :=
    forall i j, i < n -> j < n -> A i j = A j i.

  Definition mmul (k : nat) (A B : mat) : mat :=
    fun i j => sumn k (fun t => A i t * B t j).
  Definition mtrans (A : mat) : mat := fun i j => A j i.
  Definition madd (A B : mat) : mat := fun i j => A i j + B i j.
  Definition msub (A B : mat) : mat := fun i j => A i j - B i j.
  Definition mopp (A : mat) : mat := fun i j => - A i j.
  Definition mscale (c : F) (A : mat) : mat := fun i j => c * A i j.
  Definition mI : mat := fun i j => delta i j.
  Definition mdiag (v : vec) : mat := fun i j => if Nat.eqb i j then v i else 0.
  Definition mconst (c : F) : mat := fun _ _ => c.
  Definition outer (u v : vec) : mat := fun i j => u i * v j.
  Definition mv (k : nat) (A : mat) (x : vec) : vec :=
    fun i => sumn k (fun t => A i t * x t).
  Definition vadd (x y : vec) : vec := fun i => x i + y i.
  Definition vsub (x y : vec) : vec := fun i => x i - y i.
  Definition vscale (c : F) (x : vec) : vec := fun i => c * x i.
  Definition mrow (A : mat) (i : nat) : vec := fun j => A i j.
  Definition mcol (A : mat) (j : nat) : vec := fun i => A i j.

  (* ---------------- meq / veq ---------------- *)
  Lemma meq_refl n m A : meq n m A A.
  Proof. intros i j _ _. reflexivity. Qed.
  Lemma meq_sym n m A B : meq n m A B -> meq n m B A.
  Proof. intros H i j Hi Hj. symmetry. apply H; assumption. Qed.
  Lemma meq_trans n m A B C : meq n m A B -> meq n m B C -> meq n m A C.
  Proof. intros H1 H2 i j Hi Hj. rewrite H1, H2 by assumption. reflexivity. Qed.
  Lemma veq_refl n x : veq n x x.
  Proof. intros i _. reflexivity. Qed.
  Lemma veq_sym n x y : veq n x y -> veq n y x.
  Proof. intros H i Hi. symmetry. apply H; assumption. Qed.
  Lemma veq_trans n x y z : veq n x y -> veq n y z -> veq n x z.
  Proof. intros H1 H2 i Hi. rewrite H1, H2 by assumption. reflexivity. Qed.

  (* ---------------- products ---------------- *)
  Lemma mmul_meq n k m A A' B B' :
    meq n k A A' -> meq k m B B' -> meq n m (mmul k A B) (mmul k A' B').
  Proof.
    intros HA HB i j Hi Hj. unfold mmul. apply sumn_ext. intros t Ht.
    rewrite HA, HB by assumption. reflexivity.
  Qed.

  Lemma mmul_ext_l k A A' B i j :
    (forall t, t < k -> A i t = A' i t) -> mmul k A B i j = mmul k A' B i j.
  Proof. intros H. unfold mmul. apply sumn_ext. intros t Ht. rewrite H by assumption. reflexivity. Qed.

  Lemma mmul_ext_r k A B B' i j :
    (forall t, t < k -> B t j = B' t j) -> mmul k A B i j = mmul k A B' i j.
  Proof. intros H. unfold mmul. apply sumn_ext. intros t Ht. rewrite H by assumption. reflexivity. Qed.

  Lemma mmul_assoc k l A B C i j :
    mmul k (mmul l A B) C i j = mmul l A (mmul k B C) i j.
  Proof.
    unfold mmul.
    rewrite (sumn_ext k _ (fun t => sumn l (fun s => A i s * B s t * C t j))).
    2:{ intros t _. rewrite <- sumn_mul_r. reflexivity. }
    rewrite sumn_swap. apply sumn_ext. intros s _.
    rewrite <- sumn_mul_l. apply sumn_ext. intros t _. ring.
  Qed.

  Lemma mmul_I_l k A i j : i < k -> mmul k mI A i j = A i j.
  Proof. intros Hi. unfold mmul, mI. exact (sumn_delta_l k i (fun t => A t j) Hi). Qed.

  Lemma mmul_I_r k A i j : j < k -> mmul k A mI i j = A i j.
  Proof. intros Hj. unfold mmul, mI. exact (sumn_delta_r k j (fun t => A i t) Hj). Qed.

  Lemma mtrans_mmul k A B i j :
    mtrans (mmul k A B) i j = mmul k (mtrans B) (mtrans A) i j.
  Proof. unfold mtrans, mmul. apply sumn_ext. intros; ring. Qed.

  Lemma mtrans_mtrans A : mtrans (mtrans A) = A.
  Proof. reflexivity. Qed.

  Lemma mmul_madd_l k A A' B i j :
    mmul k (madd A A') B i j = mmul k A B i j + mmul k A' B i j.
  Proof. unfold mmul, madd. rewrite <- sumn_add. apply sumn_ext. intros; ring. Qed.

  Lemma mmul_madd_r k A B B' i j :
    mmul k A (madd B B') i j = mmul k A B i j + mmul k A B' i j.
  Proof. unfold mmul, madd. rewrite <- sumn_add. apply sumn_ext. intros; ring. Qed.

  Lemma mmul_msub_l k A A' B i j :
    mmul k (msub A A') B i j = mmul k A B i j - mmul k A' B i j.
  Proof. unfold mmul, msub. rewrite <- sumn_sub. apply sumn_ext. intros; ring. Qed.

  Lemma mmul_msub_r k A B B' i j :
    mmul k A (msub B B') i j = mmul k A B i j - mmul k A B' i j.
  Proof. unfold mmul, msub. rewrite <- sumn_sub. apply sumn_ext. intros; ring. Qed.

  Lemma mmul_mscale_l k c A B i j :
    mmul k (mscale c A) B i j = c * mmul k A B i j.
  Proof. unfold mmul, mscale. rewrite <- sumn_mul_l. apply sumn_ext. intros; ring. Qed.

  Lemma mmul_mscale_r k c A B i j :
    mmul k A (mscale c B) i j = c * mmul k A B i j.
  Proof. unfold mmul, mscale. rewrite <- sumn_mul_l. apply sumn_ext. intros; ring. Qed.

  Lemma mmul_diag_r k A v i j : j < k -> mmul k A (mdiag v) i j = A i j * v j.
  Proof.
    intros Hj. unfold mmul, mdiag. rewrite (sumn_single k j).
    - rewrite Nat.eqb_refl. reflexivity.
    - assumption.
    - intros t _ Ht. apply Nat.eqb_neq in Ht. rewrite Ht. ring.
  Qed.

  Lemma mmul_diag_l k A v i j : i < k -> mmul k (mdiag v) A i j = v i * A i j.
  Proof.
    intros Hi. unfold mmul, mdiag. rewrite (sumn_single k i).
    - rewrite Nat.eqb_refl. reflexivity.
    - assumption.
    - intros t _ Ht. assert (H : Nat.eqb i t = false) by (apply Nat.eqb_neq; congruence).
      rewrite H. ring.
  Qed.

  Lemma mdiag_sym n v : msym n (mdiag v).
  Proof.
    intros i j _ _. unfold mdiag. rewrite (Nat.eqb_sym j i).
    destruct (Nat.eqb i j) eqn:E; [|reflexivity].
    apply Nat.eqb_eq in E. subst. reflexivity.
  Qed.

  Lemma mI_sym n : msym n mI.
  Proof. intros i j _ _. unfold mI. apply delta_sym. Qed.

  Lemma mmul_mv k l A B x i :
    mv k (mmul l A B) x i = mv l A (mv k B x) i.
  Proof.
    unfold mv, mmul.
    rewrite (sumn_ext k _ (fun t => sumn l (fun s => A i s * B s t * x t))).
    2:{ intros t _. rewrite <- sumn_mul_r. reflexivity. }
    rewrite sumn_swap. apply sumn_ext. intros s _.
    rewrite <- sumn_mul_l. apply sumn_ext. intros t _. ring.
  Qed.

  Lemma mv_meq n k A A' x x' :
    meq n k A A' -> veq k x x' -> veq n (mv k A x) (mv k A' x').
  Proof.
    intros HA Hx i Hi. unfold mv. apply sumn_ext. intros t Ht.
    rewrite HA, Hx by assumption. reflexivity.
  Qed.

  Lemma mv_vsub k A x y i : mv k A (vsub x y) i = mv k A x i - mv k A y i.
  Proof. unfold mv, vsub. rewrite <- sumn_sub. apply sumn_ext. intros; ring. Qed.

  Lemma mv_vadd k A x y i : mv k A (vadd x y) i = mv k A x i + mv k A y i.
  Proof. unfold mv, vadd. rewrite <- sumn_add. apply sumn_ext. intros; ring. Qed.

  Lemma mv_vscale k A c x i : mv k A (vscale c x) i = c * mv k A x i.
  Proof. unfold mv, vscale. rewrite <- sumn_mul_l. apply sumn_ext. intros; ring. Qed.

  Lemma msym_mtrans n A : msym n A -> meq n n (mtrans A) A.
  Proof. intros H i j Hi Hj. unfold mtrans. apply H; assumption. Qed.

  (* A^T A style products are symmetric (no dimension side condition) *)
  Lemma gram_sym k A n : msym n (mmul k (mtrans A) A).
  Proof. intros i j _ _. unfold mmul, mtrans. apply sumn_ext. intros; ring. Qed.

  (* ====================== centring ====================== *)
  Definition Jn (n : nat) : mat := fun i j => delta i j - / of_nat n.
  Definition colsum (n : nat) (M : mat) (j : nat) : F := sumn n (fun i => M i j).
  Definition rowsum (m : nat) (M : mat) (i : nat) : F := sumn m (fun j => M i j).
  Definition totsum (n m : nat) (M : mat) : F :=
    sumn n (fun i => sumn m (fun j => M i j)).
  Definition colmean (n : nat) (M : mat) (j : nat) : F := colsum n M j / of_nat n.
  Definition rowmean (m : nat) (M : mat) (i : nat) : F := rowsum m M i / of_nat m.
  Definition grandmean (n m : nat) (M : mat) : F := totsum n m M / of_nat (n * m).

  Definition double_center (n : nat) (M : mat) : mat :=
    mmul n (Jn n) (mmul n M (Jn n)).

  (* tapkee utils/matrix.hpp centerMatrix, literally:
       col_means = matrix.colwise().mean(); grand_mean = matrix.mean();
       matrix.array() += grand_mean;
       matrix.rowwise() -= col_means^T;   (entry (i,j) loses col_means(j))
       matrix.colwise() -= col_means;     (entry (i,j) loses col_means(i))   *)
  Definition center_matrix (n : nat) (M : mat) : mat :=
    fun i j => M i j + grandmean n n M - colmean n M j - colmean n M i.

  Lemma Jn_sym n : msym n (Jn n).
  Proof. intros i j _ _. unfold Jn. rewrite delta_sym. reflexivity. Qed.

  Lemma Jn_row_sum n i : of_nat n <> 0 -> i < n -> sumn n (fun t => Jn n i t) = 0.
  Proof.
    intros Hn Hi. unfold Jn.
    rewrite (sumn_ext n _ (fun t => (delta i t - / of_nat n) * 1)) by (intros; ring).
    rewrite sumn_delta_sub_l by assumption. rewrite sumn_const. field. assumption.
  Qed.

  Lemma Jn_col_sum n j : of_nat n <> 0 -> j < n -> sumn n (fun t => Jn n t j) = 0.
  Proof.
    intros Hn Hj. rewrite (sumn_ext n _ (fun t => Jn n j t)).
    - apply Jn_row_sum; assumption.
    - intros t Ht. apply Jn_sym; assumption.
  Qed.

  Lemma mmul_Jn_r n M i j :
    j < n -> mmul n M (Jn n) i j = M i j - / of_nat n * rowsum n M i.
  Proof.
    intros Hj. unfold mmul, Jn, rowsum.
    exact (sumn_delta_sub_r n j (/ of_nat n) (fun t => M i t) Hj).
  Qed.

  Lemma mmul_Jn_l n M i j :
    i < n -> mmul n (Jn n) M i j = M i j - / of_nat n * colsum n M j.
  Proof.
    intros Hi. unfold mmul, Jn, colsum.
    exact (sumn_delta_sub_l n i (/ of_nat n) (fun s => M s j) Hi).
  Qed.

  Lemma Jn_idem n : of_nat n <> 0 -> meq n n (mmul n (Jn n) (Jn n)) (Jn n).
  Proof.
    intros Hn i j Hi Hj. rewrite mmul_Jn_l by assumption.
    unfold colsum. rewrite Jn_col_sum by assumption. ring.
  Qed.

  Lemma totsum_swap n m M : totsum n m M = sumn m (fun j => colsum n M j).
  Proof. unfold totsum, colsum. apply sumn_swap. Qed.

  Lemma double_center_entry n M i j :
    of_nat n <> 0 -> i < n -> j < n ->
    double_center n M i j =
      M i j - rowmean n M i - colmean n M j + grandmean n n M.
  Proof.
    intros Hn Hi Hj. unfold double_center.
    rewrite mmul_Jn_l by assumption. unfold colsum.
    rewrite (sumn_ext n _ (fun s => M s j - / of_nat n * rowsum n M s))
      by (intros s _; apply mmul_Jn_r; assumption).
    rewrite mmul_Jn_r by assumption.
    rewrite sumn_sub, sumn_mul_l.
    unfold rowmean, colmean, grandmean, colsum, totsum, rowsum.
    rewrite of_nat_mul. field. assumption.
  Qed.

  Lemma center_matrix_entry n M i j :
    center_matrix n M i j =
      M i j + grandmean n n M - colmean n M j - colmean n M i.
  Proof. reflexivity. Qed.

  (* what centerMatrix computes differs from J M J by (row mean - col mean) of
     row/column i: zero iff those agree, e.g. for symmetric M (defect F23 when not) *)
  Lemma center_matrix_gap n M i j :
    of_nat n <> 0 -> i < n -> j < n ->
    center_matrix n M i j =
      double_center n M i j + (rowmean n M i - colmean n M i).
  Proof.
    intros Hn Hi Hj. rewrite double_center_entry by assumption.
    unfold center_matrix. ring.
  Qed.

  Lemma msym_rowsum_colsum n M i : msym n M -> i < n -> rowsum n M i = colsum n M i.
  Proof.
    intros HM Hi. unfold rowsum, colsum. apply sumn_ext. intros t Ht.
    apply HM; assumption.
  Qed.

  Lemma center_matrix_sym n M :
    of_nat n <> 0 -> msym n M -> meq n n (center_matrix n M) (double_center n M).
  Proof.
    intros Hn HM i j Hi Hj. rewrite center_matrix_gap by assumption.
    unfold rowmean, colmean. rewrite (msym_rowsum_colsum n M i HM Hi). ring.
  Qed.

  Lemma center_matrix_msym n M : msym n M -> msym n (center_matrix n M).
  Proof.
    intros HM i j Hi Hj. unfold center_matrix. rewrite (HM i j) by assumption. ring.
  Qed.

  (* rows and columns of a doubly centred matrix sum to zero *)
  Lemma double_center_col_sum n M j :
    of_nat n <> 0 -> j < n -> sumn n (fun i => double_center n M i j) = 0.
  Proof.
    intros Hn Hj. unfold double_center.
    set (B := mmul n M (Jn n)).
    unfold mmul.
    rewrite sumn_swap.
    rewrite sumn_zero'; [reflexivity|].
    intros t Ht. rewrite sumn_mul_r. rewrite Jn_col_sum by assumption. ring.
  Qed.

  (* ====================== triangles (DESIGN 1.4) ====================== *)
  (* Eigen: M.selfadjointView<Upper>().rankUpdate(u, a): only entries i <= j change *)
  Definition rank_update_upper (a : F) (u : vec) (M : mat) : mat :=
    fun i j => if Nat.leb i j then M i j + a * (u i * u j) else M i j.
  (* Eigen: M.selfadjointView<Upper>().rankUpdate(u, v, a): += a (u v^T + v u^T) *)
  Definition rank_update2_upper (a : F) (u v : vec) (M : mat) : mat :=
    fun i j => if Nat.leb i j then M i j + a * (u i * v j + v i * u j) else M i j.
  (* the symmetric matrix somebody reading only that triangle sees *)
  Definition read_upper (M : mat) : mat :=
    fun i j => if Nat.leb i j then M i j else M j i.
  Definition read_lower (M : mat) : mat :=
    fun i j => if Nat.leb j i then M i j else M j i.
  (* eigendecomposition_impl_dense: dense_wm += dense_wm.transpose().eval(); dense_wm /= 2.0 *)
  Definition sym_avg (M : mat) : mat := fun i j => (M i j + M j i) / two.
  (* repair primitive: copy the upper triangle into the lower one *)
  Definition sym_from_upper (M : mat) : mat := read_upper M.
  Definition upper_only (n : nat) (M : mat) : Prop :=
    forall i j, i < n -> j < n -> j < i -> M i j = 0.

  Lemma read_upper_sym n M : msym n (read_upper M).
  Proof.
    intros i j _ _. unfold read_upper.
    destruct (Nat.leb i j) eqn:E1; destruct (Nat.leb j i) eqn:E2; try reflexivity.
    - apply Nat.leb_le in E1. apply Nat.leb_le in E2.
      assert (i = j) by lia. subst. reflexivity.
    - apply Nat.leb_gt in E1. apply Nat.leb_gt in E2. lia.
  Qed.

  Lemma read_lower_sym n M : msym n (read_lower M).
  Proof.
    intros i j _ _. unfold read_lower.
    destruct (Nat.leb j i) eqn:E1; destruct (Nat.leb i j) eqn:E2; try reflexivity.
    - apply Nat.leb_le in E1. apply Nat.leb_le in E2.
      assert (i = j) by lia. subst. reflexivity.
    - apply Nat.leb_gt in E1. apply Nat.leb_gt in E2. lia.
  Qed.

  Lemma read_lower_mtrans M i j : read_lower (mtrans M) i j = read_upper M i j.
  Proof.
    unfold read_lower, read_upper, mtrans.
    destruct (Nat.leb j i) eqn:E1; destruct (Nat.leb i j) eqn:E2; try reflexivity.
    - apply Nat.leb_le in E1. apply Nat.leb_le in E2.
      assert (i = j) by lia. subst. reflexivity.
    - apply Nat.leb_gt in E1. apply Nat.leb_gt in E2. lia.
  Qed.

  Lemma read_upper_of_sym n M : msym n M -> meq n n (read_upper M) M.
  Proof.
    intros HM i j Hi Hj. unfold read_upper.
    destruct (Nat.leb i j); [reflexivity|]. apply HM; assumption.
  Qed.

  Lemma read_lower_of_sym n M : msym n M -> meq n n (read_lower M) M.
  Proof.
    intros HM i j Hi Hj. unfold read_lower.
    destruct (Nat.leb j i); [reflexivity|]. apply HM; assumption.
  Qed.

  Lemma read_upper_diag M i : read_upper M i i = M i i.
  Proof. unfold read_upper. destruct (Nat.leb i i); reflexivity. Qed.

  Lemma read_upper_le M i j : i <= j -> read_upper M i j = M i j.
  Proof. intros H. unfold read_upper. apply Nat.leb_le in H. rewrite H. reflexivity. Qed.

  Lemma read_upper_gt M i j : j < i -> read_upper M i j = M j i.
  Proof. intros H. unfold read_upper. apply Nat.leb_gt in H. rewrite H. reflexivity. Qed.

  Lemma read_lower_ge M i j : j <= i -> read_lower M i j = M i j.
  Proof. intros H. unfold read_lower. apply Nat.leb_le in H. rewrite H. reflexivity. Qed.

  Lemma read_lower_lt M i j : i < j -> read_lower M i j = M j i.
  Proof. intros H. unfold read_lower. apply Nat.leb_gt in H. rewrite H. reflexivity. Qed.

  (* a rank update of the upper view IS a rank update of the matrix it denotes *)
  Lemma read_upper_rank_update_upper a u M i j :
    read_upper (rank_update_upper a u M) i j = read_upper M i j + a * (u i * u j).
  Proof.
    unfold read_upper, rank_update_upper.
    destruct (Nat.leb i j) eqn:E1; [reflexivity|].
    apply Nat.leb_gt in E1. assert (E2 : Nat.leb j i = true) by (apply Nat.leb_le; lia).
    rewrite E2. ring.
  Qed.

  Lemma read_upper_rank_update2_upper a u v M i j :
    read_upper (rank_update2_upper a u v M) i j =
    read_upper M i j + a * (u i * v j + v i * u j).
  Proof.
    unfold read_upper, rank_update2_upper.
    destruct (Nat.leb i j) eqn:E1; [reflexivity|].
    apply Nat.leb_gt in E1. assert (E2 : Nat.leb j i = true) by (apply Nat.leb_le; lia).
    rewrite E2. ring.
  Qed.

  Lemma read_upper_mscale c M i j :
    read_upper (mscale c M) i j = c * read_upper M i j.
  Proof. unfold read_upper, mscale. destruct (Nat.leb i j); reflexivity. Qed.

  Lemma rank_update_upper_keeps_lower a u M i j :
    j < i -> rank_update_upper a u M i j = M i j.
  Proof. intros H. unfold rank_update_upper. apply Nat.leb_gt in H. rewrite H. reflexivity. Qed.

  Lemma rank_update_upper_upper_only n a u M :
    upper_only n M -> upper_only n (rank_update_upper a u M).
  Proof.
    intros HM i j Hi Hj Hlt. rewrite rank_update_upper_keeps_lower by assumption.
    apply HM; assumption.
  Qed.

  Lemma sym_avg_sym n M : msym n (sym_avg M).
  Proof. intros i j _ _. unfold sym_avg. f_equal. ring. Qed.

  Lemma sym_avg_of_sym n M :
    two <> 0 -> msym n M -> meq n n (sym_avg M) M.
  Proof.
    intros H2 HM i j Hi Hj. unfold sym_avg. rewrite <- (HM i j) by assumption.
    unfold two in *. field. assumption.
  Qed.

  (* what the dense solver sees of a matrix that lives in the upper triangle only:
     diagonal kept, off-diagonals HALVED  (defects F8, F9) *)
  Lemma sym_avg_upper_only n M i j :
    two <> 0 -> upper_only n M -> i < n -> j < n ->
    sym_avg M i j = if Nat.eqb i j then M i i else read_upper M i j / two.
  Proof.
    intros H2 HU Hi Hj. unfold sym_avg, read_upper.
    destruct (Nat.eqb i j) eqn:E.
    - apply Nat.eqb_eq in E. subst j. unfold two in *. field. assumption.
    - apply Nat.eqb_neq in E. destruct (Nat.leb i j) eqn:E1.
      + apply Nat.leb_le in E1. rewrite (HU j i) by (try assumption; lia).
        unfold two in *. field. assumption.
      + apply Nat.leb_gt in E1. rewrite (HU i j) by (try assumption; lia).
        unfold two in *. field. assumption.
  Qed.

  Lemma sym_avg_sym_from_upper n M :
    two <> 0 -> meq n n (sym_avg (sym_from_upper M)) (read_upper M).
  Proof.
    intros H2. apply sym_avg_of_sym; [assumption|]. apply read_upper_sym.
  Qed.

  (* ====================== lists (execution) ====================== *)
  Definition tab {A : Type} (n : nat) (f : nat -> A) : list A := map f (seq 0 n).
  Definition vtab (n : nat) (x : vec) : list F := tab n x.
  Definition mtab (n m : nat) (A : mat) : list (list F) :=
    tab n (fun i => tab m (fun j => A i j)).
  Definition vof (l : list F) : vec := fun i => nth i l 0.
  Definition mof (L : list (list F)) : mat := fun i j => nth j (nth i L nil) 0.

  Definition wf_vec (n : nat) (l : list F) : Prop := length l = n.
  Definition wf_mat (n m : nat) (L : list (list F)) : Prop :=
    length L = n /\ Forall (fun r => length r = m) L.
  Definition wf_matb (n m : nat) (L : list (list F)) : bool :=
    Nat.eqb (length L) n && forallb (fun r => Nat.eqb (length r) m) L.

  Lemma tab_length {A} n (f : nat -> A) : length (tab n f) = n.
  Proof. unfold tab. rewrite map_length, seq_length. reflexivity. Qed.

  Lemma nth_tab {A} n (f : nat -> A) i d : i < n -> nth i (tab n f) d = f i.
  Proof.
    intros Hi. unfold tab.
    rewrite (nth_indep _ d (f 0%nat)) by (rewrite map_length, seq_length; assumption).
    rewrite map_nth. rewrite seq_nth by assumption. reflexivity.
  Qed.

  Lemma tab_ext {A} n (f g : nat -> A) :
    (forall i, i < n -> f i = g i) -> tab n f = tab n g.
  Proof.
    intros H. unfold tab. apply map_ext_in. intros i Hi.
    apply in_seq in Hi. apply H. lia.
  Qed.

  Lemma tab_inj {A} n (f g : nat -> A) :
    tab n f = tab n g -> forall i, i < n -> f i = g i.
  Proof.
    intros H i Hi. rewrite <- (nth_tab n f i (f i)) by assumption.
    rewrite H. apply nth_tab. assumption.
  Qed.

  Lemma tab_S {A} n (f : nat -> A) : tab (S n) f = tab n f ++ [f n].
  Proof. unfold tab. rewrite seq_S, map_app. reflexivity. Qed.

  Lemma vof_vtab n x i : i < n -> vof (vtab n x) i = x i.
  Proof. intros Hi. unfold vof, vtab. apply nth_tab. assumption. Qed.

  Lemma mof_mtab n m A i j : i < n -> j < m -> mof (mtab n m A) i j = A i j.
  Proof.
    intros Hi Hj. unfold mof, mtab. rewrite nth_tab by assumption.
    apply nth_tab. assumption.
  Qed.

  Lemma mof_mtab_meq n m A : meq n m (mof (mtab n m A)) A.
  Proof. intros i j Hi Hj. apply mof_mtab; assumption. Qed.

  Lemma vtab_ext n x y : veq n x y -> vtab n x = vtab n y.
  Proof. intros H. apply tab_ext. exact H. Qed.

  Lemma mtab_ext n m A B : meq n m A B -> mtab n m A = mtab n m B.
  Proof.
    intros H. unfold mtab. apply tab_ext. intros i Hi. apply tab_ext. intros j Hj.
    apply H; assumption.
  Qed.

  Lemma mtab_inj n m A B : mtab n m A = mtab n m B -> meq n m A B.
  Proof.
    intros H i j Hi Hj. unfold mtab in H.
    pose proof (tab_inj _ _ _ H i Hi) as Hr. cbv beta in Hr.
    exact (tab_inj _ _ _ Hr j Hj).
  Qed.

  Lemma mtab_wf n m A : wf_mat n m (mtab n m A).
  Proof.
    split.
    - apply tab_length.
    - unfold mtab, tab. apply Forall_forall. intros r Hr.
      apply in_map_iff in Hr. destruct Hr as [i [<- _]]. apply tab_length.
  Qed.

  Lemma tab_nth_id {A} (l : list A) d : tab (length l) (fun i => nth i l d) = l.
  Proof.
    induction l as [|a l IH] using rev_ind; [reflexivity|].
    rewrite app_length. cbn [length]. rewrite Nat.add_1_r, tab_S.
    rewrite app_nth2 by lia. rewrite Nat.sub_diag. cbn [nth].
    f_equal. rewrite <- IH at 2. apply tab_ext. intros i Hi.
    apply app_nth1. assumption.
  Qed.

  Lemma vtab_vof n l : wf_vec n l -> vtab n (vof l) = l.
  Proof. intros <-. apply tab_nth_id. Qed.

  Lemma mtab_mof n m L : wf_mat n m L -> mtab n m (mof L) = L.
  Proof.
    intros [Hn Hm]. subst n. unfold mtab, mof.
    rewrite <- (tab_nth_id L nil) at 2. apply tab_ext. intros i Hi.
    assert (Hl : length (nth i L nil) = m).
    { rewrite Forall_forall in Hm. apply Hm. apply nth_In. assumption. }
    rewrite <- Hl. apply tab_nth_id.
  Qed.

  Lemma wf_matb_ok n m L : wf_matb n m L = true <-> wf_mat n m L.
  Proof.
    unfold wf_matb, wf_mat. rewrite andb_true_iff, Nat.eqb_eq, forallb_forall, Forall_forall.
    split; intros [H1 H2]; split; try assumption; intros r Hr.
    - apply Nat.eqb_eq. apply H2. assumption.
    - apply Nat.eqb_eq. apply H2. assumption.
  Qed.

End Core.

Arguments vec F : clear implicits.
Arguments mat F : clear implicits.
