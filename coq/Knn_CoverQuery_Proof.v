(* Knn_CoverQuery_Proof.v — from the completeness of the cover-tree batch query (CoverTree_Proof.v) to
   the property: a candidate list that contains every sample `needed` by the query (fewer than k+1
   samples strictly closer) satisfies the contract cand_complete of the selection stage, hence the
   repaired wrapper returns exactly k nearest other samples (ct_select_exact). *)
From Coq Require Import List ZArith Bool Lia Permutation Sorted.
From TK Require Import Knn_Spec Knn_CoverSel_Model Knn_CoverSel_Proof CoverTree_Model CoverTree_Proof.
Import ListNotations.
Local Open Scope Z_scope.

Lemma perm_filter_length : forall {A} (f : A -> bool) (l l' : list A),
  Permutation l l' -> length (filter f l) = length (filter f l').
Proof.
  intros A f l l' H. induction H as [|x l l' H IH|x y l|l l' l'' H1 IH1 H2 IH2]; cbn [filter].
  - reflexivity.
  - destruct (f x); cbn [length]; lia.
  - destruct (f x); destruct (f y); cbn [length]; lia.
  - lia.
Qed.

Lemma filter_length_all : forall {A} (f : A -> bool) (l : list A), (length (filter f l) <= length l)%nat.
Proof.
  intros A f l. induction l as [|a r IH]; cbn [filter length]; [lia|]. destruct (f a); cbn [length]; lia.
Qed.

Lemma filter_length_lt : forall {A} (f : A -> bool) (l : list A) x,
  In x l -> f x = false -> (length (filter f l) < length l)%nat.
Proof.
  intros A f l x. induction l as [|a r IH]; intros Hin Hf; [destruct Hin|]. cbn [filter length].
  pose proof (filter_length_all f r) as Hr.
  destruct Hin as [->|Hin].
  - rewrite Hf. lia.
  - specialize (IH Hin Hf). destruct (f a); cbn [length]; lia.
Qed.

Lemma filter_none : forall {A} (f : A -> bool) (l : list A),
  (forall x, In x l -> f x = false) -> filter f l = [].
Proof.
  intros A f l. induction l as [|a r IH]; intros H; [reflexivity|]. cbn [filter].
  rewrite (H a (or_introl eq_refl)). apply IH. intros x Hx. apply H. now right.
Qed.

Lemma dd_neq : forall d a b, a <> b -> dd d a b = d a b.
Proof. intros d a b H. unfold dd. destruct (Z.eqb_spec a b); [contradiction | reflexivity]. Qed.

Lemma needed_cand_complete : forall d N q k pts cands,
  Permutation pts (samples N) -> in_range N q -> (k < N)%nat ->
  NoDup cands -> (forall j, In j cands -> in_range N j) ->
  (forall x, In x pts ->
     (length (filter (fun y => (dd d q y <? dd d q x)%Z) pts) < S k)%nat -> In x cands) ->
  cand_complete d N q k cands.
Proof.
  intros d N q k pts cands Hperm Hq Hk Hnd Hrng Hneed.
  split; [assumption|]. split; [exact Hrng|]. intros j Hjr Hjq Hjn.
  set (L := isort_by (dd d q) pts).
  assert (HpL : Permutation pts L) by apply isort_by_perm.
  assert (HsL : StronglySorted (key_le (dd d q)) L) by apply isort_by_sorted.
  assert (Hndp : NoDup pts) by (apply (Permutation_NoDup (Permutation_sym Hperm)), samples_NoDup).
  assert (HndL : NoDup L) by (apply (Permutation_NoDup HpL Hndp)).
  assert (HlenL : length L = N).
  { rewrite <- (Permutation_length HpL), (Permutation_length Hperm). unfold samples. apply zseq_length. }
  set (T := firstn (S k) L).
  assert (HlenT : length T = S k) by (unfold T; rewrite firstn_length; lia).
  assert (HTL : forall x, In x T -> In x L).
  { intros x Hx. unfold T in Hx. rewrite <- (firstn_skipn (S k) L). apply in_or_app. now left. }
  (* every member of T is needed *)
  assert (HT : forall x, In x T -> In x cands).
  { intros x Hx. apply Hneed; [apply (Permutation_in _ (Permutation_sym HpL)); now apply HTL|].
    rewrite (perm_filter_length _ pts L HpL). rewrite <- (firstn_skipn (S k) L). fold T.
    rewrite filter_app, app_length.
    rewrite (filter_none _ (skipn (S k) L)).
    - cbn [length]. pose proof (filter_length_lt (fun y => (dd d q y <? dd d q x)%Z) T x Hx (Z.ltb_irrefl _)). lia.
    - intros y Hy. apply Z.ltb_ge. apply (sorted_firstn_skipn_le (dd d q) L (S k) x y HsL Hx Hy). }
  (* nobody in T is farther than a sample that was left out *)
  assert (Hjp : In j pts) by (apply (Permutation_in _ (Permutation_sym Hperm)); now apply samples_In).
  assert (HTj : forall x, In x T -> dd d q x <= dd d q j).
  { intros x Hx. destruct (Z.le_gt_cases (dd d q x) (dd d q j)) as [H|H]; [assumption|exfalso].
    apply Hjn. apply Hneed; [assumption|].
    assert (Hx' : In x pts) by (apply (Permutation_in _ (Permutation_sym HpL)); now apply HTL).
    assert (Hcx : (length (filter (fun y => (dd d q y <? dd d q x)%Z) pts) < S k)%nat).
    { rewrite (perm_filter_length _ pts L HpL). rewrite <- (firstn_skipn (S k) L). fold T.
      rewrite filter_app, app_length. rewrite (filter_none _ (skipn (S k) L)).
      - cbn [length]. pose proof (filter_length_lt (fun y => (dd d q y <? dd d q x)%Z) T x Hx (Z.ltb_irrefl _)). lia.
      - intros y Hy. apply Z.ltb_ge. apply (sorted_firstn_skipn_le (dd d q) L (S k) x y HsL Hx Hy). }
    assert (Hle : (length (filter (fun y => (dd d q y <? dd d q j)%Z) pts) <=
                   length (filter (fun y => (dd d q y <? dd d q x)%Z) pts))%nat).
    { apply filter_length_le. intros y _ Hy. apply Z.ltb_lt in Hy. apply Z.ltb_lt. lia. }
    lia. }
  (* T without q: at least k members, all among the closer candidates *)
  set (T' := remove Z.eq_dec q T).
  assert (HndT : NoDup T) by (unfold T; now apply NoDup_firstn_Z).
  assert (HlenT' : (k <= length T')%nat).
  { unfold T'. destruct (in_dec Z.eq_dec q T) as [Hin|Hnin].
    - pose proof (remove_length_NoDup T q HndT Hin). lia.
    - rewrite notin_remove by assumption. lia. }
  assert (Hincl : incl T' (closer_cands d q j cands)).
  { intros i Hi. unfold T' in Hi. apply in_remove in Hi. destruct Hi as [Hi Hiq].
    unfold closer_cands. apply filter_In. split; [now apply HT|].
    apply andb_true_iff. split; [apply negb_true_iff, Z.eqb_neq; exact Hiq|].
    apply Z.leb_le. pose proof (HTj i Hi) as H.
    rewrite (dd_neq d q i) in H by (intros E; apply Hiq; now symmetry).
    rewrite (dd_neq d q j) in H by (intros E; apply Hjq; now symmetry). exact H. }
  assert (HndT' : NoDup T') by (unfold T'; now apply NoDup_remove_Z).
  pose proof (NoDup_incl_length HndT' Hincl). lia.
Qed.

Lemma ct_holds_b_sound : forall N t, ct_holds_b N t = true -> Permutation (leaf_points t) (samples N).
Proof.
  intros N t H. unfold ct_holds_b in H. rewrite !andb_true_iff in H. destruct H as [[Hnd Hlen] Hrng].
  apply nodup_b_spec in Hnd. apply Nat.eqb_eq in Hlen. rewrite forallb_forall in Hrng.
  apply NoDup_Permutation_bis; [assumption | |].
  - unfold samples. rewrite zseq_length. lia.
  - intros x Hx. apply samples_In. specialize (Hrng x Hx). apply andb_true_iff in Hrng.
    destruct Hrng as [H1 H2]. lia.
Qed.

(* The cover-tree method, model of the query + repaired selection, on any tree that passes the
   checkers: every row whose candidate list is duplicate-free and in range gives exactly the k
   nearest other samples.  PARTIAL: the audit flag `true` (validity of upper_bound[0] at each read),
   and "the list is duplicate-free" are run-time-checked facts, not consequences of the model. *)
Lemma covertree_model_exact_partial_lemma : forall d N top k fuel rows q cands,
  metric_on (in_range N) d -> (k < N)%nat ->
  ct_inv_b d top = true -> ct_holds_b N top = true -> is_leaf top = false ->
  ct_query false d (S k) (valid_b d (leaf_points top) (S k)) fuel top = Some (rows, true) ->
  In (q, cands) rows -> nodup_b cands = true ->
  forallb (fun j => (0 <=? j) && (j <? Z.of_nat N)) cands = true ->
  exists l, ct_select_fixed d (q :: cands) k = Some l /\ is_knn d N q k l.
Proof.
  intros d N top k fuel rows q cands Hm Hk Hinv Hholds Hnl E Hin Hnd Hrng.
  pose proof (ct_holds_b_sound N top Hholds) as Hperm.
  assert (Hdom : forall x, In x (leaf_points top) -> in_range N x).
  { intros x Hx. apply (Permutation_in _ Hperm) in Hx. now apply samples_In in Hx. }
  destruct (ct_query_complete_partial_lemma d (in_range N) top (S k) fuel rows Hm Hdom Hinv Hnl E q cands Hin)
    as [Hq Hc].
  apply ct_select_exact_lemma; [now apply Hdom | assumption|].
  apply (needed_cand_complete d N q k (leaf_points top) cands Hperm (Hdom q Hq) Hk).
  - now apply nodup_b_spec.
  - intros j Hj. rewrite forallb_forall in Hrng. specialize (Hrng j Hj). apply andb_true_iff in Hrng.
    destruct Hrng as [H1 H2]. unfold in_range. lia.
  - exact Hc.
Qed.
