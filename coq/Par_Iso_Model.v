(* Par_Iso_Model.v — property C15: the loop body of compute_shortest_distances_matrix (routines/isomap.hpp, both
   overloads, both heap variants) as a PROGRAM of Par_Model, built on the step functions of the C04 development
   (Dijkstra_Model.step_pq / step_fib through Dijkstra_Sched_Model.step_fl).  NO proofs in this file.

       for (j < N) { shortest_distances(k,j) = max(); s[j] = false; f[j] = false; }     -> init_writes (plain writes)
       shortest_distances(k,src) = 0; heap.insert(src, 0); f[fidx] = true;              -> Wr / Rd+Wr heap / Wr
       while (!heap.empty()) { ... neighbors[min_item][i] ... shortest_distances(k,w) ... s[w] f[w] heap ... }
                                                                                         -> iso_loop
       heap.clear();                                                                     -> Wr heap []

   Memory:  shared  KD k j   = shortest_distances(k,j)      written and read by iteration k only
                    KNb u i  = neighbors[u][i]               read only
            private KS j, KF j = s[j], f[j]   (one array per thread, contents left by the previous iteration)
                    KHeap      = the thread's heap object (a bag of entries, the abstract heap of C04 / C16)
   The distance callback `w` is a value oracle (callbacks are reentrant and touch no shared state).

   One pass of the while loop is modelled at the granularity of C04's `step`: the pass READS the neighbour table, row k,
   s[], f[] and the heap (a superset of what the C++ pass reads), computes C04's step on these values, and WRITES row k,
   s[], f[] and the heap back (a superset of what the C++ pass writes: unchanged cells are rewritten with their own
   value).  So the footprint of the model contains the footprint of the code, the order init -> loop -> clear and the
   dependence of every pass on what the previous pass left in memory are those of the code; the theorem
   (Par_Iso_Proof.iso_all_schedules) holds for every interleaving of these reads and writes with those of the other
   threads.  An out-of-range index (undefined behaviour in the C++) ends the model's loop. *)
From Coq Require Import List ZArith Bool Arith.
Import ListNotations.
From TK Require Import Par_Model Dijkstra_Model Dijkstra_Sched_Model.

Inductive ikey := KD (k j : nat) | KNb (u i : nat) | KS (j : nat) | KF (j : nat) | KHeap.

Definition ikey_eqb (a b : ikey) : bool :=
  match a, b with
  | KD k j, KD k' j' => Nat.eqb k k' && Nat.eqb j j'
  | KNb u i, KNb u' i' => Nat.eqb u u' && Nat.eqb i i'
  | KS j, KS j' => Nat.eqb j j'
  | KF j, KF j' => Nat.eqb j j'
  | KHeap, KHeap => true
  | _, _ => false
  end.

Inductive ival := VD (o : option Z) | VB (b : bool) | VN (n : nat) | VH (h : list entry).
Definition getD (v : ival) : option Z := match v with VD o => o | _ => None end.
Definition getB (v : ival) : bool := match v with VB b => b | _ => false end.
Definition getN (v : ival) : nat := match v with VN n => n | _ => O end.
Definition getH (v : ival) : list entry := match v with VH h => h | _ => [] end.

Notation iprog := (prog ikey ival unit).
Notation iloc := (loc ikey).

Fixpoint wr_all (l : list (iloc * ival)) (k : iprog) : iprog :=
  match l with
  | [] => k
  | (x, v) :: t => Wr x v (wr_all t k)
  end.

Fixpoint rd_all (l : list iloc) (acc : list ival) (k : list ival -> iprog) : iprog :=
  match l with
  | [] => k (rev acc)
  | x :: t => Rd x (fun v => rd_all t (v :: acc) k)
  end.

(* neighbors[u][0..K-1] for the listed u *)
Fixpoint rd_rows (us : list nat) (K : nat) (acc : list (list nat)) (k : list (list nat) -> iprog) : iprog :=
  match us with
  | [] => k (rev acc)
  | u :: t => rd_all (map (fun i => Sh (KNb u i)) (seq 0 K)) []
                     (fun vs => rd_rows t K (map getN vs :: acc) k)
  end.

Section IsoBody.
  Variable fl : flavour.
  Variable w : nat -> nat -> Z.
  Variable pick : list entry -> option entry.
  Variable N K : nat.
  Variable src_of : nat -> dres (nat * nat).     (* row index -> (source vertex, index of the frontier flag) *)

  Definition init_writes (k : nat) : list (iloc * ival) :=
    flat_map (fun j => [(Sh (KD k j), VD None); (Pr (KS j), VB false); (Pr (KF j), VB false)]) (seq 0 N).

  Definition load (k : nat) (cont : dstate -> iprog) : iprog :=
    rd_all (map (fun j => Sh (KD k j)) (seq 0 N)) [] (fun vd =>
    rd_all (map (fun j => Pr (KS j)) (seq 0 N)) [] (fun vs =>
    rd_all (map (fun j => Pr (KF j)) (seq 0 N)) [] (fun vf =>
    Rd (Pr KHeap) (fun vh =>
      cont (mkD (map getD vd) (map getB vs) (map getB vf) (getH vh)))))).

  Definition store_writes (k : nat) (st : dstate) : list (iloc * ival) :=
    map (fun j => (Sh (KD k j), VD (nth j (d_dist st) None))) (seq 0 N) ++
    map (fun j => (Pr (KS j), VB (nth j (d_s st) false))) (seq 0 N) ++
    map (fun j => (Pr (KF j), VB (nth j (d_f st) false))) (seq 0 N) ++
    [(Pr KHeap, VH (d_heap st))].

  Fixpoint iso_loop (k fuel : nat) (fin : iprog) : iprog :=
    match fuel with
    | O => fin
    | S fuel' =>
        rd_rows (seq 0 N) K [] (fun nbrs =>
        load k (fun st =>
          match step_fl fl nbrs w pick K st with
          | None => fin                                              (* heap.empty() *)
          | Some (DOk st') => wr_all (store_writes k st') (iso_loop k fuel' fin)
          | Some _ => fin                                            (* out-of-range index *)
          end))
    end.

  Definition iso_fin : iprog := Wr (Pr KHeap) (VH []) Ret.            (* heap.clear() *)

  Definition iso_body (k : nat) : iprog :=
    match src_of k with
    | DOk (src, fidx) =>
        if Nat.ltb src N then
          if Nat.ltb fidx N then
            wr_all (init_writes k)
              (Wr (Sh (KD k src)) (VD (Some 0%Z))
                (Rd (Pr KHeap) (fun h =>
                  Wr (Pr KHeap) (VH ((src, 0%Z) :: getH h))
                    (Wr (Pr (KF fidx)) (VB true)
                      (iso_loop k (fuel_of N K) iso_fin)))))
          else Ret
        else Ret
    | _ => Ret
    end.
End IsoBody.

(* what a state holds, read back as the values of the C04 model *)
Definition mem_dstate (N k t : nat) (st : state ikey ival unit) : dstate :=
  mkD (map (fun j => getD (sh st (KD k j))) (seq 0 N))
      (map (fun j => getB (pr st t (KS j))) (seq 0 N))
      (map (fun j => getB (pr st t (KF j))) (seq 0 N))
      (getH (pr st t KHeap)).

Definition mem_nbrs (N K : nat) (m : ikey -> ival) : list (list nat) :=
  map (fun u => map (fun i => getN (m (KNb u i))) (seq 0 K)) (seq 0 N).

(* the shared memory that holds a neighbour table (and arbitrary values elsewhere) *)
Definition enc_nbrs (nbrs : list (list nat)) (dflt : ikey -> ival) : ikey -> ival :=
  fun x => match x with
           | KNb u i => VN (nth i (nth u nbrs []) O)
           | _ => dflt x
           end.

(* the descriptor shape the theorem is about: every access to the shared matrix has the iteration as its row *)
From TK Require Import Par_Region_Model.
Definition iso_shape (r : region) : bool :=
  forallb (fun a => match a_i a with XIt 0 => true | _ => false end && negb (a_crit a) &&
                    match a_kind a with AElem => true | _ => false end) (r_shared r) &&
  forallb (fun p => match p_class p with PInit | PRestored | PConst => true | PStale => false end) (r_private r) &&
  existsb (fun p => match p_class p with PRestored => true | _ => false end) (r_private r).
