(* Knn_CoverSel_Model.v — executable model of the selection stage of
   find_neighbors_covertree_impl (include/tapkee/neighbors/neighbors.hpp): what the
   wrapper does with the list res[i] that CoverTreeWrapper::k_nearest_neighbor returns
   for one query.  No proofs in this file.

   res[i] = query :: candidates, where the batch query (called with k+1) returns the
   UNSORTED set of all samples within the (k+1)-th smallest distance of the query (the
   query itself included).  The batch query is an ORACLE here: its contract
   `cand_complete` is validated by the harness on every query it runs (compared with
   brute force); the selection stage is modelled and proved.

   ct_select        shipped loop: `for j = 1 .. k+1: if res[i][j] != res[i][0] push`
                    (reading res[i][j] beyond res[i].index is an out-of-range read: None)
   ct_select_fixed  fixes/F02_covertree_select_sorted.patch: all candidates other than the
                    query, std::sort by (distance, index), first k. *)
From Coq Require Import List ZArith Bool.
From TK Require Import Knn_Spec.
Import ListNotations.
Local Open Scope Z_scope.

Definition ct_select (res : list Z) (k : nat) : option (list Z) :=
  match res with
  | [] => None
  | q :: cands =>
      if Nat.ltb (length cands) (k + 1) then None
      else Some (filter (fun j => negb (j =? q)) (firstn (k + 1) cands))
  end.

(* std::sort of pairs (distance, index): sort by index, then stably by distance *)
Definition sort_cands (d : dist) (q : Z) (l : list Z) : list Z :=
  isort_by (d q) (isort_by (fun x => x) l).

Definition ct_select_fixed (d : dist) (res : list Z) (k : nat) : option (list Z) :=
  match res with
  | [] => None
  | q :: cands =>
      Some (firstn k (sort_cands d q (filter (fun j => negb (j =? q)) cands)))
  end.

(* Contract of the batch query as far as the repaired selection needs it: distinct valid
   samples, and every OTHER sample that was left out has at least k candidates (other
   than the query) at least as close. *)
Definition closer_cands (d : dist) (q j : Z) (cands : list Z) : list Z :=
  filter (fun i => negb (i =? q) && (d q i <=? d q j)) cands.

Definition cand_complete (d : dist) (N : nat) (q : Z) (k : nat) (cands : list Z) : Prop :=
  NoDup cands /\ (forall j, In j cands -> 0 <= j < Z.of_nat N) /\
  forall j, 0 <= j < Z.of_nat N -> j <> q -> ~ In j cands ->
            (k <= length (closer_cands d q j cands))%nat.

Definition cand_complete_b (d : dist) (N : nat) (q : Z) (k : nat) (cands : list Z) : bool :=
  nodup_b cands &&
  forallb (fun j => (0 <=? j) && (j <? Z.of_nat N)) cands &&
  forallb (fun j => (j =? q) || zmem j cands || Nat.leb k (length (closer_cands d q j cands)))
          (samples N).

(* What the query is observed to return (stronger than needed; recorded as a statistic):
   exactly the samples within the (k+1)-th smallest distance. *)
Definition cand_exact_b (d : dist) (N : nat) (q : Z) (k : nat) (cands : list Z) : bool :=
  match nth_error (isort (map (d q) (samples N))) k with
  | None => false
  | Some b =>
      nodup_b cands &&
      forallb (fun j => Bool.eqb (d q j <=? b) (zmem j cands)) (samples N) &&
      forallb (fun j => zmem j (samples N)) cands
  end.
