(* ====================================================================== *)
(*  Lle_Proof_Ltsa.v — KLTSA: tangent_weight_matrix (C08), and the part of *)
(*  the assembly HLLE shares with it                                       *)
(*    local_term_entry / _ext / _row_sum     S A S^T entrywise             *)
(*    ltsa_block_entry, ltsa_matrix          triplet sum =                 *)
(*                 sum_i S_i (I - P_i) S_i^T + shift I   (any block order) *)
(*    ltsa_model_matrix                      the same for the routine      *)
(*    ltsa_P_entry        (G G^T)_ab = rsk^2 + sum_c V_ac V_bc             *)
(*    ltsa_local_annihilates_one   (I - G G^T) 1 = 0 when k rsk^2 = 1 and  *)
(*                                 the tangent columns sum to zero         *)
(*    ltsa_const_vector   M 1 = shift 1                                    *)
(*    local_centered_gram_eq   what the local eigensolver sees is J K J    *)
(*    eigvec_centred      an eigenvector of a doubly centred symmetric     *)
(*                        matrix for a NON-ZERO eigenvalue sums to zero    *)
(*    hlle_block_entry, hlle_matrix, hlle_null_vector                      *)
(* ====================================================================== *)
Require Import Field Ring Arith Lia List Bool Permutation.
From TK Require Import Mat_Sums Mat_Core Lle_Model Lle_Spec Lle_Proof_Triplets Lle_Proof_Lle.
Import ListNotations.

Section LtsaProof.
  Context {F : Type} {Fo : FieldOps F} {Ff : IsField F}.
  Add Field LtsaProofField : (@Fth F Fo Ff).
  Local Open Scope F_scope.
  Local Notation vec := (Mat_Core.vec F).
  Local Notation mat := (Mat_Core.mat F).

  Lemma local_term_entry k nb (A : mat) r c :
    local_term k (sel nb) A r c =
    sumn k (fun a => sumn k (fun b => delta r (nb a) * A a b * delta c (nb b))).
  Proof.
    unfold local_term, mmul, mtrans, sel.
    rewrite (sumn_ext k _ (fun b => sumn k (fun a => delta r (nb a) * A a b * delta c (nb b)))).
    2:{ intros b _. rewrite <- sumn_mul_r. reflexivity. }
    apply sumn_swap.
  Qed.

  Lemma local_term_ext k nb (A A' : mat) r c :
    meq k k A A' -> local_term k (sel nb) A r c = local_term k (sel nb) A' r c.
  Proof.
    intros H. rewrite !local_term_entry. apply sumn_ext. intros a Ha.
    apply sumn_ext. intros b Hb. rewrite H by assumption. reflexivity.
  Qed.

  Lemma local_term_row_sum N k nb (A : mat) r :
    (forall b, b < k -> nb b < N) ->
    sumn N (fun c => local_term k (sel nb) A r c) =
    sumn k (fun a => delta r (nb a) * sumn k (fun b => A a b)).
  Proof.
    intros Hn.
    rewrite (sumn_ext N _ (fun c =>
       sumn k (fun a => sumn k (fun b => delta r (nb a) * A a b * delta c (nb b)))))
      by (intros; apply local_term_entry).
    rewrite sumn_swap. apply sumn_ext. intros a Ha.
    rewrite sumn_swap. rewrite <- sumn_mul_l. apply sumn_ext. intros b Hb.
    rewrite sumn_mul_l. rewrite sum_delta_in by (apply Hn; assumption). ring.
  Qed.

  Lemma local_term_sym k nb (A : mat) r c :
    msym k A -> local_term k (sel nb) A r c = local_term k (sel nb) A c r.
  Proof.
    intros HA. rewrite !local_term_entry. rewrite sumn_swap.
    apply sumn_ext. intros a Ha. apply sumn_ext. intros b Hb.
    rewrite (HA b a) by assumption. ring.
  Qed.

  (* ---------------- KLTSA ---------------- *)
  Lemma ltsa_block_entry i k nb (P : mat) shift r c :
    from_triplets (ltsa_block i k nb P shift) r c =
    shift * (delta r i * delta c i) + local_term k (sel nb) (msub mI P) r c.
  Proof.
    unfold ltsa_block. cbn [from_triplets]. rewrite from_triplets_flat_map_seq.
    rewrite trip_at_delta, local_term_entry.
    replace (delta r i * delta c i * shift) with (shift * (delta r i * delta c i)) by ring.
    f_equal. apply sumn_ext. intros a Ha.
    cbn [from_triplets]. rewrite from_triplets_map_seq, trip_at_delta.
    rewrite (sumn_ext k (fun b => delta r (nb a) * msub mI P a b * delta c (nb b))
               (fun b => delta a b * (delta r (nb a) * delta c (nb b))
                         + delta r (nb a) * delta c (nb b) * - P a b)).
    2:{ intros b _. unfold msub, mI. ring. }
    rewrite sumn_add.
    rewrite (sumn_delta_l k a (fun b => delta r (nb a) * delta c (nb b))) by assumption.
    f_equal; [ring|]. apply sumn_ext. intros b _. apply trip_at_delta.
  Qed.

  Theorem ltsa_matrix N k nbr (P : nat -> mat) shift order r c :
    Permutation order (seq 0 N) -> r < N -> c < N ->
    from_triplets (ltsa_triplets order k nbr P shift) r c = ltsa_M_spec N k nbr P shift r c.
  Proof.
    intros HP Hr Hc. unfold ltsa_triplets.
    rewrite (from_triplets_order _ order N) by exact HP.
    rewrite (sumn_ext N _ (fun i => shift * (delta r i * delta c i)
                                    + local_term k (sel (nbr i)) (msub mI (P i)) r c))
      by (intros; apply ltsa_block_entry).
    rewrite sumn_add, sumn_mul_l, sum_delta_pair by assumption.
    unfold ltsa_M_spec. ring.
  Qed.

  Theorem ltsa_model_matrix N k d nbr (E : nat -> mat) rsk shift r c :
    r < N -> c < N ->
    from_triplets (ltsa_model N k d nbr E rsk shift) r c =
    ltsa_M_spec N k nbr (fun i => ltsa_P d rsk (right_cols k d (E i))) shift r c.
  Proof.
    intros Hr Hc. unfold ltsa_model.
    rewrite (ltsa_matrix N) by (try apply Permutation_refl; assumption).
    unfold ltsa_M_spec. f_equal. apply sumn_ext. intros i _.
    apply local_term_ext. intros a b Ha Hb. unfold msub. rewrite mof_mtab by assumption. reflexivity.
  Qed.

  Lemma ltsa_P_entry d rsk (V : mat) a b :
    ltsa_P d rsk V a b = rsk * rsk + sumn d (fun c => V a c * V b c).
  Proof.
    unfold ltsa_P, mmul, mtrans. rewrite sumn_S_l. cbn [ltsa_G]. reflexivity.
  Qed.

  Lemma ltsa_P_sym d rsk (V : mat) k : msym k (ltsa_P d rsk V).
  Proof.
    intros a b _ _. rewrite !ltsa_P_entry. f_equal. apply sumn_ext. intros; ring.
  Qed.

  (* (I - G G^T) 1 = 0 *)
  Theorem ltsa_local_annihilates_one k d rsk (V : mat) a :
    rsk * rsk * of_nat k = 1 ->
    (forall c, c < d -> sumn k (fun b => V b c) = 0) ->
    a < k ->
    sumn k (fun b => msub mI (ltsa_P d rsk V) a b) = 0.
  Proof.
    intros Hr Hv Ha. unfold msub, mI. rewrite sumn_sub.
    rewrite (sumn_ext k (fun b => delta a b) (fun b => delta a b * 1)) by (intros; ring).
    rewrite (sumn_delta_l k a (fun _ => 1)) by assumption.
    rewrite (sumn_ext k _ (fun b => rsk * rsk + sumn d (fun c => V a c * V b c)))
      by (intros; apply ltsa_P_entry).
    rewrite sumn_add, sumn_const, sumn_swap.
    rewrite (sumn_zero' d).
    2:{ intros c Hc. rewrite sumn_mul_l, Hv by assumption. ring. }
    replace (of_nat k * (rsk * rsk)) with (rsk * rsk * of_nat k) by ring. rewrite Hr. ring.
  Qed.

  (* M 1 = shift 1 whenever every local matrix annihilates the constant vector *)
  Theorem ltsa_const_vector N k nbr (P : nat -> mat) shift :
    (forall i a, i < N -> a < k -> nbr i a < N) ->
    (forall i a, i < N -> a < k -> sumn k (fun b => msub mI (P i) a b) = 0) ->
    const_vector N (ltsa_M_spec N k nbr P shift) shift.
  Proof.
    intros Hn HP r Hr. unfold mv, ltsa_M_spec.
    rewrite (sumn_ext N _ (fun c =>
        sumn N (fun i => local_term k (sel (nbr i)) (msub mI (P i)) r c) + shift * delta r c))
      by (intros; ring).
    rewrite sumn_add, sumn_mul_l.
    rewrite (sumn_ext N (fun i => delta r i) (fun i => delta r i * 1)) by (intros; ring).
    rewrite (sumn_delta_l N r (fun _ => 1)) by assumption.
    rewrite sumn_swap. rewrite sumn_zero'; [ring|].
    intros i Hi. rewrite local_term_row_sum by (intros; apply Hn; assumption).
    apply sumn_zero'. intros a Ha. rewrite HP by assumption. ring.
  Qed.

  Lemma ltsa_M_spec_sym N k nbr (P : nat -> mat) shift :
    (forall i, i < N -> msym k (P i)) -> msym N (ltsa_M_spec N k nbr P shift).
  Proof.
    intros HP r c _ _. unfold ltsa_M_spec. rewrite (delta_sym r c). f_equal.
    apply sumn_ext. intros i Hi. apply local_term_sym.
    intros a b Ha Hb. unfold msub, mI. rewrite (delta_sym a b), (HP i Hi a b) by assumption.
    reflexivity.
  Qed.

  (* ---------------- the local eigenproblem ---------------- *)
  Lemma local_gram_sym k (kern : mat) nb : msym k (local_gram kern nb).
  Proof. apply read_upper_sym. Qed.

  Lemma local_centered_gram_eq k (kern : mat) nb :
    of_nat k <> 0 ->
    meq k k (local_centered_gram k kern nb) (double_center k (local_gram kern nb)).
  Proof.
    intros Hk. unfold local_centered_gram.
    eapply meq_trans.
    - apply read_lower_of_sym. apply center_matrix_msym. apply local_gram_sym.
    - apply center_matrix_sym; [assumption|apply local_gram_sym].
  Qed.

  Lemma local_centered_gram_sym k (kern : mat) nb : msym k (local_centered_gram k kern nb).
  Proof. apply read_lower_sym. Qed.

  Lemma local_centered_gram_col_sum k (kern : mat) nb j :
    of_nat k <> 0 -> j < k -> sumn k (fun i => local_centered_gram k kern nb i j) = 0.
  Proof.
    intros Hk Hj.
    rewrite (sumn_ext k _ (fun i => double_center k (local_gram kern nb) i j)).
    - apply double_center_col_sum; assumption.
    - intros i Hi. apply local_centered_gram_eq; assumption.
  Qed.

  Lemma colmean_box n (M M' : mat) j : meq n n M M' -> j < n -> colmean n M j = colmean n M' j.
  Proof.
    intros H Hj. unfold colmean, colsum. f_equal. apply sumn_ext. intros i Hi. apply H; assumption.
  Qed.

  Lemma grandmean_box n (M M' : mat) : meq n n M M' -> grandmean n n M = grandmean n n M'.
  Proof.
    intros H. unfold grandmean, totsum. f_equal. apply sumn_ext. intros i Hi.
    apply sumn_ext. intros j Hj. apply H; assumption.
  Qed.

  (* the executed table (means computed once) is the table of the model matrix *)
  Lemma local_centered_gram_exec_ok k (kern : mat) nb :
    local_centered_gram_exec k kern nb = mtab k k (local_centered_gram k kern nb).
  Proof.
    unfold local_centered_gram_exec, local_centered_gram. apply mtab_ext.
    assert (HG : meq k k (mof (mtab k k (local_gram kern nb))) (local_gram kern nb))
      by apply mof_mtab_meq.
    assert (Hbox : forall i j, i < k -> j < k ->
              mof (mtab k k (local_gram kern nb)) i j
              + grandmean k k (mof (mtab k k (local_gram kern nb)))
              - vof (vtab k (colmean k (mof (mtab k k (local_gram kern nb))))) j
              - vof (vtab k (colmean k (mof (mtab k k (local_gram kern nb))))) i
              = center_matrix k (local_gram kern nb) i j).
    { intros i j Hi Hj. unfold center_matrix. rewrite !vof_vtab by assumption.
      rewrite (HG i j Hi Hj), (grandmean_box k _ _ HG), (colmean_box k _ _ j HG Hj),
              (colmean_box k _ _ i HG Hi). reflexivity. }
    intros i j Hi Hj. unfold read_lower. destruct (Nat.leb j i); apply Hbox; assumption.
  Qed.

  (* eigenvectors for non-zero eigenvalues of a symmetric matrix with zero column sums are
     orthogonal to the constant vector *)
  Theorem eigvec_centred k (B : mat) (v : vec) lam :
    (forall j, j < k -> sumn k (fun i => B i j) = 0) ->
    (forall i, i < k -> mv k B v i = lam * v i) ->
    lam <> 0 -> sumn k v = 0.
  Proof.
    intros Hc He Hl.
    assert (H : lam * sumn k v = 0).
    { rewrite <- sumn_mul_l.
      rewrite (sumn_ext k _ (fun i => mv k B v i)) by (intros; symmetry; apply He; assumption).
      unfold mv. rewrite sumn_swap. apply sumn_zero'. intros j Hj.
      rewrite sumn_mul_r, Hc by assumption. ring. }
    replace (sumn k v) with (/ lam * (lam * sumn k v)) by (field; assumption).
    rewrite H. ring.
  Qed.

  Corollary ltsa_tangent_orth_one k (kern : mat) nb (E : mat) (lam : vec) c :
    of_nat k <> 0 ->
    (forall i, i < k -> mv k (local_centered_gram k kern nb) (mcol E c) i = lam c * E i c) ->
    lam c <> 0 -> sumn k (fun i => E i c) = 0.
  Proof.
    intros Hk He Hl.
    apply (eigvec_centred k (local_centered_gram k kern nb) (mcol E c) (lam c)).
    - intros j Hj. apply local_centered_gram_col_sum; assumption.
    - exact He.
    - exact Hl.
  Qed.

  (* ---------------- HLLE assembly ---------------- *)
  Lemma hlle_block_entry k nb (P : mat) r c :
    from_triplets (hlle_block k nb P) r c = local_term k (sel nb) P r c.
  Proof.
    unfold hlle_block. rewrite from_triplets_flat_map_seq, local_term_entry.
    apply sumn_ext. intros a _. rewrite from_triplets_map_seq.
    apply sumn_ext. intros b _. rewrite trip_at_delta. ring.
  Qed.

  Theorem hlle_matrix N k nbr (P : nat -> mat) order r c :
    Permutation order (seq 0 N) ->
    from_triplets (hlle_triplets order k nbr P) r c = hlle_M_spec N k nbr P r c.
  Proof.
    intros HP. unfold hlle_triplets. rewrite (from_triplets_order _ order N) by exact HP.
    unfold hlle_M_spec. apply sumn_ext. intros. apply hlle_block_entry.
  Qed.

  (* M 1 = 0 whenever every local H H^T annihilates the constant vector *)
  Theorem hlle_null_vector N k nbr (P : nat -> mat) :
    (forall i a, i < N -> a < k -> nbr i a < N) ->
    (forall i a, i < N -> a < k -> sumn k (fun b => P i a b) = 0) ->
    const_vector N (hlle_M_spec N k nbr P) 0.
  Proof.
    intros Hn HP r Hr. unfold mv, hlle_M_spec.
    rewrite (sumn_ext N _ (fun c => sumn N (fun i => local_term k (sel (nbr i)) (P i) r c)))
      by (intros; ring).
    rewrite sumn_swap. apply sumn_zero'.
    intros i Hi. rewrite local_term_row_sum by (intros; apply Hn; assumption).
    apply sumn_zero'. intros a Ha. rewrite HP by assumption. ring.
  Qed.

  Lemma hlle_M_spec_sym N k nbr (P : nat -> mat) :
    (forall i, i < N -> msym k (P i)) -> msym N (hlle_M_spec N k nbr P).
  Proof.
    intros HP r c _ _. unfold hlle_M_spec. apply sumn_ext. intros i Hi.
    apply local_term_sym. apply HP. assumption.
  Qed.
End LtsaProof.
