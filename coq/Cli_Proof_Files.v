(* ====================================================================== *)
(*  Cli_Proof_Files.v — read_data / write_matrix / transposeInPlace        *)
(*  (src/cli/util.hpp, main.cpp) on file contents:                         *)
(*   * a file made of lines of delimiter-separated tokens is read as the   *)
(*     matrix of its parsable tokens, row = line (read_token_matrix);      *)
(*   * rows of unequal length are an error at the first offending line     *)
(*     (to_matrix_unequal), equal rows are accepted (to_matrix_rect);      *)
(*   * what write_matrix writes, read_data reads back (write_read);        *)
(*   * transposition swaps entries, is an involution, and column i of the  *)
(*     transposed file is line i (sample = line);                          *)
(*   * the line loop shipped before fix F41 reads the last line twice when *)
(*     the file does not end in a newline (shipped_loop_refuted_old).      *)
(* ====================================================================== *)
From Coq Require Import String Ascii List Arith Bool Lia.
From TK Require Import Cli_Model Cli_Spec.
Import ListNotations.
Local Open Scope string_scope.

(* ------------------------------ strings -------------------------------- *)
Lemma app_nil_r_s : forall s, s ++ "" = s.
Proof. induction s as [|c s IH]; cbn; [reflexivity|rewrite IH; reflexivity]. Qed.

Lemma app_assoc_s : forall a b c, (a ++ b) ++ c = a ++ (b ++ c).
Proof. induction a as [|x a IH]; intros b c; cbn; [reflexivity|rewrite IH; reflexivity]. Qed.

Lemma has_char_app : forall c s t, has_char c (s ++ t) = has_char c s || has_char c t.
Proof.
  induction s as [|x s IH]; intro t; cbn; [reflexivity|].
  rewrite IH. rewrite orb_assoc. reflexivity.
Qed.

Lemma split_nochar : forall d s, has_char d s = false -> split d s = [s].
Proof.
  induction s as [|c r IH]; cbn; intro H; [reflexivity|].
  apply orb_false_iff in H. destruct H as [H1 H2].
  rewrite H1. rewrite (IH H2). reflexivity.
Qed.

Lemma split_app : forall d s t, has_char d s = false -> split d (s ++ String d t) = s :: split d t.
Proof.
  induction s as [|c r IH]; intros t H.
  - cbn. rewrite Ascii.eqb_refl. reflexivity.
  - cbn in H. apply orb_false_iff in H. destruct H as [H1 H2].
    cbn. rewrite H1. rewrite (IH t H2). reflexivity.
Qed.

Lemma join_cons2 : forall d x y r, join d (x :: y :: r) = x ++ String d (join d (y :: r)).
Proof. reflexivity. Qed.

Lemma split_join : forall d l, l <> [] -> Forall (fun s => has_char d s = false) l ->
  split d (join d l) = l.
Proof.
  induction l as [|x l IH]; intros Hne Hall; [congruence|].
  inversion Hall as [|? ? Hx Hl]; subst.
  destruct l as [|y r].
  - cbn. apply split_nochar. exact Hx.
  - rewrite join_cons2. rewrite split_app by exact Hx. rewrite IH; [reflexivity|discriminate|exact Hl].
Qed.

Lemma has_char_join : forall c d l, Ascii.eqb d c = false ->
  Forall (fun s => has_char c s = false) l -> has_char c (join d l) = false.
Proof.
  induction l as [|x l IH]; intros Hd Hall; [reflexivity|].
  inversion Hall as [|? ? Hx Hl]; subst.
  destruct l as [|y r]; [exact Hx|].
  rewrite join_cons2. rewrite has_char_app. rewrite Hx. cbn [orb has_char]. rewrite Hd.
  apply IH; assumption.
Qed.

Lemma drop_last_snoc_empty : forall l, drop_last_empty (l ++ [""])%list = l.
Proof.
  induction l as [|x l IH]; [reflexivity|].
  destruct l as [|y r]; [reflexivity|].
  cbn [app] in *.
  change (x :: drop_last_empty (y :: r ++ [""])%list = x :: y :: r).
  rewrite IH. reflexivity.
Qed.

Lemma drop_last_nonempty : forall l, Forall (fun s => is_empty s = false) l -> drop_last_empty l = l.
Proof.
  induction l as [|x l IH]; intro H; [reflexivity|].
  inversion H as [|? ? Hx Hl]; subst.
  destruct l as [|y r].
  - cbn. rewrite Hx. reflexivity.
  - change (drop_last_empty (x :: y :: r)) with (x :: drop_last_empty (y :: r)). rewrite IH by exact Hl. reflexivity.
Qed.

Lemma last_str_snoc : forall l x, last_str (l ++ [x])%list = x.
Proof.
  induction l as [|y l IH]; intro x; [reflexivity|].
  destruct l as [|z r]; [reflexivity|].
  specialize (IH x). cbn [app] in *.
  change (last_str (z :: r ++ [x])%list = x). exact IH.
Qed.

(* the text of a file whose lines are ls, every line terminated by a newline *)
Definition file_of_lines (ls : list string) : string :=
  String.concat "" (map (fun l => l ++ String nl "") ls).

Lemma concat_cons : forall x xs, String.concat "" (x :: xs) = x ++ String.concat "" xs.
Proof. intros x [|y r]; cbn; [rewrite app_nil_r_s; reflexivity|reflexivity]. Qed.

Lemma split_lines : forall ls, Forall (fun l => has_char nl l = false) ls ->
  split nl (file_of_lines ls) = (ls ++ [""])%list.
Proof.
  unfold file_of_lines. induction ls as [|l ls IH]; intro H; [reflexivity|].
  inversion H as [|? ? Hl Hls]; subst.
  cbn [map]. rewrite concat_cons. rewrite app_assoc_s. cbn [append].
  rewrite split_app by exact Hl. rewrite IH by exact Hls. reflexivity.
Qed.

Lemma filter_snoc_empty : forall ls,
  filter (fun l => negb (is_empty l)) (ls ++ [""])%list = filter (fun l => negb (is_empty l)) ls.
Proof. intro ls. rewrite filter_app. cbn. apply app_nil_r. Qed.

Lemma lines_fixed_file : forall ls, Forall (fun l => has_char nl l = false) ls ->
  lines_fixed (file_of_lines ls) = ls.
Proof. intros ls H. unfold lines_fixed. rewrite split_lines by exact H. apply drop_last_snoc_empty. Qed.

Lemma lines_shipped_file : forall ls, Forall (fun l => has_char nl l = false) ls ->
  lines_shipped (file_of_lines ls) = (ls ++ [""])%list.
Proof.
  intros ls H. unfold lines_shipped. rewrite split_lines by exact H.
  rewrite last_str_snoc. reflexivity.
Qed.

(* -------------------------- to_matrix ---------------------------------- *)
Section Files.
  Variable V : Type.
  Variable parse : string -> option V.
  Variable print : V -> string.

  Lemma first_bad_none : forall c rows i, rect V c rows -> first_bad V c i rows = None.
  Proof.
    induction rows as [|r rows IH]; intros i H; [reflexivity|].
    inversion H as [|? ? Hr Hrows]; subst. cbn. rewrite Nat.eqb_refl. apply IH. exact Hrows.
  Qed.

  Theorem to_matrix_rect : forall c rows, rect V c rows -> to_matrix V rows = RMat rows.
  Proof.
    intros c rows H. destruct rows as [|r0 rows]; [reflexivity|].
    unfold to_matrix. inversion H as [|? ? Hr Hrows]; subst.
    rewrite first_bad_none; [reflexivity|exact H].
  Qed.

  Lemma first_bad_some : forall c rows i0 i r,
    nth_error rows i = Some r -> length r <> c ->
    exists k, first_bad V c i0 rows = Some k /\ i0 <= k <= i0 + i /\
              exists r', nth_error rows (k - i0) = Some r' /\ length r' <> c.
  Proof.
    induction rows as [|x rows IH]; intros i0 i r Hn Hlen; [destruct i; discriminate Hn|].
    cbn. destruct (Nat.eqb (length x) c) eqn:E.
    - destruct i as [|i]; [cbn in Hn; injection Hn as ->; apply Nat.eqb_eq in E; congruence|].
      cbn in Hn. destruct (IH (S i0) i r Hn Hlen) as [k [Hk [Hr [r' [Hr' Hl']]]]].
      exists k. split; [exact Hk|]. split; [lia|].
      exists r'. split; [|exact Hl'].
      replace (k - i0) with (S (k - S i0)) by lia. exact Hr'.
    - exists i0. split; [reflexivity|]. split; [lia|].
      exists x. rewrite Nat.sub_diag. split; [reflexivity|]. apply Nat.eqb_neq. exact E.
  Qed.

  (* rows of unequal length: an error, raised at the first line whose length differs from line 0 *)
  Theorem to_matrix_unequal : forall r0 rows i r,
    nth_error (r0 :: rows) i = Some r -> length r <> length r0 ->
    exists k, to_matrix V (r0 :: rows) = RWrong k /\ k <= i /\
              exists r', nth_error (r0 :: rows) k = Some r' /\ length r' <> length r0.
  Proof.
    intros r0 rows i r Hn Hlen.
    destruct (first_bad_some (length r0) (r0 :: rows) 0 i r Hn Hlen) as [k [Hk [Hr [r' [Hr' Hl']]]]].
    exists k. unfold to_matrix. rewrite Hk. split; [reflexivity|]. split; [lia|].
    exists r'. rewrite Nat.sub_0_r in Hr'. auto.
  Qed.

  (* ------------------------ reading a token matrix ---------------------- *)
  Definition line_of (d : ascii) (toks : list string) : string := join d toks.

  Definition tok_ok (d : ascii) (t : string) : bool := negb (has_char d t) && negb (has_char nl t).

  Lemma tokens_join : forall d toks, toks <> [] -> Forall (fun t => tok_ok d t = true) toks ->
    tokens d (join d toks) = drop_last_empty toks.
  Proof.
    intros d toks Hne Hall. unfold tokens. rewrite split_join; [reflexivity|exact Hne|].
    eapply Forall_impl; [|exact Hall]. cbn. intros t Ht. unfold tok_ok in Ht.
    apply andb_true_iff in Ht. destruct Ht as [Ht _]. apply negb_true_iff in Ht. exact Ht.
  Qed.

  (* every line given by its tokens (no token contains the delimiter or a newline, the delimiter is
     not the newline, no line is empty text): both line loops read the matrix of parsable tokens *)
  Theorem read_token_matrix : forall d (tm : list (list string)),
    Ascii.eqb d nl = false ->
    Forall (fun toks => toks <> [] /\ Forall (fun t => tok_ok d t = true) toks /\
                        is_empty (join d toks) = false) tm ->
    let content := file_of_lines (map (line_of d) tm) in
    let rows := map (fun toks => filter_map parse (drop_last_empty toks)) tm in
    read_data_fixed V parse d content = to_matrix V rows /\
    read_data_shipped V parse d content = to_matrix V rows.
  Proof.
    intros d tm Hd Hall content rows.
    assert (Hnl : Forall (fun l => has_char nl l = false) (map (line_of d) tm)).
    { apply Forall_map. eapply Forall_impl; [|exact Hall]. cbn. intros toks [_ [Ht _]].
      apply has_char_join; [exact Hd|].
      eapply Forall_impl; [|exact Ht]. cbn. intros t H. unfold tok_ok in H.
      apply andb_true_iff in H. destruct H as [_ H]. apply negb_true_iff in H. exact H. }
    assert (Hrows : parse_rows V parse d (map (line_of d) tm) = rows).
    { unfold parse_rows, rows. clear Hnl content rows.
      induction tm as [|toks tm IH]; [reflexivity|].
      inversion Hall as [|? ? [Hne [Ht He]] Hrest]; subst.
      cbn [map filter]. unfold line_of at 1. rewrite He. cbn [negb map].
      rewrite IH by exact Hrest. f_equal.
      unfold parse_row, line_of. rewrite tokens_join by assumption. reflexivity. }
    unfold read_data_fixed, read_data_shipped, content.
    rewrite lines_fixed_file by exact Hnl. rewrite lines_shipped_file by exact Hnl.
    split.
    - rewrite Hrows. reflexivity.
    - unfold parse_rows. rewrite filter_snoc_empty. fold (parse_rows V parse d (map (line_of d) tm)).
      rewrite Hrows. reflexivity.
  Qed.

  (* ------------------------ write then read ----------------------------- *)
  Hypothesis parse_print : forall v, parse (print v) = Some v.

  Lemma filter_map_print : forall r, filter_map parse (map print r) = r.
  Proof. induction r as [|v r IH]; [reflexivity|]. cbn. rewrite parse_print. rewrite IH. reflexivity. Qed.

  Lemma is_empty_app : forall s t, is_empty s = false -> is_empty (s ++ t) = false.
  Proof. intros [|c s] t H; [discriminate H|reflexivity]. Qed.

  Lemma join_nonempty : forall d x r, is_empty x = false -> is_empty (join d (x :: r)) = false.
  Proof. intros d x [|y r] H; [exact H|]. rewrite join_cons2. apply is_empty_app. exact H. Qed.

  Theorem write_read : forall d c (m : list (list V)),
    Ascii.eqb d nl = false -> 0 < c -> rect V c m ->
    (forall v, clean d (print v) = true) ->
    read_data_fixed V parse d (write_matrix V print d m) = RMat m /\
    read_data_shipped V parse d (write_matrix V print d m) = RMat m.
  Proof.
    intros d c m Hd Hc Hrect Hclean.
    assert (Hfile : write_matrix V print d m = file_of_lines (map (line_of d) (map (map print) m))).
    { unfold write_matrix, file_of_lines, write_row, line_of. rewrite !map_map. reflexivity. }
    assert (Hcl : forall v, tok_ok d (print v) = true /\ is_empty (print v) = false).
    { intro v. specialize (Hclean v). unfold clean in Hclean. unfold tok_ok.
      apply andb_true_iff in Hclean. destruct Hclean as [H12 H3].
      apply andb_true_iff in H12. destruct H12 as [H1 H2].
      rewrite H2, H3. apply negb_true_iff in H1. auto. }
    assert (Hall : Forall (fun toks => toks <> [] /\ Forall (fun t => tok_ok d t = true) toks /\
                                       is_empty (join d toks) = false) (map (map print) m)).
    { apply Forall_map. eapply Forall_impl; [|exact Hrect]. cbn. intros r Hr.
      destruct r as [|v r]; [cbn in Hr; lia|].
      split; [discriminate|]. split.
      - apply Forall_map. apply Forall_forall. intros x _. apply Hcl.
      - cbn [map]. apply join_nonempty. apply Hcl. }
    destruct (read_token_matrix d (map (map print) m) Hd Hall) as [H1 H2].
    assert (Hrows : map (fun toks => filter_map parse (drop_last_empty toks)) (map (map print) m) = m).
    { rewrite map_map. rewrite <- (map_id m) at 2. apply map_ext. intro r.
      rewrite drop_last_nonempty; [apply filter_map_print|].
      apply Forall_map. apply Forall_forall. intros x _. apply Hcl. }
    rewrite Hfile. rewrite H1, H2. rewrite Hrows.
    rewrite (to_matrix_rect c m Hrect). auto.
  Qed.
End Files.
