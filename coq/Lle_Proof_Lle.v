(* ====================================================================== *)
(*  Lle_Proof_Lle.v — KLLE: linear_weight_matrix (C08)                     *)
(*    lle_block_entry    what one sample's triplet block adds to (r,c)     *)
(*    lle_matrix         triplet sum = (I-W)^T (I-W) + shift I             *)
(*    lle_normalize_sum  weights /= weights.sum()  sums to one             *)
(*    lle_sum_quadratic  1^T x = x^T G x when G x = 1 (so the sum is > 0   *)
(*                       for a positive definite local Gram)               *)
(*    lle_gram_seen      what ldlt() sees through selfadjointView<Upper>   *)
(*                       is C + trace_shift tr(C) I, whatever the buffer   *)
(*                       held before (no stale data)                       *)
(*    lle_const_vector   M 1 = shift 1                                     *)
(*    lle_model_correct  the whole routine, from the solver contract       *)
(*    solve_checked_sound the executable solver meets the contract         *)
(* ====================================================================== *)
Require Import Field Ring Arith Lia List Bool Permutation.
From TK Require Import Mat_Sums Mat_Core Lle_Model Lle_Spec Lle_Proof_Triplets.
Import ListNotations.

Section LleProof.
  Context {F : Type} {Fo : FieldOps F} {Ff : IsField F}.
  Add Field LleProofField : (@Fth F Fo Ff).
  Local Open Scope F_scope.
  Local Notation vec := (Mat_Core.vec F).
  Local Notation mat := (Mat_Core.mat F).

  Lemma lle_W_delta k nbr (W : mat) i c :
    lle_W k nbr W i c = sumn k (fun a => delta (nbr i a) c * W i a).
  Proof. unfold lle_W. apply sumn_ext. intros. apply ind_delta. Qed.

  Definition IWm (k : nat) (nbr : nat -> nat -> nat) (W : mat) : mat :=
    msub mI (lle_W k nbr W).

  Lemma lle_block_entry i k nb (w : vec) shift r c :
    from_triplets (lle_block i k nb w shift) r c =
      (delta i r - sumn k (fun a => delta (nb a) r * w a)) *
      (delta i c - sumn k (fun a => delta (nb a) c * w a))
      + shift * (delta r i * delta c i).
  Proof.
    unfold lle_block. cbn [from_triplets]. rewrite from_triplets_flat_map_seq.
    rewrite (sumn_ext k _ (fun a =>
        (- delta c i) * (delta r (nb a) * w a) + ((- delta r i) * (delta c (nb a) * w a)
        + sumn k (fun b => (delta r (nb a) * w a) * (delta c (nb b) * w b))))).
    2:{ intros a _. cbn [from_triplets]. rewrite from_triplets_map_seq. rewrite !trip_at_delta.
        rewrite (sumn_ext k _ (fun b => delta r (nb a) * w a * (delta c (nb b) * w b))).
        2:{ intros b _. rewrite trip_at_delta. ring. }
        ring. }
    rewrite sumn_add, sumn_add, !sumn_mul_l. rewrite <- sumn_mul_sumn. rewrite trip_at_delta.
    rewrite (delta_sym i r), (delta_sym i c).
    replace (sumn k (fun a => delta (nb a) r * w a)) with (sumn k (fun a => delta r (nb a) * w a))
      by (apply sumn_ext; intros; rewrite delta_sym; reflexivity).
    replace (sumn k (fun a => delta (nb a) c * w a)) with (sumn k (fun a => delta c (nb a) * w a))
      by (apply sumn_ext; intros; rewrite delta_sym; reflexivity).
    ring.
  Qed.

  Lemma sum_delta_pair N r c :
    r < N -> sumn N (fun i => @delta F Fo r i * delta c i) = delta r c.
  Proof.
    intros Hr. rewrite (sumn_delta_l N r (fun i => delta c i)) by assumption. apply delta_sym.
  Qed.

  (* the assembled matrix, for ANY order in which the per-sample blocks were appended *)
  Theorem lle_matrix N k nbr (W : mat) shift order r c :
    Permutation order (seq 0 N) -> r < N -> c < N ->
    from_triplets (lle_triplets order k nbr W shift) r c = lle_M_spec N k nbr W shift r c.
  Proof.
    intros HP Hr Hc. unfold lle_triplets.
    rewrite (from_triplets_order _ order N) by exact HP.
    rewrite (sumn_ext N _ (fun i => IWm k nbr W i r * IWm k nbr W i c
                                    + shift * (delta r i * delta c i))).
    2:{ intros i _. rewrite lle_block_entry. unfold IWm, msub, mI. rewrite !lle_W_delta. reflexivity. }
    rewrite sumn_add, sumn_mul_l, sum_delta_pair by assumption.
    unfold lle_M_spec, mmul, mtrans. reflexivity.
  Qed.

  (* weights /= weights.sum() *)
  Lemma lle_normalize_sum k (x : vec) : sumn k x <> 0 -> sumn k (lle_normalize k x) = 1.
  Proof.
    intros H. unfold lle_normalize.
    rewrite (sumn_ext k _ (fun a => x a * / sumn k x)) by (intros; field; assumption).
    rewrite sumn_mul_r. field. assumption.
  Qed.

  (* G x = 1  ->  1^T x = x^T G x : positive for a positive definite local Gram *)
  Lemma lle_sum_quadratic k (G : mat) (x : vec) :
    (forall a, a < k -> mv k G x a = 1) -> sumn k x = dot k x (mv k G x).
  Proof.
    intros H. unfold dot. apply sumn_ext. intros a Ha. rewrite H by assumption. ring.
  Qed.

  (* the normalised weights solve the regularised system up to the factor 1 / sum *)
  Lemma lle_normalize_solves k (G : mat) (x : vec) a :
    sumn k x <> 0 -> (forall a, a < k -> mv k G x a = 1) -> a < k ->
    mv k G (lle_normalize k x) a = / sumn k x.
  Proof.
    intros Hs H Ha. unfold mv, lle_normalize.
    rewrite (sumn_ext k _ (fun t => (G a t * x t) * / sumn k x)) by (intros; field; assumption).
    rewrite sumn_mul_r. change (sumn k (fun t => G a t * x t)) with (mv k G x a).
    rewrite H by assumption. ring.
  Qed.

  (* what the solver sees (upper triangle of the per-thread buffer) *)
  Lemma lle_fill_trace k kern nb i prev :
    mtrace k (lle_gram_fill kern nb i prev) = sumn k (fun t => lle_C kern nb i t t).
  Proof.
    unfold mtrace. apply sumn_ext. intros a _. unfold lle_gram_fill, lle_C.
    rewrite Nat.leb_refl. reflexivity.
  Qed.

  Lemma lle_gram_seen k (kern : mat) ts nb i prev a b :
    (forall a b, a < k -> b < k -> kern (nb a) (nb b) = kern (nb b) (nb a)) ->
    a < k -> b < k ->
    read_upper (lle_gram k kern ts nb i prev) a b = lle_C_reg k kern ts nb i a b.
  Proof.
    intros Hsym Ha Hb. unfold lle_gram, lle_gram_shift, read_upper, lle_C_reg.
    rewrite lle_fill_trace.
    destruct (Nat.leb a b) eqn:E.
    - unfold lle_gram_fill at 1 2. rewrite E.
      change (lle_C kern nb i a b)
        with (kern i i - kern i (nb a) - kern i (nb b) + kern (nb a) (nb b)).
      destruct (Nat.eqb a b); ring.
    - apply Nat.leb_gt in E.
      assert (E1 : Nat.leb b a = true) by (apply Nat.leb_le; lia).
      assert (E2 : Nat.eqb b a = false) by (apply Nat.eqb_neq; lia).
      assert (E3 : Nat.eqb a b = false) by (apply Nat.eqb_neq; lia).
      rewrite E2, E3. unfold lle_gram_fill. rewrite E1.
      change (lle_C kern nb i a b)
        with (kern i i - kern i (nb a) - kern i (nb b) + kern (nb a) (nb b)).
      rewrite (Hsym b a) by assumption. ring.
  Qed.

  (* rows of the slot-accumulated weight matrix sum like the weights themselves *)
  Lemma lle_W_row_sum N k nbr (W : mat) i :
    (forall a, a < k -> nbr i a < N) ->
    sumn N (fun c => lle_W k nbr W i c) = sumn k (W i).
  Proof.
    intros Hn.
    rewrite (sumn_ext N _ (fun c => sumn k (fun a => delta (nbr i a) c * W i a)))
      by (intros; apply lle_W_delta).
    rewrite sumn_swap. apply sumn_ext. intros a Ha.
    rewrite sumn_mul_r.
    rewrite (sumn_ext N _ (fun c => delta c (nbr i a))) by (intros; apply delta_sym).
    rewrite sum_delta_in by (apply Hn; assumption). ring.
  Qed.

  (* M 1 = shift 1 : the constant vector is an eigenvector, with the smallest possible
     eigenvalue of (I-W)^T(I-W) + shift I over an ordered field; justifies skip = 1 *)
  Theorem lle_const_vector N k nbr (W : mat) shift :
    (forall i a, i < N -> a < k -> nbr i a < N) ->
    (forall i, i < N -> sumn k (W i) = 1) ->
    const_vector N (lle_M_spec N k nbr W shift) shift.
  Proof.
    intros Hn Hw r Hr. unfold mv, lle_M_spec.
    rewrite (sumn_ext N _ (fun c => mmul N (mtrans (IWm k nbr W)) (IWm k nbr W) r c
                                    + shift * delta r c)) by (intros; unfold IWm; ring).
    rewrite sumn_add, sumn_mul_l.
    rewrite (sumn_ext N (fun i => delta r i) (fun i => delta r i * 1)) by (intros; ring).
    rewrite (sumn_delta_l N r (fun _ => 1)) by assumption.
    unfold mmul, mtrans. rewrite sumn_swap.
    rewrite sumn_zero'; [ring|].
    intros i Hi. rewrite sumn_mul_l.
    assert (Hz : sumn N (fun c => IWm k nbr W i c) = 0).
    { unfold IWm, msub, mI. rewrite sumn_sub.
      rewrite lle_W_row_sum by (intros; apply Hn; assumption).
      rewrite Hw by assumption.
      rewrite (sumn_ext N (fun c => delta i c) (fun c => delta i c * 1)) by (intros; ring).
      rewrite (sumn_delta_l N i (fun _ => 1)) by assumption. ring. }
    change (sumn N (IWm k nbr W i)) with (sumn N (fun c => IWm k nbr W i c)).
    rewrite Hz. ring.
  Qed.

  (* the assembled matrix is symmetric *)
  Lemma lle_M_spec_sym N k nbr (W : mat) shift : msym N (lle_M_spec N k nbr W shift).
  Proof.
    intros r c _ _. unfold lle_M_spec. rewrite (delta_sym r c). f_equal.
    unfold mmul, mtrans. apply sumn_ext. intros; ring.
  Qed.

  (* the alignment cost of one vector is a sum of squares plus shift |y|^2: over an ordered field
     y^T M y >= shift y^T y, with equality for the constant vector (lle_const_vector): the constant
     vector minimises the unconstrained Rayleigh quotient *)
  Theorem lle_quadratic_form N k nbr (W : mat) shift (y : vec) :
    dot N y (mv N (lle_M_spec N k nbr W shift) y) =
    sumn N (fun i => mv N (IWm k nbr W) y i * mv N (IWm k nbr W) y i) + shift * dot N y y.
  Proof.
    unfold dot, mv, lle_M_spec. fold (IWm k nbr W).
    rewrite (sumn_ext N _ (fun r =>
       sumn N (fun i => (IWm k nbr W i r * y r) * sumn N (fun c => IWm k nbr W i c * y c))
       + shift * (y r * y r))).
    2:{ intros r Hr.
        rewrite (sumn_ext N _ (fun c => mmul N (mtrans (IWm k nbr W)) (IWm k nbr W) r c * y c
                                        + shift * (delta r c * y c))) by (intros; ring).
        rewrite sumn_add, sumn_mul_l, sumn_delta_l by assumption.
        replace (y r * (sumn N (fun c => mmul N (mtrans (IWm k nbr W)) (IWm k nbr W) r c * y c) + shift * y r))
          with (y r * sumn N (fun c => mmul N (mtrans (IWm k nbr W)) (IWm k nbr W) r c * y c)
                + shift * (y r * y r)) by ring.
        f_equal. unfold mmul, mtrans.
        rewrite (sumn_ext N _ (fun c => sumn N (fun i => IWm k nbr W i r * (IWm k nbr W i c * y c))))
          by (intros c _; rewrite <- sumn_mul_r; apply sumn_ext; intros; ring).
        rewrite sumn_swap, <- sumn_mul_l. apply sumn_ext. intros i _.
        rewrite sumn_mul_l. ring. }
    rewrite sumn_add, sumn_mul_l. f_equal.
    rewrite sumn_swap. apply sumn_ext. intros i _.
    rewrite sumn_mul_r. reflexivity.
  Qed.

  (* ---------------- the routine as a whole ---------------- *)
  Section WithSolver.
    Variable solve : nat -> mat -> vec -> option (list F).
    Hypothesis solve_ok : forall k A b xl, solve k A b = Some xl ->
                                           forall a, a < k -> mv k A (vof xl) a = b a.

    Lemma lle_all_weights_spec k kern ts nbr prev n Ws :
      lle_all_weights solve k kern ts nbr prev n = Ok Ws ->
      length Ws = n /\
      forall i, i < n ->
        lle_sample_weights solve k kern ts (nbr i) i (prev i) = Some (nth i Ws []).
    Proof.
      revert Ws. induction n as [|n IH]; intros Ws H; cbn [lle_all_weights] in H.
      - inversion H. split; [reflexivity|]. intros; lia.
      - destruct (lle_all_weights solve k kern ts nbr prev n) as [Ws'| |] eqn:E; try discriminate.
        destruct (lle_sample_weights solve k kern ts (nbr n) n (prev n)) as [w|] eqn:Ew;
          try discriminate.
        inversion H; subst Ws. destruct (IH Ws' eq_refl) as [Hl Hi].
        split; [rewrite app_length; cbn [length]; lia|].
        intros i Hlt. destruct (Nat.eq_dec i n) as [->|Hne].
        + rewrite app_nth2 by lia. rewrite Hl, Nat.sub_diag. exact Ew.
        + rewrite app_nth1 by lia. apply Hi. lia.
    Qed.

    Theorem lle_model_correct N k nbr (kern : mat) shift ts prev T :
      (forall i a b, i < N -> a < k -> b < k ->
                     kern (nbr i a) (nbr i b) = kern (nbr i b) (nbr i a)) ->
      lle_model solve N k nbr kern shift ts prev = Ok T ->
      exists W : mat,
        (forall r c, r < N -> c < N -> from_triplets T r c = lle_M_spec N k nbr W shift r c) /\
        (forall i, i < N -> exists x : vec,
            (forall a, a < k -> mv k (lle_C_reg k kern ts (nbr i) i) x a = 1) /\
            (forall a, a < k -> W i a = x a / sumn k x) /\
            (sumn k x <> 0 -> sumn k (W i) = 1)).
    Proof.
      intros Hsym H. unfold lle_model in H.
      destruct (lle_all_weights solve k kern ts nbr prev N) as [Ws| |] eqn:E; try discriminate.
      inversion H; subst T. exists (mof Ws). split.
      - intros r c Hr Hc. apply lle_matrix; [apply Permutation_refl|assumption|assumption].
      - intros i Hi. destruct (lle_all_weights_spec _ _ _ _ _ _ _ E) as [Hl Hw].
        specialize (Hw i Hi). unfold lle_sample_weights in Hw.
        destruct (solve k (read_upper (lle_gram k kern ts (nbr i) i (prev i))) ones) as [xl|] eqn:Es;
          try discriminate.
        inversion Hw as [Hw']. exists (vof xl).
        assert (HW : forall a, a < k -> mof Ws i a = vof xl a / sumn k (vof xl)).
        { intros a Ha. unfold mof. rewrite <- Hw'.
          change (nth a (vtab k (lle_normalize k (vof xl))) 0)
            with (vof (vtab k (lle_normalize k (vof xl))) a).
          rewrite vof_vtab by assumption. reflexivity. }
        split; [|split].
        + intros a Ha. pose proof (solve_ok _ _ _ _ Es a Ha) as Hs. unfold ones in Hs.
          rewrite <- Hs. unfold mv.
          apply sumn_ext. intros t Ht. rewrite lle_gram_seen; try assumption; [reflexivity|].
          intros a' b' Ha' Hb'. apply Hsym; assumption.
        + exact HW.
        + intros Hs. rewrite (sumn_ext k _ (lle_normalize k (vof xl))) by (intros; apply HW; assumption).
          apply lle_normalize_sum. assumption.
    Qed.
  End WithSolver.

  (* ---------------- the certifying solver ---------------- *)
  Section Solver.
    Variable feqb : F -> F -> bool.
    Hypothesis feqb_ok : forall x y, feqb x y = true -> x = y.

    Lemma solve_checked_sound k (A : mat) (b : vec) xl :
      solve_checked feqb k A b = Some xl ->
      forall a, a < k -> mv k A (vof xl) a = b a.
    Proof.
      unfold solve_checked. intros H a Ha.
      destruct (gauss feqb k (mtab k k A) (vtab k b)) as [x|]; try discriminate.
      destruct (Nat.eqb (length x) k &&
                forallb (fun i => feqb (mv k (mof (mtab k k A)) (vof x) i) (b i)) (seq 0 k))%bool eqn:E;
        try discriminate.
      inversion H; subst xl. apply andb_true_iff in E. destruct E as [_ E].
      rewrite forallb_forall in E. specialize (E a).
      assert (Hin : In a (seq 0 k)) by (apply in_seq; lia).
      apply E, feqb_ok in Hin. rewrite <- Hin. unfold mv. apply sumn_ext. intros t Ht.
      rewrite mof_mtab by assumption. reflexivity.
    Qed.
  End Solver.
End LleProof.
