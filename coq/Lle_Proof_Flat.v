(* ====================================================================== *)
(*  Lle_Proof_Flat.v — the local eigenproblem on EXACTLY FLAT data (C08,   *)
(*  last sentence of the property)                                         *)
(*  If the matrix the local eigensolver sees is a Gram matrix  B = Xc Xc^T *)
(*  of centred coordinates Xc (k x D) and all but the d selected           *)
(*  eigenvalues vanish (the neighbourhood lies in a d-flat), then the      *)
(*  projector V V^T onto the d selected eigenvectors reproduces Xc:        *)
(*        flat_projector   V V^T Xc = Xc                                   *)
(*  hence  (I - G G^T) x_t = 0  for every raw coordinate column x_t        *)
(*        ltsa_flat_local_kills                                            *)
(*  and with Lle_Proof_Embed.ltsa_affine_null every affine function of the *)
(*  coordinates is an eigenvector of the alignment matrix for its smallest *)
(*  eigenvalue.  The step  Z Z^T = 0 -> Z = 0  needs a formally real       *)
(*  field: the section takes -- a sum of squares vanishes only if every     *)
(*  term does -- as hypothesis; it is proved for Qc at the end.            *)
(* ====================================================================== *)
Require Import Field Ring Arith Lia List Bool.
From TK Require Import Mat_Sums Mat_Core Lle_Model Lle_Spec Lle_Proof_Triplets Lle_Proof_Lle
                       Lle_Proof_Ltsa Lle_Proof_Embed Lle_Proof_Hlle Lle_Proof_Gs Spectral_KyFan.
Import ListNotations.

Section Flat.
  Context {F : Type} {Fo : FieldOps F} {Ff : IsField F}.
  Add Field LleFlatField : (@Fth F Fo Ff).
  Local Open Scope F_scope.
  Local Notation vec := (Mat_Core.vec F).
  Local Notation mat := (Mat_Core.mat F).

  Hypothesis sos_zero : forall n (f : nat -> F),
      sumn n (fun t => f t * f t) = 0 -> forall t, t < n -> f t = 0.

  Definition proj_of (d : nat) (V : mat) : mat := fun a b => sumn d (fun c => V a c * V b c).

  Lemma right_cols_orthonormal k d (E : mat) :
    d <= k -> meq k k (mmul k (mtrans E) E) mI ->
    meq d d (mmul k (mtrans (right_cols k d E)) (right_cols k d E)) mI.
  Proof.
    intros Hd HE c c' Hc Hc'. unfold mmul, mtrans, right_cols.
    pose proof (HE (k - d + c)%nat (k - d + c')%nat ltac:(lia) ltac:(lia)) as H.
    unfold mmul, mtrans in H. rewrite H. unfold mI. apply delta_shift.
  Qed.

  (* B = V diag(lam') V^T when the other eigenvalues vanish *)
  Lemma spectral_low_rank k d (B E : mat) (lam : vec) i j :
    eig_contract k B E lam -> meq k k (mmul k E (mtrans E)) mI -> d <= k ->
    (forall t, t < k - d -> lam t = 0) -> i < k -> j < k ->
    B i j = sumn d (fun c => right_cols k d E i c * lam (k - d + c)%nat * right_cols k d E j c).
  Proof.
    intros [HEtE HBE] HEEt Hd Hz Hi Hj.
    rewrite (spectral_form k B E lam HEEt HBE i j Hi Hj). unfold eig_form.
    replace k with ((k - d) + d)%nat at 1 by lia. rewrite sumn_split.
    rewrite sumn_zero' by (intros t Ht; rewrite Hz by assumption; ring).
    unfold right_cols. ring.
  Qed.

  Theorem flat_projector k d D (B E Xc : mat) (lam : vec) a t :
    eig_contract k B E lam -> meq k k (mmul k E (mtrans E)) mI -> d <= k ->
    (forall j, j < k - d -> lam j = 0) ->
    meq k k B (mmul D Xc (mtrans Xc)) ->
    a < k -> t < D ->
    sumn k (fun b => proj_of d (right_cols k d E) a b * Xc b t) = Xc a t.
  Proof.
    intros HC HEEt Hd Hz HB Ha Ht.
    set (V := right_cols k d E).
    set (W := fun a b => delta a b - proj_of d V a b : F).
    pose proof (right_cols_orthonormal k d E Hd (proj1 HC)) as HVV. fold V in HVV.
    (* W B = 0 *)
    assert (HWB : forall a j, a < k -> j < k -> sumn k (fun b => W a b * B b j) = 0).
    { intros a0 j Ha0 Hj. unfold W.
      rewrite (sumn_ext k _ (fun b => delta a0 b * B b j - proj_of d V a0 b * B b j)) by (intros; ring).
      rewrite sumn_sub, sumn_delta_l by assumption.
      rewrite (sumn_ext k _ (fun b => sumn d (fun c => sumn d (fun c' =>
                 V a0 c * (V b c * V b c') * (lam (k - d + c')%nat * V j c'))))).
      2:{ intros b Hb. rewrite (spectral_low_rank k d B E lam b j HC HEEt Hd Hz Hb Hj). fold V.
          unfold proj_of. rewrite sumn_mul_sumn. apply sumn_ext. intros c _.
          apply sumn_ext. intros c' _. ring. }
      rewrite sumn_swap.
      rewrite (sumn_ext d _ (fun c => V a0 c * lam (k - d + c)%nat * V j c)).
      - rewrite (spectral_low_rank k d B E lam a0 j HC HEEt Hd Hz Ha0 Hj). fold V. ring.
      - intros c Hc. rewrite sumn_swap.
        rewrite (sumn_ext d _ (fun c' => delta c c' * (V a0 c * (lam (k - d + c')%nat * V j c')))).
        + rewrite (sumn_delta_l d c (fun c' => V a0 c * (lam (k - d + c')%nat * V j c'))) by assumption. ring.
        + intros c' Hc'.
          rewrite (sumn_ext k _ (fun b => (mtrans V c b * V b c') * (V a0 c * (lam (k - d + c')%nat * V j c'))))
            by (intros; unfold mtrans; ring).
          rewrite sumn_mul_r.
          pose proof (HVV c c' Hc Hc') as H. unfold mmul in H. rewrite H. unfold mI. reflexivity. }
    (* Z = W Xc has Z Z^T = W B W^T = 0 on the diagonal *)
    set (Z := fun a t => sumn k (fun b => W a b * Xc b t)).
    assert (HZ : sumn D (fun t => Z a t * Z a t) = 0).
    { unfold Z.
      rewrite (sumn_ext D _ (fun t => sumn k (fun b => sumn k (fun j => W a b * (Xc b t * Xc j t) * W a j)))).
      2:{ intros t0 _. rewrite sumn_mul_sumn. apply sumn_ext. intros b _. apply sumn_ext. intros j _. ring. }
      rewrite sumn_swap.
      rewrite (sumn_ext k _ (fun b => sumn k (fun j => W a b * B b j * W a j))).
      2:{ intros b Hb. rewrite sumn_swap. apply sumn_ext. intros j Hj.
          rewrite (HB b j Hb Hj). unfold mmul, mtrans.
          rewrite <- sumn_mul_l, <- sumn_mul_r. apply sumn_ext. intros; ring. }
      rewrite sumn_swap. apply sumn_zero'. intros j Hj.
      rewrite sumn_mul_r, HWB by assumption. ring. }
    pose proof (sos_zero D (Z a) HZ t Ht) as Hz0. unfold Z, W in Hz0.
    rewrite (sumn_ext k _ (fun b => delta a b * Xc b t - proj_of d V a b * Xc b t)) in Hz0 by (intros; ring).
    rewrite sumn_sub, sumn_delta_l in Hz0 by assumption.
    replace (Xc a t) with (Xc a t - 0) by ring. rewrite <- Hz0. ring.
  Qed.

  (* what KLTSA's local matrix does to the RAW coordinates of an exactly flat neighbourhood *)
  Theorem ltsa_flat_local_kills k d D rsk (B E Xc X : mat) (lam m : vec) a :
    of_nat k <> 0 -> rsk * rsk * of_nat k = 1 ->
    eig_contract k B E lam -> meq k k (mmul k E (mtrans E)) mI -> d <= k ->
    (forall j, j < k - d -> lam j = 0) ->
    (forall c, c < d -> lam (k - d + c)%nat <> 0) ->
    meq k k B (mmul D Xc (mtrans Xc)) ->
    (forall b s, b < k -> s < D -> Xc b s = X b s - m s) ->
    (forall s, s < D -> sumn k (fun b => Xc b s) = 0) ->
    a < k ->
    sumn k (fun b => msub mI (ltsa_P d rsk (right_cols k d E)) a b) = 0 /\
    (forall t, t < D ->
       sumn k (fun b => msub mI (ltsa_P d rsk (right_cols k d E)) a b * X b t) = 0).
  Proof.
    intros Hk Hr HC HEEt Hd Hz Hnz HB HXc Hcs Ha.
    set (V := right_cols k d E).
    (* tangent columns are orthogonal to 1 *)
    assert (HV1 : forall c, c < d -> sumn k (fun b => V b c) = 0).
    { intros c Hc. unfold V, right_cols.
      apply (eigvec_centred k B (mcol E (k - d + c)%nat) (lam (k - d + c)%nat)).
      - intros j Hj.
        rewrite (sumn_ext k _ (fun i => sumn D (fun s => Xc i s * Xc j s)))
          by (intros i Hi; rewrite (HB i j Hi Hj); reflexivity).
        rewrite sumn_swap. apply sumn_zero'. intros s Hs. rewrite sumn_mul_r, Hcs by assumption. ring.
      - intros i Hi. rewrite (eig_column k B E lam) by (try assumption; lia). unfold mcol. ring.
      - apply Hnz. assumption. }
    pose proof (ltsa_local_annihilates_one k d rsk V a Hr HV1 Ha) as H1.
    split; [exact H1|]. intros t Ht.
    pose proof (flat_projector k d D B E Xc lam a t HC HEEt Hd Hz HB Ha Ht) as HP. fold V in HP.
    (* (I - G G^T) X = (I - G G^T) (Xc + 1 m^T) = (I - G G^T) Xc *)
    rewrite (sumn_ext k _ (fun b => msub mI (ltsa_P d rsk V) a b * Xc b t
                                    + m t * msub mI (ltsa_P d rsk V) a b)).
    2:{ intros b Hb. rewrite (HXc b t Hb Ht). ring. }
    rewrite sumn_add, sumn_mul_l.
    replace (sumn k (msub mI (ltsa_P d rsk V) a)) with (0 : F) by (symmetry; exact H1).
    rewrite (sumn_ext k _ (fun b => delta a b * Xc b t - (rsk * rsk) * Xc b t - proj_of d V a b * Xc b t)).
    2:{ intros b _. unfold msub, mI. rewrite ltsa_P_entry. unfold proj_of. ring. }
    rewrite !sumn_sub, sumn_delta_l, sumn_mul_l, HP, Hcs by assumption. ring.
  Qed.
  (* the same for HLLE's local matrix H H^T (sqrt-free form): it annihilates 1 and the tangent
     coordinates (Lle_Proof_Gs), and on an exactly flat neighbourhood the tangent coordinates span
     the centred coordinates *)
  Theorem hlle_flat_local_kills k d D (B E Xc X prev : mat) (lam m : vec) a :
    eig_contract k B E lam -> meq k k (mmul k E (mtrans E)) mI -> d <= k ->
    (forall j, j < k - d -> lam j = 0) ->
    meq k k B (mmul D Xc (mtrans Xc)) ->
    (forall b s, b < k -> s < D -> Xc b s = X b s - m s) ->
    gs_nondegenerate (hlle_gs_sf false k d prev (right_cols k d E)) ->
    a < k ->
    sumn k (fun b => hlle_local_sf false k d prev (right_cols k d E) a b) = 0 /\
    (forall t, t < D ->
       sumn k (fun b => hlle_local_sf false k d prev (right_cols k d E) a b * X b t) = 0).
  Proof.
    intros HC HEEt Hd Hz HB HXc Hnd Ha.
    set (V := right_cols k d E) in *.
    destruct (hlle_local_annihilates k d prev V a Hnd Ha) as [H1 HV].
    split; [exact H1|]. intros t Ht.
    set (P := hlle_local_sf false k d prev V) in *.
    rewrite (sumn_ext k _ (fun b => P a b * Xc b t + m t * P a b)).
    2:{ intros b Hb. rewrite (HXc b t Hb Ht). ring. }
    rewrite sumn_add, sumn_mul_l.
    replace (sumn k (P a)) with (0 : F) by (symmetry; exact H1).
    rewrite (sumn_ext k _ (fun b => sumn d (fun c => (P a b * V b c) * sumn k (fun b' => V b' c * Xc b' t)))).
    2:{ intros b Hb.
        rewrite <- (flat_projector k d D B E Xc lam b t HC HEEt Hd Hz HB Hb Ht). fold V.
        unfold proj_of.
        rewrite (sumn_ext k _ (fun b' => sumn d (fun c => V b c * (V b' c * Xc b' t))))
          by (intros; rewrite <- sumn_mul_r; apply sumn_ext; intros; ring).
        rewrite sumn_swap, <- sumn_mul_l. apply sumn_ext. intros c _.
        rewrite sumn_mul_l. ring. }
    rewrite sumn_swap. rewrite sumn_zero'; [ring|].
    intros c Hc. rewrite sumn_mul_r. rewrite (HV c Hc). ring.
  Qed.
End Flat.

(* ---------------- Qc is formally real ---------------- *)
From Coq Require Import ZArith QArith Qcanon.
From TK Require Import Mat_Qc.
Close Scope Qc_scope.
Close Scope Q_scope.
Close Scope Z_scope.

Lemma Qc_sumsq_nonneg n (f : nat -> Qc) : Qcle (Q2Qc 0) (sumn n (fun t => (f t * f t)%F)).
Proof.
  induction n as [|n IH]; cbn [sumn]; [apply Qcle_refl|].
  replace (Q2Qc 0) with (Qcplus (Q2Qc 0) (Q2Qc 0)) by (apply Qc_is_canon; reflexivity).
  apply Qcplus_le_compat; [exact IH|apply Qc_sq_nonneg].
Qed.

Lemma Qc_sos_zero n (f : nat -> Qc) :
  sumn n (fun t => (f t * f t)%F) = 0%F -> forall t, t < n -> f t = 0%F.
Proof.
  induction n as [|n IH]; intros H t Ht; [lia|].
  cbn [sumn] in H.
  pose proof (Qc_sumsq_nonneg n f) as H1. pose proof (Qc_sq_nonneg (f n)) as H2.
  assert (Hs : sumn n (fun t => (f t * f t)%F) = 0%F /\ (f n * f n)%F = 0%F).
  { cbn [fadd fmul fzero QcOps] in *.
    set (A := sumn n (fun t => Qcmult (f t) (f t))) in *. set (Bq := Qcmult (f n) (f n)) in *.
    assert (HA : Qcle A (Q2Qc 0)).
    { rewrite <- H. rewrite <- (Qcplus_0_r A) at 1. apply Qcplus_le_compat; [apply Qcle_refl|exact H2]. }
    assert (HB : Qcle Bq (Q2Qc 0)).
    { rewrite <- H. rewrite <- (Qcplus_0_l Bq) at 1. apply Qcplus_le_compat; [exact H1|apply Qcle_refl]. }
    split; apply Qcle_antisym; assumption. }
  destruct Hs as [Hs1 Hs2].
  destruct (Nat.eq_dec t n) as [->|Hne].
  - cbn [fmul fzero QcOps] in Hs2. apply Qcmult_integral in Hs2. destruct Hs2; assumption.
  - apply IH; [assumption|lia].
Qed.

(* the last sentence of C08 for KLTSA, from the oracle contract of the local eigensolver:
   every neighbourhood exactly d-flat (all but the d selected local eigenvalues vanish, the selected
   ones do not; the local matrix is the Gram matrix of the centred coordinates)  ->  every affine
   function of the coordinates is an eigenvector of the alignment matrix for the eigenvalue shift *)
Theorem ltsa_affine_on_flat_Qc :
  forall (N k d D : nat) (nbr : nat -> nat -> nat) (rsk shift : Qc)
         (B E Xc : nat -> mat Qc) (lam m : nat -> vec Qc) (X : mat Qc) (y : vec Qc) (r : nat),
    k <> 0 -> (rsk * rsk * of_nat k)%F = 1%F -> d <= k ->
    (forall i a, i < N -> a < k -> nbr i a < N) ->
    (forall i, i < N ->
       eig_contract k (B i) (E i) (lam i) /\
       meq k k (mmul k (E i) (mtrans (E i))) mI /\
       (forall j, j < k - d -> lam i j = 0%F) /\
       (forall c, c < d -> lam i (k - d + c) <> 0%F) /\
       meq k k (B i) (mmul D (Xc i) (mtrans (Xc i))) /\
       (forall b s, b < k -> s < D -> Xc i b s = (X (nbr i b) s - m i s)%F) /\
       (forall s, s < D -> sumn k (fun b => Xc i b s) = 0%F)) ->
    affine_in N D X y -> r < N ->
    mv N (ltsa_M_spec N k nbr (fun i => ltsa_P d rsk (right_cols k d (E i))) shift) y r = (shift * y r)%F.
Proof.
  intros N k d D nbr rsk shift B E Xc lam m X y r Hk Hr Hd Hn Hloc Hy Hr'.
  apply (ltsa_affine_null N k D nbr _ shift X y r Hn); try assumption.
  - intros i a Hi Ha. destruct (Hloc i Hi) as [HC [HE [Hz [Hnz [HB [HX Hcs]]]]]].
    apply (proj1 (@ltsa_flat_local_kills Qc QcOps QcField Qc_sos_zero k d D rsk (B i) (E i) (Xc i)
                    (fun b s => X (nbr i b) s) (lam i) (m i) a
                    (Qc_of_nat_neq0 k Hk) Hr HC HE Hd Hz Hnz HB HX Hcs Ha)).
  - intros i t a Hi Ht Ha. destruct (Hloc i Hi) as [HC [HE [Hz [Hnz [HB [HX Hcs]]]]]].
    apply (proj2 (@ltsa_flat_local_kills Qc QcOps QcField Qc_sos_zero k d D rsk (B i) (E i) (Xc i)
                    (fun b s => X (nbr i b) s) (lam i) (m i) a
                    (Qc_of_nat_neq0 k Hk) Hr HC HE Hd Hz Hnz HB HX Hcs Ha) t Ht).
Qed.

Theorem hlle_affine_on_flat_Qc :
  forall (N k d D : nat) (nbr : nat -> nat -> nat)
         (B E Xc prev : nat -> mat Qc) (lam m : nat -> vec Qc) (X : mat Qc) (y : vec Qc) (r : nat),
    d <= k ->
    (forall i a, i < N -> a < k -> nbr i a < N) ->
    (forall i, i < N ->
       eig_contract k (B i) (E i) (lam i) /\
       meq k k (mmul k (E i) (mtrans (E i))) mI /\
       (forall j, j < k - d -> lam i j = 0%F) /\
       meq k k (B i) (mmul D (Xc i) (mtrans (Xc i))) /\
       (forall b s, b < k -> s < D -> Xc i b s = (X (nbr i b) s - m i s)%F) /\
       gs_nondegenerate (hlle_gs_sf false k d (prev i) (right_cols k d (E i)))) ->
    affine_in N D X y -> r < N ->
    mv N (hlle_M_spec N k nbr (fun i => hlle_local_sf false k d (prev i) (right_cols k d (E i)))) y r = 0%F.
Proof.
  intros N k d D nbr B E Xc prev lam m X y r Hd Hn Hloc Hy Hr'.
  apply (hlle_affine_null N k D nbr _ X y r Hn); try assumption.
  - intros i a Hi Ha. destruct (Hloc i Hi) as [HC [HE [Hz [HB [HX Hnd]]]]].
    apply (proj1 (@hlle_flat_local_kills Qc QcOps QcField Qc_sos_zero k d D (B i) (E i) (Xc i)
                    (fun b s => X (nbr i b) s) (prev i) (lam i) (m i) a HC HE Hd Hz HB HX Hnd Ha)).
  - intros i t a Hi Ht Ha. destruct (Hloc i Hi) as [HC [HE [Hz [HB [HX Hnd]]]]].
    apply (proj2 (@hlle_flat_local_kills Qc QcOps QcField Qc_sos_zero k d D (B i) (E i) (Xc i)
                    (fun b s => X (nbr i b) s) (prev i) (lam i) (m i) a HC HE Hd Hz HB HX Hnd Ha) t Ht).
Qed.

Definition flat_projector_Qc := @flat_projector Qc QcOps QcField Qc_sos_zero.
Definition ltsa_flat_local_kills_Qc := @ltsa_flat_local_kills Qc QcOps QcField Qc_sos_zero.
