(* ====================================================================== *)
(*  Mat_EigSelect_Tie.v — obligations over the GENERATED table             *)
(*  gen/EigSelect.v (translate/t_eig.py): every selection site of the      *)
(*  solver front-ends denotes the index set the properties name, and       *)
(*  stays inside its object, for ALL N, d, skip.                           *)
(*  The finite part (shape of each site) is decided by vm_compute over the *)
(*  table; the general part comes from Mat_EigSelect.                      *)
(*  The eigenvalue slice of the smallest-eigenvalue dense sites may have   *)
(*  either the shipped form `segment(skip, skip + target_dimension)`       *)
(*  (defect F7, a KNOWN FINDING that cannot be repaired because a unit     *)
(*  test pins the returned length) or the repaired form `segment(skip,     *)
(*  target_dimension)`; `eig_segment_table` proves, for whichever is       *)
(*  present, the refutation (with witness) or the in-range theorem.  Any   *)
(*  OTHER shape makes `eig_table_smallest_shapes` fail to compile.         *)
(* ====================================================================== *)
Require Import Arith Lia List Bool String.
From TK Require Import Mat_EigSelect EigSelect.
Import ListNotations.

Definition base_ok (b : basesize) : bool :=
  match b with BaseN => true | BaseExpr e => is_lin e (1, 1, 0) end.

Definition largest_ok_b (b : branch) : bool :=
  if b_largest b then
    shape_right (b_cols b) &&
    match b_base b with
    | BaseN => shape_right (b_vals b)
    | BaseExpr e => is_lin e (1, 1, 0) && shape_all (b_vals b)
    end
  else true.

Definition smallest_ok_b (b : branch) : bool :=
  if b_largest b then true
  else
    shape_left_right (b_cols b) &&
    match b_base b with
    | BaseN => shape_segment (b_vals b) || shape_segment_shipped (b_vals b)
    | BaseExpr e => is_lin e (1, 1, 0) && shape_all (b_vals b)
    end.

(* is the F7 form present at some dense smallest-eigenvalue site? *)
Definition f7_site (b : branch) : bool :=
  negb (b_largest b) && match b_base b with BaseN => shape_segment_shipped (b_vals b) | _ => false end.
Definition f7_present : bool := existsb f7_site eig_table.
Definition smallest_repaired_b (b : branch) : bool :=
  if b_largest b then true
  else match b_base b with BaseN => shape_segment (b_vals b) | _ => true end.

Definition is_site (fn : string) (largest : bool) (b : branch) : bool :=
  String.eqb (b_fn b) fn && Bool.eqb (b_largest b) largest.

(* ---------------- finite obligations (vm_compute over the table) ---------------- *)
Lemma eig_table_largest_shapes : forallb largest_ok_b eig_table = true.
Proof. vm_compute. reflexivity. Qed.

Lemma eig_table_sites_present :
  existsb (is_site "eigendecomposition_impl_dense" true) eig_table = true /\
  existsb (is_site "eigendecomposition_impl_randomized" true) eig_table = true /\
  existsb (is_site "eigendecomposition_impl_dense" false) eig_table = true /\
  existsb (is_site "generalized_eigendecomposition_impl_dense" false) eig_table = true.
Proof. vm_compute. repeat split. Qed.

Lemma skip_table_ok :
  skip_table = [("LargestEigenvalues", 0); ("SquaredLargestEigenvalues", 0);
                ("SmallestEigenvalues", 1)]%string.
Proof. vm_compute. reflexivity. Qed.

(* ---------------- general theorems ---------------- *)
(* every "largest" site: with skip = 0 and d <= N, eigenvectors and eigenvalues are the
   LAST d of the solver's (ascending) answer, same index set, inside the object *)
Theorem select_largest :
  forall b, In b eig_table -> b_largest b = true ->
  forall N d, d <= N ->
    let n := base_eval N d 0 (b_base b) in
    eval_ops d 0 n (b_cols b) = Some (n - d, d) /\
    eval_ops d 0 n (b_vals b) = Some (n - d, d) /\
    d <= n.
Proof.
  intros b Hb Hl N d Hd n.
  pose proof eig_table_largest_shapes as H. rewrite forallb_forall in H.
  specialize (H b Hb). unfold largest_ok_b in H. rewrite Hl in H.
  apply andb_true_iff in H. destruct H as [Hc Hv].
  unfold n. destruct (b_base b) as [|e]; cbn [base_eval].
  - repeat split; try assumption; apply sel_right_ok; assumption.
  - apply andb_true_iff in Hv. destruct Hv as [He Hv].
    apply (is_lin_eval d 0) in He.
    assert (En : ieval d 0 e = d) by lia. rewrite En.
    repeat split; try lia.
    + apply sel_right_ok; [assumption|lia].
    + rewrite (sel_all_ok d 0 d _ Hv). f_equal. f_equal. lia.
Qed.

(* --- smallest-eigenvalue sites (used by C08, C09, C10) --- *)
Lemma eig_table_smallest_shapes : forallb smallest_ok_b eig_table = true.
Proof. vm_compute. reflexivity. Qed.

(* eigenVECTORS: columns skip .. skip+d-1, inside the matrix, on every tree *)
Theorem select_smallest_cols :
  forall b, In b eig_table -> b_largest b = false -> b_base b = BaseN ->
  forall N d skip, d + skip <= N ->
    eval_ops d skip N (b_cols b) = Some (skip, d).
Proof.
  intros b Hb Hl HB N d skip Hd.
  pose proof eig_table_smallest_shapes as H. rewrite forallb_forall in H.
  specialize (H b Hb). unfold smallest_ok_b in H. rewrite Hl, HB in H.
  apply andb_true_iff in H. destruct H as [Hc Hv].
  apply sel_left_right_ok; assumption.
Qed.

(* eigenVALUES: the slice starts at skip; it has d entries (repaired) or d+skip entries and
   may leave the vector (shipped) *)
Theorem select_smallest_vals :
  forall b, In b eig_table -> b_largest b = false -> b_base b = BaseN ->
  forall N d skip, d + skip <= N ->
    eval_ops d skip N (b_vals b) = Some (skip, d) \/
    eval_ops d skip N (b_vals b) =
      (if Nat.leb (skip + (d + skip)) N then Some (skip, d + skip) else None).
Proof.
  intros b Hb Hl HB N d skip Hd.
  pose proof eig_table_smallest_shapes as H. rewrite forallb_forall in H.
  specialize (H b Hb). unfold smallest_ok_b in H. rewrite Hl, HB in H.
  apply andb_true_iff in H. destruct H as [Hc Hv].
  apply orb_true_iff in Hv. destruct Hv as [Hv|Hv].
  - left. apply sel_segment_ok; assumption.
  - right. apply sel_segment_shipped_view; assumption.
Qed.

Lemma f7_site_refuted b :
  f7_site b = true ->
  exists N d skip, d + skip <= N /\ 1 <= d /\ eval_ops d skip N (b_vals b) = None.
Proof.
  unfold f7_site. intros H. apply andb_true_iff in H. destruct H as [_ H].
  destruct (b_base b); [|discriminate].
  exists 5, 4, 1. split; [lia|]. split; [lia|].
  rewrite (sel_segment_shipped_view 4 1 5 _ H). reflexivity.
Qed.

(* Whichever form the tree being checked has:
   LEFT  (shipped, F7): some dense smallest-eigenvalue site reads OUTSIDE the eigenvalue
         vector for some N >= d + skip  (witness N = 5, d = 4, skip = 1);
   RIGHT (repaired): every such site returns exactly entries skip .. skip+d-1, in range. *)
Theorem eig_segment_table :
  (f7_present = true /\
   exists b, In b eig_table /\ b_largest b = false /\
     exists N d skip, d + skip <= N /\ 1 <= d /\ eval_ops d skip N (b_vals b) = None)
  \/
  (f7_present = false /\
   forall b, In b eig_table -> b_largest b = false -> b_base b = BaseN ->
   forall N d skip, d + skip <= N -> eval_ops d skip N (b_vals b) = Some (skip, d)).
Proof.
  destruct f7_present eqn:E.
  - left. split; [reflexivity|]. unfold f7_present in E.
    apply existsb_exists in E. destruct E as [b [Hb Hf]].
    exists b. split; [assumption|]. split.
    + unfold f7_site in Hf. apply andb_true_iff in Hf. destruct Hf as [Hf _].
      destruct (b_largest b); [discriminate|reflexivity].
    + apply f7_site_refuted. assumption.
  - right. split; [reflexivity|].
    intros b Hb Hl HB N d skip Hd.
    pose proof eig_table_smallest_shapes as K. rewrite forallb_forall in K.
    specialize (K b Hb). unfold smallest_ok_b in K. rewrite Hl, HB in K.
    apply andb_true_iff in K. destruct K as [_ Kv].
    apply orb_true_iff in Kv. destruct Kv as [Kv|Kv].
    + apply sel_segment_ok; assumption.
    + exfalso.
      assert (Ef : f7_present = true).
      { unfold f7_present. apply existsb_exists. exists b. split; [assumption|].
        unfold f7_site. rewrite Hl, HB. cbn [negb andb]. exact Kv. }
      rewrite Ef in E. discriminate.
Qed.

(* randomized "smallest" site: eigenvectors skip .. skip+d-1 of the d+skip computed ones *)
Theorem select_smallest_randomized_cols :
  forall b, In b eig_table -> b_largest b = false ->
  forall e, b_base b = BaseExpr e ->
  forall N d skip,
    eval_ops d skip (base_eval N d skip (b_base b)) (b_cols b) = Some (skip, d).
Proof.
  intros b Hb Hl e HB N d skip.
  pose proof eig_table_smallest_shapes as H. rewrite forallb_forall in H.
  specialize (H b Hb). unfold smallest_ok_b in H. rewrite Hl, HB in H.
  apply andb_true_iff in H. destruct H as [Hc Hv].
  apply andb_true_iff in Hv. destruct Hv as [He _].
  rewrite HB. cbn [base_eval]. apply (is_lin_eval d skip) in He.
  apply sel_left_right_ok; [assumption|lia].
Qed.
