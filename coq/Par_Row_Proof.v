(* Par_Row_Proof.v — property C15: triangulate under EVERY schedule, for every N, L, d: no race, and row i of the
   embedding is h(i, ., scratch) with scratch = [g(i,0) .. g(i,L-1)] computed through the thread-private,
   re-initialised distances_to_landmarks (rows of landmarks / skipped samples keep their initial value). *)
From Coq Require Import ZArith List String Bool Lia Arith.
Import ListNotations.
From TK Require Import Par_Model Par_Spec Par_Proof Par_Region_Model Par_Region_Proof Par_Fill_Model Par_Fill_Proof.
From TK Require Import Par_Row_Model.

Lemma row_accs_ok : forall var, check_shared (row_accs var) = true.
Proof.
  intros var. unfold check_shared, row_accs, access_ok, same_var. cbn.
  rewrite String.eqb_refl. reflexivity.
Qed.

Section RowProof.
  Variable V C : Type.
  Variable evar svar : string.
  Variable g : nat -> nat -> V.
  Variable h : nat -> nat -> list V -> V.
  Variable skip : nat -> bool.
  Notation wr_scratch := (wr_scratch V C svar g).
  Notation rd_scratch := (rd_scratch V C svar).
  Notation wr_row := (wr_row V C evar h).
  Notation tri_body := (tri_body V C evar svar g h skip).
  Notation run := (run key_eqb).
  Notation skey l := (mkey svar l 0).

  Lemma Wd_row : forall i c, Wd (row_accs evar) i (mkey evar i c).
  Proof.
    intros i c. exists (mkAcc evar true false AElem (XIt 0) XAny).
    split; [left; reflexivity|]. cbn. repeat split; auto; cbn; lia.
  Qed.

  (* ---- footprint *)
  Lemma within_wr_scratch : forall (R W : key -> Prop) i ls k,
    within R W k -> within R W (wr_scratch i ls k).
  Proof. intros R W i ls k H. induction ls as [|l ls IH]; cbn; auto. Qed.

  Lemma within_rd_scratch : forall (R W : key -> Prop) ls acc k,
    (forall vals, within R W (k vals)) -> within R W (rd_scratch ls acc k).
  Proof. intros R W ls. induction ls as [|l ls IH]; intros acc k H; cbn; auto. Qed.

  Lemma within_wr_row : forall (R W : key -> Prop) i cs vals,
    (forall c, In c cs -> W (mkey evar i c)) -> within R W (wr_row i cs vals).
  Proof.
    intros R W i cs vals. induction cs as [|c cs IH]; intros H; cbn; [exact I|].
    split; [apply H; left; reflexivity|apply IH; intros c' Hc'; apply H; right; exact Hc'].
  Qed.

  Lemma tri_body_within : forall L d i,
    within (Ad (row_accs evar) i) (Wd (row_accs evar) i) (tri_body L d i).
  Proof.
    intros L d i. unfold Par_Row_Model.tri_body. destruct (skip i); [exact I|].
    apply within_wr_scratch, within_rd_scratch. intros vals. apply within_wr_row.
    intros c _. apply Wd_row.
  Qed.

  (* ---- private re-initialisation *)
  Lemma reinit_wr_scratch : forall i ls (k : prog key V C) (P : key -> Prop),
    reinit (fun y => (exists l, In l ls /\ y = skey l) \/ P y) k -> reinit P (wr_scratch i ls k).
  Proof.
    intros i ls. induction ls as [|l ls IH]; intros k P H; cbn.
    - eapply reinit_mono; [|exact H]. intros x [(l & [] & _)|Hx]; exact Hx.
    - apply IH. eapply reinit_mono; [|exact H].
      intros x [(l' & [<-|Hl'] & ->)|Hx]; [right; left; reflexivity|left; exists l'; auto|right; right; exact Hx].
  Qed.

  Lemma reinit_rd_scratch : forall ls acc (k : list V -> prog key V C) (P : key -> Prop),
    (forall l, In l ls -> P (skey l)) -> (forall vals, reinit P (k vals)) ->
    reinit P (rd_scratch ls acc k).
  Proof.
    intros ls. induction ls as [|l ls IH]; intros acc k P Hl Hk; cbn; [apply Hk|].
    split; [apply Hl; left; reflexivity|]. intros v. apply IH; [|exact Hk].
    intros l' Hl'. apply Hl. right. exact Hl'.
  Qed.

  Lemma reinit_wr_row : forall i cs vals (P : key -> Prop), reinit P (wr_row i cs vals).
  Proof. intros i cs vals P. induction cs as [|c cs IH]; cbn; auto. Qed.

  Lemma tri_body_reinit : forall L d i, reinit (fun _ => False) (tri_body L d i).
  Proof.
    intros L d i. unfold Par_Row_Model.tri_body. destruct (skip i); [exact I|].
    apply reinit_wr_scratch. apply reinit_rd_scratch.
    - intros l Hl. left. exists l. auto.
    - intros vals. apply reinit_wr_row.
  Qed.

  (* ---- what the body computes when run alone *)
  Lemma skey_inj : forall l l', skey l = skey l' -> l = l'.
  Proof. intros l l' H. apply mkey_inj in H. tauto. Qed.

  Lemma run_wr_scratch : forall t i it ls (k : prog key V C) (st : state key V C),
    exists st', run t it (wr_scratch i ls k) st = run t it k st' /\
      sh st' = sh st /\ clog st' = clog st /\
      (forall l, In l ls -> pr st' t (skey l) = g i l) /\
      (forall y, (forall l, In l ls -> y <> skey l) -> pr st' t y = pr st t y).
  Proof.
    intros t i it ls. induction ls as [|l ls IH]; intros k st; cbn.
    - exists st. repeat split; auto. intros l [].
    - destruct (IH k (wr key_eqb t (Pr (skey l)) (g i l) st)) as (st' & Hrun & Hsh & Hlog & Hpr & Hoth).
      exists st'. split; [exact Hrun|]. split; [rewrite Hsh; reflexivity|]. split; [rewrite Hlog; reflexivity|].
      split.
      + intros l' [<-|Hl']; [|apply Hpr; exact Hl'].
        destruct (in_dec Nat.eq_dec l ls) as [Hin|Hnin]; [apply Hpr; exact Hin|].
        rewrite Hoth.
        * cbn. unfold updp. rewrite Nat.eqb_refl. unfold upd.
          rewrite (proj2 (key_eqb_spec _ _) eq_refl). reflexivity.
        * intros l' Hl' E. apply skey_inj in E. subst. contradiction.
      + intros y Hy. rewrite Hoth by (intros l' Hl'; apply Hy; right; exact Hl').
        cbn. unfold updp. rewrite Nat.eqb_refl. unfold upd.
        destruct (key_eqb (skey l) y) eqn:E; [|reflexivity].
        apply key_eqb_spec in E. exfalso. apply (Hy l (or_introl eq_refl)). symmetry. exact E.
  Qed.

  Lemma run_rd_scratch : forall t i it ls acc (k : list V -> prog key V C) (st : state key V C),
    (forall l, In l ls -> pr st t (skey l) = g i l) ->
    run t it (rd_scratch ls acc k) st = run t it (k (rev acc ++ map (g i) ls)) st.
  Proof.
    intros t i it ls. induction ls as [|l ls IH]; intros acc k st H; cbn.
    - rewrite app_nil_r. reflexivity.
    - rewrite (H l (or_introl eq_refl)). rewrite IH by (intros l' Hl'; apply H; right; exact Hl').
      cbn. rewrite <- app_assoc. reflexivity.
  Qed.

  Lemma run_wr_row_other : forall t it i cs vals (st : state key V C) x,
    (forall c, In c cs -> x <> mkey evar i c) -> sh (run t it (wr_row i cs vals) st) x = sh st x.
  Proof.
    intros t it i cs vals. induction cs as [|c cs IH]; intros st x H; cbn; [reflexivity|].
    rewrite IH by (intros c' Hc'; apply H; right; exact Hc'). cbn. unfold upd.
    destruct (key_eqb (mkey evar i c) x) eqn:E; [|reflexivity].
    apply key_eqb_spec in E. exfalso. apply (H c (or_introl eq_refl)). symmetry. exact E.
  Qed.

  Lemma run_wr_row_hit : forall t it i cs vals (st : state key V C) c,
    In c cs -> sh (run t it (wr_row i cs vals) st) (mkey evar i c) = h i c vals.
  Proof.
    intros t it i cs vals. induction cs as [|c0 cs IH]; intros st c Hin; [destruct Hin|].
    cbn [Par_Row_Model.wr_row Par_Model.run].
    destruct (in_dec Nat.eq_dec c cs) as [Hc|Hc]; [apply IH; exact Hc|].
    destruct Hin as [->|Hin]; [|contradiction].
    rewrite run_wr_row_other.
    - cbn. unfold upd. rewrite (proj2 (key_eqb_spec _ _) eq_refl). reflexivity.
    - intros c' Hc' E. apply mkey_inj in E. destruct E as [_ E]. subst. contradiction.
  Qed.

  Lemma run_tri_body : forall t L d i (st : state key V C) c, skip i = false -> c < d ->
    sh (run t i (tri_body L d i) st) (mkey evar i c) = h i c (map (g i) (seq 0 L)).
  Proof.
    intros t L d i st c Hs Hc. unfold Par_Row_Model.tri_body. rewrite Hs.
    destruct (run_wr_scratch t i i (seq 0 L)
                (rd_scratch (seq 0 L) [] (fun vals => wr_row i (seq 0 d) vals)) st)
      as (st' & Hrun & _ & _ & Hpr & _).
    rewrite Hrun, (run_rd_scratch t i i (seq 0 L) [] _ st' Hpr). cbn [rev app].
    apply run_wr_row_hit. apply in_seq. lia.
  Qed.

  (* THE theorem: every schedule of every assignment, every N, L, d *)
  Theorem triangulate_all_schedules : forall N L d asg (m0 : key -> V) p0 sch qs st,
    valid_asg N asg ->
    run_sched key_eqb sch (init_queues (tri_body L d) asg, mkState m0 p0 []) = (qs, st) ->
    ~ race qs /\
    (done qs -> forall i c, i < N -> c < d ->
       sh st (mkey evar i c) = if skip i then m0 (mkey evar i c) else h i c (map (g i) (seq 0 L))).
  Proof.
    intros N L d asg m0 p0 sch qs st Hasg Hrun.
    pose proof (region_fp_disjoint (row_accs evar) (row_accs_ok evar) N) as Hd.
    destruct (bernstein key key_eqb key_eqb_spec V C N (tri_body L d) (Ad (row_accs evar)) (Wd (row_accs evar))
                Hd (fun i _ => tri_body_within L d i) (fun i _ => tri_body_reinit L d i)
                m0 p0 asg p0 sch qs st Hasg Hrun) as [Hnr Hfin].
    split; [exact Hnr|]. intros Hdone i c Hi Hc.
    destruct (Hfin Hdone) as (Hown & _).
    rewrite (Hown i (mkey evar i c) Hi (Wd_row i c)). unfold Final.
    destruct (skip i) eqn:Hs.
    - unfold Par_Row_Model.tri_body. rewrite Hs. reflexivity.
    - apply run_tri_body; assumption.
  Qed.
End RowProof.
