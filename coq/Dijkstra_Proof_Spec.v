(* Dijkstra_Proof_Spec.v — the executable specification sp_row (Bellman-Ford) is the
   minimum walk weight:  sp_char.
   Soundness (every finite entry is a walk weight) and completeness for walks of at
   most `rounds` edges are proved directly.  That walks of at most N edges suffice
   (`short_walks`) is obtained from the run of the priority-queue Dijkstra model,
   whose invariant counts edges against settled vertices — the algorithm is used as
   a proof device only; sp_row shares no code with it. *)
From Coq Require Import List ZArith Bool Arith Lia.
From TK Require Import Dijkstra_Model Dijkstra_Spec Dijkstra_Proof_Base Dijkstra_Proof_Core
     Dijkstra_Proof_PQ.
Import ListNotations.
Local Open Scope Z_scope.

Lemma set_nth_upd : forall l i x, set_nth l i x = upd l i x.
Proof. induction l as [|h t IH]; intros [|i] x; cbn; auto. f_equal. apply IH. Qed.

(* a <= b pointwise, None = +infinity *)
Definition rle (a b : list (option Z)) : Prop :=
  forall v d, nth v b None = Some d -> exists d', nth v a None = Some d' /\ d' <= d.

Lemma rle_refl : forall a, rle a a.
Proof. intros a v d H. exists d. split; [assumption|lia]. Qed.

Lemma rle_trans : forall a b c, rle a b -> rle b c -> rle a c.
Proof.
  intros a b c Hab Hbc v d H. destruct (Hbc v d H) as (d1 & H1 & L1).
  destruct (Hab v d1 H1) as (d2 & H2 & L2). exists d2. split; [assumption|lia].
Qed.

Section BF.
  Variable nbrs : list (list nat).
  Variable w : nat -> nat -> Z.
  Variables N K : nat.
  Variable k : nat.
  Hypothesis Hwf : wf_graph nbrs N K.
  Hypothesis Hnn : nonneg_w nbrs w.
  Hypothesis Hk : (k < N)%nat.

  Definition bsound (row : list (option Z)) : Prop :=
    length row = N /\ forall v d, nth v row None = Some d -> path nbrs w k v d.

  Lemma relax_edge_len : forall u v row, length (relax_edge w u row v) = length row.
  Proof.
    intros u v row. unfold relax_edge.
    destruct (nth u row None); [|reflexivity].
    destruct (nth v row None).
    - destruct (Z.ltb _ _); [rewrite set_nth_upd; apply upd_length | reflexivity].
    - rewrite set_nth_upd; apply upd_length.
  Qed.

  Lemma relax_edge_rle : forall u v row, rle (relax_edge w u row v) row.
  Proof.
    intros u v row x d Hx. unfold relax_edge.
    destruct (nth u row None) as [du|] eqn:Eu; [|exists d; split; [assumption|lia]].
    destruct (nth v row None) as [dv|] eqn:Ev.
    - destruct (Z.ltb (du + w u v) dv) eqn:E; [|exists d; split; [assumption|lia]].
      apply Z.ltb_lt in E. rewrite set_nth_upd. destruct (Nat.eq_dec v x) as [<-|Hne].
      + assert (Hv : (v < length row)%nat).
        { destruct (Nat.lt_ge_cases v (length row)); [assumption|].
          rewrite nth_overflow in Ev by lia. discriminate. }
        rewrite nth_upd_eq by assumption. exists (du + w u v). split; [reflexivity|].
        rewrite Ev in Hx. inversion Hx; subst. lia.
      + rewrite nth_upd_neq by assumption. exists d. split; [assumption|lia].
    - rewrite set_nth_upd. destruct (Nat.eq_dec v x) as [<-|Hne]; [congruence|].
      rewrite nth_upd_neq by assumption. exists d. split; [assumption|lia].
  Qed.

  Lemma relax_edge_target : forall u v row du, (v < length row)%nat ->
      nth u row None = Some du ->
      exists dv, nth v (relax_edge w u row v) None = Some dv /\ dv <= du + w u v.
  Proof.
    intros u v row du Hv Hu. unfold relax_edge. rewrite Hu.
    destruct (nth v row None) as [dv|] eqn:Ev.
    - destruct (Z.ltb (du + w u v) dv) eqn:E.
      + rewrite set_nth_upd, nth_upd_eq by assumption. exists (du + w u v). split; [reflexivity|lia].
      + apply Z.ltb_ge in E. exists dv. split; [assumption|lia].
    - rewrite set_nth_upd, nth_upd_eq by assumption. exists (du + w u v). split; [reflexivity|lia].
  Qed.

  Lemma relax_edge_sound : forall u v row, edge nbrs u v -> bsound row ->
      bsound (relax_edge w u row v).
  Proof.
    intros u v row He [HL HS]. split; [rewrite relax_edge_len; assumption|].
    intros x d Hx. unfold relax_edge in Hx.
    destruct (nth u row None) as [du|] eqn:Eu; [|apply HS; assumption].
    assert (Hnew : path nbrs w k v (du + w u v)).
    { destruct (HS u du Eu) as [n HP]. exists (S n). constructor; assumption. }
    destruct (edge_lt nbrs N K Hwf u v He) as [_ HvN].
    destruct (nth v row None) as [dv|] eqn:Ev.
    - destruct (Z.ltb (du + w u v) dv) eqn:E; [|apply HS; assumption].
      rewrite set_nth_upd in Hx. destruct (Nat.eq_dec v x) as [<-|Hne].
      + rewrite nth_upd_eq in Hx by lia. inversion Hx; subst. assumption.
      + rewrite nth_upd_neq in Hx by assumption. apply HS; assumption.
    - rewrite set_nth_upd in Hx. destruct (Nat.eq_dec v x) as [<-|Hne].
      + rewrite nth_upd_eq in Hx by lia. inversion Hx; subst. assumption.
      + rewrite nth_upd_neq in Hx by assumption. apply HS; assumption.
  Qed.

  Lemma fold_relax : forall es row,
      (forall e, In e es -> edge nbrs (fst e) (snd e)) -> bsound row ->
      let r := fold_left (fun r e => relax_edge w (fst e) r (snd e)) es row in
      bsound r /\ rle r row /\
      forall u v du, In (u, v) es -> nth u row None = Some du ->
                     exists dv, nth v r None = Some dv /\ dv <= du + w u v.
  Proof.
    induction es as [|e es IH]; intros row Hed Hs; cbn [fold_left].
    - split; [assumption|]. split; [apply rle_refl|]. intros u v du [].
    - set (row1 := relax_edge w (fst e) row (snd e)).
      assert (He : edge nbrs (fst e) (snd e)) by (apply Hed; left; reflexivity).
      assert (Hs1 : bsound row1) by (apply relax_edge_sound; assumption).
      assert (Hle1 : rle row1 row) by (apply relax_edge_rle).
      destruct (IH row1 (fun e' H => Hed e' (or_intror H)) Hs1) as (A & B & C).
      split; [assumption|]. split; [eapply rle_trans; eauto|].
      intros u v du [Heq|Hin] Hu.
      + subst e. cbn [fst snd] in *.
        destruct (edge_lt nbrs N K Hwf u v He) as [_ HvN]. destruct Hs as [HL _].
        destruct (relax_edge_target u v row du ltac:(lia) Hu) as (dv & Hdv & Hle).
        destruct (B v dv Hdv) as (dv' & Hdv' & Hle'). exists dv'. split; [assumption|lia].
      + destruct (Hle1 u du Hu) as (du1 & Hu1 & Hl1).
        destruct (C u v du1 Hin Hu1) as (dv & Hdv & Hle). exists dv. split; [assumption|lia].
  Qed.

  Lemma all_edges_in : forall u v, In (u, v) (all_edges nbrs N) <-> edge nbrs u v.
  Proof.
    intros u v. unfold all_edges. rewrite in_flat_map. split.
    - intros (u' & Hu' & Hin). apply in_map_iff in Hin. destruct Hin as (v' & Heq & Hv').
      inversion Heq; subst u' v'. apply in_seq in Hu'. destruct Hwf as [HL _].
      exists (nth u nbrs []). split; [|assumption]. apply nth_error_nth_some. lia.
    - intros He. destruct (edge_lt nbrs N K Hwf u v He) as [HuN _].
      destruct He as (row & Hrow & Hv). exists u. split; [apply in_seq; lia|].
      apply in_map_iff. exists v. split; [reflexivity|].
      erewrite nth_error_nth; eauto.
  Qed.

  Lemma bf_round_spec : forall row, bsound row ->
      bsound (bf_round nbrs w N row) /\ rle (bf_round nbrs w N row) row /\
      forall u v du, edge nbrs u v -> nth u row None = Some du ->
                     exists dv, nth v (bf_round nbrs w N row) None = Some dv /\ dv <= du + w u v.
  Proof.
    intros row Hs. unfold bf_round.
    destruct (fold_relax (all_edges nbrs N) row) as (A & B & C); [|assumption|].
    - intros [u v] Hin. apply all_edges_in. assumption.
    - split; [assumption|]. split; [assumption|].
      intros u v du He Hu. apply C; [apply all_edges_in; assumption | assumption].
  Qed.

  Lemma bf_iter_S : forall r row,
      bf_iter nbrs w N (S r) row = bf_round nbrs w N (bf_iter nbrs w N r row).
  Proof.
    induction r as [|r IH]; intros row; [reflexivity|].
    change (bf_iter nbrs w N (S (S r)) row) with (bf_iter nbrs w N (S r) (bf_round nbrs w N row)).
    rewrite IH. reflexivity.
  Qed.

  Definition row0 : list (option Z) := set_nth (repeat None N) k (Some 0).

  Lemma row0_sound : bsound row0.
  Proof.
    unfold row0. rewrite set_nth_upd. split; [rewrite upd_length; apply repeat_length|].
    intros v d Hv. destruct (Nat.eq_dec k v) as [<-|Hne].
    - rewrite nth_upd_eq in Hv by (rewrite repeat_length; assumption). inversion Hv; subst.
      exists 0%nat. constructor.
    - rewrite nth_upd_neq in Hv by assumption. rewrite nth_repeat_any in Hv. discriminate.
  Qed.

  Lemma bf_iter_sound : forall r,
      bsound (bf_iter nbrs w N r row0) /\ rle (bf_iter nbrs w N r row0) row0.
  Proof.
    induction r as [|r [IH1 IH2]].
    - split; [apply row0_sound | apply rle_refl].
    - rewrite bf_iter_S. destruct (bf_round_spec _ IH1) as (A & B & _).
      split; [assumption | eapply rle_trans; eauto].
  Qed.

  Lemma bf_iter_complete : forall v W n, pathn nbrs w k v W n ->
      forall r, (n <= r)%nat ->
                exists d, nth v (bf_iter nbrs w N r row0) None = Some d /\ d <= W.
  Proof.
    intros v W n HP; induction HP as [|u v W n HP IH He]; intros r Hr.
    - destruct (bf_iter_sound r) as [_ Hle]. apply Hle.
      unfold row0. rewrite set_nth_upd. apply nth_upd_eq. rewrite repeat_length. assumption.
    - destruct r as [|r]; [lia|]. destruct (IH r ltac:(lia)) as (du & Hdu & Hle).
      rewrite bf_iter_S. destruct (bf_iter_sound r) as [Hs _].
      destruct (bf_round_spec _ Hs) as (_ & _ & C).
      destruct (C u v du He Hdu) as (dv & Hdv & Hle2). exists dv. split; [assumption|lia].
  Qed.

  (* walks with at most N edges suffice (from the Dijkstra run) *)
  Lemma short_walks : forall v W, (v < N)%nat -> path nbrs w k v W ->
      exists W' n, W' <= W /\ (n <= N)%nat /\ pathn nbrs w k v W' n.
  Proof.
    intros v W Hv HP.
    destruct (row_pq_is_sp nbrs w pick_first_min N K k Hwf Hnn pick_first_min_ok Hk k Hk)
      as (row & _ & _ & Hrow).
    destruct (Hrow v Hv) as [Hsp Hshort].
    destruct (nth v row None) as [d|] eqn:Ed; cbn in Hsp.
    - destruct Hsp as [_ Hmin]. destruct (Hshort d eq_refl) as (n & HPn & Hn).
      exists d, n. split; [apply Hmin; assumption|]. split; assumption.
    - exfalso. eapply Hsp; eauto.
  Qed.

  Theorem sp_char : forall v, (v < N)%nat -> is_sp nbrs w k v (sp nbrs w N k v).
  Proof.
    intros v Hv. unfold sp, sp_row. fold row0.
    destruct (bf_iter_sound N) as [[_ Hsound] _].
    destruct (nth v (bf_iter nbrs w N N row0) None) as [d|] eqn:Ed; cbn.
    - split; [apply Hsound; assumption|].
      intros W HP. destruct (short_walks v W Hv HP) as (W' & n & HW & Hn & HPn).
      destruct (bf_iter_complete v W' n HPn N Hn) as (d' & Hd' & Hle).
      rewrite Ed in Hd'. inversion Hd'; subst. lia.
    - intros W HP. destruct (short_walks v W Hv HP) as (W' & n & HW & Hn & HPn).
      destruct (bf_iter_complete v W' n HPn N Hn) as (d' & Hd' & _). congruence.
  Qed.

  Lemma sp_row_length : length (sp_row nbrs w N k) = N.
  Proof. unfold sp_row. fold row0. apply (bf_iter_sound N). Qed.
End BF.
