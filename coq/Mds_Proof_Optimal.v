(* ====================================================================== *)
(*  Mds_Proof_Optimal.v — C05: the Eckart-Young bridge, over any ordered   *)
(*  field (no square roots needed).                                        *)
(*                                                                         *)
(*  B symmetric positive semi-definite with a FULL orthonormal ascending   *)
(*  eigendecomposition (V^T V = V V^T = I, B V = V diag lam, 0 <= lam).    *)
(*  For EVERY n x d matrix Q with orthonormal columns and EVERY d x d      *)
(*  matrix C (so Q C Q^T ranges over the matrices of rank <= d whose range *)
(*  has an orthonormal basis; over the reals: all of them):                *)
(*      |B - Q C Q^T|_F^2  >=  sum of the n-d smallest lam^2              *)
(*  (eckart_young_frames), and the matrix Y Y^T built by the methods       *)
(*  (Y = V[:, n-d..] diag s, s^2 = lam) attains the bound                  *)
(*  (mds_attains_bound).  Uses Ky Fan's inequality (Spectral_KyFan.v)      *)
(*  for B^2.                                                               *)
(* ====================================================================== *)
Require Import Field Ring Arith Lia List Bool.
From TK Require Import Mat_Sums Mat_Core Spectral_KyFan Mds_Model Mds_Spec Mds_Proof.

Section Optimal.
  Context {F : Type} {Fo : FieldOps F} {Ff : IsField F} {Fle : OrderedField F}.
  Add Field MdsOptimalField : (@Fth F Fo Ff).
  Local Open Scope nat_scope.
  Local Open Scope F_scope.
  Notation "x <== y" := (fle x y) (at level 70, no associativity).

  Definition fro2 (n m : nat) (A : mat F) : F :=
    sumn n (fun i => sumn m (fun j => A i j * A i j)).
  Definition inner (n m : nat) (A B : mat F) : F :=
    sumn n (fun i => sumn m (fun j => A i j * B i j)).
  (* Q C Q^T, entrywise *)
  Definition lowrank (d : nat) (Q C : mat F) : mat F :=
    fun i j => sumn d (fun a => sumn d (fun b => Q i a * C a b * Q j b)).
  (* Q^T B Q, entrywise *)
  Definition compress (n : nat) (Q B : mat F) : mat F :=
    fun a b => sumn n (fun i => sumn n (fun j => Q i a * B i j * Q j b)).

  (* ---------------- order helpers ---------------- *)
  Lemma sumn_le n (f g : nat -> F) :
    (forall i, (i < n)%nat -> f i <== g i) -> sumn n f <== sumn n g.
  Proof.
    intros H. apply fle_of_sub_nonneg. rewrite <- sumn_sub. apply sumn_nonneg.
    intros i Hi. apply fle_sub_nonneg. apply H. assumption.
  Qed.

  Lemma fro2_nonneg n m A : 0 <== fro2 n m A.
  Proof.
    unfold fro2. apply sumn_nonneg. intros i _. apply sumn_nonneg. intros j _. apply fle_sq.
  Qed.

  Lemma fle_sub_mono x y z : x <== y -> z - y <== z - x.
  Proof.
    intros H. apply fle_of_sub_nonneg. replace (z - x - (z - y)) with (y - x) by ring.
    apply fle_sub_nonneg. exact H.
  Qed.

  Lemma fle_add_nonneg_r x y : 0 <== y -> x <== x + y.
  Proof.
    intros H. apply fle_of_sub_nonneg. replace (x + y - x) with y by ring. exact H.
  Qed.

  (* ---------------- sums ---------------- *)
  Lemma sum4_swap n m p q (t : nat -> nat -> nat -> nat -> F) :
    sumn n (fun i => sumn m (fun j => sumn p (fun a => sumn q (fun b => t i j a b)))) =
    sumn p (fun a => sumn q (fun b => sumn n (fun i => sumn m (fun j => t i j a b)))).
  Proof.
    rewrite (sumn_ext n _ (fun i => sumn p (fun a => sumn m (fun j => sumn q (fun b => t i j a b)))))
      by (intros i _; apply (sumn_swap m p (fun j a => sumn q (fun b => t i j a b)))).
    rewrite (sumn_swap n p (fun i a => sumn m (fun j => sumn q (fun b => t i j a b)))).
    apply sumn_ext. intros a _.
    rewrite (sumn_ext n _ (fun i => sumn q (fun b => sumn m (fun j => t i j a b))))
      by (intros i _; apply (sumn_swap m q (fun j b => t i j a b))).
    apply (sumn_swap n q (fun i b => sumn m (fun j => t i j a b))).
  Qed.

  Lemma fro2_msub n m A B :
    fro2 n m (msub A B) = fro2 n m A - two * inner n m A B + fro2 n m B.
  Proof.
    unfold fro2, inner.
    transitivity (sumn n (fun i => sumn m (fun j => A i j * A i j)
                                   - two * sumn m (fun j => A i j * B i j)
                                   + sumn m (fun j => B i j * B i j))).
    - apply sumn_ext. intros i _. rewrite <- sumn_mul_l, <- sumn_sub, <- sumn_add.
      apply sumn_ext. intros j _. unfold msub, two. ring.
    - rewrite sumn_add, sumn_sub, sumn_mul_l. reflexivity.
  Qed.

  Lemma inner_ext n m A A' B B' :
    meq n m A A' -> meq n m B B' -> inner n m A B = inner n m A' B'.
  Proof.
    intros HA HB. unfold inner. apply sumn_ext. intros i Hi. apply sumn_ext. intros j Hj.
    rewrite HA, HB by assumption. reflexivity.
  Qed.

  (* <B, Q C Q^T> = <Q^T B Q, C> *)
  Lemma inner_lowrank n d (B Q C : mat F) :
    inner n n B (lowrank d Q C) = inner d d (compress n Q B) C.
  Proof.
    unfold inner, lowrank, compress.
    transitivity (sumn n (fun i => sumn n (fun j => sumn d (fun a => sumn d (fun b =>
                    B i j * (Q i a * C a b * Q j b)))))).
    { apply sumn_ext. intros i _. apply sumn_ext. intros j _.
      rewrite <- sumn_mul_l. apply sumn_ext. intros a _. rewrite <- sumn_mul_l. reflexivity. }
    rewrite (sum4_swap n n d d (fun i j a b => B i j * (Q i a * C a b * Q j b))).
    apply sumn_ext. intros a _. apply sumn_ext. intros b _.
    rewrite <- sumn_mul_r. apply sumn_ext. intros i _. rewrite <- sumn_mul_r.
    apply sumn_ext. intros j _. ring.
  Qed.

  (* Q^T (Q C Q^T) Q = C when Q^T Q = I *)
  Lemma compress_lowrank n d (Q C : mat F) :
    meq d d (mmul n (mtrans Q) Q) mI ->
    meq d d (compress n Q (lowrank d Q C)) C.
  Proof.
    intros HQ a b Ha Hb. unfold compress, lowrank.
    transitivity (sumn n (fun i => sumn n (fun j => sumn d (fun a' => sumn d (fun b' =>
                    (Q i a * Q i a') * C a' b' * (Q j b' * Q j b)))))).
    { apply sumn_ext. intros i _. apply sumn_ext. intros j _.
      rewrite <- sumn_mul_l, <- sumn_mul_r. apply sumn_ext. intros a' _.
      rewrite <- sumn_mul_l, <- sumn_mul_r. apply sumn_ext. intros b' _. ring. }
    rewrite (sum4_swap n n d d (fun i j a' b' => (Q i a * Q i a') * C a' b' * (Q j b' * Q j b))).
    transitivity (sumn d (fun a' => sumn d (fun b' => mI a a' * C a' b' * mI b' b))).
    { apply sumn_ext. intros a' Ha'. apply sumn_ext. intros b' Hb'.
      rewrite <- (HQ a a' Ha Ha'), <- (HQ b' b Hb' Hb). unfold mmul, mtrans.
      rewrite (sumn_ext n _ (fun i => (Q i a * Q i a') * C a' b' * sumn n (fun j => Q j b' * Q j b)))
        by (intros i _; rewrite <- sumn_mul_l; reflexivity).
      rewrite sumn_mul_r. rewrite sumn_mul_r. reflexivity. }
    unfold mI.
    rewrite (sumn_ext d _ (fun a' => delta a a' * C a' b)).
    2:{ intros a' Ha'.
        exact (sumn_delta_r d b (fun b' => delta a a' * C a' b') Hb). }
    exact (sumn_delta_l d a (fun a' => C a' b) Ha).
  Qed.

  Lemma fro2_inner n m A : fro2 n m A = inner n m A A.
  Proof. reflexivity. Qed.

  Lemma fro2_lowrank n d (Q C : mat F) :
    meq d d (mmul n (mtrans Q) Q) mI ->
    fro2 n n (lowrank d Q C) = fro2 d d C.
  Proof.
    intros HQ. rewrite fro2_inner, inner_lowrank.
    rewrite (inner_ext d d _ C C C (compress_lowrank n d Q C HQ) (meq_refl d d C)).
    reflexivity.
  Qed.

  (* completing the square: |B - Q C Q^T|^2 = |B|^2 - |G|^2 + |G - C|^2,  G = Q^T B Q *)
  Lemma residual_split n d (B Q C : mat F) :
    meq d d (mmul n (mtrans Q) Q) mI ->
    fro2 n n (msub B (lowrank d Q C)) =
      fro2 n n B - fro2 d d (compress n Q B) + fro2 d d (msub (compress n Q B) C).
  Proof.
    intros HQ. rewrite !fro2_msub, inner_lowrank, (fro2_lowrank n d Q C HQ). ring.
  Qed.

  (* ---------------- Bessel: |Q^T x|^2 <= |x|^2 ---------------- *)
  Lemma bessel n d (Q : mat F) (x : vec F) :
    meq d d (mmul n (mtrans Q) Q) mI ->
    sumn d (fun a => sumn n (fun i => Q i a * x i) * sumn n (fun i => Q i a * x i))
      <== sumn n (fun i => x i * x i).
  Proof.
    intros HQ.
    set (c := fun a => sumn n (fun i => Q i a * x i)).
    set (s := fun i => sumn d (fun a => Q i a * c a)).
    assert (E2 : sumn n (fun i => x i * s i) = sumn d (fun a => c a * c a)).
    { unfold s.
      rewrite (sumn_ext n _ (fun i => sumn d (fun a => c a * (Q i a * x i))))
        by (intros i _; rewrite <- sumn_mul_l; apply sumn_ext; intros; ring).
      rewrite sumn_swap. apply sumn_ext. intros a _. rewrite sumn_mul_l. reflexivity. }
    assert (E3 : sumn n (fun i => s i * s i) = sumn d (fun a => c a * c a)).
    { unfold s at 1.
      rewrite (sumn_ext n _ (fun i => sumn d (fun a => c a * (Q i a * s i))))
        by (intros i _; rewrite <- sumn_mul_r; apply sumn_ext; intros; ring).
      rewrite sumn_swap. apply sumn_ext. intros a Ha. rewrite sumn_mul_l. f_equal.
      unfold s.
      rewrite (sumn_ext n _ (fun i => sumn d (fun a' => c a' * (Q i a * Q i a'))))
        by (intros i _; rewrite <- sumn_mul_l; apply sumn_ext; intros; ring).
      rewrite sumn_swap.
      rewrite (sumn_ext d _ (fun a' => c a' * delta a' a)).
      2:{ intros a' Ha'. rewrite sumn_mul_l. f_equal.
          pose proof (HQ a a' Ha Ha') as E. unfold mmul, mtrans, mI in E. rewrite E.
          apply delta_sym. }
      apply sumn_delta_r. assumption. }
    assert (Hr : sumn n (fun i => (x i - s i) * (x i - s i)) =
                 sumn n (fun i => x i * x i) - sumn d (fun a => c a * c a)).
    { transitivity (sumn n (fun i => x i * x i) - two * sumn n (fun i => x i * s i)
                    + sumn n (fun i => s i * s i)).
      - rewrite <- sumn_mul_l, <- sumn_sub, <- sumn_add. apply sumn_ext. intros; unfold two; ring.
      - rewrite E2, E3. unfold two. ring. }
    change (sumn d (fun a => c a * c a) <== sumn n (fun i => x i * x i)).
    apply fle_of_sub_nonneg. rewrite <- Hr. apply sumn_nonneg. intros i _. apply fle_sq.
  Qed.

  (* ---------------- |Q^T B Q|^2 <= tr(Q^T B^2 Q) ---------------- *)
  Lemma compress_le_quad_sq n d (B Q : mat F) :
    msym n B ->
    meq d d (mmul n (mtrans Q) Q) mI ->
    fro2 d d (compress n Q B) <== quad n d (mmul n B B) Q.
  Proof.
    intros HB HQ.
    set (X := mmul n B Q).
    (* left: sum_b sum_a (sum_i Q_ia X_ib)^2 *)
    assert (EL : fro2 d d (compress n Q B) =
                 sumn d (fun b => sumn d (fun a =>
                   sumn n (fun i => Q i a * X i b) * sumn n (fun i => Q i a * X i b)))).
    { unfold fro2. rewrite sumn_swap. apply sumn_ext. intros b _. apply sumn_ext. intros a _.
      assert (E : compress n Q B a b = sumn n (fun i => Q i a * X i b)).
      { unfold compress, X, mmul. apply sumn_ext. intros i _. rewrite <- sumn_mul_l.
        apply sumn_ext. intros; ring. }
      rewrite E. reflexivity. }
    (* right: sum_b sum_i X_ib^2 *)
    assert (ER : quad n d (mmul n B B) Q = sumn d (fun b => sumn n (fun i => X i b * X i b))).
    { unfold quad. apply sumn_ext. intros b _.
      transitivity (sumn n (fun k => sumn n (fun j => sumn n (fun i =>
                      (B i k * Q k b) * (B i j * Q j b))))).
      - apply sumn_ext. intros k Hk. apply sumn_ext. intros j Hj.
        unfold mmul. rewrite <- (sumn_mul_l n (Q k b)), <- sumn_mul_r. apply sumn_ext. intros i Hi.
        rewrite (HB k i Hk Hi). ring.
      - rewrite (sumn_ext n _ (fun k => sumn n (fun i => sumn n (fun j =>
                   (B i k * Q k b) * (B i j * Q j b)))))
          by (intros k _; apply (sumn_swap n n (fun j i => (B i k * Q k b) * (B i j * Q j b)))).
        rewrite (sumn_swap n n (fun k i => sumn n (fun j => (B i k * Q k b) * (B i j * Q j b)))).
        apply sumn_ext. intros i _. unfold X, mmul. rewrite sumn_mul_sumn. reflexivity. }
    rewrite EL, ER. apply sumn_le. intros b _.
    apply (bessel n d Q (fun i => X i b) HQ).
  Qed.

  (* ---------------- the spectrum of B^2 ---------------- *)
  Definition sq (lam : vec F) : vec F := fun t => lam t * lam t.

  Lemma square_contract n (B V : mat F) (lam : vec F) :
    meq n n (mmul n B V) (mmul n V (mdiag lam)) ->
    meq n n (mmul n (mmul n B B) V) (mmul n V (mdiag (sq lam))).
  Proof.
    intros HE i t Hi Ht. rewrite mmul_assoc.
    rewrite (mmul_ext_r n B _ (mmul n V (mdiag lam))) by (intros k Hk; apply HE; assumption).
    rewrite <- mmul_assoc. rewrite !mmul_diag_r by assumption. rewrite (HE i t Hi Ht).
    rewrite mmul_diag_r by assumption. unfold sq. ring.
  Qed.

  Lemma sq_ascending n (lam : vec F) :
    Spectral_KyFan.ascending n lam -> (forall t, (t < n)%nat -> 0 <== lam t) -> Spectral_KyFan.ascending n (sq lam).
  Proof.
    intros Ha Hp a b Hab Hb. unfold sq. apply fle_of_sub_nonneg.
    replace (lam b * lam b - lam a * lam a) with ((lam b - lam a) * (lam b + lam a)) by ring.
    apply fle_mul_nonneg.
    - apply fle_sub_nonneg. apply Ha; assumption.
    - apply fle_add_nonneg; apply Hp; lia.
  Qed.

  (* |B|_F^2 = sum of all lam^2 *)
  Lemma fro2_spectrum n (B V : mat F) (lam : vec F) :
    msym n B ->
    meq n n (mmul n (mtrans V) V) mI ->
    meq n n (mmul n V (mtrans V)) mI ->
    meq n n (mmul n B V) (mmul n V (mdiag lam)) ->
    fro2 n n B = sumn n (sq lam).
  Proof.
    intros HB HVtV HVVt HE.
    pose proof (ky_fan_attained n n 0 (mmul n B B) V (sq lam) ltac:(lia) HVtV
                  (square_contract n B V lam HE)) as K.
    transitivity (quad n n (mmul n B B) (fun i c => V i (0 + c)%nat)); [|exact K].
    cbn [Nat.add]. unfold quad, fro2. symmetry.
    (* sum_c sum_i sum_j V_ic B2_ij V_jc = sum_i sum_j B2_ij (V V^T)_ij = sum_i B2_ii *)
    rewrite (sumn_swap n n (fun c i => sumn n (fun j => V i c * mmul n B B i j * V j c))).
    apply sumn_ext. intros i Hi.
    rewrite (sumn_swap n n (fun c j => V i c * mmul n B B i j * V j c)).
    rewrite (sumn_ext n _ (fun j => mmul n B B i j * mI i j)).
    2:{ intros j Hj. rewrite <- (HVVt i j Hi Hj).
        change (mmul n V (mtrans V) i j) with (sumn n (fun c => V i c * V j c)).
        rewrite <- sumn_mul_l. apply sumn_ext. intros; ring. }
    unfold mI. rewrite (sumn_ext n _ (fun j => mmul n B B i j * delta j i))
      by (intros; rewrite delta_sym; reflexivity).
    rewrite sumn_delta_r by assumption. unfold mmul. apply sumn_ext. intros k Hk.
    rewrite (HB k i Hk Hi). reflexivity.
  Qed.

  (* ---------------- Eckart-Young over orthonormal frames ---------------- *)
  Theorem eckart_young_frames n d (B V Q C : mat F) (lam : vec F) :
    (d <= n)%nat ->
    msym n B ->
    meq n n (mmul n (mtrans V) V) mI ->
    meq n n (mmul n V (mtrans V)) mI ->
    meq n n (mmul n B V) (mmul n V (mdiag lam)) ->
    Spectral_KyFan.ascending n lam ->
    (forall t, (t < n)%nat -> 0 <== lam t) ->
    meq d d (mmul n (mtrans Q) Q) mI ->
    sumn (n - d) (sq lam) <== fro2 n n (msub B (lowrank d Q C)).
  Proof.
    intros Hd HB HVtV HVVt HE Hasc Hpos HQ.
    rewrite (residual_split n d B Q C HQ).
    apply fle_trans with (fro2 n n B - fro2 d d (compress n Q B)).
    2:{ apply fle_add_nonneg_r. apply fro2_nonneg. }
    rewrite (fro2_spectrum n B V lam HB HVtV HVVt HE).
    apply fle_trans with (sumn n (sq lam) - sumn d (fun c => sq lam (n - d + c)%nat)).
    - apply fle_eq.
      replace (sumn n (sq lam)) with (sumn ((n - d) + d) (sq lam)) by (f_equal; lia).
      rewrite sumn_split. ring.
    - apply fle_sub_mono.
      apply fle_trans with (quad n d (mmul n B B) Q).
      + apply compress_le_quad_sq; assumption.
      + apply (ky_fan_max n d (mmul n B B) V Q (sq lam) Hd HVtV HVVt
                 (square_contract n B V lam HE) (sq_ascending n lam Hasc Hpos) HQ).
  Qed.

  (* ---------------- the methods' Y Y^T attains the bound ---------------- *)
  (* Y = V[:, n-d ..] diag(s) with s_c^2 = lam_{n-d+c}:  Y Y^T = Q C Q^T for the frame
     Q = V[:, n-d ..] and C = diag(lam_{n-d ..}) *)
  Theorem mds_attains_bound n d (B V : mat F) (lam s : vec F) :
    (d <= n)%nat ->
    msym n B ->
    meq n n (mmul n (mtrans V) V) mI ->
    meq n n (mmul n V (mtrans V)) mI ->
    meq n n (mmul n B V) (mmul n V (mdiag lam)) ->
    (forall c, (c < d)%nat -> s c * s c = lam (n - d + c)%nat) ->
    let Y := scale_cols (select_cols n V ((n - d)%nat, d)) s in
    fro2 n n (msub B (mmul d Y (mtrans Y))) = sumn (n - d) (sq lam).
  Proof.
    intros Hd HB HVtV HVVt HE Hs Y.
    set (Q := select_cols n V ((n - d)%nat, d)).
    set (C := mdiag (select_vals lam ((n - d)%nat, d))).
    assert (HQ : meq d d (mmul n (mtrans Q) Q) mI).
    { intros a b Ha Hb. unfold Q, select_cols. cbn [fst].
      transitivity (mmul n (mtrans V) V (n - d + a)%nat (n - d + b)%nat); [reflexivity|].
      rewrite HVtV by lia. unfold mI, delta.
      destruct (Nat.eqb a b) eqn:E.
      - apply Nat.eqb_eq in E. subst. rewrite Nat.eqb_refl. reflexivity.
      - apply Nat.eqb_neq in E.
        assert (E' : Nat.eqb (n - d + a) (n - d + b) = false) by (apply Nat.eqb_neq; lia).
        rewrite E'. reflexivity. }
    assert (HYY : forall i j, mmul d Y (mtrans Y) i j = lowrank d Q C i j).
    { intros i j. unfold mmul, lowrank. apply sumn_ext. intros a Ha.
      unfold C, mdiag. rewrite (sumn_single d a).
      - rewrite Nat.eqb_refl. unfold Y, scale_cols, mtrans, select_vals. cbn [fst].
        fold Q. rewrite <- (Hs a Ha). ring.
      - assumption.
      - intros b _ Hb. assert (E : Nat.eqb a b = false) by (apply Nat.eqb_neq; congruence).
        rewrite E. ring. }
    assert (HF : fro2 n n (msub B (mmul d Y (mtrans Y))) = fro2 n n (msub B (lowrank d Q C))).
    { unfold fro2. apply sumn_ext. intros i _. apply sumn_ext. intros j _.
      unfold msub. rewrite HYY. reflexivity. }
    rewrite HF.
    rewrite (residual_split n d B Q C HQ).
    (* G = Q^T B Q = C *)
    assert (HG : meq d d (compress n Q B) C).
    { intros a b Ha Hb. unfold compress, C.
      transitivity (sumn n (fun i => Q i a * mmul n B Q i b)).
      { apply sumn_ext. intros i _. unfold mmul. rewrite <- sumn_mul_l. apply sumn_ext. intros; ring. }
      rewrite (sumn_ext n _ (fun i => Q i a * (Q i b * lam (n - d + b)%nat))).
      2:{ intros i Hi. f_equal. unfold Q, select_cols. cbn [fst].
          transitivity (mmul n B V i (n - d + b)%nat); [reflexivity|].
          rewrite HE by lia. rewrite mmul_diag_r by lia. reflexivity. }
      rewrite (sumn_ext n _ (fun i => (mtrans Q a i * Q i b) * lam (n - d + b)%nat))
        by (intros; unfold mtrans; ring).
      rewrite sumn_mul_r. pose proof (HQ a b Ha Hb) as E. unfold mmul in E. rewrite E.
      unfold mI, mdiag, delta, select_vals. cbn [fst].
      destruct (Nat.eqb a b) eqn:Eab.
      - apply Nat.eqb_eq in Eab. subst. ring.
      - ring. }
    assert (H0 : fro2 d d (msub (compress n Q B) C) = 0).
    { unfold fro2. apply sumn_zero'. intros a Ha. apply sumn_zero'. intros b Hb.
      unfold msub. rewrite (HG a b Ha Hb). ring. }
    rewrite H0.
    assert (HGC : fro2 d d (compress n Q B) = sumn d (fun c => sq lam (n - d + c)%nat)).
    { unfold fro2. apply sumn_ext. intros a Ha.
      rewrite (sumn_ext d _ (fun b => C a b * C a b)) by (intros b Hb; rewrite (HG a b Ha Hb); reflexivity).
      unfold C, mdiag. rewrite (sumn_single d a) by
        (try assumption; intros b _ Hb; assert (E : Nat.eqb a b = false) by (apply Nat.eqb_neq; congruence);
         rewrite E; ring).
      rewrite Nat.eqb_refl. unfold sq, select_vals. cbn [fst]. reflexivity. }
    rewrite HGC, (fro2_spectrum n B V lam HB HVtV HVVt HE).
    replace (sumn n (sq lam)) with (sumn ((n - d) + d) (sq lam)) by (f_equal; lia).
    rewrite sumn_split. ring.
  Qed.

  (* the C05 optimality clause: no Q C Q^T (Q an orthonormal d-frame) is closer to B in the
     Frobenius norm than the Y Y^T the methods return *)
  Theorem mds_factor_optimal n d (B V Q C : mat F) (lam s : vec F) :
    (d <= n)%nat ->
    msym n B ->
    meq n n (mmul n (mtrans V) V) mI ->
    meq n n (mmul n V (mtrans V)) mI ->
    meq n n (mmul n B V) (mmul n V (mdiag lam)) ->
    Spectral_KyFan.ascending n lam ->
    (forall t, (t < n)%nat -> 0 <== lam t) ->
    (forall c, (c < d)%nat -> s c * s c = lam (n - d + c)%nat) ->
    meq d d (mmul n (mtrans Q) Q) mI ->
    let Y := scale_cols (select_cols n V ((n - d)%nat, d)) s in
    fro2 n n (msub B (mmul d Y (mtrans Y))) <== fro2 n n (msub B (lowrank d Q C)).
  Proof.
    intros Hd HB HVtV HVVt HE Hasc Hpos Hs HQ Y. unfold Y.
    rewrite (mds_attains_bound n d B V lam s Hd HB HVtV HVVt HE Hs).
    apply (eckart_young_frames n d B V Q C lam); assumption.
  Qed.

End Optimal.


(* ====================================================================== *)
(*  Distances: exact deficit formula and "never overestimates".            *)
(* ====================================================================== *)
Section Deficit.
  Context {F : Type} {Fo : FieldOps F} {Ff : IsField F}.
  Add Field MdsDeficitField : (@Fth F Fo Ff).
  Local Open Scope nat_scope.
  Local Open Scope F_scope.

  (* |y_i - y_j|^2 = D2_ij - sum over the DISCARDED eigenpairs of lam_t (V_it - V_jt)^2,
     for any symmetric zero-diagonal distance table, any full oracle answer, any d *)
  Theorem mds_distance_deficit N d (V : mat F) (Lam s : vec F) (dist : mat F) :
    two <> 0 -> d <= N ->
    full_contract N (mds_matrix N dist) V Lam ->
    meq N N (mmul N V (mtrans V)) mI ->
    (forall c, c < d -> s c * s c = Lam (N - d + c)%nat) ->
    (forall i, i < N -> dist i i = 0) ->
    let Y := scale_cols (select_cols N V ((N - d)%nat, d)) s in
    forall i j, i < N -> j < N -> i <= j ->
      sqdist d Y i j =
        dist i j * dist i j
        - sumn (N - d) (fun t => Lam t * ((V i t - V j t) * (V i t - V j t))).
  Proof.
    intros H2 Hd HC HVVt Hs Hdiag Y i j Hi Hj Hij.
    assert (HB : forall a b, a < N -> b < N ->
               mmul d Y (mtrans Y) a b =
               mds_matrix N dist a b - sumn (N - d) (fun t => V a t * Lam t * V b t)).
    { intros a b Ha Hb.
      destruct (mds_factor_partial N d _ V Lam s Hd HC Hs) as [_ Hg]. fold Y in Hg.
      rewrite Hg. rewrite (spectral_form N _ V Lam HC HVVt a b Ha Hb).
      set (f := fun t => V a t * Lam t * V b t).
      replace (sumn N f) with (sumn ((N - d) + d)%nat f) by (f_equal; lia).
      rewrite sumn_split. unfold f. ring. }
    rewrite sqdist_from_gram. rewrite !HB by assumption.
    transitivity ((mds_matrix N dist i i + mds_matrix N dist j j
                   - mds_matrix N dist i j - mds_matrix N dist j i)
                  - sumn (N - d) (fun t => Lam t * ((V i t - V j t) * (V i t - V j t)))).
    { assert (ES : sumn (N - d) (fun t => Lam t * ((V i t - V j t) * (V i t - V j t))) =
                   sumn (N - d) (fun t => V i t * Lam t * V i t)
                   + sumn (N - d) (fun t => V j t * Lam t * V j t)
                   - sumn (N - d) (fun t => V i t * Lam t * V j t)
                   - sumn (N - d) (fun t => V j t * Lam t * V i t)).
      { rewrite <- sumn_add, <- !sumn_sub. apply sumn_ext. intros; ring. }
      rewrite ES. ring. }
    f_equal.
    unfold mds_matrix.
    transitivity ((center_matrix N (dist_sq_matrix dist) i i
                   + center_matrix N (dist_sq_matrix dist) j j
                   - center_matrix N (dist_sq_matrix dist) i j
                   - center_matrix N (dist_sq_matrix dist) j i) * neg_half); [ring|].
    rewrite centered_form_diff.
    rewrite (dist_sq_matrix_sym N dist j i Hj Hi).
    unfold dist_sq_matrix. rewrite !Nat.leb_refl.
    assert (E : Nat.leb i j = true) by (apply Nat.leb_le; assumption). rewrite E.
    rewrite (Hdiag i Hi), (Hdiag j Hj). unfold neg_half, two in *. field. assumption.
  Qed.
End Deficit.

Section Contract.
  Context {F : Type} {Fo : FieldOps F} {Ff : IsField F} {Fle : OrderedField F}.
  Add Field MdsContractField : (@Fth F Fo Ff).
  Local Open Scope nat_scope.
  Local Open Scope F_scope.

  (* positive semi-definite case: classical MDS never OVERestimates a distance *)
  Theorem mds_never_overestimates N d (V : mat F) (Lam s : vec F) (dist : mat F) :
    two <> 0 -> d <= N ->
    full_contract N (mds_matrix N dist) V Lam ->
    meq N N (mmul N V (mtrans V)) mI ->
    (forall t, t < N - d -> fle 0 (Lam t)) ->
    (forall c, c < d -> s c * s c = Lam (N - d + c)%nat) ->
    (forall i, i < N -> dist i i = 0) ->
    let Y := scale_cols (select_cols N V ((N - d)%nat, d)) s in
    forall i j, i < N -> j < N -> i <= j ->
      fle (sqdist d Y i j) (dist i j * dist i j).
  Proof.
    intros H2 Hd HC HVVt Hpos Hs Hdiag Y i j Hi Hj Hij. unfold Y.
    rewrite (mds_distance_deficit N d V Lam s dist H2 Hd HC HVVt Hs Hdiag i j Hi Hj Hij).
    apply fle_of_sub_nonneg.
    match goal with |- fle 0 (?a - (?a - ?S)) => replace (a - (a - S)) with S by ring end.
    apply sumn_nonneg. intros t Ht. apply fle_mul_nonneg; [apply Hpos; assumption|apply fle_sq].
  Qed.
End Contract.
