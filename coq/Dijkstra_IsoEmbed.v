(* Dijkstra_IsoEmbed.v — the last two statements of IsomapImplementation::embed()
   (include/tapkee/methods/isomap.hpp):

       EigendecompositionResult embedding =
           eigendecomposition_via(LargestEigenvalues, shortest_distances_matrix, d);
       for (i = 0; i < d; i++)
           embedding.first.col(i).array() *= sqrt(std::max<ScalarType>(embedding.second(i), 0.0));

   Algebra regime (abstract field; closed at Qc).  The eigensolver and sqrt are ORACLES
   (DESIGN 1.3): their answers are section variables, their contracts section hypotheses; the
   correspondence run validates the contracts on every observed call (residual, orthonormality)
   and compares the real embedding with them (tolerance stream).

     V : n x d   the d returned eigenvectors (columns)          lam : d   their eigenvalues
     s : d       s j = the value the code multiplies column j by
   contract   B V = V diag(lam)   (inside the n x n box, B read as the solver reads it)
              V^T V = I_d
              s j * s j = lam j   (sqrt of a non-negative eigenvalue; for lam j < 0 the code now
                                   multiplies by 0 — classical MDS has no real solution there —
                                   and this hypothesis, hence the theorem, does not apply)
   Theorems (`isomap_embedding_partial`): Y = V diag(s) satisfies
        B Y = Y diag(lam),   Y^T Y = diag(lam),   Y Y^T = sum_j lam_j v_j v_j^T,
   with B = -1/2 J S J of the geodesics (isomap_is_mds): Y is a classical-MDS configuration
   for the eigenpairs the oracle returned.  NOT proved here (hence _partial): that those are
   the d LARGEST eigenpairs (selection `rightCols(d)` + Eigen's ascending order: property C05's
   Mat_EigSelect) and that this choice is optimal (Eckart-Young). *)
From Coq Require Import Field Ring List ZArith Arith Lia Qcanon.
From TK Require Import Mat_Sums Mat_Core Mat_Qc Dijkstra_IsoModel Dijkstra_Proof_Iso.
Import ListNotations.

Section Embed.
  Context {F : Type} {Fo : FieldOps F} {Ff : IsField F}.
  Add Field IsoEmbedField : (@Fth F Fo Ff).
  Local Open Scope F_scope.

  (* embedding.first.col(j).array() *= s j *)
  Definition scale_cols (V : mat F) (s : vec F) : mat F := fun i j => V i j * s j.

  Variables n d : nat.
  Variable B : mat F.            (* the matrix handed to the solver *)
  Variable V : mat F.            (* n x d *)
  Variable lam s : vec F.

  Hypothesis Heig : forall i j, (i < n)%nat -> (j < d)%nat ->
      sumn n (fun t => B i t * V t j) = lam j * V i j.
  Hypothesis Horth : forall a b, (a < d)%nat -> (b < d)%nat ->
      sumn n (fun t => V t a * V t b) = delta a b.
  Hypothesis Hsqrt : forall j, (j < d)%nat -> s j * s j = lam j.

  Notation Y := (scale_cols V s).

  (* B Y = Y diag(lam) *)
  Lemma embed_eigen : forall i j, (i < n)%nat -> (j < d)%nat ->
      sumn n (fun t => B i t * Y t j) = lam j * Y i j.
  Proof.
    intros i j Hi Hj. unfold scale_cols.
    rewrite (sumn_ext n _ (fun t => (B i t * V t j) * s j)) by (intros; ring).
    rewrite sumn_mul_r, Heig by assumption. ring.
  Qed.

  (* Y^T Y = diag(lam): columns orthogonal, squared length of column j = lam j *)
  Lemma embed_gram_cols : forall a b, (a < d)%nat -> (b < d)%nat ->
      sumn n (fun t => Y t a * Y t b) = if Nat.eqb a b then lam a else 0.
  Proof.
    intros a b Ha Hb. unfold scale_cols.
    rewrite (sumn_ext n _ (fun t => (s a * s b) * (V t a * V t b))) by (intros; ring).
    rewrite sumn_mul_l, Horth by assumption. unfold delta.
    destruct (Nat.eqb a b) eqn:E.
    - apply Nat.eqb_eq in E. subst b. rewrite Hsqrt by assumption. ring.
    - ring.
  Qed.

  (* Y Y^T = V diag(lam) V^T: the spectral truncation of B to the returned eigenpairs *)
  Lemma embed_gram_rows : forall i k,
      sumn d (fun j => Y i j * Y k j) = sumn d (fun j => lam j * (V i j * V k j)).
  Proof.
    intros i k. apply sumn_ext. intros j Hj. unfold scale_cols.
    rewrite <- (Hsqrt j Hj). ring.
  Qed.
End Embed.

(* ---- assembled with the centring theorem: the current embed() on geodesics G ---- *)
Section IsomapEmbedding.
  Variables n d : nat.
  Variable G : mat Qc.                (* geodesic distances (any values: symmetry not assumed) *)
  Variable V : mat Qc.
  Variable lam s : vec Qc.
  Hypothesis Hn : n <> 0%nat.
  Local Open Scope F_scope.

  (* the oracle was run on what embed() built (iso_fixed = the statements of the current source) *)
  Hypothesis Heig : forall i j, (i < n)%nat -> (j < d)%nat ->
      sumn n (fun t => iso_fixed n G i t * V t j) = lam j * V i j.
  Hypothesis Horth : forall a b, (a < d)%nat -> (b < d)%nat ->
      sumn n (fun t => V t a * V t b) = delta a b.
  Hypothesis Hsqrt : forall j, (j < d)%nat -> s j * s j = lam j.

  Theorem isomap_embedding_mds :
      let Y := scale_cols V s in
      (forall i j, (i < n)%nat -> (j < d)%nat ->
          sumn n (fun t => mds_ref n G i t * Y t j) = lam j * Y i j) /\
      (forall a b, (a < d)%nat -> (b < d)%nat ->
          sumn n (fun t => Y t a * Y t b) = if Nat.eqb a b then lam a else 0) /\
      (forall i k, sumn d (fun j => Y i j * Y k j) = sumn d (fun j => lam j * (V i j * V k j))).
  Proof.
    intros Y. split; [|split].
    - intros i j Hi Hj.
      rewrite (sumn_ext n _ (fun t => iso_fixed n G i t * Y t j)).
      + apply (embed_eigen n d (iso_fixed n G) V lam s Heig i j Hi Hj).
      + intros t Ht. rewrite (iso_fixed_is_mds_Qc n G Hn i t Hi Ht). reflexivity.
    - apply (embed_gram_cols n d V lam s Horth Hsqrt).
    - apply (embed_gram_rows d V lam s Hsqrt).
  Qed.
End IsomapEmbedding.

(* non-vacuity of the oracle contract with a non-trivial instance: four samples, 0 and 2 coincide,
   1 and 3 coincide, the two groups at geodesic distance 2: -1/2 J S J = y y^T with
   y = (1,-1,1,-1); eigenpair lam = 4, v = y/2 (unit), sqrt lam = 2 *)
Definition emb_G : mat Qc := fun i j => if Nat.eqb (Nat.modulo (i + j) 2) 0 then qz 0 else qz 2.
Definition emb_V : mat Qc := fun i _ => if Nat.eqb (Nat.modulo i 2) 0 then qfrac 1 2 else qfrac (-1) 2.

Example isomap_embedding_contract_satisfiable :
    let n := 4%nat in let d := 1%nat in
    let lam : vec Qc := fun _ => qz 4 in let s : vec Qc := fun _ => qz 2 in
      n <> 0%nat /\
      (forall i j, (i < n)%nat -> (j < d)%nat ->
          sumn n (fun t => iso_fixed n emb_G i t * emb_V t j) = lam j * emb_V i j)%F /\
      (forall a b, (a < d)%nat -> (b < d)%nat -> sumn n (fun t => emb_V t a * emb_V t b) = delta a b)%F /\
      (forall j, (j < d)%nat -> s j * s j = lam j)%F /\
      scale_cols emb_V s 1%nat 0%nat = qz (-1).
Proof.
  cbv zeta. split; [discriminate|]. split; [|split; [|split]].
  - intros i j Hi Hj. assert (j = 0%nat) by lia. subst j.
    destruct i as [|[|[|[|i]]]]; try lia; apply Qc_is_canon; vm_compute; reflexivity.
  - intros a b Ha Hb. assert (a = 0%nat) by lia. assert (b = 0%nat) by lia. subst.
    apply Qc_is_canon. vm_compute. reflexivity.
  - intros j Hj. apply Qc_is_canon. vm_compute. reflexivity.
  - apply Qc_is_canon. vm_compute. reflexivity.
Qed.
