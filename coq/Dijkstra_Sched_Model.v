(* Dijkstra_Sched_Model.v — the `#pragma omp parallel { ... #pragma omp for nowait ... }` region of
   compute_shortest_distances_matrix (include/tapkee/routines/isomap.hpp) at the granularity the
   property speaks about: WHICH thread computes WHICH rows, in WHICH order, with WHAT left in its
   private arrays by the previous row.  No proofs in this file.

   Per thread the code allocates once
       bool* f = new bool[N];  bool* s = new bool[N];      (uninitialised: arbitrary contents)
       heap(N)                                               (empty)
   and then, for every k the schedule hands to this thread, in the order it hands them:
       for j < N: shortest_distances(k,j) = max(); s[j] = false; f[j] = false;   -> refill
       shortest_distances(k, src) = 0; heap.insert/push(src, 0); f[fidx] = true;
       while (!heap.empty()) ...                                                 -> loop step
       heap.clear();
   Row k of the result matrix is written (and read) only inside iteration k.  A schedule is a list
   of row lists, one per thread (`omp for` gives every k in [0,N) to exactly one thread; which one
   and in which order is libgomp's choice: static, dynamic, guided, any team size).
   What is NOT modelled here: that the private arrays really are private and that two threads
   never touch the same row concurrently (data-race freedom is property C15); libgomp itself. *)
From Coq Require Import List ZArith Bool Arith.
From TK Require Import Dijkstra_Model.
Import ListNotations.
Local Open Scope Z_scope.

Record tstate : Type := mkT {
  t_s : list bool;          (* s[], as the previous iteration (or `new`) left it *)
  t_f : list bool;          (* f[] *)
  t_heap : list entry }.    (* the thread's heap object *)

Section Sched.
  Variable step : dstate -> option (dres dstate).   (* step_pq ... or step_fib ... *)
  Variable N K : nat.
  (* row index -> (source vertex, index whose frontier flag is set): (k,k) for the first overload,
     (landmarks[k], landmarks[k]) for the second one as it is now *)
  Variable src_of : nat -> dres (nat * nat).

  (* one iteration of the `omp for` body on a thread whose arrays hold `ts`; `old_row` is whatever
     the (uninitialised) matrix row held *)
  Definition row_reuse (k : nat) (old_row : list (option Z)) (ts : tstate)
    : dres (list (option Z) * tstate) :=
    match src_of k with
    | DOk (src, fidx) =>
      if Nat.ltb src N then
        if Nat.ltb fidx N then
          let st0 := mkD (upd (refill None old_row N) src (Some 0))
                         (refill false (t_s ts) N)
                         (upd (refill false (t_f ts) N) fidx true)
                         ((src, 0) :: t_heap ts) in
          match loop step (fuel_of N K) st0 with
          | DOk st => DOk (d_dist st, mkT (d_s st) (d_f st) [])      (* heap.clear() *)
          | DOOB a b => DOOB a b
          | DOutOfFuel => DOutOfFuel
          end
        else DOOB site_fidx fidx
      else DOOB site_src src
    | DOOB a b => DOOB a b
    | DOutOfFuel => DOutOfFuel
    end.

  (* the rows one thread computes, in the order it is handed them; `garbage k` = initial content of
     matrix row k *)
  Fixpoint thread_run (garbage : nat -> list (option Z)) (ks : list nat) (ts : tstate)
    : dres (list (nat * list (option Z))) :=
    match ks with
    | [] => DOk []
    | k :: ks' =>
      match row_reuse k (garbage k) ts with
      | DOk (row, ts') =>
        match thread_run garbage ks' ts' with
        | DOk rest => DOk ((k, row) :: rest)
        | DOOB a b => DOOB a b
        | DOutOfFuel => DOutOfFuel
        end
      | DOOB a b => DOOB a b
      | DOutOfFuel => DOutOfFuel
      end
    end.

  (* all threads (they do not interact in this model) *)
  Fixpoint team_run (garbage : nat -> list (option Z)) (sched : list (list nat)) (inits : list tstate)
    : dres (list (nat * list (option Z))) :=
    match sched, inits with
    | [], _ => DOk []
    | ks :: sched', ts :: inits' =>
      match thread_run garbage ks ts with
      | DOk rows =>
        match team_run garbage sched' inits' with
        | DOk rest => DOk (rows ++ rest)
        | DOOB a b => DOOB a b
        | DOutOfFuel => DOutOfFuel
        end
      | DOOB a b => DOOB a b
      | DOutOfFuel => DOutOfFuel
      end
    | _ :: _, [] => DOOB site_pick 0    (* more row lists than threads: not a schedule *)
    end.

  Fixpoint find_row (k : nat) (rows : list (nat * list (option Z))) : option (list (option Z)) :=
    match rows with
    | [] => None
    | (k', r) :: t => if Nat.eqb k k' then Some r else find_row k t
    end.

  (* the matrix the caller gets back: row k is what iteration k wrote; a row no iteration wrote
     keeps its initial garbage *)
  Definition assemble (R : nat) (garbage : nat -> list (option Z)) (rows : list (nat * list (option Z)))
    : list (list (option Z)) :=
    map (fun k => match find_row k rows with Some r => r | None => garbage k end) (seq 0 R).

  Definition sched_matrix (R : nat) (garbage : nat -> list (option Z)) (sched : list (list nat))
             (inits : list tstate) : dres (list (list (option Z))) :=
    match team_run garbage sched inits with
    | DOk rows => DOk (assemble R garbage rows)
    | DOOB a b => DOOB a b
    | DOutOfFuel => DOutOfFuel
    end.
End Sched.

Definition step_fl (fl : flavour) nbrs w pick K : dstate -> option (dres dstate) :=
  match fl with PQ => step_pq nbrs w pick K | FIB => step_fib nbrs w pick K end.

(* first overload under a schedule *)
Definition full_matrix_sched (fl : flavour) nbrs w pick (N K : nat) garbage sched inits :=
  sched_matrix (step_fl fl nbrs w pick K) N K (fun k => DOk (k, k)) N garbage sched inits.

(* second overload (current source: f[landmarks[k]] = true) under a schedule *)
Definition landmark_matrix_sched (fl : flavour) nbrs w pick (N K : nat) (lm : list nat)
           garbage sched inits :=
  sched_matrix (step_fl fl nbrs w pick K) N K
               (fun k => match nth_error lm k with
                         | Some src => DOk (src, src)
                         | None => DOOB site_landmark k
                         end)
               (length lm) garbage sched inits.
