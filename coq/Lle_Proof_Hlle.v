(* ====================================================================== *)
(*  Lle_Proof_Hlle.v — HLLE column bookkeeping (C08, defect F6)            *)
(*    hcnt d n j          number of columns written by n outer iterations  *)
(*                        starting at j  ( = sum_{t=j}^{j+n-1} (d - t) )   *)
(*    hcnt_formula        2 hcnt + n (2j + n) = n (2d + 1)   (j + n <= d)  *)
(*    hlle_cols_from      repaired counter: the columns written are        *)
(*                        consecutive, starting at ct + 1 + d              *)
(*    hlle_columns        for EVERY d the repaired loop writes exactly the *)
(*                        columns 1+d, 2+d, ..., d + d(d+1)/2, each once,  *)
(*                        in order  (so ct_j = j d - j (j-1)/2)            *)
(*    hlle_columns_in_range / _nodup / hlle_first_oob_repaired             *)
(*    hlle_sources        every write reads tangent columns 1..d only      *)
(*    hlle_columns_refuted  the shipped counter `ct += ct + d - j` leaves  *)
(*                        the buffer at d = 3 (column 12 of 10) and d = 4  *)
(*    hlle_no_stale       after the repair no entry of Yi that is used     *)
(*                        depends on what the per-thread buffer held       *)
(* ====================================================================== *)
Require Import Field Ring Arith Lia List Bool Permutation.
From TK Require Import Mat_Sums Mat_Core Lle_Model.
Import ListNotations.

Fixpoint hcnt (d n j : nat) : nat :=
  match n with O => 0 | S n' => (d - j) + hcnt d n' (S j) end.

Lemma hcnt_formula d n j :
  j + n <= d -> 2 * hcnt d n j + n * (2 * j + n) = n * (2 * d + 1).
Proof.
  revert j. induction n as [|n IH]; intros j H; cbn [hcnt]; [lia|].
  specialize (IH (S j) ltac:(lia)). nia.
Qed.

Lemma hcnt_total d : hcnt d d 0 = hlle_dp d.
Proof.
  pose proof (hcnt_formula d d 0 ltac:(lia)) as H.
  unfold hlle_dp. apply Nat.div_unique_exact; [lia|]. nia.
Qed.

Lemma map_seq_affine ct d m :
  map (fun p => ct + p + 1 + d) (seq 0 m) = seq (ct + 1 + d) m.
Proof.
  induction m as [|m IH]; [reflexivity|].
  rewrite !seq_S, map_app, IH. cbn [map Nat.add]. f_equal. f_equal. lia.
Qed.

Section Hlle.
  Context {F : Type} {Fo : FieldOps F}.
  Local Notation mat := (Mat_Core.mat F).

  Definition wcol (w : nat * nat * nat) : nat := snd w.

  Lemma hlle_cols_from d n j ct :
    map wcol (hlle_writes_from false d n j ct) = seq (ct + 1 + d) (hcnt d n j).
  Proof.
    revert j ct. induction n as [|n IH]; intros j ct; cbn [hlle_writes_from hcnt]; [reflexivity|].
    rewrite map_app, map_map. unfold wcol at 1. cbn [snd].
    rewrite IH, map_seq_affine, seq_app. f_equal. f_equal. unfold hlle_ct_next. lia.
  Qed.

  (* F6 repaired: for all d *)
  Theorem hlle_columns d :
    map wcol (hlle_writes false d) = seq (1 + d) (hlle_dp d).
  Proof.
    unfold hlle_writes. rewrite hlle_cols_from, hcnt_total. reflexivity.
  Qed.

  Corollary hlle_columns_in_range d w :
    In w (hlle_writes false d) -> 1 + d <= wcol w < hlle_ncols d.
  Proof.
    intros H. apply (in_map wcol) in H. rewrite hlle_columns in H. apply in_seq in H.
    unfold hlle_ncols. lia.
  Qed.

  Corollary hlle_columns_nodup d : NoDup (map wcol (hlle_writes false d)).
  Proof. rewrite hlle_columns. apply seq_NoDup. Qed.

  Corollary hlle_columns_count d : length (hlle_writes false d) = hlle_dp d.
  Proof.
    rewrite <- (map_length wcol), hlle_columns, seq_length. reflexivity.
  Qed.

  (* every column of the product block is written: 1+d .. ncols-1 *)
  Corollary hlle_columns_cover d c :
    1 + d <= c < hlle_ncols d -> exists w, In w (hlle_writes false d) /\ wcol w = c.
  Proof.
    intros H. assert (Hin : In c (map wcol (hlle_writes false d))).
    { rewrite hlle_columns. apply in_seq. unfold hlle_ncols in H. lia. }
    apply in_map_iff in Hin. destruct Hin as [w [Hw Hi]]. exists w. split; assumption.
  Qed.

  Lemma filter_nil {A} (f : A -> bool) l :
    (forall x, In x l -> f x = false) -> filter f l = [].
  Proof.
    induction l as [|x l IH]; intros H; cbn [filter]; [reflexivity|].
    rewrite (H x) by (left; reflexivity). apply IH. intros y Hy. apply H. right. assumption.
  Qed.

  Corollary hlle_first_oob_repaired d : hlle_first_oob false d = None.
  Proof.
    unfold hlle_first_oob. rewrite filter_nil; [reflexivity|].
    intros w Hw. apply hlle_columns_in_range in Hw. unfold wcol in Hw.
    apply negb_false_iff. apply Nat.ltb_lt. lia.
  Qed.

  (* sources of each write: tangent columns only (either counter) *)
  Lemma hlle_sources_from sh d n j0 ct j p col :
    In (j, p, col) (hlle_writes_from sh d n j0 ct) -> j0 <= j < j0 + n /\ p < d - j.
  Proof.
    revert j0 ct. induction n as [|n IH]; intros j0 ct H; cbn [hlle_writes_from] in H; [contradiction|].
    apply in_app_or in H. destruct H as [H|H].
    - apply in_map_iff in H. destruct H as [p' [Heq Hp]]. inversion Heq; subst.
      apply in_seq in Hp. lia.
    - apply IH in H. lia.
  Qed.

  Theorem hlle_sources sh d j p col :
    In (j, p, col) (hlle_writes sh d) -> 1 <= j + 1 <= d /\ 1 <= j + p + 1 <= d.
  Proof. intros H. apply hlle_sources_from in H. lia. Qed.

  (* F6 shipped: `ct += ct + target_dimension - j` *)
  Theorem hlle_columns_refuted :
    hlle_first_oob true 3 = Some 12 /\ hlle_ncols 3 = 10 /\
    hlle_first_oob true 4 = Some 16 /\ hlle_ncols 4 = 15 /\
    hlle_first_oob true 2 = None.
  Proof. vm_compute. repeat split. Qed.

  (* even where the shipped counter stays inside the buffer it is wrong from d = 3 on:
     the columns written are not the dp product columns *)
  Theorem hlle_columns_shipped_wrong :
    map wcol (hlle_writes true 3) = [4; 5; 6; 7; 8; 12] /\
    map wcol (hlle_writes false 3) = [4; 5; 6; 7; 8; 9].
  Proof. vm_compute. split; reflexivity. Qed.

  (* ---------------- no stale data after the repair ---------------- *)
  Lemma fold_writes_low (ws : list (nat * nat * nat)) lo (Y : mat) a c :
    (forall w, In w ws -> lo <= wcol w) -> c < lo ->
    fold_left hlle_apply_write ws Y a c = Y a c.
  Proof.
    revert Y. induction ws as [|w ws IH]; intros Y H Hc; cbn [fold_left]; [reflexivity|].
    rewrite IH by (try assumption; intros; apply H; right; assumption).
    destruct w as [[j p] col]. unfold hlle_apply_write, set_col.
    assert (Hcol : lo <= col) by (apply (H (j, p, col)); left; reflexivity).
    destruct (Nat.eqb c col) eqn:E; [apply Nat.eqb_eq in E; lia|reflexivity].
  Qed.

  Lemma fold_writes_other (ws : list (nat * nat * nat)) (Y : mat) a c :
    ~ In c (map wcol ws) -> fold_left hlle_apply_write ws Y a c = Y a c.
  Proof.
    revert Y. induction ws as [|w ws IH]; intros Y H; cbn [fold_left]; [reflexivity|].
    cbn [map] in H. rewrite IH by (intros K; apply H; right; assumption).
    destruct w as [[j p] col]. unfold hlle_apply_write, set_col.
    destruct (Nat.eqb c col) eqn:E; [|reflexivity].
    apply Nat.eqb_eq in E. exfalso. apply H. left. unfold wcol. cbn [snd]. congruence.
  Qed.

  Lemma fold_writes_hit (ws : list (nat * nat * nat)) lo (Y : mat) a j p col :
    NoDup (map wcol ws) ->
    (forall w, In w ws -> lo <= wcol w) ->
    (forall j p col, In (j, p, col) ws -> j + 1 < lo /\ j + p + 1 < lo) ->
    In (j, p, col) ws ->
    fold_left hlle_apply_write ws Y a col = fmul (Y a (j + 1)) (Y a (j + p + 1)).
  Proof.
    revert Y. induction ws as [|w ws IH]; intros Y Hnd Hlo Hsrc Hin; [contradiction|].
    cbn [fold_left]. cbn [map] in Hnd. inversion Hnd as [|x l Hnot Hnd']; subst.
    destruct Hin as [->|Hin].
    - rewrite fold_writes_other by exact Hnot.
      unfold hlle_apply_write, set_col. rewrite Nat.eqb_refl. reflexivity.
    - rewrite (IH _ Hnd') ; try assumption.
      + destruct (Hsrc j p col (or_intror Hin)) as [H1 H2].
        destruct w as [[j' p'] col']. unfold hlle_apply_write, set_col.
        assert (Hc' : lo <= col') by (apply (Hlo (j', p', col')); left; reflexivity).
        destruct (Nat.eqb (j + 1) col') eqn:E1; [apply Nat.eqb_eq in E1; lia|].
        destruct (Nat.eqb (j + p + 1) col') eqn:E2; [apply Nat.eqb_eq in E2; lia|].
        reflexivity.
      + intros w' Hw'. apply Hlo. right. assumption.
      + intros j' p' col' H'. apply (Hsrc j' p' col'). right. assumption.
  Qed.

  (* explicit contents of Yi after the product loop (repaired counter) *)
  Theorem hlle_Yprod_entries d (prev V : mat) a :
    hlle_Yprod false d prev V a 0 = fone /\
    (forall c, c < d -> hlle_Yprod false d prev V a (S c) = V a c) /\
    (forall j p col, In (j, p, col) (hlle_writes false d) ->
                     hlle_Yprod false d prev V a col = fmul (V a j) (V a (j + p))).
  Proof.
    unfold hlle_Yprod.
    assert (Hlo : forall w, In w (hlle_writes false d) -> 1 + d <= wcol w)
      by (intros w Hw; apply hlle_columns_in_range in Hw; lia).
    split; [|split].
    - rewrite (fold_writes_low _ (1 + d)) by (try assumption; lia). reflexivity.
    - intros c Hc. rewrite (fold_writes_low _ (1 + d)) by (try assumption; lia).
      cbn [hlle_Y0]. apply Nat.ltb_lt in Hc. rewrite Hc. reflexivity.
    - intros j p col Hin.
      rewrite (fold_writes_hit _ (1 + d) _ a j p col); try assumption.
      + pose proof (hlle_sources false d j p col Hin) as [H1 H2].
        replace (j + 1) with (S j) by lia. replace (j + p + 1) with (S (j + p)) by lia.
        cbn [hlle_Y0].
        assert (E1 : Nat.ltb j d = true) by (apply Nat.ltb_lt; lia).
        assert (E2 : Nat.ltb (j + p) d = true) by (apply Nat.ltb_lt; lia).
        rewrite E1, E2. reflexivity.
      + apply hlle_columns_nodup.
      + intros j' p' col' H'. apply hlle_sources in H'. lia.
  Qed.

  Theorem hlle_no_stale d (prev prev' V : mat) a c :
    c < hlle_ncols d ->
    hlle_Yprod false d prev V a c = hlle_Yprod false d prev' V a c.
  Proof.
    intros Hc.
    destruct (hlle_Yprod_entries d prev V a) as [H0 [H1 H2]].
    destruct (hlle_Yprod_entries d prev' V a) as [H0' [H1' H2']].
    destruct c as [|c]; [congruence|].
    destruct (Nat.lt_ge_cases c d) as [Hlt|Hge].
    - rewrite H1, H1' by assumption. reflexivity.
    - destruct (hlle_columns_cover d (S c) ltac:(lia)) as [[[j p] col] [Hw Hcol]].
      unfold wcol in Hcol. cbn [snd] in Hcol. subst col.
      rewrite (H2 _ _ _ Hw), (H2' _ _ _ Hw). reflexivity.
  Qed.

  (* the shipped counter leaves column 9 of the d = 3 buffer unwritten: stale data is used *)
  Theorem hlle_stale_refuted :
    ~ In 9 (map wcol (hlle_writes true 3)) /\ 9 < hlle_ncols 3.
  Proof. vm_compute. split; [intros H; repeat (destruct H as [H|H]; [discriminate|]); exact H|lia]. Qed.
End Hlle.
