(* ====================================================================== *)
(*  Pencil_Model.v — property C10 (NPE, LLTSA, LPP): executable model of   *)
(*  the three construct_*_eigenproblem routines, of the dense generalised  *)
(*  solver front end, of compute_mean and of project.  NO proofs here.     *)
(*                                                                         *)
(*  Anchors (pinned tree):                                                 *)
(*    routines/locally_linear.hpp   construct_neighborhood_preserving_     *)
(*                                  eigenproblem, construct_lltsa_eigen-   *)
(*                                  problem                                *)
(*    routines/laplacian_eigenmaps.hpp  construct_locality_preserving_     *)
(*                                  eigenproblem                           *)
(*    routines/generalized_eigendecomposition.hpp  (dense branch, DenseMa- *)
(*                                  trix pair: skip is the literal 0)      *)
(*    routines/pca.hpp              compute_mean, project                  *)
(*                                                                         *)
(*  Numbers: algebra regime (DESIGN 1.1) — an abstract field F, executed   *)
(*  and extracted at Qc.  On dyadic inputs every + - * /2 of the C++ is    *)
(*  exact in binary64, so model and implementation must agree exactly.     *)
(*  The constant -1./(end-begin) is the field element -(1/N) (exact in     *)
(*  binary64 when N is a power of two: the harness uses such N for LLTSA). *)
(*                                                                         *)
(*  Triangles (DESIGN 1.4): every matrix is a FULL D x D table.  The       *)
(*  routines write through selfadjointView<Upper>().rankUpdate, i.e. only  *)
(*  entries i <= j change (Mat_Core.rank_update_upper / rank_update2_upper)*)
(*  ; `rhs += rhs.transpose().eval(); rhs /= 2` is Mat_Core.sym_avg;       *)
(*  Eigen::GeneralizedSelfAdjointEigenSolver reads the LOWER triangles of  *)
(*  both arguments (Mat_Core.read_lower) — `seen` below.                   *)
(*                                                                         *)
(*  Variants.  `*_shipped`  = the pinned tree (before fix F9)                *)
(*             `*_repaired` = after fix F9 (commit dc5d8e7): both triangles *)
(*                            materialised from the upper one               *)
(*             `lltsa_fixed`= after F9 AND fix F25 (the `lhs` rank update   *)
(*                            by the feature sum removed)                   *)
(*             `lltsa_centred` = after F9, F25 AND fix F42 (commit 5b39b3c, *)
(*                            CURRENT): the mean is computed first and both *)
(*                            sides are accumulated from x - mean           *)
(*                                                                         *)
(*  Data layout: X : mat F is the D x N feature matrix (X f s = feature f  *)
(*  of sample s; tapkee's eigen_features_callback hands out column s).     *)
(*  A sparse matrix is the list of its stored entries (row, col, value)    *)
(*  in the order `for i < outerSize: for InnerIterator it(W,i)` visits     *)
(*  them.                                                                  *)
(* ====================================================================== *)

Require Import Arith List Bool.
From TK Require Import Mat_Sums Mat_Core Mat_EigSelect.
Import ListNotations.

Section PencilModel.
  Context {F : Type} {Fo : FieldOps F}.
  Local Open Scope F_scope.

  Definition mzero : mat F := fun _ _ => 0.
  Definition vzero : vec F := fun _ => 0.

  (* feature_vector_callback.vector(s, out): out = X.col(s) *)
  Definition fvec (X : mat F) (s : nat) : vec F := fun f => X f s.

  Definition sparse : Type := list (nat * nat * F).

  (* for (iter = begin; iter != end; ++iter)
       { callback.vector(it, v); M.selfadjointView<Upper>().rankUpdate(v, a(iter)); }   *)
  Definition acc_samples (X : mat F) (N : nat) (a : nat -> F) (M0 : mat F) : mat F :=
    fold_left (fun M s => rank_update_upper (a s) (fvec X s) M) (seq 0 N) M0.

  (* for (i < W.outerSize()) for (InnerIterator it(W,i); it; ++it)
       { vector(begin[it.row()], vi); vector(begin[it.col()], vj);
         M.selfadjointView<Upper>().rankUpdate(vi, vj, it.value()); }                      *)
  Definition acc_sparse (X : mat F) (W : sparse) (M0 : mat F) : mat F :=
    fold_left (fun M e => match e with
                          | (r, c, v) => rank_update2_upper v (fvec X r) (fvec X c) M
                          end) W M0.

  (* sum += rank_update_vector_i  (LLTSA)  /  mean += current_vector (compute_mean) *)
  Definition feature_sum (X : mat F) (N : nat) : vec F :=
    fold_left (fun acc s => vadd acc (fvec X s)) (seq 0 N) vzero.

  Record pencil : Type := { p_lhs : mat F; p_rhs : mat F }.

  (* -1. / (end - begin) *)
  Definition minus_inv_n (N : nat) : F := - (1 / of_nat N).

  (* ------------------------- shipped routines ------------------------- *)
  Definition npe_shipped (X : mat F) (N : nat) (W : sparse) : pencil :=
    let rhs := acc_samples X N (fun _ => 1) mzero in
    let lhs := acc_sparse X W mzero in
    {| p_lhs := lhs; p_rhs := sym_avg rhs |}.

  Definition lltsa_shipped (X : mat F) (N : nat) (W : sparse) : pencil :=
    let s := feature_sum X N in
    let rhs := rank_update_upper (minus_inv_n N) s (acc_samples X N (fun _ => 1) mzero) in
    let lhs := rank_update_upper (minus_inv_n N) s (acc_sparse X W mzero) in
    {| p_lhs := lhs; p_rhs := sym_avg rhs |}.

  Definition lpp_shipped (X : mat F) (N : nat) (L : sparse) (dv : vec F) : pencil :=
    let rhs := acc_samples X N dv mzero in
    let lhs := acc_sparse X L mzero in
    {| p_lhs := lhs; p_rhs := rhs |}.

  (* ------------------------- repaired routines (fixes/F09) -------------------------
     `lhs = lhs.selfadjointView<Eigen::Upper>(); rhs = rhs.selfadjointView<Eigen::Upper>();`
     replaces the (M + M^T)/2 lines of NPE/LLTSA and is added to LPP.                    *)
  Definition npe_repaired (X : mat F) (N : nat) (W : sparse) : pencil :=
    let rhs := acc_samples X N (fun _ => 1) mzero in
    let lhs := acc_sparse X W mzero in
    {| p_lhs := sym_from_upper lhs; p_rhs := sym_from_upper rhs |}.

  Definition lltsa_repaired (X : mat F) (N : nat) (W : sparse) : pencil :=
    let s := feature_sum X N in
    let rhs := rank_update_upper (minus_inv_n N) s (acc_samples X N (fun _ => 1) mzero) in
    let lhs := rank_update_upper (minus_inv_n N) s (acc_sparse X W mzero) in
    {| p_lhs := sym_from_upper lhs; p_rhs := sym_from_upper rhs |}.

  (* fixes/F25: the line `lhs.selfadjointView<Upper>().rankUpdate(sum, -1./(end-begin))` removed *)
  Definition lltsa_fixed (X : mat F) (N : nat) (W : sparse) : pencil :=
    let s := feature_sum X N in
    let rhs := rank_update_upper (minus_inv_n N) s (acc_samples X N (fun _ => 1) mzero) in
    let lhs := acc_sparse X W mzero in
    {| p_lhs := sym_from_upper lhs; p_rhs := sym_from_upper rhs |}.

  (* fixes/F42 (current code):
       for iter: mean += x;            mean /= (end - begin);
       for iter: v = x - mean;         rhs.selfadjointView<Upper>().rankUpdate(v);
       for stored (r,c,value): vi = x_r - mean; vj = x_c - mean;
                                       lhs.selfadjointView<Upper>().rankUpdate(vi, vj, value);   *)
  Definition compute_mean0 (X : mat F) (N : nat) : vec F :=
    fun f => feature_sum X N f / of_nat N.
  Definition centred (X : mat F) (N : nat) : mat F :=
    fun f s => X f s - compute_mean0 X N f.
  Definition lltsa_centred (X : mat F) (N : nat) (W : sparse) : pencil :=
    let Xc := centred X N in
    let rhs := acc_samples Xc N (fun _ => 1) mzero in
    let lhs := acc_sparse Xc W mzero in
    {| p_lhs := sym_from_upper lhs; p_rhs := sym_from_upper rhs |}.

  Definition lpp_repaired (X : mat F) (N : nat) (L : sparse) (dv : vec F) : pencil :=
    let rhs := acc_samples X N dv mzero in
    let lhs := acc_sparse X L mzero in
    {| p_lhs := sym_from_upper lhs; p_rhs := sym_from_upper rhs |}.

  (* NOT the code: the textbook ONE-PASS rewrite of the LLTSA right-hand side (Wave 3, seeded change C10_3)
       for iter: mean += x;  rhs.selfadjointView<Upper>().rankUpdate(x);          (uncentred x)
       mean /= (end - begin);
       rhs.selfadjointView<Upper>().rankUpdate(mean, -(end - begin));              sum x x^T - N m m^T
     with the left-hand side still accumulated from x - mean.  Over an exact field it returns the same
     tables as lltsa_centred (Pencil_Proof_OnePass.lltsa_rhs_one_pass_equal): the two formulas differ ONLY
     in binary64 rounding (error ~ eps * (offset/spread)^2 against eps * offset/spread), which no exact
     model can see; the large-offset cases of the exact stream (inputs on which the centred accumulation is
     exact in binary64 while the expanded sums exceed 2^53) and the tolerance stream decide it. *)
  Definition lltsa_one_pass (X : mat F) (N : nat) (W : sparse) : pencil :=
    let m := compute_mean0 X N in
    let Xc := centred X N in
    let rhs := rank_update_upper (- of_nat N) m (acc_samples X N (fun _ => 1) mzero) in
    let lhs := acc_sparse Xc W mzero in
    {| p_lhs := sym_from_upper lhs; p_rhs := sym_from_upper rhs |}.

  (* ------------------------- the consumer -------------------------
     generalized_eigendecomposition_impl_dense: DenseMatrix dense_lhs = lhs, dense_rhs = rhs;
     Eigen::GeneralizedSelfAdjointEigenSolver<DenseMatrix> solver(dense_lhs, dense_rhs);
     the solver (Cholesky of rhs, selfadjointView<Lower> of lhs) reads LOWER triangles only. *)
  Definition seen (p : pencil) : pencil :=
    {| p_lhs := read_lower (p_lhs p); p_rhs := read_lower (p_rhs p) |}.

  (* solver.eigenvectors().leftCols(target_dimension + skip).rightCols(target_dimension) with
     skip = 0 (generalized_eigendecomposition_impl<DenseMatrix,DenseMatrix>::dense passes the
     literal 0, whatever eigen_strategy.skip() says) *)
  Definition gen_dense_cols : list blockop := [BLeft (EAdd ETarget ESkip); BRight ETarget].
  Definition gen_dense_skip : nat := 0.

  Inductive result (A : Type) : Type :=
  | Ok (a : A)
  | OOB (site index size : nat).
  Arguments Ok {A} a.
  Arguments OOB {A} site index size.

  Definition select_cols (D d : nat) (V : mat F) : result (mat F) :=
    match eval_ops d gen_dense_skip D gen_dense_cols with
    | Some (off, _) => Ok (fun i j => V i (off + j)%nat)
    | None => OOB 3 d D
    end.

  (* routines/pca.hpp compute_mean: mean += v for every sample; mean.array() /= (end - begin) *)
  Definition compute_mean (X : mat F) (N : nat) : vec F := compute_mean0 X N.

  (* routines/pca.hpp project: embedding.row(s) = P^T * (x_s - mean)   (N x d) *)
  Definition project (D : nat) (P : mat F) (m : vec F) (X : mat F) : mat F :=
    fun s j => sumn D (fun f => P f j * (X f s - m f)).

  (* ------------------------- the embed() bodies -------------------------
     methods/neighborhood_preserving_embedding.hpp, linear_local_tangent_space_alignment.hpp,
     locality_preserving_projections.hpp, all three alike:
        eig_matrices      = construct_*_eigenproblem(weight matrix, begin, end, features, current_dimension);
        projection_result = generalized_eigendecomposition(eigen_method, strategy, SmallestEigenvalues,
                                                           eig_matrices.first, eig_matrices.second, target_dimension);
        mean_vector       = compute_mean(begin, end, features, current_dimension);
        return (project(projection_result.first, mean_vector, ...), MatrixProjectionImplementation(first, mean))
     The eigensolver is an ORACLE: a function from what it reads of the pencil to (V, lam).            *)
  Record embed_result : Type := { e_proj : mat F; e_mean : vec F; e_emb : mat F; e_vals : vec F }.

  Definition embed_body (oracle : pencil -> mat F * vec F) (p : pencil) (D d N : nat) (X : mat F)
    : result embed_result :=
    let '(V, lam) := oracle (seen p) in
    match select_cols D d V with
    | Ok P => let m := compute_mean X N in
              Ok {| e_proj := P; e_mean := m; e_emb := project D P m X; e_vals := lam |}
    | OOB a b c => OOB a b c
    end.

  Definition npe_embed oracle D d N X W := embed_body oracle (npe_repaired X N W) D d N X.
  Definition lltsa_embed oracle D d N X W := embed_body oracle (lltsa_centred X N W) D d N X.
  Definition lpp_embed oracle D d N X L dv := embed_body oracle (lpp_repaired X N L dv) D d N X.

  (* ------------------------- the front end's dispatch (Wave 2) -------------------------
     generalized_eigendecomposition(method, strategy, eigen_strategy, lhs, rhs, target_dimension)
     in a build without TAPKEE_WITH_ARPACK / TAPKEE_WITH_VIENNACL (what is built here):
        if (method.is(Dense))
            impl<DenseMatrix,DenseMatrix>().dense:  if (strategy.is(HomogeneousCPUStrategy))
                                                    { if (eigen_strategy.is(SmallestEigenvalues)) return dense solver, skip 0;
                                                      unsupported(); }
                                                    unsupported();
        if (method.is(Randomized)) throw unsupported_method_error(...);
        return EigendecompositionResult();
     The three methods pass SmallestEigenvalues.  `Refused site`: 1 = Randomized, 2 = computation strategy,
     3 = eigendecomposition strategy (all three: unsupported_method_error). *)
  Inductive eig_method : Type := EMDense | EMRandomized.
  Inductive comp_strategy : Type := CSHomogeneousCPU | CSOther.
  Inductive eig_strategy : Type := ESSmallest | ESLargest | ESSquaredLargest.

  Inductive front (A : Type) : Type :=
  | Answer (r : result A)
  | Refused (site : nat).
  Arguments Answer {A} r.
  Arguments Refused {A} site.

  Definition embed_front (em : eig_method) (cs : comp_strategy) (es : eig_strategy)
             (oracle : pencil -> mat F * vec F) (p : pencil) (D d N : nat) (X : mat F)
    : front embed_result :=
    match em with
    | EMDense =>
        match cs with
        | CSHomogeneousCPU =>
            match es with
            | ESSmallest => Answer (embed_body oracle p D d N X)
            | _ => Refused 3
            end
        | CSOther => Refused 2
        end
    | EMRandomized => Refused 1
    end.

  (* ------------------------- list level (execution / extraction) ------------------------- *)
  (* first stored entry whose row or column index is not a sample index *)
  Fixpoint bad_index (N : nat) (W : sparse) : option nat :=
    match W with
    | [] => None
    | (r, c, _) :: rest =>
        if Nat.ltb r N then (if Nat.ltb c N then bad_index N rest else Some c) else Some r
    end.

  Inductive method : Type := NPE | LLTSA | LPP.
  Inductive variant : Type := VShipped | VF9 | VF25 | VF42.

  (* Xl : D rows of N entries.  sites: 0 = feature matrix shape, 1 = sparse index, 2 = N = 0 in
     -1./(end-begin), 4 = degree vector length *)
  Definition run_construct (v : variant) (m : method) (N D : nat)
             (Xl : list (list F)) (W : sparse) (dvl : list F)
    : result (list (list F) * list (list F)) :=
    if negb (wf_matb D N Xl) then OOB 0 (length Xl) D else
    match bad_index N W with
    | Some i => OOB 1 i N
    | None =>
        let X := mof Xl in
        match m with
        | NPE =>
            let p := match v with VShipped => npe_shipped X N W | _ => npe_repaired X N W end in
            Ok (mtab D D (p_lhs p), mtab D D (p_rhs p))
        | LLTSA =>
            if Nat.eqb N 0 then OOB 2 0 0 else
            let p := match v with
                     | VShipped => lltsa_shipped X N W
                     | VF9 => lltsa_repaired X N W
                     | VF25 => lltsa_fixed X N W
                     | VF42 => lltsa_centred X N W
                     end in
            Ok (mtab D D (p_lhs p), mtab D D (p_rhs p))
        | LPP =>
            if negb (Nat.eqb (length dvl) N) then OOB 4 (length dvl) N else
            let dv := vof dvl in
            let p := match v with VShipped => lpp_shipped X N W dv | _ => lpp_repaired X N W dv end in
            Ok (mtab D D (p_lhs p), mtab D D (p_rhs p))
        end
    end.

  (* compute_mean + project on lists (what the three methods do after the solver).  sites: 0 = feature
     matrix shape, 5 = projection matrix shape, 2 = N = 0 in `mean.array() /= (end - begin)` *)
  Definition run_project (N D d : nat) (Xl Pl : list (list F)) : result (list F * list (list F)) :=
    if negb (wf_matb D N Xl) then OOB 0 (length Xl) D else
    if negb (wf_matb D d Pl) then OOB 5 (length Pl) D else
    if Nat.eqb N 0 then OOB 2 0 0 else
    let X := mof Xl in
    let ml := vtab D (compute_mean X N) in            (* memoise the mean *)
    let m := vof ml in
    Ok (ml, mtab N d (project D (mof Pl) m X)).

  (* what the solver sees of a pair of full tables *)
  Definition seen_tables (D : nat) (lhs rhs : list (list F)) : list (list F) * list (list F) :=
    (mtab D D (read_lower (mof lhs)), mtab D D (read_lower (mof rhs))).

End PencilModel.

Arguments Ok {A} a.
Arguments OOB {A} site index size.
Arguments Answer {A} r.
Arguments Refused {A} site.
Arguments pencil F : clear implicits.
Arguments sparse F : clear implicits.
