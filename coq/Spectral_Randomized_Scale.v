(* ====================================================================== *)
(*  Spectral_Randomized_Scale.v — the orthonormalisation loop of the       *)
(*  randomized front-end and SCALE (C06, wave 2).                          *)
(*   * the plain modified Gram-Schmidt loop is scale invariant: on c*Y     *)
(*     with the norms c*s_i it produces the same orthonormal columns as    *)
(*     on Y with the norms s_i (any c <> 0, non-vanishing norms);          *)
(*   * the loop AS SHIPPED, with its absolute cut-off `norm < 1e-4`, is    *)
(*     not: regression theorem with a concrete witness (full-rank input    *)
(*     scaled by 1e-5: every column is zeroed).  This is the scale side of *)
(*     known finding F36.                                                  *)
(*  Every field for the positive part; Qc for the witness.                 *)
(* ====================================================================== *)
Require Import Field Ring Arith Lia List Bool.
From TK Require Import Mat_Sums Mat_Core Spectral_Randomized.

Section RandomizedScale.
  Context {F : Type} {Fo : FieldOps F} {Ff : IsField F}.
  Add Field RandomizedScaleField : (@Fth F Fo Ff).
  Local Open Scope nat_scope.
  Local Open Scope F_scope.

  (* gs_subtract only reads the columns j' < j of Y and is linear in `col` *)
  Lemma gs_subtract_scale n (Y Y' : mat F) i j c (col col' : vec F) :
    (forall t b, b < j -> Y' t b = Y t b) -> (forall u, col' u = c * col u) ->
    forall t, gs_subtract n Y' i j col' t = c * gs_subtract n Y i j col t.
  Proof.
    induction j as [|j IH]; intros HY Hcol t; [apply Hcol|].
    cbn [gs_subtract]. cbv zeta.
    assert (HYj : forall t b, b < j -> Y' t b = Y t b) by (intros; apply HY; lia).
    rewrite (IH HYj Hcol t). rewrite (HY t j) by lia.
    assert (E : dot n (gs_subtract n Y' i j col') (fun t0 => Y' t0 j) =
                c * dot n (gs_subtract n Y i j col) (fun t0 => Y t0 j)).
    { unfold dot. rewrite <- sumn_mul_l. apply sumn_ext. intros u _.
      rewrite (IH HYj Hcol u). rewrite (HY u j) by lia. ring. }
    rewrite E. ring.
  Qed.

  (* invariant of the two runs: finished columns coincide, untouched columns differ by c *)
  Theorem gram_schmidt_scale_invariant n (Y : mat F) k (s : nat -> F) c :
    c <> 0 -> (forall i, i < k -> s i <> 0) ->
    (forall t b, b < k ->
       gram_schmidt n (fun t b => c * Y t b) k (fun i => c * s i) t b = gram_schmidt n Y k s t b) /\
    (forall t b, k <= b ->
       gram_schmidt n (fun t b => c * Y t b) k (fun i => c * s i) t b = c * gram_schmidt n Y k s t b).
  Proof.
    intros Hc. induction k as [|k IH]; intros Hs.
    - split; intros t b Hb; [lia|reflexivity].
    - destruct IH as [IHlt IHge]; [intros; apply Hs; lia|].
      cbn [gram_schmidt].
      set (G' := gram_schmidt n (fun t b => c * Y t b) k (fun i => c * s i)) in *.
      set (G := gram_schmidt n Y k s) in *.
      split.
      + intros t b Hb. unfold gs_step. destruct (Nat.eqb b k) eqn:E.
        * apply Nat.eqb_eq in E. subst b.
          rewrite (gs_subtract_scale n G G' k k c (fun u => G u k) (fun u => G' u k));
            [|intros; apply IHlt; assumption|intros u; apply IHge; lia].
          field. split; [apply Hs; lia|assumption].
        * apply Nat.eqb_neq in E. apply IHlt. lia.
      + intros t b Hb. unfold gs_step. assert (E : Nat.eqb b k = false) by (apply Nat.eqb_neq; lia).
        rewrite E. apply IHge. lia.
  Qed.
End RandomizedScale.

(* ---------------- the loop as shipped: the absolute cut-off breaks scale invariance ---------------- *)
Require Import ZArith QArith Qcanon.
From TK Require Import Mat_Qc Proj_Spec.
Import ListNotations.
Local Open Scope nat_scope.

(* norm < 1e-4 (strict), on exact rationals *)
Definition below_1e4 (x : Qc) : bool := pq_leb x (qfrac 1 10000) && negb (qeqb x (qfrac 1 10000)).

Definition exrs_Y : mat Qc := mof [[qz 1; qz 0]; [qz 0; qz 1]].     (* full rank, already orthonormal *)
Definition exrs_s : nat -> Qc := fun _ => qz 1.                      (* the column norms *)
Definition exrs_c : Qc := qfrac 1 100000.                            (* scale 1e-5 *)

(* witness: on Y the shipped loop returns Y (orthonormal); on c*Y, with the correspondingly scaled norms, it
   zeroes every column, whereas the plain loop returns the same orthonormal columns (previous theorem) *)
Theorem gram_schmidt_cutoff_not_scale_invariant :
  exrs_c <> Q2Qc 0 /\ (forall i, i < 2 -> exrs_s i <> Q2Qc 0) /\
  (forall t b, t < 2 -> b < 2 -> gram_schmidt_thr below_1e4 2 exrs_Y 2 exrs_s t b = exrs_Y t b) /\
  (forall t b, t < 2 -> b < 2 ->
     gram_schmidt_thr below_1e4 2 (fun t b => (exrs_c * exrs_Y t b)%Qc) 2 (fun i => (exrs_c * exrs_s i)%Qc) t b = Q2Qc 0) /\
  (forall t b, t < 2 -> b < 2 ->
     gram_schmidt 2 (fun t b => (exrs_c * exrs_Y t b)%Qc) 2 (fun i => (exrs_c * exrs_s i)%Qc) t b = exrs_Y t b).
Proof.
  split; [intros H; apply (f_equal this) in H; vm_compute in H; discriminate|].
  split; [intros i _ H; apply (f_equal this) in H; vm_compute in H; discriminate|].
  split; [|split]; intros t b Ht Hb;
    (destruct t as [|[|t]]; [| |lia]); (destruct b as [|[|b]]; [| |lia]);
    apply Qc_is_canon; vm_compute; reflexivity.
Qed.
