(* Knn_CoverSel_Proof.v — proofs about Knn_CoverSel_Model.v *)
From Coq Require Import List ZArith Bool Lia Permutation Sorted.
From TK Require Import Knn_Spec Knn_CoverSel_Model Knn_VpTree_Model.
Import ListNotations.
Local Open Scope Z_scope.

Lemma sort_cands_perm : forall d q l, Permutation l (sort_cands d q l).
Proof.
  intros d q l. unfold sort_cands.
  apply (perm_trans (l' := isort_by (fun x => x) l)); apply isort_by_perm.
Qed.

Lemma sort_cands_sorted : forall d q l, StronglySorted (key_le (d q)) (sort_cands d q l).
Proof. intros d q l. unfold sort_cands. apply isort_by_sorted. Qed.

Lemma closer_cands_In : forall d q j cands c,
  In c (closer_cands d q j cands) <-> In c cands /\ c <> q /\ d q c <= d q j.
Proof.
  intros d q j cands c. unfold closer_cands.
  rewrite filter_In, andb_true_iff, negb_true_iff, Z.eqb_neq, Z.leb_le. tauto.
Qed.

(* The repaired selection is exact for every candidate list meeting the contract. *)
Lemma ct_select_exact_lemma : forall d N q k cands,
  in_range N q -> (k < N)%nat ->
  cand_complete d N q k cands ->
  exists l, ct_select_fixed d (q :: cands) k = Some l /\ is_knn d N q k l.
Proof.
  intros d N q k cands Hq Hk (Hnd & Hrng & Hcomp).
  unfold ct_select_fixed. eexists. split; [reflexivity|].
  set (C' := filter (fun j => negb (j =? q)) cands).
  set (S := sort_cands d q C').
  assert (HC' : forall x, In x C' <-> In x cands /\ x <> q).
  { intros x. unfold C'. rewrite filter_In, negb_true_iff, Z.eqb_neq. tauto. }
  assert (HndC : NoDup C') by (apply NoDup_filter; assumption).
  assert (HpS : Permutation C' S) by apply sort_cands_perm.
  assert (HndS : NoDup S) by (eapply Permutation_NoDup; eassumption).
  assert (HsS : StronglySorted (key_le (d q)) S) by apply sort_cands_sorted.
  assert (HinS : forall x, In x S <-> In x cands /\ x <> q).
  { intros x. rewrite <- HC'. split; apply Permutation_in; [now apply Permutation_sym | assumption]. }
  assert (Hlen : (k <= length S)%nat).
  { rewrite <- (Permutation_length HpS).
    destruct (Forall_Exists_dec (fun j => In j cands) (fun j => in_dec Z.eq_dec j cands) (others N q))
      as [Hall|Hex].
    - rewrite Forall_forall in Hall.
      assert (Hincl : incl (others N q) C').
      { intros j Hj. apply HC'. split; [now apply Hall|]. apply others_In in Hj. tauto. }
      pose proof (NoDup_incl_length (others_NoDup N q) Hincl) as Hle.
      pose proof (remove_length_NoDup (samples N) q (samples_NoDup N)) as Hrm.
      rewrite <- others_remove in Hrm. unfold samples in Hrm at 2. rewrite zseq_length in Hrm.
      specialize (Hrm (proj2 (samples_In N q) Hq)). lia.
    - apply Exists_exists in Hex. destruct Hex as [j [Hj Hnin]]. apply others_In in Hj.
      destruct Hj as [Hjr Hjq]. specialize (Hcomp j Hjr Hjq Hnin).
      assert (Hincl : incl (closer_cands d q j cands) C').
      { intros c Hc. apply closer_cands_In in Hc. apply HC'. tauto. }
      assert (Hndc : NoDup (closer_cands d q j cands)) by (apply NoDup_filter; assumption).
      pose proof (NoDup_incl_length Hndc Hincl). lia. }
  assert (HinL : forall x, In x (firstn k S) -> In x S).
  { intros x Hx. rewrite <- (firstn_skipn k S). apply in_or_app. now left. }
  repeat split.
  - now apply NoDup_firstn_Z.
  - rewrite firstn_length. lia.
  - intros Hin. apply HinL, HinS in Hin. now destruct Hin.
  - apply HinL, HinS in H. destruct H as [H _]. now apply Hrng in H.
  - apply HinL, HinS in H. destruct H as [H _]. now apply Hrng in H.
  - intros i j Hi Hnj Hjq Hjr.
    destruct (in_dec Z.eq_dec j cands) as [Hjc|Hjc].
    + assert (HjS : In j S) by (apply HinS; now split).
      rewrite <- (firstn_skipn k S) in HjS. apply in_app_or in HjS.
      destruct HjS as [HjS|HjS]; [contradiction|].
      exact (sorted_firstn_skipn_le (d q) S k i j HsS Hi HjS).
    + destruct (Z.le_gt_cases (d q i) (d q j)) as [Hle|Hgt]; [assumption|exfalso].
      specialize (Hcomp j Hjr Hjq Hjc).
      assert (Hndc : NoDup (closer_cands d q j cands)) by (apply NoDup_filter; assumption).
      assert (HndL : NoDup (firstn k S)) by now apply NoDup_firstn_Z.
      assert (Hincl : incl (closer_cands d q j cands) (remove Z.eq_dec i (firstn k S))).
      { intros c Hc. apply closer_cands_In in Hc. destruct Hc as (Hcc & Hcq & Hcd).
        assert (HcS : In c S) by (apply HinS; now split).
        rewrite <- (firstn_skipn k S) in HcS. apply in_app_or in HcS. destruct HcS as [HcS|HcS].
        - apply in_in_remove; [|assumption]. intros ->. lia.
        - pose proof (sorted_firstn_skipn_le (d q) S k i c HsS Hi HcS). lia. }
      pose proof (NoDup_incl_length Hndc Hincl) as Hle.
      pose proof (remove_length_NoDup (firstn k S) i HndL Hi) as Hrm.
      rewrite firstn_length in Hrm. lia.
Qed.

(* The natural contract of the batch query — "everything within some bound B that at
   least k others meet" — implies cand_complete. *)
Lemma cand_bound_complete : forall d N q k cands B,
  NoDup cands -> (forall j, In j cands -> in_range N j) ->
  (forall j, in_range N j -> d q j <= B -> In j cands) ->
  (k <= length (filter (fun i => (d q i <=? B)%Z) (others N q)))%nat ->
  cand_complete d N q k cands.
Proof.
  intros d N q k cands B Hnd Hrng Hall Hcnt. split; [assumption|]. split; [assumption|].
  intros j Hjr Hjq Hnin.
  assert (HB : B < d q j).
  { destruct (Z.lt_ge_cases B (d q j)) as [H|H]; [assumption|]. exfalso. apply Hnin. apply Hall; [assumption | lia]. }
  assert (Hincl : incl (filter (fun i => (d q i <=? B)%Z) (others N q)) (closer_cands d q j cands)).
  { intros c Hc. apply filter_In in Hc. destruct Hc as [Hc Hcd]. apply Z.leb_le in Hcd.
    apply others_In in Hc. destruct Hc as [Hcr Hcq]. apply closer_cands_In.
    split; [now apply Hall|]. split; [assumption | lia]. }
  assert (Hndf : NoDup (filter (fun i => (d q i <=? B)%Z) (others N q))) by (apply NoDup_filter, others_NoDup).
  pose proof (NoDup_incl_length Hndf Hincl). lia.
Qed.

Lemma cand_complete_b_sound : forall d N q k cands,
  cand_complete_b d N q k cands = true -> cand_complete d N q k cands.
Proof.
  intros d N q k cands H. unfold cand_complete_b in H. rewrite !andb_true_iff in H.
  destruct H as [[Hnd Hrng] Hcomp]. apply nodup_b_spec in Hnd. rewrite forallb_forall in Hrng, Hcomp.
  split; [assumption|]. split.
  - intros j Hj. specialize (Hrng j Hj). apply andb_true_iff in Hrng. destruct Hrng. lia.
  - intros j Hjr Hjq Hnin. specialize (Hcomp j (proj2 (samples_In N j) Hjr)).
    rewrite !orb_true_iff in Hcomp. destruct Hcomp as [[He|Hm]|Hle].
    + apply Z.eqb_eq in He. contradiction.
    + apply zmem_In in Hm. contradiction.
    + now apply Nat.leb_le.
Qed.

(* ---------- the shipped selection is refuted ---------- *)

(* 3 x 3 integer grid (sample i = (i / 3, i mod 3)), L1 metric, query 0 = corner, k = 3.
   `grid_cands` is the candidate list the real batch query returned for this row (the six
   samples within the 4th smallest distance 2, in the order the tree walk produced them);
   the shipped loop keeps the first k+1 = 4 entries, drops the query, and returns the three
   samples 6, 4, 2 at distance 2, although samples 1 and 3 are at distance 1. *)
Definition grid_d : dist := fun i j => Z.abs (i / 3 - j / 3) + Z.abs (i mod 3 - j mod 3).
Definition grid_cands : list Z := [6; 4; 2; 0; 3; 1].

Lemma ct_select_refuted_lemma :
  exists (d : dist) (N : nat) (q : Z) (k : nat) (cands l : list Z),
    metric_on (in_range N) d /\ in_range N q /\ (k < N)%nat /\
    cand_complete d N q k cands /\ cand_exact_b d N q k cands = true /\
    ct_select (q :: cands) k = Some l /\ ~ is_knn d N q k l.
Proof.
  exists grid_d, 9%nat, 0, 3%nat, grid_cands, [6; 4; 2].
  split; [|split; [|split; [|split; [|split; [|split]]]]].
  - apply metric_b_sound. vm_compute. reflexivity.
  - unfold in_range. cbn. lia.
  - lia.
  - apply cand_complete_b_sound. vm_compute. reflexivity.
  - vm_compute. reflexivity.
  - vm_compute. reflexivity.
  - intros H. apply is_knn_b_spec in H. vm_compute in H. discriminate.
Qed.

(* ... and it may also return k+1 entries: the line 0,1,2, query 1, k = 1; the real
   candidate list is [2; 0; 1], both 2 and 0 are returned. *)
Definition line_d : dist := fun i j => Z.abs (i - j).

Lemma ct_select_count_refuted_lemma :
  exists (d : dist) (N : nat) (q : Z) (k : nat) (cands l : list Z),
    metric_on (in_range N) d /\ in_range N q /\ (k < N)%nat /\
    cand_complete d N q k cands /\
    ct_select (q :: cands) k = Some l /\ length l = Datatypes.S k.
Proof.
  exists line_d, 3%nat, 1, 1%nat, [2; 0; 1], [2; 0].
  split; [|split; [|split; [|split; [|split]]]].
  - apply metric_b_sound. vm_compute. reflexivity.
  - unfold in_range. cbn. lia.
  - lia.
  - apply cand_complete_b_sound. vm_compute. reflexivity.
  - vm_compute. reflexivity.
  - reflexivity.
Qed.

Lemma covertree_exact_partial_lemma : forall d N q k cands,
  in_range N q -> (k < N)%nat ->
  cand_complete_b d N q k cands = true ->
  exists l, ct_select_fixed d (q :: cands) k = Some l /\ is_knn d N q k l.
Proof.
  intros d N q k cands Hq Hk H. apply ct_select_exact_lemma; try assumption.
  now apply cand_complete_b_sound.
Qed.

(* the VP-tree the model build produces for the 3 x 3 grid (used by the examples) *)
Definition grid_tree : Knn_VpTree_Model.vpt :=
  match Knn_VpTree_Model.build grid_d Knn_VpTree_Model.piv_first (Knn_VpTree_Model.nth_sort grid_d)
                               10 0 (samples 9) with
  | Knn_VpTree_Model.Built t => t
  | _ => Knn_VpTree_Model.E
  end.
