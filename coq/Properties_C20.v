(* Properties_C20.v — property C20: the CLI writes exactly what the library computes for the
   options given.  Only statements; every proof is `exact <lemma>`.
   gen_* are the tables translate/t_cli.py regenerates from src/cli/main.cpp and src/cli/util.hpp of
   the working tree on every run (coq/gen/Cli.v); doc_* / spec_* are the documented behaviour
   (coq/Cli_Spec.v); cli_decide / cli_main / read_data_* / write_matrix / transpose /
   matrix_from_callback are the executable model (coq/Cli_Model.v). *)
From Coq Require Import String Ascii List ZArith QArith Bool Arith Permutation Floats.
From TK Require Import Cli_Model Cli_Spec Cli_Argv_Model Cli_Argv_Spec Cli_Proof_Argv Cli_Proof_Decide Cli_Proof_Files Cli_Proof_Transpose
  Cli_Proof_Pre Cli_Proof_Main Cli_Proof_Exit Cli_Proof_Round Cli_Proof_Perm Cli_Proof_IntIO Cli_Proof_Shape Cli_Proof_Gen Cli_IntParse_Model Cli_Proof_IntParse Cli_Proof_ArgvInt Cli_Float_Model Cli_Proof_Expand Cli.
Import ListNotations.
Local Close Scope Q_scope.
Local Open Scope string_scope.

(* ---- wiring: the generated tables are the documented ones (finite; by evaluation), the early-exit
   tests up to their order ---- *)
Theorem cli_wiring :
  with_exits gen_tables doc_exits = doc_tables /\ Permutation doc_exits gen_exits /\
  gen_read_loop = doc_read_loop /\ gen_precompute = doc_precompute.
Proof. exact gen_tables_all. Qed.
Print Assumptions cli_wiring.

(* ... and that order is irrelevant: every exit and both handlers of main() return the same code *)
Theorem cli_exit_order_irrelevant : forall T xs ok g,
  Permutation (t_exits T) xs -> uniform T g (t_exits T) ->
  decide_view (with_exits T xs) ok g = decide_view T ok g.
Proof. exact decide_view_exits_perm. Qed.
Print Assumptions cli_exit_order_irrelevant.

Example cli_exit_order_irrelevant_nonvacuous : forall g, uniform doc_tables g (t_exits doc_tables).
Proof. exact doc_exits_uniform. Qed.

Theorem cli_wiring_lines : forall kv, In kv gen_wiring <-> In kv doc_wiring.
Proof. exact gen_wiring_lines. Qed.
Print Assumptions cli_wiring_lines.

(* ---- for EVERY command line the generated tables behave as the documented function ---- *)
Theorem cli_refines_spec : forall a, cli_decide gen_tables a = spec_decide a.
Proof. exact gen_decide_spec. Qed.
Print Assumptions cli_refines_spec.

(* every keyword receives the value of the option its help text names (record run_facts) *)
Theorem cli_wiring_sem : forall a ps io, cli_decide gen_tables a = Run ps io ->
  run_facts (args_ok doc_options a) (view_of a) ps io.
Proof. exact gen_wiring_sem. Qed.
Print Assumptions cli_wiring_sem.

Example cli_wiring_sem_nonvacuous : exists ps io, cli_decide gen_tables [] = Run ps io.
Proof. eexists. eexists. vm_compute. reflexivity. Qed.

(* --spe-local selects the local strategy *)
Theorem cli_spe_local : forall a ps io, cli_decide gen_tables a = Run ps io ->
  assoc "spe_global_strategy" ps = Some (VBool (negb (flag (view_of a) ["spe-local"]))).
Proof. exact gen_spe_local. Qed.
Print Assumptions cli_spe_local.

Example cli_spe_local_nonvacuous : exists ps io,
  cli_decide gen_tables [("spe-local", AFlag)] = Run ps io /\
  assoc "spe_global_strategy" ps = Some (VBool false).
Proof. eexists. eexists. split; vm_compute; reflexivity. Qed.

(* the line shipped before fix F15 bound the flag to the GLOBAL strategy *)
Theorem spe_local_refuted :
  exists a ps io, cli_decide tables_before_F15 a = Run ps io /\
                  flag (view_of a) ["spe-local"] = true /\
                  assoc "spe_global_strategy" ps = Some (VBool true).
Proof. exact spe_local_refuted_old. Qed.
Print Assumptions spe_local_refuted.

(* numeric defaults are the literals written (fix F40); through std::to_string 1e-9 became 0 *)
Theorem cli_defaults : forall ps io, cli_decide gen_tables [] = Run ps io ->
  assoc "nullspace_shift" ps = Some (VDbl (1 # 1000000000)) /\
  assoc "spe_tolerance" ps = Some (VDbl (1 # 100000)) /\
  assoc "fa_epsilon" ps = Some (VDbl (1 # 100000)) /\
  assoc "num_neighbors" ps = Some (VInt 10) /\
  assoc "spe_global_strategy" ps = Some (VBool true).
Proof. exact gen_defaults. Qed.
Print Assumptions cli_defaults.

Theorem to_string_default_refuted :
  exists ps io, cli_decide tables_before_F40 [] = Run ps io /\
                assoc "nullspace_shift" ps = Some (VDbl (0 # 1000000)) /\
                find_decl "eigenshift" doc_options
                = Some {| o_names := ["eigenshift"]; o_default := DDbl (1 # 1000000000) |}.
Proof. exact to_string_default_refuted_old. Qed.
Print Assumptions to_string_default_refuted.

(* ---- exit codes ---- *)
Theorem cli_exit_codes : forall a,
  bad_input (view_of a) \/ args_ok doc_options a = false \/ flag (view_of a) ["h"; "help"] = true ->
  cli_decide gen_tables a = Exit 1%Z.
Proof. exact gen_exit_codes. Qed.
Print Assumptions cli_exit_codes.

Example cli_exit_codes_nonvacuous :
  bad_input (view_of [("td", AVal "0" (Some 0%Z) (Some (0 # 1)%Q))]) /\
  bad_input (view_of [("method", AVal "llle" None None)]) /\
  bad_input (view_of [("k", AVal "2" (Some 2%Z) (Some (2 # 1)%Q))]).
Proof.
  split; [|split].
  - right. right. right. left. exists 0%Z. split; [reflexivity|discriminate].
  - left. exists "llle". split; reflexivity.
  - right. right. right. right. left. exists 2%Z. split; reflexivity.
Qed.

(* ... and for nothing else: the exit status before the library is called, characterised completely *)
Theorem cli_exit_iff : forall a,
  cli_decide gen_tables a = Exit 1%Z <->
  (args_ok doc_options a = false \/ flag (view_of a) ["h"; "help"] = true \/
   bad_input (view_of a) \/ bad_strategy (view_of a)).
Proof. exact gen_exit_iff. Qed.
Print Assumptions cli_exit_iff.

Theorem cli_valid_runs : forall a,
  args_ok doc_options a = true -> flag (view_of a) ["h"; "help"] = false ->
  ~ bad_input (view_of a) -> ~ bad_strategy (view_of a) ->
  exists ps io, cli_decide gen_tables a = Run ps io.
Proof. exact gen_valid_runs. Qed.
Print Assumptions cli_valid_runs.

(* a command line cxxopts accepts delivers values of the declared types *)
Theorem cli_accepted_values_typed : forall ds a d v,
  unambiguous ds = true -> args_ok ds a = true -> In d ds ->
  given (o_names d) a = Some v -> kind_ok (o_default d) v = true.
Proof. exact args_ok_given. Qed.
Print Assumptions cli_accepted_values_typed.

Example cli_accepted_values_typed_nonvacuous :
  unambiguous gen_options = true /\ args_ok gen_options [("k", AVal "5" (Some 5%Z) (Some (5 # 1)%Q))] = true.
Proof. split; vm_compute; reflexivity. Qed.

Theorem cli_never_stuck : forall a, cli_decide gen_tables a <> Stuck.
Proof. exact gen_never_stuck. Qed.
Print Assumptions cli_never_stuck.

Theorem cli_outcomes : forall a,
  cli_decide gen_tables a = Exit 1%Z \/ exists ps io, cli_decide gen_tables a = Run ps io.
Proof. exact gen_outcomes. Qed.
Print Assumptions cli_outcomes.

(* ---- from the real argv (cxxopts' scanner modelled in Cli_Argv_Model.v) ---- *)
Theorem cli_argv_refines_spec : forall rd argv,
  cli_decide_argv rd gen_options gen_tables argv = spec_argv rd argv.
Proof. exact gen_argv_spec. Qed.
Print Assumptions cli_argv_refines_spec.

(* the abstract command lines of the theorems above are exactly what the scanner makes of their
   canonical spelling (-x v / --name v / --flag) *)
Theorem cli_argv_concretize : forall rd a, Forall (wf_arg rd gen_options) a ->
  cli_decide_argv rd gen_options gen_tables (concretize a) = spec_decide a.
Proof. exact gen_argv_concretize. Qed.
Print Assumptions cli_argv_concretize.

Example cli_argv_concretize_nonvacuous :
  Forall (wf_arg rd0 gen_options) [("k", AVal "5" None None); ("spe-local", AFlag); ("td", AVal "2" None None)].
Proof.
  repeat constructor.
  - eexists. split; [vm_compute; reflexivity|]. split; [reflexivity|]. repeat split.
  - eexists. split; [vm_compute; reflexivity|]. split; reflexivity.
  - eexists. split; [vm_compute; reflexivity|]. split; [reflexivity|]. repeat split.
Qed.

(* quirks of the scanner: -td is the group -t -d (no such option); --td is the alias; one-letter names
   cannot be written with two dashes *)
Theorem cli_argv_quirks :
  scan rd0 doc_options ["-td"; "0"] [] = None /\
  scan rd0 doc_options ["--td"; "0"] [] = Some [("td", AVal "0" None None)] /\
  scan rd0 doc_options ["--k"; "5"] [] = None.
Proof. exact (conj argv_td_group (conj argv_td_long argv_long_one_letter)). Qed.
Print Assumptions cli_argv_quirks.

(* ---- the integer options: cxxopts' integer_parser<int> modelled (Cli_IntParse_Model.v; compared with the real
   parser on thousands of tokens on every run).  The theorems above hold for EVERY reading function rd, in
   particular for rd = (int_parse, .) ---- *)
Theorem cli_int_option_is_an_int : forall s z, int_parse s = Some z -> (-2147483648 <= z <= 2147483647)%Z.
Proof. exact int_parse_in_range. Qed.
Print Assumptions cli_int_option_is_an_int.

Example cli_int_option_is_an_int_nonvacuous : int_parse "10" = Some 10%Z.
Proof. vm_compute. reflexivity. Qed.

(* a decimal numeral that fits is read as the number written *)
Theorem cli_int_option_decimal : forall s, is_empty s = false -> all_digits s = true ->
  (digits_val s 0 <= 2147483647)%Z -> int_parse s = Some (digits_val s 0%Z).
Proof. exact int_parse_decimal. Qed.
Print Assumptions cli_int_option_decimal.

Example cli_int_option_decimal_nonvacuous :
  is_empty "2147483647" = false /\ all_digits "2147483647" = true /\ (digits_val "2147483647" 0 <= 2147483647)%Z.
Proof. split; [reflexivity|]. split; [reflexivity|]. vm_compute. discriminate. Qed.

Theorem cli_int_option_negative_decimal : forall s, is_empty s = false -> all_digits s = true ->
  (digits_val s 0 <= 2147483648)%Z -> int_parse (String "-" s) = Some (- digits_val s 0)%Z.
Proof. exact int_parse_negative_decimal. Qed.
Print Assumptions cli_int_option_negative_decimal.

Example cli_int_option_negative_decimal_nonvacuous :
  is_empty "7" = false /\ all_digits "7" = true /\ (digits_val "7" 0 <= 2147483648)%Z.
Proof. split; [reflexivity|]. split; [reflexivity|]. vm_compute. discriminate. Qed.

Theorem cli_int_option_rejects :
  int_parse "" = None /\ int_parse "+5" = None /\ int_parse "1.5" = None /\ int_parse "12abc" = None /\
  int_parse "0x" = None /\ int_parse "0x1g" = None /\ int_parse "2147483648" = None /\
  int_parse "-2147483649" = None.
Proof. exact int_parse_rejects. Qed.
Print Assumptions cli_int_option_rejects.

(* quirk of cxxopts 3.1.1 (third party, not tapkee): its overflow test misses this wrap-around of 2^32 *)
Theorem cli_int_option_wrap_quirk : int_parse "4772185890" = Some 477218594%Z.
Proof. exact int_parse_wrap_quirk. Qed.
Print Assumptions cli_int_option_wrap_quirk.

(* the whole chain, from the real argv to the library parameter: scanner, integer_parser, option table, wiring *)
Theorem cli_argv_k_is_the_number_written : forall (dq : string -> option Q) s ps io,
  is_empty s = false -> all_digits s = true -> (digits_val s 0 <= 2147483647)%Z ->
  cli_decide_argv (rd_int dq) gen_options gen_tables ["-k"; s] = Run ps io ->
  assoc "num_neighbors" ps = Some (VInt (digits_val s 0%Z)) /\ (3 <= digits_val s 0)%Z.
Proof. exact argv_k_decimal. Qed.
Print Assumptions cli_argv_k_is_the_number_written.

Example cli_argv_k_is_the_number_written_nonvacuous :
  exists ps io, cli_decide_argv (rd_int (fun _ => None)) gen_options gen_tables ["-k"; "12"] = Run ps io /\
                assoc "num_neighbors" ps = Some (VInt 12).
Proof. eexists. eexists. split; vm_compute; reflexivity. Qed.

Theorem cli_argv_td_is_the_number_written : forall (dq : string -> option Q) s ps io,
  is_empty s = false -> all_digits s = true -> (digits_val s 0 <= 2147483647)%Z ->
  cli_decide_argv (rd_int dq) gen_options gen_tables ["--target-dimension"; s] = Run ps io ->
  assoc "target_dimension" ps = Some (VInt (digits_val s 0%Z)) /\ (0 < digits_val s 0)%Z.
Proof. exact argv_td_decimal. Qed.
Print Assumptions cli_argv_td_is_the_number_written.

Example cli_argv_td_is_the_number_written_nonvacuous :
  exists ps io, cli_decide_argv (rd_int (fun _ => None)) gen_options gen_tables ["--target-dimension"; "3"] = Run ps io.
Proof. eexists. eexists. vm_compute. reflexivity. Qed.

Theorem cli_argv_k_not_an_int_exits : forall (dq : string -> option Q) s, int_parse s = None ->
  cli_decide_argv (rd_int dq) gen_options gen_tables ["-k"; s] = Exit 1%Z.
Proof. exact argv_k_not_an_int. Qed.
Print Assumptions cli_argv_k_not_an_int_exits.

Example cli_argv_k_not_an_int_exits_nonvacuous : int_parse "1.5" = None /\ int_parse "0x" = None.
Proof. split; vm_compute; reflexivity. Qed.

(* ---- files: rows <-> lines ---- *)
Theorem cli_read_token_matrix : forall (V : Type) (parse : string -> option V) d (tm : list (list string)),
  Ascii.eqb d nl = false ->
  Forall (fun toks => toks <> [] /\ Forall (fun t => tok_ok d t = true) toks /\
                      is_empty (join d toks) = false) tm ->
  let content := file_of_lines (map (line_of d) tm) in
  let rows := map (fun toks => filter_map parse (drop_last_empty toks)) tm in
  read_data_fixed V parse d content = to_matrix V rows /\
  read_data_shipped V parse d content = to_matrix V rows.
Proof. exact read_token_matrix. Qed.
Print Assumptions cli_read_token_matrix.

Example cli_read_token_matrix_nonvacuous :
  let d := ascii_of_nat 44 in
  Ascii.eqb d nl = false /\
  Forall (fun toks => toks <> [] /\ Forall (fun t => tok_ok d t = true) toks /\
                      is_empty (join d toks) = false) [["1"; "2"]; ["x"; "4"; ""]].
Proof.
  split; [reflexivity|].
  repeat constructor; try discriminate.
Qed.

Theorem cli_equal_rows_accepted : forall (V : Type) c (rows : list (list V)),
  rect V c rows -> to_matrix V rows = RMat rows.
Proof. exact to_matrix_rect. Qed.
Print Assumptions cli_equal_rows_accepted.

Theorem cli_unequal_rows_error : forall (V : Type) (r0 : list V) rows i r,
  nth_error (r0 :: rows) i = Some r -> length r <> length r0 ->
  exists k, to_matrix V (r0 :: rows) = RWrong k /\ k <= i /\
            exists r', nth_error (r0 :: rows) k = Some r' /\ length r' <> length r0.
Proof. exact to_matrix_unequal. Qed.
Print Assumptions cli_unequal_rows_error.

Example cli_unequal_rows_nonvacuous :
  nth_error ([1; 2] :: [[3]]) 1 = Some [3] /\ length [3] <> length [1; 2].
Proof. split; [reflexivity|discriminate]. Qed.

(* ---- read_data's length test AS READ FROM THE SOURCE (gen_read_check: the canonical text of the function
   is compared with the reviewed shape on every run) ---- *)
Theorem cli_util_shapes :
  gen_read_loop = LoopGetline /\ gen_read_check = CheckEveryRow /\ gen_mfc = MfcLoops InitUninit 0.
Proof. exact gen_shapes. Qed.
Print Assumptions cli_util_shapes.

Theorem cli_unequal_rows_rejected : forall (V : Type) (r0 : list V) rows i r,
  nth_error (r0 :: rows) i = Some r -> length r <> length r0 ->
  exists k, to_matrix_with V gen_read_check (r0 :: rows) = Some (RWrong k).
Proof. exact gen_unequal_rows. Qed.
Print Assumptions cli_unequal_rows_rejected.

Example cli_unequal_rows_rejected_nonvacuous :
  nth_error ([1; 2; 3] :: [[4; 5]; [6; 7; 8; 10]]) 1 = Some [4; 5] /\ length [4; 5] <> length [1; 2; 3].
Proof. split; [reflexivity|discriminate]. Qed.

Theorem cli_ragged_file_rejected : forall (V : Type) (parse : string -> option V) d content r0 rows i r,
  parse_rows V parse d (lines_fixed content) = r0 :: rows ->
  nth_error (r0 :: rows) i = Some r -> length r <> length r0 ->
  exists k, read_with V parse gen_read_loop gen_read_check d content = Some (RWrong k).
Proof. exact gen_read_ragged. Qed.
Print Assumptions cli_ragged_file_rejected.

Example cli_ragged_file_rejected_nonvacuous :
  parse_rows string (fun s => Some s) (ascii_of_nat 44) (lines_fixed ("1,2" ++ String nl ("3" ++ String nl "")))
  = ["1"; "2"] :: [["3"]] /\ nth_error (["1"; "2"] :: [["3"]]) 1 = Some ["3"] /\ length ["3"] <> length ["1"; "2"].
Proof. split; [vm_compute; reflexivity|]. split; [reflexivity|discriminate]. Qed.

(* the aggregate test `#values = #lines * columns` (seeded change C20_2) is invisible on well-formed files ... *)
Theorem total_count_same_on_wellformed : forall (V : Type) c (rows : list (list V)),
  rect V c rows -> to_matrix_total V rows = to_matrix V rows.
Proof. exact to_matrix_total_rect. Qed.
Print Assumptions total_count_same_on_wellformed.

Example total_count_same_on_wellformed_nonvacuous : rect nat 2 [[1; 2]; [3; 4]].
Proof. repeat constructor. Qed.

(* ... accepts every file whose total fits, ragged or not, and re-wraps it ... *)
Theorem total_count_accepts_when_sum_fits : forall (V : Type) (r0 : list V) rows,
  length (concat (r0 :: rows)) = length (r0 :: rows) * length r0 ->
  to_matrix_total V (r0 :: rows)
  = RMat (chunks V (length r0) (length (r0 :: rows)) (concat (r0 :: rows))).
Proof. exact to_matrix_total_accepts. Qed.
Print Assumptions total_count_accepts_when_sum_fits.

Example total_count_accepts_when_sum_fits_nonvacuous :
  length (concat ([1; 2; 3] :: [[4; 5]; [6; 7; 8; 10]])) = length ([1; 2; 3] :: [[4; 5]; [6; 7; 8; 10]]) * length [1; 2; 3].
Proof. reflexivity. Qed.

(* ... so it is refuted: rows of 3, 2, 4 values *)
Theorem total_count_check_refuted :
  exists (rows m : list (list nat)) i r,
    nth_error rows i = Some r /\ length r <> length (hd [] rows) /\
    (exists k, to_matrix nat rows = RWrong k) /\
    to_matrix_with nat CheckTotalCount rows = Some (RMat m) /\ m <> rows.
Proof. exact total_count_refuted. Qed.
Print Assumptions total_count_check_refuted.

(* what write_matrix writes, read_data reads back (number printing / parsing are oracles) *)
Theorem cli_roundtrip : forall (V : Type) (parse : string -> option V) (print : V -> string),
  (forall v, parse (print v) = Some v) ->
  forall d c (m : list (list V)),
  Ascii.eqb d nl = false -> 0 < c -> rect V c m ->
  (forall v, clean d (print v) = true) ->
  read_data_fixed V parse d (write_matrix V print d m) = RMat m /\
  read_data_shipped V parse d (write_matrix V print d m) = RMat m.
Proof. exact write_read. Qed.
Print Assumptions cli_roundtrip.

Example cli_roundtrip_nonvacuous :
  let parse := fun s => if String.eqb s "1" then Some true else if String.eqb s "0" then Some false else None in
  let print := fun b : bool => if b then "1" else "0" in
  (forall v, parse (print v) = Some v) /\ (forall v, clean (ascii_of_nat 44) (print v) = true) /\
  rect bool 2 [[true; false]; [false; false]].
Proof.
  split; [intros []; reflexivity|]. split; [intros []; reflexivity|].
  repeat constructor.
Qed.

(* the same with the number format made concrete for integer-valued matrices: no hypothesis left *)
Theorem cli_roundtrip_integers : forall d c (m : list (list Z)),
  delim_ok d = true -> 0 < c -> rect Z c m ->
  read_data_fixed Z parseZ d (write_matrix Z printZ d m) = RMat m /\
  read_data_shipped Z parseZ d (write_matrix Z printZ d m) = RMat m.
Proof. exact write_read_integers. Qed.
Print Assumptions cli_roundtrip_integers.

Example cli_roundtrip_integers_nonvacuous :
  delim_ok (ascii_of_nat 44) = true /\ delim_ok (ascii_of_nat 32) = true /\ delim_ok (ascii_of_nat 59) = true /\
  rect Z 2 [[1%Z; (-2)%Z]; [30%Z; 0%Z]].
Proof. repeat split; try reflexivity. repeat constructor. Qed.

(* transposition flags *)
Theorem cli_transpose_entry : forall (V : Type) c (m : list (list V)) i j,
  rect V c m -> m <> [] -> j < c -> entry V (transpose V m) j i = entry V m i j.
Proof. exact transpose_entry. Qed.
Print Assumptions cli_transpose_entry.

Theorem cli_transpose_involutive : forall (V : Type) c (m : list (list V)),
  rect V c m -> m <> [] -> 0 < c -> transpose V (transpose V m) = m.
Proof. exact transpose_involutive. Qed.
Print Assumptions cli_transpose_involutive.

Example cli_transpose_nonvacuous : rect nat 2 [[1; 2]; [3; 4]; [5; 6]] /\ [[1; 2]; [3; 4]; [5; 6]] <> [] /\ 0 < 2.
Proof. split; [repeat constructor|]. split; [discriminate|auto]. Qed.

Theorem cli_line_is_sample : forall (V : Type) c (m : list (list V)) i r,
  rect V c m -> nth_error m i = Some r -> sample V i (transpose V m) = r.
Proof. exact line_is_sample. Qed.
Print Assumptions cli_line_is_sample.

Theorem cli_transposed_output_line : forall (V : Type) c (E : list (list V)) j,
  rect V c E -> E <> [] -> j < c -> nth_error (transpose V E) j = Some (col V j E).
Proof. exact transposed_output_line. Qed.
Print Assumptions cli_transposed_output_line.

(* both flags together: the output file read back with the matching flag gives back the embedded samples *)
Theorem cli_roundtrip_flags : forall (V : Type) (parse : string -> option V) (print : V -> string),
  (forall v, parse (print v) = Some v) ->
  forall d c (E : list (list V)),
  Ascii.eqb d nl = false -> 0 < c -> rect V c E -> E <> [] ->
  (forall v, clean d (print v) = true) ->
  forall (transposed : bool) i r, nth_error E i = Some r ->
  exists file,
    read_data_fixed V parse d (cli_output V print d transposed E) = RMat file /\
    sample V i (if negb transposed then transpose V file else file) = r.
Proof. exact output_reread. Qed.
Print Assumptions cli_roundtrip_flags.

(* the line loop shipped before fix F41 read an unterminated last line twice *)
Theorem cli_unterminated_last_line : forall ls l,
  Forall (fun x => has_char nl x = false) ls -> has_char nl l = false -> is_empty l = false ->
  lines_shipped (file_of_lines ls ++ l) = (ls ++ [l; l])%list /\
  lines_fixed (file_of_lines ls ++ l) = (ls ++ [l])%list.
Proof. exact unterminated_last_line. Qed.
Print Assumptions cli_unterminated_last_line.

Theorem shipped_loop_refuted :
  exists content,
    read_data_shipped string (fun s => Some s) (ascii_of_nat 44) content
      = RMat [["1"; "2"]; ["3"; "4"]; ["3"; "4"]] /\
    read_data_fixed string (fun s => Some s) (ascii_of_nat 44) content = RMat [["1"; "2"]; ["3"; "4"]].
Proof. exact shipped_loop_refuted_old. Qed.
Print Assumptions shipped_loop_refuted.

(* ---- main() end to end ---- *)
Theorem cli_main_writes_library_output :
  forall (V : Type) (parse : string -> option V) (print : V -> string)
         (lib : list (string * value) -> bool -> nat -> list (list V)
                -> option (list (list V) * option (list (list V) * list V)))
         a content ps io,
  cli_decide gen_tables a = Run ps io ->
  let g := view_of a in
  exists ds, str_of g ["d"; "delimiter"] "," = Some ds /\
  gen_main V parse print lib a content =
  match read_data_fixed V parse (delim_char ds) content with
  | RWrong _ => Fail 1%Z
  | RMat file =>
    match lib ps (flag g ["precompute"])
              (if negb (flag g ["transpose-input"]) then length file else width V file)
              (if negb (flag g ["transpose-input"]) then transpose V file else file) with
    | None => Fail 1%Z
    | Some (E, proj) =>
      let out := write_matrix V print (delim_char ds)
                              (if flag g ["transpose-output"] then transpose V E else E) in
      match (if flag g ["opmat"; "output-projection-matrix-file"]
                && flag g ["opmean"; "output-projection-mean-file"] then proj else None) with
      | Some (pm, mean) =>
        Done 0%Z {| f_embedding := out;
                    f_matrix := Some (write_matrix V print (delim_char ds) pm);
                    f_mean := Some (write_vector V print mean) |}
      | None => Done 0%Z {| f_embedding := out; f_matrix := None; f_mean := None |}
      end
    end
  end.
Proof. exact gen_main_run. Qed.
Print Assumptions cli_main_writes_library_output.

Theorem cli_unequal_rows_exit : forall (V : Type) (parse : string -> option V) (print : V -> string)
         (lib : list (string * value) -> bool -> nat -> list (list V)
                -> option (list (list V) * option (list (list V) * list V))) a content,
  (forall d, exists i, read_data_fixed V parse d content = RWrong i) ->
  exists c, gen_main V parse print lib a content = Fail c /\ c <> 0%Z.
Proof. exact gen_main_unequal_rows. Qed.
Print Assumptions cli_unequal_rows_exit.

(* "rows of unequal length make it exit non-zero", from the rows of the file itself, for every command line *)
Theorem cli_ragged_rows_exit : forall (V : Type) (parse : string -> option V) (print : V -> string)
         (lib : list (string * value) -> bool -> nat -> list (list V)
                -> option (list (list V) * option (list (list V) * list V))) a content,
  (forall d, exists r0 rows i r,
      parse_rows V parse d (lines_fixed content) = r0 :: rows /\
      nth_error (r0 :: rows) i = Some r /\ length r <> length r0) ->
  exists c, gen_main V parse print lib a content = Fail c /\ c <> 0%Z.
Proof. exact gen_main_ragged_rows. Qed.
Print Assumptions cli_ragged_rows_exit.

(* the hypothesis is satisfiable: digits as tokens; lines of 2 and 1 tokens under every delimiter that is
   not one of the characters of the file *)
Example cli_ragged_rows_exit_nonvacuous :
  let parse := fun s : string => if all_digits s && negb (is_empty s) then Some s else None in
  exists d r0 rows i r,
      parse_rows string parse d (lines_fixed ("1,2" ++ String nl ("3" ++ String nl ""))) = r0 :: rows /\
      nth_error (r0 :: rows) i = Some r /\ length r <> length r0.
Proof.
  exists (ascii_of_nat 44), ["1"; "2"], [["3"]], 1, ["3"].
  split; [vm_compute; reflexivity|]. split; [reflexivity|discriminate].
Qed.

Theorem cli_main_cases : forall (V : Type) (parse : string -> option V) (print : V -> string)
         (lib : list (string * value) -> bool -> nat -> list (list V)
                -> option (list (list V) * option (list (list V) * list V))) a content,
  (exists c, gen_main V parse print lib a content = Fail c /\ c <> 0%Z) \/
  (exists out, gen_main V parse print lib a content = Done 0%Z out).
Proof. exact gen_main_cases. Qed.
Print Assumptions cli_main_cases.

(* ---- --precompute changes nothing but speed ---- *)
Theorem precompute_table_value : forall (S : Type) (cb : nat -> nat -> S) N a b, a < N -> b < N ->
  matrix_from_callback S cb N a b = Some (cb (Nat.min a b) (Nat.max a b)).
Proof. exact table_value. Qed.
Print Assumptions precompute_table_value.

Theorem precompute_same_values : forall (S : Type) (cb : nat -> nat -> S),
  (forall a b, cb a b = cb b a) ->
  forall N a b, a < N -> b < N -> precomputed S cb true N a b = Some (cb a b).
Proof. exact precompute_same. Qed.
Print Assumptions precompute_same_values.

Example precompute_same_values_nonvacuous : (forall a b, Nat.add a b = Nat.add b a) /\ 1 < 3.
Proof. split; [exact Nat.add_comm|auto]. Qed.

(* the two direct callbacks of the tool (linear kernel, Euclidean distance) ARE symmetric *)
Theorem precompute_kernel_same_values : forall (X : nat -> list Z) (N a b : nat),
  a < N -> b < N ->
  precomputed Z (fun a b => dotZ (X a) (X b)) true N a b = Some (dotZ (X a) (X b)).
Proof. exact precompute_kernel_same. Qed.
Print Assumptions precompute_kernel_same_values.

Theorem precompute_distance_same_values :
  forall (S : Type) (sqrt_oracle : Z -> S) (X : nat -> list Z) (N a b : nat),
  a < N -> b < N ->
  precomputed S (fun a b => sqrt_oracle (sqdistZ (X a) (X b))) true N a b
  = Some (sqrt_oracle (sqdistZ (X a) (X b))).
Proof. exact precompute_distance_same. Qed.
Print Assumptions precompute_distance_same_values.

Theorem precompute_iterations_disjoint : forall N i i' c,
  i <> i' -> In c (cells_of_iter N i) -> In c (cells_of_iter N i') -> False.
Proof. exact iterations_disjoint. Qed.
Print Assumptions precompute_iterations_disjoint.

(* the loops of matrix_from_callback AS READ FROM THE SOURCE (gen_mfc) fill every cell with cb(min, max) *)
Theorem precompute_table_value_source : forall (S : Type) (cb : nat -> nat -> S) (zero : S) N a b t,
  a < N -> b < N -> mfc_of_shape S cb zero gen_mfc N = Some t ->
  t a b = Some (cb (Nat.min a b) (Nat.max a b)).
Proof. exact gen_mfc_value. Qed.
Print Assumptions precompute_table_value_source.

Example precompute_table_value_source_nonvacuous :
  exists t, mfc_of_shape nat Nat.add 0 gen_mfc 3 = Some t /\ 1 < 3.
Proof. eexists. split; [vm_compute; reflexivity|auto]. Qed.

(* `for (j = i + off; ...)` with off >= 1 never assigns the diagonal (seeded change C20_1, mutant m7) *)
Theorem precompute_strict_upper_diagonal : forall (S : Type) (cb : nat -> nat -> S) (init : table S) off N a,
  1 <= off -> mfc_with S cb init off N a a = init a a.
Proof. exact mfc_strict_upper_diag. Qed.
Print Assumptions precompute_strict_upper_diagonal.

Theorem precompute_strict_upper_refuted :
  exists (X : nat -> list Z) N a t,
    a < N /\ mfc_of_shape Z (fun a b => dotZ (X a) (X b)) 0%Z (MfcLoops InitZero 1) N = Some t /\
    t a a = Some 0%Z /\ dotZ (X a) (X a) <> 0%Z.
Proof. exact precompute_strict_upper_refuted_witness. Qed.
Print Assumptions precompute_strict_upper_refuted.

(* ---- --precompute: an algebraically equal table is not the callback's table ---- *)
(* exact arithmetic: the Gram-identity table sqrt(max(0, -2<a,b> + |a|^2 + |b|^2)), zero diagonal (the
   "one matrix product" variant, seeded change C20_3) holds the direct callback's values for ALL data *)
Theorem precompute_expanded_exact_same :
  forall (S : Type) (sqrt_oracle : Z -> S) (zero : S) (X : nat -> list Z),
  sqrt_oracle 0%Z = zero ->
  (forall i j, length (X i) = length (X j)) ->
  forall a b, expanded_tableZ S sqrt_oracle zero X a b = sqrt_oracle (sqdistZ (X a) (X b)).
Proof. exact expanded_table_exact_same. Qed.
Print Assumptions precompute_expanded_exact_same.

Example precompute_expanded_exact_same_nonvacuous :
  Z.sqrt 0 = 0%Z /\ (forall i j : nat, length ((fun _ => [3; 4]%Z) i) = length ((fun _ => [3; 4]%Z) j)).
Proof. exact expanded_table_exact_same_nonvacuous. Qed.

Theorem precompute_expanded_exact_precomputed :
  forall (S : Type) (sqrt_oracle : Z -> S) (zero : S) (X : nat -> list Z) (N a b : nat),
  sqrt_oracle 0%Z = zero ->
  (forall i j, length (X i) = length (X j)) ->
  a < N -> b < N ->
  precomputed S (fun a b => sqrt_oracle (sqdistZ (X a) (X b))) true N a b
  = Some (expanded_tableZ S sqrt_oracle zero X a b).
Proof. exact expanded_table_exact_precomputed. Qed.
Print Assumptions precompute_expanded_exact_precomputed.

Example precompute_expanded_exact_precomputed_nonvacuous :
  Z.sqrt 0 = 0%Z /\ (forall i j : nat, length ((fun _ => [3; 4]%Z) i) = length ((fun _ => [3; 4]%Z) j)) /\ 0 < 2 /\ 1 < 2.
Proof. exact expanded_table_exact_precomputed_nonvacuous. Qed.

(* binary64 (Coq primitive floats; the model agrees bit for bit with Eigen on these inputs): samples at
   distance exactly 1 near 2^27 (one coordinate) and near 1e8 (three coordinates) get the tabulated
   distance 0, a pair 5.59 apart at (3e7,3e7,3e7) gets 5.568; the direct table is right in both orders.
   Print Assumptions lists the kernel's primitive float type and operations it computes with. *)
Theorem precompute_expanded_binary64_refuted :
  (direct_table w1 0 1 = 1 /\ direct_table w1 1 0 = 1 /\ expanded_table w1 0 1 = 0 /\
   direct_table w3 0 1 = 1 /\ expanded_table w3 0 1 = 0 /\
   direct_table w7 0 1 = 0x1.65c55827df1d2p+2 /\ expanded_table w7 0 1 = 0x1.645640568c1c3p+2)%float.
Proof. exact expanded_table_binary64_refuted_witness. Qed.
Print Assumptions precompute_expanded_binary64_refuted.
