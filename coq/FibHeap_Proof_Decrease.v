(* FibHeap_Proof_Decrease.v — decrease_key (cut / cascading_cut) preserves Inv
   and refines spec_decrease. *)
From Coq Require Import List ZArith Bool Lia Permutation Arith.
From TK Require Import FibHeap_Model FibHeap_Dn FibHeap_Proof_Basics.
Import ListNotations.
Local Open Scope Z_scope.

(* ---------- a permutation solver for item lists (count_occ + lia) ---------- *)
Definition item_dec : forall x y : Z * Z, {x = y} + {x <> y}.
Proof. decide equality; apply Z.eq_dec. Defined.

Lemma perm_count : forall l l' : list (Z * Z),
  Permutation l l' <-> forall x, count_occ item_dec l x = count_occ item_dec l' x.
Proof. intros. apply Permutation_count_occ. Qed.

Lemma tree_items_unfold : forall t, tree_items t = (t_idx t, t_key t) :: forest_items (t_children t).
Proof. intros [i k m cs]. apply tree_items_eq. Qed.

Ltac perm_norm :=
  repeat (progress (rewrite ?forest_items_app, ?count_occ_app, ?count_occ_rev in *;
                    cbn [forest_items count_occ app] in * )).

Ltac perm_items :=
  let x := fresh "x" in
  apply perm_count; intro x;
  repeat match goal with
         | H : Permutation _ _ |- _ =>
           let H' := fresh "Hc" in
           pose proof (proj1 (perm_count _ _) H x) as H'; clear H
         end;
  perm_norm;
  repeat match goal with
         | |- context [item_dec ?a ?b] => destruct (item_dec a b)
         | H : context [item_dec ?a ?b] |- _ => destruct (item_dec a b)
         end;
  try lia.

(* ---------- the child-list scan of dk_tree as a top-level function ---------- *)
Fixpoint dk_scan (i nk k : Z) (pre l : list tree) : option (list tree * list tree * bool) :=
  match l with
  | [] => None
  | c :: l' =>
    if Z.eqb (t_idx c) i then
      if Z.ltb nk k then Some (rev pre ++ l', [set_marked false (set_key nk c)], true)
      else Some (rev pre ++ set_key nk c :: l', [], false)
    else match dk_tree i nk c with
         | DkNone => dk_scan i nk k (c :: pre) l'
         | DkDone c' cuts lost =>
           if lost then
             if t_marked c' then Some (rev pre ++ l', cuts ++ [set_marked false c'], true)
             else Some (rev pre ++ set_marked true c' :: l', cuts, false)
           else Some (rev pre ++ c' :: l', cuts, false)
         end
  end.

Lemma dk_tree_eq : forall i nk j k m cs,
  dk_tree i nk (Node j k m cs) =
  match dk_scan i nk k [] cs with
  | None => DkNone
  | Some (cs', cuts, lost) => DkDone (Node j k m cs') cuts lost
  end.
Proof.
  intros i nk j k m cs. cbn [dk_tree].
  match goal with |- match ?f [] cs with _ => _ end = _ => set (scan := f) end.
  assert (H : forall l pre, scan pre l = dk_scan i nk k pre l).
  { induction l as [|c l IH]; intros pre; [reflexivity|].
    unfold scan at 1. cbn [dk_scan]. fold scan. rewrite IH. reflexivity. }
  rewrite H. reflexivity.
Qed.

(* ---------- small facts ---------- *)
Lemma Forall_mid : forall (T : Type) (Q : T -> Prop) L c l,
  Forall Q (L ++ c :: l) <-> Forall Q L /\ Q c /\ Forall Q l.
Proof.
  intros. rewrite Forall_app, Forall_cons_iff. tauto.
Qed.

Lemma t_children_set_key : forall k t, t_children (set_key k t) = t_children t.
Proof. intros k [i k0 m cs]. reflexivity. Qed.

Lemma wf_set_key : forall k t, wf t -> k <= t_key t -> wf (set_key k t).
Proof.
  intros k [i k0 m cs] H Hk. inversion H as [? ? ? ? [Hkeys Hdeg] Hc]; subst.
  cbn [set_key]. constructor; [|exact Hc]. split; [|exact Hdeg].
  cbn [t_children t_key] in *. eapply Forall_impl; [|exact Hkeys]. cbn. intros; lia.
Qed.

Lemma eff_set_marked_true : forall t, eff (set_marked true t) = S (t_rank t).
Proof. intros [i k m cs]. unfold eff. cbn. lia. Qed.

(* ---------- the statement about one subtree ---------- *)
Definition dk_prop (i nk : Z) (t : tree) : Prop :=
  wf t ->
  (dk_tree i nk t = DkNone -> ~ In i (forest_idxs (t_children t))) /\
  (forall t' cuts lost, dk_tree i nk t = DkDone t' cuts lost ->
     (forall k0, In (i, k0) (forest_items (t_children t)) -> nk <= k0) ->
     t_idx t' = t_idx t /\ t_key t' = t_key t /\ t_marked t' = t_marked t /\
     t_rank t = (if lost then S (t_rank t') else t_rank t') /\
     wf t' /\ Forall wf cuts /\
     exists R k0, Permutation (forest_items (t_children t)) ((i, k0) :: R) /\
                  Permutation (forest_items (t_children t') ++ forest_items cuts) ((i, nk) :: R)).

Definition scan_post (i nk k : Z) (all cs' cuts : list tree) (lost : bool) : Prop :=
  Forall (fun c => k <= t_key c) cs' /\ deg_ok cs' /\ Forall wf cs' /\ Forall wf cuts /\
  length all = (if lost then S (length cs') else length cs') /\
  exists R k0, Permutation (forest_items all) ((i, k0) :: R) /\
               Permutation (forest_items cs' ++ forest_items cuts) ((i, nk) :: R).

Lemma scan_lemma : forall i nk k l, Forall (dk_prop i nk) l -> forall pre,
  Forall (fun c => k <= t_key c) (rev pre ++ l) -> deg_ok (rev pre ++ l) -> Forall wf (rev pre ++ l) ->
  (dk_scan i nk k pre l = None -> ~ In i (forest_idxs l)) /\
  (forall cs' cuts lost, dk_scan i nk k pre l = Some (cs', cuts, lost) ->
     (forall k0, In (i, k0) (forest_items l) -> nk <= k0) ->
     scan_post i nk k (rev pre ++ l) cs' cuts lost).
Proof.
  intros i nk k l HP. induction HP as [|c l Pc _ IH]; intros pre Hk Hd Hw.
  { split; [intros _ []|intros ? ? ? H; discriminate]. }
  apply Forall_mid in Hk. destruct Hk as (HkL & Hkc & Hkl).
  apply Forall_mid in Hw. destruct Hw as (HwL & Hwc & Hwl).
  cbn [dk_scan]. destruct (Z.eqb_spec (t_idx c) i) as [Ei|Ei].
  - (* nodes[index] is this child *)
    split.
    { destruct (Z.ltb nk k); discriminate. }
    intros cs' cuts lost Hres Hle.
    assert (Hnk : nk <= t_key c).
    { apply Hle. cbn [forest_items]. apply in_or_app. left. rewrite tree_items_unfold, Ei. left. reflexivity. }
    destruct (Z.ltb_spec nk k) as [Ek|Ek]; inversion Hres; subst cs' cuts lost; clear Hres.
    + (* cut *)
      unfold scan_post. split; [apply Forall_app; split; assumption|].
      split; [eapply deg_ok_remove; exact Hd|].
      split; [apply Forall_app; split; assumption|].
      split; [constructor; [apply wf_set_marked; apply wf_set_key; assumption|constructor]|].
      split; [rewrite !app_length; cbn [length]; lia|].
      exists (forest_items (rev pre) ++ forest_items (t_children c) ++ forest_items l), (t_key c).
      split.
      * rewrite forest_items_app. cbn [forest_items]. rewrite tree_items_unfold, Ei. perm_items.
      * cbn [forest_items]. rewrite tree_items_set_marked, tree_items_unfold, t_idx_set_key, t_key_set_key,
          t_children_set_key, Ei. perm_items.
    + (* key stays above the parent's *)
      unfold scan_post. split; [apply Forall_mid; rewrite t_key_set_key; repeat split; assumption|].
      split; [eapply deg_ok_replace; [|exact Hd]; rewrite eff_set_key; lia|].
      split; [apply Forall_mid; repeat split; try assumption; apply wf_set_key; assumption|].
      split; [constructor|].
      split; [rewrite !app_length; reflexivity|].
      exists (forest_items (rev pre) ++ forest_items (t_children c) ++ forest_items l), (t_key c).
      split.
      * rewrite forest_items_app. cbn [forest_items]. rewrite tree_items_unfold, Ei. perm_items.
      * rewrite forest_items_app. cbn [forest_items]. rewrite tree_items_unfold, t_idx_set_key, t_key_set_key,
          t_children_set_key, Ei. perm_items.
  - (* look below this child *)
    destruct (Pc Hwc) as [PcN PcD].
    assert (Hrev : rev (c :: pre) ++ l = rev pre ++ c :: l).
    { cbn [rev]. rewrite <- app_assoc. reflexivity. }
    destruct (dk_tree i nk c) as [|c' cuts0 lost0] eqn:Edk.
    + (* not below c: go on *)
      specialize (IH (c :: pre)). rewrite Hrev in IH.
      destruct IH as [IHN IHS]; [apply Forall_mid; repeat split; assumption|exact Hd|
                                 apply Forall_mid; repeat split; assumption|].
      split.
      * intros Hres Hin. rewrite forest_idxs_cons in Hin. apply in_app_or in Hin.
        destruct Hin as [Hin|Hin]; [|exact (IHN Hres Hin)].
        unfold tree_idxs in Hin. rewrite tree_items_unfold in Hin. cbn [map fst] in Hin.
        destruct Hin as [Hin|Hin]; [congruence|exact (PcN eq_refl Hin)].
      * intros cs' cuts lost Hres Hle. apply IHS; [exact Hres|].
        intros k0 Hin. apply Hle. cbn [forest_items]. apply in_or_app. right. exact Hin.
    + split; [destruct lost0; [destruct (t_marked c')|]; discriminate|].
      intros cs' cuts lost Hres Hle.
      destruct (PcD c' cuts0 lost0 eq_refl) as (Hidx & Hkey & Hmk & Hrk & Hwc' & Hwcuts & R0 & k0 & Hp1 & Hp2).
      { intros k1 Hin. apply Hle. cbn [forest_items]. apply in_or_app. left.
        rewrite tree_items_unfold. right. exact Hin. }
      destruct lost0.
      * destruct (t_marked c') eqn:Em; inversion Hres; subst cs' cuts lost; clear Hres.
        -- (* cascading cut of a marked child *)
           unfold scan_post. split; [apply Forall_app; split; assumption|].
           split; [eapply deg_ok_remove; exact Hd|].
           split; [apply Forall_app; split; assumption|].
           split; [apply Forall_app; split; [exact Hwcuts|constructor; [apply wf_set_marked; exact Hwc'|constructor]]|].
           split; [rewrite !app_length; cbn [length]; lia|].
           exists (forest_items (rev pre) ++ (t_idx c, t_key c) :: R0 ++ forest_items l), k0.
           split.
           ++ rewrite forest_items_app. cbn [forest_items]. rewrite tree_items_unfold. perm_items.
           ++ rewrite !forest_items_app. cbn [forest_items]. rewrite tree_items_set_marked, tree_items_unfold,
                Hidx, Hkey. perm_items.
        -- (* unmarked child that lost a child gets marked *)
           unfold scan_post.
           split; [apply Forall_mid; rewrite t_key_set_marked, Hkey; repeat split; assumption|].
           split.
           { eapply deg_ok_replace; [|exact Hd]. rewrite eff_set_marked_true. unfold eff.
             rewrite <- Hmk, Hrk. cbv iota. lia. }
           split; [apply Forall_mid; repeat split; try assumption; apply wf_set_marked; exact Hwc'|].
           split; [exact Hwcuts|].
           split; [rewrite !app_length; reflexivity|].
           exists (forest_items (rev pre) ++ (t_idx c, t_key c) :: R0 ++ forest_items l), k0.
           split.
           ++ rewrite forest_items_app. cbn [forest_items]. rewrite tree_items_unfold. perm_items.
           ++ rewrite !forest_items_app. cbn [forest_items]. rewrite tree_items_set_marked, tree_items_unfold,
                Hidx, Hkey. perm_items.
      * inversion Hres; subst cs' cuts lost; clear Hres.
        unfold scan_post.
        split; [apply Forall_mid; rewrite Hkey; repeat split; assumption|].
        split.
        { eapply deg_ok_replace; [|exact Hd]. unfold eff. rewrite Hmk, Hrk. lia. }
        split; [apply Forall_mid; repeat split; assumption|].
        split; [exact Hwcuts|].
        split; [rewrite !app_length; reflexivity|].
        exists (forest_items (rev pre) ++ (t_idx c, t_key c) :: R0 ++ forest_items l), k0.
        split.
        -- rewrite forest_items_app. cbn [forest_items]. rewrite tree_items_unfold. perm_items.
        -- rewrite !forest_items_app. cbn [forest_items]. rewrite tree_items_unfold, Hidx, Hkey. perm_items.
Qed.

Lemma dk_tree_prop : forall i nk t, dk_prop i nk t.
Proof.
  intros i nk. induction t as [j k m cs IH] using tree_ind'. intros Hwf.
  apply wf_inv in Hwf. destruct Hwf as [[Hkeys Hdeg] Hc]. cbn [t_children t_key] in *.
  destruct (scan_lemma i nk k cs IH [] Hkeys Hdeg Hc) as [HN HS].
  rewrite dk_tree_eq. destruct (dk_scan i nk k [] cs) as [[[cs' cuts0] lost0]|].
  - split; [discriminate|]. intros t' cuts lost Hres Hle. inversion Hres; subst t' cuts lost; clear Hres.
    destruct (HS cs' cuts0 lost0 eq_refl Hle) as (H1 & H2 & H3 & H4 & H5 & R & k0 & H6 & H7).
    cbn [rev app] in *. cbn [t_idx t_key t_marked t_children]. unfold t_rank. cbn [t_children].
    split; [reflexivity|]. split; [reflexivity|]. split; [reflexivity|].
    split; [destruct lost0; exact H5|].
    split; [constructor; [split; assumption|exact H3]|].
    split; [exact H4|].
    exists R, k0. split; assumption.
  - split; [intros _; exact (HN eq_refl)|]. intros ? ? ? Hres; discriminate.
Qed.

(* ---------- the root-list scan ---------- *)
Definition whm (i : Z) (rs : list tree) : Prop :=
  match rs with
  | [] => True
  | m :: rest => Forall (fun t => t_key m <= t_key t \/ t_idx t = i) rest
  end.

Lemma head_min_whm : forall i rs, head_min rs -> whm i rs.
Proof.
  intros i [|m rest] H; [exact I|]. cbn [head_min whm] in *.
  eapply Forall_impl; [|exact H]. cbn. intros; left; assumption.
Qed.

Lemma head_min_replace : forall L r r' l, head_min (L ++ r :: l) -> t_key r' = t_key r ->
  head_min (L ++ r' :: l).
Proof.
  intros [|m L] r r' l H Hk; cbn [app head_min] in *.
  - rewrite Hk. exact H.
  - apply Forall_mid in H. apply Forall_mid. rewrite Hk. exact H.
Qed.

Lemma whm_replace : forall i L r r' l, head_min (L ++ r :: l) -> t_idx r' = i -> t_key r' <= t_key r ->
  whm i (L ++ r' :: l).
Proof.
  intros i [|m L] r r' l H Hi Hk; cbn [app head_min whm] in *.
  - eapply Forall_impl; [|exact H]. cbn. intros; left; lia.
  - apply Forall_mid in H. destruct H as (H1 & H2 & H3). apply Forall_mid.
    split; [eapply Forall_impl; [|exact H1]; cbn; intros; left; assumption|].
    split; [right; exact Hi|].
    eapply Forall_impl; [|exact H3]; cbn; intros; left; assumption.
Qed.

Lemma dk_roots_lemma : forall i nk l pre, Forall wf (rev pre ++ l) ->
  (dk_roots i nk pre l = None -> ~ In i (forest_idxs l)) /\
  (forall rs cuts, dk_roots i nk pre l = Some (rs, cuts) ->
     (forall k0, In (i, k0) (forest_items l) -> nk <= k0) ->
     Forall wf rs /\ Forall wf cuts /\ length rs = length (rev pre ++ l) /\
     (exists R k0, Permutation (forest_items (rev pre ++ l)) ((i, k0) :: R) /\
                   Permutation (forest_items rs ++ forest_items cuts) ((i, nk) :: R)) /\
     (head_min (rev pre ++ l) -> (cuts = [] \/ head_min rs) /\ whm i rs)).
Proof.
  intros i nk. induction l as [|r l IH]; intros pre Hw.
  { split; [intros _ []|intros ? ? H; discriminate]. }
  apply Forall_mid in Hw. destruct Hw as (HwL & Hwr & Hwl).
  cbn [dk_roots]. destruct (Z.eqb_spec (t_idx r) i) as [Ei|Ei].
  - split; [discriminate|]. intros rs cuts Hres Hle. inversion Hres; subst rs cuts; clear Hres.
    assert (Hnk : nk <= t_key r).
    { apply Hle. cbn [forest_items]. apply in_or_app. left. rewrite tree_items_unfold, Ei. left. reflexivity. }
    split; [apply Forall_mid; repeat split; try assumption; apply wf_set_key; assumption|].
    split; [constructor|].
    split; [rewrite !app_length; reflexivity|].
    split.
    + exists (forest_items (rev pre) ++ forest_items (t_children r) ++ forest_items l), (t_key r).
      split.
      * rewrite forest_items_app. cbn [forest_items]. rewrite tree_items_unfold, Ei. perm_items.
      * rewrite forest_items_app. cbn [forest_items]. rewrite tree_items_unfold, t_idx_set_key, t_key_set_key,
          t_children_set_key, Ei. perm_items.
    + intros Hmin. split; [left; reflexivity|].
      eapply whm_replace; [exact Hmin|rewrite t_idx_set_key; exact Ei|rewrite t_key_set_key; exact Hnk].
  - destruct (dk_tree_prop i nk r Hwr) as [PN PD].
    assert (Hrev : rev (r :: pre) ++ l = rev pre ++ r :: l).
    { cbn [rev]. rewrite <- app_assoc. reflexivity. }
    destruct (dk_tree i nk r) as [|r' cuts0 lost0] eqn:Edk.
    + specialize (IH (r :: pre)). rewrite Hrev in IH.
      destruct IH as [IHN IHS]; [apply Forall_mid; repeat split; assumption|].
      split.
      * intros Hres Hin. rewrite forest_idxs_cons in Hin. apply in_app_or in Hin.
        destruct Hin as [Hin|Hin]; [|exact (IHN Hres Hin)].
        unfold tree_idxs in Hin. rewrite tree_items_unfold in Hin. cbn [map fst] in Hin.
        destruct Hin as [Hin|Hin]; [congruence|exact (PN eq_refl Hin)].
      * intros rs cuts Hres Hle. apply IHS; [exact Hres|].
        intros k0 Hin. apply Hle. cbn [forest_items]. apply in_or_app. right. exact Hin.
    + split; [discriminate|]. intros rs cuts Hres Hle. inversion Hres; subst rs cuts; clear Hres.
      destruct (PD r' cuts0 lost0 eq_refl) as (Hidx & Hkey & Hmk & Hrk & Hwr' & Hwcuts & R0 & k0 & Hp1 & Hp2).
      { intros k1 Hin. apply Hle. cbn [forest_items]. apply in_or_app. left.
        rewrite tree_items_unfold. right. exact Hin. }
      split; [apply Forall_mid; repeat split; assumption|].
      split; [exact Hwcuts|].
      split; [rewrite !app_length; reflexivity|].
      split.
      * exists (forest_items (rev pre) ++ (t_idx r, t_key r) :: R0 ++ forest_items l), k0.
        split.
        -- rewrite forest_items_app. cbn [forest_items]. rewrite tree_items_unfold. perm_items.
        -- rewrite !forest_items_app. cbn [forest_items]. rewrite tree_items_unfold, Hidx, Hkey. perm_items.
      * intros Hmin.
        assert (Hm' : head_min (rev pre ++ r' :: l)) by (eapply head_min_replace; eassumption).
        split; [right; exact Hm'|apply head_min_whm; exact Hm'].
Qed.

(* ---------- rotate_to ---------- *)
Lemma rotate_to_spec : forall i l pre r, rotate_to i pre l = Some r ->
  exists t rest, r = t :: rest /\ t_idx t = i /\ Permutation (t :: rest) (rev pre ++ l).
Proof.
  intros i. induction l as [|t l IH]; intros pre r; cbn [rotate_to]; [discriminate|].
  destruct (Z.eqb_spec (t_idx t) i) as [E|E].
  - intros H; inversion H; subst r. exists t, (l ++ rev pre). split; [reflexivity|]. split; [exact E|].
    eapply Permutation_trans; [apply perm_skip; apply Permutation_app_comm|].
    apply Permutation_middle.
  - intros H. destruct (IH _ _ H) as (t0 & rest & H1 & H2 & H3). exists t0, rest.
    split; [exact H1|]. split; [exact H2|]. cbn [rev] in H3. rewrite <- app_assoc in H3. exact H3.
Qed.

Lemma rotate_to_none : forall i l pre, rotate_to i pre l = None -> forall t, In t l -> t_idx t <> i.
Proof.
  intros i. induction l as [|t l IH]; intros pre; cbn [rotate_to]; [intros _ ? []|].
  destruct (Z.eqb_spec (t_idx t) i) as [E|E]; [discriminate|].
  intros H u [->|Hu]; [exact E|eapply IH; eassumption].
Qed.

Definition reroot (i nk : Z) (rs1 : list tree) : list tree :=
  match rs1 with
  | [] => rs1
  | m :: _ => if Z.ltb nk (t_key m)
              then match rotate_to i [] rs1 with Some r => r | None => rs1 end
              else rs1
  end.

Lemma reroot_perm : forall i nk rs1, Permutation (reroot i nk rs1) rs1.
Proof.
  intros i nk [|m rest]; cbn [reroot]; [reflexivity|].
  destruct (Z.ltb nk (t_key m)); [|reflexivity].
  destruct (rotate_to i [] (m :: rest)) as [r|] eqn:E; [|reflexivity].
  destruct (rotate_to_spec _ _ _ _ E) as (t & rest' & -> & _ & Hp). exact Hp.
Qed.

Lemma reroot_head_min : forall i nk rs1, whm i rs1 ->
  (forall t, In t rs1 -> t_idx t = i -> t_key t = nk) -> head_min (reroot i nk rs1).
Proof.
  intros i nk [|m rest] Hw Hkey; cbn [reroot]; [exact I|]. cbn [whm] in Hw.
  destruct (Z.ltb_spec nk (t_key m)) as [E|E].
  - destruct (rotate_to i [] (m :: rest)) as [r|] eqn:Er.
    + destruct (rotate_to_spec _ _ _ _ Er) as (t & rest' & -> & Hti & Hp). cbn [rev app] in Hp.
      assert (Htk : t_key t = nk).
      { apply Hkey; [|exact Hti]. eapply Permutation_in; [exact Hp|left; reflexivity]. }
      cbn [head_min]. rewrite Forall_forall. intros u Hu. rewrite Htk.
      assert (Hu' : In u (m :: rest)) by (eapply Permutation_in; [exact Hp|right; exact Hu]).
      destruct Hu' as [<-|Hu']; [lia|].
      rewrite Forall_forall in Hw. destruct (Hw _ Hu') as [H|H]; [lia|].
      rewrite (Hkey u (or_intror Hu') H). lia.
    + cbn [head_min]. rewrite Forall_forall in *. intros u Hu.
      destruct (Hw _ Hu) as [H|H]; [exact H|].
      exfalso. exact (rotate_to_none _ _ _ Er u (or_intror Hu) H).
  - cbn [head_min]. rewrite Forall_forall in *. intros u Hu.
    destruct (Hw _ Hu) as [H|H]; [exact H|].
    rewrite (Hkey u (or_intror Hu) H). exact E.
Qed.

(* ---------- decrease_key ---------- *)
Lemma decrease_key_unfold : forall i nk h,
  decrease_key i nk h =
  if (Z.leb (h_cap h) i) || (Z.ltb i 0) then h
  else match forest_find i (h_roots h) with
  | None => h
  | Some n =>
    if Z.ltb (t_key n) nk then h
    else match dk_roots i nk [] (h_roots h) with
    | None => h
    | Some (rs, cuts) =>
      mkHeap (h_cap h) (h_dn h)
             (reroot i nk (fold_left (fun rs c => add_root_list c rs) cuts rs))
             (h_num_nodes h) (h_num_trees h + Z.of_nat (length cuts))
    end
  end.
Proof. reflexivity. Qed.

Lemma NoDup_fst_fun : forall (m : amap) i k k', NoDup (map fst m) -> In (i, k) m -> In (i, k') m -> k = k'.
Proof.
  intros m i k k' Hnd H1 H2. apply (a_get_in _ _ _ Hnd) in H1. apply (a_get_in _ _ _ Hnd) in H2. congruence.
Qed.

Theorem decrease_key_spec : forall i nk h, Inv h ->
  Inv (decrease_key i nk h) /\
  h_cap (decrease_key i nk h) = h_cap h /\ h_dn (decrease_key i nk h) = h_dn h /\
  agree (abs (decrease_key i nk h)) (spec_decrease (h_cap h) i nk (abs h)).
Proof.
  intros i nk h HI. rewrite decrease_key_unfold. unfold spec_decrease.
  destruct ((Z.leb (h_cap h) i) || (Z.ltb i 0)) eqn:Erange.
  { split; [exact HI|]. split; [reflexivity|]. split; [reflexivity|]. intros j; reflexivity. }
  pose proof (inv_nodup h HI) as Hnd. fold (forest_idxs (h_roots h)) in Hnd.
  destruct (forest_find i (h_roots h)) as [n|] eqn:Efind.
  2:{ apply forest_find_none in Efind. apply a_get_none in Efind. unfold abs. rewrite Efind.
      split; [exact HI|]. split; [reflexivity|]. split; [reflexivity|]. intros j; reflexivity. }
  destruct (forest_find_some _ _ _ Efind) as [Hn_idx Hn_in].
  assert (Hget : a_get i (abs h) = Some (t_key n)) by (apply a_get_in; assumption).
  rewrite Hget.
  destruct (Z.ltb_spec (t_key n) nk) as [Ek|Ek].
  { split; [exact HI|]. split; [reflexivity|]. split; [reflexivity|]. intros j; reflexivity. }
  destruct (dk_roots_lemma i nk (h_roots h) [] (inv_wf h HI)) as [HN HS].
  destruct (dk_roots i nk [] (h_roots h)) as [[rs cuts]|] eqn:Edk.
  2:{ exfalso. apply (HN eq_refl). eapply in_fst. exact Hn_in. }
  destruct (HS rs cuts eq_refl) as (Hwrs & Hwcuts & Hlen & (R & k0 & Hp1 & Hp2) & Hmin).
  { intros k1 Hin. rewrite (NoDup_fst_fun _ _ _ _ Hnd Hin Hn_in). exact Ek. }
  cbn [rev app] in *.
  set (rs1 := fold_left (fun rs c => add_root_list c rs) cuts rs) in *.
  assert (Hprs1 : Permutation rs1 (cuts ++ rs)) by apply fold_add_perm.
  assert (Hprs2 : Permutation (reroot i nk rs1) (cuts ++ rs)).
  { eapply Permutation_trans; [apply reroot_perm|exact Hprs1]. }
  assert (Hitems : Permutation (forest_items (reroot i nk rs1)) ((i, nk) :: R)).
  { eapply Permutation_trans; [apply forest_items_perm; exact Hprs2|].
    rewrite forest_items_app.
    eapply Permutation_trans; [apply Permutation_app_comm|exact Hp2]. }
  assert (Hidx1 : Permutation (forest_idxs (h_roots h)) (i :: map fst R)).
  { unfold forest_idxs. change (i :: map fst R) with (map fst ((i, k0) :: R)). apply Permutation_map. exact Hp1. }
  assert (Hidx2 : Permutation (forest_idxs (reroot i nk rs1)) (i :: map fst R)).
  { unfold forest_idxs. change (i :: map fst R) with (map fst ((i, nk) :: R)). apply Permutation_map. exact Hitems. }
  assert (Hnd2 : NoDup (forest_idxs (reroot i nk rs1))).
  { eapply Permutation_NoDup; [apply Permutation_sym; exact Hidx2|].
    eapply Permutation_NoDup; [exact Hidx1|exact Hnd]. }
  assert (Hwh1 : whm i rs1).
  { destruct (Hmin (inv_min h HI)) as [[Hc|Hm] Hw].
    - unfold rs1. rewrite Hc. cbn [fold_left]. exact Hw.
    - apply head_min_whm. unfold rs1. apply fold_add_head_min. exact Hm. }
  assert (Hkeys1 : forall t, In t rs1 -> t_idx t = i -> t_key t = nk).
  { intros t Ht Hti.
    assert (Hin : In (i, t_key t) (forest_items (reroot i nk rs1))).
    { rewrite <- Hti. apply root_item_in. eapply Permutation_in; [apply Permutation_sym; apply reroot_perm|exact Ht]. }
    assert (Hin2 : In (i, nk) (forest_items (reroot i nk rs1))).
    { eapply Permutation_in; [apply Permutation_sym; exact Hitems|left; reflexivity]. }
    exact (NoDup_fst_fun _ _ _ _ Hnd2 Hin Hin2). }
  split; [|split; [reflexivity|split; [reflexivity|]]].
  - constructor; cbn [h_roots h_cap h_num_nodes h_num_trees].
    + exact Hnd2.
    + eapply Forall_perm; [apply Permutation_sym; exact Hidx2|].
      eapply Forall_perm; [exact Hidx1|apply HI].
    + eapply Forall_perm; [apply Permutation_sym; exact Hprs2|]. apply Forall_app. split; assumption.
    + apply reroot_head_min; assumption.
    + rewrite (inv_nn h HI). f_equal. rewrite !forest_size_items.
      rewrite (Permutation_length Hitems), (Permutation_length Hp1). reflexivity.
    + rewrite (inv_nt h HI), (Permutation_length Hprs2), app_length, Hlen. lia.
  - intros j. unfold abs at 1. cbn [h_roots].
    rewrite (a_get_perm _ _ Hnd2 Hitems j), a_get_set. cbn [a_get].
    destruct (Z.eqb_spec j i) as [E|E]; [reflexivity|].
    unfold abs. rewrite (a_get_perm _ _ Hnd Hp1 j). cbn [a_get].
    destruct (Z.eqb_spec j i) as [E'|E']; [contradiction|reflexivity].
Qed.

(* the guards of decrease_key: nothing at all changes *)
Lemma decrease_key_noop : forall i nk h,
  (h_cap h <= i \/ i < 0 \/ forest_find i (h_roots h) = None \/
   (exists n, forest_find i (h_roots h) = Some n /\ t_key n < nk)) ->
  decrease_key i nk h = h.
Proof.
  intros i nk h H. rewrite decrease_key_unfold.
  destruct (Z.leb_spec (h_cap h) i) as [E1|E1]; [reflexivity|].
  destruct (Z.ltb_spec i 0) as [E2|E2]; [reflexivity|]. cbn [orb].
  destruct H as [H|[H|[H|(n & Hn & Hk)]]]; try lia.
  - rewrite H. reflexivity.
  - rewrite Hn. destruct (Z.ltb_spec (t_key n) nk); [reflexivity|lia].
Qed.
