(* QuadTree_SpecExec.v — executable companions of the model and of the specification that the
   correspondence run uses (no proofs here; they are in QuadTree_Proof_Exec.v).

   forces_cells : the cells whose (cum_size, center_of_mass) computeNonEdgeForces adds, in the
                  order it adds them, each with its preorder number in the tree (the C++ dump and
                  the model dump number cells the same way).  forces_at is the fold of add_summary
                  over this list (forces_at_cells).
   struct_okb   : spec_okb without the two centre-of-mass equations.  The implementation's
                  center_of_mass is a rounded double, so the exact equation cum * com = sum cannot
                  be asked of it; the structural part (routing, counts, boxes, distinct stored
                  indices) is exact and is decided on the dump of the real tree.
   recom        : the tree with every centre of mass replaced by the exact mean of the indices the
                  cell answers for.  struct_okb t = true -> spec (recom t)  (struct_okb_sound);
                  the check then compares the dumped doubles with recom's rationals under a
                  rounding bound. *)
From Coq Require Import List Arith Bool ZArith QArith.
From TK Require Import QuadTree_Model QuadTree_Spec.
Import ListNotations.
Local Open Scope Q_scope.

Fixpoint ncells (t : qt) : nat :=
  match t with
  | Leaf _ _ _ _ => 1
  | Node _ _ _ nw ne sw se => S (ncells nw + ncells ne + ncells sw + ncells se)
  end.

Definition self_leaf (st : option (nat * nat)) (i : nat) : bool :=
  match st with Some (j, _) => (j =? i)%nat | None => false end.

(* (preorder number, cum_size, center_of_mass) of every cell used as a summary, in order *)
Fixpoint forces_cells (p : pt) (i : nat) (theta : Q) (n : nat) (t : qt) : list (nat * nat * pt) :=
  match t with
  | Leaf c st cum com =>
    if (cum =? 0)%nat then []
    else if self_leaf st i then []
    else [(n, cum, com)]
  | Node c cum com nw ne sw se =>
    if (cum =? 0)%nat then []
    else if summary_ok c theta (sqdist p com) then [(n, cum, com)]
    else forces_cells p i theta (S n) nw
         ++ forces_cells p i theta (S n + ncells nw) ne
         ++ forces_cells p i theta (S n + ncells nw + ncells ne) sw
         ++ forces_cells p i theta (S n + ncells nw + ncells ne + ncells sw) se
  end.

Definition add_cell (p : pt) (a : facc) (x : nat * nat * pt) : facc :=
  add_summary p (snd (fst x)) (snd x) a.

(* ---------- the structural part of the specification ---------- *)

Fixpoint cells_structb (data : list pt) (ins : list nat) (t : qt) : bool :=
  match t with
  | Leaf _ None cum _ => (cum =? 0)%nat
  | Leaf c (Some (j, _)) cum com =>
    let l := assigned data ins t in
    negb (match l with [] => true | _ => false end)
    && forallb (insideb data c) l && (cum =? length l)%nat
  | Node c cum com nw ne sw se =>
    let l := assigned data ins t in
    forallb (insideb data c) l && (cum =? length l)%nat
    && cells_structb data ins nw && cells_structb data ins ne
    && cells_structb data ins sw && cells_structb data ins se
  end.

Definition struct_okb (data : list pt) (ins : list nat) (t : qt) : bool :=
  let s := all_indices t in
  forallb (fun i => (length (filter (fun j => coincb data i j) s) =? 1)%nat) ins
  && cells_structb data ins t
  && forallb (fun j => existsb (Nat.eqb j) ins) s
  && pairwiseb (fun a b => negb (coincb data a b)) s.

Definition mean_of (data : list pt) (l : list nat) (cum : nat) (com : pt) : pt :=
  match cum with
  | O => com
  | S _ => (Qred (sumx data l / Qn cum), Qred (sumy data l / Qn cum))
  end.

Fixpoint recom (data : list pt) (ins : list nat) (t : qt) : qt :=
  match t with
  | Leaf c st cum com => Leaf c st cum (mean_of data (assigned data ins t) cum com)
  | Node c cum com nw ne sw se =>
    Node c cum (mean_of data (assigned data ins t) cum com)
         (recom data ins nw) (recom data ins ne) (recom data ins sw) (recom data ins se)
  end.

(* preorder list of the centres of mass (what the driver prints for recom) *)
Fixpoint coms (t : qt) : list pt :=
  match t with
  | Leaf _ _ _ com => [com]
  | Node _ _ com nw ne sw se => com :: coms nw ++ coms ne ++ coms sw ++ coms se
  end.

(* mass bookkeeping: every internal cell's cum_size is the sum of its children's (what F24 broke) *)
Fixpoint cum_consistent (t : qt) : bool :=
  match t with
  | Leaf _ _ _ _ => true
  | Node _ cum _ nw ne sw se =>
    (cum =? qcum nw + qcum ne + qcum sw + qcum se)%nat
    && cum_consistent nw && cum_consistent ne && cum_consistent sw && cum_consistent se
  end.

(* the two versions of the code side by side, for the regression witness *)
Definition build_order (fx : bool) (fuel : nat) (data : list pt) (order : list nat) (root : cell) : res :=
  fill_order fx fuel data order (init root).

(* ---------- tsne.hpp, computeGradient / evaluateError: one tree, one shared sum_Q ----------
   for (n = 0; n < N; n++) tree->computeNonEdgeForces(n, theta, neg_f + n*D, &sum_Q);
   neg_f was calloc'ed: every row starts from (0, 0); sum_Q runs through all rows. *)
Fixpoint nonedge_loop (data : list pt) (theta : Q) (t : qt) (ns : list nat) (sq : Q)
  : option (list (Q * Q) * Q) :=
  match ns with
  | [] => Some ([], sq)
  | n :: r =>
    match forces data n theta t (0, 0, sq) with
    | FOOB _ => None
    | FDone (f0, f1, sq') =>
      match nonedge_loop data theta t r sq' with
      | None => None
      | Some (l, s) => Some ((f0, f1) :: l, s)
      end
    end
  end.

(* QuadTree(Y, N), the constructor tsne.hpp uses: root box from the data (auto_root; slack = 1e-5 in the
   code), then fill(N).  None: N = 0 (the C++ divides 0/0 and inserts nothing). *)
Definition tsne_tree (slack : Q) (fuel : nat) (data : list pt) (N : nat) : option res :=
  match auto_root slack data N with
  | None => None
  | Some c => Some (fill true fuel data N (init c))
  end.

(* ---------- the literal reading of "mass = number of points inside the cell's box" ----------
   strictb: the point of index i lies in the OPEN box of c.  For a cell c of the tree with mass cum:
   #{i inserted : strictly inside c} <= cum <= #{i inserted : inside the closed box of c}; the two counts
   differ only by inserted points that lie on the boundary of c (they belong to two or four closed boxes
   and are counted in one of them). *)
Definition strict_in (c : cell) (p : pt) : bool :=
  Qltb (cx c - chw c) (fst p) && Qltb (fst p) (cx c + chw c) &&
  Qltb (cy c - chh c) (snd p) && Qltb (snd p) (cy c + chh c).

Definition strictb (data : list pt) (c : cell) (i : nat) : bool :=
  match nth_error data i with Some p => strict_in c p | None => false end.

Definition cell_counts_ok (data : list pt) (ins : list nat) (c : cell) (cum : nat) : Prop :=
  (length (filter (strictb data c) ins) <= cum)%nat /\ (cum <= length (filter (insideb data c) ins))%nat.

Fixpoint all_cells (P : cell -> nat -> Prop) (t : qt) : Prop :=
  match t with
  | Leaf c _ cum _ => P c cum
  | Node c cum _ nw ne sw se =>
    P c cum /\ all_cells P nw /\ all_cells P ne /\ all_cells P sw /\ all_cells P se
  end.
