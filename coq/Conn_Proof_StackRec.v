(* Conn_Proof_StackRec.v — regression theorem for the rejected recursive variant of the
   search (Conn_Model_Rec.v, seeded change C01_1_r2): on the path 0 -> 1 -> ... -> N-1 it
   takes the same decision as the shipped search but nests N activations, for EVERY N >= 2:
   the call-stack depth it needs grows linearly with the number of samples, whereas the
   explicit stack of the shipped search is bounded by Conn_Proof_Stack.main_stack_bounded
   and lives on the heap. *)
From Coq Require Import List Arith Bool Lia.
From TK Require Import Conn_Model Conn_Spec Conn_Proof_Graph Conn_Proof_Dfs Conn_Proof_Stack Conn_Model_Rec.
Import ListNotations.

Lemma nth_error_tf_true : forall i m j, j < i -> nth_error (repeat true i ++ repeat false m) j = Some true.
Proof.
  intros i m j H. rewrite nth_error_app1 by (rewrite repeat_length; lia).
  rewrite (nth_error_nth' _ false) by (rewrite repeat_length; lia). f_equal.
  apply (repeat_spec i true). apply nth_In. rewrite repeat_length. lia.
Qed.

Lemma nth_error_tf_false : forall i m j, i <= j -> j < i + m ->
  nth_error (repeat true i ++ repeat false m) j = Some false.
Proof.
  intros i m j H1 H2. rewrite nth_error_app2 by (rewrite repeat_length; lia). rewrite repeat_length.
  rewrite (nth_error_nth' _ true) by (rewrite repeat_length; lia). f_equal.
  apply (repeat_spec m false). apply nth_In. rewrite repeat_length. lia.
Qed.

Lemma nth_error_repeat_true : forall n j, j < n -> nth_error (repeat true n) j = Some true.
Proof.
  intros n j H. rewrite (nth_error_nth' _ false) by (rewrite repeat_length; lia). f_equal.
  apply (repeat_spec n true). apply nth_In. rewrite repeat_length. lia.
Qed.

Lemma set_nth_tf : forall i m,
  set_nth (repeat true i ++ repeat false (S m)) i true = repeat true (S i) ++ repeat false m.
Proof.
  induction i as [|i IH]; intros m; [reflexivity|].
  cbn [repeat app set_nth]. f_equal. apply IH.
Qed.

Lemma repeat_true_split : forall N i, i <= N -> repeat true N = repeat true i ++ repeat true (N - i).
Proof. intros N i H. rewrite <- repeat_app. f_equal. lia. Qed.

Lemma path1_row : forall N i, i < N ->
  nth_error (path1 N) i = Some [if S i <? N then S i else i - 1].
Proof.
  intros N i H. unfold path1.
  apply map_nth_error with (f := fun i => [if S i <? N then S i else i - 1]).
  rewrite (nth_error_nth' _ 0) by (rewrite seq_length; lia). rewrite seq_nth by lia. reflexivity.
Qed.

Lemma path1_wf : forall N, 2 <= N -> wf_graph N (path1 N) /\ (forall row, In row (path1 N) -> length row = 1).
Proof.
  intros N HN. split; [split|].
  - unfold path1. rewrite map_length, seq_length. reflexivity.
  - intros row Hr x Hx. unfold path1 in Hr. apply in_map_iff in Hr. destruct Hr as [i [<- Hi]].
    apply in_seq in Hi. destruct Hx as [<-|[]]. destruct (S i <? N) eqn:E.
    + apply Nat.ltb_lt in E. exact E.
    + lia.
  - intros row Hr. unfold path1 in Hr. apply in_map_iff in Hr. destruct Hr as [i [<- _]]. reflexivity.
Qed.

(* entering sample i with samples 0..i-1 visited and m = N-1-i samples ahead: everything gets
   visited and the activations nest m deeper *)
Lemma visit_rec_path : forall N, 2 <= N -> forall m i, i + m = N - 1 ->
  forall fuel nv d hw, m + 1 <= fuel ->
  visit_rec (path1 N) fuel i (repeat true i ++ repeat false (N - i)) nv d hw
  = COk (repeat true N, nv + m + 1, Nat.max hw (d + m)).
Proof.
  intros N HN. induction m as [|m IH]; intros i Him fuel nv d hw Hf.
  - (* the last sample: its only neighbour N-2 is visited already *)
    destruct fuel as [|fuel]; [lia|].
    assert (Hi : i = N - 1) by lia. subst i.
    replace (N - (N - 1)) with 1 by lia.
    cbn [visit_rec].
    rewrite nth_error_tf_false by lia.
    rewrite (path1_row N (N - 1)) by lia.
    replace (S (N - 1) <? N) with false by (symmetry; apply Nat.ltb_ge; lia).
    rewrite set_nth_tf. change (repeat false 0) with (@nil bool). rewrite app_nil_r.
    replace (S (N - 1)) with N by lia.
    replace (N - 1 - 1) with (N - 2) by lia.
    rewrite nth_error_repeat_true by lia.
    replace (nv + 0 + 1) with (S nv) by lia. replace (d + 0) with d by lia. reflexivity.
  - destruct fuel as [|fuel]; [lia|].
    assert (HiN : S i < N) by lia.
    replace (N - i) with (S (N - S i)) by lia.
    cbn [visit_rec].
    rewrite nth_error_tf_false by lia.
    rewrite (path1_row N i) by lia.
    replace (S i <? N) with true by (symmetry; apply Nat.ltb_lt; lia).
    rewrite set_nth_tf.
    rewrite nth_error_tf_false by lia.
    rewrite (IH (S i)) by lia.
    replace (S nv + m + 1) with (nv + S m + 1) by lia.
    replace (Nat.max (Nat.max hw d) (S d + m)) with (Nat.max hw (d + S m)) by lia. reflexivity.
Qed.

Lemma main_recursive_depth : forall N, 2 <= N ->
  wf_graph N (path1 N) /\ (forall row, In row (path1 N) -> length row = 1) /\
  all_reachable_from_first_rec N (path1 N) = COk (true, N) /\
  all_reachable_from_first N (path1 N) = COk true /\
  snd (all_reachable_from_first_hw N (path1 N)) <= N + 1.
Proof.
  intros N HN. destruct (path1_wf N HN) as [Hwf Hu].
  split; [exact Hwf|]. split; [exact Hu|]. split; [|split].
  - unfold all_reachable_from_first_rec.
    pose proof (visit_rec_path N HN (N - 1) 0 ltac:(lia) (N + 1) 0 1 0 ltac:(lia)) as H.
    cbn [repeat app] in H. rewrite Nat.sub_0_r in H. rewrite H.
    replace (0 + (N - 1) + 1) with N by lia. rewrite Nat.eqb_refl. f_equal. f_equal. lia.
  - destruct (all_reachable_from_first_correct N (path1 N) ltac:(lia) Hwf) as [b [Eb Hb]].
    rewrite Eb. f_equal. apply Hb.
    (* every sample is reachable from sample 0 along the path *)
    assert (Hreach : forall j, j < N -> reach (path1 N) 0 j).
    { induction j as [|j IHj]; intros Hj; [apply reach_refl|].
      eapply reach_step_r; [apply IHj; lia|].
      eapply edge_of_nth_error; [apply path1_row; lia|].
      replace (S j <? N) with true by (symmetry; apply Nat.ltb_lt; lia). left. reflexivity. }
    exact Hreach.
  - pose proof (all_reachable_from_first_hw_bound N (path1 N)) as H.
    rewrite (total_len_uniform 1 (path1 N) Hu) in H. destruct Hwf as [Hl _]. rewrite Hl in H. lia.
Qed.

Lemma nv_recursive : 2 <= 50 /\ all_reachable_from_first_rec 50 (path1 50) = COk (true, 50) /\
  all_reachable_from_first_hw 50 (path1 50) = (COk true, 1).
Proof. split; [lia|]. split; vm_compute; reflexivity. Qed.
