(* ====================================================================== *)
(*  Lle_Calls.v — what the three method classes hand to the weight-matrix  *)
(*  routines and to the eigensolver front-end (C08, wave 2).               *)
(*  gen/LleCalls.v is GENERATED from the current source by                 *)
(*  translate/t_lle_calls.py: parameter names of linear_/tangent_/         *)
(*  hessian_weight_matrix in order, and, from embed() of                   *)
(*  KernelLocallyLinearEmbedding / KernelLocalTangentSpaceAlignment /      *)
(*  HessianLocallyLinearEmbedding, the argument lists of the routine call, *)
(*  of find_neighbors_with and of eigendecomposition_via.                  *)
(*  The model (Lle_Model.lle_run .. shift ts, ltsa_run .. d .. shift,      *)
(*  hlle_run_sf .. d) and the harness (positional calls) assume the        *)
(*  binding checked by method_ok:                                          *)
(*     routine parameters 1-4 = begin, end, the neighbours found with      *)
(*     kernel_distance, the kernel callback;                               *)
(*     the scalar parameters are bound as listed (KLLE: shift <-           *)
(*     nullspace_shift, trace_shift <- klle_shift; KLTSA: target_dimension *)
(*     <- target_dimension, shift <- nullspace_shift; HLLE:                *)
(*     target_dimension <- target_dimension);                              *)
(*     the matrix the routine returned goes to eigendecomposition_via with *)
(*     SmallestEigenvalues and parameters[target_dimension], and `.first`  *)
(*     (the eigenvectors) is the embedding.                                *)
(*  lle_calls_table is the obligation over the generated tables: a method  *)
(*  class that passes the two shifts in the wrong order, the wrong         *)
(*  distance, the wrong strategy ... re-opens the proof.                   *)
(* ====================================================================== *)
Require Import String List Bool.
From TK Require Import LleCalls.
Import ListNotations.
Local Open Scope string_scope.

Fixpoint strs_eqb (a b : list string) : bool :=
  match a, b with
  | [], [] => true
  | x :: a', y :: b' => String.eqb x y && strs_eqb a' b'
  | _, _ => false
  end.

Lemma strs_eqb_ok a b : strs_eqb a b = true -> a = b.
Proof.
  revert b. induction a as [|x a IH]; intros [|y b] H; cbn in H; try discriminate; [reflexivity|].
  apply andb_true_iff in H. destruct H as [H1 H2]. apply String.eqb_eq in H1. subst. f_equal. apply IH. exact H2.
Qed.

Fixpoint pairs_eqb (a b : list (string * string)) : bool :=
  match a, b with
  | [], [] => true
  | (x, x') :: a', (y, y') :: b' => String.eqb x y && String.eqb x' y' && pairs_eqb a' b'
  | _, _ => false
  end.

(* sig = parameter names of the routine; call = what embed() passes; nbrs = [variable; distance];
   mat = [variable holding the routine's result]; eig = arguments of eigendecomposition_via ++ [member];
   scalars = the binding of the scalar parameters the model assumes *)
Definition method_ok (sig call nbrs mat eig : list string) (scalars : list (string * string)) : bool :=
  strs_eqb (firstn 4 sig) ["begin"; "end"; "neighbors"; "callback"] &&
  strs_eqb (firstn 2 call) ["begin"; "end"] &&
  strs_eqb [nth 2 call ""] (firstn 1 nbrs) &&
  strs_eqb (skipn 1 nbrs) ["kernel_distance"] &&
  String.eqb (nth 3 call "") "kernel" &&
  Nat.eqb (length sig) (length call) &&
  pairs_eqb (combine (skipn 4 sig) (skipn 4 call)) scalars &&
  strs_eqb eig ("SmallestEigenvalues" :: firstn 1 mat ++ ["target_dimension"; "first"]) &&
  Nat.eqb (length mat) 1.

Definition klle_binding : list (string * string) := [("shift", "nullspace_shift"); ("trace_shift", "klle_shift")].
Definition kltsa_binding : list (string * string) :=
  [("target_dimension", "target_dimension"); ("shift", "nullspace_shift")].
Definition hlle_binding : list (string * string) := [("target_dimension", "target_dimension")].

Theorem lle_calls_table :
  method_ok mc_lle_sig mc_klle_call mc_klle_neighbors mc_klle_matrix mc_klle_eig klle_binding = true /\
  method_ok mc_ltsa_sig mc_kltsa_call mc_kltsa_neighbors mc_kltsa_matrix mc_kltsa_eig kltsa_binding = true /\
  method_ok mc_hlle_sig mc_hlle_call mc_hlle_neighbors mc_hlle_matrix mc_hlle_eig hlle_binding = true.
Proof. vm_compute. repeat split; reflexivity. Qed.

(* what method_ok says about the KLLE call, spelled out *)
Lemma method_ok_scalars sig call nbrs mat eig scalars :
  method_ok sig call nbrs mat eig scalars = true ->
  pairs_eqb (combine (skipn 4 sig) (skipn 4 call)) scalars = true /\
  strs_eqb eig ("SmallestEigenvalues" :: firstn 1 mat ++ ["target_dimension"; "first"]) = true.
Proof.
  unfold method_ok. rewrite !andb_true_iff. intros H. tauto.
Qed.
