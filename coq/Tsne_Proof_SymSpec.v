(* Tsne_Proof_SymSpec.v — the decision procedures of Tsne_Spec.v that the check runs on the
   implementation's own output are sound: wf_csr_b reflects wf_csr, and sym_spec_b = true
   implies the specification sym_spec with values compared up to Qeq. *)
From Coq Require Import List Arith Bool ZArith QArith Lia.
From TK Require Import Tsne_Sym_Model Tsne_Spec.
Import ListNotations.

Lemma nat_nodup_b_spec : forall l, nat_nodup_b l = true <-> NoDup l.
Proof.
  induction l as [|x r IH]; cbn [nat_nodup_b].
  - split; [constructor | reflexivity].
  - rewrite andb_true_iff, negb_true_iff, IH. split.
    + intros [H1 H2]. constructor; [|assumption]. intros Hin.
      assert (existsb (Nat.eqb x) r = true); [|congruence].
      apply existsb_exists. exists x. split; [assumption | apply Nat.eqb_refl].
    + intros H. inversion H; subst. split; [|assumption].
      destruct (existsb (Nat.eqb x) r) eqn:E; [|reflexivity].
      apply existsb_exists in E. destruct E as (y & Hy & E). apply Nat.eqb_eq in E. now subst.
Qed.

Theorem wf_csr_b_spec : forall {V} N (p : csr V), wf_csr_b N p = true <-> wf_csr N p.
Proof.
  intros V N p. unfold wf_csr_b, wf_csr.
  rewrite !andb_true_iff, !Nat.eqb_eq, !forallb_forall. split.
  - intros [[[[[[H1 H2] H3] H4] H5] H6] H7]. repeat split; try assumption.
    + intros n Hn. specialize (H3 n). rewrite in_seq in H3. specialize (H3 ltac:(lia)). now apply Nat.leb_le.
    + intros c Hc. specialize (H6 c Hc). now apply Nat.ltb_lt.
    + intros n Hn. specialize (H7 n). rewrite in_seq in H7. specialize (H7 ltac:(lia)). now apply nat_nodup_b_spec.
  - intros (H1 & H2 & H3 & H4 & H5 & H6 & H7). repeat split; try assumption.
    + intros n Hn. apply in_seq in Hn. apply Nat.leb_le. apply H3. lia.
    + intros c Hc. apply Nat.ltb_lt. now apply H6.
    + intros n Hn. apply in_seq in Hn. apply nat_nodup_b_spec. apply H7. lia.
Qed.

Definition oq_eq (a b : option Q) : Prop :=
  match a, b with
  | Some x, Some y => x == y
  | None, None => True
  | _, _ => False
  end.

Lemma oq_eqb_spec : forall a b, oq_eqb a b = true <-> oq_eq a b.
Proof.
  intros [x|] [y|]; cbn [oq_eqb oq_eq].
  - apply Qeq_bool_iff.
  - split; [discriminate | intros []].
  - split; [discriminate | intros []].
  - tauto.
Qed.

(* what the extracted decision procedure establishes about an implementation output s *)
Theorem sym_spec_b_sound : forall N (p s : csr Q),
  sym_spec_b N p s = true ->
  wf_csr N s /\
  forall r x, (r < N)%nat -> (x < N)%nat -> oq_eq (lookup s r x) (sym_entry Qplus qhalf p r x).
Proof.
  intros N p s H. unfold sym_spec_b in H. apply andb_true_iff in H. destruct H as [H1 H2].
  split; [now apply wf_csr_b_spec|].
  intros r x Hr Hx. rewrite forallb_forall in H2. specialize (H2 r). rewrite in_seq in H2.
  specialize (H2 ltac:(lia)). rewrite forallb_forall in H2. specialize (H2 x). rewrite in_seq in H2.
  specialize (H2 ltac:(lia)). now apply oq_eqb_spec.
Qed.

(* and conversely: a result meeting the specification exactly is accepted *)
Theorem sym_spec_b_complete : forall N (p s : csr Q),
  sym_spec Qplus qhalf N p s -> sym_spec_b N p s = true.
Proof.
  intros N p s [Hwf Hl]. unfold sym_spec_b. apply andb_true_iff. split; [now apply wf_csr_b_spec|].
  apply forallb_forall. intros r Hr. apply in_seq in Hr. apply forallb_forall. intros x Hx. apply in_seq in Hx.
  apply oq_eqb_spec. rewrite (Hl r x ltac:(lia) ltac:(lia)).
  destruct (sym_entry Qplus qhalf p r x); cbn [oq_eq]; [reflexivity | exact I].
Qed.

(* non-vacuity: an accepted (input, output) pair — the output is what the real routine printed for it *)
Definition ex_p : csr Q := mkCsr [0; 1; 2; 3]%nat [1; 2; 0]%nat [1 # 2; 1 # 4; 1]%Q.
Definition ex_s : csr Q :=
  mkCsr [0; 2; 4; 6]%nat [1; 2; 0; 2; 1; 0]%nat [1 # 4; 1 # 2; 1 # 4; 1 # 8; 1 # 8; 1 # 2]%Q.
Example sym_spec_b_accepts : sym_spec_b 3 ex_p ex_s = true.
Proof. vm_compute. reflexivity. Qed.
