(* Properties_C19.v — SPE, Random Projection, Factor Analysis (DESIGN.md section 6, C19).
   Only statements; every proof is `exact <lemma>` from Spe_Proof_*.v.  Theorems about the models of
   Spe_Model.v (index bookkeeping of routines/spe.hpp, its batched coordinate update, the projection
   of routines/random_projection.hpp + pca.hpp, the EM loop of routines/fa.hpp).  Convergence of the
   stochastic iteration "for every random initialisation" and the distribution of the Gaussian
   oracle are NOT theorems here: they are measured by checks/c19.py and labelled as tests. *)
Require Import List Arith Lia Bool ZArith QArith Qround Qcanon Permutation.
From TK Require Import Mat_Sums Mat_Core Mat_Qc Spe_Model Spe_Spec Spe_Proof_Lists Spe_Proof_Index
     Spe_Proof_Coord Spe_Proof_Closed Spe_Run_Model Spe_Proof_Run.
Import ListNotations.
Local Open Scope nat_scope.

(* ---- nupdates clamp -------------------------------------------------------------------------- *)
Theorem nupdates_clamp : forall fuel nupd N,
  clamp_loop (S (S fuel)) nupd N = Some (Nat.min nupd (N / 2)) /\
  Nat.min nupd (N / 2) + Nat.min nupd (N / 2) <= N.
Proof. exact (fun fuel nupd N => conj (clamp_loop_min fuel nupd N) (clamp_two_halves nupd N)). Qed.
Print Assumptions nupdates_clamp.

(* ---- global strategy (old and current code) --------------------------------------------------- *)
Theorem global_indices_perm : forall (old : bool) nbrs nupd N its,
  Forall (fun i => is_perm N (it_from i)) its ->
  exists outs,
    spe_indices old true nbrs nupd N its = Ok outs /\ length outs = length its /\
    Forall (fun o => global_iter_ok N (Nat.min nupd (N / 2)) (o_perm o) (o_pairs o) /\
                     o_idx o = o_perm o) outs.
Proof. exact global_indices_perm_proof. Qed.
Print Assumptions global_indices_perm.

Example global_indices_perm_nonvacuous :
  Forall (fun i => is_perm 6 (it_from i)) w_its /\
  exists outs, spe_indices false true [] 5 6 w_its = Ok outs /\ length outs = 3.
Proof.
  split.
  - exact (Forall_impl _ (fun i H => proj1 H) w_its_ok).
  - eexists. split; vm_compute; reflexivity.
Qed.

Theorem global_pair_members_differ : forall ps a b,
  pairs_disjoint ps -> In (a, b) ps -> a <> b.
Proof. exact pairs_disjoint_neq. Qed.
Print Assumptions global_pair_members_differ.

Example global_pair_members_differ_nonvacuous : pairs_disjoint [(0, 3); (1, 2)] /\ In (1, 2) [(0, 3); (1, 2)].
Proof. split; [apply nodup_b_ok; reflexivity|right; left; reflexivity]. Qed.

(* ---- local strategy, current code -------------------------------------------------------------- *)
Theorem local_indices_spec : forall nbrs nupd N its,
  let k := length (nth 0 nbrs []) in
  let nu := Nat.min nupd (N / 2) in
  0 < N -> 0 < k -> nbrs_ok N k nbrs ->
  Forall (fun i => is_perm N (it_from i) /\ us_ok nu (it_us i)) its ->
  exists outs,
    spe_indices false false nbrs nupd N its = Ok outs /\
    Forall2 (fun i o =>
               local_iter_ok N nu k nbrs (o_perm o) (o_pairs o) /\
               o_pairs o = local_pairs nbrs k nu (it_us i) (o_perm o) /\
               length (o_idx o) = N /\ firstn nu (o_idx o) = firstn nu (o_perm o)) its outs.
Proof. exact local_indices_spec_proof. Qed.
Print Assumptions local_indices_spec.

Example local_indices_spec_nonvacuous :
  0 < 6 /\ 0 < length (nth 0 w_nbrs []) /\ nbrs_ok 6 (length (nth 0 w_nbrs [])) w_nbrs /\
  Forall (fun i => is_perm 6 (it_from i) /\ us_ok (Nat.min 3 (6 / 2)) (it_us i)) w_its.
Proof. repeat split; try (cbn; lia); [apply w_nbrs_ok|exact w_its_ok]. Qed.

Theorem local_draw_in_range : forall k u,
  0 < k -> (0 <= u)%Q -> (u < 1)%Q -> (0 <= draw k u < Z.of_nat k)%Z.
Proof. exact draw_range. Qed.
Print Assumptions local_draw_in_range.

Example local_draw_in_range_nonvacuous : 0 < 3 /\ (0 <= 1 # 2)%Q /\ (1 # 2 < 1)%Q.
Proof. repeat split; try lia; discriminate. Qed.

Theorem local_every_neighbour_drawable : forall k m,
  m < k -> exists u, (0 <= u)%Q /\ (u < 1)%Q /\ draw k u = Z.of_nat m.
Proof. exact draw_onto. Qed.
Print Assumptions local_every_neighbour_drawable.

Example local_every_neighbour_drawable_nonvacuous : 2 < 3.
Proof. lia. Qed.

Theorem local_every_neighbour_pair_realisable : forall nbrs k nu perm j m,
  j < nu -> m < k ->
  exists us, us_ok nu us /\
             nth j (local_pairs nbrs k nu us perm) (0, 0) =
             (nth j perm 0, nth m (nth (nth j perm 0) nbrs []) 0).
Proof. exact local_any_neighbour_pair. Qed.
Print Assumptions local_every_neighbour_pair_realisable.

(* ---- the old code (before F14), kept as regression theorems ----------------------------------- *)
Theorem local_indices_refuted :
  exists nbrs nupd N its outs,
    nbrs_ok N (length (nth 0 nbrs [])) nbrs /\
    Forall (fun i => is_perm N (it_from i) /\ us_ok (Nat.min nupd (N / 2)) (it_us i)) its /\
    spe_indices true false nbrs nupd N its = Ok outs /\
    Exists (fun o => ~ is_perm N (o_perm o)) outs.
Proof. exact local_indices_refuted_proof. Qed.
Print Assumptions local_indices_refuted.

Theorem old_draw_never_last : forall k u,
  2 <= k -> (0 <= u)%Q -> (u < 1)%Q -> (draw_old k u < Z.of_nat k - 1)%Z.
Proof. exact draw_old_never_last. Qed.
Print Assumptions old_draw_never_last.

Example old_draw_never_last_nonvacuous : 2 <= 3 /\ (0 <= 999 # 1000)%Q /\ (999 # 1000 < 1)%Q.
Proof. repeat split; try lia; discriminate. Qed.

(* ---- coordinate update (any field in which 1 + 1 <> 0) ---------------------------------------- *)
Theorem pair_update : forall (F : Type) (Fo : FieldOps F) (Ff : IsField F)
    (lam tol r dn : F) (Y : pts) a b t,
  a <> b -> two <> 0%F -> (dn + tol)%F <> 0%F ->
  let Y' := spe_step lam tol [(a, b)] [r] [dn] Y in
  (Y' a t - Y' b t = (1 + lam * (r - dn - tol) / (dn + tol)) * (Y a t - Y b t))%F.
Proof. exact (@pair_update_proof). Qed.
Print Assumptions pair_update.

Example pair_update_nonvacuous :
  0 <> 1 /\ (@two Qc _) <> 0%F /\ (qz 5 + qfrac 1 2)%F <> 0%F.
Proof.
  repeat split; [lia|exact Qc_two_neq0|]. apply Qc_neq_by_num. vm_compute. discriminate.
Qed.

Theorem pair_update_distance : forall (F : Type) (Fo : FieldOps F) (Ff : IsField F)
    d (lam tol r dn : F) (Y : pts) a b,
  a <> b -> two <> 0%F -> (dn + tol)%F <> 0%F -> (dn * dn)%F = sqdist d (Y a) (Y b) ->
  let Y' := spe_step lam tol [(a, b)] [r] [dn] Y in
  let dn' := (dn * (1 + lam * (r - dn - tol) / (dn + tol)))%F in
  (dn' * dn')%F = sqdist d (Y' a) (Y' b).
Proof. exact (@pair_update_distance_proof). Qed.
Print Assumptions pair_update_distance.

Theorem pair_update_exact : forall (F : Type) (Fo : FieldOps F) (Ff : IsField F)
    d (r dn : F) (Y : pts) a b,
  a <> b -> two <> 0%F -> dn <> 0%F -> (dn * dn)%F = sqdist d (Y a) (Y b) ->
  let Y' := spe_step 1%F 0%F [(a, b)] [r] [dn] Y in
  (r * r)%F = sqdist d (Y' a) (Y' b).
Proof. exact (@pair_update_exact_proof). Qed.
Print Assumptions pair_update_exact.

Example pair_update_exact_nonvacuous :
  0 <> 1 /\ (@two Qc _) <> 0%F /\ qz 5 <> 0%F /\ (qz 5 * qz 5)%F = sqdist 2 (ex_Y 0) (ex_Y 1) /\
  (qz 7 * qz 7)%F = sqdist 2 (spe_step 1%F 0%F [(0, 1)] [qz 7] [qz 5] ex_Y 0)
                              (spe_step 1%F 0%F [(0, 1)] [qz 7] [qz 5] ex_Y 1).
Proof.
  split; [lia|]. split; [exact Qc_two_neq0|]. split; [|split; [exact ex_Y_norm|]].
  - apply Qc_neq_by_num. vm_compute. discriminate.
  - apply Qc_is_canon. vm_compute. reflexivity.
Qed.

Theorem batch_update : forall (F : Type) (Fo : FieldOps F) (Ff : IsField F)
    (lam tol : F) ps (Rt Dn : list F) (Y : pts) j t,
  pairs_disjoint ps -> length Rt = length ps -> length Dn = length ps -> j < length ps ->
  two <> 0%F -> (nth j Dn 0 + tol)%F <> 0%F ->
  let a := fst (nth j ps (0, 0)) in
  let b := snd (nth j ps (0, 0)) in
  let Y' := spe_step lam tol ps Rt Dn Y in
  (Y' a t - Y' b t =
   (1 + lam * (nth j Rt 0 - nth j Dn 0 - tol) / (nth j Dn 0 + tol)) * (Y a t - Y b t))%F.
Proof. exact (@batch_update_proof). Qed.
Print Assumptions batch_update.

Example batch_update_nonvacuous :
  pairs_disjoint [(0, 3); (1, 2)] /\ 1 < length [(0, 3); (1, 2)] /\
  (nth 1 [qz 1; qz 2] 0 + qfrac 1 4)%F <> 0%F.
Proof.
  repeat split; [apply nodup_b_ok; reflexivity|cbn; lia|].
  apply Qc_neq_by_num. vm_compute. discriminate.
Qed.

Theorem spe_centroid_invariant : forall (F : Type) (Fo : FieldOps F) (Ff : IsField F)
    N (lam tol : F) ps (Rt Dn : list F) (Y : pts) t,
  Forall (fun p => fst p < N /\ snd p < N) ps ->
  sumn N (fun i => spe_step lam tol ps Rt Dn Y i t) = sumn N (fun i => Y i t).
Proof. exact (@spe_centroid_invariant_proof). Qed.
Print Assumptions spe_centroid_invariant.

Example spe_centroid_invariant_nonvacuous :
  Forall (fun p => fst p < 4 /\ snd p < 4) [(0, 3); (1, 3); (1, 0)].
Proof. repeat constructor. Qed.

Theorem pair_update_finite : forall dn tol : Q, (0 <= dn)%Q -> (0 < tol)%Q -> (0 < dn + tol)%Q.
Proof. exact pair_denominator_pos_proof. Qed.
Print Assumptions pair_update_finite.

Theorem pair_factor_nonneg : forall lam tol r dn : Q,
  (0 <= dn)%Q -> (0 < tol)%Q -> (0 <= r)%Q -> (0 <= lam)%Q -> (lam <= 1)%Q ->
  (0 <= 1 + lam * (r - dn - tol) / (dn + tol))%Q.
Proof. exact pair_factor_nonneg_proof. Qed.
Print Assumptions pair_factor_nonneg.

Example pair_factor_nonneg_nonvacuous :
  (0 <= 3)%Q /\ (0 < 1 # 100000)%Q /\ (0 <= 1 # 2)%Q /\ (0 <= 9 # 10)%Q /\ (9 # 10 <= 1)%Q.
Proof. repeat split; discriminate. Qed.

Theorem lambda_schedule : forall (T : positive) (lam : Q),
  (0 <= lam)%Q -> (lam <= 1)%Q ->
  (0 <= lam - lam / inject_Z (Z.pos T))%Q /\ (lam - lam / inject_Z (Z.pos T) <= lam)%Q.
Proof. exact lambda_schedule_proof. Qed.
Print Assumptions lambda_schedule.

(* ---- the complete main loop: index bookkeeping + coordinate updates, every random stream ------ *)
Theorem spe_run_centroid_global : forall (F : Type) (Fo : FieldOps F) (Ff : IsField F)
    (old : bool) nbrs nupd N its (norms : list (list F)) (tol alpha : F) (R : nat -> nat -> F) (Y0 : pts) t,
  Forall (fun i => is_perm N (it_from i)) its ->
  exists Y, spe_embedding_run old true nbrs nupd N its norms tol alpha R Y0 = Ok Y /\
            sumn N (fun i => Y i t) = sumn N (fun i => Y0 i t).
Proof. exact (@spe_run_centroid_global_proof). Qed.
Print Assumptions spe_run_centroid_global.

Theorem spe_run_centroid_local : forall (F : Type) (Fo : FieldOps F) (Ff : IsField F)
    nbrs nupd N its (norms : list (list F)) (tol alpha : F) (R : nat -> nat -> F) (Y0 : pts) t,
  let k := length (nth 0 nbrs []) in
  let nu := Nat.min nupd (N / 2) in
  0 < N -> 0 < k -> nbrs_ok N k nbrs -> nbrs_below N nbrs ->
  Forall (fun i => is_perm N (it_from i) /\ us_ok nu (it_us i)) its ->
  exists Y, spe_embedding_run false false nbrs nupd N its norms tol alpha R Y0 = Ok Y /\
            sumn N (fun i => Y i t) = sumn N (fun i => Y0 i t).
Proof. exact (@spe_run_centroid_local_proof). Qed.
Print Assumptions spe_run_centroid_local.

Example spe_run_centroid_local_nonvacuous :
  nbrs_below 6 w_nbrs /\
  exists Y, spe_embedding_run false false w_nbrs 3 6 w_its [[qz 1; qz 2; qz 1]; [qz 3; qz 1; qz 1]; [qz 2; qz 2; qz 5]]
                              (qfrac 1 8) (qz 1) (fun a b => qz (Z.of_nat (a + b))) ex_Y = Ok Y.
Proof.
  split.
  - unfold nbrs_below, w_nbrs. repeat (constructor; [repeat (constructor; [lia|]); constructor|]). constructor.
  - destruct (spe_run_centroid_local_proof w_nbrs 3 6 w_its
                [[qz 1; qz 2; qz 1]; [qz 3; qz 1; qz 1]; [qz 2; qz 2; qz 5]] (qfrac 1 8) (qz 1)
                (fun a b => qz (Z.of_nat (a + b))) ex_Y 0) as [Y [E _]];
      try (cbn; lia); try exact w_nbrs_ok; try exact w_its_ok.
    + unfold nbrs_below, w_nbrs. repeat (constructor; [repeat (constructor; [lia|]); constructor|]). constructor.
    + exists Y. exact E.
Qed.

(* ---- random projection -------------------------------------------------------------------------- *)
Theorem rp_entries_one_draw : forall (F : Type) (Fo : FieldOps F) (s : F) cols rows g,
  rows * cols <= length g ->
  exists P, rp_fill s rows cols g = Ok (P, skipn (rows * cols) g) /\ length P = rows /\
            forall i j, i < rows -> j < cols -> mof P i j = (nth (i * cols + j) g 0 / s)%F.
Proof. exact (@rp_fill_ok_proof). Qed.
Print Assumptions rp_entries_one_draw.

Theorem rp_draw_index_injective : forall d i j i' j',
  j < d -> j' < d -> i * d + j = i' * d + j' -> i = i' /\ j = j'.
Proof. exact rp_index_inj. Qed.
Print Assumptions rp_draw_index_injective.

Theorem rp_translation_invariant : forall (F : Type) (Fo : FieldOps F) (Ff : IsField F)
    (s : F) n D d g (t : vec F) (X : mat F),
  of_nat n <> 0%F -> rp_embed s n D d g (translate t X) = rp_embed s n D d g X.
Proof. exact (@rp_translation_invariant_proof). Qed.
Print Assumptions rp_translation_invariant.

Example rp_translation_invariant_nonvacuous :
  (@of_nat Qc _ 4) <> 0%F /\
  exists P, rp_embed (qz 2) 4 2 1 [qz 1; qz (-3)] (fun i a => qz (Z.of_nat (i * i + a))) = Ok P.
Proof. split; [apply Qc_of_nat_neq0; lia|eexists; vm_compute; reflexivity]. Qed.

Theorem rp_output_centred : forall (F : Type) (Fo : FieldOps F) (Ff : IsField F)
    (s : F) n D d g (X : mat F) P c,
  of_nat n <> 0%F -> c < d -> rp_embed s n D d g X = Ok P -> sumn n (fun i => mof P i c) = 0%F.
Proof. exact (@rp_output_centred_proof). Qed.
Print Assumptions rp_output_centred.

(* ---- factor analysis ------------------------------------------------------------------------------ *)
Theorem fa_translation_invariant : forall (F : Type) (Fo : FieldOps F) (Ff : IsField F)
    (inv : nat -> mat F -> mat F) (logdet : nat -> mat F -> F) (stop : F -> F -> bool)
    max_iter n D d (eps : F) (A0 : mat F) (t : vec F) (S : mat F),
  of_nat n <> 0%F ->
  fa_embed inv logdet stop max_iter n D d eps A0 (translate t S) =
  fa_embed inv logdet stop max_iter n D d eps A0 S.
Proof. exact (@fa_translation_invariant_proof). Qed.
Print Assumptions fa_translation_invariant.

Theorem fa_output_centred : forall (F : Type) (Fo : FieldOps F) (Ff : IsField F)
    (inv : nat -> mat F -> mat F) (logdet : nat -> mat F -> F) (stop : F -> F -> bool)
    max_iter n D d (eps : F) (A0 : mat F) (S : mat F) c,
  of_nat n <> 0%F -> c < d ->
  sumn n (fun i => mof (fa_embed inv logdet stop max_iter n D d eps A0 S) i c) = 0%F.
Proof. exact (@fa_output_centred_proof). Qed.
Print Assumptions fa_output_centred.

Example fa_nonvacuous :
  (@of_nat Qc _ 2) <> 0%F /\
  length (fa_embed (fun _ M => M) (fun _ _ => 0%F) (fun _ _ => false) 2 2 2 1 (qfrac 1 8)
                   (fun i j => qz 1) (fun i a => qz (Z.of_nat (i + 2 * a)))) = 2.
Proof. split; [apply Qc_of_nat_neq0; lia|vm_compute; reflexivity]. Qed.
