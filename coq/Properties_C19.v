(* Properties_C19.v — SPE, Random Projection, Factor Analysis (DESIGN.md section 6, C19).
   Only statements; every proof is `exact <lemma>` from Spe_Proof_*.v.  Theorems about the models of
   Spe_Model.v (index bookkeeping of routines/spe.hpp, its batched coordinate update, the projection
   of routines/random_projection.hpp + pca.hpp, the EM loop of routines/fa.hpp).  Convergence of the
   stochastic iteration "for every random initialisation" and the distribution of the Gaussian
   oracle are NOT theorems here: they are measured by checks/c19.py and labelled as tests. *)
Require Import List Arith Lia Bool ZArith QArith Qround Qcanon Permutation.
From TK Require Import Mat_Sums Mat_Core Mat_Qc Spe_Model Spe_Spec Spe_Proof_Lists Spe_Proof_Index
     Spe_Proof_Coord Spe_Proof_Closed Spe_Run_Model Spe_Proof_Run Spe_Des_Model Spe_Proof_Des
     Spe_Sched_Model Spe_Proof_Sched Spe_Proof_SchedFloat.
Import ListNotations.
Local Open Scope nat_scope.

(* ---- nupdates clamp -------------------------------------------------------------------------- *)
Theorem nupdates_clamp : forall fuel nupd N,
  clamp_loop (S (S fuel)) nupd N = Some (Nat.min nupd (N / 2)) /\
  Nat.min nupd (N / 2) + Nat.min nupd (N / 2) <= N.
Proof. exact (fun fuel nupd N => conj (clamp_loop_min fuel nupd N) (clamp_two_halves nupd N)). Qed.
Print Assumptions nupdates_clamp.

(* ---- global strategy (old and current code) --------------------------------------------------- *)
Theorem global_indices_perm : forall (old : bool) nbrs nupd N its,
  Forall (fun i => is_perm N (it_from i)) its ->
  exists outs,
    spe_indices old true nbrs nupd N its = Ok outs /\ length outs = length its /\
    Forall (fun o => global_iter_ok N (Nat.min nupd (N / 2)) (o_perm o) (o_pairs o) /\
                     o_idx o = o_perm o) outs.
Proof. exact global_indices_perm_proof. Qed.
Print Assumptions global_indices_perm.

Example global_indices_perm_nonvacuous :
  Forall (fun i => is_perm 6 (it_from i)) w_its /\
  exists outs, spe_indices false true [] 5 6 w_its = Ok outs /\ length outs = 3.
Proof.
  split.
  - exact (Forall_impl _ (fun i H => proj1 H) w_its_ok).
  - eexists. split; vm_compute; reflexivity.
Qed.

Theorem global_pair_members_differ : forall ps a b,
  pairs_disjoint ps -> In (a, b) ps -> a <> b.
Proof. exact pairs_disjoint_neq. Qed.
Print Assumptions global_pair_members_differ.

Example global_pair_members_differ_nonvacuous : pairs_disjoint [(0, 3); (1, 2)] /\ In (1, 2) [(0, 3); (1, 2)].
Proof. split; [apply nodup_b_ok; reflexivity|right; left; reflexivity]. Qed.

(* ---- local strategy, current code -------------------------------------------------------------- *)
Theorem local_indices_spec : forall nbrs nupd N its,
  let k := length (nth 0 nbrs []) in
  let nu := Nat.min nupd (N / 2) in
  0 < N -> 0 < k -> nbrs_ok N k nbrs ->
  Forall (fun i => is_perm N (it_from i) /\ us_ok nu (it_us i)) its ->
  exists outs,
    spe_indices false false nbrs nupd N its = Ok outs /\
    Forall2 (fun i o =>
               local_iter_ok N nu k nbrs (o_perm o) (o_pairs o) /\
               o_pairs o = local_pairs nbrs k nu (it_us i) (o_perm o) /\
               length (o_idx o) = N /\ firstn nu (o_idx o) = firstn nu (o_perm o)) its outs.
Proof. exact local_indices_spec_proof. Qed.
Print Assumptions local_indices_spec.

Example local_indices_spec_nonvacuous :
  0 < 6 /\ 0 < length (nth 0 w_nbrs []) /\ nbrs_ok 6 (length (nth 0 w_nbrs [])) w_nbrs /\
  Forall (fun i => is_perm 6 (it_from i) /\ us_ok (Nat.min 3 (6 / 2)) (it_us i)) w_its.
Proof. repeat split; try (cbn; lia); [apply w_nbrs_ok|exact w_its_ok]. Qed.

Theorem local_draw_in_range : forall k u,
  0 < k -> (0 <= u)%Q -> (u < 1)%Q -> (0 <= draw k u < Z.of_nat k)%Z.
Proof. exact draw_range. Qed.
Print Assumptions local_draw_in_range.

Example local_draw_in_range_nonvacuous : 0 < 3 /\ (0 <= 1 # 2)%Q /\ (1 # 2 < 1)%Q.
Proof. repeat split; try lia; discriminate. Qed.

Theorem local_every_neighbour_drawable : forall k m,
  m < k -> exists u, (0 <= u)%Q /\ (u < 1)%Q /\ draw k u = Z.of_nat m.
Proof. exact draw_onto. Qed.
Print Assumptions local_every_neighbour_drawable.

Example local_every_neighbour_drawable_nonvacuous : 2 < 3.
Proof. lia. Qed.

Theorem local_every_neighbour_pair_realisable : forall nbrs k nu perm j m,
  j < nu -> m < k ->
  exists us, us_ok nu us /\
             nth j (local_pairs nbrs k nu us perm) (0, 0) =
             (nth j perm 0, nth m (nth (nth j perm 0) nbrs []) 0).
Proof. exact local_any_neighbour_pair. Qed.
Print Assumptions local_every_neighbour_pair_realisable.

(* ---- the old code (before F14), kept as regression theorems ----------------------------------- *)
Theorem local_indices_refuted :
  exists nbrs nupd N its outs,
    nbrs_ok N (length (nth 0 nbrs [])) nbrs /\
    Forall (fun i => is_perm N (it_from i) /\ us_ok (Nat.min nupd (N / 2)) (it_us i)) its /\
    spe_indices true false nbrs nupd N its = Ok outs /\
    Exists (fun o => ~ is_perm N (o_perm o)) outs.
Proof. exact local_indices_refuted_proof. Qed.
Print Assumptions local_indices_refuted.

Theorem old_draw_never_last : forall k u,
  2 <= k -> (0 <= u)%Q -> (u < 1)%Q -> (draw_old k u < Z.of_nat k - 1)%Z.
Proof. exact draw_old_never_last. Qed.
Print Assumptions old_draw_never_last.

Example old_draw_never_last_nonvacuous : 2 <= 3 /\ (0 <= 999 # 1000)%Q /\ (999 # 1000 < 1)%Q.
Proof. repeat split; try lia; discriminate. Qed.

(* ---- coordinate update (any field in which 1 + 1 <> 0) ---------------------------------------- *)
Theorem pair_update : forall (F : Type) (Fo : FieldOps F) (Ff : IsField F)
    (lam tol r dn : F) (Y : pts) a b t,
  a <> b -> two <> 0%F -> (dn + tol)%F <> 0%F ->
  let Y' := spe_step lam tol [(a, b)] [r] [dn] Y in
  (Y' a t - Y' b t = (1 + lam * (r - dn - tol) / (dn + tol)) * (Y a t - Y b t))%F.
Proof. exact (@pair_update_proof). Qed.
Print Assumptions pair_update.

Example pair_update_nonvacuous :
  0 <> 1 /\ (@two Qc _) <> 0%F /\ (qz 5 + qfrac 1 2)%F <> 0%F.
Proof.
  repeat split; [lia|exact Qc_two_neq0|]. apply Qc_neq_by_num. vm_compute. discriminate.
Qed.

Theorem pair_update_distance : forall (F : Type) (Fo : FieldOps F) (Ff : IsField F)
    d (lam tol r dn : F) (Y : pts) a b,
  a <> b -> two <> 0%F -> (dn + tol)%F <> 0%F -> (dn * dn)%F = sqdist d (Y a) (Y b) ->
  let Y' := spe_step lam tol [(a, b)] [r] [dn] Y in
  let dn' := (dn * (1 + lam * (r - dn - tol) / (dn + tol)))%F in
  (dn' * dn')%F = sqdist d (Y' a) (Y' b).
Proof. exact (@pair_update_distance_proof). Qed.
Print Assumptions pair_update_distance.

Theorem pair_update_exact : forall (F : Type) (Fo : FieldOps F) (Ff : IsField F)
    d (r dn : F) (Y : pts) a b,
  a <> b -> two <> 0%F -> dn <> 0%F -> (dn * dn)%F = sqdist d (Y a) (Y b) ->
  let Y' := spe_step 1%F 0%F [(a, b)] [r] [dn] Y in
  (r * r)%F = sqdist d (Y' a) (Y' b).
Proof. exact (@pair_update_exact_proof). Qed.
Print Assumptions pair_update_exact.

Example pair_update_exact_nonvacuous :
  0 <> 1 /\ (@two Qc _) <> 0%F /\ qz 5 <> 0%F /\ (qz 5 * qz 5)%F = sqdist 2 (ex_Y 0) (ex_Y 1) /\
  (qz 7 * qz 7)%F = sqdist 2 (spe_step 1%F 0%F [(0, 1)] [qz 7] [qz 5] ex_Y 0)
                              (spe_step 1%F 0%F [(0, 1)] [qz 7] [qz 5] ex_Y 1).
Proof.
  split; [lia|]. split; [exact Qc_two_neq0|]. split; [|split; [exact ex_Y_norm|]].
  - apply Qc_neq_by_num. vm_compute. discriminate.
  - apply Qc_is_canon. vm_compute. reflexivity.
Qed.

Theorem batch_update : forall (F : Type) (Fo : FieldOps F) (Ff : IsField F)
    (lam tol : F) ps (Rt Dn : list F) (Y : pts) j t,
  pairs_disjoint ps -> length Rt = length ps -> length Dn = length ps -> j < length ps ->
  two <> 0%F -> (nth j Dn 0 + tol)%F <> 0%F ->
  let a := fst (nth j ps (0, 0)) in
  let b := snd (nth j ps (0, 0)) in
  let Y' := spe_step lam tol ps Rt Dn Y in
  (Y' a t - Y' b t =
   (1 + lam * (nth j Rt 0 - nth j Dn 0 - tol) / (nth j Dn 0 + tol)) * (Y a t - Y b t))%F.
Proof. exact (@batch_update_proof). Qed.
Print Assumptions batch_update.

Example batch_update_nonvacuous :
  pairs_disjoint [(0, 3); (1, 2)] /\ 1 < length [(0, 3); (1, 2)] /\
  (nth 1 [qz 1; qz 2] 0 + qfrac 1 4)%F <> 0%F.
Proof.
  repeat split; [apply nodup_b_ok; reflexivity|cbn; lia|].
  apply Qc_neq_by_num. vm_compute. discriminate.
Qed.

Theorem spe_centroid_invariant : forall (F : Type) (Fo : FieldOps F) (Ff : IsField F)
    N (lam tol : F) ps (Rt Dn : list F) (Y : pts) t,
  Forall (fun p => fst p < N /\ snd p < N) ps ->
  sumn N (fun i => spe_step lam tol ps Rt Dn Y i t) = sumn N (fun i => Y i t).
Proof. exact (@spe_centroid_invariant_proof). Qed.
Print Assumptions spe_centroid_invariant.

Example spe_centroid_invariant_nonvacuous :
  Forall (fun p => fst p < 4 /\ snd p < 4) [(0, 3); (1, 3); (1, 0)].
Proof. repeat constructor. Qed.

Theorem pair_update_finite : forall dn tol : Q, (0 <= dn)%Q -> (0 < tol)%Q -> (0 < dn + tol)%Q.
Proof. exact pair_denominator_pos_proof. Qed.
Print Assumptions pair_update_finite.

Theorem pair_factor_nonneg : forall lam tol r dn : Q,
  (0 <= dn)%Q -> (0 < tol)%Q -> (0 <= r)%Q -> (0 <= lam)%Q -> (lam <= 1)%Q ->
  (0 <= 1 + lam * (r - dn - tol) / (dn + tol))%Q.
Proof. exact pair_factor_nonneg_proof. Qed.
Print Assumptions pair_factor_nonneg.

Example pair_factor_nonneg_nonvacuous :
  (0 <= 3)%Q /\ (0 < 1 # 100000)%Q /\ (0 <= 1 # 2)%Q /\ (0 <= 9 # 10)%Q /\ (9 # 10 <= 1)%Q.
Proof. repeat split; discriminate. Qed.

Theorem lambda_schedule : forall (T : positive) (lam : Q),
  (0 <= lam)%Q -> (lam <= 1)%Q ->
  (0 <= lam - lam / inject_Z (Z.pos T))%Q /\ (lam - lam / inject_Z (Z.pos T) <= lam)%Q.
Proof. exact lambda_schedule_proof. Qed.
Print Assumptions lambda_schedule.

(* ---- the complete main loop: index bookkeeping + coordinate updates, every random stream ------ *)
Theorem spe_run_centroid_global : forall (F : Type) (Fo : FieldOps F) (Ff : IsField F)
    (old : bool) nbrs nupd N its (norms : list (list F)) (tol alpha : F) (R : nat -> nat -> F) (Y0 : pts) t,
  Forall (fun i => is_perm N (it_from i)) its ->
  exists Y, spe_embedding_run old true nbrs nupd N its norms tol alpha R Y0 = Ok Y /\
            sumn N (fun i => Y i t) = sumn N (fun i => Y0 i t).
Proof. exact (@spe_run_centroid_global_proof). Qed.
Print Assumptions spe_run_centroid_global.

Theorem spe_run_centroid_local : forall (F : Type) (Fo : FieldOps F) (Ff : IsField F)
    nbrs nupd N its (norms : list (list F)) (tol alpha : F) (R : nat -> nat -> F) (Y0 : pts) t,
  let k := length (nth 0 nbrs []) in
  let nu := Nat.min nupd (N / 2) in
  0 < N -> 0 < k -> nbrs_ok N k nbrs -> nbrs_below N nbrs ->
  Forall (fun i => is_perm N (it_from i) /\ us_ok nu (it_us i)) its ->
  exists Y, spe_embedding_run false false nbrs nupd N its norms tol alpha R Y0 = Ok Y /\
            sumn N (fun i => Y i t) = sumn N (fun i => Y0 i t).
Proof. exact (@spe_run_centroid_local_proof). Qed.
Print Assumptions spe_run_centroid_local.

Example spe_run_centroid_local_nonvacuous :
  nbrs_below 6 w_nbrs /\
  exists Y, spe_embedding_run false false w_nbrs 3 6 w_its [[qz 1; qz 2; qz 1]; [qz 3; qz 1; qz 1]; [qz 2; qz 2; qz 5]]
                              (qfrac 1 8) (qz 1) (fun a b => qz (Z.of_nat (a + b))) ex_Y = Ok Y.
Proof.
  split.
  - unfold nbrs_below, w_nbrs. repeat (constructor; [repeat (constructor; [lia|]); constructor|]). constructor.
  - destruct (spe_run_centroid_local_proof w_nbrs 3 6 w_its
                [[qz 1; qz 2; qz 1]; [qz 3; qz 1; qz 1]; [qz 2; qz 2; qz 5]] (qfrac 1 8) (qz 1)
                (fun a b => qz (Z.of_nat (a + b))) ex_Y 0) as [Y [E _]];
      try (cbn; lia); try exact w_nbrs_ok; try exact w_its_ok.
    + unfold nbrs_below, w_nbrs. repeat (constructor; [repeat (constructor; [lia|]); constructor|]). constructor.
    + exists Y. exact E.
Qed.

(* ---- random projection -------------------------------------------------------------------------- *)
Theorem rp_entries_one_draw : forall (F : Type) (Fo : FieldOps F) (s : F) cols rows g,
  rows * cols <= length g ->
  exists P, rp_fill s rows cols g = Ok (P, skipn (rows * cols) g) /\ length P = rows /\
            forall i j, i < rows -> j < cols -> mof P i j = (nth (i * cols + j) g 0 / s)%F.
Proof. exact (@rp_fill_ok_proof). Qed.
Print Assumptions rp_entries_one_draw.

Theorem rp_draw_index_injective : forall d i j i' j',
  j < d -> j' < d -> i * d + j = i' * d + j' -> i = i' /\ j = j'.
Proof. exact rp_index_inj. Qed.
Print Assumptions rp_draw_index_injective.

Theorem rp_translation_invariant : forall (F : Type) (Fo : FieldOps F) (Ff : IsField F)
    (s : F) n D d g (t : vec F) (X : mat F),
  of_nat n <> 0%F -> rp_embed s n D d g (translate t X) = rp_embed s n D d g X.
Proof. exact (@rp_translation_invariant_proof). Qed.
Print Assumptions rp_translation_invariant.

Example rp_translation_invariant_nonvacuous :
  (@of_nat Qc _ 4) <> 0%F /\
  exists P, rp_embed (qz 2) 4 2 1 [qz 1; qz (-3)] (fun i a => qz (Z.of_nat (i * i + a))) = Ok P.
Proof. split; [apply Qc_of_nat_neq0; lia|eexists; vm_compute; reflexivity]. Qed.

Theorem rp_output_centred : forall (F : Type) (Fo : FieldOps F) (Ff : IsField F)
    (s : F) n D d g (X : mat F) P c,
  of_nat n <> 0%F -> c < d -> rp_embed s n D d g X = Ok P -> sumn n (fun i => mof P i c) = 0%F.
Proof. exact (@rp_output_centred_proof). Qed.
Print Assumptions rp_output_centred.

(* ---- factor analysis ------------------------------------------------------------------------------ *)
Theorem fa_translation_invariant : forall (F : Type) (Fo : FieldOps F) (Ff : IsField F)
    (inv : nat -> mat F -> mat F) (logdet : nat -> mat F -> F) (stop : F -> F -> bool)
    max_iter n D d (eps : F) (A0 : mat F) (t : vec F) (S : mat F),
  of_nat n <> 0%F ->
  fa_embed inv logdet stop max_iter n D d eps A0 (translate t S) =
  fa_embed inv logdet stop max_iter n D d eps A0 S.
Proof. exact (@fa_translation_invariant_proof). Qed.
Print Assumptions fa_translation_invariant.

Theorem fa_output_centred : forall (F : Type) (Fo : FieldOps F) (Ff : IsField F)
    (inv : nat -> mat F -> mat F) (logdet : nat -> mat F -> F) (stop : F -> F -> bool)
    max_iter n D d (eps : F) (A0 : mat F) (S : mat F) c,
  of_nat n <> 0%F -> c < d ->
  sumn n (fun i => mof (fa_embed inv logdet stop max_iter n D d eps A0 S) i c) = 0%F.
Proof. exact (@fa_output_centred_proof). Qed.
Print Assumptions fa_output_centred.

Example fa_nonvacuous :
  (@of_nat Qc _ 2) <> 0%F /\
  length (fa_embed (fun _ M => M) (fun _ _ => 0%F) (fun _ _ => false) 2 2 2 1 (qfrac 1 8)
                   (fun i j => qz 1) (fun i a => qz (Z.of_nat (i + 2 * a)))) = 2.
Proof. split; [apply Qc_of_nat_neq0; lia|vm_compute; reflexivity]. Qed.

(* ================================================================================================== *)
(*  The methods as functions of the RANGE handed to tapkee::embed (Spe_Des_Model.v): `feat` / `dist`   *)
(*  are the callbacks indexed by sample id, `range` is ANY list of ids (sub-range of the data, permuted, *)
(*  offset / sparse ids, repeats); position i designates sample `at_pos range i` = begin[i].            *)
(* ================================================================================================== *)

(* ---- random projection on a range ------------------------------------------------------------------ *)
Theorem rp_embed_range_is_designated : forall (F : Type) (Fo : FieldOps F) (Ff : IsField F)
    (s : F) D d g (feat : nat -> vec F) range,
  rp_embed_des s D d g feat range = rp_embed s (length range) D d g (fun i => feat (at_pos range i)).
Proof. exact (@rp_embed_des_designated_proof). Qed.
Print Assumptions rp_embed_range_is_designated.

Theorem rp_row_is_projection_of_designated_sample : forall (F : Type) (Fo : FieldOps F)
    (s : F) D d g (feat : nat -> vec F) range P i c,
  D * d <= length g -> rp_embed_des s D d g feat range = Ok P -> i < length range -> c < d ->
  mof P i c = sumn D (fun t => (nth (t * d + c) g 0 / s *
                                (feat (at_pos range i) t - mean_des feat range t))%F).
Proof. exact (@rp_row_designated_proof). Qed.
Print Assumptions rp_row_is_projection_of_designated_sample.

Example rp_row_is_projection_of_designated_sample_nonvacuous :
  1 * 1 <= length [qz 1] /\ 1 < length [2; 3] /\
  exists P, rp_embed_des (qz 1) 1 1 [qz 1] w_feat [2; 3] = Ok P.
Proof. split; [cbn; lia|]. split; [cbn; lia|]. eexists. vm_compute. reflexivity. Qed.

Theorem rp_depends_on_designated_samples_only : forall (F : Type) (Fo : FieldOps F) (Ff : IsField F)
    (s : F) D d g (feat feat' : nat -> vec F) range range',
  length range = length range' ->
  (forall i t, i < length range -> t < D -> feat (at_pos range i) t = feat' (at_pos range' i) t) ->
  rp_embed_des s D d g feat range = rp_embed_des s D d g feat' range'.
Proof. exact (@rp_des_ext_proof). Qed.
Print Assumptions rp_depends_on_designated_samples_only.

Example rp_depends_on_designated_samples_only_nonvacuous :
  length [2; 3] = length [0; 1] /\
  forall i t, i < length [2; 3] -> t < 1 ->
    w_feat (at_pos [2; 3] i) t = (fun id _ => qz (Z.of_nat (id + 2))) (at_pos [0; 1] i) t.
Proof. split; [reflexivity|]. intros [|[|i]] t Hi _; cbn in Hi; try lia; reflexivity. Qed.

Theorem rp_range_translation_invariant : forall (F : Type) (Fo : FieldOps F) (Ff : IsField F)
    (s : F) D d g (t : vec F) (feat : nat -> vec F) range,
  of_nat (length range) <> 0%F ->
  rp_embed_des s D d g (fun id a => (feat id a + t a)%F) range = rp_embed_des s D d g feat range.
Proof. exact (@rp_des_translation_invariant_proof). Qed.
Print Assumptions rp_range_translation_invariant.

Theorem rp_range_output_centred : forall (F : Type) (Fo : FieldOps F) (Ff : IsField F)
    (s : F) D d g (feat : nat -> vec F) range P c,
  of_nat (length range) <> 0%F -> c < d -> rp_embed_des s D d g feat range = Ok P ->
  sumn (length range) (fun i => mof P i c) = 0%F.
Proof. exact (@rp_des_output_centred_proof). Qed.
Print Assumptions rp_range_output_centred.

Example rp_range_nonvacuous : (@of_nat Qc _ (length [2; 3])) <> 0%F.
Proof. apply Qc_of_nat_neq0. cbn. lia. Qed.

(* regression theorem (seeded change C19_2): project() asking the callback for vector(loop counter) instead of
   vector(begin[i]) returns other samples' projections and a non-centred embedding on a sub-range *)
Theorem rp_positional_fetch_refuted :
  exists (feat : nat -> vec Qc) range P P',
    rp_embed_des (qz 1) 1 1 [qz 1] feat range = Ok P /\
    rp_embed_pos (qz 1) 1 1 [qz 1] feat range = Ok P' /\
    mof P 0 0 <> mof P' 0 0 /\
    sumn (length range) (fun i => mof P i 0) = 0%F /\
    sumn (length range) (fun i => mof P' i 0) <> 0%F.
Proof. exact rp_positional_fetch_refuted_proof. Qed.
Print Assumptions rp_positional_fetch_refuted.

(* ---- factor analysis on a range --------------------------------------------------------------------- *)
Theorem fa_embed_range_is_designated : forall (F : Type) (Fo : FieldOps F) (Ff : IsField F)
    (inv : nat -> mat F -> mat F) (logdet : nat -> mat F -> F) (stop : F -> F -> bool)
    T D d (eps : F) (A0 : mat F) (feat : nat -> vec F) range,
  fa_embed_des inv logdet stop T D d eps A0 feat range =
  fa_embed inv logdet stop T (length range) D d eps A0 (fun i => feat (at_pos range i)).
Proof. exact (@fa_embed_des_designated_proof). Qed.
Print Assumptions fa_embed_range_is_designated.

Theorem fa_row_is_centred_designated_sample_times_loading :
  forall (F : Type) (Fo : FieldOps F)
    (inv : nat -> mat F -> mat F) (logdet : nat -> mat F -> F) (stop : F -> F -> bool)
    T D d (eps : F) (A0 : mat F) (feat : nat -> vec F) range,
  exists A : mat F, forall i c, i < length range -> c < d ->
    mof (fa_embed_des inv logdet stop T D d eps A0 feat range) i c =
    sumn D (fun t => ((feat (at_pos range i) t - mean_des feat range t) * A t c)%F).
Proof. exact (@fa_row_designated_proof). Qed.
Print Assumptions fa_row_is_centred_designated_sample_times_loading.

Theorem fa_depends_on_designated_samples_only : forall (F : Type) (Fo : FieldOps F) (Ff : IsField F)
    (inv : nat -> mat F -> mat F) (logdet : nat -> mat F -> F) (stop : F -> F -> bool)
    T D d (eps : F) (A0 : mat F) (feat feat' : nat -> vec F) range range',
  length range = length range' ->
  (forall i t, i < length range -> t < D -> feat (at_pos range i) t = feat' (at_pos range' i) t) ->
  fa_embed_des inv logdet stop T D d eps A0 feat range =
  fa_embed_des inv logdet stop T D d eps A0 feat' range'.
Proof. exact (@fa_des_ext_proof). Qed.
Print Assumptions fa_depends_on_designated_samples_only.

Example fa_depends_on_designated_samples_only_nonvacuous :
  length [2; 3] = length [0; 1] /\
  forall i t, i < length [2; 3] -> t < 1 ->
    w_feat (at_pos [2; 3] i) t = (fun id _ => qz (Z.of_nat (id + 2))) (at_pos [0; 1] i) t.
Proof. exact rp_depends_on_designated_samples_only_nonvacuous. Qed.

Theorem fa_range_translation_invariant : forall (F : Type) (Fo : FieldOps F) (Ff : IsField F)
    (inv : nat -> mat F -> mat F) (logdet : nat -> mat F -> F) (stop : F -> F -> bool)
    T D d (eps : F) (A0 : mat F) (t : vec F) (feat : nat -> vec F) range,
  of_nat (length range) <> 0%F ->
  fa_embed_des inv logdet stop T D d eps A0 (fun id a => (feat id a + t a)%F) range =
  fa_embed_des inv logdet stop T D d eps A0 feat range.
Proof. exact (@fa_des_translation_invariant_proof). Qed.
Print Assumptions fa_range_translation_invariant.

(* the EM loop of routines/fa.hpp = its never-stopping trajectory cut at the first round at which
   `(iter > 1) && (fabs(newll - ll) < epsilon)` holds: the log-det and comparison oracles act only through
   the round at which the loop is left (this is what the fa_epsilon > 0 replay of checks/c19.py relies on) *)
Theorem fa_em_is_trajectory_cut_at_first_stop : forall (F : Type) (Fo : FieldOps F)
    (inv : nat -> mat F -> mat F) (logdet : nat -> mat F -> F) (stop : F -> F -> bool)
    n D d (eps : F) (X : mat F) fuel iter A sig ll,
  fa_em inv logdet stop fuel iter n D d eps X A sig ll =
  stop_round stop iter ll (fa_rounds inv logdet fuel n D d eps X A sig) A.
Proof. exact (@fa_em_factor_proof). Qed.
Print Assumptions fa_em_is_trajectory_cut_at_first_stop.

Theorem fa_em_runs_all_rounds_when_never_stopped : forall (F : Type)
    (tr : list (mat F * F)) iter ll A,
  stop_round (fun _ _ => false) iter ll tr A = last (map fst tr) A.
Proof. exact (@stop_round_never). Qed.
Print Assumptions fa_em_runs_all_rounds_when_never_stopped.

Theorem fa_observed_embeddings_are_trajectory : forall (F : Type) (Fo : FieldOps F)
    (inv : nat -> mat F -> mat F) (logdet : nat -> mat F -> F) n D d (eps : F) (X : mat F) fuel A sig,
  map (fun o => fst (fst o)) (fa_observe inv fuel n D d eps X A sig) =
  map (fun Al => mtab n d (fun i c => sumn D (fun t => (X t i * fst Al t c)%F)))
      (fa_rounds inv logdet fuel n D d eps X A sig).
Proof. exact (@fa_observe_embeddings). Qed.
Print Assumptions fa_observed_embeddings_are_trajectory.

(* ---- SPE on a range ------------------------------------------------------------------------------------ *)
Theorem spe_log_check_des_sound : forall range (global : bool) N nu k nbrs log,
  spe_log_check_des range global N nu k nbrs log = None <->
  Forall (fun sp => if global then global_iter_des_ok range N nu (fst sp) (snd sp)
                    else local_iter_des_ok range N nu k nbrs (fst sp) (snd sp)) log.
Proof. exact spe_log_check_des_none. Qed.
Print Assumptions spe_log_check_des_sound.

Theorem spe_distance_calls_designated_global : forall (old : bool) range nbrs nupd its,
  let N := length range in
  Forall (fun i => is_perm N (it_from i)) its ->
  exists outs,
    spe_indices old true nbrs nupd N its = Ok outs /\
    spe_log_check_des range true N (Nat.min nupd (N / 2)) 0 nbrs
                      (combine (map o_perm outs) (spe_distance_calls range outs)) = None.
Proof. exact spe_distance_calls_global_proof. Qed.
Print Assumptions spe_distance_calls_designated_global.

Example spe_distance_calls_designated_global_nonvacuous :
  Forall (fun i => is_perm (length [10; 11; 12; 13; 14; 15]) (it_from i)) w_its.
Proof. exact (Forall_impl _ (fun i H => proj1 H) w_its_ok). Qed.

Theorem spe_distance_calls_designated_local : forall range nbrs nupd its,
  let N := length range in
  let k := length (nth 0 nbrs []) in
  let nu := Nat.min nupd (N / 2) in
  0 < N -> 0 < k -> nbrs_ok N k nbrs ->
  Forall (fun i => is_perm N (it_from i) /\ us_ok nu (it_us i)) its ->
  exists outs,
    spe_indices false false nbrs nupd N its = Ok outs /\
    spe_log_check_des range false N nu k nbrs
                      (combine (map o_perm outs) (spe_distance_calls range outs)) = None.
Proof. exact spe_distance_calls_local_proof. Qed.
Print Assumptions spe_distance_calls_designated_local.

Example spe_distance_calls_designated_local_nonvacuous :
  let range := [15; 10; 14; 11; 13; 12] in
  0 < length range /\ 0 < length (nth 0 w_nbrs []) /\ nbrs_ok (length range) (length (nth 0 w_nbrs [])) w_nbrs /\
  Forall (fun i => is_perm (length range) (it_from i) /\ us_ok (Nat.min 3 (length range / 2)) (it_us i)) w_its.
Proof. repeat split; try (cbn; lia); [apply w_nbrs_ok|exact w_its_ok]. Qed.

Theorem spe_max_loop_calls_designated : forall range,
  2 * length (max_loop_calls range) = length range * (length range - 1) /\
  forall a b, In (a, b) (max_loop_calls range) <->
              exists i j, i < j /\ j < length range /\ a = at_pos range i /\ b = at_pos range j.
Proof. exact (fun range => conj (max_loop_calls_length range) (max_loop_calls_In range)). Qed.
Print Assumptions spe_max_loop_calls_designated.

Theorem spe_run_depends_on_designated_distances_global :
  forall (F : Type) (Fo : FieldOps F)
    (old : bool) nbrs nupd range range' its (norms : list (list F)) (tol alpha : F)
    (dist dist' : nat -> nat -> F) (Y0 : pts),
  length range = length range' ->
  (forall a b, a < length range -> b < length range ->
               dist (at_pos range a) (at_pos range b) = dist' (at_pos range' a) (at_pos range' b)) ->
  Forall (fun i => is_perm (length range) (it_from i)) its ->
  spe_embedding_run_des old true nbrs nupd range its norms tol alpha dist Y0 =
  spe_embedding_run_des old true nbrs nupd range' its norms tol alpha dist' Y0.
Proof. exact (@spe_run_des_ext_global_proof). Qed.
Print Assumptions spe_run_depends_on_designated_distances_global.

Example spe_run_depends_on_designated_distances_global_nonvacuous :
  let range := [10; 11; 12; 13; 14; 15] in
  let range' := [0; 1; 2; 3; 4; 5] in
  let dist := fun a b : nat => qz (Z.of_nat (a + b)) in
  let dist' := fun a b : nat => qz (Z.of_nat (a + 10 + (b + 10))) in
  length range = length range' /\
  (forall a b, a < length range -> b < length range ->
               dist (at_pos range a) (at_pos range b) = dist' (at_pos range' a) (at_pos range' b)) /\
  Forall (fun i => is_perm (length range) (it_from i)) w_its.
Proof.
  cbv zeta. split; [reflexivity|]. split.
  - intros a b Ha Hb. cbn [length] in Ha, Hb.
    do 6 (destruct a as [|a]; [do 6 (destruct b as [|b]; [reflexivity|]); lia|]). lia.
  - exact (Forall_impl _ (fun i H => proj1 H) w_its_ok).
Qed.

Theorem spe_run_depends_on_designated_distances_local :
  forall (F : Type) (Fo : FieldOps F)
    nbrs nupd range range' its (norms : list (list F)) (tol alpha : F)
    (dist dist' : nat -> nat -> F) (Y0 : pts),
  let N := length range in
  let k := length (nth 0 nbrs []) in
  let nu := Nat.min nupd (N / 2) in
  length range = length range' ->
  (forall a b, a < N -> b < N ->
               dist (at_pos range a) (at_pos range b) = dist' (at_pos range' a) (at_pos range' b)) ->
  0 < N -> 0 < k -> nbrs_ok N k nbrs -> nbrs_below N nbrs ->
  Forall (fun i => is_perm N (it_from i) /\ us_ok nu (it_us i)) its ->
  spe_embedding_run_des false false nbrs nupd range its norms tol alpha dist Y0 =
  spe_embedding_run_des false false nbrs nupd range' its norms tol alpha dist' Y0.
Proof. exact (@spe_run_des_ext_local_proof). Qed.
Print Assumptions spe_run_depends_on_designated_distances_local.

(* ---- the shipped polar method (defines/random.hpp gaussian_random) -------------------------------------- *)
Theorem polar_accepts_open_disc : forall M fuel rs x s rest,
  polar_loop fuel M rs = Ok (x, s, rest) ->
  (0 < s)%Q /\ (s < 1)%Q /\ (x * x <= s)%Q /\
  exists pre y, rs = pre ++ rest /\ Nat.Even (length pre) /\ (s == x * x + y * y)%Q /\
                exists r1 r2 pre', pre = pre' ++ [r1; r2] /\
                                  x = polar_coord M r1 /\ y = polar_coord M r2.
Proof. exact polar_loop_accept_proof. Qed.
Print Assumptions polar_accepts_open_disc.

Example polar_accepts_open_disc_nonvacuous :
  exists x s rest, polar_loop 4 8 [7; 7; 3; 5; 1]%Z = Ok (x, s, rest) /\ rest = [1%Z].
Proof. eexists. eexists. eexists. split; vm_compute; reflexivity. Qed.

Theorem polar_first_point_in_disc_is_returned : forall M fuel r1 r2 rest,
  let x := polar_coord M r1 in
  let y := polar_coord M r2 in
  ((0 < x * x + y * y)%Q /\ (x * x + y * y < 1)%Q ->
   polar_loop (S fuel) M (r1 :: r2 :: rest) = Ok (x, (x * x + y * y)%Q, rest)) /\
  (~ ((0 < x * x + y * y)%Q /\ (x * x + y * y < 1)%Q) ->
   polar_loop (S fuel) M (r1 :: r2 :: rest) = polar_loop fuel M rest).
Proof. exact polar_loop_first_proof. Qed.
Print Assumptions polar_first_point_in_disc_is_returned.

Example polar_first_point_in_disc_is_returned_nonvacuous :
  ((0 < polar_coord 8 3 * polar_coord 8 3 + polar_coord 8 5 * polar_coord 8 5)%Q /\
   (polar_coord 8 3 * polar_coord 8 3 + polar_coord 8 5 * polar_coord 8 5 < 1)%Q) /\
  ~ ((0 < polar_coord 8 7 * polar_coord 8 7 + polar_coord 8 7 * polar_coord 8 7)%Q /\
     (polar_coord 8 7 * polar_coord 8 7 + polar_coord 8 7 * polar_coord 8 7 < 1)%Q).
Proof.
  split; [split; vm_compute; reflexivity|]. intros [_ H]. vm_compute in H. discriminate.
Qed.

Theorem polar_matrix_one_accepted_attempt_per_entry : forall fuel M count rs l rest,
  polar_fill fuel M count rs = Ok (l, rest) ->
  length l = count /\
  Forall (fun xs => (0 < snd xs)%Q /\ (snd xs < 1)%Q /\ (fst xs * fst xs <= snd xs)%Q) l.
Proof. exact polar_fill_count_proof. Qed.
Print Assumptions polar_matrix_one_accepted_attempt_per_entry.

Example polar_matrix_one_accepted_attempt_per_entry_nonvacuous :
  exists l rest, polar_fill 6 8 2 [7; 7; 3; 5; 4; 5; 1]%Z = Ok (l, rest) /\ rest = [1%Z].
Proof. eexists. eexists. split; vm_compute; reflexivity. Qed.

(* ---- one pair update approaches its target monotonically (0 <= lambda <= 1) ---------------------------- *)
Theorem pair_update_no_overshoot : forall lam tol r d : Q,
  (0 <= d)%Q -> (0 < tol)%Q -> (0 <= r)%Q -> (0 <= lam)%Q -> (lam <= 1)%Q ->
  let d' := (d * (1 + lam * (r - d - tol) / (d + tol)))%Q in
  ((d + tol <= r)%Q -> (d <= d')%Q /\ (d' <= r)%Q) /\
  ((r <= d + tol)%Q -> (r * d / (d + tol) <= d')%Q /\ (d' <= d)%Q).
Proof. exact pair_update_no_overshoot_proof. Qed.
Print Assumptions pair_update_no_overshoot.

Example pair_update_no_overshoot_nonvacuous :
  (0 <= 1)%Q /\ (0 < 1 # 100)%Q /\ (0 <= 2)%Q /\ (0 <= 1 # 2)%Q /\ (1 # 2 <= 1)%Q /\ (1 + (1 # 100) <= 2)%Q.
Proof. repeat split; discriminate. Qed.

(* regression theorem (mutant m03: lambda instead of lambda/2 = the law above with lambda = 2): overshoot *)
Theorem pair_update_full_step_overshoots :
  exists lam tol r d : Q,
    (0 <= d)%Q /\ (0 < tol)%Q /\ (d + tol <= r)%Q /\ (lam == 2)%Q /\
    (r < d * (1 + lam * (r - d - tol) / (d + tol)))%Q.
Proof. exact pair_update_full_step_overshoots_proof. Qed.
Print Assumptions pair_update_full_step_overshoots.

(* ---- the shipped uniform_random(): std::rand() / (RAND_MAX + 1.0) lies in [0, 1) ------------------------- *)
Theorem uniform_random_in_unit_interval : forall (M : positive) (r : Z),
  (0 <= r < Z.pos M)%Z -> (0 <= uniform_of_rand M r)%Q /\ (uniform_of_rand M r < 1)%Q.
Proof. exact uniform_of_rand_unit_proof. Qed.
Print Assumptions uniform_random_in_unit_interval.

Theorem uniform_random_draw_in_range : forall (M : positive) (r : Z) (k : nat),
  0 < k -> (0 <= r < Z.pos M)%Z -> (0 <= draw k (uniform_of_rand M r) < Z.of_nat k)%Z.
Proof. exact uniform_draw_in_range_proof. Qed.
Print Assumptions uniform_random_draw_in_range.

Example uniform_random_nonvacuous : 0 < 3 /\ (0 <= 2147483647 < Z.pos 2147483648)%Z.
Proof. split; [lia|split; [lia|reflexivity]]. Qed.

(* ==== Wave 3: the iteration schedule (max_iteration = 0 is "automatic": 2000 + floor(0.04 N^2), x 3 local) ==== *)
(* for EVERY max_iteration (0 included), both strategies, every N: the loop bound and the divisor of
   `lambda = lambda - lambda / max_iter` are the same number, and it is >= 1 (>= 2000 when automatic) *)
Theorem spe_schedule_ok : forall (global : bool) (N m : nat),
  schedule_ok (spe_schedule global N m) /\
  (m = 0 -> sc_div (spe_schedule global N m) = auto_iterations global N /\
            2000 <= sc_div (spe_schedule global N m)) /\
  (m <> 0 -> sc_div (spe_schedule global N m) = m).
Proof. exact spe_schedule_ok_proof. Qed.
Print Assumptions spe_schedule_ok.

Theorem auto_iterations_local_is_triple : forall N, auto_iterations false N = 3 * auto_iterations true N.
Proof. exact auto_iterations_local_is_triple_proof. Qed.
Print Assumptions auto_iterations_local_is_triple.

(* REGRESSION (seeded change C19_3): loop bound from a new constant, divisor still the parameter *)
Theorem spe_schedule_split_ok_iff : forall (global : bool) (N m : nat),
  schedule_ok (spe_schedule_split global N m) <-> m <> 0.
Proof. exact spe_schedule_split_ok_iff_proof. Qed.
Print Assumptions spe_schedule_split_ok_iff.

Theorem spe_schedule_split_refuted :
  exists global N m, ~ schedule_ok (spe_schedule_split global N m) /\
                     2000 <= sc_loop (spe_schedule_split global N m) /\
                     sc_div (spe_schedule_split global N m) = 0.
Proof. exact spe_schedule_split_refuted_proof. Qed.
Print Assumptions spe_schedule_split_refuted.

(* the decision procedure the check runs on the observed number of shuffles *)
Theorem schedule_check_sound : forall (global : bool) (N m shuffles : nat),
  schedule_check global N m shuffles = true <-> shuffles = spe_iterations global N m.
Proof. exact schedule_check_ok_proof. Qed.
Print Assumptions schedule_check_sound.

(* binary64 evaluation of floor(0.04 * N * N) (two roundings, ties to even) *)
Theorem sched_q_small : forall N, N <= 204 -> sched_q N = N * N / 25.
Proof. exact sched_q_small_proof. Qed.
Print Assumptions sched_q_small.
Example sched_q_small_nonvacuous : 30 <= 204 /\ sched_q 30 = 36.
Proof. split; [lia|vm_compute; reflexivity]. Qed.

Theorem sched_q_double_rounding : sched_q 205 = 1680 /\ 205 * 205 / 25 = 1681.
Proof. exact sched_q_double_rounding_proof. Qed.
Print Assumptions sched_q_double_rounding.

Theorem auto_iterations_small : forall N, N <= 204 ->
  auto_iterations true N = 2000 + N * N / 25 /\ auto_iterations false N = 3 * (2000 + N * N / 25).
Proof. exact auto_iterations_small_proof. Qed.
Print Assumptions auto_iterations_small.

(* lambda over the whole run, T = the divisor of the shipped schedule *)
Theorem lambda_schedule_every_max_iteration : forall (global : bool) (N m t : nat),
  let T := sc_div (spe_schedule global N m) in
  sc_loop (spe_schedule global N m) = T /\ 1 <= T /\
  (0 <= lam_seq T t)%Q /\ (lam_seq T t <= 1)%Q /\ (lam_seq T (S t) <= lam_seq T t)%Q /\
  (1 - inject_Z (Z.of_nat t) / inject_Z (Z.of_nat T) <= lam_seq T t)%Q /\
  (lam_seq T t * (1 + inject_Z (Z.of_nat t) / inject_Z (Z.of_nat T)) <= 1)%Q /\
  (lam_seq T T <= 1 # 2)%Q.
Proof. exact lambda_schedule_all_proof. Qed.
Print Assumptions lambda_schedule_every_max_iteration.

Theorem lambda_step : forall T t,
  (lam_seq T (S t) == lam_seq T t * (1 - / inject_Z (Z.of_nat T)))%Q.
Proof. exact lam_step. Qed.
Print Assumptions lambda_step.

(* lambda never comes near zero: at the end of ANY schedule of at least two iterations it lies in [2/9, 1/2] *)
Theorem lambda_final_bounds : forall T, 2 <= T -> (2 # 9 <= lam_seq T T)%Q /\ (lam_seq T T <= 1 # 2)%Q.
Proof. exact (fun T H => conj (lam_final_lower T H) (lam_final T (Nat.le_trans 1 2 T (Nat.le_succ_diag_r 1) H))). Qed.
Print Assumptions lambda_final_bounds.
Example lambda_final_bounds_nonvacuous : 2 <= 2000.
Proof. lia. Qed.

Theorem lambda_schedule_automatic : forall (global : bool) (N t : nat),
  let T := sc_div (spe_schedule global N 0) in
  T = auto_iterations global N /\ 2000 <= T /\ sc_loop (spe_schedule global N 0) = T /\
  (0 < lam_seq T t)%Q /\ (lam_seq T t <= 1)%Q /\ (lam_seq T (S t) < lam_seq T t)%Q /\
  (2 * t <= T -> (1 # 2 <= lam_seq T t)%Q) /\ (2 # 9 <= lam_seq T T)%Q /\ (lam_seq T T <= 1 # 2)%Q.
Proof. exact lambda_schedule_automatic_proof. Qed.
Print Assumptions lambda_schedule_automatic.

Theorem pair_update_scheduled : forall (global : bool) (N m t : nat) (tol r d : Q),
  (0 <= d)%Q -> (0 < tol)%Q -> (0 <= r)%Q ->
  let lam := lam_seq (sc_div (spe_schedule global N m)) t in
  let d' := (d * (1 + lam * (r - d - tol) / (d + tol)))%Q in
  (0 < d + tol)%Q /\ (0 <= 1 + lam * (r - d - tol) / (d + tol))%Q /\
  ((d + tol <= r)%Q -> (d <= d')%Q /\ (d' <= r)%Q) /\
  ((r <= d + tol)%Q -> (r * d / (d + tol) <= d')%Q /\ (d' <= d)%Q).
Proof. exact pair_update_scheduled_proof. Qed.
Print Assumptions pair_update_scheduled.
Example pair_update_scheduled_nonvacuous : (0 <= 1)%Q /\ (0 < 1 # 1000000000)%Q /\ (0 <= 2)%Q.
Proof. repeat split; discriminate. Qed.

(* the run as a function of max_iteration *)
Theorem spe_embedding_full_is_run : forall (F : Type) (Fo : FieldOps F)
    old global nbrs nupd N m its (norms : list (list F)) (tol alpha : F) (R : nat -> nat -> F) (Y0 : pts),
  length its = spe_iterations global N m ->
  spe_embedding_full old global nbrs nupd N m its norms tol alpha R Y0 =
  spe_embedding_run old global nbrs nupd N its norms tol alpha R Y0.
Proof. exact (@spe_embedding_full_is_run_proof). Qed.
Print Assumptions spe_embedding_full_is_run.

Theorem spe_embedding_full_needs_schedule : forall (F : Type) (Fo : FieldOps F)
    old global nbrs nupd N m its (norms : list (list F)) (tol alpha : F) (R : nat -> nat -> F) (Y0 Y : pts),
  spe_embedding_full old global nbrs nupd N m its norms tol alpha R Y0 = Ok Y ->
  length its = spe_iterations global N m /\ 1 <= length its.
Proof. exact (@spe_embedding_full_needs_schedule_proof). Qed.
Print Assumptions spe_embedding_full_needs_schedule.

Theorem spe_full_centroid_global : forall (F : Type) (Fo : FieldOps F) (Ff : IsField F)
    (old : bool) nbrs nupd N m its (norms : list (list F)) (tol alpha : F) (R : nat -> nat -> F) (Y0 : pts) t,
  length its = spe_iterations true N m ->
  Forall (fun i => is_perm N (it_from i)) its ->
  exists Y, spe_embedding_full old true nbrs nupd N m its norms tol alpha R Y0 = Ok Y /\
            sumn N (fun i => Y i t) = sumn N (fun i => Y0 i t).
Proof. exact (@spe_full_centroid_global_proof). Qed.
Print Assumptions spe_full_centroid_global.

Theorem spe_full_centroid_local : forall (F : Type) (Fo : FieldOps F) (Ff : IsField F)
    nbrs nupd N m its (norms : list (list F)) (tol alpha : F) (R : nat -> nat -> F) (Y0 : pts) t,
  let k := length (nth 0 nbrs []) in
  let nu := Nat.min nupd (N / 2) in
  length its = spe_iterations false N m ->
  0 < N -> 0 < k -> nbrs_ok N k nbrs -> nbrs_below N nbrs ->
  Forall (fun i => is_perm N (it_from i) /\ us_ok nu (it_us i)) its ->
  exists Y, spe_embedding_full false false nbrs nupd N m its norms tol alpha R Y0 = Ok Y /\
            sumn N (fun i => Y i t) = sumn N (fun i => Y0 i t).
Proof. exact (@spe_full_centroid_local_proof). Qed.
Print Assumptions spe_full_centroid_local.

(* non-vacuity: the witness streams of local_indices_refuted cover exactly the schedule of max_iteration = 3;
   and an automatic schedule is a list of auto_iterations answers *)
Example spe_full_nonvacuous :
  length w_its = spe_iterations false 6 3 /\
  length (repeat {| it_from := [0; 1; 2; 3]; it_us := [] |} (auto_iterations true 4)) = spe_iterations true 4 0 /\
  Forall (fun i => is_perm 4 (it_from i)) (repeat {| it_from := [0; 1; 2; 3]; it_us := [] |} (auto_iterations true 4)).
Proof.
  split; [reflexivity|]. split; [apply repeat_length|].
  apply Forall_forall. intros i Hi. apply repeat_spec in Hi. subst i. cbn [it_from].
  apply is_perm_b_ok. reflexivity.
Qed.

(* the lambda of the model's run IS lam_seq: spe_coords = the loop fed with run_lambdas T (#iterations) 1, and at Qc (the
   field the extracted model runs at) entry t of run_lambdas, read as a rational, is lam_seq T t *)
Theorem spe_coords_uses_run_lambdas : forall (F : Type) (Fo : FieldOps F)
    (T : nat) (tol alpha : F) (R : nat -> nat -> F) steps lam (Y : pts),
  spe_coords T tol alpha R steps lam Y =
  spe_coords_lams tol alpha R steps (run_lambdas T (length steps) lam) Y.
Proof. exact (@spe_coords_uses_run_lambdas_proof). Qed.
Print Assumptions spe_coords_uses_run_lambdas.

Theorem spe_run_lambda_is_lam_seq : forall T n t, t < n ->
  (this (nth t (@run_lambdas Qc QcOps T n fone) fzero) == lam_seq T t)%Q.
Proof. exact spe_run_lambda_is_lam_seq_proof. Qed.
Print Assumptions spe_run_lambda_is_lam_seq.
Example spe_run_lambda_is_lam_seq_nonvacuous :
  2 < 3 /\ this (nth 2 (@run_lambdas Qc QcOps 4 3 fone) fzero) = (9 # 16)%Q.
Proof. split; [lia|vm_compute; reflexivity]. Qed.

(* VALIDATION of the Z-level binary64 rounding model (Spe_Sched_Model.b64_round / sched_q) against Coq's primitive
   binary64 floats: `floor(0.04 * N * N)` computed with PrimFloat.mul equals sched_q N for every N <= 2048 (complete
   enumeration).  This is the ONLY statement of this file whose Print Assumptions is not "Closed under the global
   context": it lists the kernel primitives PrimFloat.* / PrimInt63.* it computes with (no FloatAxioms, no logical axiom). *)
Theorem sched_q_matches_primitive_floats : forall N, N <= 2048 ->
  float_sched_q N = Some (Z.of_nat (sched_q N)).
Proof. exact sched_q_matches_primitive_floats_proof. Qed.
Print Assumptions sched_q_matches_primitive_floats.
Example sched_q_matches_primitive_floats_nonvacuous : 205 <= 2048 /\ float_sched_q 205 = Some 1680%Z.
Proof. split; [lia|vm_compute; reflexivity]. Qed.

