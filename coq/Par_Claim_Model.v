(* Par_Claim_Model.v — property C15, wave 4: "claim a block under the lock, fill it in place after the lock".
   NO proofs here.

   The pattern (seeded change C15_4 in hessian_weight_matrix; the translator reports it as access kind AEscape):

       #pragma omp critical
       { v.resize(v.size() + b);  it = v.end() - b; }      // claim: bookkeeping under the lock
       ... long computation ...
       for (...) *it++ = ...;                              // fill: OUTSIDE the lock, through the iterator

   The shared container is a contiguous growable array.  What matters for the iterators handed out is WHICH BUFFER
   they point into, so the model keeps a generation number: a claim that does not fit the capacity allocates a new
   buffer (generation + 1, capacity size + max size b — libstdc++'s growth rule), copies the old cells and frees
   the old buffer.  A handle is (generation, offset).  A fill through a handle whose generation is not the current
   one writes into a freed buffer (its data never reaches the live container); a reallocation while some iteration
   is between its claim and its fill copies cells that iteration is writing without synchronisation (the race
   ThreadSanitizer reports), whatever the timing.

   The machine is sequential over events (claims are totally ordered by the lock; a fill is placed where its LAST
   write happens), which is enough to say who holds what when. *)
From Coq Require Import Arith List Bool.
Import ListNotations.

Record vec := mkVec { v_gen : nat; v_cap : nat; v_size : nat }.

(* one claim of b cells, under the lock: the new container state and the handle (generation, offset) *)
Definition claim (b : nat) (v : vec) : vec * (nat * nat) :=
  if v_size v + b <=? v_cap v
  then (mkVec (v_gen v) (v_cap v) (v_size v + b), (v_gen v, v_size v))
  else (mkVec (S (v_gen v)) (v_size v + Nat.max (v_size v) b) (v_size v + b), (S (v_gen v), v_size v)).

Definition reallocates (b : nat) (v : vec) : bool := negb (v_size v + b <=? v_cap v).

(* k claims in a row (fills do not change the container state) *)
Fixpoint claims (b k : nat) (v : vec) : vec :=
  match k with O => v | S k' => claims b k' (fst (claim b v)) end.

(* ------------------------------------------------------------------ the event machine *)
Inductive event := EClaim (i : nat) | EFill (i : nat).

Record cstate := mkC {
  c_vec : vec;
  c_handles : list (nat * (nat * nat));   (* iteration -> handle, newest first *)
  c_inflight : list nat;                  (* claimed, not yet filled *)
  c_raced : list nat;                     (* iterations that were in flight when some claim reallocated *)
  c_dangling : list nat;                  (* iterations whose fill went through a handle of a dead generation *)
  c_live : list nat }.                    (* iterations whose data is in the live buffer (filled, and copied since) *)

Fixpoint lookup (i : nat) (h : list (nat * (nat * nat))) : option (nat * nat) :=
  match h with
  | [] => None
  | (j, x) :: t => if Nat.eqb i j then Some x else lookup i t
  end.

Definition remove_nat (i : nat) (l : list nat) : list nat := filter (fun j => negb (Nat.eqb i j)) l.

Definition cstep (b : nat) (e : event) (s : cstate) : cstate :=
  match e with
  | EClaim i =>
      let '(v', h) := claim b (c_vec s) in
      mkC v' ((i, h) :: c_handles s) (i :: c_inflight s)
          (if reallocates b (c_vec s) then c_inflight s ++ c_raced s else c_raced s)
          (c_dangling s) (c_live s)
  | EFill i =>
      match lookup i (c_handles s) with
      | None => s
      | Some (g, _) =>
          if Nat.eqb g (v_gen (c_vec s))
          then mkC (c_vec s) (c_handles s) (remove_nat i (c_inflight s)) (c_raced s) (c_dangling s) (i :: c_live s)
          else mkC (c_vec s) (c_handles s) (remove_nat i (c_inflight s)) (c_raced s) (i :: c_dangling s) (c_live s)
      end
  end.

Definition crun (b : nat) (es : list event) (s : cstate) : cstate := fold_left (fun s e => cstep b e s) es s.

Definition cinit (cap : nat) : cstate := mkC (mkVec 0 cap 0) [] [] [] [] [].

(* the schedule of the demonstration: one thread claims the block of iteration 0 and is slow; meanwhile the other
   thread(s) run iterations 1 .. n-1 to completion; then iteration 0 fills its block *)
Definition slow_first (n : nat) : list event :=
  EClaim 0 :: flat_map (fun i => [EClaim i; EFill i]) (seq 1 (n - 1)) ++ [EFill 0].

(* the single-threaded order *)
Definition serial (n : nat) : list event := flat_map (fun i => [EClaim i; EFill i]) (seq 0 n).
