(* Spe_Proof_Des.v — the three methods as functions of the range handed to embed():
   the range models of Spe_Des_Model.v are the models of Spe_Model.v applied to the DESIGNATED sample
   list (refinement), row i of RP / FA depends on sample begin[i] through its feature vector only, the
   distance callback of SPE receives exactly (begin[a], begin[b]) for the position pairs (a, b) of the
   iteration, the run depends on the data only through the distances of designated samples; the
   positional-fetch variant of project() is refuted; the EM loop of fa.hpp = its never-stopping trajectory
   cut at the first firing of the convergence oracle; the polar method accepts exactly the points of the
   open punctured unit disc. *)
Require Import Field Ring List Arith Lia Bool ZArith QArith Qcanon Permutation Lqa.
From TK Require Import Mat_Sums Mat_Core Mat_Qc Spe_Model Spe_Spec Spe_Proof_Lists Spe_Proof_Index
     Spe_Proof_Coord Spe_Run_Model Spe_Proof_Run Spe_Proof_Closed Spe_Des_Model.
Import ListNotations.
Local Open Scope nat_scope.

(* ---------------- lists ---------------- *)
Lemma map_as_tab {A B} (f : A -> B) (l : list A) (d0 : A) :
  map f l = tab (length l) (fun i => f (nth i l d0)).
Proof.
  unfold tab. rewrite <- (map_nth_seq l d0) at 1. rewrite map_map. reflexivity.
Qed.

Lemma nth_map_lt {A B} (f : A -> B) (l : list A) i (da : A) (db : B) :
  i < length l -> nth i (map f l) db = f (nth i l da).
Proof.
  intros Hi. rewrite (nth_indep _ db (f da)) by (rewrite map_length; exact Hi). apply map_nth.
Qed.

Lemma last_cons_default {A} : forall (l : list A) a d, last (a :: l) d = last l a.
Proof.
  induction l as [|x l IH]; intros a d; [reflexivity|].
  change (last (a :: x :: l) d) with (last (x :: l) d). rewrite (IH x d), (IH x a). reflexivity.
Qed.

(* ---------------- designated-id specification of the SPE log ---------------- *)
Lemma global_iter_des_ok_b_ok range N nu perm idps :
  global_iter_des_ok_b range N nu perm idps = true <-> global_iter_des_ok range N nu perm idps.
Proof.
  unfold global_iter_des_ok_b, global_iter_des_ok. cbv zeta.
  rewrite andb_true_iff, global_iter_ok_b_ok, (list_eqb_ok pair_eqb pair_eqb_ok). split.
  - intros [Hok E]. eexists. split; [exact Hok|exact E].
  - intros [ps [Hok E]]. pose proof Hok as [_ [_ [Eps _]]]. subst ps. split; assumption.
Qed.

Lemma local_des_witness range k nbrs : forall l idps,
  forallb2 (local_pair_des_b range k nbrs) l idps = true ->
  exists ps, map fst ps = l /\
             Forall (fun p => In (snd p) (firstn k (nth (fst p) nbrs []))) ps /\
             idps = map (des_pair range) ps.
Proof.
  induction l as [|a l IH]; intros [|idp idps] H; cbn [forallb2] in H; try discriminate.
  - exists []. repeat split. constructor.
  - apply andb_true_iff in H. destruct H as [Ha Hr].
    destruct (IH idps Hr) as [ps [E1 [E2 E3]]].
    unfold local_pair_des_b in Ha. apply andb_true_iff in Ha. destruct Ha as [Hf Hs].
    apply Nat.eqb_eq in Hf. apply existsb_exists in Hs. destruct Hs as [nb [Hin Hnb]].
    apply Nat.eqb_eq in Hnb.
    exists ((a, nb) :: ps). cbn [map fst snd]. split; [f_equal; exact E1|]. split.
    + constructor; [exact Hin|exact E2].
    + unfold des_pair at 1. cbn [fst snd]. rewrite <- Hf, Hnb, <- E3. destruct idp; reflexivity.
Qed.

Lemma local_des_forallb2 range k nbrs : forall ps,
  Forall (fun p => In (snd p) (firstn k (nth (fst p) nbrs []))) ps ->
  forallb2 (local_pair_des_b range k nbrs) (map fst ps) (map (des_pair range) ps) = true.
Proof.
  induction ps as [|p ps IH]; intros H; [reflexivity|].
  inversion H as [|? ? Hp Hr]; subst. cbn [map forallb2]. rewrite (IH Hr), andb_true_r.
  unfold local_pair_des_b, des_pair. cbn [fst snd]. rewrite Nat.eqb_refl. cbn [andb].
  apply existsb_exists. exists (snd p). split; [exact Hp|apply Nat.eqb_refl].
Qed.

Lemma local_iter_des_ok_b_ok range N nu k nbrs perm idps :
  local_iter_des_ok_b range N nu k nbrs perm idps = true <->
  local_iter_des_ok range N nu k nbrs perm idps.
Proof.
  unfold local_iter_des_ok_b, local_iter_des_ok, local_iter_ok.
  rewrite !andb_true_iff, is_perm_b_ok, !Nat.eqb_eq, nodup_b_ok. split.
  - intros [[[[HP HL] HF] HN] HA].
    destruct (local_des_witness range k nbrs _ _ HA) as [ps [E1 [E2 E3]]].
    exists ps. split; [|exact E3]. split; [exact HP|].
    split; [rewrite <- HF, <- E1, map_length; reflexivity|].
    split; [exact E1|]. split; [rewrite E1; exact HN|exact E2].
  - intros [ps [[HP [HL [HF [HN HA]]]] E]]. subst idps.
    rewrite map_length, <- HF, map_length. repeat split; try assumption.
    apply local_des_forallb2. exact HA.
Qed.

(* a log whose every iteration satisfies the designated-id statement passes the decision procedure *)
Lemma spe_log_check_des_none range (global : bool) N nu k nbrs log :
  spe_log_check_des range global N nu k nbrs log = None <->
  Forall (fun sp => if global then global_iter_des_ok range N nu (fst sp) (snd sp)
                    else local_iter_des_ok range N nu k nbrs (fst sp) (snd sp)) log.
Proof.
  unfold spe_log_check_des. rewrite first_bad_none. destruct global.
  - split; intros H; (eapply Forall_impl; [|exact H]); intros sp; apply global_iter_des_ok_b_ok.
  - split; intros H; (eapply Forall_impl; [|exact H]); intros sp; apply local_iter_des_ok_b_ok.
Qed.

(* `spe_distance_calls_designated`, global strategy: in every iteration of the model the distance callback
   receives (begin[perm[j]], begin[perm[nu+j]]), j < nu — for every range, every shuffle answer *)
Theorem spe_distance_calls_global_proof (old : bool) range nbrs nupd its :
  let N := length range in
  Forall (fun i => is_perm N (it_from i)) its ->
  exists outs,
    spe_indices old true nbrs nupd N its = Ok outs /\
    spe_log_check_des range true N (Nat.min nupd (N / 2)) 0 nbrs
                      (combine (map o_perm outs) (spe_distance_calls range outs)) = None.
Proof.
  intros N Hf. destruct (global_indices_perm_proof old nbrs nupd N its Hf) as [outs [E [_ Hall]]].
  exists outs. split; [exact E|]. apply spe_log_check_des_none.
  clear E. induction Hall as [|o outs' Ho _ IH]; [constructor|].
  cbn [map combine spe_distance_calls]. constructor; [|exact IH].
  cbn [fst snd]. exists (o_pairs o). split; [exact (proj1 Ho)|reflexivity].
Qed.

(* local strategy, current code *)
Theorem spe_distance_calls_local_proof range nbrs nupd its :
  let N := length range in
  let k := length (nth 0 nbrs []) in
  let nu := Nat.min nupd (N / 2) in
  0 < N -> 0 < k -> nbrs_ok N k nbrs ->
  Forall (fun i => is_perm N (it_from i) /\ us_ok nu (it_us i)) its ->
  exists outs,
    spe_indices false false nbrs nupd N its = Ok outs /\
    spe_log_check_des range false N nu k nbrs
                      (combine (map o_perm outs) (spe_distance_calls range outs)) = None.
Proof.
  intros N k nu HN Hk Hnb Hf.
  destruct (local_indices_spec_proof nbrs nupd N its HN Hk Hnb Hf) as [outs [E Hall]].
  exists outs. split; [exact E|]. apply spe_log_check_des_none.
  clear E Hf. induction Hall as [|i o its' outs' Hio _ IH]; [constructor|].
  cbn [map combine spe_distance_calls]. constructor; [|exact IH].
  cbn [fst snd]. exists (o_pairs o). split; [exact (proj1 Hio)|reflexivity].
Qed.

(* the max-distance double loop asks for distance(begin[i], begin[j]) for exactly the pairs i < j *)
Lemma max_loop_calls_length range :
  2 * length (max_loop_calls range) = length range * (length range - 1).
Proof.
  induction range as [|a t IH]; [reflexivity|].
  cbn [max_loop_calls length]. rewrite app_length, map_length.
  destruct t as [|b t']; [reflexivity|]. cbn [length] in *. nia.
Qed.

Lemma max_loop_calls_In : forall range a b,
  In (a, b) (max_loop_calls range) <->
  exists i j, i < j /\ j < length range /\ a = at_pos range i /\ b = at_pos range j.
Proof.
  unfold at_pos. induction range as [|x t IH]; intros a b; cbn [max_loop_calls length].
  - split; [intros []|intros [i [j [_ [H _]]]]; lia].
  - rewrite in_app_iff, in_map_iff, IH. split.
    + intros [[y [E Hy]]|[i [j [Hij [Hj [Ea Eb]]]]]].
      * inversion E; subst. destruct (In_nth _ _ 0 Hy) as [j [Hj Ej]].
        exists 0, (S j). cbn [nth]. repeat split; lia.
      * exists (S i), (S j). cbn [nth]. repeat split; try lia; assumption.
    + intros [i [j [Hij [Hj [Ea Eb]]]]]. destruct j as [|j]; [lia|]. destruct i as [|i]; cbn [nth] in Ea, Eb.
      * left. exists b. split; [subst; reflexivity|]. subst b. apply nth_In. lia.
      * right. exists i, j. repeat split; try lia; assumption.
Qed.

Section Des.
  Context {F : Type} {Fo : FieldOps F} {Ff : IsField F}.
  Add Field SpeDesField : (@Fth F Fo Ff).
  Local Open Scope F_scope.

  Lemma fold_sum_as_sumn (h : nat -> F) : forall (range : list nat) (a : F),
    fold_left (fun acc id => acc + h id) range a =
    a + sumn (length range) (fun i => h (nth i range 0%nat)).
  Proof.
    induction range as [|x t IH]; intros a; cbn [fold_left length].
    - cbn [sumn]. ring.
    - rewrite IH, sumn_S_l. cbn [nth]. ring.
  Qed.

  (* compute_mean over the range = mean of the designated samples *)
  Lemma mean_des_designated (feat : nat -> vec F) range t :
    mean_des feat range t = mean_vec (length range) (fun i => feat (at_pos range i)) t.
  Proof.
    unfold mean_des, mean_vec, at_pos. rewrite fold_sum_as_sumn. f_equal. ring.
  Qed.

  (* ---------------- random projection ---------------- *)
  (* refinement: the range model is the matrix model applied to the designated sample list *)
  Theorem rp_embed_des_designated_proof s D d g (feat : nat -> vec F) range :
    rp_embed_des s D d g feat range =
    rp_embed s (length range) D d g (fun i => feat (at_pos range i)).
  Proof.
    unfold rp_embed_des, rp_embed. destruct (rp_fill s D d g) as [Pg| | |]; cbn [bind]; try reflexivity.
    f_equal. unfold project_des, mtab. rewrite (map_as_tab _ range 0%nat).
    apply tab_ext. intros i Hi. apply tab_ext. intros c Hc. unfold rp_project.
    apply sumn_ext. intros t Ht. rewrite mean_des_designated. reflexivity.
  Qed.

  (* `rp_row_is_projection_of_designated_sample`: row i of the embedding is P^T (x_{begin[i]} - mean) with
     P(t,c) = draw[t*d+c]/s and mean = the mean of the designated samples; sample begin[i] enters row i
     through its feature vector only *)
  Theorem rp_row_designated_proof s D d g (feat : nat -> vec F) range P i c :
    (D * d <= length g)%nat -> rp_embed_des s D d g feat range = Ok P ->
    i < length range -> c < d ->
    mof P i c = sumn D (fun t => nth (t * d + c) g 0 / s *
                                 (feat (at_pos range i) t - mean_des feat range t)).
  Proof.
    intros Hg E Hi Hc. unfold rp_embed_des in E.
    destruct (rp_fill_ok_proof s d D g Hg) as [P0 [E0 [_ HP0]]]. rewrite E0 in E. cbn [bind fst] in E.
    inversion E; subst P. clear E. unfold project_des, mof at 1.
    rewrite (nth_map_lt _ range i 0%nat nil Hi). rewrite nth_tab by exact Hc.
    apply sumn_ext. intros t Ht. rewrite HP0 by assumption. reflexivity.
  Qed.

  Lemma rp_embed_ext s n D d g (X X' : mat F) :
    meq n D X X' -> rp_embed s n D d g X = rp_embed s n D d g X'.
  Proof.
    intros H. unfold rp_embed. destruct (rp_fill s D d g) as [Pg| | |]; cbn [bind]; try reflexivity.
    f_equal. apply mtab_ext. intros i c Hi Hc. unfold rp_project. apply sumn_ext. intros t Ht.
    rewrite (H i t Hi Ht). f_equal. f_equal. unfold mean_vec. f_equal. apply sumn_ext. intros j Hj.
    apply H; assumption.
  Qed.

  (* the embedding depends on (callback, range) only through the designated feature vectors *)
  Theorem rp_des_ext_proof s D d g (feat feat' : nat -> vec F) range range' :
    length range = length range' ->
    (forall i t, i < length range -> t < D -> feat (at_pos range i) t = feat' (at_pos range' i) t) ->
    rp_embed_des s D d g feat range = rp_embed_des s D d g feat' range'.
  Proof.
    intros HL H. rewrite !rp_embed_des_designated_proof, <- HL. apply rp_embed_ext.
    intros i t Hi Ht. apply H; assumption.
  Qed.

  Theorem rp_des_translation_invariant_proof s D d g (t : vec F) (feat : nat -> vec F) range :
    of_nat (length range) <> 0 ->
    rp_embed_des s D d g (fun id a => feat id a + t a) range = rp_embed_des s D d g feat range.
  Proof.
    intros Hn. rewrite !rp_embed_des_designated_proof.
    exact (rp_translation_invariant_proof s (length range) D d g t (fun i => feat (at_pos range i)) Hn).
  Qed.

  Theorem rp_des_output_centred_proof s D d g (feat : nat -> vec F) range P c :
    of_nat (length range) <> 0 -> c < d -> rp_embed_des s D d g feat range = Ok P ->
    sumn (length range) (fun i => mof P i c) = 0.
  Proof.
    intros Hn Hc E. rewrite rp_embed_des_designated_proof in E.
    exact (rp_output_centred_proof s (length range) D d g _ P c Hn Hc E).
  Qed.

  (* ---------------- factor analysis ---------------- *)
  Theorem fa_embed_des_designated_proof inv logdet stop T D d eps A0 (feat : nat -> vec F) range :
    fa_embed_des inv logdet stop T D d eps A0 feat range =
    fa_embed inv logdet stop T (length range) D d eps A0 (fun i => feat (at_pos range i)).
  Proof.
    unfold fa_embed_des, fa_embed, fa_data_des. cbv zeta. f_equal. unfold mtab.
    apply tab_ext. intros t Ht. rewrite (map_as_tab _ range 0%nat).
    apply tab_ext. intros i Hi. rewrite mean_des_designated. reflexivity.
  Qed.

  (* `fa_row_is_centred_designated_sample_times_loading`: there is ONE D x d loading matrix A with
     row i of the output = (x_{begin[i]} - mean of the designated samples)^T A *)
  Theorem fa_row_designated_proof inv logdet stop T D d eps A0 (feat : nat -> vec F) range :
    exists A : mat F, forall i c, i < length range -> c < d ->
      mof (fa_embed_des inv logdet stop T D d eps A0 feat range) i c =
      sumn D (fun t => (feat (at_pos range i) t - mean_des feat range t) * A t c).
  Proof.
    unfold fa_embed_des, fa_core. cbv zeta. eexists. intros i c Hi Hc.
    rewrite mof_mtab by assumption. apply sumn_ext. intros t Ht. f_equal.
    unfold fa_data_des, mof. cbv zeta. rewrite nth_tab by exact Ht.
    rewrite (nth_map_lt _ range i 0%nat 0 Hi). reflexivity.
  Qed.

  Lemma fa_embed_ext inv logdet stop T n D d eps A0 (S S' : mat F) :
    meq n D S S' ->
    fa_embed inv logdet stop T n D d eps A0 S = fa_embed inv logdet stop T n D d eps A0 S'.
  Proof.
    intros H. unfold fa_embed. f_equal. apply mtab_ext. intros t i Ht Hi.
    rewrite (H i t Hi Ht). f_equal. unfold mean_vec. f_equal. apply sumn_ext. intros j Hj.
    apply H; assumption.
  Qed.

  Theorem fa_des_ext_proof inv logdet stop T D d eps A0 (feat feat' : nat -> vec F) range range' :
    length range = length range' ->
    (forall i t, i < length range -> t < D -> feat (at_pos range i) t = feat' (at_pos range' i) t) ->
    fa_embed_des inv logdet stop T D d eps A0 feat range =
    fa_embed_des inv logdet stop T D d eps A0 feat' range'.
  Proof.
    intros HL H. rewrite !fa_embed_des_designated_proof, <- HL. apply fa_embed_ext.
    intros i t Hi Ht. apply H; assumption.
  Qed.

  Theorem fa_des_translation_invariant_proof inv logdet stop T D d eps A0 (t : vec F)
          (feat : nat -> vec F) range :
    of_nat (length range) <> 0 ->
    fa_embed_des inv logdet stop T D d eps A0 (fun id a => feat id a + t a) range =
    fa_embed_des inv logdet stop T D d eps A0 feat range.
  Proof.
    intros Hn. rewrite !fa_embed_des_designated_proof.
    exact (fa_translation_invariant_proof inv logdet stop T (length range) D d eps A0 t
                                          (fun i => feat (at_pos range i)) Hn).
  Qed.

  (* the EM loop = its never-stopping trajectory cut at the first round t >= 2 at which the convergence
     oracle fires: the oracle `stop` (fabs(newll - ll) < epsilon) and the oracle `logdet` influence the
     result ONLY through the round at which the loop is left *)
  Lemma fa_em_unfold inv logdet stop fuel iter n D d eps (X A sig : mat F) ll :
    fa_em inv logdet stop (S fuel) iter n D d eps X A sig ll =
    if (1 <? S iter)%nat && stop (fa_newll inv logdet n D d X A sig) ll
    then fa_next_A inv n D d X A sig
    else fa_em inv logdet stop fuel (S iter) n D d eps X (fa_next_A inv n D d X A sig)
               (fa_next_sig inv n D d eps X A sig) (fa_newll inv logdet n D d X A sig).
  Proof. reflexivity. Qed.

  Theorem fa_em_factor_proof inv logdet stop n D d eps (X : mat F) : forall fuel iter A sig ll,
    fa_em inv logdet stop fuel iter n D d eps X A sig ll =
    stop_round stop iter ll (fa_rounds inv logdet fuel n D d eps X A sig) A.
  Proof.
    induction fuel as [|fuel IH]; intros iter A sig ll; [reflexivity|].
    rewrite fa_em_unfold. cbn [fa_rounds stop_round].
    destruct ((1 <? S iter)%nat && stop (fa_newll inv logdet n D d X A sig) ll); [reflexivity|].
    apply IH.
  Qed.

  (* with fa_epsilon-test never firing the loop runs all its rounds: stop_round returns the last A *)
  Lemma stop_round_never : forall (tr : list (mat F * F)) iter ll A,
    stop_round (fun _ _ => false) iter ll tr A = last (map fst tr) A.
  Proof.
    induction tr as [|[A' nll] tr IH]; intros iter ll A; [reflexivity|].
    cbn [stop_round map fst]. rewrite andb_false_r, IH. symmetry. apply last_cons_default.
  Qed.

  (* what the replay observes of round t is X^T A_t for the A_t of the trajectory *)
  Lemma fa_observe_embeddings inv logdet n D d eps (X : mat F) : forall fuel A sig,
    map (fun o => fst (fst o)) (fa_observe inv fuel n D d eps X A sig) =
    map (fun Al => mtab n d (fun i c => sumn D (fun t => X t i * fst Al t c)))
        (fa_rounds inv logdet fuel n D d eps X A sig).
  Proof.
    induction fuel as [|fuel IH]; intros A sig; [reflexivity|].
    cbn [fa_rounds map fst].
    change (fa_observe inv (S fuel) n D d eps X A sig) with
      ((mtab n d (fun i c => sumn D (fun t => X t i * fa_next_A inv n D d X A sig t c)),
        mtab D D (fa_invC inv D d A sig), fa_quad inv n D d X A sig)
         :: fa_observe inv fuel n D d eps X (fa_next_A inv n D d X A sig) (fa_next_sig inv n D d eps X A sig)).
    cbn [map fst]. f_equal. apply IH.
  Qed.

  (* ---------------- SPE: the run depends on the data through designated distances only ---------------- *)
  Lemma targets_ext alpha (R R' : nat -> nat -> F) N ps :
    pairs_below N ps -> (forall a b, a < N -> b < N -> R a b = R' a b) ->
    targets alpha R ps = targets alpha R' ps.
  Proof.
    intros Hb H. unfold targets. apply map_ext_in. intros p Hp.
    unfold pairs_below in Hb. rewrite Forall_forall in Hb. destruct (Hb p Hp) as [Ha Hb'].
    rewrite (H _ _ Ha Hb'). reflexivity.
  Qed.

  Lemma spe_coords_ext N T tol alpha (R R' : nat -> nat -> F) :
    (forall a b, a < N -> b < N -> R a b = R' a b) ->
    forall steps lam (Y : pts),
      Forall (fun s => pairs_below N (s_pairs s)) steps ->
      spe_coords T tol alpha R steps lam Y = spe_coords T tol alpha R' steps lam Y.
  Proof.
    intros H. induction steps as [|s steps IH]; intros lam Y Hs; [reflexivity|].
    inversion Hs as [|? ? H1 H2]; subst. cbn [spe_coords].
    rewrite (targets_ext alpha R R' N _ H1 H). apply IH. exact H2.
  Qed.

  Theorem spe_run_des_ext_global_proof (old : bool) nbrs nupd range range' its norms tol alpha
          (dist dist' : nat -> nat -> F) (Y0 : pts) :
    length range = length range' ->
    (forall a b, a < length range -> b < length range ->
                 dist (at_pos range a) (at_pos range b) = dist' (at_pos range' a) (at_pos range' b)) ->
    Forall (fun i => is_perm (length range) (it_from i)) its ->
    spe_embedding_run_des old true nbrs nupd range its norms tol alpha dist Y0 =
    spe_embedding_run_des old true nbrs nupd range' its norms tol alpha dist' Y0.
  Proof.
    intros HL H Hf. unfold spe_embedding_run_des, spe_embedding_run. rewrite <- HL.
    destruct (global_indices_perm_proof old nbrs nupd (length range) its Hf) as [outs [E [_ Hall]]].
    rewrite E. cbn [bind]. f_equal.
    apply (spe_coords_ext (length range)); [exact H|]. apply steps_below.
    apply Forall_forall. intros o Ho. rewrite Forall_forall in Hall.
    destruct (Hall o Ho) as [Hok _]. exact (global_pairs_below _ _ _ _ Hok).
  Qed.

  Theorem spe_run_des_ext_local_proof nbrs nupd range range' its norms tol alpha
          (dist dist' : nat -> nat -> F) (Y0 : pts) :
    let N := length range in
    let k := length (nth 0 nbrs []) in
    let nu := Nat.min nupd (N / 2) in
    length range = length range' ->
    (forall a b, a < N -> b < N ->
                 dist (at_pos range a) (at_pos range b) = dist' (at_pos range' a) (at_pos range' b)) ->
    (0 < N)%nat -> (0 < k)%nat -> nbrs_ok N k nbrs -> nbrs_below N nbrs ->
    Forall (fun i => is_perm N (it_from i) /\ us_ok nu (it_us i)) its ->
    spe_embedding_run_des false false nbrs nupd range its norms tol alpha dist Y0 =
    spe_embedding_run_des false false nbrs nupd range' its norms tol alpha dist' Y0.
  Proof.
    intros N k nu HL H HN Hk Hnb Hbel Hf. unfold spe_embedding_run_des, spe_embedding_run.
    rewrite <- HL. fold N.
    destruct (local_indices_spec_proof nbrs nupd N its HN Hk Hnb Hf) as [outs [E Hall]].
    rewrite E. cbn [bind]. f_equal.
    apply (spe_coords_ext N); [exact H|]. apply steps_below.
    clear E. induction Hall as [|i o its' outs' Hio Hrest IH]; [constructor|].
    constructor.
    - destruct Hio as [Hok _]. exact (local_pairs_below _ _ _ _ _ _ Hbel Hok).
    - apply IH. inversion Hf; assumption.
  Qed.
End Des.

(* ---------------- the positional-fetch variant of project() is refuted ---------------- *)
(* pool of four 1-D samples with x_id = id; the range is the SUB-RANGE [2; 3]; one draw g = 1, s = 1:
   the shipped code returns (-1/2, 1/2); the variant that asks for vector(loop counter) returns
   (-5/2, -3/2): other samples, and not centred *)
Definition w_feat : nat -> vec Qc := fun id _ => qz (Z.of_nat id).

Theorem rp_positional_fetch_refuted_proof :
  exists (feat : nat -> vec Qc) range P P',
    rp_embed_des (qz 1) 1 1 [qz 1] feat range = Ok P /\
    rp_embed_pos (qz 1) 1 1 [qz 1] feat range = Ok P' /\
    mof P 0 0 <> mof P' 0 0 /\
    sumn (length range) (fun i => mof P i 0) = 0%F /\
    sumn (length range) (fun i => mof P' i 0) <> 0%F.
Proof.
  exists w_feat, [2; 3]. eexists. eexists.
  split; [vm_compute; reflexivity|]. split; [vm_compute; reflexivity|].
  split; [apply Qc_neq_by_num; vm_compute; discriminate|].
  split; [apply Qc_is_canon; vm_compute; reflexivity|].
  apply Qc_neq_by_num; vm_compute; discriminate.
Qed.

(* ---------------- the polar method ---------------- *)
Local Open Scope Q_scope.

Lemma polar_rejected_false s : polar_rejected s = false <-> 0 < s /\ s < 1 \/ s < 0.
Proof.
  unfold polar_rejected. rewrite orb_false_iff. split.
  - intros [H1 H2].
    assert (~ 1 <= s) by (intro Hc; apply Qle_bool_iff in Hc; congruence).
    assert (~ s == 0) by (intro Hc; apply Qeq_bool_iff in Hc; congruence).
    destruct (Qlt_le_dec 0 s); [left; split; lra|right; lra].
  - intros H. split.
    + destruct (Qle_bool 1 s) eqn:E; [|reflexivity]. apply Qle_bool_iff in E. lra.
    + destruct (Qeq_bool s 0) eqn:E; [|reflexivity]. apply Qeq_bool_iff in E. lra.
Qed.

Lemma sum_squares_nonneg (x y : Q) : 0 <= x * x + y * y.
Proof. nra. Qed.

(* `polar_accepts_open_disc`: whatever std::rand answers, an accepted attempt has 0 < radius < 1 (so
   log(radius) < 0 and -2 log(radius)/radius > 0: the square root and the quotient are finite), x^2 <= radius,
   the attempts consume the stream two answers at a time, and what is left is a suffix of the stream *)
Theorem polar_loop_accept_proof M : forall fuel rs x s rest,
  polar_loop fuel M rs = Ok (x, s, rest) ->
  0 < s /\ s < 1 /\ x * x <= s /\
  exists pre y, rs = (pre ++ rest)%list /\ Nat.Even (length pre) /\ s == x * x + y * y /\
                exists r1 r2 pre', pre = (pre' ++ [r1; r2])%list /\
                                  x = polar_coord M r1 /\ y = polar_coord M r2.
Proof.
  induction fuel as [|fuel IH]; intros rs x s rest E; cbn [polar_loop] in E; [discriminate|].
  destruct rs as [|r1 [|r2 rs']]; try discriminate.
  destruct (polar_rejected _) eqn:R.
  - destruct (IH _ _ _ _ E) as [H1 [H2 [H3 [pre [y [Ers [Hev [Hs [a [b [pre' [Ep [Ex Ey]]]]]]]]]]]]].
    repeat split; try assumption.
    exists (r1 :: r2 :: pre), y. split; [rewrite Ers; reflexivity|].
    split; [cbn [length]; destruct Hev as [m Hm]; exists (S m); lia|].
    split; [exact Hs|]. exists a, b, (r1 :: r2 :: pre'). split; [rewrite Ep; reflexivity|]. split; assumption.
  - inversion E; subst x s rest. clear E.
    apply polar_rejected_false in R.
    pose proof (sum_squares_nonneg (polar_coord M r1) (polar_coord M r2)) as Hnn.
    destruct R as [[R1 R2]|R]; [|lra].
    split; [exact R1|]. split; [exact R2|]. split; [nra|].
    exists [r1; r2], (polar_coord M r2). split; [reflexivity|].
    split; [exists 1%nat; reflexivity|]. split; [reflexivity|].
    exists r1, r2, []. repeat split.
Qed.

(* the first attempt that lies in the open punctured disc is the one returned (rejection sampling does not
   skip or transform accepted points): acceptance is decided by 0 < x^2 + y^2 < 1 alone *)
Theorem polar_loop_first_proof M fuel r1 r2 rest :
  let x := polar_coord M r1 in
  let y := polar_coord M r2 in
  (0 < x * x + y * y /\ x * x + y * y < 1 ->
   polar_loop (S fuel) M (r1 :: r2 :: rest) = Ok (x, x * x + y * y, rest)) /\
  (~ (0 < x * x + y * y /\ x * x + y * y < 1) ->
   polar_loop (S fuel) M (r1 :: r2 :: rest) = polar_loop fuel M rest).
Proof.
  intros x y. cbn [polar_loop]. fold x y. split; intros H.
  - assert (R : polar_rejected (x * x + y * y) = false) by (apply polar_rejected_false; left; exact H).
    rewrite R. reflexivity.
  - destruct (polar_rejected (x * x + y * y)) eqn:R; [reflexivity|].
    apply polar_rejected_false in R. pose proof (sum_squares_nonneg x y).
    destruct R as [R|R]; [contradiction|lra].
Qed.

(* gaussian_projection_matrix with the shipped generator: exactly `count` accepted attempts, in order *)
Theorem polar_fill_count_proof fuel M : forall count rs l rest,
  polar_fill fuel M count rs = Ok (l, rest) ->
  length l = count /\ Forall (fun xs => 0 < snd xs /\ snd xs < 1 /\ fst xs * fst xs <= snd xs) l.
Proof.
  induction count as [|count IH]; intros rs l rest E; cbn [polar_fill] in E.
  - inversion E; subst. split; [reflexivity|constructor].
  - destruct (polar_loop fuel M rs) as [[[x s] rs1]| | |] eqn:E1; cbn [bind] in E; try discriminate.
    cbn [snd fst] in E.
    destruct (polar_fill fuel M count rs1) as [[l1 r1]| | |] eqn:E2; cbn [bind] in E; try discriminate.
    inversion E; subst l rest. clear E. destruct (IH _ _ _ E2) as [HL HF].
    destruct (polar_loop_accept_proof M _ _ _ _ _ E1) as [H1 [H2 [H3 _]]].
    split; [cbn [length fst]; lia|]. constructor; [cbn [fst snd]; repeat split; assumption|exact HF].
Qed.

(* ---------------- one pair update approaches its target and never overshoots ---------------- *)
(* d' = d (1 + lambda (r - d - tol)/(d + tol)) is the embedded distance of the pair after the update (theorem
   pair_update_distance).  For 0 <= lambda <= 1: a pair that is too short (d + tol <= r) gets longer but not longer
   than r; a pair that is too long gets shorter but not shorter than r d/(d + tol).  With the step doubled
   (lambda/2 -> lambda, mutant m03) the pair overshoots its target. *)
Theorem pair_update_no_overshoot_proof (lam tol r d : Q) :
  0 <= d -> 0 < tol -> 0 <= r -> 0 <= lam -> lam <= 1 ->
  let d' := d * (1 + lam * (r - d - tol) / (d + tol)) in
  (d + tol <= r -> d <= d' /\ d' <= r) /\
  (r <= d + tol -> r * d / (d + tol) <= d' /\ d' <= d).
Proof.
  intros Hd Ht Hr Hl0 Hl1 d'.
  assert (Hp : 0 < d + tol) by lra.
  set (q := (r - d - tol) / (d + tol)).
  assert (Hq : q * (d + tol) == r - d - tol) by (unfold q; field; lra).
  assert (Ed : d' == d + lam * (d * q)) by (unfold d', q; field; lra).
  assert (Er : r * d / (d + tol) == d + d * q) by (unfold q; field; lra).
  split; intros Hc.
  - assert (Hq0 : 0 <= q).
    { unfold q. apply Qle_shift_div_l; [exact Hp|]. lra. }
    assert (Hdq : 0 <= d * q) by (apply Qmult_le_0_compat; assumption).
    assert (Hdq' : d * q <= r - d - tol) by (rewrite <- Hq; nra).
    assert (H1 : 0 <= lam * (d * q)) by (apply Qmult_le_0_compat; assumption).
    assert (H2 : lam * (d * q) <= d * q) by nra.
    rewrite Ed. split; lra.
  - assert (Hq0 : q <= 0).
    { unfold q. apply Qle_shift_div_r; [exact Hp|]. lra. }
    assert (Hdq : d * q <= 0) by nra.
    assert (H1 : lam * (d * q) <= 0) by nra.
    assert (H2 : d * q <= lam * (d * q)) by nra.
    rewrite Ed, Er. split; lra.
Qed.

Theorem pair_update_full_step_overshoots_proof :
  exists lam tol r d : Q,
    0 <= d /\ 0 < tol /\ d + tol <= r /\ lam == 2 /\
    r < d * (1 + lam * (r - d - tol) / (d + tol)).
Proof.
  exists 2, (1 # 100), 2, 1. repeat split; try (vm_compute; discriminate); vm_compute; reflexivity.
Qed.

(* ---------------- the shipped uniform_random() answers in [0, 1) ---------------- *)
(* contract of the uniform oracle assumed by local_indices_spec (us_ok), discharged for the shipped generator:
   every std::rand answer 0 <= r <= RAND_MAX gives 0 <= u < 1, hence floor(u * k) is a valid neighbour position *)
Theorem uniform_of_rand_unit_proof (M : positive) (r : Z) :
  (0 <= r < Z.pos M)%Z -> 0 <= uniform_of_rand M r /\ uniform_of_rand M r < 1.
Proof.
  intros [H0 H1]. unfold uniform_of_rand, Qle, Qlt. cbn [Qnum Qden]. split; lia.
Qed.

Theorem uniform_draw_in_range_proof (M : positive) (r : Z) (k : nat) :
  (0 < k)%nat -> (0 <= r < Z.pos M)%Z ->
  (0 <= draw k (uniform_of_rand M r) < Z.of_nat k)%Z.
Proof.
  intros Hk Hr. destruct (uniform_of_rand_unit_proof M r Hr) as [H0 H1].
  exact (draw_range k _ Hk H0 H1).
Qed.
