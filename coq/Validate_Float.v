(* Validate_Float.v — property C14: the two bounds that the C++ COMPUTES in binary64,
     InClosedRange<ScalarType>(3.0 / n_vectors, 1.0)          (landmark_ratio)
     InClosedRange<ScalarType>(0.0, (n_vectors - 1) / 3.0)    (sne_perplexity)
   The model (Validate_Model.eval_bexpr) evaluates bound expressions exactly in Q.  Here the same
   expressions are evaluated as the C++ does (int op int in int, anything else in double, with Coq's
   primitive binary64 floats, evaluated by vm_compute inside coqc only; never extracted) and compared
   with the exact value: for every N in [1, 65536] the double bound is within 2^-53 (relative) of the
   exact bound and EQUAL to it whenever the exact bound is itself a double.  Hence model and code can
   classify a value differently only if it lies strictly between the exact bound and its rounding,
   i.e. closer than one unit in the last place to the bound. *)

From Coq Require Import ZArith QArith Qabs Floats List Bool Lia.
Import ListNotations.
From TK Require Import Validate_Model.
Local Open Scope Z_scope.

Inductive fnum := FI (z : Z) | FR (f : float).

Definition Z2F (z : Z) : float :=
  if z <? 0 then PrimFloat.opp (PrimFloat.of_uint63 (Uint63.of_Z (- z)))
  else PrimFloat.of_uint63 (Uint63.of_Z z).

Definition fnum_F (x : fnum) : float := match x with FI z => Z2F z | FR f => f end.

Definition fnum_arith (fz : Z -> Z -> Z) (ff : float -> float -> float) (x y : fnum) : fnum :=
  match x, y with
  | FI a, FI b => FI (fz a b)
  | _, _ => FR (ff (fnum_F x) (fnum_F y))
  end.

(* a floating literal of the source is a double already: BReal carries its exact value; it is
   converted back by one correctly rounded division numerator / denominator (exact here: the
   literals are dyadic with small numerators) *)
Definition Q2F (q : Q) : float := PrimFloat.div (Z2F (Qnum q)) (Z2F (Zpos (Qden q))).

Definition SF2Q (f : spec_float) : option Q :=
  match f with
  | S754_zero _ => Some 0%Q
  | S754_finite s m e =>
      let q := (inject_Z (Zpos m) * Qpower 2 e)%Q in Some (if s then Qopp q else q)
  | _ => None
  end.

Definition F2Q (f : float) : option Q := SF2Q (Prim2SF f).

Definition F2Z (f : float) : Z := match F2Q f with Some q => Qtrunc q | None => 0 end.

Fixpoint feval (E : env) (b : bexpr) : fnum :=
  match b with
  | BInt z => FI z
  | BReal q => FR (Q2F q)
  | BN => FI (e_n E)
  | BDim => FI (e_dim E)
  | BParam k t => match param_num t (e_get E k) with NI z => FI z | NR q => FR (Q2F q) end
  | BTrunc a => match feval E a with FI z => FI z | FR f => FI (F2Z f) end
  | BAdd a c => fnum_arith Z.add PrimFloat.add (feval E a) (feval E c)
  | BSub a c => fnum_arith Z.sub PrimFloat.sub (feval E a) (feval E c)
  | BMul a c => fnum_arith Z.mul PrimFloat.mul (feval E a) (feval E c)
  | BDiv a c => fnum_arith Z.quot PrimFloat.div (feval E a) (feval E c)
  end.

(* q is (the exact value of) a normal binary64 number with a small exponent *)
Definition is_double (q : Q) : bool :=
  let r := Qred q in
  let d := Zpos (Qden r) in
  (2 ^ Z.log2 d =? d) && (Z.abs (Qnum r) <? 2 ^ 53) && (Z.log2 d <? 1000).

Definition env_N (n : Z) : env := {| e_n := n; e_dim := 0; e_get := fun _ => None |}.

Definition float_bound_ok (b : bexpr) (n : Z) : bool :=
  let exact := num_Q (eval_bexpr (env_N n) b) in
  match F2Q (fnum_F (feval (env_N n) b)) with
  | None => false
  | Some f =>
      Qle_bool (Qabs (f - exact) * inject_Z (2 ^ 53)) (Qabs exact) &&
      (if is_double exact then Qeq_bool f exact else true)
  end.

(* a complete sweep of an integer interval, by evaluation *)
Fixpoint forall_from (f : Z -> bool) (start : Z) (len : nat) : bool :=
  match len with
  | O => true
  | S l => f start && forall_from f (start + 1) l
  end.

Lemma forall_from_spec : forall f len start,
  forall_from f start len = true -> forall n, start <= n < start + Z.of_nat len -> f n = true.
Proof.
  intros f. induction len as [|l IH]; intros start H n R.
  - cbn in R. lia.
  - cbn [forall_from] in H. apply andb_true_iff in H. destruct H as [H0 H1].
    destruct (Z.eq_dec n start) as [->|N]; auto.
    apply (IH (start + 1) H1). lia.
Qed.

Definition both_ok (n : Z) : bool :=
  float_bound_ok (BDiv (BReal 3) BN) n && float_bound_ok (BDiv (BSub BN (BInt 1)) (BReal 3)) n.

(* wave 2: the sweep covers 1 .. 65536 (about 40 s of vm_compute); it was 1 .. 4096 *)
Lemma all_ok_65536 : forall_from both_ok 1 (Z.to_nat 65536) = true.
Proof. vm_compute. reflexivity. Qed.

Lemma float_bounds_ok_65536 : forall n, 1 <= n <= 65536 ->
  float_bound_ok (BDiv (BReal 3) BN) n = true /\
  float_bound_ok (BDiv (BSub BN (BInt 1)) (BReal 3)) n = true.
Proof.
  intros n H. pose proof (forall_from_spec _ _ _ all_ok_65536 n) as A.
  assert (R : 1 <= n < 1 + Z.of_nat (Z.to_nat 65536)) by (rewrite Z2Nat.id; lia).
  specialize (A R). unfold both_ok in A. now apply andb_true_iff in A.
Qed.

(* ------------------------------------------------------------------ int(N * landmark_ratio)
   static_cast<IndexType>(n_vectors * static_cast<ScalarType>(parameters[landmark_ratio])): the product
   is rounded to binary64 before it is truncated.  For the ratios the harness generates (multiples of
   1/64; here all multiples of 1/256, N <= 256) the product is exact, so the binary64 count equals the
   exact count of the model. *)
Definition landmarks_expr : bexpr := BTrunc (BMul BN (BParam 12%nat TScalar)).

Definition env_ratio (n : Z) (q : Q) : env :=
  {| e_n := n; e_dim := 0; e_get := fun k => if Nat.eqb k 12 then Some (VScalar q) else None |}.

Definition landmarks_ok (n k : Z) : bool :=
  let E := env_ratio n (k # 256) in
  match feval E landmarks_expr, eval_bexpr E landmarks_expr with
  | FI a, NI b => a =? b
  | _, _ => false
  end.

(* wave 2: N <= 256 and every ratio k/256 (it was N <= 64, k/64) *)
Lemma all_landmarks_ok :
  forall_from (fun n => forall_from (landmarks_ok n) 0 (Z.to_nat 257)) 0 (Z.to_nat 257) = true.
Proof. vm_compute. reflexivity. Qed.

Lemma landmarks_ok_256 : forall n k, 0 <= n <= 256 -> 0 <= k <= 256 -> landmarks_ok n k = true.
Proof.
  intros n k Hn Hk.
  assert (R : forall z, 0 <= z <= 256 -> 0 <= z < 0 + Z.of_nat (Z.to_nat 257))
    by (intros; rewrite Z2Nat.id; lia).
  pose proof (forall_from_spec _ _ _ all_landmarks_ok n (R n Hn)) as A. cbv beta in A.
  exact (forall_from_spec _ _ _ A k (R k Hk)).
Qed.
