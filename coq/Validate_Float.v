(* Validate_Float.v — property C14: the two bounds that the C++ COMPUTES in binary64,
     InClosedRange<ScalarType>(3.0 / n_vectors, 1.0)          (landmark_ratio)
     InClosedRange<ScalarType>(0.0, (n_vectors - 1) / 3.0)    (sne_perplexity)
   The model (Validate_Model.eval_bexpr) evaluates bound expressions exactly in Q.  Here the same
   expressions are evaluated as the C++ does (int op int in int, anything else in double, with Coq's
   primitive binary64 floats, evaluated by vm_compute inside coqc only; never extracted) and compared
   with the exact value: for every N in [1, 65536] the double bound is within 2^-53 (relative) of the
   exact bound and EQUAL to it whenever the exact bound is itself a double.  Hence model and code can
   classify a value differently only if it lies strictly between the exact bound and its rounding,
   i.e. closer than one unit in the last place to the bound. *)

From Coq Require Import ZArith QArith Qabs Floats List Bool Lia.
Import ListNotations.
From TK Require Import Validate_Model.
From TK Require Export Validate_Float_Defs.
Local Open Scope Z_scope.

Definition both_ok (n : Z) : bool :=
  float_bound_ok (BDiv (BReal 3) BN) n && float_bound_ok (BDiv (BSub BN (BInt 1)) (BReal 3)) n.

(* wave 2: the sweep covers 1 .. 65536 (about 40 s of vm_compute); it was 1 .. 4096 *)
Lemma all_ok_65536 : forall_from both_ok 1 (Z.to_nat 65536) = true.
Proof. vm_cast_no_check (eq_refl true). Qed.

Lemma float_bounds_ok_65536 : forall n, 1 <= n <= 65536 ->
  float_bound_ok (BDiv (BReal 3) BN) n = true /\
  float_bound_ok (BDiv (BSub BN (BInt 1)) (BReal 3)) n = true.
Proof.
  intros n H. pose proof (forall_from_spec _ _ _ all_ok_65536 n) as A.
  assert (R : 1 <= n < 1 + Z.of_nat (Z.to_nat 65536)) by (rewrite Z2Nat.id; lia).
  specialize (A R). unfold both_ok in A. now apply andb_true_iff in A.
Qed.

(* ------------------------------------------------------------------ int(N * landmark_ratio)
   static_cast<IndexType>(n_vectors * static_cast<ScalarType>(parameters[landmark_ratio])): the product
   is rounded to binary64 before it is truncated.  For the ratios the harness generates (multiples of
   1/64; here all multiples of 1/256, N <= 256) the product is exact, so the binary64 count equals the
   exact count of the model. *)
Definition landmarks_expr : bexpr := BTrunc (BMul BN (BParam 12%nat TScalar)).

Definition env_ratio (n : Z) (q : Q) : env :=
  {| e_n := n; e_dim := 0; e_get := fun k => if Nat.eqb k 12 then Some (VScalar q) else None |}.

Definition landmarks_ok (n k : Z) : bool :=
  let E := env_ratio n (k # 256) in
  match feval E landmarks_expr, eval_bexpr E landmarks_expr with
  | FI a, NI b => a =? b
  | _, _ => false
  end.

(* wave 2: N <= 256 and every ratio k/256 (it was N <= 64, k/64) *)
Lemma all_landmarks_ok :
  forall_from (fun n => forall_from (landmarks_ok n) 0 (Z.to_nat 257)) 0 (Z.to_nat 257) = true.
Proof. vm_cast_no_check (eq_refl true). Qed.

Lemma landmarks_ok_256 : forall n k, 0 <= n <= 256 -> 0 <= k <= 256 -> landmarks_ok n k = true.
Proof.
  intros n k Hn Hk.
  assert (R : forall z, 0 <= z <= 256 -> 0 <= z < 0 + Z.of_nat (Z.to_nat 257))
    by (intros; rewrite Z2Nat.id; lia).
  pose proof (forall_from_spec _ _ _ all_landmarks_ok n (R n Hn)) as A. cbv beta in A.
  exact (forall_from_spec _ _ _ A k (R k Hk)).
Qed.
