(* Validate_Float.v — property C14: the two bounds that the C++ COMPUTES in binary64,
     InClosedRange<ScalarType>(3.0 / n_vectors, 1.0)          (landmark_ratio)
     InClosedRange<ScalarType>(0.0, (n_vectors - 1) / 3.0)    (sne_perplexity)
   The model (Validate_Model.eval_bexpr) evaluates bound expressions exactly in Q.  Here the same
   expressions are evaluated as the C++ does (int op int in int, anything else in double, with Coq's
   primitive binary64 floats, evaluated by vm_compute inside coqc only; never extracted) and compared
   with the exact value: for every N in [1, 4096] the double bound is within 2^-53 (relative) of the
   exact bound and EQUAL to it whenever the exact bound is itself a double.  Hence model and code can
   classify a value differently only if it lies strictly between the exact bound and its rounding,
   i.e. closer than one unit in the last place to the bound. *)

From Coq Require Import ZArith QArith Qabs Floats List Bool Lia.
Import ListNotations.
From TK Require Import Validate_Model.
Local Open Scope Z_scope.

Inductive fnum := FI (z : Z) | FR (f : float).

Definition Z2F (z : Z) : float :=
  if z <? 0 then PrimFloat.opp (PrimFloat.of_uint63 (Uint63.of_Z (- z)))
  else PrimFloat.of_uint63 (Uint63.of_Z z).

Definition fnum_F (x : fnum) : float := match x with FI z => Z2F z | FR f => f end.

Definition fnum_arith (fz : Z -> Z -> Z) (ff : float -> float -> float) (x y : fnum) : fnum :=
  match x, y with
  | FI a, FI b => FI (fz a b)
  | _, _ => FR (ff (fnum_F x) (fnum_F y))
  end.

(* a floating literal of the source is a double already: BReal carries its exact value; it is
   converted back by one correctly rounded division numerator / denominator (exact here: the
   literals are dyadic with small numerators) *)
Definition Q2F (q : Q) : float := PrimFloat.div (Z2F (Qnum q)) (Z2F (Zpos (Qden q))).

Definition SF2Q (f : spec_float) : option Q :=
  match f with
  | S754_zero _ => Some 0%Q
  | S754_finite s m e =>
      let q := (inject_Z (Zpos m) * Qpower 2 e)%Q in Some (if s then Qopp q else q)
  | _ => None
  end.

Definition F2Q (f : float) : option Q := SF2Q (Prim2SF f).

Definition F2Z (f : float) : Z := match F2Q f with Some q => Qtrunc q | None => 0 end.

Fixpoint feval (E : env) (b : bexpr) : fnum :=
  match b with
  | BInt z => FI z
  | BReal q => FR (Q2F q)
  | BN => FI (e_n E)
  | BDim => FI (e_dim E)
  | BParam k t => match param_num t (e_get E k) with NI z => FI z | NR q => FR (Q2F q) end
  | BTrunc a => match feval E a with FI z => FI z | FR f => FI (F2Z f) end
  | BAdd a c => fnum_arith Z.add PrimFloat.add (feval E a) (feval E c)
  | BSub a c => fnum_arith Z.sub PrimFloat.sub (feval E a) (feval E c)
  | BMul a c => fnum_arith Z.mul PrimFloat.mul (feval E a) (feval E c)
  | BDiv a c => fnum_arith Z.quot PrimFloat.div (feval E a) (feval E c)
  end.

(* q is (the exact value of) a normal binary64 number with a small exponent *)
Definition is_double (q : Q) : bool :=
  let r := Qred q in
  let d := Zpos (Qden r) in
  (2 ^ Z.log2 d =? d) && (Z.abs (Qnum r) <? 2 ^ 53) && (Z.log2 d <? 1000).

Definition env_N (n : Z) : env := {| e_n := n; e_dim := 0; e_get := fun _ => None |}.

Definition float_bound_ok (b : bexpr) (n : Z) : bool :=
  let exact := num_Q (eval_bexpr (env_N n) b) in
  match F2Q (fnum_F (feval (env_N n) b)) with
  | None => false
  | Some f =>
      Qle_bool (Qabs (f - exact) * inject_Z (2 ^ 53)) (Qabs exact) &&
      (if is_double exact then Qeq_bool f exact else true)
  end.

Definition range_1_4096 : list Z := map Z.of_nat (seq 1 4096).

Lemma in_range_1_4096 : forall n, 1 <= n <= 4096 -> In n range_1_4096.
Proof.
  intros n H. unfold range_1_4096. replace n with (Z.of_nat (Z.to_nat n)) by lia.
  apply in_map. apply in_seq. lia.
Qed.

Definition both_ok (n : Z) : bool :=
  float_bound_ok (BDiv (BReal 3) BN) n && float_bound_ok (BDiv (BSub BN (BInt 1)) (BReal 3)) n.

Lemma all_ok_4096 : forallb both_ok range_1_4096 = true.
Proof. vm_compute. reflexivity. Qed.

Lemma float_bounds_ok_4096 : forall n, 1 <= n <= 4096 ->
  float_bound_ok (BDiv (BReal 3) BN) n = true /\
  float_bound_ok (BDiv (BSub BN (BInt 1)) (BReal 3)) n = true.
Proof.
  intros n H. pose proof all_ok_4096 as A. rewrite forallb_forall in A.
  specialize (A n (in_range_1_4096 n H)). unfold both_ok in A.
  now apply andb_true_iff in A.
Qed.

(* ------------------------------------------------------------------ int(N * landmark_ratio)
   static_cast<IndexType>(n_vectors * static_cast<ScalarType>(parameters[landmark_ratio])): the product
   is rounded to binary64 before it is truncated.  For the ratios the harness generates (multiples of
   1/64, N <= 64) the product is exact, so the binary64 count equals the exact count of the model. *)
Definition landmarks_expr : bexpr := BTrunc (BMul BN (BParam 12%nat TScalar)).

Definition env_ratio (n : Z) (q : Q) : env :=
  {| e_n := n; e_dim := 0; e_get := fun k => if Nat.eqb k 12 then Some (VScalar q) else None |}.

Definition landmarks_ok (n k : Z) : bool :=
  let E := env_ratio n (k # 64) in
  match feval E landmarks_expr, eval_bexpr E landmarks_expr with
  | FI a, NI b => a =? b
  | _, _ => false
  end.

Definition range_0_64 : list Z := map Z.of_nat (seq 0 65).

Lemma in_range_0_64 : forall n, 0 <= n <= 64 -> In n range_0_64.
Proof.
  intros n H. unfold range_0_64. replace n with (Z.of_nat (Z.to_nat n)) by lia.
  apply in_map. apply in_seq. lia.
Qed.

Lemma all_landmarks_ok : forallb (fun n => forallb (landmarks_ok n) range_0_64) range_0_64 = true.
Proof. vm_compute. reflexivity. Qed.

Lemma landmarks_ok_64 : forall n k, 0 <= n <= 64 -> 0 <= k <= 64 -> landmarks_ok n k = true.
Proof.
  intros n k Hn Hk. pose proof all_landmarks_ok as A. rewrite forallb_forall in A.
  specialize (A n (in_range_0_64 n Hn)). rewrite forallb_forall in A.
  exact (A k (in_range_0_64 k Hk)).
Qed.
