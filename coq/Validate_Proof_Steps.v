(* Validate_Proof_Steps.v — property C14, parts C and D of the proof.

   C. typed maps: after checkTypes + merge every default keyword holds a value of its default type,
      and the merged map is `effective r` (explicit value, else the documented default)
   D. method bodies: running validate() ++ embed() of a well-formed generated method on a typed map
      gives exactly the documented exception of the FIRST violated clause of its summary, no
      kernel/distance evaluation precedes a throw, and nothing throws after the first evaluation. *)

From Coq Require Import ZArith QArith Qround List Bool Arith Lia.
Import ListNotations.
From TK Require Import Validate_Model Validate_Spec Validate_Proof.
Local Open Scope nat_scope.

(* ================================================================== C. typed maps *)
Definition typed (pm : pmap) : Prop :=
  forall k dv, pm_lookup k doc_defaults = Some dv ->
    exists v, pm_lookup k pm = Some v /\ type_of v = type_of dv.

Definition agrees (r : request) (pm : pmap) : Prop := forall k, pm_lookup k pm = effective r k.

(* every supplied value of a keyword that has a default has the type of that default *)
Definition well_typed (r : request) : Prop :=
  existsb (wrong_type_vs doc_defaults) (rq_kws r) = false.

Lemma merged_agrees : forall r, agrees r (pm_merge (rq_kws r) doc_defaults).
Proof. intros r k. rewrite pm_merge_lookup. unfold effective, explicit. reflexivity. Qed.

Lemma merged_typed : forall kws,
  existsb (wrong_type_vs doc_defaults) kws = false -> typed (pm_merge kws doc_defaults).
Proof.
  intros kws H k dv Hd. rewrite pm_merge_lookup.
  destruct (pm_lookup k kws) as [v|] eqn:L.
  - exists v. split; auto.
    apply pm_lookup_In in L.
    assert (W : wrong_type_vs doc_defaults (k, v) = false).
    { destruct (wrong_type_vs doc_defaults (k, v)) eqn:E; auto.
      assert (X : existsb (wrong_type_vs doc_defaults) kws = true).
      { apply existsb_exists. exists (k, v). split; auto. }
      congruence. }
    unfold wrong_type_vs in W. cbn [fst snd] in W. rewrite Hd in W.
    apply negb_false_iff in W. now apply vtype_eqb_eq in W.
  - exists dv. split; auto.
Qed.

(* ================================================================== D. method bodies *)
Definition clauses (steps : list step) : list clause := flat_map clause_of_step steps.
Definition prep (steps : list step) : list step := cut_after_eval (filter no_conv steps).

Lemma prep_conv : forall gs k t rest, prep ((gs, BConv k t) :: rest) = prep rest.
Proof. reflexivity. Qed.

Lemma prep_check : forall gs c rest, prep ((gs, BCheck c) :: rest) = (gs, BCheck c) :: prep rest.
Proof. intros. destruct gs; reflexivity. Qed.

Lemma prep_eval : forall gs cb rest,
  prep ((gs, BEval cb) :: rest) =
  match gs with
  | [] => if is_kd_cb cb then [(gs, BEval cb)] else (gs, BEval cb) :: prep rest
  | _ :: _ => (gs, BEval cb) :: prep rest
  end.
Proof. intros. destruct gs; reflexivity. Qed.

Lemma clauses_cons : forall s l, clauses (s :: l) = clause_of_step s ++ clauses l.
Proof. reflexivity. Qed.

Lemma cb_eqb_eq : forall a b, cb_eqb a b = true -> a = b.
Proof. destruct a, b; cbn; congruence. Qed.

Lemma numeric_value : forall v t, type_of v = t -> numeric t = true -> exists x, value_Q v = Some x.
Proof. intros v t E N. destruct v; cbn in E; subst; cbn in N; try discriminate; cbn; eauto. Qed.

Lemma not_kd_event : forall cb, is_kd_cb cb = false -> is_kd (EvCall cb) = false.
Proof. destruct cb; cbn; congruence. Qed.

Lemma eval_ext : forall E1 E2,
  e_n E1 = e_n E2 -> e_dim E1 = e_dim E2 -> (forall k, e_get E1 k = e_get E2 k) ->
  forall b, eval_bexpr E1 b = eval_bexpr E2 b.
Proof.
  intros E1 E2 Hn Hd Hg. induction b; cbn [eval_bexpr];
    rewrite ?IHb, ?IHb1, ?IHb2, ?Hn, ?Hd, ?Hg; reflexivity.
Qed.

Lemma pred_holds_ext : forall E1 E2,
  e_n E1 = e_n E2 -> e_dim E1 = e_dim E2 -> (forall k, e_get E1 k = e_get E2 k) ->
  forall ty p x, pred_holds E1 ty p x = pred_holds E2 ty p x.
Proof.
  intros E1 E2 Hn Hd Hg ty p x. unfold pred_holds, lo_holds, hi_holds.
  destruct p as [[[s1 b1]|] [[s2 b2]|]]; cbn [p_lo p_hi];
    rewrite ?(eval_ext E1 E2 Hn Hd Hg); reflexivity.
Qed.

Lemma guard_on_ext : forall f1 f2 g, (forall k, f1 k = f2 k) -> guard_on f1 g = guard_on f2 g.
Proof. intros f1 f2 g H. destruct g; cbn [guard_on]; now rewrite H. Qed.

Section Steps.
  Variable T : tables.
  Variable r : request.
  Variable pm : pmap.
  Hypothesis Hrt : t_rethrow T = doc_rethrow.
  Hypothesis Hty : typed pm.
  Hypothesis Hag : agrees r pm.

  Lemma tr_value : translate T SwWrongValue = WrongValue.
  Proof. unfold translate. rewrite Hrt. reflexivity. Qed.
  Lemma tr_type : translate T SwWrongType = WrongType.
  Proof. unfold translate. rewrite Hrt. reflexivity. Qed.
  Lemma tr_multiple : translate T SwMultiple = Multiple.
  Proof. unfold translate. rewrite Hrt. reflexivity. Qed.
  Lemma tr_missed : translate T SwMissed = Missed.
  Proof. unfold translate. rewrite Hrt. reflexivity. Qed.

  Lemma guard_bridge : forall g, guard_holds pm g = spec_guard r g.
  Proof. intros g. unfold guard_holds, spec_guard. apply guard_on_ext. exact Hag. Qed.

  Lemma guards_bridge : forall gs, forallb (guard_holds pm) gs = forallb (spec_guard r) gs.
  Proof. induction gs as [|g gs IH]; cbn [forallb]; auto. now rewrite guard_bridge, IH. Qed.

  Lemma conv_ok : forall k t, conv_safe k t = true -> do_conv pm k t = None.
  Proof.
    intros k t H. unfold conv_safe in H.
    destruct (pm_lookup k doc_defaults) as [dv|] eqn:D; [|discriminate].
    destruct (Hty k dv D) as [v [L E]]. unfold do_conv. rewrite L, E, H. reflexivity.
  Qed.

  Lemma check_ok : forall c, conv_safe (c_kw c) (c_ty c) = true -> numeric (c_ty c) = true ->
    do_check pm (mk_env r pm) c = if out_of_range r c then Some SwWrongValue else None.
  Proof.
    intros c H N. unfold conv_safe in H.
    destruct (pm_lookup (c_kw c) doc_defaults) as [dv|] eqn:D; [|discriminate].
    destruct (Hty _ dv D) as [v [L E]].
    unfold do_check, out_of_range. rewrite <- Hag, L, E, H.
    apply vtype_eqb_eq in H.
    destruct (numeric_value v (c_ty c)) as [x X]; [congruence | auto |].
    rewrite X. rewrite (pred_holds_ext (mk_env r pm) (spec_env r)); auto.
    destruct (pred_holds (spec_env r) (c_ty c) (c_pred c) x); reflexivity.
  Qed.

  Lemma violated_uses : forall gs cb,
    violated r (CUses gs cb) = forallb (spec_guard r) gs && negb (has_cb r cb).
  Proof. reflexivity. Qed.

  Lemma violated_range : forall gs c,
    violated r (CRange gs c) = forallb (spec_guard r) gs && out_of_range r c.
  Proof. reflexivity. Qed.

  (* after the first kernel/distance evaluation: nothing throws, no clause is violated *)
  Lemma exec_late : forall steps sure,
    (forall cb, sure cb = true -> has_cb r cb = true) ->
    forallb step_typed steps = true ->
    late_safe sure true steps = true ->
    snd (exec_steps T r pm steps) = None /\ find (violated r) (clauses (prep steps)) = None.
  Proof.
    induction steps as [|[gs b] rest IH]; intros sure Hs Ht Hl.
    - split; reflexivity.
    - cbn [forallb] in Ht. apply andb_true_iff in Ht as [Ht1 Ht].
      unfold step_typed in Ht1. cbn [fst snd] in Ht1. apply andb_true_iff in Ht1 as [_ Ht1].
      destruct b as [k t | c | cb].
      + cbn [late_safe] in Hl. destruct (IH sure Hs Ht Hl) as [I1 I2]. split.
        * cbn [exec_steps]. destruct (forallb (guard_holds pm) gs); auto.
          rewrite conv_ok; auto.
        * now rewrite prep_conv.
      + cbn [late_safe negb andb] in Hl. discriminate.
      + cbn [late_safe negb orb] in Hl. apply andb_true_iff in Hl as [Hc Hl].
        pose proof (Hs cb Hc) as Hcb.
        assert (Hs' : forall c, (match gs with
                                 | [] => fun c0 => cb_eqb c0 cb || sure c0
                                 | _ :: _ => sure
                                 end) c = true -> has_cb r c = true).
        { intros c0 H0. destruct gs.
          - apply orb_true_iff in H0 as [H0|H0]; auto. apply cb_eqb_eq in H0. now subst.
          - auto. }
        destruct (IH _ Hs' Ht Hl) as [I1 I2]. split.
        * cbn [exec_steps]. destruct (forallb (guard_holds pm) gs); auto.
          rewrite Hcb. destruct (exec_steps T r pm rest) as [tr res]. cbn in *. auto.
        * rewrite prep_eval.
          assert (V : violated r (CUses gs cb) = false).
          { rewrite violated_uses, Hcb. cbn. apply andb_false_r. }
          destruct gs as [|g gs'].
          -- destruct (is_kd_cb cb).
             ++ cbn. cbn in V. rewrite V. reflexivity.
             ++ rewrite clauses_cons. cbn [clause_of_step fst snd app find]. rewrite V. exact I2.
          -- rewrite clauses_cons. cbn [clause_of_step fst snd app find]. rewrite V. exact I2.
  Qed.

  (* up to the first kernel/distance evaluation: the first violated clause decides, and no
     kernel/distance evaluation precedes a throw *)
  Lemma exec_early : forall steps sure,
    (forall cb, sure cb = true -> has_cb r cb = true) ->
    forallb step_typed steps = true ->
    late_safe sure false steps = true ->
    exists tr,
      exec_steps T r pm steps = (tr, option_map exc_of (find (violated r) (clauses (prep steps)))) /\
      (find (violated r) (clauses (prep steps)) <> None -> existsb is_kd tr = false).
  Proof.
    induction steps as [|[gs b] rest IH]; intros sure Hs Ht Hl.
    - exists []. split; [reflexivity | intros; reflexivity].
    - cbn [forallb] in Ht. apply andb_true_iff in Ht as [Ht1 Ht].
      unfold step_typed in Ht1. cbn [fst snd] in Ht1. apply andb_true_iff in Ht1 as [_ Ht1].
      destruct b as [k t | c | cb].
      + (* conversion: cannot fail on a typed map *)
        cbn [late_safe] in Hl. destruct (IH sure Hs Ht Hl) as [tr [I1 I2]].
        exists tr. rewrite prep_conv. split; auto.
        cbn [exec_steps]. destruct (forallb (guard_holds pm) gs); auto.
        rewrite conv_ok; auto.
      + (* range check *)
        cbn [late_safe negb andb] in Hl. destruct (IH sure Hs Ht Hl) as [tr [I1 I2]].
        apply andb_true_iff in Ht1 as [Hcs Hnum].
        rewrite prep_check, clauses_cons. cbn [clause_of_step fst snd app find].
        rewrite violated_range, <- guards_bridge.
        cbn [exec_steps]. destruct (forallb (guard_holds pm) gs) eqn:G.
        * rewrite check_ok by auto. cbn [andb]. destruct (out_of_range r c).
          -- exists []. split; [now rewrite tr_value | reflexivity].
          -- exists tr. split; auto.
        * cbn [andb]. exists tr. split; auto.
      + (* a statement that calls a callback *)
        cbn [late_safe negb orb andb] in Hl.
        assert (Hs' : forall c, (match gs with
                                 | [] => fun c0 => cb_eqb c0 cb || sure c0
                                 | _ :: _ => sure
                                 end) c = true -> has_cb r c = true \/ (c = cb /\ gs = [])).
        { intros c0 H0. destruct gs.
          - apply orb_true_iff in H0 as [H0|H0]; auto. apply cb_eqb_eq in H0. now right.
          - auto. }
        rewrite prep_eval. cbn [exec_steps].
        assert (VU : violated r (CUses gs cb) = forallb (guard_holds pm) gs && negb (has_cb r cb)).
        { now rewrite violated_uses, guards_bridge. }
        destruct (forallb (guard_holds pm) gs) eqn:G.
        * (* the statement is executed *)
          destruct (has_cb r cb) eqn:Hcb.
          -- (* real callback: evaluation happens *)
             cbn [andb negb] in VU.
             assert (Hs2 : forall c, (match gs with
                                      | [] => fun c0 => cb_eqb c0 cb || sure c0
                                      | _ :: _ => sure
                                      end) c = true -> has_cb r c = true).
             { intros c0 H0. destruct (Hs' c0 H0) as [|[-> _]]; auto. }
             destruct (is_kd_cb cb) eqn:K.
             ++ (* kernel / distance: from here on nothing throws *)
                cbn [orb] in Hl. destruct (exec_late rest _ Hs2 Ht Hl) as [L1 L2].
                destruct (exec_steps T r pm rest) as [tr res]. cbn in L1. subst res.
                exists (EvCall cb :: tr). destruct gs as [|g gs'].
                ** cbn. cbn in VU. rewrite VU. split; [reflexivity | congruence].
                ** rewrite clauses_cons. cbn [clause_of_step fst snd app find]. rewrite VU, L2.
                   split; [reflexivity | congruence].
             ++ (* features *)
                cbn [orb] in Hl. destruct (IH _ Hs2 Ht Hl) as [tr [I1 I2]].
                exists (EvCall cb :: tr).
                assert (NK : existsb is_kd (EvCall cb :: tr) = existsb is_kd tr).
                { cbn [existsb]. now rewrite (not_kd_event cb K). }
                destruct gs as [|g gs']; rewrite clauses_cons; cbn [clause_of_step fst snd app find];
                  rewrite VU, I1, NK; (split; [reflexivity | exact I2]).
          -- (* dummy callback: it throws unsupported_method_error when called *)
             cbn [andb negb] in VU. exists []. split; [|reflexivity].
             destruct gs as [|g gs'].
             ++ destruct (is_kd_cb cb); cbn; cbn in VU; rewrite VU; reflexivity.
             ++ rewrite clauses_cons. cbn [clause_of_step fst snd app find]. rewrite VU. reflexivity.
        * (* guard false: skipped (gs is not empty) *)
          cbn [andb] in VU. destruct gs as [|g gs']; [cbn in G; discriminate|].
          rewrite clauses_cons. cbn [clause_of_step fst snd app find]. rewrite VU.
          destruct (is_kd_cb cb) eqn:K; cbn [orb] in Hl.
          -- destruct (exec_late rest _ Hs Ht Hl) as [L1 L2].
             destruct (exec_steps T r pm rest) as [tr res]. cbn in L1. subst res.
             exists tr. rewrite L2. split; [reflexivity | congruence].
          -- destruct (IH _ Hs Ht Hl) as [tr [I1 I2]]. exists tr. split; auto.
  Qed.
End Steps.

(* ------------------------------------------------------------------ list facts about the summary *)
Lemma find_app_first : forall (A : Type) (p : A -> bool) l1 l2,
  find p (l1 ++ l2) = match find p l1 with Some x => Some x | None => find p l2 end.
Proof. induction l1 as [|a l1 IH]; intros; cbn; auto. destruct (p a); auto. Qed.

Lemma clauses_app : forall a b, clauses (a ++ b) = clauses a ++ clauses b.
Proof. intros. unfold clauses. apply flat_map_app. Qed.

Lemma cut_app_no_eval : forall a b, forallb no_eval a = true ->
  cut_after_eval (a ++ b) = a ++ cut_after_eval b.
Proof.
  induction a as [|[gs s] a IH]; intros b H; auto.
  cbn [forallb] in H. apply andb_true_iff in H as [H1 H2].
  cbn [app cut_after_eval]. rewrite IH by auto.
  destruct s; cbn in H1; try discriminate; destruct gs; reflexivity.
Qed.

Lemma filter_no_eval : forall a, forallb no_eval a = true -> forallb no_eval (filter no_conv a) = true.
Proof.
  induction a as [|s a IH]; intros H; auto.
  cbn [forallb] in H. apply andb_true_iff in H as [H1 H2].
  cbn [filter]. destruct (no_conv s); cbn [forallb]; auto. now rewrite H1, IH.
Qed.

Lemma prep_app : forall v e, forallb no_eval v = true -> prep (v ++ e) = filter no_conv v ++ prep e.
Proof.
  intros v e H. unfold prep. rewrite filter_app. apply cut_app_no_eval. now apply filter_no_eval.
Qed.

(* several statements in a row that call the same callback are one clause *)
Lemma find_collapse : forall p l, find p (clauses (collapse l)) = find p (clauses l).
Proof.
  intros p l. induction l as [|s rest IH]; auto.
  destruct s as [gs b]. destruct rest as [|[gs2 b2] rest'].
  - destruct gs; destruct b; reflexivity.
  - assert (D : collapse ((gs, b) :: (gs2, b2) :: rest') = (gs, b) :: collapse ((gs2, b2) :: rest') \/
               (exists a, gs = [] /\ b = BEval a /\ gs2 = [] /\ b2 = BEval a /\
                  collapse ((gs, b) :: (gs2, b2) :: rest') = collapse ((gs2, b2) :: rest'))).
    { destruct gs; [|left; reflexivity]. destruct b; try (left; reflexivity).
      destruct gs2; [|left; reflexivity]. destruct b2; try (left; reflexivity).
      cbn [collapse]. destruct (cb_eqb cb cb0) eqn:E.
      - right. apply cb_eqb_eq in E. subst. exists cb0. repeat split; reflexivity.
      - left. reflexivity. }
    destruct D as [D | [a [-> [-> [-> [-> D]]]]]].
    + assert (G : forall X Y, X = (gs, b) :: Y ->
                find p (clauses Y) = find p (clauses ((gs2, b2) :: rest')) ->
                find p (clauses X) = find p (clauses ((gs, b) :: (gs2, b2) :: rest'))).
      { intros X Y -> HY. rewrite !clauses_cons with (s := (gs, b)). rewrite !find_app_first.
        now rewrite HY. }
      exact (G _ _ D IH).
    + assert (G : forall X Y, X = Y ->
                find p (clauses Y) = find p (clauses (([], BEval a) :: rest')) ->
                find p (clauses X) = find p (clauses (([], BEval a) :: ([], BEval a) :: rest'))).
      { intros X Y -> HY. rewrite HY. rewrite !clauses_cons. cbn [clause_of_step fst snd app find].
        destruct (p (CUses [] a)); reflexivity. }
      exact (G _ _ D IH).
Qed.

(* the clauses of a summarised method = the clauses of prep (validate ++ embed) *)
Lemma method_clauses_find : forall p (m : method_info),
  forallb no_eval (m_validate m) = true ->
  find p (clauses (m_validate (summarise_method m) ++ m_embed (summarise_method m))) =
  find p (clauses (prep (m_validate m ++ m_embed m))).
Proof.
  intros p m H. cbn [summarise_method m_validate m_embed]. unfold summarise_steps.
  rewrite prep_app by auto. rewrite !clauses_app, !find_app_first.
  fold (prep (m_embed m)). now rewrite find_collapse.
Qed.
