(* ====================================================================== *)
(*  Mds_Model.v — executable model of the MDS / Kernel PCA pipeline (C05)  *)
(*  mirrors, step by step,                                                 *)
(*    routines/multidimensional_scaling.hpp  compute_distance_matrix       *)
(*    utils/matrix.hpp                       centerMatrix                  *)
(*    routines/pca.hpp                       compute_centered_kernel_matrix*)
(*    methods/multidimensional_scaling.hpp   embed()                       *)
(*    methods/kernel_pca.hpp                 embed()                       *)
(*    routines/eigendecomposition.hpp        selection (via gen/EigSelect) *)
(*  Algebra regime: abstract field operations (FieldOps), run at Qc.       *)
(*  The eigen-solver and sqrt are ORACLES: their answers are inputs.       *)
(*  NO proofs in this file.                                                *)
(* ====================================================================== *)
Require Import Arith List Bool.
From TK Require Import Mat_Sums Mat_Core Mat_EigSelect.
Import ListNotations.

Section MdsModel.
  Context {F : Type} {Fo : FieldOps F}.
  Local Open Scope F_scope.

  (* `distance_matrix.array() *= -0.5` *)
  Definition neg_half : F := - (1 / two).

  (* compute_distance_matrix:
       for i in 0..n-1, for j in i..n-1:
         d = callback.distance(begin[i], begin[j]); d *= d;
         M(i,j) = d; M(j,i) = d;
     The callback is only ever asked for i <= j; `dist` is the table of its answers. *)
  Definition dist_sq_matrix (dist : mat F) : mat F :=
    fun i j => if Nat.leb i j then dist i j * dist i j else dist j i * dist j i.

  (* compute_centered_kernel_matrix, before centring:
       for i, for j in i..n-1: k = callback.kernel(i, j); M(i,j) = k; M(j,i) = k *)
  Definition kernel_matrix (kern : mat F) : mat F :=
    fun i j => if Nat.leb i j then kern i j else kern j i.

  (* centerMatrix on the list representation, with the means computed once
     (as the C++ does): col_means, grand_mean, then the three in-place passes *)
  Definition center_exec (n : nat) (L : list (list F)) : list (list F) :=
    let M := mof L in
    let cm := vtab n (colmean n M) in
    let g := grandmean n n M in
    mtab n n (fun i j => M i j + g - vof cm j - vof cm i).

  (* the matrix methods/multidimensional_scaling.hpp hands to eigendecomposition_via *)
  Definition mds_matrix (n : nat) (dist : mat F) : mat F :=
    fun i j => center_matrix n (dist_sq_matrix dist) i j * neg_half.

  Definition mds_matrix_exec (n : nat) (Ldist : list (list F)) : list (list F) :=
    let D2 := mtab n n (dist_sq_matrix (mof Ldist)) in
    let C := center_exec n D2 in
    mtab n n (fun i j => mof C i j * neg_half).

  (* the matrix methods/kernel_pca.hpp hands to eigendecomposition_via *)
  Definition kpca_matrix (n : nat) (kern : mat F) : mat F :=
    center_matrix n (kernel_matrix kern).

  Definition kpca_matrix_exec (n : nat) (Lk : list (list F)) : list (list F) :=
    center_exec n (mtab n n (kernel_matrix (mof Lk))).

  (* ---- selection + post-processing --------------------------------------
     The solver front-end returns (selected eigenvectors, selected eigenvalues);
     which columns / entries is decided by the generated table (gen/EigSelect.v)
     through Mat_EigSelect.eval_ops.  Result: None = a selector left its object. *)
  Definition select_cols (n : nat) (V : mat F) (v : view) : mat F :=
    fun i c => V i (fst v + c)%nat.
  Definition select_vals (lam : vec F) (v : view) : vec F :=
    fun c => lam (fst v + c)%nat.

  (* embed(): for i < target_dimension: embedding.first.col(i) *= sqrt(embedding.second(i))
     `s c` is the sqrt oracle's answer for the c-th selected eigenvalue *)
  Definition scale_cols (Vs : mat F) (s : vec F) : mat F := fun i c => Vs i c * s c.

  (* full post-processing for one branch of the table, on lists.
     n = size of the object the branch slices (N for the dense solver).
     V, lam : the solver's full answer; sall : the sqrt oracle's answer for EVERY entry of lam
     (same indexing), so that `sqrt(embedding.second(i))` is `sall (offset of the VALUE view + i)`
     -- the value view, not the column view: a tree that slices vectors and values differently
     is modelled as it is. *)
  Definition embed_exec (b : branch) (N d skip : nat)
             (V : list (list F)) (lam sall : list F) : option (list (list F)) :=
    let n := base_eval N d skip (b_base b) in
    match eval_ops d skip n (b_cols b), eval_ops d skip n (b_vals b) with
    | Some vc, Some vv =>
        if Nat.leb d (snd vc) && Nat.leb d (snd vv) then
          Some (mtab N d (scale_cols (select_cols n (mof V) vc) (select_vals (vof sall) vv)))
        else None
    | _, _ => None
    end.

  (* the eigenvalues the method reads as embedding.second(0..d-1) *)
  Definition embed_vals_exec (b : branch) (N d skip : nat) (lam : list F) : option (list F) :=
    let n := base_eval N d skip (b_base b) in
    match eval_ops d skip n (b_vals b) with
    | Some vv => if Nat.leb d (snd vv) then Some (vtab d (select_vals (vof lam) vv)) else None
    | None => None
    end.

  (* ---- what the solver front-ends SEE of the matrix they are handed (DESIGN 1.4) ----
     eigendecomposition_impl_dense:  dense_wm += dense_wm.transpose().eval(); dense_wm /= 2.0;
       SelfAdjointEigenSolver then reads the lower triangle of that (symmetric) matrix.
     eigendecomposition_impl_randomized with DenseMatrixOperation:
       _matrix.selfadjointView<Eigen::Upper>() * rhs  -- the upper triangle, mirrored. *)
  Definition seen_dense (M : mat F) : mat F := read_lower (sym_avg M).
  Definition seen_randomized (M : mat F) : mat F := read_upper M.

  (* ---- Isomap (methods/isomap.hpp embed(), after the geodesics G are computed) ----
       S = G.array().square();  S = (S + S^T).eval() / 2.0;  centerMatrix(S);  S *= -0.5 *)
  Definition geo_sq (G : mat F) : mat F := fun i j => G i j * G i j.
  Definition isomap_matrix (n : nat) (G : mat F) : mat F :=
    fun i j => center_matrix n (sym_avg (geo_sq G)) i j * neg_half.
  Definition isomap_matrix_exec (n : nat) (LG : list (list F)) : list (list F) :=
    let S := mtab n n (sym_avg (geo_sq (mof LG))) in
    let C := center_exec n S in
    mtab n n (fun i j => mof C i j * neg_half).

End MdsModel.
