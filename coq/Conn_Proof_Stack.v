(* Conn_Proof_Stack.v — the stack-depth obligation of connected.hpp.

   dfs_loop_hw (Conn_Model.v) is dfs_loop with a high-water mark of the explicit stack.
     * erasure: its first component IS dfs_loop (so every theorem about the decision is
       about the instrumented search too);
     * bound: the explicit stack never holds more than total_len adj + 1 entries, for ANY
       lists (no well-formedness needed: the bound also covers runs that end in COOB/CFuel);
       both searches of is_connected_fixed: total_len nb + 1 (the reversed lists have one
       entry per edge of the first N lists);
     * for N lists of k entries that is N*k + 1 <= N*(k+1) + 1, the fuel of DESIGN.md.
   What this says about the C++: the only memory that grows with the input besides
   `visited` is the heap-allocated std::stack; nothing here needs call-stack depth.  That
   connected.hpp really is written that way (no function calling itself) is NOT proved: it
   is tied by the deep-chain run and the source scan of checks/c03.py. *)
From Coq Require Import List Arith Bool Lia.
From TK Require Import Conn_Model Conn_Spec Conn_Proof_Graph Conn_Proof_Dfs.
Import ListNotations.

(* ------------------------------------------------------------ erasure *)
Lemma dfs_loop_hw_erase : forall sel N adj fuel stack visited nv hw,
  fst (dfs_loop_hw sel N adj fuel stack visited nv hw) = dfs_loop sel N adj fuel stack visited nv.
Proof.
  intros sel N adj. induction fuel as [|fuel IH]; intros stack visited nv hw; [reflexivity|].
  cbn [dfs_loop_hw dfs_loop].
  destruct stack as [|c st]; [reflexivity|].
  destruct (nth_error visited c) as [[|]|]; [apply IH| |reflexivity].
  destruct (S nv =? N); [reflexivity|].
  destruct (nth_error adj c) as [row|]; [|reflexivity].
  destruct (sel row) as [cands|s i z|]; [|reflexivity|reflexivity].
  destruct (push_unvisited (set_nth visited c true) cands st) as [st'|s i z|]; [apply IH|reflexivity|reflexivity].
Qed.

Lemma all_reachable_from_first_hw_erase : forall N adj,
  fst (all_reachable_from_first_hw N adj) = all_reachable_from_first N adj.
Proof. intros. apply dfs_loop_hw_erase. Qed.

Lemma is_connected_fixed_hw_erase : forall N nb,
  fst (is_connected_fixed_hw N nb) = is_connected_fixed N nb.
Proof.
  intros N nb. unfold is_connected_fixed_hw, is_connected_fixed.
  rewrite <- (all_reachable_from_first_hw_erase N nb).
  destruct (all_reachable_from_first_hw N nb) as [r h1]. cbn [fst].
  destruct r as [[|]|s i z|]; try reflexivity.
  destruct (reverse_lists N nb) as [rev|s i z|]; try reflexivity.
  rewrite <- (all_reachable_from_first_hw_erase N rev).
  destruct (all_reachable_from_first_hw N rev) as [r2 h2]. reflexivity.
Qed.

(* ------------------------------------------------------------ the bound *)
Lemma push_unvisited_length : forall visited cands stack st,
  push_unvisited visited cands stack = COk st -> length st <= length stack + length cands.
Proof.
  intros visited cands. induction cands as [|c cs IH]; intros stack st H; cbn in H.
  - inversion H; subst. cbn. lia.
  - destruct (nth_error visited c) as [[|]|]; [| |discriminate].
    + apply IH in H. cbn [length]. lia.
    + apply IH in H. cbn [length] in *. lia.
Qed.

Definition sel_short (sel : list nat -> cres (list nat)) : Prop :=
  forall row cands, sel row = COk cands -> length cands <= length row.

Lemma sel_all_short : sel_short sel_all.
Proof. intros row cands H. inversion H; subst. lia. Qed.

Lemma sel_first_k_short : forall k, sel_short (sel_first_k k).
Proof.
  intros k row cands H. unfold sel_first_k in H. destruct (length row <? k); [discriminate|].
  inversion H; subst. rewrite firstn_length. lia.
Qed.

(* the potential argument of the fuel bound, read as a bound on the stack: what is on the
   stack plus the lists of the samples not yet visited never grows *)
Lemma dfs_loop_hw_bound : forall sel N adj, sel_short sel ->
  forall fuel stack visited nv hw B,
  hw <= B -> length stack + pot visited adj <= B ->
  snd (dfs_loop_hw sel N adj fuel stack visited nv hw) <= B.
Proof.
  intros sel N adj Hsel. induction fuel as [|fuel IH]; intros stack visited nv hw B Hhw Hpot; [exact Hhw|].
  cbn [dfs_loop_hw].
  assert (Hhw1 : Nat.max hw (length stack) <= B) by lia.
  destruct stack as [|c st]; [exact Hhw1|].
  destruct (nth_error visited c) as [[|]|] eqn:Ev; [|  |exact Hhw1].
  - apply IH; [exact Hhw1|]. cbn [length] in Hpot. lia.
  - destruct (S nv =? N); [exact Hhw1|].
    destruct (nth_error adj c) as [row|] eqn:Er; [|exact Hhw1].
    destruct (sel row) as [cands|s i z|] eqn:Es; [|exact Hhw1|exact Hhw1].
    destruct (push_unvisited (set_nth visited c true) cands st) as [st'|s i z|] eqn:Ep;
      [|exact Hhw1|exact Hhw1].
    apply IH; [exact Hhw1|].
    pose proof (push_unvisited_length _ _ _ _ Ep) as Hl.
    pose proof (Hsel _ _ Es) as Hc.
    pose proof (pot_set visited adj c row Ev Er) as Hp.
    cbn [length] in Hpot. lia.
Qed.

Lemma all_reachable_from_first_hw_bound : forall N adj,
  snd (all_reachable_from_first_hw N adj) <= total_len adj + 1.
Proof.
  intros N adj. unfold all_reachable_from_first_hw.
  apply dfs_loop_hw_bound; [exact sel_all_short|lia|].
  pose proof (pot_le_total (repeat false N) adj). cbn [length]. lia.
Qed.

(* ------------------------------------------------------------ the reversed lists have one entry per edge read *)
Lemma total_len_set_nth_app : forall (g : graph) j r x,
  nth_error g j = Some r -> total_len (set_nth g j (r ++ [x])) = S (total_len g).
Proof.
  induction g as [|h t IH]; intros j r x H; destruct j; cbn in H; try discriminate.
  - inversion H; subst. cbn [set_nth]. unfold total_len. cbn [fold_right]. rewrite app_length. cbn. lia.
  - cbn [set_nth]. change (total_len (h :: set_nth t j (r ++ [x]))) with (length h + total_len (set_nth t j (r ++ [x]))).
    rewrite (IH j r x H). change (total_len (h :: t)) with (length h + total_len t). lia.
Qed.

Lemma add_rev_edges_total : forall i row rev rev',
  add_rev_edges i row rev = COk rev' -> total_len rev' = total_len rev + length row.
Proof.
  intros i row. induction row as [|j t IH]; intros rev rev' H; cbn in H.
  - inversion H; subst. cbn. lia.
  - destruct (nth_error rev j) as [r|] eqn:Er; [|discriminate].
    apply IH in H. rewrite H. rewrite (total_len_set_nth_app rev j r i Er). cbn [length]. lia.
Qed.

Lemma total_len_skipn_step : forall (g : graph) i row,
  nth_error g i = Some row -> total_len (skipn i g) = length row + total_len (skipn (S i) g).
Proof.
  induction g as [|h t IH]; intros i row H; destruct i; cbn in H; try discriminate.
  - inversion H; subst. reflexivity.
  - cbn [skipn]. apply IH. exact H.
Qed.

Lemma total_len_skipn_le : forall (g : graph) i, total_len (skipn i g) <= total_len g.
Proof.
  induction g as [|h t IH]; intros i; destruct i; cbn [skipn]; try lia.
  change (total_len (h :: t)) with (length h + total_len t). specialize (IH i). lia.
Qed.

Lemma rev_loop_total : forall nb cnt i rev rev',
  rev_loop nb cnt i rev = COk rev' -> total_len rev' + total_len (skipn (i + cnt) nb) = total_len rev + total_len (skipn i nb).
Proof.
  intros nb. induction cnt as [|cnt IH]; intros i rev rev' H; cbn in H.
  - inversion H; subst. rewrite Nat.add_0_r. reflexivity.
  - destruct (nth_error nb i) as [row|] eqn:Er; [|discriminate].
    destruct (add_rev_edges i row rev) as [rev1|s a z|] eqn:Ea; [|discriminate|discriminate].
    apply IH in H. apply add_rev_edges_total in Ea.
    rewrite (total_len_skipn_step nb i row Er).
    replace (i + S cnt) with (S i + cnt) by lia. lia.
Qed.

Lemma total_len_repeat_nil : forall n, total_len (repeat (@nil nat) n) = 0.
Proof. induction n; cbn; auto. Qed.

Lemma reverse_lists_total_le : forall N nb rev,
  reverse_lists N nb = COk rev -> total_len rev <= total_len nb.
Proof.
  intros N nb rev H. unfold reverse_lists in H. apply rev_loop_total in H.
  rewrite total_len_repeat_nil in H. cbn [skipn] in H. lia.
Qed.

Lemma reverse_lists_total : forall N nb rev, length nb = N ->
  reverse_lists N nb = COk rev -> total_len rev = total_len nb.
Proof.
  intros N nb rev Hl H. unfold reverse_lists in H. apply rev_loop_total in H.
  rewrite total_len_repeat_nil in H. cbn [skipn plus] in H.
  rewrite skipn_all2 in H by lia. cbn in H. lia.
Qed.

(* ------------------------------------------------------------ both searches of is_connected *)
Lemma main_stack_bounded : forall N nb,
  fst (is_connected_fixed_hw N nb) = is_connected_fixed N nb /\
  snd (is_connected_fixed_hw N nb) <= total_len nb + 1.
Proof.
  intros N nb. split; [apply is_connected_fixed_hw_erase|].
  unfold is_connected_fixed_hw.
  pose proof (all_reachable_from_first_hw_bound N nb) as H1.
  destruct (all_reachable_from_first_hw N nb) as [r h1]. cbn [snd] in H1.
  destruct r as [[|]|s i z|]; cbn [snd]; try exact H1.
  destruct (reverse_lists N nb) as [rev|s i z|] eqn:Er; cbn [snd]; try exact H1.
  pose proof (all_reachable_from_first_hw_bound N rev) as H2.
  pose proof (reverse_lists_total_le N nb rev Er) as Hle.
  destruct (all_reachable_from_first_hw N rev) as [r2 h2]. cbn [snd] in *. lia.
Qed.

(* N lists of k entries: the bound of DESIGN.md *)
Lemma main_stack_bounded_uniform : forall N k nb,
  wf_graph N nb -> (forall row, In row nb -> length row = k) ->
  snd (is_connected_fixed_hw N nb) <= N * k + 1 /\ N * k + 1 <= N * (k + 1) + 1.
Proof.
  intros N k nb [Hl _] Hu. split; [|nia].
  destruct (main_stack_bounded N nb) as [_ H].
  rewrite (total_len_uniform k nb Hu) in H. rewrite Hl in H. exact H.
Qed.

(* the old code (k from list 0, first k entries of every list): same bound *)
Definition is_connected_hw (N : nat) (nb : graph) : cres bool * nat :=
  match nth_error nb 0 with
  | None => (COOB site_rows 0 (length nb), 0)
  | Some row0 =>
    let k := length row0 in
    dfs_loop_hw (sel_first_k k) N nb (N * (k + 1) + 1) [0] (repeat false N) 0 0
  end.

Lemma main_stack_bounded_old : forall N nb,
  fst (is_connected_hw N nb) = is_connected N nb /\ snd (is_connected_hw N nb) <= total_len nb + 1.
Proof.
  intros N nb. unfold is_connected_hw, is_connected.
  destruct (nth_error nb 0) as [row0|]; [|cbn; split; [reflexivity|lia]].
  cbv zeta. split; [apply dfs_loop_hw_erase|].
  apply dfs_loop_hw_bound; [apply sel_first_k_short|lia|].
  pose proof (pot_le_total (repeat false N) nb). cbn [length]. lia.
Qed.

(* ------------------------------------------------------------ what the explicit stack buys: on the path
   0 -> 1 -> ... -> N-1 (the graph on which a recursive search nests N activations) the explicit stack
   never holds more than k entries.  Executable witnesses (Examples, not the general claim). *)
Definition path_graph (N : nat) : graph :=
  map (fun i => [if S i <? N then S i else i - 1]) (seq 0 N).
Definition chain_graph (N : nat) : graph :=
  map (fun i => [if i =? 0 then 1 else i - 1; if S i <? N then S i else i - 1]) (seq 0 N).

Lemma nv_stack_path :
  is_connected_fixed_hw 64 (path_graph 64) = (COk false, 1) /\
  is_connected_fixed_hw 64 (chain_graph 64) = (COk true, 2) /\
  wf_graph 64 (chain_graph 64) /\ (forall row, In row (chain_graph 64) -> length row = 2).
Proof.
  split; [vm_compute; reflexivity|]. split; [vm_compute; reflexivity|].
  split.
  - apply wf_b_spec. vm_compute. reflexivity.
  - intros row Hr. unfold chain_graph in Hr. apply in_map_iff in Hr. destruct Hr as [i [<- _]]. reflexivity.
Qed.

Lemma nv_stack :
  is_connected_fixed_hw 64 (path_graph 64) = (COk false, 1) /\
  is_connected_fixed_hw 64 (chain_graph 64) = (COk true, 2) /\
  wf_graph 64 (chain_graph 64) /\ (forall row, In row (chain_graph 64) -> length row = 2) /\
  sel_short sel_all.
Proof.
  destruct nv_stack_path as [H1 [H2 [H3 H4]]].
  split; [exact H1|]. split; [exact H2|]. split; [exact H3|]. split; [exact H4|exact sel_all_short].
Qed.
