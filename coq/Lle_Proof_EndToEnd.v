(* ====================================================================== *)
(*  Lle_Proof_EndToEnd.v — C08 in one statement per method (Qc): the       *)
(*  routine model's output T, the oracle contract of the global            *)
(*  eigensolver on the matrix assembled from T, and the selection with     *)
(*  skip = 1 together give                                                 *)
(*    - the assembled matrix is the matrix the property names,             *)
(*    - the returned Y has orthonormal columns that sum to zero,           *)
(*    - no orthonormal centred Y' has a smaller alignment cost.            *)
(*  Pure composition of Lle_Proof_Lle.lle_model_correct /                  *)
(*  Lle_Proof_Ltsa.ltsa_model_matrix / Lle_Proof_Run.hlle_model_correct    *)
(*  with Lle_Proof_KyFan.embedding_optimal.                                *)
(* ====================================================================== *)
Require Import Arith Lia List Bool ZArith QArith Qcanon Permutation.
From TK Require Import Mat_Sums Mat_Core Mat_Qc Lle_Model Lle_Spec Lle_Proof_Triplets Lle_Proof_Lle
                       Lle_Proof_Ltsa Lle_Proof_Embed Lle_Proof_KyFan Lle_Proof_Run.
Import ListNotations.
Close Scope Qc_scope.
Close Scope Q_scope.
Close Scope Z_scope.

(* the oracle contract of the global solver on a matrix M: a full orthonormal decomposition, ascending
   eigenvalues, constant first column (the skipped trivial eigenvector) *)
Definition global_contract (N : nat) (M E : mat Qc) (lam : vec Qc) (c0 : Qc) : Prop :=
  eig_contract N M E lam /\
  meq N N (mmul N E (mtrans E)) mI /\
  (forall i, i < N -> E i 0 = c0) /\ c0 <> 0%F /\
  (forall i j, i <= j -> j < N -> qle (lam i) (lam j)).

Definition optimal_embedding (N d : nat) (M Y : mat Qc) : Prop :=
  orthonormal_cols N d Y /\ centred_cols N d Y /\
  forall Y', orthonormal_cols N d Y' -> centred_cols N d Y' -> qle (cost N d M Y) (cost N d M Y').

Lemma optimal_of_contract N d M E lam c0 :
  global_contract N M E lam c0 -> 1 + d <= N -> optimal_embedding N d M (select_smallest 1 d E).
Proof.
  intros [HC [HE [Hc [Hc0 Hasc]]]] Hd. apply (embedding_optimal N d M E lam c0); assumption.
Qed.

Theorem klle_end_to_end :
  forall (N k d : nat) (nbr : nat -> nat -> nat) (kern : mat Qc) (shift ts : Qc) (prev : nat -> mat Qc)
         (T : list (@triplet Qc)) (E : mat Qc) (lam : vec Qc) (c0 : Qc),
    (forall i a b, i < N -> a < k -> b < k -> kern (nbr i a) (nbr i b) = kern (nbr i b) (nbr i a)) ->
    lle_model (solve_checked qeqb) N k nbr kern shift ts prev = Ok T ->
    global_contract N (from_triplets T) E lam c0 -> 1 + d <= N ->
    (exists W : mat Qc,
        (forall r c, r < N -> c < N -> from_triplets T r c = lle_M_spec N k nbr W shift r c) /\
        (forall i, i < N -> exists x : vec Qc,
            (forall a, a < k -> mv k (lle_C_reg k kern ts (nbr i) i) x a = 1%F) /\
            (forall a, a < k -> W i a = (x a / sumn k x)%F) /\
            (sumn k x <> 0%F -> sumn k (W i) = 1%F))) /\
    optimal_embedding N d (from_triplets T) (select_smallest 1 d E).
Proof.
  intros N k d nbr kern shift ts prev T E lam c0 Hsym HT HG Hd. split.
  - apply (@lle_model_correct Qc QcOps QcField (solve_checked qeqb)) with (prev := prev); try assumption.
    intros k0 A b xl H. apply (solve_checked_sound qeqb); [|exact H].
    intros x y Hxy. apply qeqb_ok. exact Hxy.
  - apply (optimal_of_contract N d _ E lam c0); assumption.
Qed.

Theorem kltsa_end_to_end :
  forall (N k d : nat) (nbr : nat -> nat -> nat) (Eloc : nat -> mat Qc) (rsk shift : Qc)
         (E : mat Qc) (lam : vec Qc) (c0 : Qc),
    global_contract N (from_triplets (ltsa_model N k d nbr Eloc rsk shift)) E lam c0 -> 1 + d <= N ->
    (forall r c, r < N -> c < N ->
        from_triplets (ltsa_model N k d nbr Eloc rsk shift) r c =
        ltsa_M_spec N k nbr (fun i => ltsa_P d rsk (right_cols k d (Eloc i))) shift r c) /\
    optimal_embedding N d (from_triplets (ltsa_model N k d nbr Eloc rsk shift)) (select_smallest 1 d E).
Proof.
  intros N k d nbr Eloc rsk shift E lam c0 HG Hd. split.
  - intros r c Hr Hc. apply ltsa_model_matrix; assumption.
  - apply (optimal_of_contract N d _ E lam c0); assumption.
Qed.

Theorem hlle_end_to_end :
  forall (N k d : nat) (nbr : nat -> nat -> nat) (V prev : nat -> mat Qc) (T : list (@triplet Qc))
         (E : mat Qc) (lam : vec Qc) (c0 : Qc),
    hlle_model_sf (fun x => qeqb x 0%F) false N k d nbr V prev = Ok T ->
    global_contract N (from_triplets T) E lam c0 -> 1 + d <= N ->
    (forall r c, from_triplets T r c =
                 hlle_M_spec N k nbr (fun i => hlle_local_sf false k d (prev i) (V i)) r c) /\
    (forall i, i < N -> gs_degenerate (fun x => qeqb x 0%F) (hlle_gs_sf false k d (prev i) (V i)) = false) /\
    optimal_embedding N d (from_triplets T) (select_smallest 1 d E).
Proof.
  intros N k d nbr V prev T E lam c0 HT HG Hd.
  destruct (@hlle_model_correct Qc QcOps QcField _ _ _ _ _ _ _ _ _ HT) as [H1 H2].
  split; [exact H1|]. split; [exact H2|].
  apply (optimal_of_contract N d _ E lam c0); assumption.
Qed.
