(* Tsne_Proof_Vp.v — proofs about Tsne_Vp_Model.v (tsne::VpTree and the neighbour loop of
   the K-NN overload of computeGaussianPerplexity).

   The heap lemmas, the search invariant `Inv`, `visit_inv`, `step_right`/`step_left` and
   `build_inv` MIRROR agent c02's Knn_VpTree_Proof.v (same statements, about this file's own
   model: the two C++ files are different texts, see the header of Tsne_Vp_Model.v); what is
   new here: the descent of the t-SNE copy (near child unconditionally, far child after one
   pruning test), the ascending result order, the consumer that drops position 0, the
   refutations for the squared distance (F11) and for coincident samples. *)
From Coq Require Import List ZArith Bool Lia Permutation Sorted.
From TK Require Import Knn_Spec Tsne_Vp_Model.
Import ListNotations.
Local Open Scope Z_scope.

(* ---------- the heap ---------- *)

Definition hge (a b : hitem) : Prop := snd b <= snd a.
Definition hsorted (h : list hitem) : Prop := StronglySorted hge h.

Lemma hpush_perm : forall x h, Permutation (x :: h) (hpush x h).
Proof.
  intros x h. induction h as [|y r IH]; cbn [hpush]; [reflexivity|].
  destruct (snd y <=? snd x); [reflexivity|]. rewrite perm_swap. now constructor.
Qed.

Lemma hpush_sorted : forall x h, hsorted h -> hsorted (hpush x h).
Proof.
  intros x h Hs. induction Hs as [|y r Hs IH Hall]; cbn [hpush].
  - constructor; constructor.
  - destruct (Z.leb_spec (snd y) (snd x)) as [Hle|Hgt].
    + constructor; [now constructor|]. constructor; [exact Hle|].
      rewrite Forall_forall in *. intros z Hz. specialize (Hall z Hz). unfold hge in *. lia.
    + constructor; [assumption|]. rewrite Forall_forall in *. intros z Hz.
      apply (Permutation_in _ (Permutation_sym (hpush_perm x r))) in Hz.
      destruct Hz as [<-|Hz]; [unfold hge; lia | now apply Hall].
Qed.

Lemma hpush_length : forall x h, length (hpush x h) = S (length h).
Proof. intros x h. now rewrite <- (Permutation_length (hpush_perm x h)). Qed.

Lemma hpush_In : forall x h y, In y (hpush x h) <-> y = x \/ In y h.
Proof.
  intros x h y. split; intros H.
  - apply (Permutation_in _ (Permutation_sym (hpush_perm x h))) in H. destruct H as [<-|H]; auto.
  - apply (Permutation_in _ (hpush_perm x h)). destruct H as [->|H]; [now left | now right].
Qed.

(* ---------- the search invariant ---------- *)

Section Search.
Variable d : dist.
Variable q : Z.
Variable k : nat.

(* P = the set of items accounted for so far (visited, or inside a pruned subtree) *)
Definition Inv (P : Z -> Prop) (st : state) : Prop :=
  NoDup (map fst (fst st)) /\ hsorted (fst st) /\
  (forall x dd, In (x, dd) (fst st) -> P x /\ dd = d x q) /\
  match snd st with
  | None => (length (fst st) < k)%nat /\ (forall x, P x -> In x (map fst (fst st)))
  | Some t => length (fst st) = k /\ (exists x r, fst st = (x, t) :: r) /\
              (forall x, P x -> In x (map fst (fst st)) \/ t <= d x q)
  end.

Lemma Inv_ext : forall P P' st, (forall x, P x <-> P' x) -> Inv P st -> Inv P' st.
Proof.
  intros P P' [h tau] Hext (Hnd & Hs & Hmem & Htau). unfold Inv in *. cbn [fst snd] in *.
  split; [assumption|]. split; [assumption|]. split.
  - intros x dd Hin. destruct (Hmem x dd Hin) as [HP E]. split; [now apply Hext | assumption].
  - destruct tau as [t|].
    + destruct Htau as (Hlen & Htop & Hall). split; [assumption|]. split; [assumption|].
      intros x Hx. apply Hall. now apply Hext.
    + destruct Htau as (Hlen & Hall). split; [assumption|]. intros x Hx. apply Hall. now apply Hext.
Qed.

(* items that are provably not closer than tau may be skipped *)
Lemma Inv_skip : forall P (S : Z -> Prop) st,
  Inv P st ->
  (forall x, S x -> exists t, snd st = Some t /\ t <= d x q) ->
  Inv (fun x => P x \/ S x) st.
Proof.
  intros P S [h tau] (Hnd & Hs & Hmem & Htau) Hfar. unfold Inv in *. cbn [fst snd] in *.
  split; [assumption|]. split; [assumption|]. split.
  - intros x dd Hin. destruct (Hmem x dd Hin) as [HP E]. split; [now left | assumption].
  - destruct tau as [t|].
    + destruct Htau as (Hlen & Htop & Hall). split; [assumption|]. split; [assumption|].
      intros x [Hx|Hx]; [now apply Hall|]. destruct (Hfar x Hx) as [t' [E Hle]].
      inversion E; subst. now right.
    + destruct Htau as (Hlen & Hall). split; [assumption|]. intros x [Hx|Hx]; [now apply Hall|].
      destruct (Hfar x Hx) as [t' [E _]]. discriminate.
Qed.

Lemma hsorted_head_max : forall x t r y dd, hsorted ((x, t) :: r) -> In (y, dd) r -> dd <= t.
Proof.
  intros x t r y dd Hs Hin. inversion Hs as [|? ? _ Hall]; subst. rewrite Forall_forall in Hall.
  specialize (Hall (y, dd) Hin). unfold hge in Hall. cbn [snd] in Hall. exact Hall.
Qed.

Lemma in_map_fst : forall (h : list hitem) x, In x (map fst h) <-> exists dd, In (x, dd) h.
Proof.
  intros h x. rewrite in_map_iff. split.
  - intros [[a b] [E Hin]]. cbn [fst] in E. subst. now exists b.
  - intros [dd Hin]. now exists (x, dd).
Qed.

Lemma visit_inv : forall P it st,
  Inv P st -> ~ P it ->
  Inv (fun x => P x \/ x = it) (visit k it (d it q) st).
Proof.
  intros P it [h tau] (Hnd & Hs & Hmem & Htau) HnP. cbn [fst snd] in *.
  unfold visit. cbv zeta. destruct (lt_tau (d it q) tau) eqn:Hlt.
  2:{ (* not admitted: tau = Some t, t <= distance *)
    destruct tau as [t|]; [|discriminate]. cbn [lt_tau] in Hlt. apply Z.ltb_ge in Hlt.
    apply (Inv_ext (fun x => P x \/ x = it) (fun x => P x \/ x = it)); [tauto|].
    apply (Inv_skip P (fun x => x = it) (h, Some t)).
    - exact (conj Hnd (conj Hs (conj Hmem Htau))).
    - intros x ->. exists t. cbn [snd]. now split. }
  assert (Hnin : ~ In it (map fst h)).
  { intros Hin. apply in_map_fst in Hin. destruct Hin as [dd Hin]. now destruct (Hmem it dd Hin). }
  destruct tau as [t|].
  - (* heap full: pop, push, tau = new top *)
    cbn [lt_tau] in Hlt. apply Z.ltb_lt in Hlt.
    destruct Htau as (Hlen & (x0 & r0 & Eh) & Hall). subst h. cbn [length] in Hlen.
    cbn [tl].
    match goal with |- context [if ?c then r0 else _] =>
      replace c with true by (symmetry; apply Nat.eqb_eq; exact Hlen) end.
    set (h2 := hpush (it, d it q) r0).
    assert (Hlen2 : length h2 = k) by (unfold h2; rewrite hpush_length; exact Hlen).
    rewrite Hlen2, Nat.eqb_refl.
    assert (Hs0 : hsorted r0) by (inversion Hs; assumption).
    assert (Hs2 : hsorted h2) by (apply hpush_sorted; assumption).
    assert (Hin2 : forall y, In y h2 <-> y = (it, d it q) \/ In y r0) by (intros y; apply hpush_In).
    assert (Hperm2 : Permutation ((it, d it q) :: r0) h2) by apply hpush_perm.
    clearbody h2.
    destruct h2 as [|[x1 t1] r1]; [cbn [length] in Hlen2; lia|].
    assert (Ht1 : t1 <= t).
    { destruct (proj1 (Hin2 (x1, t1)) (or_introl eq_refl)) as [E|Hin].
      - inversion E; subst. lia.
      - eapply hsorted_head_max; eassumption. }
    unfold Inv. cbn [fst snd]. split; [|split; [|split]].
    + apply (Permutation_NoDup (l := it :: map fst r0)).
      * change (it :: map fst r0) with (map fst ((it, d it q) :: r0)).
        apply Permutation_map. exact Hperm2.
      * cbn [map fst] in Hnd. inversion Hnd; subst. constructor; [|assumption].
        intros Hin. apply Hnin. cbn [map fst]. now right.
    + exact Hs2.
    + intros x dd Hin. apply Hin2 in Hin. destruct Hin as [E|Hin].
      * inversion E; subst. split; [now right | reflexivity].
      * destruct (Hmem x dd (or_intror Hin)) as [HP E]. split; [now left | assumption].
    + split; [exact Hlen2|]. split; [now exists x1, r1|].
      intros x [HPx| ->].
      * destruct (Hall x HPx) as [Hin|Hfar]; [|right; lia].
        cbn [map fst] in Hin. destruct Hin as [<-|Hin].
        -- right. destruct (Hmem x0 t (or_introl eq_refl)) as [_ E]. lia.
        -- left. apply in_map_fst in Hin. destruct Hin as [dd Hin]. apply in_map_fst. exists dd.
           apply Hin2. now right.
      * left. apply in_map_fst. exists (d it q). apply Hin2. now left.
  - (* heap not full yet *)
    destruct Htau as (Hlen & Hall).
    destruct (Nat.eqb_spec (length h) k) as [E|_]; [lia|].
    set (h2 := hpush (it, d it q) h).
    assert (Hlen2 : length h2 = S (length h)) by (unfold h2; apply hpush_length).
    assert (Hs2 : hsorted h2) by (apply hpush_sorted; assumption).
    assert (Hin2 : forall y, In y h2 <-> y = (it, d it q) \/ In y h) by (intros y; apply hpush_In).
    assert (Hnd2 : NoDup (map fst h2)).
    { apply (Permutation_NoDup (l := it :: map fst h)).
      - change (it :: map fst h) with (map fst ((it, d it q) :: h)).
        apply Permutation_map. apply hpush_perm.
      - now constructor. }
    assert (Hmem2 : forall x dd, In (x, dd) h2 -> (P x \/ x = it) /\ dd = d x q).
    { intros x dd Hin. apply Hin2 in Hin. destruct Hin as [E|Hin].
      - inversion E; subst. split; [now right | reflexivity].
      - destruct (Hmem x dd Hin) as [HP E]. split; [now left | assumption]. }
    assert (Hall2 : forall x, P x \/ x = it -> In x (map fst h2)).
    { intros x [HPx| ->]; apply in_map_fst.
      - specialize (Hall x HPx). apply in_map_fst in Hall. destruct Hall as [dd Hin].
        exists dd. apply Hin2. now right.
      - exists (d it q). apply Hin2. now left. }
    destruct (Nat.eqb_spec (length h2) k) as [E|NE].
    + destruct h2 as [|[x1 t1] r1] eqn:Eh2; [cbn in Hlen2; discriminate|].
      unfold Inv. cbn [fst snd]. split; [assumption|]. split; [assumption|]. split; [assumption|].
      split; [assumption|]. split; [now exists x1, r1|]. intros x Hx. left. now apply Hall2.
    + unfold Inv. cbn [fst snd]. split; [assumption|]. split; [assumption|]. split; [assumption|].
      split; [lia | assumption].
Qed.

(* ---------- descent ---------- *)

Definition descend (l r : vpt) (dq thr : Z) (st1 : state) : state :=
  if dq <? thr then
    let st2 := search d l q k st1 in
    if add_ge dq (snd st2) thr then search d r q k st2 else st2
  else
    let st2 := search d r q k st1 in
    if sub_le dq (snd st2) thr then search d l q k st2 else st2.

Lemma search_Nd : forall it thr l r st,
  search d (Nd it thr l r) q k st = descend l r (d it q) thr (visit k it (d it q) st).
Proof.
  intros it thr l r st. destruct l, r; try reflexivity.
  assert (Hif : forall (c : bool) (a : state), (if c then a else a) = a) by (intros [] a; reflexivity).
  cbn [search]. unfold descend. cbn [search]. rewrite !Hif. reflexivity.
Qed.

Variable dom : Z -> Prop.
Hypothesis Hmetric : metric_on dom d.
Hypothesis Hdomq : dom q.

Lemma NoDup_app_inv : forall (l1 l2 : list Z),
  NoDup (l1 ++ l2) -> NoDup l1 /\ NoDup l2 /\ (forall x, In x l1 -> ~ In x l2).
Proof.
  induction l1 as [|a r IH]; intros l2 H; cbn [app] in H.
  - split; [constructor|]. split; [assumption|]. intros x [].
  - inversion H as [|? ? Hna Hnd]; subst. destruct (IH l2 Hnd) as (H1 & H2 & H3).
    split; [|split; [assumption|]].
    + constructor; [|assumption]. intros Hin. apply Hna. apply in_or_app. now left.
    + intros x [->|Hx]; [|now apply H3]. intros Hin. apply Hna. apply in_or_app. now right.
Qed.

Lemma step_left : forall it thr l P st,
  (forall P st, (forall x, In x (items l) -> ~ P x) -> Inv P st ->
                Inv (fun x => P x \/ In x (items l)) (search d l q k st)) ->
  dom it -> (forall x, In x (items l) -> dom x) ->
  (forall x, In x (items l) -> d it x <= thr) ->
  (forall x, In x (items l) -> ~ P x) ->
  Inv P st ->
  Inv (fun x => P x \/ In x (items l))
      (if sub_le (d it q) (snd st) thr then search d l q k st else st).
Proof.
  intros it thr l P st IH Hit Hdoml Hleft Hdisj HI. destruct Hmetric as [Hsym Htri].
  destruct (sub_le (d it q) (snd st) thr) eqn:Hc; [now apply IH|].
  apply Inv_skip; [assumption|]. intros x Hx.
  destruct (snd st) as [t|]; [|discriminate]. exists t. split; [reflexivity|].
  cbn [sub_le] in Hc. apply Z.leb_gt in Hc.
  specialize (Hleft x Hx). specialize (Htri it x q Hit (Hdoml x Hx) Hdomq). lia.
Qed.

Lemma step_right : forall it thr r P st,
  (forall P st, (forall x, In x (items r) -> ~ P x) -> Inv P st ->
                Inv (fun x => P x \/ In x (items r)) (search d r q k st)) ->
  dom it -> (forall x, In x (items r) -> dom x) ->
  (forall x, In x (items r) -> thr <= d it x) ->
  (forall x, In x (items r) -> ~ P x) ->
  Inv P st ->
  Inv (fun x => P x \/ In x (items r))
      (if add_ge (d it q) (snd st) thr then search d r q k st else st).
Proof.
  intros it thr r P st IH Hit Hdomr Hright Hdisj HI. destruct Hmetric as [Hsym Htri].
  destruct (add_ge (d it q) (snd st) thr) eqn:Hc; [now apply IH|].
  apply Inv_skip; [assumption|]. intros x Hx.
  destruct (snd st) as [t|]; [|discriminate]. exists t. split; [reflexivity|].
  cbn [add_ge] in Hc. rewrite Z.geb_leb in Hc. apply Z.leb_gt in Hc.
  specialize (Hright x Hx). specialize (Htri it q x Hit Hdomq (Hdomr x Hx)).
  specialize (Hsym q x Hdomq (Hdomr x Hx)). lia.
Qed.

Lemma search_inv : forall t P st,
  (forall x, In x (items t) -> dom x) ->
  vp_inv d t -> NoDup (items t) -> (forall x, In x (items t) -> ~ P x) ->
  Inv P st ->
  Inv (fun x => P x \/ In x (items t)) (search d t q k st).
Proof.
  induction t as [|it thr l IHl r IHr]; intros P st Hdom Hvp Hnd Hdisj HI.
  - cbn [search items]. apply (Inv_ext P); [cbn; tauto | assumption].
  - rewrite search_Nd. cbn [items] in *. cbn [vp_inv] in Hvp.
    destruct Hvp as (Hleft & Hright & Hvl & Hvr).
    inversion Hnd as [|? ? Hnit Hnd']; subst.
    destruct (NoDup_app_inv _ _ Hnd') as (Hndl & Hndr & Hlr).
    assert (Hit : dom it) by (apply Hdom; now left).
    assert (Hdoml : forall x, In x (items l) -> dom x).
    { intros x Hx. apply Hdom. right. apply in_or_app. now left. }
    assert (Hdomr : forall x, In x (items r) -> dom x).
    { intros x Hx. apply Hdom. right. apply in_or_app. now right. }
    assert (IHl' : forall P st, (forall x, In x (items l) -> ~ P x) -> Inv P st ->
                   Inv (fun x => P x \/ In x (items l)) (search d l q k st)).
    { intros P0 st0 Hd0 HI0. now apply IHl. }
    assert (IHr' : forall P st, (forall x, In x (items r) -> ~ P x) -> Inv P st ->
                   Inv (fun x => P x \/ In x (items r)) (search d r q k st)).
    { intros P0 st0 Hd0 HI0. now apply IHr. }
    assert (HI1 : Inv (fun x => P x \/ x = it) (visit k it (d it q) st)).
    { apply visit_inv; [assumption|]. apply Hdisj. now left. }
    set (st1 := visit k it (d it q) st) in *.
    assert (Hdl : forall x, In x (items l) -> ~ (P x \/ x = it)).
    { intros x Hx [HP| ->].
      - apply (Hdisj x); [right; apply in_or_app; now left | assumption].
      - apply Hnit. apply in_or_app. now left. }
    assert (Hdr : forall x, In x (items r) -> ~ (P x \/ x = it)).
    { intros x Hx [HP| ->].
      - apply (Hdisj x); [right; apply in_or_app; now right | assumption].
      - apply Hnit. apply in_or_app. now right. }
    unfold descend. destruct (d it q <? thr).
    + (* near child = left, searched unconditionally; far child = right, after one test *)
      pose proof (IHl' _ st1 Hdl HI1) as HI2.
      set (st2 := search d l q k st1) in *.
      assert (Hd2 : forall x, In x (items r) -> ~ ((P x \/ x = it) \/ In x (items l))).
      { intros x Hx [H1|H1]; [now apply (Hdr x)|]. now apply (Hlr x). }
      pose proof (step_right it thr r _ st2 IHr' Hit Hdomr Hright Hd2 HI2) as HI3.
      eapply Inv_ext; [|exact HI3]. intros x. cbn [In]. rewrite in_app_iff. cbv beta.
      split; [intros [[[H1|H1]|H1]|H1] | intros [H1|[H1|[H1|H1]]]]; auto.
    + pose proof (IHr' _ st1 Hdr HI1) as HI2.
      set (st2 := search d r q k st1) in *.
      assert (Hd2 : forall x, In x (items l) -> ~ ((P x \/ x = it) \/ In x (items r))).
      { intros x Hx [H1|H1]; [now apply (Hdl x)|]. now apply (Hlr x). }
      pose proof (step_left it thr l _ st2 IHl' Hit Hdoml Hleft Hd2 HI2) as HI3.
      eapply Inv_ext; [|exact HI3]. intros x. cbn [In]. rewrite in_app_iff. cbv beta.
      split; [intros [[[H1|H1]|H1]|H1] | intros [H1|[H1|[H1|H1]]]]; auto.
Qed.

End Search.

(* ---------- search(target, k, results, distances) is exact on every tree satisfying the
   invariant; results come nearest first ---------- *)

Definition asc_from (d : dist) (q : Z) (l : list Z) : Prop :=
  StronglySorted (fun a b => d q a <= d q b) l.

Lemma knn_of_ext : forall d q U U' k l,
  (forall x, In x U <-> In x U') -> knn_of d q U k l -> knn_of d q U' k l.
Proof.
  intros d q U U' k l Hext (Hnd & Hlen & Hincl & Hle). repeat split; try assumption.
  - intros x Hx. apply Hext. now apply Hincl.
  - intros i j Hi Hj Hnj. apply Hle; try assumption. now apply Hext.
Qed.

Lemma knn_of_perm : forall d q U k l l',
  Permutation l l' -> knn_of d q U k l -> knn_of d q U k l'.
Proof.
  intros d q U k l l' Hp (Hnd & Hlen & Hincl & Hle). repeat split.
  - now apply (Permutation_NoDup Hp).
  - now rewrite <- (Permutation_length Hp).
  - intros x Hx. apply Hincl. now apply (Permutation_in _ (Permutation_sym Hp)).
  - intros i j Hi Hj Hnj. apply Hle; try assumption.
    + now apply (Permutation_in _ (Permutation_sym Hp)).
    + intros Hin. apply Hnj. now apply (Permutation_in _ Hp).
Qed.

Lemma StronglySorted_rev : forall {A} (R : A -> A -> Prop) l,
  StronglySorted R l -> StronglySorted (fun a b => R b a) (rev l).
Proof.
  intros A R l Hs. induction Hs as [|a r Hs IH Hall]; cbn [rev]; [constructor|].
  rewrite Forall_forall in Hall.
  assert (Happ : forall l1 l2, StronglySorted (fun a b => R b a) l1 ->
                 StronglySorted (fun a b => R b a) l2 ->
                 (forall x y, In x l1 -> In y l2 -> R y x) ->
                 StronglySorted (fun a b => R b a) (l1 ++ l2)).
  { induction l1 as [|x l1 IH1]; intros l2 H1 H2 H12; cbn [app]; [assumption|].
    inversion H1 as [|? ? H1' Hall1]; subst. constructor.
    - apply IH1; try assumption. intros u v Hu Hv. apply H12; [now right | assumption].
    - rewrite Forall_forall in *. intros z Hz. apply in_app_or in Hz. destruct Hz as [Hz|Hz].
      + now apply Hall1.
      + apply H12; [now left | assumption]. }
  apply Happ; [assumption | constructor; constructor|].
  intros x y Hx [<-|[]]. apply Hall. now apply in_rev.
Qed.

Lemma vp_search_pairs_eq : forall d t q k, (1 <= k)%nat ->
  vp_search_pairs d t q k = Some (rev (fst (search d t q k ([], None)))).
Proof.
  intros d t q k Hk. unfold vp_search_pairs. destruct (Nat.eqb_spec k 0) as [E|_]; [lia | reflexivity].
Qed.

Theorem vp_search_exact_thm : forall d dom t q k,
  metric_on dom d -> dom q -> (forall x, In x (items t) -> dom x) ->
  vp_inv d t -> NoDup (items t) -> (1 <= k)%nat ->
  exists l, vp_search d t q k = Some l /\
            knn_of d q (items t) (Nat.min k (length (items t))) l /\
            asc_from d q l.
Proof.
  intros d dom t q k Hm Hq Hdom Hvp Hnd Hk.
  assert (HI0 : Inv d q k (fun _ => False) ([], None)).
  { unfold Inv. cbn [fst snd map length]. split; [constructor|]. split; [constructor|].
    split; [intros x dd []|]. split; [lia | intros x []]. }
  pose proof (search_inv d q k dom Hm Hq t (fun _ => False) ([], None) Hdom Hvp Hnd
                (fun _ _ F => F) HI0) as HI.
  unfold vp_search. rewrite vp_search_pairs_eq by exact Hk. cbn [option_map].
  destruct (search d t q k ([], None)) as [h tau] eqn:Es. cbn [fst].
  exists (map fst (rev h)). split; [reflexivity|].
  destruct HI as (HndH & Hs & Hmem & Htau). cbn [fst snd] in *.
  destruct Hm as [Hsym _].
  assert (Hincl : incl (map fst h) (items t)).
  { intros x Hx. apply in_map_fst in Hx. destruct Hx as [dd Hin].
    destruct (Hmem x dd Hin) as [[F|Hin'] _]; [destruct F | assumption]. }
  assert (Hdist : forall x dd, In (x, dd) h -> dd = d q x).
  { intros x dd Hin. destruct (Hmem x dd Hin) as [_ E]. rewrite E. apply Hsym; [|assumption].
    apply Hdom. apply Hincl. apply in_map_fst. now exists dd. }
  assert (Hprev : Permutation (map fst h) (map fst (rev h))).
  { apply Permutation_map. apply Permutation_rev. }
  split.
  - apply (knn_of_perm _ _ _ _ (map fst h)); [exact Hprev|].
    destruct tau as [t0|].
    + destruct Htau as (Hlen & (x0 & r0 & Eh) & Hall).
      assert (Hkle : (k <= length (items t))%nat).
      { pose proof (NoDup_incl_length HndH Hincl) as Hle0. rewrite map_length in Hle0. unfold hitem in *. lia. }
      rewrite Nat.min_l by assumption. repeat split; try assumption.
      * now rewrite map_length.
      * intros i j Hi Hj Hnj. apply in_map_fst in Hi. destruct Hi as [dd Hi].
        rewrite <- (Hdist i dd Hi).
        assert (Hdd : dd <= t0).
        { subst h. destruct Hi as [E|Hi]; [inversion E; lia|]. eapply hsorted_head_max; eassumption. }
        destruct (Hall j (or_intror Hj)) as [Hin|Hfar]; [contradiction|].
        rewrite (Hsym q j Hq (Hdom j Hj)). lia.
    + destruct Htau as (Hlen & Hall).
      assert (Hperm : Permutation (map fst h) (items t)).
      { apply NoDup_Permutation; try assumption. intros x. split; [apply Hincl|].
        intros Hx. apply Hall. now right. }
      assert (Hlen2 : length (items t) = length h).
      { rewrite <- (Permutation_length Hperm). apply map_length. }
      unfold hitem in *. rewrite Nat.min_r by lia. repeat split; try assumption.
      * rewrite map_length. lia.
      * intros i j Hi Hj Hnj. exfalso. apply Hnj. apply Hall. now right.
  - unfold asc_from. rewrite map_rev.
    apply (StronglySorted_rev (fun a b => d q b <= d q a)).
    clear Es Htau HndH Hincl Hmem Hprev.
    induction Hs as [|[x dd] r Hs IH Hall]; cbn [map fst]; [constructor|].
    constructor.
    + apply IH. intros y e Hin. apply Hdist. now right.
    + rewrite Forall_forall in *. intros y Hy. apply in_map_fst in Hy. destruct Hy as [e Hin].
      specialize (Hall (y, e) Hin). unfold hge in Hall. cbn [snd] in Hall.
      rewrite <- (Hdist y e (or_intror Hin)), <- (Hdist x dd (or_introl eq_refl)). exact Hall.
Qed.

(* ---------- boolean checkers used on dumped real trees ---------- *)

Lemma vp_inv_b_spec : forall d t, vp_inv_b d t = true <-> vp_inv d t.
Proof.
  intros d t. induction t as [|i thr l IHl r IHr]; cbn [vp_inv_b vp_inv]; [tauto|].
  rewrite !andb_true_iff, !forallb_forall, IHl, IHr. split.
  - intros [[[H1 H2] H3] H4]. repeat split; try assumption.
    + intros x Hx. specialize (H1 x Hx). lia.
    + intros x Hx. specialize (H2 x Hx). lia.
  - intros (H1 & H2 & H3 & H4). repeat split; try assumption.
    + intros x Hx. specialize (H1 x Hx). lia.
    + intros x Hx. specialize (H2 x Hx). lia.
Qed.

Lemma vp_holds_b_sound : forall N t, vp_holds_b N t = true -> Permutation (items t) (samples N).
Proof.
  intros N t H. unfold vp_holds_b in H. rewrite !andb_true_iff in H. destruct H as [[Hnd Hlen] Hrng].
  apply nodup_b_spec in Hnd. apply Nat.eqb_eq in Hlen. rewrite forallb_forall in Hrng.
  apply NoDup_Permutation_bis; [assumption | |].
  - unfold samples. rewrite zseq_length. lia.
  - intros x Hx. apply samples_In. specialize (Hrng x Hx). apply andb_true_iff in Hrng.
    destruct Hrng as [H1 H2]. lia.
Qed.

(* ---------- the consumer: row n of the K-NN overload ----------
   tree->search(obj_X[n], K + 1, ...) and then positions 1..K.  Exact when the query is
   STRICTLY the nearest sample to itself (no other sample coincides with it). *)

Lemma asc_head_least : forall d q a r x,
  asc_from d q (a :: r) -> In x (a :: r) -> d q a <= d q x.
Proof.
  intros d q a r x Hs [<-|Hx]; [lia|]. inversion Hs as [|? ? _ Hall]; subst.
  rewrite Forall_forall in Hall. now apply Hall.
Qed.

Theorem bh_neighbours_exact_thm : forall d N t q K,
  metric_on (in_range N) d -> in_range N q -> (K + 1 <= N)%nat ->
  vp_inv d t -> Permutation (items t) (samples N) ->
  (forall x, in_range N x -> x <> q -> d q q < d q x) ->
  exists l, bh_row d t q K = Some l /\ is_knn d N q K l.
Proof.
  intros d N t q K Hm Hq HK Hinv Hperm Hstrict.
  assert (Hnd : NoDup (items t)).
  { apply (Permutation_NoDup (Permutation_sym Hperm)). apply samples_NoDup. }
  assert (Hdom : forall x, In x (items t) -> in_range N x).
  { intros x Hx. apply samples_In. now apply (Permutation_in _ Hperm). }
  assert (Hlen : length (items t) = N).
  { rewrite (Permutation_length Hperm). unfold samples. apply zseq_length. }
  destruct (vp_search_exact_thm d (in_range N) t q (K + 1) Hm Hq Hdom Hinv Hnd ltac:(lia))
    as (l0 & Es & Hknn & Hasc).
  rewrite Hlen, Nat.min_l in Hknn by lia.
  assert (Hknn' : knn_of d q (samples N) (S K) l0).
  { replace (S K) with (K + 1)%nat by lia. eapply knn_of_ext; [|exact Hknn].
    intros x. split; intros Hx.
    - now apply (Permutation_in _ Hperm).
    - now apply (Permutation_in _ (Permutation_sym Hperm)). }
  destruct Hknn' as (Hnd0 & Hlen0 & Hincl0 & Hle0).
  (* the query is among the K+1 results ... *)
  assert (Hqin : In q l0).
  { destruct (in_dec Z.eq_dec q l0) as [Hin|Hnin]; [assumption|exfalso].
    destruct l0 as [|a r]; [cbn in Hlen0; lia|].
    assert (Ha : In a (a :: r)) by now left.
    pose proof (Hle0 a q Ha (proj2 (samples_In N q) Hq) Hnin) as Hle.
    assert (Haq : a <> q) by (intros ->; contradiction).
    pose proof (Hstrict a (proj1 (samples_In N a) (Hincl0 a Ha)) Haq). lia. }
  (* ... and it is the first one *)
  destruct l0 as [|a r]; [destruct Hqin|].
  assert (Haq : a = q).
  { destruct (Z.eq_dec a q) as [E|NE]; [assumption|exfalso].
    pose proof (asc_head_least d q a r q Hasc Hqin) as Hle.
    pose proof (Hstrict a (proj1 (samples_In N a) (Hincl0 a (or_introl eq_refl))) NE). lia. }
  subst a.
  assert (Ebh : bh_row d t q K = Some r).
  { unfold bh_row, bh_row_pairs. unfold vp_search in Es.
    destruct (vp_search_pairs d t q (K + 1)) as [lp|]; [|discriminate].
    cbn [option_map] in Es. inversion Es as [E1].
    assert (Hl : length lp = (K + 1)%nat).
    { transitivity (length (map fst lp)); [symmetry; apply map_length|].
      rewrite E1. cbn [length] in *. lia. }
    rewrite Hl, Nat.eqb_refl. cbn [option_map]. f_equal.
    destruct lp as [|p lp']; [discriminate|]. cbn [map tl] in *. now inversion E1. }
  exists r. split; [exact Ebh|].
  apply is_knn_knn_of. rewrite others_remove.
  inversion Hnd0 as [|? ? Hqr Hndr]; subst.
  assert (Er : r = remove Z.eq_dec q (q :: r)).
  { cbn [remove]. destruct (Z.eq_dec q q) as [_|NE]; [|contradiction].
    symmetry. now apply notin_remove. }
  rewrite Er. apply knn_of_remove; [|now left].
  repeat split; assumption.
Qed.

Corollary bh_neighbours_checked_thm : forall d N t q K,
  metric_on (in_range N) d -> in_range N q -> (K + 1 <= N)%nat ->
  vp_inv_b d t = true -> vp_holds_b N t = true ->
  (forall x, in_range N x -> x <> q -> d q q < d q x) ->
  exists l, bh_row d t q K = Some l /\ is_knn d N q K l.
Proof.
  intros d N t q K Hm Hq HK Hinv Hholds Hstrict.
  apply bh_neighbours_exact_thm; try assumption.
  - now apply vp_inv_b_spec.
  - now apply vp_holds_b_sound.
Qed.

(* ---------- the repaired = current consumer (F45): exact also with coincident samples ---------- *)

Lemma drop_first_some : forall q l r, NoDup (map fst l) -> drop_first q l = Some r ->
  In q (map fst l) /\ map fst r = remove Z.eq_dec q (map fst l).
Proof.
  intros q l. induction l as [|x l IH]; intros r Hnd H; [discriminate|].
  cbn [drop_first] in H. cbn [map] in *. inversion Hnd as [|? ? Hnin Hnd']; subst.
  destruct (Z.eqb_spec (fst x) q) as [E|NE].
  - inversion H; subst r. split; [now left|]. cbn [remove].
    destruct (Z.eq_dec q (fst x)) as [_|C]; [|congruence]. symmetry. apply notin_remove. now rewrite <- E.
  - destruct (drop_first q l) as [r'|] eqn:Ed; [|discriminate]. inversion H; subst r.
    destruct (IH r' Hnd' eq_refl) as [Hin Hr]. split; [now right|]. cbn [map remove].
    destruct (Z.eq_dec q (fst x)) as [C|_]; [congruence|]. now rewrite Hr.
Qed.

Lemma drop_first_none : forall q l, drop_first q l = None -> ~ In q (map fst l).
Proof.
  intros q l. induction l as [|x l IH]; intros H; [intros []|]. cbn [drop_first] in H. cbn [map].
  destruct (Z.eqb_spec (fst x) q) as [E|NE]; [discriminate|].
  destruct (drop_first q l) eqn:Ed; [discriminate|]. intros [C|C]; [congruence | now apply IH].
Qed.

Lemma removelast_map : forall {A B} (f : A -> B) l, map f (removelast l) = removelast (map f l).
Proof.
  intros A B f l. induction l as [|x l IH]; [reflexivity|]. destruct l as [|y l]; [reflexivity|].
  cbn [removelast map] in *. now rewrite IH.
Qed.

Theorem bh_neighbours_exact_fixed_thm : forall d N t q K,
  metric_on (in_range N) d -> in_range N q -> (K + 1 <= N)%nat ->
  vp_inv d t -> Permutation (items t) (samples N) ->
  exists l, bh_row_fixed d t q K = Some l /\ is_knn d N q K l.
Proof.
  intros d N t q K Hm Hq HK Hinv Hperm.
  assert (Hnd : NoDup (items t)).
  { apply (Permutation_NoDup (Permutation_sym Hperm)). apply samples_NoDup. }
  assert (Hdom : forall x, In x (items t) -> in_range N x).
  { intros x Hx. apply samples_In. now apply (Permutation_in _ Hperm). }
  assert (Hlen : length (items t) = N).
  { rewrite (Permutation_length Hperm). unfold samples. apply zseq_length. }
  destruct (vp_search_exact_thm d (in_range N) t q (K + 1) Hm Hq Hdom Hinv Hnd ltac:(lia))
    as (l0 & Es & Hknn & Hasc).
  rewrite Hlen, Nat.min_l in Hknn by lia.
  assert (Hknn' : knn_of d q (samples N) (S K) l0).
  { replace (S K) with (K + 1)%nat by lia. eapply knn_of_ext; [|exact Hknn].
    intros x. split; intros Hx.
    - now apply (Permutation_in _ Hperm).
    - now apply (Permutation_in _ (Permutation_sym Hperm)). }
  unfold vp_search in Es. destruct (vp_search_pairs d t q (K + 1)) as [lp|] eqn:Ep; [|discriminate].
  cbn [option_map] in Es. inversion Es as [E1]. clear Es.
  destruct Hknn' as (Hnd0 & Hlen0 & Hincl0 & Hle0).
  unfold bh_row_fixed, bh_row_pairs_fixed. rewrite Ep. cbv zeta.
  destruct (drop_first q lp) as [r|] eqn:Ed.
  - (* the query is among the results: it is erased by index *)
    destruct (drop_first_some q lp r ltac:(rewrite E1; exact Hnd0) Ed) as [Hqin Hr]. rewrite E1 in Hqin, Hr.
    assert (Hlr : length r = K).
    { transitivity (length (map fst r)); [symmetry; apply map_length|]. rewrite Hr.
      pose proof (remove_length_NoDup l0 q Hnd0 Hqin). lia. }
    rewrite Hlr, Nat.eqb_refl. cbn [option_map]. exists (map fst r). split; [reflexivity|].
    rewrite Hr. apply is_knn_knn_of. rewrite others_remove. apply knn_of_remove; [|exact Hqin].
    repeat split; assumption.
  - (* K + 1 other samples are at least as near as the query itself (coincident samples):
       the farthest result is dropped *)
    pose proof (drop_first_none q lp Ed) as Hqn. rewrite E1 in Hqn.
    assert (Hne : l0 <> []) by (intros E; rewrite E in Hlen0; discriminate).
    pose proof (app_removelast_last 0 Hne) as Hsplit.
    set (l := removelast l0) in *. set (z := last l0 0) in *.
    assert (Hll : length l = K).
    { pose proof (f_equal (@length Z) Hsplit) as HL. rewrite app_length in HL. cbn [length] in HL. lia. }
    assert (Hlp : length (removelast lp) = K).
    { transitivity (length (map fst (removelast lp))); [symmetry; apply map_length|].
      rewrite removelast_map, E1. exact Hll. }
    rewrite Hlp, Nat.eqb_refl. cbn [option_map]. exists (map fst (removelast lp)). split; [reflexivity|].
    rewrite removelast_map, E1. fold l.
    assert (Hinl : forall x, In x l -> In x l0) by (intros x Hx; rewrite Hsplit; apply in_or_app; now left).
    assert (Hndl : NoDup l /\ ~ In z l).
    { rewrite Hsplit in Hnd0. apply NoDup_remove in Hnd0. rewrite app_nil_r in Hnd0. exact Hnd0. }
    assert (Hz : forall i, In i l -> d q i <= d q z).
    { intros i Hi. unfold asc_from in Hasc. rewrite Hsplit in Hasc.
      clear - Hasc Hi. induction l as [|a l IH]; [destruct Hi|]. cbn [app] in Hasc.
      inversion Hasc as [|? ? Hs Hall]; subst. destruct Hi as [->|Hi].
      - rewrite Forall_forall in Hall. apply Hall. apply in_or_app. right. now left.
      - now apply IH. }
    unfold is_knn. split; [apply Hndl|]. split; [exact Hll|]. split.
    { intros Hin. apply Hqn. now apply Hinl. }
    split.
    { intros i Hi. apply samples_In. apply Hincl0. now apply Hinl. }
    intros i j Hi Hnj Hjq Hj.
    destruct (in_dec Z.eq_dec j l0) as [Hjl|Hjn].
    + rewrite Hsplit in Hjl. apply in_app_or in Hjl. destruct Hjl as [C|[<-|[]]]; [contradiction|]. now apply Hz.
    + apply Hle0; [now apply Hinl | now apply samples_In | exact Hjn].
Qed.

(* ---------- build establishes the invariant for every oracle meeting its contract ---- *)

Lemma upd_length : forall j x l, length (upd j x l) = length l.
Proof.
  intros j x l. revert j. induction l as [|y r IH]; intros j; [destruct j; reflexivity|].
  destruct j as [|j]; cbn [upd length]; [reflexivity | now rewrite IH].
Qed.

Lemma upd_perm : forall j x y l,
  nth_error l j = Some y -> Permutation (x :: l) (y :: upd j x l).
Proof.
  intros j x y l. revert j. induction l as [|a r IH]; intros j H; [destruct j; discriminate|].
  destruct j as [|j]; cbn [nth_error upd] in *.
  - inversion H; subst. apply perm_swap.
  - specialize (IH j H). apply (perm_trans (l' := a :: x :: r)); [apply perm_swap|].
    apply (perm_trans (l' := a :: y :: upd j x r)); [now constructor | apply perm_swap].
Qed.

Lemma swap0_ok : forall i l,
  (i < length l)%nat -> exists vp rest, swap0 i l = Some (vp :: rest) /\ Permutation l (vp :: rest).
Proof.
  intros i l Hi. destruct l as [|x r]; [cbn in Hi; lia|]. cbn [swap0]. destruct i as [|j].
  - exists x, r. split; [reflexivity | apply Permutation_refl].
  - cbn [length] in Hi. destruct (nth_error r j) as [y|] eqn:E.
    + exists y, (upd j x r). split; [reflexivity|]. now apply upd_perm.
    + apply nth_error_None in E. lia.
Qed.

Lemma nth_error_skipn : forall (l : list Z) m x,
  nth_error l m = Some x -> exists after, skipn m l = x :: after.
Proof.
  induction l as [|a r IH]; intros m x H; [destruct m; discriminate|].
  destruct m as [|m]; cbn [nth_error skipn] in *.
  - inversion H; subst. now exists r.
  - now apply IH.
Qed.

Definition piv_ok (piv : nat -> nat -> nat) : Prop :=
  forall lower upper, (lower + 1 < upper)%nat -> (piv lower upper < upper - lower)%nat.

(* contract of std::nth_element with DistanceComparator(_items[lower]) *)
Definition nth_ok (d : dist) (vp : Z) (m : nat) (orig res : list Z) : Prop :=
  Permutation orig res /\
  match skipn m res with
  | [] => True
  | p :: after =>
      (forall x, In x (firstn m res) -> d vp x <= d vp p) /\
      (forall y, In y after -> d vp p <= d vp y)
  end.

Definition nth_oracle_ok (d : dist) (nth : nat -> nat -> Z -> list Z -> list Z) : Prop :=
  forall lower upper vp l,
    nth_ok d vp (Nat.div (upper + lower) 2 - (lower + 1)) l (nth lower upper vp l).

Theorem build_inv_thm : forall d piv nth,
  piv_ok piv -> nth_oracle_ok d nth ->
  forall fuel lower its, (length its < fuel)%nat ->
  exists t, build d piv nth fuel lower its = Built t /\ vp_inv d t /\ Permutation its (items t).
Proof.
  intros d piv nth Hpiv Hnth. induction fuel as [|f IH]; intros lower its Hf; [lia|].
  cbn [build]. destruct its as [|x1 [|x2 r0]].
  - exists E. split; [reflexivity|]. split; [exact I | constructor].
  - exists (Nd x1 0 E E). split; [reflexivity|]. split.
    + cbn. repeat split; intros x [].
    + cbn. apply Permutation_refl.
  - set (its := x1 :: x2 :: r0) in *. set (n := length its) in *.
    assert (Hn : (2 <= n)%nat) by (unfold n, its; cbn [length]; lia).
    set (upper := (lower + n)%nat).
    destruct (swap0_ok (piv lower upper) its) as (vp & rest & Esw & Hperm).
    { specialize (Hpiv lower upper). unfold upper in *. fold n. lia. }
    rewrite Esw.
    assert (Hlrest : length rest = (n - 1)%nat).
    { pose proof (Permutation_length Hperm) as E. fold n in E. cbn [length] in E. lia. }
    set (median := Nat.div (upper + lower) 2).
    assert (Hmed : median = (lower + Nat.div n 2)%nat).
    { unfold median, upper. replace (lower + n + lower)%nat with (lower * 2 + n)%nat by lia.
      rewrite Nat.div_add_l by lia. reflexivity. }
    set (m := (median - (lower + 1))%nat).
    assert (Hn2 : (1 <= Nat.div n 2)%nat).
    { apply (Nat.div_le_mono 2 n 2) in Hn; [|lia]. rewrite Nat.div_same in Hn by lia. exact Hn. }
    assert (Hn2' : (Nat.div n 2 < n)%nat) by (apply Nat.div_lt; lia).
    assert (Hm : m = (Nat.div n 2 - 1)%nat) by (unfold m; lia).
    pose proof (Hnth lower upper vp rest) as Hok. fold median m in Hok.
    set (rest' := nth lower upper vp rest) in *.
    destruct Hok as [Hp' Hpart].
    assert (Hlrest' : length rest' = (n - 1)%nat) by (rewrite <- (Permutation_length Hp'); exact Hlrest).
    destruct (nth_error rest' m) as [med|] eqn:Emed.
    2:{ apply nth_error_None in Emed. lia. }
    destruct (nth_error_skipn rest' m med Emed) as [after Eskip].
    rewrite Eskip in Hpart. destruct Hpart as [Hbefore Hafter].
    destruct (IH (lower + 1)%nat (firstn m rest')) as (tl & Etl & Hvl & Hpl).
    { rewrite firstn_length. unfold n in *. lia. }
    destruct (IH median (skipn m rest')) as (tr & Etr & Hvr & Hpr).
    { rewrite skipn_length. unfold n in *. lia. }
    rewrite Etl, Etr. exists (Nd vp (d vp med) tl tr). split; [reflexivity|]. split.
    + cbn [vp_inv]. split; [|split; [|split; assumption]].
      * intros x Hx. apply Hbefore. now apply (Permutation_in _ (Permutation_sym Hpl)).
      * intros x Hx. apply (Permutation_in _ (Permutation_sym Hpr)) in Hx. rewrite Eskip in Hx.
        destruct Hx as [->|Hx]; [lia | now apply Hafter].
    + cbn [items]. rewrite Hperm. constructor. rewrite Hp'.
      rewrite <- (firstn_skipn m rest') at 1. now apply Permutation_app.
Qed.

(* the reference oracles meet their contracts (so build_inv is not vacuous) *)
Lemma piv_first_ok : piv_ok piv_first.
Proof. intros lower upper H. unfold piv_first. lia. Qed.

Lemma nth_sort_ok : forall d, nth_oracle_ok d (nth_sort d).
Proof.
  intros d lower upper vp l. unfold nth_sort. set (m := (Nat.div (upper + lower) 2 - (lower + 1))%nat).
  clearbody m. split; [apply isort_by_perm|].
  pose proof (isort_by_sorted (d vp) l) as Hs. set (res := isort_by (d vp) l) in *. clearbody res.
  destruct (skipn m res) as [|p after] eqn:Esk; [exact I|].
  assert (Hsplit : forall x y, In x (firstn m res) -> In y (skipn m res) -> d vp x <= d vp y).
  { intros x y Hx Hy. now apply (sorted_firstn_skipn_le (d vp) res m x y). }
  split.
  - intros x Hx. apply Hsplit; [assumption|]. rewrite Esk. now left.
  - intros y Hy.
    assert (Hs2 : StronglySorted (key_le (d vp)) (p :: after)).
    { rewrite <- Esk. clear Esk Hsplit Hy. revert m. induction Hs as [|a r Hs IH Hall]; intros m.
      - rewrite skipn_nil. constructor.
      - destruct m as [|m]; cbn [skipn]; [now constructor | apply IH]. }
    inversion Hs2 as [|? ? _ Hall]; subst. rewrite Forall_forall in Hall. now apply Hall.
Qed.

(* ---------- refutations ---------- *)

(* F11 (old code): euclidean_distance returned the SQUARED distance.  It is not a metric, the
   pruning tests are unsound: 5 collinear points, K = 2; the tree is a legitimate build
   (oracles meet their contracts, invariant holds), yet row 3 is not the 2 nearest. *)
Definition f11_xs : list Z := [0; 3; 4; 6; 10].
Definition f11_tree : vpt :=
  match build (d_sq_1d f11_xs) piv_first (nth_sort (d_sq_1d f11_xs)) 6 0 (samples 5) with
  | Built t => t | _ => E end.

Theorem bh_neighbours_refuted_thm :
  exists (d : dist) (N : nat) (t : vpt) (q : Z) (K : nat) (l : list Z),
    build d piv_first (nth_sort d) (S N) 0 (samples N) = Built t /\
    vp_inv d t /\ Permutation (items t) (samples N) /\ in_range N q /\ (K + 1 <= N)%nat /\
    (forall x, in_range N x -> x <> q -> d q q < d q x) /\
    bh_row d t q K = Some l /\ ~ is_knn d N q K l.
Proof.
  exists (d_sq_1d f11_xs), 5%nat, f11_tree, 3, 2%nat, [2; 4].
  split; [vm_compute; reflexivity|].
  split; [apply vp_inv_b_spec; vm_compute; reflexivity|].
  split; [apply vp_holds_b_sound; vm_compute; reflexivity|].
  split; [unfold in_range; lia|]. split; [lia|].
  split.
  { intros x Hx Hne. unfold in_range in Hx.
    assert (Hc : x = 0 \/ x = 1 \/ x = 2 \/ x = 4) by lia.
    destruct Hc as [->|[->|[->| ->]]]; vm_compute; reflexivity. }
  split; [vm_compute; reflexivity|].
  intros H. apply is_knn_b_spec in H. vm_compute in H. discriminate.
Qed.

(* the squared distance indeed fails the triangle inequality on these points *)
Example d_sq_not_metric : ~ metric_on (in_range 5) (d_sq_1d f11_xs).
Proof.
  intros [_ Htri]. specialize (Htri 0 1 3). unfold in_range in Htri.
  specialize (Htri ltac:(lia) ltac:(lia) ltac:(lia)). vm_compute in Htri. apply Htri. reflexivity.
Qed.

(* With a true metric but a sample coinciding with the query, position 0 of the result
   need not be the query: the row can contain the query itself.  (Current code.) *)
Theorem bh_row_coincident_refuted_thm :
  exists (d : dist) (N : nat) (t : vpt) (q : Z) (K : nat) (l : list Z),
    metric_on (in_range N) d /\ vp_inv d t /\ Permutation (items t) (samples N) /\
    in_range N q /\ (K + 1 <= N)%nat /\
    bh_row d t q K = Some l /\ In q l.
Proof.
  exists (d_abs_1d [0; 0; 5]), 3%nat, (Nd 0 0 E (Nd 1 5 E (Nd 2 0 E E))), 1, 1%nat, [1].
  split; [apply metric_b_sound; vm_compute; reflexivity|].
  split; [apply vp_inv_b_spec; vm_compute; reflexivity|].
  split; [apply vp_holds_b_sound; vm_compute; reflexivity|].
  split; [unfold in_range; lia|]. split; [lia|].
  split; [vm_compute; reflexivity | now left].
Qed.

(* non-vacuity of bh_neighbours_exact: the same five points with the repaired distance *)
Example bh_neighbours_exact_nonvacuous :
  let d := d_abs_1d f11_xs in
  exists t, build d piv_first (nth_sort d) 6 0 (samples 5) = Built t /\
    metric_on (in_range 5) d /\ vp_inv d t /\ Permutation (items t) (samples 5) /\
    (forall x, in_range 5 x -> x <> 3 -> d 3 3 < d 3 x) /\
    bh_row d t 3 2 = Some [2; 1].
Proof.
  cbv zeta. eexists. split; [vm_compute; reflexivity|].
  split; [apply metric_b_sound; vm_compute; reflexivity|].
  split; [apply vp_inv_b_spec; vm_compute; reflexivity|].
  split; [apply vp_holds_b_sound; vm_compute; reflexivity|].
  split; [|vm_compute; reflexivity].
  intros x Hx Hne. unfold in_range in Hx.
  assert (Hc : x = 0 \/ x = 1 \/ x = 2 \/ x = 4) by lia.
  destruct Hc as [->|[->|[->| ->]]]; vm_compute; reflexivity.
Qed.

(* ---------- create + search + consumer, end to end ---------- *)
Theorem bh_rows_exact_built_thm : forall d piv nth N q K,
  metric_on (in_range N) d -> piv_ok piv -> nth_oracle_ok d nth ->
  in_range N q -> (K + 1 <= N)%nat ->
  exists t l, build d piv nth (S N) 0 (samples N) = Built t /\
              bh_row_fixed d t q K = Some l /\ is_knn d N q K l.
Proof.
  intros d piv nth N q K Hm Hp Hn Hq HK.
  destruct (build_inv_thm d piv nth Hp Hn (S N) 0%nat (samples N)) as (t & Eb & Hinv & Hperm).
  { unfold samples. rewrite zseq_length. lia. }
  destruct (bh_neighbours_exact_fixed_thm d N t q K Hm Hq HK Hinv (Permutation_sym Hperm)) as (l & El & Hl).
  now exists t, l.
Qed.
