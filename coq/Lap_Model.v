(* ====================================================================== *)
(*  Lap_Model.v — executable model of Laplacian Eigenmaps (property C09)   *)
(*                                                                         *)
(*  Mirrors, statement by statement,                                       *)
(*    routines/laplacian_eigenmaps.hpp   compute_laplacian                 *)
(*    methods/laplacian_eigenmaps.hpp    embed()  (which columns of the    *)
(*                                       generalised solver are returned)  *)
(*    routines/generalized_eigendecomposition.hpp  column selection, via   *)
(*                                       the GENERATED table gen/EigSelect *)
(*                                       (agent c05's translator t_eig.py) *)
(*  No proofs here (CONVENTIONS section 1).                                *)
(*                                                                         *)
(*  Numbers: abstract field F (FieldOps only — the model runs on anything  *)
(*  with the operations; Qc in the extraction).  `exp` is a VALUE ORACLE   *)
(*  `expo : F -> F`; the distance callback is `dist : nat -> nat -> F`     *)
(*  (samples are identified with their positions begin[i]).                *)
(*                                                                         *)
(*  Containers with data dependent indices (neighbour ids index D and the  *)
(*  triplets' rows/columns) are LISTS with checked accesses: any access    *)
(*  the C++ would make outside a container returns `LOOB site idx size`.   *)
(*    site 0  neighbors[0]            (k is read from the first list)      *)
(*    site 1  neighbors[iter-begin]                                        *)
(*    site 2  current_neighbors[i]    (a list shorter than the first one)  *)
(*    site 3  D(iter - begin)                                              *)
(*    site 4  D(current_neighbors[i]) (neighbour id >= N)                  *)
(* ====================================================================== *)
Require Import Arith Bool String List.
From TK Require Import Mat_Sums Mat_Core Mat_EigSelect EigSelect.
Import ListNotations.
(* gen/EigSelect.v opens string_scope globally: put list_scope back on top *)
Local Open Scope string_scope.
Local Open Scope list_scope.

Inductive lres (A : Type) : Type :=
| LOk (a : A)
| LOOB (site idx size : nat).
Arguments LOk {A} a.
Arguments LOOB {A} site idx size.

Section LapModel.
  Context {F : Type} {Fo : FieldOps F}.
  Local Open Scope F_scope.

  Variable dist : nat -> nat -> F.      (* callback.distance(begin[i], begin[j]) *)
  Variable width : F.                   (* gaussian_kernel_width *)
  Variable expo : F -> F.               (* std::exp, value oracle *)

  (* ScalarType distance = callback.distance( *iter, begin[current_neighbors[i]] );
     ScalarType heat = exp(-distance * distance / width);   parsed ((-distance)*distance)/width *)
  Definition heat_of (i nb : nat) : F :=
    let distance := dist i nb in
    expo ((- distance) * distance / width).

  Definition triplet : Type := (nat * nat * F)%type.      (* SparseTriplet(row, col, value) *)

  Record lstate : Type := mk_lstate { st_D : list F; st_T : list triplet }.

  Fixpoint upd (l : list F) (i : nat) (v : F) : list F :=
    match l, i with
    | [], _ => []
    | _ :: r, O => v :: r
    | a :: r, S i' => a :: upd r i' v
    end.

  (* body of `for (IndexType i = 0; i < k; ++i)` — here the inner index is j, the row is i *)
  Definition edge_step (i : nat) (cur : list nat) (acc : lres lstate) (j : nat) : lres lstate :=
    match acc with
    | LOOB s a b => LOOB s a b
    | LOk st =>
        match nth_error cur j with
        | None => LOOB 2 j (length cur)
        | Some nb =>
            let heat := heat_of i nb in
            match nth_error (st_D st) i with
            | None => LOOB 3 i (length (st_D st))
            | Some di =>
                let D1 := upd (st_D st) i (di + heat) in              (* D(iter - begin) += heat *)
                match nth_error D1 nb with
                | None => LOOB 4 nb (length D1)
                | Some dn =>
                    LOk (mk_lstate
                           (upd D1 nb (dn + heat))                     (* D(current_neighbors[i]) += heat *)
                           (st_T st ++ [(nb, i, - heat); (i, nb, - heat)]))
                end
            end
        end
    end.

  (* body of `for (iter = begin; iter != end; ++iter)` *)
  Definition row_step (k : nat) (nbrs : list (list nat)) (acc : lres lstate) (i : nat)
    : lres lstate :=
    match acc with
    | LOOB s a b => LOOB s a b
    | LOk st =>
        match nth_error nbrs i with
        | None => LOOB 1 i (length nbrs)
        | Some cur => fold_left (edge_step i cur) (seq 0 k) (LOk st)
        end
    end.

  (* for (i = 0; i < N; ++i) sparse_triplets.push_back(SparseTriplet(i, i, D(i))); *)
  Definition diag_triplets (n : nat) (D : list F) : list triplet :=
    map (fun i => (i, i, nth i D 0)) (seq 0 n).

  (* the triplet list and the degree vector, exactly as accumulated *)
  Definition compute_laplacian (n : nat) (nbrs : list (list nat))
    : lres (list triplet * list F) :=
    match nbrs with
    | [] => LOOB 0 0 0                                   (* neighbors[0].size() *)
    | first :: _ =>
        let k := length first in
        match fold_left (row_step k nbrs) (seq 0 n) (LOk (mk_lstate (repeat 0 n) [])) with
        | LOOB s a b => LOOB s a b
        | LOk st => LOk (st_T st ++ diag_triplets n (st_D st), st_D st)
        end
    end.

  (* weight_matrix.setFromTriplets(...): duplicates are SUMMED *)
  Definition trip_entry (r c : nat) (t : triplet) : F :=
    let '(tr, tc, v) := t in if Nat.eqb tr r && Nat.eqb tc c then v else 0.

  Definition mat_of_triplets (ts : list triplet) : mat F :=
    fun r c => fold_left (fun acc t => acc + trip_entry r c t) ts 0.

  (* precondition of setFromTriplets: every row / column index inside the n x n matrix *)
  Definition triplets_in_range (n : nat) (ts : list triplet) : bool :=
    forallb (fun t : triplet => let '(tr, tc, _) := t in Nat.ltb tr n && Nat.ltb tc n) ts.

  (* what the harness observes: the dense n x n table of the sparse matrix and D *)
  Definition laplacian_dense (n : nat) (nbrs : list (list nat))
    : lres (list (list F) * list F) :=
    match compute_laplacian n nbrs with
    | LOOB s a b => LOOB s a b
    | LOk (ts, D) => LOk (mtab n n (mat_of_triplets ts), D)
    end.
End LapModel.

(* ---------------------------------------------------------------------- *)
(*  embed(): generalized_eigendecomposition(eigen_method, strategy,        *)
(*  SmallestEigenvalues, laplacian.first, laplacian.second, d).first       *)
(*  Dense back-end: the solver answers ALL N pairs (ascending); the site   *)
(*  `generalized_eigendecomposition_impl_dense`, not-largest arm, of the   *)
(*  generated table says which columns are kept, the generated skip table  *)
(*  says how many are skipped.  Only `.first` (eigenvectors) is returned   *)
(*  by the method, so the eigenvalue selector (defect F7) is not used here.*)
(* ---------------------------------------------------------------------- *)
Definition find_site (file fn : String.string) (largest : bool) : option branch :=
  find (fun b => String.eqb (b_file b) file && String.eqb (b_fn b) fn
                 && Bool.eqb (b_largest b) largest) eig_table.

Definition skip_of (strategy : String.string) : option nat :=
  option_map snd (find (fun p : String.string * nat => String.eqb (fst p) strategy) skip_table).

Definition le_site : option branch :=
  find_site "generalized_eigendecomposition.hpp" "generalized_eigendecomposition_impl_dense" false.

Definition le_skip : option nat := skip_of "SmallestEigenvalues".

(* view (offset, count) of the eigenvector columns returned; None = selector leaves the matrix *)
Definition le_select (N d : nat) : option view :=
  match le_site, le_skip with
  | Some b, Some skip => eval_ops d skip (base_eval N d skip (b_base b)) (b_cols b)
  | _, _ => None
  end.

Section LapEmbed.
  Context {F : Type} {Fo : FieldOps F}.
  (* V: all eigenvectors as columns (the oracle's answer); result: N x d embedding *)
  Definition le_embedding (N d : nat) (V : mat F) : option (mat F) :=
    match le_select N d with
    | Some v => Some (fun r c => V r (fst v + c))
    | None => None
    end.
End LapEmbed.
