(* ====================================================================== *)
(*  Lap_Model.v — executable model of Laplacian Eigenmaps (property C09)   *)
(*                                                                         *)
(*  Mirrors, statement by statement,                                       *)
(*    routines/laplacian_eigenmaps.hpp   compute_laplacian                 *)
(*    methods/laplacian_eigenmaps.hpp    embed()  (neighbour search oracle *)
(*                                       -> compute_laplacian; which       *)
(*                                       columns of the generalised solver *)
(*                                       are returned)                     *)
(*    routines/generalized_eigendecomposition.hpp  column selection, via   *)
(*                                       the GENERATED table gen/EigSelect *)
(*                                       (agent c05's translator t_eig.py) *)
(*  No proofs here (CONVENTIONS section 1).                                *)
(*                                                                         *)
(*  Numbers: abstract field F (FieldOps only — the model runs on anything  *)
(*  with the operations; Qc in the extraction).  `exp` is a VALUE ORACLE   *)
(*  `expo : F -> F`; the distance callback is `dist : nat -> nat -> F`     *)
(*  (samples are identified with their positions begin[i]).                *)
(*                                                                         *)
(*  Containers with data dependent indices (neighbour ids index D and the  *)
(*  triplets' rows/columns) are LISTS with checked accesses: any access    *)
(*  the C++ would make outside a container returns `LOOB site idx size`.   *)
(*    site 0  neighbors[0]            (k is read from the first list)      *)
(*    site 1  neighbors[iter-begin]                                        *)
(*    site 2  current_neighbors[i]    (a list shorter than the first one)  *)
(*    site 3  D(iter - begin)                                              *)
(*    site 4  D(current_neighbors[i]) (neighbour id >= N)                  *)
(* ====================================================================== *)
Require Import Arith Bool String List.
From TK Require Import Mat_Sums Mat_Core Mat_EigSelect EigSelect.
Import ListNotations.
(* gen/EigSelect.v opens string_scope globally: put list_scope back on top *)
Local Open Scope string_scope.
Local Open Scope list_scope.

Inductive lres (A : Type) : Type :=
| LOk (a : A)
| LOOB (site idx size : nat).
Arguments LOk {A} a.
Arguments LOOB {A} site idx size.

Section LapModel.
  Context {F : Type} {Fo : FieldOps F}.
  Local Open Scope F_scope.

  Variable dist : nat -> nat -> F.      (* callback.distance(begin[i], begin[j]) *)
  Variable width : F.                   (* gaussian_kernel_width *)
  Variable expo : F -> F.               (* std::exp, value oracle *)

  (* ScalarType distance = callback.distance( *iter, begin[current_neighbors[i]] );
     ScalarType heat = exp(-distance * distance / width);   parsed ((-distance)*distance)/width *)
  Definition heat_of (i nb : nat) : F :=
    let distance := dist i nb in
    expo ((- distance) * distance / width).

  Definition triplet : Type := (nat * nat * F)%type.      (* SparseTriplet(row, col, value) *)

  Record lstate : Type := mk_lstate { st_D : list F; st_T : list triplet }.

  Fixpoint upd (l : list F) (i : nat) (v : F) : list F :=
    match l, i with
    | [], _ => []
    | _ :: r, O => v :: r
    | a :: r, S i' => a :: upd r i' v
    end.

  (* body of `for (IndexType i = 0; i < k; ++i)` — here the inner index is j, the row is i *)
  Definition edge_step (i : nat) (cur : list nat) (acc : lres lstate) (j : nat) : lres lstate :=
    match acc with
    | LOOB s a b => LOOB s a b
    | LOk st =>
        match nth_error cur j with
        | None => LOOB 2 j (length cur)
        | Some nb =>
            let heat := heat_of i nb in
            match nth_error (st_D st) i with
            | None => LOOB 3 i (length (st_D st))
            | Some di =>
                let D1 := upd (st_D st) i (di + heat) in              (* D(iter - begin) += heat *)
                match nth_error D1 nb with
                | None => LOOB 4 nb (length D1)
                | Some dn =>
                    LOk (mk_lstate
                           (upd D1 nb (dn + heat))                     (* D(current_neighbors[i]) += heat *)
                           (st_T st ++ [(nb, i, - heat); (i, nb, - heat)]))
                end
            end
        end
    end.

  (* body of `for (iter = begin; iter != end; ++iter)` *)
  Definition row_step (k : nat) (nbrs : list (list nat)) (acc : lres lstate) (i : nat)
    : lres lstate :=
    match acc with
    | LOOB s a b => LOOB s a b
    | LOk st =>
        match nth_error nbrs i with
        | None => LOOB 1 i (length nbrs)
        | Some cur => fold_left (edge_step i cur) (seq 0 k) (LOk st)
        end
    end.

  (* for (i = 0; i < N; ++i) sparse_triplets.push_back(SparseTriplet(i, i, D(i))); *)
  Definition diag_triplets (n : nat) (D : list F) : list triplet :=
    map (fun i => (i, i, nth i D 0)) (seq 0 n).

  (* the triplet list and the degree vector, exactly as accumulated *)
  Definition compute_laplacian (n : nat) (nbrs : list (list nat))
    : lres (list triplet * list F) :=
    match nbrs with
    | [] => LOOB 0 0 0                                   (* neighbors[0].size() *)
    | first :: _ =>
        let k := length first in
        match fold_left (row_step k nbrs) (seq 0 n) (LOk (mk_lstate (repeat 0 n) [])) with
        | LOOB s a b => LOOB s a b
        | LOk st => LOk (st_T st ++ diag_triplets n (st_D st), st_D st)
        end
    end.

  (* weight_matrix.setFromTriplets(...): duplicates are SUMMED *)
  Definition trip_entry (r c : nat) (t : triplet) : F :=
    let '(tr, tc, v) := t in if Nat.eqb tr r && Nat.eqb tc c then v else 0.

  Definition mat_of_triplets (ts : list triplet) : mat F :=
    fun r c => fold_left (fun acc t => acc + trip_entry r c t) ts 0.

  (* precondition of setFromTriplets: every row / column index inside the n x n matrix *)
  Definition triplets_in_range (n : nat) (ts : list triplet) : bool :=
    forallb (fun t : triplet => let '(tr, tc, _) := t in Nat.ltb tr n && Nat.ltb tc n) ts.

  (* ---- methods/laplacian_eigenmaps.hpp embed(), its first two statements ----
       Neighbors neighbors = find_neighbors_with(plain_distance);
       Laplacian laplacian = compute_laplacian(begin, end, neighbors, distance, width);
     The neighbour search is an ORACLE `search : nat -> list (list nat)` applied to the requested
     parameters[num_neighbors] (its own contract is properties C02/C03; with check_connectivity it
     doubles k until the graph is strongly connected, so the lists it returns may be LONGER than
     requested).  The requested count is NOT an argument of compute_laplacian: the routine reads the
     count from the lists it is handed (neighbors[0].size(), see compute_laplacian above). *)
  Definition le_method_laplacian (search : nat -> list (list nat)) (kreq n : nat)
    : lres (list triplet * list F) :=
    compute_laplacian n (search kreq).

  (* regression variant (seeded change C09_1, NOT the shipped code): the neighbour count is an explicit
     argument of the routine and the method passes parameters[num_neighbors] *)
  Definition compute_laplacian_k (k n : nat) (nbrs : list (list nat))
    : lres (list triplet * list F) :=
    match fold_left (row_step k nbrs) (seq 0 n) (LOk (mk_lstate (repeat 0 n) [])) with
    | LOOB s a b => LOOB s a b
    | LOk st => LOk (st_T st ++ diag_triplets n (st_D st), st_D st)
    end.

  Definition le_method_laplacian_reqk (search : nat -> list (list nat)) (kreq n : nat)
    : lres (list triplet * list F) :=
    compute_laplacian_k kreq n (search kreq).

  (* regression variant (seeded change C09_4, NOT the shipped code):
         ScalarType heat = exp(-distance * distance / width);
         if (heat == 0.0) break;          // "the neighbours are ordered by distance, the rest vanish too"
     the rest of the sample's list is not looked at once a weight is exactly zero.  `isz` is the test
     `heat == 0.0`; the flag says that the inner loop has been left. *)
  Definition edge_step_brk (isz : F -> bool) (i : nat) (cur : list nat)
             (acc : lres lstate * bool) (j : nat) : lres lstate * bool :=
    let '(a, stopped) := acc in
    if stopped then (a, true) else
    match a with
    | LOOB s x y => (LOOB s x y, false)
    | LOk st =>
        match nth_error cur j with
        | None => (LOOB 2 j (length cur), false)
        | Some nb =>
            if isz (heat_of i nb) then (LOk st, true)
            else (edge_step i cur (LOk st) j, false)
        end
    end.

  Definition row_step_brk (isz : F -> bool) (k : nat) (nbrs : list (list nat)) (acc : lres lstate) (i : nat)
    : lres lstate :=
    match acc with
    | LOOB s a b => LOOB s a b
    | LOk st =>
        match nth_error nbrs i with
        | None => LOOB 1 i (length nbrs)
        | Some cur => fst (fold_left (edge_step_brk isz i cur) (seq 0 k) (LOk st, false))
        end
    end.

  Definition compute_laplacian_brk (isz : F -> bool) (n : nat) (nbrs : list (list nat))
    : lres (list triplet * list F) :=
    match nbrs with
    | [] => LOOB 0 0 0
    | first :: _ =>
        let k := length first in
        match fold_left (row_step_brk isz k nbrs) (seq 0 n) (LOk (mk_lstate (repeat 0 n) [])) with
        | LOOB s a b => LOOB s a b
        | LOk st => LOk (st_T st ++ diag_triplets n (st_D st), st_D st)
        end
    end.

  (* what the harness observes: the dense n x n table of the sparse matrix and D *)
  Definition laplacian_dense (n : nat) (nbrs : list (list nat))
    : lres (list (list F) * list F) :=
    match compute_laplacian n nbrs with
    | LOOB s a b => LOOB s a b
    | LOk (ts, D) => LOk (mtab n n (mat_of_triplets ts), D)
    end.
End LapModel.

(* ---------------------------------------------------------------------- *)
(*  routines/diffusion_maps.hpp  compute_diffusion_matrix                   *)
(*    for i, for j >= i:  k = distance(i,j); gk = exp(-(k*k)/width);        *)
(*                        M(i,j) = gk; M(j,i) = gk;                         *)
(*    p = M.colwise().sum();            M(i,j) /= p(i)*p(j)   (all i, j)    *)
(*    p = M.colwise().sum().cwiseSqrt();M(i,j) /= p(i)*p(j)   (all i, j)    *)
(*  exp and sqrt are VALUE ORACLES (expo, sqrto).  All indices are loop     *)
(*  counters below n_vectors: there is no data dependent access, hence no   *)
(*  OOB result here.  Stages are memoised through lists (Mat_Core header).  *)
(* ---------------------------------------------------------------------- *)
Section DmModel.
  Context {F : Type} {Fo : FieldOps F}.
  Local Open Scope F_scope.

  Variable dist : nat -> nat -> F.
  Variable width : F.
  Variable expo : F -> F.
  Variable sqrto : F -> F.

  (* ScalarType k = callback.distance(begin[i], begin[j]); ScalarType gk = exp(-(k * k) / width); *)
  Definition dm_gk (i j : nat) : F :=
    let k := dist i j in expo ((- (k * k)) / width).

  (* only pairs i <= j are evaluated; the value is written to (i,j) and (j,i) *)
  Definition dm_kernel : mat F :=
    fun i j => if Nat.leb i j then dm_gk i j else dm_gk j i.

  (* diffusion_matrix(i, j) /= p(i) * p(j) *)
  Definition dm_div (M : mat F) (p : vec F) : mat F := fun i j => M i j / (p i * p j).

  (* the routine as a function of the entry (no memoisation) *)
  Definition dm_p1 (n : nat) : vec F := colsum n dm_kernel.
  Definition dm_k1 (n : nat) : mat F := dm_div dm_kernel (dm_p1 n).
  Definition dm_p2 (n : nat) : vec F := fun j => sqrto (colsum n (dm_k1 n) j).
  Definition dm_matrix (n : nat) : mat F := dm_div (dm_k1 n) (dm_p2 n).

  (* the same, stage by stage on lists: this is what is extracted and run *)
  Definition compute_diffusion_matrix (n : nat) : list (list F) :=
    let K := mtab n n dm_kernel in
    let p := vtab n (colsum n (mof K)) in
    let K1 := mtab n n (dm_div (mof K) (vof p)) in
    let s := vtab n (fun j => sqrto (colsum n (mof K1) j)) in
    mtab n n (dm_div (mof K1) (vof s)).

  (* the arguments handed to sqrt (observed by the check to build the oracle table) *)
  Definition dm_sqrt_args (n : nat) : list F :=
    let K := mtab n n dm_kernel in
    let p := vtab n (colsum n (mof K)) in
    let K1 := mtab n n (dm_div (mof K) (vof p)) in
    vtab n (colsum n (mof K1)).
End DmModel.

(* ---------------------------------------------------------------------- *)
(*  embed(): generalized_eigendecomposition(eigen_method, strategy,        *)
(*  SmallestEigenvalues, laplacian.first, laplacian.second, d).first       *)
(*  Dense back-end: the solver answers ALL N pairs (ascending); the site   *)
(*  `generalized_eigendecomposition_impl_dense`, not-largest arm, of the   *)
(*  generated table says which columns are kept, the generated skip table  *)
(*  says how many are skipped.  Only `.first` (eigenvectors) is returned   *)
(*  by the method, so the eigenvalue selector (defect F7) is not used here.*)
(* ---------------------------------------------------------------------- *)
Definition find_site (file fn : String.string) (largest : bool) : option branch :=
  find (fun b => String.eqb (b_file b) file && String.eqb (b_fn b) fn
                 && Bool.eqb (b_largest b) largest) eig_table.

Definition skip_of (strategy : String.string) : option nat :=
  option_map snd (find (fun p : String.string * nat => String.eqb (fst p) strategy) skip_table).

Definition le_site : option branch :=
  find_site "generalized_eigendecomposition.hpp" "generalized_eigendecomposition_impl_dense" false.

Definition le_skip : option nat := skip_of "SmallestEigenvalues".

(* view (offset, count) of the eigenvector columns returned; None = selector leaves the matrix *)
Definition le_select (N d : nat) : option view :=
  match le_site, le_skip with
  | Some b, Some skip => eval_ops d skip (base_eval N d skip (b_base b)) (b_cols b)
  | _, _ => None
  end.

Section LapEmbed.
  Context {F : Type} {Fo : FieldOps F}.
  (* V: all eigenvectors as columns (the oracle's answer); result: N x d embedding *)
  Definition le_embedding (N d : nat) (V : mat F) : option (mat F) :=
    match le_select N d with
    | Some v => Some (fun r c => V r (fst v + c))
    | None => None
    end.
End LapEmbed.

(* ---------------------------------------------------------------------- *)
(*  REGRESSION VARIANT (not the shipped code; seeded change C09_3): the     *)
(*  smallest-eigenvalues arm of generalized_eigendecomposition_impl_dense   *)
(*  "skips the numerical null space":                                       *)
(*     while (skip > 0 && skip + target_dimension < n_eigenvalues           *)
(*            && solver.eigenvalues()[skip] < 1e-9) ++skip;                 *)
(*  before  leftCols(target_dimension + skip).rightCols(target_dimension).  *)
(*  The offset becomes a function of the eigenVALUES and of an ABSOLUTE     *)
(*  threshold eps; ltb is the comparison of the scalar type.  fuel = N.     *)
(* ---------------------------------------------------------------------- *)
Section LapEmbedAbsEps.
  Context {F : Type}.
  Variable ltb : F -> F -> bool.
  Fixpoint skip_while_small (lam : vec F) (eps : F) (N d fuel skip : nat) : nat :=
    match fuel with
    | 0 => skip
    | S f => if Nat.ltb 0 skip && Nat.ltb (skip + d) N && ltb (lam skip) eps
             then skip_while_small lam eps N d f (S skip) else skip
    end.
  Definition le_embedding_abs_eps (N d : nat) (V : mat F) (lam : vec F) (eps : F) : option (mat F) :=
    match le_select N d with
    | Some v => let skip := skip_while_small lam eps N d N (fst v) in
                if Nat.leb (skip + d) N then Some (fun r c => V r (skip + c)) else None
    | None => None
    end.
End LapEmbedAbsEps.

(* ---------------------------------------------------------------------- *)
(*  LaplacianEigenmaps::embed() as ONE function: neighbour search (oracle)  *)
(*  -> compute_laplacian -> generalised solver (oracle: it is handed the    *)
(*  sparse matrix and the diagonal D and answers eigenvectors/eigenvalues)  *)
(*  -> column selection; only `.first` is returned.                         *)
(* ---------------------------------------------------------------------- *)
Section LapMethodEmbed.
  Context {F : Type} {Fo : FieldOps F}.
  Variable dist : nat -> nat -> F.
  Variable width : F.
  Variable expo : F -> F.
  Definition le_method_embed (search : nat -> list (list nat)) (kreq n d : nat)
             (solver : mat F -> vec F -> mat F * vec F) : option (mat F) :=
    match le_method_laplacian dist width expo search kreq n with
    | LOk (ts, D) =>
        let '(V, _) := solver (mat_of_triplets ts) (vof D) in le_embedding n d V
    | LOOB _ _ _ => None
    end.
End LapMethodEmbed.

(* ---------------------------------------------------------------------- *)
(*  methods/diffusion_map.hpp embed():                                      *)
(*    result = eigendecomposition_via(LargestEigenvalues, M, d + 1)         *)
(*    embedding = result.first.leftCols(d)                                  *)
(*    embedding.col(i) *= pow(result.second(i), t)          i < d           *)
(*    embedding.col(i) /= result.first.col(d)               i < d           *)
(*  Dense back-end: the oracle answers all N pairs ascending; the site      *)
(*  `eigendecomposition_impl_dense`, largest arm, of the generated table    *)
(*  says which columns / values form `result` (called with d + 1).          *)
(*  pow is a value oracle  powo x t.                                        *)
(* ---------------------------------------------------------------------- *)
Definition dm_site : option branch :=
  find_site "eigendecomposition.hpp" "eigendecomposition_impl_dense" true.

Definition dm_skip : option nat := skip_of "LargestEigenvalues".

(* views (columns of V, entries of lambda) forming `decomposition_result` for a request of d1 pairs *)
Definition dm_select (N d1 : nat) : option (view * view) :=
  match dm_site, dm_skip with
  | Some b, Some skip =>
      let n := base_eval N d1 skip (b_base b) in
      match eval_ops d1 skip n (b_cols b), eval_ops d1 skip n (b_vals b) with
      | Some vc, Some vv => Some (vc, vv)
      | _, _ => None
      end
  | _, _ => None
  end.

Section DmEmbed.
  Context {F : Type} {Fo : FieldOps F}.
  Local Open Scope F_scope.
  (* V, lam: the oracle's full answer; None = some block / coefficient access out of range *)
  Definition dm_embedding (N d t : nat) (V : mat F) (lam : vec F) (powo : F -> nat -> F)
    : option (mat F) :=
    match dm_select N (d + 1) with
    | Some (vc, vv) =>
        if Nat.leb d (snd vc)            (* .leftCols(d) of result.first *)
           && Nat.ltb d (snd vc)         (* result.first.col(d) *)
           && Nat.leb d (snd vv)         (* result.second(i), i < d *)
        then Some (fun r c =>
                     (V r (fst vc + c)%nat * powo (lam (fst vv + c)%nat) t) / V r (fst vc + d)%nat)
        else None
    | None => None
    end.
End DmEmbed.

(* DiffusionMap::embed() as ONE function: compute_diffusion_matrix -> self-adjoint solver (oracle) ->
   dm_embedding (selection, lambda^t scaling, division by the top column) *)
Section DmMethodEmbed.
  Context {F : Type} {Fo : FieldOps F}.
  Variable dist : nat -> nat -> F.
  Variable width : F.
  Variable expo : F -> F.
  Variable sqrto : F -> F.
  Definition dm_method_embed (n d t : nat) (solver : mat F -> mat F * vec F) (powo : F -> nat -> F)
    : option (mat F) :=
    let '(V, lam) := solver (dm_matrix dist width expo sqrto n) in
    dm_embedding n d t V lam powo.
End DmMethodEmbed.
