(* Conn_Proof_Graph.v — basic facts: lists with update, reachability, walks,
   well-formed graphs, boolean reflections of wf/uniform. *)
From Coq Require Import List Arith Bool ZArith Lia Permutation.
From TK Require Import Conn_Model Conn_Spec.
Import ListNotations.

(* ------------------------------------------------------------ set_nth *)
Lemma set_nth_length : forall (A : Type) (l : list A) n x, length (set_nth l n x) = length l.
Proof.
  induction l as [|h t IH]; intros n x; destruct n; cbn; auto.
Qed.

Lemma nth_error_set_nth_eq : forall (A : Type) (l : list A) n x,
  n < length l -> nth_error (set_nth l n x) n = Some x.
Proof.
  induction l as [|h t IH]; intros n x Hn; cbn in Hn; [lia|].
  destruct n; cbn; [reflexivity|]. apply IH. lia.
Qed.

Lemma nth_error_set_nth_neq : forall (A : Type) (l : list A) n m x,
  m <> n -> nth_error (set_nth l n x) m = nth_error l m.
Proof.
  induction l as [|h t IH]; intros n m x Hmn; destruct n; destruct m; cbn; auto; try lia.
Qed.

Lemma nth_set_nth_eq : forall (A : Type) (l : list A) n x d,
  n < length l -> nth n (set_nth l n x) d = x.
Proof.
  intros A l n x d Hn. apply nth_error_nth. apply nth_error_set_nth_eq; auto.
Qed.

Lemma nth_set_nth_neq : forall (A : Type) (l : list A) n m x d,
  m <> n -> nth m (set_nth l n x) d = nth m l d.
Proof.
  induction l as [|h t IH]; intros n m x d Hmn; destruct n; destruct m; cbn; auto; try lia.
Qed.

Lemma nth_error_Some_lt : forall (A : Type) (l : list A) n x, nth_error l n = Some x -> n < length l.
Proof. intros A l n x H. apply nth_error_Some. congruence. Qed.

Lemma nth_error_lt_Some : forall (A : Type) (l : list A) n, n < length l -> exists x, nth_error l n = Some x.
Proof.
  intros A l n H. destruct (nth_error l n) eqn:E; eauto.
  apply nth_error_None in E. lia.
Qed.

Lemma nth_error_nth_default : forall (A : Type) (l : list A) n x d, nth_error l n = Some x -> nth n l d = x.
Proof. intros. apply nth_error_nth; auto. Qed.

(* ------------------------------------------------------------ reach *)
Lemma reach_trans : forall nb i j l, reach nb i j -> reach nb j l -> reach nb i l.
Proof.
  intros nb i j l H. induction H as [|i j m He Hr IH]; auto.
  intros Hl. eapply reach_step; eauto.
Qed.

Lemma reach_edge : forall nb i j, edge nb i j -> reach nb i j.
Proof. intros nb i j H. eapply reach_step; eauto. apply reach_refl. Qed.

Lemma reach_step_r : forall nb i j l, reach nb i j -> edge nb j l -> reach nb i l.
Proof. intros nb i j l H He. eapply reach_trans; eauto. apply reach_edge; auto. Qed.

Lemma edge_inv : forall nb i j, edge nb i j ->
  exists row, nth_error nb i = Some row /\ In j row.
Proof.
  unfold edge. intros nb i j H.
  destruct (nth_error nb i) as [row|] eqn:E.
  - exists row. split; auto. erewrite nth_error_nth_default in H; eauto.
  - apply nth_error_None in E. rewrite nth_overflow in H by lia. destruct H.
Qed.

Lemma edge_of_nth_error : forall nb i j row, nth_error nb i = Some row -> In j row -> edge nb i j.
Proof.
  unfold edge. intros nb i j row E H. erewrite nth_error_nth_default; eauto.
Qed.

Lemma wf_edge : forall N nb i j, wf_graph N nb -> edge nb i j -> i < N /\ j < N.
Proof.
  intros N nb i j [Hl Hr] He. apply edge_inv in He. destruct He as [row [E Hin]].
  split.
  - rewrite <- Hl. eapply nth_error_Some_lt; eauto.
  - eapply Hr; eauto. eapply nth_error_In; eauto.
Qed.

Lemma wf_reach_lt : forall N nb i j, wf_graph N nb -> reach nb i j -> i < N -> j < N.
Proof.
  intros N nb i j Hwf H. induction H as [|i j l He Hr IH]; auto.
  intros _. apply IH. eapply wf_edge; eauto.
Qed.

(* ------------------------------------------------------------ walks *)
Lemma reach_iff_walk : forall nb i j, reach nb i j <-> exists vs, walk nb i vs j.
Proof.
  intros nb i j. split.
  - intros H. induction H as [i|i j l He Hr [vs IH]].
    + exists []. reflexivity.
    + exists (j :: vs). split; auto.
  - intros [vs H]. revert i H. induction vs as [|v vs IH]; intros i H; cbn in H.
    + subst. apply reach_refl.
    + destruct H as [He Hw]. eapply reach_step; eauto.
Qed.

(* ------------------------------------------------------------ boolean reflections *)
Lemma wf_b_spec : forall N nb, wf_b N nb = true <-> wf_graph N nb.
Proof.
  intros N nb. unfold wf_b, wf_graph. rewrite andb_true_iff, Nat.eqb_eq, forallb_forall.
  split; intros [Hl H]; split; auto.
  - intros row Hr j Hj. apply H in Hr. rewrite forallb_forall in Hr.
    apply Hr in Hj. apply Nat.ltb_lt; auto.
  - intros row Hr. apply forallb_forall. intros j Hj. apply Nat.ltb_lt. eapply H; eauto.
Qed.

Lemma uniform_b_spec : forall nb, uniform_b nb = true <-> uniform nb.
Proof.
  intros nb. unfold uniform_b, uniform. rewrite forallb_forall.
  split; intros H row Hr; specialize (H row Hr); apply Nat.eqb_eq; auto.
Qed.

Lemma mem_spec : forall x l, mem x l = true <-> In x l.
Proof.
  intros x l. unfold mem. rewrite existsb_exists. split.
  - intros [y [Hy E]]. apply Nat.eqb_eq in E. subst; auto.
  - intros H. exists x. split; auto. apply Nat.eqb_refl.
Qed.

Lemma total_len_uniform : forall k g, (forall row, In row g -> length row = k) ->
  total_len g = length g * k.
Proof.
  intros k g. induction g as [|r g IH]; intros H; auto.
  change (total_len (r :: g)) with (length r + total_len g).
  rewrite IH by (intros; apply H; right; auto).
  rewrite (H r) by (left; auto). cbn [length]. lia.
Qed.
