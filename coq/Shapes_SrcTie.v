(* Shapes_SrcTie.v — C01: the executable detector the check's search phase runs (extracted): does any of
   the three tables regenerated from the C++ working tree treat this request differently from the
   hand-written model?  Definitions only; `src_never_differs` (Shapes_Proof_Tie.v) shows it is silent on
   every request when the tables are those of the source the model was written from. *)
From Coq Require Import ZArith List Bool.
From TK Require Import Shapes_Model Validate_Model Mat_EigSelect Shapes_Src ShapesSrc Validate_C01 EigSelect_C01.
Open Scope Z_scope.

Definition src_differs (c : cfg) (keff : Z) : bool :=
  facts_differ_cfg gen_facts c keff || validate_differs_cfg gen_tables c || eig_differs_cfg eig_table c.

(* which table(s): 1 = sizing/index expressions, 2 = validate(), 4 = eigen slices *)
Definition src_differs_mask (c : cfg) (keff : Z) : Z :=
  (if facts_differ_cfg gen_facts c keff then 1 else 0) +
  (if validate_differs_cfg gen_tables c then 2 else 0) +
  (if eig_differs_cfg eig_table c then 4 else 0).
