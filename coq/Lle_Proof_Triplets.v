(* ====================================================================== *)
(*  Lle_Proof_Triplets.v — sparse_matrix_from_triplets (C08)               *)
(*    from_triplets_app / _perm / _flat_map_seq / _map_seq                 *)
(*    trip_at_delta : a triplet contributes delta r i * delta c j * v      *)
(*    ind_delta     : (if x =? y then v else 0) = delta x y * v            *)
(*  The matrix assembled by setFromTriplets is the SUM of the duplicates   *)
(*  and does not depend on the order in which OpenMP threads appended      *)
(*  their blocks.                                                          *)
(* ====================================================================== *)
Require Import Field Ring Arith Lia List Bool Permutation.
From TK Require Import Mat_Sums Mat_Core Lle_Model.
Import ListNotations.

Section Trip.
  Context {F : Type} {Fo : FieldOps F} {Ff : IsField F}.
  Add Field LleTripField : (@Fth F Fo Ff).
  Local Open Scope F_scope.
  Local Notation triplet := (@triplet F).

  Lemma ind_delta (x y : nat) (v : F) :
    (if Nat.eqb x y then v else 0) = delta x y * v.
  Proof. unfold delta. destruct (Nat.eqb x y); ring. Qed.

  Lemma trip_at_delta r c i j (v : F) :
    trip_at r c (i, j, v) = delta r i * delta c j * v.
  Proof.
    unfold trip_at, delta. rewrite (Nat.eqb_sym r i), (Nat.eqb_sym c j).
    destruct (Nat.eqb i r); destruct (Nat.eqb j c); cbn [andb]; ring.
  Qed.

  Lemma from_triplets_app (t1 t2 : list triplet) r c :
    from_triplets (t1 ++ t2) r c = from_triplets t1 r c + from_triplets t2 r c.
  Proof.
    induction t1 as [|t t1 IH]; cbn [from_triplets app]; [ring|]. rewrite IH. ring.
  Qed.

  Lemma from_triplets_perm (t1 t2 : list triplet) r c :
    Permutation t1 t2 -> from_triplets t1 r c = from_triplets t2 r c.
  Proof.
    induction 1 as [|x l l' _ IH|x y l|l l' l'' _ IH1 _ IH2]; cbn [from_triplets].
    - reflexivity.
    - rewrite IH. reflexivity.
    - ring.
    - rewrite IH1. exact IH2.
  Qed.

  Lemma from_triplets_flat_map_seq (f : nat -> list triplet) n r c :
    from_triplets (flat_map f (seq 0 n)) r c = sumn n (fun i => from_triplets (f i) r c).
  Proof.
    induction n as [|n IH]; [reflexivity|].
    rewrite seq_S, flat_map_app, from_triplets_app, IH. cbn [flat_map sumn Nat.add].
    rewrite app_nil_r. reflexivity.
  Qed.

  Lemma from_triplets_map_seq (g : nat -> triplet) n r c :
    from_triplets (map g (seq 0 n)) r c = sumn n (fun i => trip_at r c (g i)).
  Proof.
    induction n as [|n IH]; [reflexivity|].
    rewrite seq_S, map_app, from_triplets_app, IH. cbn [map from_triplets sumn Nat.add]. ring.
  Qed.

  (* blocks appended in any order give the same matrix *)
  Lemma from_triplets_order (f : nat -> list triplet) (order : list nat) N r c :
    Permutation order (seq 0 N) ->
    from_triplets (flat_map f order) r c = sumn N (fun i => from_triplets (f i) r c).
  Proof.
    intros HP. rewrite <- from_triplets_flat_map_seq.
    apply from_triplets_perm. apply Permutation_flat_map. exact HP.
  Qed.

  (* the executed variant (only the triplets that hit (r,c) are added) *)
  Lemma fold_hits_acc (ts : list triplet) r c acc :
    fold_left (fun a t => a + snd t) (filter (trip_hits r c) ts) acc = acc + from_triplets ts r c.
  Proof.
    revert acc. induction ts as [|t ts IH]; intros acc; cbn [filter fold_left from_triplets]; [ring|].
    destruct t as [[i j] v]. unfold trip_hits at 1. unfold trip_at.
    destruct (Nat.eqb i r && Nat.eqb j c)%bool.
    - cbn [fold_left snd]. rewrite IH. ring.
    - rewrite IH. ring.
  Qed.

  Lemma from_triplets_fast_ok (ts : list triplet) r c :
    from_triplets_fast ts r c = from_triplets ts r c.
  Proof. unfold from_triplets_fast. rewrite fold_hits_acc. ring. Qed.

  (* every entry outside the index box is zero when all triplets are in range
     (setFromTriplets would write outside the matrix otherwise) *)
  Lemma sum_delta_in n x : x < n -> sumn n (fun c => @delta F Fo c x) = 1.
  Proof.
    intros Hx. rewrite (sumn_ext n _ (fun c => 1 * delta c x)) by (intros; ring).
    rewrite (sumn_delta_r n x (fun _ => 1)) by assumption. reflexivity.
  Qed.
End Trip.
