(* ====================================================================== *)
(*  Pca_Proof_Recon.v — what "retains variance" means for reconstruction:  *)
(*  for any D x d matrix Q with orthonormal columns,                       *)
(*     1/N sum_k | x_k^c - Q Q^T x_k^c |^2  =  trace(C) - trace(Q^T C Q)   *)
(*  so PCA's P (which maximises the retained variance, Pca_Proof_Opt)      *)
(*  minimises the mean squared reconstruction error among all orthogonal   *)
(*  projections of rank d.  Every (ordered) field.                         *)
(* ====================================================================== *)
Require Import Field Ring Arith Lia List Bool.
From TK Require Import Mat_Sums Mat_Core Proj_Model Proj_Spec Proj_Proof Pca_Model Pca_Spec Pca_Proof
                       Spectral_KyFan Pca_Proof_Opt.

Section Recon.
  Context {F : Type} {Fo : FieldOps F} {Ff : IsField F}.
  Add Field ReconField : (@Fth F Fo Ff).
  Local Open Scope nat_scope.
  Local Open Scope F_scope.

  Definition mtrace (D : nat) (C : mat F) : F := sumn D (fun i => C i i).

  (* reconstruction of centred sample k from its d coordinates: Q (Q^T x) *)
  Definition reconstruct (N D d : nat) (X Q : mat F) (k : nat) : vec F :=
    fun i => sumn d (fun c => Q i c * pca_embedding N D X Q k c).

  Definition recon_error (N D d : nat) (X Q : mat F) : F :=
    sumn N (fun k => sumn D (fun i =>
      (centred N X k i - reconstruct N D d X Q k i) * (centred N X k i - reconstruct N D d X Q k i)))
    / of_nat N.

  Lemma sq_norm_residual D d (Q : mat F) (x : vec F) :
    meq d d (mmul D (mtrans Q) Q) mI ->
    let a := fun c => sumn D (fun t => Q t c * x t) in
    sumn D (fun i => (x i - sumn d (fun c => Q i c * a c)) * (x i - sumn d (fun c => Q i c * a c)))
    = sumn D (fun i => x i * x i) - sumn d (fun c => a c * a c).
  Proof.
    intros HQ a.
    rewrite (sumn_ext D _ (fun i => x i * x i
               - (1 + 1) * sumn d (fun c => a c * (Q i c * x i))
               + sumn d (fun c => sumn d (fun c' => (a c * a c') * (Q i c * Q i c'))))).
    2:{ intros i _.
        rewrite (sumn_ext d (fun c => a c * (Q i c * x i)) (fun c => x i * (Q i c * a c)))
          by (intros; ring).
        rewrite sumn_mul_l.
        rewrite (sumn_ext d (fun c => sumn d (fun c' => a c * a c' * (Q i c * Q i c')))
                   (fun c => sumn d (fun c' => Q i c * a c * (Q i c' * a c')))).
        2:{ intros c _. apply sumn_ext. intros c' _. ring. }
        rewrite <- sumn_mul_sumn. ring. }
    rewrite sumn_add, sumn_sub, sumn_mul_l.
    assert (E2 : sumn D (fun i => sumn d (fun c => a c * (Q i c * x i))) = sumn d (fun c => a c * a c)).
    { rewrite sumn_swap. apply sumn_ext. intros c _. rewrite sumn_mul_l. reflexivity. }
    assert (E3 : sumn D (fun i => sumn d (fun c => sumn d (fun c' =>
                    (a c * a c') * (Q i c * Q i c')))) = sumn d (fun c => a c * a c)).
    { rewrite sumn_swap. apply sumn_ext. intros c Hc. rewrite sumn_swap.
      rewrite (sumn_ext d _ (fun c' => (a c * a c') * mI c c')).
      2:{ intros c' Hc'. rewrite sumn_mul_l. f_equal.
          specialize (HQ c c' Hc Hc'). unfold mmul, mtrans in HQ. exact HQ. }
      unfold mI. rewrite (sumn_ext d _ (fun c' => (a c * a c') * delta c' c))
        by (intros; rewrite delta_sym; reflexivity).
      rewrite sumn_delta_r by assumption. reflexivity. }
    rewrite E2, E3. ring.
  Qed.

  Lemma trace_cov N D (X : mat F) :
    of_nat N <> 0 ->
    mtrace D (cov_spec N X) = sumn N (fun k => sumn D (fun i => centred N X k i * centred N X k i)) / of_nat N.
  Proof.
    intros HN. unfold mtrace, cov_spec. rewrite sumn_swap.
    rewrite (Fdiv_def (@Fth F Fo Ff)). rewrite <- sumn_mul_r. apply sumn_ext. intros i _.
    rewrite (Fdiv_def (@Fth F Fo Ff)). reflexivity.
  Qed.

  Theorem recon_error_identity N D d (X Q : mat F) :
    of_nat N <> 0 ->
    meq d d (mmul D (mtrans Q) Q) mI ->
    recon_error N D d X Q = mtrace D (cov_spec N X) - retained D d (cov_spec N X) Q.
  Proof.
    intros HN HQ. unfold recon_error.
    rewrite (sumn_ext N _ (fun k => sumn D (fun i => centred N X k i * centred N X k i)
               - sumn d (fun c => pca_embedding N D X Q k c * pca_embedding N D X Q k c))).
    2:{ intros k _. unfold reconstruct.
        exact (sq_norm_residual D d Q (centred N X k) HQ). }
    rewrite sumn_sub. rewrite trace_cov by assumption.
    rewrite (retained_is_projected_variance N D d X Q HN).
    rewrite (sumn_swap N d).
    rewrite (sumn_ext d (fun c => sumn N _ / of_nat N)
               (fun c => sumn N (fun k => pca_embedding N D X Q k c * pca_embedding N D X Q k c) * / of_nat N))
      by (intros; apply (Fdiv_def (@Fth F Fo Ff))).
    rewrite sumn_mul_r. field. assumption.
  Qed.
End Recon.

Section ReconOpt.
  Context {F : Type} {Fo : FieldOps F} {Ff : IsField F} {Fle : OrderedField F}.
  Add Field ReconOptField : (@Fth F Fo Ff).
  Local Open Scope nat_scope.

  (* PCA's projection has the smallest mean squared reconstruction error *)
  Theorem pca_reconstruction_optimal N D d (X V Q : mat F) (Lam : vec F) :
    of_nat N <> fzero -> d <= D ->
    full_contract D (cov_spec N X) V Lam ->
    ascending D Lam ->
    meq d d (mmul D (mtrans Q) Q) mI ->
    let P := select_cols V (D - d, d) in
    fle (recon_error N D d X P) (recon_error N D d X Q).
  Proof.
    intros HN Hd Hfull Hasc HQ P.
    assert (HP : meq d d (mmul D (mtrans P) P) mI).
    { destruct (@select_contract F Fo Ff D d (D - d) (cov_spec N X) V Lam ltac:(lia) Hfull) as [H _].
      exact H. }
    rewrite (recon_error_identity N D d X P HN HP), (recon_error_identity N D d X Q HN HQ).
    destruct (pca_variance_optimal N D d X V Q Lam Hd Hfull Hasc HQ) as [Hle _]. fold P in Hle.
    (* t - rP <= t - rQ  from  rQ <= rP *)
    apply fle_of_sub_nonneg.
    replace (fsub (fsub (mtrace D (cov_spec N X)) (retained D d (cov_spec N X) Q))
                  (fsub (mtrace D (cov_spec N X)) (retained D d (cov_spec N X) P)))
      with (fsub (retained D d (cov_spec N X) P) (retained D d (cov_spec N X) Q)) by ring.
    apply fle_sub_nonneg. exact Hle.
  Qed.
End ReconOpt.
