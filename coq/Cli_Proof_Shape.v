(* ====================================================================== *)
(*  Cli_Proof_Shape.v — the two algorithms of src/cli/util.hpp that are    *)
(*  tied by shape (translate/t_cli.py: gen_read_check, gen_mfc):           *)
(*   * read_data's length test.  The reviewed shape tests EVERY row        *)
(*     (to_matrix: Cli_Proof_Files.to_matrix_unequal).  The aggregate      *)
(*     variant `#values = #lines * columns` (to_matrix_total) reads every  *)
(*     well-formed file identically (to_matrix_total_rect) and accepts     *)
(*     EVERY ragged file whose total happens to fit                        *)
(*     (to_matrix_total_accepts, total_count_refuted): regression model    *)
(*     of seeded change C20_2.                                             *)
(*   * matrix_from_callback's loops.  mfc_with init off: the reviewed      *)
(*     shape is off = 0 (mfc_with_doc); with off >= 1 the diagonal keeps   *)
(*     its initial value (mfc_strict_upper_diag): regression model of      *)
(*     seeded change C20_1 / mutant m7.                                    *)
(* ====================================================================== *)
From Coq Require Import String Ascii List Arith Bool Lia ZArith.
From TK Require Import Cli_Model Cli_Spec Cli_Proof_Files Cli_Proof_Pre.
Import ListNotations.

Section ShapeFiles.
  Variable V : Type.

  Lemma length_concat_rect : forall c (rows : list (list V)),
    rect V c rows -> length (concat rows) = length rows * c.
  Proof.
    induction rows as [|r rows IH]; intro H; [reflexivity|].
    inversion H as [|? ? Hr Hrows]; subst.
    cbn [concat length]. rewrite app_length. rewrite IH by exact Hrows. cbn. lia.
  Qed.

  Lemma firstn_app_exact : forall (a b : list V), firstn (length a) (a ++ b) = a.
  Proof. induction a as [|x a IH]; intro b; [reflexivity|]. cbn. rewrite IH. reflexivity. Qed.

  Lemma skipn_app_exact : forall (a b : list V), skipn (length a) (a ++ b) = b.
  Proof. induction a as [|x a IH]; intro b; [reflexivity|]. cbn. apply IH. Qed.

  Lemma chunks_concat : forall c (rows : list (list V)),
    rect V c rows -> chunks V c (length rows) (concat rows) = rows.
  Proof.
    induction rows as [|r rows IH]; intro H; [reflexivity|].
    inversion H as [|? ? Hr Hrows]; subst.
    cbn [length concat chunks]. rewrite firstn_app_exact, skipn_app_exact.
    rewrite IH by exact Hrows. reflexivity.
  Qed.

  (* why the aggregate test is invisible in ordinary use: every well-formed file is read identically *)
  Theorem to_matrix_total_rect : forall c (rows : list (list V)),
    rect V c rows -> to_matrix_total V rows = to_matrix V rows.
  Proof.
    intros c rows H. rewrite (to_matrix_rect V c rows H).
    destruct rows as [|r0 rows]; [reflexivity|].
    unfold to_matrix_total.
    inversion H as [|? ? Hr Hrows]; subst.
    rewrite (length_concat_rect (length r0) (r0 :: rows) H). rewrite Nat.eqb_refl.
    rewrite (chunks_concat (length r0) (r0 :: rows) H). reflexivity.
  Qed.

  (* ... and every file whose total fits is accepted, ragged or not *)
  Theorem to_matrix_total_accepts : forall (r0 : list V) rows,
    length (concat (r0 :: rows)) = length (r0 :: rows) * length r0 ->
    to_matrix_total V (r0 :: rows)
    = RMat (chunks V (length r0) (length (r0 :: rows)) (concat (r0 :: rows))).
  Proof.
    intros r0 rows H. unfold to_matrix_total. rewrite H. rewrite Nat.eqb_refl. reflexivity.
  Qed.

  Theorem to_matrix_total_rejects : forall (r0 : list V) rows,
    length (concat (r0 :: rows)) <> length (r0 :: rows) * length r0 ->
    to_matrix_total V (r0 :: rows) = RWrong (length (r0 :: rows)).
  Proof.
    intros r0 rows H. unfold to_matrix_total. apply Nat.eqb_neq in H. rewrite H. reflexivity.
  Qed.

  (* the per-row test and the aggregate test, side by side, for the shape tables *)
  Theorem every_row_rejects_ragged : forall (r0 : list V) rows i r,
    nth_error (r0 :: rows) i = Some r -> length r <> length r0 ->
    exists k, to_matrix_with V CheckEveryRow (r0 :: rows) = Some (RWrong k).
  Proof.
    intros r0 rows i r Hn Hl.
    destruct (to_matrix_unequal V r0 rows i r Hn Hl) as [k [Hk _]].
    exists k. cbn [to_matrix_with]. rewrite Hk. reflexivity.
  Qed.
End ShapeFiles.

(* rows of 3, 2, 4 values: 9 = 3 x 3, accepted and re-wrapped into shifted samples *)
Theorem total_count_refuted :
  exists (rows m : list (list nat)) i r,
    nth_error rows i = Some r /\ length r <> length (hd [] rows) /\
    (exists k, to_matrix nat rows = RWrong k) /\
    to_matrix_with nat CheckTotalCount rows = Some (RMat m) /\ m <> rows.
Proof.
  exists [[1; 2; 3]; [4; 5]; [6; 7; 8; 10]], [[1; 2; 3]; [4; 5; 6]; [7; 8; 10]], 1, [4; 5].
  split; [reflexivity|]. split; [discriminate|]. split; [exists 1; reflexivity|].
  split; [vm_compute; reflexivity|discriminate].
Qed.

Section ShapePre.
  Variable S : Type.
  Variable cb : nat -> nat -> S.

  Lemma writes_from_0 : forall N, writes_from S cb 0 N = writes S cb N.
  Proof.
    intro N. unfold writes_from, writes. apply flat_map_ext. intro i.
    rewrite Nat.add_0_r. reflexivity.
  Qed.

  Theorem mfc_with_doc : forall N,
    mfc_with S cb (fun _ _ => None) 0 N = matrix_from_callback S cb N.
  Proof. intro N. unfold mfc_with, matrix_from_callback. rewrite writes_from_0. reflexivity. Qed.

  Lemma in_writes_from : forall off N w,
    In w (writes_from S cb off N) ->
    exists i j, i + off <= j /\ j < N /\ (w = ((i, j), cb i j) \/ w = ((j, i), cb i j)).
  Proof.
    intros off N w. unfold writes_from. rewrite in_flat_map.
    intros [i [Hi Hw]]. apply in_seq in Hi. apply in_flat_map in Hw.
    destruct Hw as [j [Hj Hw]]. apply in_seq in Hj.
    exists i, j. split; [lia|]. split; [lia|].
    destruct Hw as [<-|[<-|[]]]; auto.
  Qed.

  Lemma fold_upd_untouched : forall (ws : list ((nat * nat) * S)) (t : table S) a b,
    (forall w, In w ws -> fst w <> (a, b)) -> fold_left (upd S) ws t a b = t a b.
  Proof.
    induction ws as [|w ws IH]; intros t a b H; [reflexivity|].
    cbn [fold_left]. rewrite IH by (intros w' Hin; apply H; right; exact Hin).
    unfold upd.
    destruct (Nat.eqb a (fst (fst w)) && Nat.eqb b (snd (fst w))) eqn:E; [|reflexivity].
    exfalso. apply andb_true_iff in E. destruct E as [E1 E2].
    apply Nat.eqb_eq in E1. apply Nat.eqb_eq in E2.
    apply (H w); [left; reflexivity|]. destruct w as [[x y] s]. cbn in *. congruence.
  Qed.

  (* with `for (j = i + off; ...)`, off >= 1, no assignment ever reaches the diagonal *)
  Theorem mfc_strict_upper_diag : forall (init : table S) off N a,
    1 <= off -> mfc_with S cb init off N a a = init a a.
  Proof.
    intros init off N a Hoff. unfold mfc_with. apply fold_upd_untouched.
    intros w Hin Hfst. apply in_writes_from in Hin.
    destruct Hin as [i [j [Hij [HjN [-> | ->]]]]]; cbn in Hfst; injection Hfst as <- <-; lia.
  Qed.

  (* seeded change C20_1: zero-initialised result, strict upper triangle: the kernel diagonal is lost *)
  Theorem mfc_zero_strict_upper_refuted : forall (zero : S) N a t,
    a < N -> mfc_of_shape S cb zero (MfcLoops InitZero 1) N = Some t -> t a a = Some zero.
  Proof.
    intros zero N a t Ha H. cbn [mfc_of_shape] in H. injection H as <-.
    rewrite mfc_strict_upper_diag by lia.
    apply Nat.ltb_lt in Ha. rewrite Ha. reflexivity.
  Qed.

  (* the reviewed shape: every cell holds cb(min, max) *)
  Theorem mfc_doc_shape_value : forall (zero : S) N a b t,
    a < N -> b < N -> mfc_of_shape S cb zero (MfcLoops InitUninit 0) N = Some t ->
    t a b = Some (cb (Nat.min a b) (Nat.max a b)).
  Proof.
    intros zero N a b t Ha Hb H. cbn [mfc_of_shape] in H. injection H as <-.
    rewrite mfc_with_doc. apply table_value; assumption.
  Qed.
End ShapePre.

(* a kernel whose diagonal is not zero: the strict-upper-triangle table is wrong on it *)
Theorem precompute_strict_upper_refuted_witness :
  exists (X : nat -> list Z) N a t,
    a < N /\ mfc_of_shape Z (fun a b => dotZ (X a) (X b)) 0%Z (MfcLoops InitZero 1) N = Some t /\
    t a a = Some 0%Z /\ dotZ (X a) (X a) <> 0%Z.
Proof.
  exists (fun _ => [1%Z; 2%Z]), 2, 0. eexists. split; [lia|]. split; [reflexivity|].
  split; [vm_compute; reflexivity|vm_compute; discriminate].
Qed.
