(* ====================================================================== *)
(*  Landmark_Spec.v — what property C11 claims, against the mathematical   *)
(*  objects, plus the boolean decision procedures the check runs on the    *)
(*  implementation's own outputs (extracted at Qc).                        *)
(*   - landmarks_ok      : distinct, all < N, exactly `count` of them      *)
(*   - tri_spec_row      : -1/2 * pinv(L) * (d^2 - mean landmark d^2)       *)
(*   - lm_sqdist / lm_dist_reproduced : pairwise distances of an embedding *)
(*   - lm_eig_contract   : what is assumed about the dense eigen-solver    *)
(*   - same_upto_sign    : equality of two embeddings modulo column signs  *)
(*  Only depends on the shared Mat_* library.                              *)
(* ====================================================================== *)
Require Import Arith Lia List Bool ZArith QArith Qcanon.
From TK Require Import Mat_Sums Mat_Core Mat_Qc Landmark_Model.
Import ListNotations.
Local Open Scope nat_scope.

(* ---------------- landmark selection ---------------- *)
Definition landmarks_ok (N count : nat) (lm : list nat) : Prop :=
  NoDup lm /\ Forall (fun l => l < N) lm /\ length lm = count.

Fixpoint nodupb (l : list nat) : bool :=
  match l with
  | [] => true
  | a :: r => negb (existsb (Nat.eqb a) r) && nodupb r
  end.

Definition landmarks_okb (N count : nat) (lm : list nat) : bool :=
  nodupb lm && forallb (fun l => Nat.ltb l N) lm && Nat.eqb (length lm) count.

Lemma nodupb_ok l : nodupb l = true <-> NoDup l.
Proof.
  induction l as [|a r IH]; cbn [nodupb].
  - split; [constructor|reflexivity].
  - rewrite andb_true_iff, negb_true_iff, IH. split.
    + intros [Hn Hr]. constructor; [|assumption]. intros Hin.
      assert (E : existsb (Nat.eqb a) r = true).
      { apply existsb_exists. exists a. split; [assumption|apply Nat.eqb_refl]. }
      rewrite E in Hn. discriminate.
    + intros H. inversion H as [|x l' Hn Hr]; subst. split; [|assumption].
      destruct (existsb (Nat.eqb a) r) eqn:E; [|reflexivity].
      apply existsb_exists in E. destruct E as [y [Hy Hay]]. apply Nat.eqb_eq in Hay.
      subst y. contradiction.
Qed.

Lemma landmarks_okb_ok N count lm : landmarks_okb N count lm = true <-> landmarks_ok N count lm.
Proof.
  unfold landmarks_okb, landmarks_ok.
  rewrite !andb_true_iff, nodupb_ok, forallb_forall, Forall_forall, Nat.eqb_eq.
  split.
  - intros [[H1 H2] H3]. split; [assumption|]. split; [|assumption].
    intros x Hx. apply Nat.ltb_lt. apply H2. assumption.
  - intros [H1 [H2 H3]]. split; [|assumption]. split; [assumption|].
    intros x Hx. apply Nat.ltb_lt. apply H2. assumption.
Qed.

Section LandmarkSpec.
  Context {F : Type} {Fo : FieldOps F}.
  Local Open Scope nat_scope.
  Local Open Scope F_scope.

  (* squared Euclidean distance between rows a and b of a table with D columns *)
  Definition lm_sqdist (D : nat) (X : mat F) (a b : nat) : F :=
    sumn D (fun t => (X a t - X b t) * (X a t - X b t)).

  (* "distance-based triangulation against the landmarks":
       y_x = -1/2 * pinv(Y_L) * (delta_x - mu),   pinv(Y_L) = diag(1/lam) Y_L^T
     Y_L : the L x d landmark embedding (eigenvectors scaled by sqrt lam), lam : its eigenvalues,
     delta_x(t) = d(x, landmark t)^2, mu(t) = mean_s d(landmark s, landmark t)^2 *)
  Definition tri_spec_row (L : nat) (lm : list nat) (dist : mat F) (mu : vec F)
             (YL : mat F) (lam : vec F) (x : nat) : vec F :=
    fun c => lm_neg_half *
             sumn L (fun t => YL t c * (dist x (lmk lm t) * dist x (lmk lm t) - mu t)) / lam c.

  (* mean over the landmarks s of d(landmark s, landmark t)^2 (the distance callback symmetric) *)
  Definition mu_spec (lm : list nat) (dist : mat F) : vec F :=
    fun t => sumn (length lm) (fun s => dist (lmk lm s) (lmk lm t) * dist (lmk lm s) (lmk lm t))
             / of_nat (length lm).

  (* contract of the dense symmetric eigen-solver restricted to the d selected columns
     (DESIGN 1.3): orthonormal columns, B V = V diag(lam) *)
  Definition lm_eig_contract (n d : nat) (B V : mat F) (lam : vec F) : Prop :=
    meq d d (mmul n (mtrans V) V) mI /\
    meq n d (mmul n B V) (mmul d V (mdiag lam)).

  (* the selected part carries the whole matrix: all other eigenvalues are zero *)
  Definition lm_rank_d (n d : nat) (B V : mat F) (lam : vec F) : Prop :=
    meq n n B (mmul d V (mmul d (mdiag lam) (mtrans V))).

  Definition lm_dist_reproduced (N d : nat) (Y : nat -> option (vec F)) (dist : mat F) : Prop :=
    forall a b, a < N -> b < N ->
      exists ya yb, Y a = Some ya /\ Y b = Some yb /\
        sumn d (fun c => (ya c - yb c) * (ya c - yb c)) = dist a b * dist a b.

  (* two N x d embeddings equal up to a sign per column *)
  Definition same_upto_sign (N d : nat) (Y Z : mat F) : Prop :=
    forall c, c < d -> (forall a, a < N -> Y a c = Z a c) \/ (forall a, a < N -> Y a c = - Z a c).
End LandmarkSpec.

(* ---------------- decision procedures over Qc (run on the implementation's outputs) ------- *)
Local Open Scope nat_scope.

Definition lm_qleb (x y : Qc) : bool :=
  match (x ?= y)%Qc with Gt => false | _ => true end.
Definition lm_qabs (x : Qc) : Qc := if lm_qleb (Q2Qc 0) x then x else (- x)%Qc.

Definition lm_within_b (n m : nat) (tol : Qc) (A B : mat Qc) : bool :=
  forallb (fun i => forallb (fun j => lm_qleb (lm_qabs (A i j - B i j)%Qc) tol) (seq 0 m)) (seq 0 n).

(* pairwise squared distances of the rows of Y against the squares of dist, up to tol;
   None = ill-formed input *)
Definition lm_dist_reproduced_b (N d : nat) (tol : Qc) (Y Ldist : list (list Qc)) : option bool :=
  if wf_matb N d Y && wf_matb N N Ldist then
    Some (lm_within_b N N tol (lm_sqdist d (mof Y))
                      (fun a b => (mof Ldist a b * mof Ldist a b)%Qc))
  else None.

(* same up to column signs, up to tol: for every column either Y - Z or Y + Z is small *)
Definition lm_same_upto_sign_b (N d : nat) (tol : Qc) (Y Z : list (list Qc)) : option bool :=
  if wf_matb N d Y && wf_matb N d Z then
    Some (forallb (fun c =>
            forallb (fun a => lm_qleb (lm_qabs (mof Y a c - mof Z a c)%Qc) tol) (seq 0 N) ||
            forallb (fun a => lm_qleb (lm_qabs (mof Y a c + mof Z a c)%Qc) tol) (seq 0 N))
          (seq 0 d))
  else None.

(* the triangulation clause on tables: every non-landmark row of EMB equals, in each kept column,
   tri_spec_row computed from the implementation's own landmark embedding YL, eigenvalues lam and
   mean vector mu, and 0 in each dropped column (null eigenvalue, `keep` as in tri_divide); every
   landmark row equals the corresponding row of YL.  tol = 0: exactly. *)
Definition lm_triangulation_b (N d : nat) (tol : Qc) (keep : list bool) (lm : list nat)
           (Ldist : list (list Qc)) (mu : list Qc) (YL : list (list Qc)) (lam : list Qc)
           (EMB : list (list Qc)) : option bool :=
  let L := length lm in
  if wf_matb N N Ldist && wf_matb L d YL && wf_matb N d EMB && Nat.eqb (length mu) L
     && Nat.leb d (length lam) && landmarks_okb N L lm then
    Some (forallb (fun x =>
            match find (fun p => Nat.eqb (snd p) x) (combine (seq 0 L) lm) with
            | Some (i, _) =>
                forallb (fun c => lm_qleb (lm_qabs (mof EMB x c - mof YL i c)%Qc) tol) (seq 0 d)
            | None =>
                let r := vtab d (tri_spec_row L lm (mof Ldist) (vof mu) (mof YL) (vof lam) x) in
                forallb (fun c => lm_qleb (lm_qabs (mof EMB x c -
                                     (if nth c keep true then vof r c else Q2Qc 0))%Qc) tol) (seq 0 d)
            end) (seq 0 N))
  else None.
