(* ====================================================================== *)
(*  Properties_C07.v — a returned projection function reproduces the       *)
(*  embedding and is affine.  Statements only; proofs live in Proj_Proof.v *)
(*  (generic, every field) and Proj_Tie.v (over the table generated from   *)
(*  the source by translate/t_proj.py).  `_Qc` = closed instance about the *)
(*  functions that are extracted and run by checks/c07.py.                 *)
(* ====================================================================== *)
Require Import String.
Require Import Arith Lia List Bool ZArith QArith Qcanon.
From TK Require Import Mat_Sums Mat_Core Mat_Qc Proj_Model Proj_Spec Proj_Proof Proj_Proof_Range Proj_Proof_Offset Proj_Proof_Pure Proj_Table Proj Proj_Tie.
Import ListNotations.
Local Open Scope nat_scope.

(* 1. compute_mean: the accumulation loop followed by the division IS the arithmetic mean
      of the training samples, for every D, N (the loop result is a table of mean_vec) *)
Theorem C07_mean_is_training_mean :
  forall (F : Type) (Fo : FieldOps F) (Ff : IsField F) (N D : nat) (Xs : list (list F)),
    wf_mat N D Xs ->
    compute_mean_exec D Xs = POk (vtab D (mean_vec N (mof Xs))) /\
    (of_nat N <> 0%F -> training_mean N D (mof Xs) (mean_vec N (mof Xs))) /\
    (forall m, of_nat N <> 0%F -> training_mean N D (mof Xs) m -> veq D m (mean_vec N (mof Xs))).
Proof. exact @mean_is_training_mean_all. Qed.
Print Assumptions C07_mean_is_training_mean.

Example C07_mean_nonvacuous :
  exists (N D : nat) (Xs : list (list Qc)), wf_mat N D Xs /\ @of_nat Qc _ N <> 0%F /\
    compute_mean_exec D Xs = POk [qz 2; qz 5].
Proof.
  exists 2, 2, [[qz 1; qz 4]; [qz 3; qz 6]]. split; [split; [reflexivity|repeat constructor]|].
  split; [apply Qc_of_nat_neq0; lia|].
  assert (H : match compute_mean_exec 2 [[qz 1; qz 4]; [qz 3; qz 6]] with
              | POk m => vlist_eqb m [qz 2; qz 5] | PDim _ _ _ => false end = true)
    by (vm_compute; reflexivity).
  destruct (compute_mean_exec 2 [[qz 1; qz 4]; [qz 3; qz 6]]) as [m|a b c]; [|discriminate].
  apply vlist_eqb_ok in H. rewrite H. reflexivity.
Qed.

(* a sample of the wrong length is reported, not silently accepted *)
Theorem C07_mean_dim_checked :
  forall (F : Type) (Fo : FieldOps F) (D : nat) (Xs : list (list F)) (m : list F),
    compute_mean_exec D Xs = POk m -> wf_mat (length Xs) D Xs.
Proof. exact @compute_mean_exec_dim. Qed.
Print Assumptions C07_mean_dim_checked.

(* 2. row i of project(P, m, ...) is P^T (x_i - m), and that is literally what
      MatrixProjectionImplementation(P, m).project(x_i) returns *)
Theorem C07_embedding_row_is_projection :
  forall (F : Type) (Fo : FieldOps F) (N D d : nat)
         (P : list (list F)) (m : list F) (Xs Y : list (list F)),
    wf_mat D d P -> length m = D -> wf_mat N D Xs ->
    project_exec D d P m Xs = POk Y ->
    forall i, i < N ->
      mpi_project_exec D d P m (nth i Xs []) = POk (nth i Y []) /\
      nth i Y [] = vtab d (mpi_project D (mof P) (vof m) (mof Xs i)).
Proof. exact @embedding_row_is_projection. Qed.
Print Assumptions C07_embedding_row_is_projection.

Theorem C07_project_exec_total :
  forall (F : Type) (Fo : FieldOps F) (N D d : nat)
         (P : list (list F)) (m : list F) (Xs : list (list F)),
    wf_mat D d P -> length m = D -> wf_mat N D Xs ->
    project_exec D d P m Xs = POk (mtab N d (project_mat D (mof P) (vof m) (mof Xs))).
Proof. exact @project_exec_ok. Qed.
Print Assumptions C07_project_exec_total.

Definition ex7_P : list (list Qc) := [[qz 1; qz 0]; [qz 1; qz 2]; [qz 0; qfrac 1 2]].
Definition ex7_X : list (list Qc) := [[qz 1; qz 2; qz 3]; [qz 3; qz 2; qz 1]; [qz 5; qz 5; qz 5]; [qz (-1); qz 3; qz 7]].
Definition ex7_m : list Qc := [qz 2; qz 3; qz 4].

Example C07_embedding_row_nonvacuous :
  wf_mat 3 2 ex7_P /\ length ex7_m = 3 /\ wf_mat 4 3 ex7_X /\
  exists Y, project_exec 3 2 ex7_P ex7_m ex7_X = POk Y /\ length Y = 4.
Proof.
  split; [split; [reflexivity|repeat constructor]|]. split; [reflexivity|].
  split; [split; [reflexivity|repeat constructor]|].
  rewrite (@project_exec_ok Qc QcOps 4 3 2 ex7_P ex7_m ex7_X).
  - eexists. split; [reflexivity|]. apply tab_length.
  - split; [reflexivity|repeat constructor].
  - reflexivity.
  - split; [reflexivity|repeat constructor].
Qed.

(* 3. the returned function is affine: convex (indeed all affine) combinations commute with it;
      its linear part is P^T; the mean is sent to 0 *)
Theorem C07_project_affine :
  forall (F : Type) (Fo : FieldOps F) (Ff : IsField F) (D d : nat) (P : mat F) (m : vec F),
    affine_on D d (mpi_project D P m) /\
    (forall k (w : nat -> F) (xs : nat -> vec F) c, sumn k w = 1%F ->
       mpi_project D P m (fun t => sumn k (fun j => (w j * xs j t)%F)) c =
       sumn k (fun j => (w j * mpi_project D P m (xs j) c)%F)) /\
    (forall x y c, (mpi_project D P m x c - mpi_project D P m y c)%F =
                   sumn D (fun t => (P t c * (x t - y t))%F)) /\
    (forall c, mpi_project D P m m c = 0%F).
Proof. exact @project_affine_all. Qed.
Print Assumptions C07_project_affine.

(* 4. with the training mean, every embedding column sums to zero *)
Theorem C07_embedding_centered :
  forall (F : Type) (Fo : FieldOps F) (Ff : IsField F) (N D : nat) (P X : mat F) (c : nat),
    of_nat N <> 0%F -> sumn N (fun i => project_mat D P (mean_vec N X) X i c) = 0%F.
Proof. exact @embedding_centered. Qed.
Print Assumptions C07_embedding_centered.

Example C07_embedding_centered_nonvacuous : @of_nat Qc _ 4 <> 0%F.
Proof. apply Qc_of_nat_neq0. lia. Qed.

(* 5. the tail of embed() of a projecting method, as a whole: what it returns is consistent *)
Theorem C07_projecting_output :
  forall (F : Type) (Fo : FieldOps F) (Ff : IsField F) (N D d : nat) (P Xs : list (list F)),
    wf_mat D d P -> wf_mat N D Xs ->
    exists Y m,
      projecting_embed_tail D d P Xs = POk (Y, PFMatrix P m) /\
      m = vtab D (mean_vec N (mof Xs)) /\
      Y = mtab N d (project_mat D (mof P) (vof m) (mof Xs)) /\
      (of_nat N <> 0%F -> output_consistent N D d (mof Xs) (mof Y) (mof P) (vof m)) /\
      forall i, i < N -> pf_apply D d (PFMatrix P m) (nth i Xs []) = Some (POk (nth i Y [])).
Proof. exact @projecting_embed_tail_ok. Qed.
Print Assumptions C07_projecting_output.

Theorem C07_projecting_output_Qc :
  forall (N D d : nat) (P Xs : list (list Qc)), N <> 0 ->
    wf_mat D d P -> wf_mat N D Xs ->
    exists Y m,
      projecting_embed_tail D d P Xs = POk (Y, PFMatrix P m) /\
      output_consistent N D d (mof Xs) (mof Y) (mof P) (vof m) /\
      output_consistent_tol_b N D d (Q2Qc 0) Xs Y P m = Some true.
Proof. exact projecting_output_Qc. Qed.
Print Assumptions C07_projecting_output_Qc.

Example C07_projecting_output_nonvacuous : 4 <> 0 /\ wf_mat 3 2 ex7_P /\ wf_mat 4 3 ex7_X.
Proof. split; [lia|]. split; (split; [reflexivity|repeat constructor]). Qed.

(* 6. the decision procedures the check runs on the implementation's outputs are sound
      (exact mode) *)
Theorem C07_decision_sound :
  forall N D d (Xs Y P : list (list Qc)) (m : list Qc),
    output_consistent_tol_b N D d (Q2Qc 0) Xs Y P m = Some true ->
    output_consistent N D d (mof Xs) (mof Y) (mof P) (vof m).
Proof. exact output_consistent_tol_b_exact. Qed.
Print Assumptions C07_decision_sound.

Example C07_decision_sound_nonvacuous :
  exists Y m, output_consistent_tol_b 4 3 2 (Q2Qc 0) ex7_X Y ex7_P m = Some true.
Proof.
  destruct (C07_projecting_output_Qc 4 3 2 ex7_P ex7_X) as [Y [m [_ [_ H]]]];
    try (split; [reflexivity|repeat constructor]); try lia.
  exists Y, m. exact H.
Qed.

(* 7. T-proj: for the tree being checked, every method that returns a
      MatrixProjectionImplementation hands THE SAME (matrix, mean) texts to project() and to the
      returned function, the mean is compute_mean over the training range ... *)
Theorem C07_same_arguments :
  forall e, In e proj_table -> pe_kind e = KMatrix ->
  exists A B,
    pe_mpi_args e = [A; B] /\
    pe_project_args e = [A; B; "begin"; "end"; "features"; "current_dimension"]%string /\
    pe_mean_init e = "compute_mean(begin,end,features,current_dimension)"%string /\
    pe_emb_is_project e = true /\ pe_nreturns e = 1 /\
    In (pe_method e) projecting_methods.
Proof. exact projecting_same_arguments. Qed.
Print Assumptions C07_same_arguments.

Example C07_same_arguments_nonvacuous :
  exists e, In e proj_table /\ pe_kind e = KMatrix /\ pe_method e = "PrincipalComponentAnalysis"%string.
Proof.
  assert (H : existsb (fun e => kind_eqb (pe_kind e) KMatrix &&
                                String.eqb (pe_method e) "PrincipalComponentAnalysis") proj_table = true)
    by (vm_compute; reflexivity).
  apply existsb_exists in H. destruct H as [e [He H]]. apply andb_true_iff in H. destruct H as [Hk Hn].
  exists e. split; [assumption|]. apply String.eqb_eq in Hn. split; [|assumption].
  destruct (pe_kind e); try discriminate. reflexivity.
Qed.

(* ... the projecting methods are exactly the five the property names ... *)
Theorem C07_projecting_methods_exact :
  forall name,
    (exists e, In e proj_table /\ pe_method e = name /\ pe_kind e = KMatrix) <->
    In name ["PrincipalComponentAnalysis"; "RandomProjection"; "NeighborhoodPreservingEmbedding";
             "LinearLocalTangentSpaceAlignment"; "LocalityPreservingProjections"]%string.
Proof. exact projecting_methods_exact. Qed.
Print Assumptions C07_projecting_methods_exact.

(* ... every other method returns the empty projection (null implementation), and the table
   covers exactly the methods the dispatcher can reach *)
Theorem C07_other_methods_empty :
  (forall e, In e proj_table -> ~ In (pe_method e) projecting_methods ->
     pe_kind e = KUnimplemented /\ pe_nreturns e = 1) /\
  unimplemented_returns = "tapkee::ProjectingFunction()"%string /\
  default_ctor_init = "implementation()"%string /\
  (forall name, In name dispatch_table <-> exists e, In e proj_table /\ pe_method e = name) /\
  length dispatch_table = length proj_table /\ dispatch_shape_ok = true.
Proof. exact other_methods_empty_all. Qed.
Print Assumptions C07_other_methods_empty.

Example C07_other_methods_nonvacuous :
  exists e, In e proj_table /\ ~ In (pe_method e) projecting_methods.
Proof.
  assert (H : existsb (fun e => negb (smem (pe_method e) projecting_methods)) proj_table = true)
    by (vm_compute; reflexivity).
  apply existsb_exists in H. destruct H as [e [He H]]. exists e. split; [assumption|].
  intros Hin. apply smem_ok in Hin. rewrite Hin in H. discriminate.
Qed.

(* 8. C07 for every method of the generated table, every field, every size and input *)
Theorem C07_every_method_all_inputs :
  forall (F : Type) (Fo : FieldOps F) (Ff : IsField F) e, In e proj_table ->
  forall N D d (P E Xs : list (list F)),
    wf_mat D d P -> wf_mat N D Xs -> of_nat N <> 0%F ->
    (In (pe_method e) projecting_methods /\
     exists Y m, method_tail e D d P E Xs = POk (Y, PFMatrix P m) /\
       output_consistent N D d (mof Xs) (mof Y) (mof P) (vof m) /\
       (forall i, i < N -> pf_apply D d (PFMatrix P m) (nth i Xs []) = Some (POk (nth i Y []))) /\
       affine_on D d (mpi_project D (mof P) (vof m)))
    \/
    (~ In (pe_method e) projecting_methods /\ method_tail e D d P E Xs = POk (E, PFNone)).
Proof. exact @C07_every_method. Qed.
Print Assumptions C07_every_method_all_inputs.

Example C07_every_method_nonvacuous :
  proj_table <> [] /\ wf_mat 3 2 ex7_P /\ wf_mat 4 3 ex7_X /\ @of_nat Qc _ 4 <> 0%F.
Proof.
  split; [discriminate|]. split; [split; [reflexivity|repeat constructor]|].
  split; [split; [reflexivity|repeat constructor]|]. apply Qc_of_nat_neq0. lia.
Qed.

(* ====================================================================== *)
(*  Wave 2: index ranges, blocks, scale                                    *)
(* ====================================================================== *)

(* 9. [begin, end) is ANY list of sample ids of the caller's data set (sub-range, offset block,
      permutation): row k of the embedding is P^T (x_{ids[k]} - m), i.e. what the returned function
      computes on sample ids[k] — not on sample k *)
Theorem C07_project_over_index_range :
  forall (F : Type) (Fo : FieldOps F) (M D d : nat) (P : list (list F)) (m : list F)
         (Xall : list (list F)) (ids : list nat) (Y : list (list F)),
    wf_mat D d P -> length m = D -> wf_mat M D Xall -> Forall (fun id => id < M) ids ->
    project_range D d P m Xall ids = POk Y ->
    length Y = length ids /\
    forall k, k < length ids ->
      mpi_project_exec D d P m (sample Xall (nth k ids 0)) = POk (nth k Y []) /\
      nth k Y [] = vtab d (mpi_project D (mof P) (vof m) (mof Xall (nth k ids 0))).
Proof. exact @project_range_row. Qed.
Print Assumptions C07_project_over_index_range.

Definition ex7_ids : list nat := [3; 1; 2].

Example C07_index_range_nonvacuous :
  wf_mat 3 2 ex7_P /\ length ex7_m = 3 /\ wf_mat 4 3 ex7_X /\ Forall (fun id => id < 4) ex7_ids /\
  exists Y, project_range 3 2 ex7_P ex7_m ex7_X ex7_ids = POk Y /\ length Y = 3 /\
            (* and the range matters: row 0 is sample 3's image, not sample 0's *)
            mpi_project_exec 3 2 ex7_P ex7_m (sample ex7_X 0) <> POk (nth 0 Y []).
Proof.
  assert (WP : wf_mat 3 2 ex7_P) by (split; [reflexivity|repeat constructor]).
  assert (WX : wf_mat 4 3 ex7_X) by (split; [reflexivity|repeat constructor]).
  assert (WI : Forall (fun id => id < 4) ex7_ids) by (repeat constructor).
  split; [exact WP|]. split; [reflexivity|]. split; [exact WX|]. split; [exact WI|].
  destruct (project_range 3 2 ex7_P ex7_m ex7_X ex7_ids) as [Y|a b c] eqn:E.
  - exists Y. split; [reflexivity|].
    destruct (@project_range_row Qc QcOps 4 3 2 ex7_P ex7_m ex7_X ex7_ids Y WP eq_refl WX WI E) as [HL HR].
    split; [exact HL|].
    destruct (HR 0) as [H0 _]; [cbn; lia|]. intros Hbad. rewrite <- H0 in Hbad.
    assert (Hne : match mpi_project_exec 3 2 ex7_P ex7_m (sample ex7_X 0),
                        mpi_project_exec 3 2 ex7_P ex7_m (sample ex7_X (nth 0 ex7_ids 0)) with
                  | POk a, POk b => negb (vlist_eqb a b) | _, _ => false end = true)
      by (vm_compute; reflexivity).
    rewrite Hbad in Hne.
    destruct (mpi_project_exec 3 2 ex7_P ex7_m (sample ex7_X (nth 0 ex7_ids 0))) as [v|? ? ?]; [|discriminate].
    apply negb_true_iff in Hne.
    assert (Hv : vlist_eqb v v = true) by (apply vlist_eqb_ok; reflexivity). congruence.
  - exfalso. unfold project_range in E.
    rewrite (@gather_exec_ok Qc ex7_X ex7_ids) in E by (repeat constructor).
    rewrite (@project_exec_ok Qc QcOps 3 3 2 ex7_P ex7_m _ WP eq_refl) in E; [discriminate|].
    split; [reflexivity|repeat constructor].
Qed.

(* an id outside the data set is reported, never replaced by a default vector *)
Theorem C07_range_checked :
  forall (F : Type) (Fo : FieldOps F) (D d : nat) (P : list (list F)) (m : list F)
         (Xall : list (list F)) (ids : list nat) (Y : list (list F)),
    project_range D d P m Xall ids = POk Y -> Forall (fun id => id < length Xall) ids.
Proof. exact @project_range_checked. Qed.
Print Assumptions C07_range_checked.

(* 10. the tail of embed() over an arbitrary range: the stored mean is the mean of the samples IN THE
       RANGE, the output is consistent, and the returned function on sample ids[k] gives row k *)
Theorem C07_projecting_output_over_range :
  forall (F : Type) (Fo : FieldOps F) (Ff : IsField F) (M D d : nat)
         (P Xall : list (list F)) (ids : list nat),
    wf_mat D d P -> wf_mat M D Xall -> Forall (fun id => id < M) ids ->
    let N := length ids in
    let Xs := map (sample Xall) ids in
    exists Y m,
      projecting_embed_tail_range D d P Xall ids = POk (Y, PFMatrix P m) /\
      m = vtab D (mean_vec N (mof Xs)) /\
      (of_nat N <> 0%F -> output_consistent N D d (mof Xs) (mof Y) (mof P) (vof m)) /\
      forall k, k < N ->
        pf_apply D d (PFMatrix P m) (sample Xall (nth k ids 0)) = Some (POk (nth k Y [])).
Proof. exact @projecting_embed_tail_range_ok. Qed.
Print Assumptions C07_projecting_output_over_range.

Example C07_output_over_range_nonvacuous :
  wf_mat 3 2 ex7_P /\ wf_mat 4 3 ex7_X /\ Forall (fun id => id < 4) ex7_ids /\ @of_nat Qc _ (length ex7_ids) <> 0%F.
Proof.
  split; [split; [reflexivity|repeat constructor]|]. split; [split; [reflexivity|repeat constructor]|].
  split; [repeat constructor|]. apply Qc_of_nat_neq0. cbn. lia.
Qed.

(* 11. project() computed block by block — for ANY split of the samples into consecutive blocks —
       is the per-sample loop: every sample of every block (the last block included, whatever
       its size) gets its row P^T (x - m) *)
Theorem C07_project_blockwise :
  forall (F : Type) (Fo : FieldOps F) (N D d : nat) (P : list (list F)) (m : list F)
         (blocks : list (list (list F))),
    project_blocks D d P m blocks = project_rows D d P m (concat blocks) /\
    (wf_mat D d P -> length m = D -> wf_mat N D (concat blocks) ->
     project_blocks D d P m blocks = POk (mtab N d (project_mat D (mof P) (vof m) (mof (concat blocks))))).
Proof. exact @project_blockwise_all. Qed.
Print Assumptions C07_project_blockwise.

Example C07_blockwise_nonvacuous :
  exists blocks : list (list (list Qc)),
    wf_mat 3 2 ex7_P /\ length ex7_m = 3 /\ wf_mat 4 3 (concat blocks) /\ length blocks = 2.
Proof.
  exists [[[qz 1; qz 2; qz 3]; [qz 3; qz 2; qz 1]; [qz 5; qz 5; qz 5]]; [[qz (-1); qz 3; qz 7]]].
  split; [split; [reflexivity|repeat constructor]|]. split; [reflexivity|].
  split; [split; [reflexivity|repeat constructor]|reflexivity].
Qed.

(* 12. scale equivariance, function level: no absolute magnitude enters — scaling the data (and the
       query) by ANY s scales mean, embedding and projection by s, with the same matrix P *)
Theorem C07_scale_equivariant :
  forall (F : Type) (Fo : FieldOps F) (Ff : IsField F) (N D : nat) (P X : mat F) (s : F) (m x : vec F),
    (forall t, mean_vec N (fun i u => (s * X i u)%F) t = (s * mean_vec N X t)%F) /\
    (forall c, mpi_project D P (fun t => (s * m t)%F) (fun t => (s * x t)%F) c = (s * mpi_project D P m x c)%F) /\
    (forall c, mpi_project D (fun t c => (s * P t c)%F) m x c = (s * mpi_project D P m x c)%F) /\
    (forall i c, project_mat D P (mean_vec N (fun i u => (s * X i u)%F)) (fun i u => (s * X i u)%F) i c =
                 (s * project_mat D P (mean_vec N X) X i c)%F).
Proof. exact @scale_equivariant_all. Qed.
Print Assumptions C07_scale_equivariant.

(* ... and for the executed loops: the tail of embed() on data scaled by s returns the scaled embedding
   and (P, s * mean); the returned function on the scaled sample i gives the scaled row i *)
Theorem C07_tail_scale_equivariant :
  forall (F : Type) (Fo : FieldOps F) (Ff : IsField F) (N D d : nat) (s : F) (P Xs : list (list F)),
    wf_mat D d P -> wf_mat N D Xs ->
    exists Y m,
      projecting_embed_tail D d P Xs = POk (Y, PFMatrix P m) /\
      projecting_embed_tail D d P (mlscale s Xs) = POk (mlscale s Y, PFMatrix P (lscale s m)) /\
      forall i, i < N ->
        pf_apply D d (PFMatrix P (lscale s m)) (lscale s (nth i Xs [])) = Some (POk (lscale s (nth i Y []))).
Proof. exact @projecting_embed_tail_scale. Qed.
Print Assumptions C07_tail_scale_equivariant.

Example C07_tail_scale_nonvacuous : wf_mat 3 2 ex7_P /\ wf_mat 4 3 ex7_X.
Proof. split; (split; [reflexivity|repeat constructor]). Qed.

(* ---------------------------------------------------------------------------------------------- *)
(* Wave 3: data with a large common OFFSET.                                                        *)
(* 13. `project_hoisted_mean_equal`: a rewrite of MatrixProjectionImplementation that precomputes   *)
(*     P^T mean and returns P^T x - P^T mean is, over EVERY exact field, the same function as the   *)
(*     shipped P^T (x - mean) — at function level and for the executed lists on every input.  The    *)
(*     exact model therefore cannot distinguish the two; they differ in binary64 only, by            *)
(*     eps * |P|^T (|x| + |mean|), which is not relative to the output |P|^T |x - mean|.  The        *)
(*     property's "reproduces row i" is "to rounding error of the OUTPUT": that is what the          *)
(*     tolerance of the check (theorems 15, 16) encodes.                                             *)
Theorem project_hoisted_mean_equal :
  forall (F : Type) (Fo : FieldOps F) (Ff : IsField F) (D d : nat) (P : mat F) (Pl : list (list F))
         (m x : vec F) (ml xl : list F),
    (forall c, mpi_project_hoisted D P m x c = mpi_project D P m x c) /\
    mpi_project_hoisted_exec D d Pl ml xl = mpi_project_exec D d Pl ml xl.
Proof. exact @hoisted_mean_all. Qed.
Print Assumptions project_hoisted_mean_equal.

(* 14. offset invariance, function level: moving every sample (and the query) by the same vector o moves
       the mean by o and changes NEITHER the projection NOR the embedding: the output magnitude does not
       grow with a common offset of the data *)
Theorem C07_offset_invariant :
  forall (F : Type) (Fo : FieldOps F) (Ff : IsField F) (N D : nat) (P X : mat F) (o m x : vec F),
    of_nat N <> 0%F ->
    (forall t, mean_vec N (fun i u => (X i u + o u)%F) t = (mean_vec N X t + o t)%F) /\
    (forall c, mpi_project D P (fun t => (m t + o t)%F) (fun t => (x t + o t)%F) c = mpi_project D P m x c) /\
    (forall i c, project_mat D P (mean_vec N (fun i u => (X i u + o u)%F)) (fun i u => (X i u + o u)%F) i c =
                 project_mat D P (mean_vec N X) X i c).
Proof. exact @offset_invariant_all. Qed.
Print Assumptions C07_offset_invariant.

Example C07_offset_invariant_nonvacuous : @of_nat Qc _ 4 <> 0%F.
Proof. apply Qc_of_nat_neq0. lia. Qed.

(* ... and for the executed loops: the tail of embed() on the moved data returns the SAME embedding and
   (P, mean + o); the returned function on the moved sample i gives the unchanged row i *)
Theorem C07_tail_offset_invariant :
  forall (F : Type) (Fo : FieldOps F) (Ff : IsField F) (N D d : nat) (o : list F) (P Xs : list (list F)),
    of_nat N <> 0%F -> length o = D -> wf_mat D d P -> wf_mat N D Xs ->
    exists Y m,
      projecting_embed_tail D d P Xs = POk (Y, PFMatrix P m) /\
      projecting_embed_tail D d P (mltrans o Xs) = POk (Y, PFMatrix P (ltrans o m)) /\
      forall i, i < N ->
        pf_apply D d (PFMatrix P (ltrans o m)) (ltrans o (nth i Xs [])) = Some (POk (nth i Y [])).
Proof. exact @projecting_embed_tail_translate. Qed.
Print Assumptions C07_tail_offset_invariant.

Example C07_tail_offset_nonvacuous :
  @of_nat Qc _ 4 <> 0%F /\ length [qz (2 ^ 40); qz (-3 * 2 ^ 30); qz 0] = 3 /\ wf_mat 3 2 ex7_P /\ wf_mat 4 3 ex7_X.
Proof.
  split; [apply Qc_of_nat_neq0; lia|]. split; [reflexivity|]. split; (split; [reflexivity|repeat constructor]).
Qed.

(* 15. the decision procedure with a tolerance RELATIVE TO THE OUTPUT,
          |y_c - (P^T (x - m))_c| <= eps * sum_t |P t c| |x t - m t|,
       (a) means exactly that, (b) decides the exact specification at eps = 0, (c) implies the absolute
       procedure whenever eps * A_c <= tol, (d) row-wise form *)
Theorem C07_decision_rel_sound :
  (forall D d eps (P : list (list Qc)) (m x y : list Qc),
      is_projection_rel_b D d eps P m x y = Some true <->
      (wf_mat D d P /\ length m = D /\ length x = D /\ length y = d) /\
      forall c, c < d ->
        (pq_abs (vof y c - mpi_project D (mof P) (vof m) (vof x) c)
         <= eps * mpi_abs_project D (mof P) (vof m) (vof x) c)%Qc) /\
  (forall D d (P : list (list Qc)) (m x y : list Qc),
      is_projection_rel_b D d (Q2Qc 0) P m x y = Some true ->
      is_projection_of D d (mof P) (vof m) (vof x) (vof y)) /\
  (forall D d eps tol (P : list (list Qc)) (m x y : list Qc),
      (forall c, c < d -> (eps * mpi_abs_project D (mof P) (vof m) (vof x) c <= tol)%Qc) ->
      is_projection_rel_b D d eps P m x y = Some true ->
      is_projection_tol_b D d tol P m x y = Some true) /\
  (forall N D d eps (Xs Y P : list (list Qc)) (m : list Qc),
      rows_rel_b N D d eps Xs Y P m = Some true ->
      forall i, i < N -> is_projection_rel_b D d eps P m (nth i Xs []) (nth i Y []) = Some true).
Proof.
  split; [exact is_projection_rel_b_ok|]. split; [exact is_projection_rel_b_exact|].
  split; [exact is_projection_rel_implies_tol|exact rows_rel_b_ok].
Qed.
Print Assumptions C07_decision_rel_sound.

(* 16. completeness: what the model computes passes for every eps >= 0 — and so does the hoisted rewrite
       as long as the arithmetic is exact (the exact model cannot distinguish them); (17) a witness that
       the data-relative absolute tolerance 1e-11 * max|P| * (max|x| + max|m|) * D is blind at offset 2^40
       to a relative error 2^-13 of the output, which the output-relative procedure rejects *)
Theorem C07_model_and_hoisted_pass_rel :
  forall D d eps (P : list (list Qc)) (m x y : list Qc),
    (Q2Qc 0 <= eps)%Qc -> wf_mat D d P -> length m = D -> length x = D ->
    (mpi_project_exec D d P m x = POk y -> is_projection_rel_b D d eps P m x y = Some true) /\
    (mpi_project_hoisted_exec D d P m x = POk y -> is_projection_rel_b D d eps P m x y = Some true).
Proof.
  intros D d eps P m x y He HP Hm Hx. split; intros H.
  - exact (model_passes_rel D d eps P m x y He HP Hm Hx H).
  - exact (hoisted_passes_rel_in_exact_arithmetic D d eps P m x y He HP Hm Hx H).
Qed.
Print Assumptions C07_model_and_hoisted_pass_rel.

Example C07_pass_rel_nonvacuous :
  (Q2Qc 0 <= ow_eps)%Qc /\ wf_mat 1 1 ow_P /\ length ow_m = 1 /\ length ow_x = 1 /\
  mpi_project_exec 1 1 ow_P ow_m ow_x = POk [qz 1].
Proof.
  split; [vm_compute; discriminate|]. split; [split; [reflexivity|repeat constructor]|].
  split; [reflexivity|]. split; [reflexivity|].
  assert (H : match mpi_project_exec 1 1 ow_P ow_m ow_x with
              | POk y => vlist_eqb y [qz 1] | PDim _ _ _ => false end = true) by (vm_compute; reflexivity).
  destruct (mpi_project_exec 1 1 ow_P ow_m ow_x) as [y|a b c]; [|discriminate].
  apply vlist_eqb_ok in H. rewrite H. reflexivity.
Qed.

Theorem C07_offset_needs_output_relative_tolerance :
  is_projection_tol_b 1 1 ow_tol_abs ow_P ow_m ow_x ow_y = Some true /\
  is_projection_rel_b 1 1 ow_eps ow_P ow_m ow_x ow_y = Some false /\
  is_projection_rel_b 1 1 ow_eps ow_P ow_m ow_x [qz 1] = Some true.
Proof. exact offset_needs_output_relative_tolerance. Qed.
Print Assumptions C07_offset_needs_output_relative_tolerance.

(* ---------------------------------------------------------------------------------------------------- *)
(* Wave 4 — "so it can be applied to unseen vectors consistently": the returned function is a FUNCTION   *)
(* of its argument.  All copies of a ProjectingFunction / TapkeeOutput share one implementation object   *)
(* through a shared_ptr; an application may apply them from several threads at once.                     *)

(* 18. (over the table regenerated from projection.hpp on every run) MatrixProjectionImplementation::project
       writes no member, declares no static / thread_local, the struct has no mutable / static data member, the
       file no static object; it returns; the argument is taken by const reference *)
Theorem C07_project_writes_nothing :
  mp_nonlocal_writes mpi_purity = [] /\ mp_static_decls mpi_purity = 0 /\ mp_mutable_members mpi_purity = 0 /\
  mp_file_statics mpi_purity = 0 /\ mp_nreturns mpi_purity <> 0 /\ mp_param mpi_purity = "constDenseVector&vec"%string.
Proof. exact mpi_project_writes_nothing. Qed.
Print Assumptions C07_project_writes_nothing.

(* 19. non-interference, any state types: calls none of whose steps writes the shared object leave it as it is under
       EVERY interleaving, and every call ends exactly as it ends running alone *)
Theorem C07_readonly_calls_do_not_interfere :
  forall (S L : Type) (sched : list nat) (s : S) (ts : list (thread S L)),
    Forall (readonly_thread S L) ts ->
    fst (run sched s ts) = s /\
    forall i t, nth_error ts i = Some t ->
      nth_error (snd (run sched s ts)) i = Some (snd (run_alone (count_occ Nat.eq_dec sched i) s t)).
Proof. exact readonly_calls_do_not_interfere. Qed.
Print Assumptions C07_readonly_calls_do_not_interfere.

(* 20. the shipped call (one step, reads proj_mat / mean_vec, writes nothing): any number of calls on one shared
       object, any interleaving: the object is unchanged and every call that got its step returns P^T (x - m) *)
Theorem C07_project_is_a_function_under_interleaving :
  forall (F : Type) (Fo : FieldOps F) D d (o : mpi_object F) (xs : list (list F)) (sched : list nat),
    fst (run sched o (map (call_of (shipped_call D d)) xs)) = o /\
    forall i x, nth_error xs i = Some x -> count_occ Nat.eq_dec sched i >= 1 ->
      exists t, nth_error (snd (run sched o (map (call_of (shipped_call D d)) xs))) i = Some t /\
        cl_result (t_loc t) = Some (ptrans_mul D d (ob_P o) (zip_sub x (ob_m o))).
Proof. exact @shipped_calls_any_interleaving. Qed.
Print Assumptions C07_project_is_a_function_under_interleaving.

Example C07_interleaving_nonvacuous :
  exists t, nth_error (snd (run [1; 0] bw_obj (map (call_of (shipped_call 1 1)) [bw_x0; bw_x1]))) 0 = Some t /\
    cl_result (t_loc t) = Some [Q2Qc 1].
Proof. eexists. split; [reflexivity|]. vm_compute. reflexivity. Qed.

(* 21. regression theorem for the rewrite that keeps `vec - mean_vec` in a preallocated MEMBER buffer (not the shipped
       code): alone it returns the same value (buffered_call_alone), but two overlapping calls interfere: under the
       schedule write_0 write_1 read_0 read_1 call 0 returns the image of call 1's vector *)
Theorem C07_buffered_project_refuted :
  (forall (F : Type) (Fo : FieldOps F) D d (o : mpi_object F) x,
     cl_result (t_loc (snd (run_alone 2 o (call_of (buffered_call D d) x)))) =
       Some (ptrans_mul D d (ob_P o) (zip_sub x (ob_m o)))) /\
  exists t0,
    nth_error (snd (run [0; 1; 0; 1] bw_obj (map (call_of (buffered_call 1 1)) [bw_x0; bw_x1]))) 0 = Some t0 /\
    cl_result (t_loc t0) = Some [Q2Qc 2] /\
    cl_result (t_loc (snd (run_alone 2 bw_obj (call_of (buffered_call 1 1) bw_x0)))) = Some [Q2Qc 1] /\
    [Q2Qc 2] <> [Q2Qc 1].
Proof. split; [exact @buffered_call_alone|exact buffered_calls_interfere_refuted]. Qed.
Print Assumptions C07_buffered_project_refuted.
