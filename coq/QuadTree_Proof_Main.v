(* QuadTree_Proof_Main.v — the C18 theorems about fill_order / forces, derived from
   the insert invariant of QuadTree_Proof_Insert. *)
From Coq Require Import List Arith Bool ZArith QArith Permutation Lia Lqa.
From TK Require Import QuadTree_Model QuadTree_Spec QuadTree_Proof_Base QuadTree_Proof_Insert.
Import ListNotations.
Local Open Scope Q_scope.

(* ---------- fill_order ---------- *)

Lemma mode_perm_sub : forall fx data L l, mode fx data L -> (exists rest, Permutation L (l ++ rest)) -> mode fx data l.
Proof. intros fx data L l H (rest & HP). apply (mode_sub fx data L l rest H HP). Qed.

Lemma fill_Inv : forall fx fuel data order t l,
  Inv data l t ->
  (forall i, In i order -> inside data (qcell t) i) ->
  mode fx data (rev order ++ l) ->
  (fill_order fx fuel data order t = OutOfFuel /\ Deep data (rev order ++ l) (qcell t) fuel) \/
  exists t', fill_order fx fuel data order t = Done true t' /\ Inv data (rev order ++ l) t' /\
             qcell t' = qcell t.
Proof.
  intros fx fuel data order. induction order as [|i rest IH]; intros t l HI Hin Hm.
  - right. exists t. cbn. auto.
  - cbn [fill_order rev]. cbn [rev] in Hm.
    destruct (Hin i (or_introl eq_refl)) as (p & Hp & Hc).
    assert (Hm1 : mode fx data (i :: l)).
    { apply (mode_sub fx data _ (i :: l) (rev rest) Hm).
      rewrite <- app_assoc. cbn [app]. apply Permutation_app_comm. }
    destruct (insert_Inv fx fuel data i p Hp t l HI Hc Hm1) as [[E D]|(t1 & E & I1 & Ec)].
    + left. rewrite E. split; [reflexivity|].
      apply (Deep_incl data (i :: l)); [|exact D].
      intros x Hx. rewrite <- app_assoc. apply in_or_app. right. exact Hx.
    + rewrite E.
      assert (Hm2 : mode fx data (rev rest ++ i :: l)).
      { rewrite <- app_assoc in Hm. exact Hm. }
      destruct (IH t1 (i :: l) I1) as [[E2 D]|(t2 & E2 & I2 & Ec2)].
      * intros x Hx. rewrite Ec. apply Hin. right. exact Hx.
      * exact Hm2.
      * left. rewrite E2. split; [reflexivity|]. rewrite <- app_assoc. cbn [app]. rewrite <- Ec. exact D.
      * right. exists t2. rewrite E2. cbn [andb]. split; [reflexivity|].
        rewrite <- app_assoc. cbn [app]. split; [exact I2 | congruence].
Qed.

Lemma build_Inv : forall fx fuel data order root,
  (forall i, In i order -> inside data root i) ->
  mode fx data order ->
  (fill_order fx fuel data order (init root) = OutOfFuel /\ Deep data (rev order) root fuel) \/
  exists t, fill_order fx fuel data order (init root) = Done true t /\ Inv data (rev order) t /\
            qcell t = root.
Proof.
  intros fx fuel data order root Hin Hm.
  assert (HI : Inv data [] (init root)) by apply Inv_empty.
  destruct (fill_Inv fx fuel data order (init root) [] HI Hin) as [[E D]|(t & E & I & Ec)].
  - rewrite app_nil_r. destruct Hm as [H|H]; [left; exact H|right].
    apply (NoCo_perm data order); [apply Permutation_rev | exact H].
  - left. rewrite app_nil_r in D. auto.
  - right. exists t. rewrite app_nil_r in I. auto.
Qed.

(* ---------- Inv implies the specification ---------- *)

Lemma FOP_app : forall (R : nat -> nat -> Prop) l1 l2,
  ForallOrdPairs R l1 -> ForallOrdPairs R l2 ->
  (forall a b, In a l1 -> In b l2 -> R a b) ->
  ForallOrdPairs R (l1 ++ l2).
Proof.
  intros R l1 l2 H1 H2 H. induction l1 as [|x l1 IH]; cbn [app]; [exact H2|].
  inversion H1 as [|? ? Hx H1']. subst. constructor.
  - apply Forall_app. split; [exact Hx|].
    apply Forall_forall. intros b Hb. apply H; [left; reflexivity | exact Hb].
  - apply IH; [exact H1'|]. intros a b Ha Hb. apply H; [right; exact Ha | exact Hb].
Qed.

Lemma Inv_spec : forall data l t,
  Inv data l t ->
  Routed data l t /\ incl (all_indices t) l /\ noncoinc_list data (all_indices t).
Proof.
  intros data l t H.
  induction H as [c com | c j cnt cum com l Hj Hco Hin Hcnt Hagg
                 | c cum com nw ne sw se l l1 l2 l3 l4 HP I1 IH1 I2 IH2 I3 IH3 I4 IH4 HG HF Hins H2 Hagg].
  - split; [constructor|]. split; [intros x []|constructor].
  - split; [|split].
    + apply R_leaf; try assumption.
      * intro E. rewrite E in Hj. destruct Hj.
      * intros i Hi. apply (inside_coinc _ _ _ j); [apply Hco; exact Hi | exact Hin].
    + cbn [all_indices]. intros x [<-|[]]. exact Hj.
    + cbn [all_indices]. constructor; constructor.
  - destruct IH1 as (R1 & A1 & N1), IH2 as (R2 & A2 & N2), IH3 as (R3 & A3 & N3), IH4 as (R4 & A4 & N4).
    destruct HG as (G1 & G2 & G3 & G4). destruct HF as (F2 & F3 & F4).
    assert (P1 : forall x, In x l1 -> In x l).
    { intros x Hx. apply (Permutation_in _ (Permutation_sym HP)). apply in_or_app. auto. }
    assert (P2 : forall x, In x l2 -> In x l).
    { intros x Hx. apply (Permutation_in _ (Permutation_sym HP)). apply in_or_app. right. apply in_or_app. auto. }
    assert (P3 : forall x, In x l3 -> In x l).
    { intros x Hx. apply (Permutation_in _ (Permutation_sym HP)). apply in_or_app. right. apply in_or_app. right.
      apply in_or_app. auto. }
    assert (P4 : forall x, In x l4 -> In x l).
    { intros x Hx. apply (Permutation_in _ (Permutation_sym HP)). apply in_or_app. right. apply in_or_app. right.
      apply in_or_app. auto. }
    split; [|split].
    + apply (R_node data c cum com nw ne sw se l l1 l2 l3 l4); assumption.
    + cbn [all_indices]. intros x Hx.
      apply in_app_or in Hx. destruct Hx as [Hx|Hx]; [apply P1, A1, Hx|].
      apply in_app_or in Hx. destruct Hx as [Hx|Hx]; [apply P2, A2, Hx|].
      apply in_app_or in Hx. destruct Hx as [Hx|Hx]; [apply P3, A3, Hx | apply P4, A4, Hx].
    + cbn [all_indices]. unfold noncoinc_list in *.
      (* a is inside an earlier child box, b is not: they cannot coincide *)
      assert (X : forall k a b, inside data k a -> ~ inside data k b -> ~ coinc data a b).
      { intros k a b Ha Hb Hab. apply Hb. apply (inside_coinc _ _ _ a); [apply coinc_sym, Hab | exact Ha]. }
      pose proof (Inv_inside _ _ _ I1) as In1. rewrite G1 in In1.
      pose proof (Inv_inside _ _ _ I2) as In2. rewrite G2 in In2.
      pose proof (Inv_inside _ _ _ I3) as In3. rewrite G3 in In3.
      apply FOP_app; [exact N1 | |].
      { apply FOP_app; [exact N2 | |].
        { apply FOP_app; [exact N3 | exact N4 |].
          intros a b Ha Hb. apply (X (swc c)); [apply In3, A3, Ha | apply F4, A4, Hb]. }
        intros a b Ha Hb. apply (X (nec c)); [apply In2, A2, Ha|].
        apply in_app_or in Hb. destruct Hb as [Hb|Hb]; [apply F3, A3, Hb | apply F4, A4, Hb]. }
      intros a b Ha Hb. apply (X (nwc c)); [apply In1, A1, Ha|].
      apply in_app_or in Hb. destruct Hb as [Hb|Hb]; [apply F2, A2, Hb|].
      apply in_app_or in Hb. destruct Hb as [Hb|Hb]; [apply F3, A3, Hb | apply F4, A4, Hb].
Qed.

(* geometry of the tree: every Node's children are its four half-size boxes *)
Fixpoint geom_ok (t : qt) : Prop :=
  match t with
  | Leaf _ _ _ _ => True
  | Node c _ _ nw ne sw se =>
    geom c nw ne sw se /\ geom_ok nw /\ geom_ok ne /\ geom_ok sw /\ geom_ok se
  end.

Lemma Inv_geom : forall data l t, Inv data l t -> geom_ok t.
Proof. intros data l t H. induction H; cbn [geom_ok]; auto. Qed.

(* every Node's box is non-degenerate *)
Fixpoint pos_nodes (t : qt) : Prop :=
  match t with
  | Leaf _ _ _ _ => True
  | Node c _ _ nw ne sw se =>
    0 < qmax (chh c) (chw c) /\ pos_nodes nw /\ pos_nodes ne /\ pos_nodes sw /\ pos_nodes se
  end.

Lemma Inv_pos_nodes : forall data l t, Inv data l t -> pos_nodes t.
Proof.
  intros data l t H.
  induction H as [c com | c j cnt cum com l Hj Hco Hin Hcnt Hagg
                 | c cum com nw ne sw se l l1 l2 l3 l4 HP I1 IH1 I2 IH2 I3 IH3 I4 IH4 HG HF Hins H2 Hagg];
    cbn [pos_nodes]; auto.
  split; [|auto].
  destruct H2 as (a & b & Ha & Hb & Hab).
  destruct (Hins a Ha) as (pa & Hpa & Hca). destruct (Hins b Hb) as (pb & Hpb & Hcb).
  apply (two_points_qmax_pos c pa pb Hca Hcb).
  intro E. apply Hab. exists pa, pb. auto.
Qed.

(* ---------- routed_once ---------- *)

Theorem routed_once_gen : forall fx fuel data order root ok t,
  (forall i, In i order -> inside data root i) ->
  mode fx data order ->
  fill_order fx fuel data order (init root) = Done ok t ->
  ok = true /\ spec data order t /\ geom_ok t /\ qcell t = root.
Proof.
  intros fx fuel data order root ok t Hin Hm E.
  destruct (build_Inv fx fuel data order root Hin Hm) as [[E' _]|(t' & E' & I & Ec)]; rewrite E in E'.
  - discriminate.
  - injection E' as -> ->. split; [reflexivity|].
    destruct (Inv_spec _ _ _ I) as (R & A & N).
    split; [|split; [apply (Inv_geom _ _ _ I) | exact Ec]].
    split; [|split].
    + exists (rev order). split; [apply Permutation_rev | exact R].
    + intros x Hx. apply in_rev. apply A. exact Hx.
    + exact N.
Qed.

(* ---------- com_is_mean for BOTH versions, coincident points allowed (root cell) ---------- *)

Lemma insert_root_agg : forall fx f data i t ok t' p l,
  insert fx f data i t = Done ok t' ->
  nth_error data i = Some p -> contains (qcell t) p = true ->
  agg_ok data l (qcum t) (qcom t) ->
  agg_ok data (i :: l) (qcum t') (qcom t') /\ qcell t' = qcell t.
Proof.
  intros fx f data i t ok t' p l E Hi Hc Hagg.
  destruct f as [|f]; [discriminate|].
  rewrite insert_S, Hi, Hc in E. cbn [negb] in E.
  destruct t as [c st cum com | c cum com nw ne sw se]; cbn [qcell qcum qcom] in *.
  - destruct st as [[j cnt]|].
    + destruct (nth_error data j) as [pj|]; [|discriminate].
      destruct (pt_eqb p pj).
      * injection E as <- <-. cbn [qcum qcom qcell]. split; [apply agg_step; assumption | reflexivity].
      * destruct (route_times _ _ _ _ _ _) as [ok1 a b d e| |]; try discriminate.
        destruct (route4 _ a b d e) as [ok2 a' b' d' e'| |]; try discriminate.
        injection E as <- <-. cbn [qcum qcom qcell]. split; [apply agg_step; assumption | reflexivity].
    + injection E as <- <-. cbn [qcum qcom qcell]. split; [apply agg_step; assumption | reflexivity].
  - destruct (route4 _ nw ne sw se) as [ok2 a' b' d' e'| |]; try discriminate.
    injection E as <- <-. cbn [qcum qcom qcell]. split; [apply agg_step; assumption | reflexivity].
Qed.

Lemma fill_root_agg : forall fx fuel data order t ok t' l,
  fill_order fx fuel data order t = Done ok t' ->
  (forall i, In i order -> inside data (qcell t) i) ->
  agg_ok data l (qcum t) (qcom t) ->
  agg_ok data (rev order ++ l) (qcum t') (qcom t') /\ qcell t' = qcell t.
Proof.
  intros fx fuel data order. induction order as [|i rest IH]; intros t ok t' l E Hin Hagg.
  - cbn in E. injection E as <- <-. cbn. auto.
  - cbn [fill_order] in E.
    destruct (insert fx fuel data i t) as [ok1 t1| |] eqn:E1; try discriminate.
    destruct (fill_order fx fuel data rest t1) as [ok2 t2| |] eqn:E2; try discriminate.
    injection E as <- <-.
    destruct (Hin i (or_introl eq_refl)) as (p & Hp & Hc).
    destruct (insert_root_agg fx fuel data i t ok1 t1 p l E1 Hp Hc Hagg) as (A1 & C1).
    destruct (IH t1 ok2 t2 (i :: l) E2) as (A2 & C2).
    + intros x Hx. rewrite C1. apply Hin. right. exact Hx.
    + exact A1.
    + cbn [rev]. rewrite <- app_assoc. cbn [app]. split; [exact A2 | congruence].
Qed.

Theorem com_is_mean_gen : forall fx fuel data order root ok t,
  (forall i, In i order -> inside data root i) ->
  fill_order fx fuel data order (init root) = Done ok t ->
  agg_ok data order (qcum t) (qcom t).
Proof.
  intros fx fuel data order root ok t Hin E.
  destruct (fill_root_agg fx fuel data order (init root) ok t [] E Hin) as (A & _).
  - cbn [init qcum qcom]. apply agg_ok_nil.
  - rewrite app_nil_r in A. apply (agg_ok_perm data (rev order)); [|exact A].
    apply Permutation_sym, Permutation_rev.
Qed.

(* ---------- order independence of the root aggregates ---------- *)

Theorem order_independent_root : forall fx fuel1 fuel2 data order1 order2 root ok1 ok2 t1 t2,
  Permutation order1 order2 ->
  (forall i, In i order1 -> inside data root i) ->
  fill_order fx fuel1 data order1 (init root) = Done ok1 t1 ->
  fill_order fx fuel2 data order2 (init root) = Done ok2 t2 ->
  qcum t1 = qcum t2 /\ pt_eq (qcom t1) (qcom t2).
Proof.
  intros fx fuel1 fuel2 data order1 order2 root ok1 ok2 t1 t2 HP Hin E1 E2.
  pose proof (com_is_mean_gen fx fuel1 data order1 root ok1 t1 Hin E1) as A1.
  assert (Hin2 : forall i, In i order2 -> inside data root i).
  { intros i Hi. apply Hin. apply (Permutation_in _ (Permutation_sym HP) Hi). }
  pose proof (com_is_mean_gen fx fuel2 data order2 root ok2 t2 Hin2 E2) as A2.
  apply (agg_ok_perm _ _ _ _ _ (Permutation_sym HP)) in A2.
  destruct A1 as (C1 & X1 & Y1), A2 as (C2 & X2 & Y2).
  split; [congruence|].
  destruct order1 as [|a order1].
  - (* nothing inserted: both are the initial (0,0) *)
    apply Permutation_nil in HP. subst order2. cbn in E1, E2.
    injection E1 as <- <-. injection E2 as <- <-. apply pt_eq_refl.
  - assert (Hpos : 0 < Qn (qcum t1)) by (rewrite C1; cbn [length]; apply Qn_S_pos).
    assert (E : qcum t2 = qcum t1) by congruence. rewrite E in X2, Y2.
    split.
    + apply (Qmult_inj_l _ _ (Qn (qcum t1))); [lra|]. rewrite X1, X2. reflexivity.
    + apply (Qmult_inj_l _ _ (Qn (qcum t1))); [lra|]. rewrite Y1, Y2. reflexivity.
Qed.
