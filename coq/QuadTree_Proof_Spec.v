(* QuadTree_Proof_Spec.v — (1) the boolean checker spec_okb is sound for `spec`;
   (2) the shipped insert/subdivide refutes `spec` as soon as a leaf that has
   absorbed an exact duplicate is split (defect F24), the repaired one does not. *)
From Coq Require Import List Arith Bool ZArith QArith Permutation Lia Lqa.
From TK Require Import QuadTree_Model QuadTree_Spec QuadTree_SpecExec QuadTree_Proof_Base QuadTree_Proof_Insert
                       QuadTree_Proof_Main.
Import ListNotations.
Local Open Scope Q_scope.

(* ---------- reflection of the atoms ---------- *)

Lemma coincb_iff : forall data i j, coincb data i j = true <-> coinc data i j.
Proof.
  intros data i j. unfold coincb, coinc. split.
  - destruct (nth_error data i) as [a|]; [|discriminate].
    destruct (nth_error data j) as [b|]; [|discriminate].
    intro H. exists a, b. repeat split; try reflexivity; apply pt_eqb_iff in H; apply H.
  - intros (a & b & Ha & Hb & E). rewrite Ha, Hb. apply pt_eqb_iff. exact E.
Qed.

Lemma insideb_iff : forall data c i, insideb data c i = true <-> inside data c i.
Proof.
  intros data c i. unfold insideb, inside. split.
  - destruct (nth_error data i) as [p|]; [|discriminate]. intro H. exists p. auto.
  - intros (p & Hp & Hc). rewrite Hp. exact Hc.
Qed.

Lemma agg_okb_iff : forall data l cum com, agg_okb data l cum com = true <-> agg_ok data l cum com.
Proof.
  intros. unfold agg_okb, agg_ok. rewrite !andb_true_iff, Nat.eqb_eq, !Qeq_bool_iff. tauto.
Qed.

(* ---------- cells ---------- *)

Lemma cells_okb_Routed : forall data ins t,
  cells_okb data ins t = true -> Routed data (assigned data ins t) t.
Proof.
  intros data ins t.
  induction t as [c st cum com | c cum com nw IH1 ne IH2 sw IH3 se IH4]; intro H.
  - destruct st as [[j cnt]|].
    + cbn [cells_okb] in H. cbn [assigned] in *.
      set (l := filter (fun i => coincb data i j) ins) in *.
      apply andb_true_iff in H. destruct H as [H Hagg].
      apply andb_true_iff in H. destruct H as [Hne Hin].
      apply R_leaf.
      * intro E. rewrite E in Hne. discriminate.
      * intros i Hi. unfold l in Hi. apply filter_In in Hi. apply coincb_iff. apply Hi.
      * intros i Hi. apply insideb_iff. rewrite forallb_forall in Hin. apply Hin. exact Hi.
      * apply agg_okb_iff. exact Hagg.
    + cbn [cells_okb] in H. apply Nat.eqb_eq in H. subst cum. cbn [assigned]. constructor.
  - cbn [cells_okb] in H.
    repeat (apply andb_true_iff in H; let K := fresh "K" in destruct H as [H K]).
    cbn [assigned] in *.
    apply (R_node data c cum com nw ne sw se _
             (assigned data ins nw) (assigned data ins ne) (assigned data ins sw) (assigned data ins se)).
    + apply Permutation_refl.
    + apply IH1; assumption.
    + apply IH2; assumption.
    + apply IH3; assumption.
    + apply IH4; assumption.
    + intros i Hi. apply insideb_iff. rewrite forallb_forall in H. apply H. exact Hi.
    + apply agg_okb_iff. assumption.
Qed.

(* ---------- every inserted index has exactly one owner => the assignment is a partition ---------- *)

Lemma assigned_flat_map : forall data ins t,
  assigned data ins t = flat_map (fun j => filter (fun i => coincb data i j) ins) (all_indices t).
Proof.
  intros data ins t. induction t as [c st cum com | c cum com nw IH1 ne IH2 sw IH3 se IH4].
  - destruct st as [[j cnt]|]; cbn [assigned all_indices flat_map]; [rewrite app_nil_r|]; reflexivity.
  - cbn [assigned all_indices]. rewrite !flat_map_app, IH1, IH2, IH3, IH4. reflexivity.
Qed.

Lemma filter_nil_all_false : forall (g : nat -> bool) S, filter g S = [] -> forall x, In x S -> g x = false.
Proof.
  intros g S. induction S as [|a S IH]; cbn [filter]; intros H x Hx; [destruct Hx|].
  destruct (g a) eqn:E; [discriminate|]. destruct Hx as [<-|Hx]; [exact E | apply IH; assumption].
Qed.

Lemma filter_length_1_split : forall (g : nat -> bool) S,
  length (filter g S) = 1%nat ->
  exists S1 j0 S2, S = S1 ++ j0 :: S2 /\ g j0 = true /\
                   (forall x, In x S1 -> g x = false) /\ (forall x, In x S2 -> g x = false).
Proof.
  intros g S. induction S as [|a S IH]; cbn [filter]; intro H; [discriminate|].
  destruct (g a) eqn:E.
  - cbn [length] in H. exists [], a, S. repeat split; try assumption; try reflexivity.
    + intros x [].
    + apply filter_nil_all_false. destruct (filter g S); [reflexivity | discriminate].
  - destruct (IH H) as (S1 & j0 & S2 & -> & Hj & H1 & H2).
    exists (a :: S1), j0, S2. repeat split; try assumption; try reflexivity.
    intros x [<-|Hx]; [exact E | apply H1; exact Hx].
Qed.

Lemma flat_map_ext_in' : forall (F G : nat -> list nat) S,
  (forall x, In x S -> F x = G x) -> flat_map F S = flat_map G S.
Proof.
  intros F G S. induction S as [|a S IH]; intro H; cbn [flat_map]; [reflexivity|].
  rewrite (H a (or_introl eq_refl)), IH; [reflexivity|]. intros x Hx. apply H. right. exact Hx.
Qed.

Lemma flat_map_insert : forall (f : nat -> nat -> bool) S a ins',
  length (filter (f a) S) = 1%nat ->
  Permutation (a :: flat_map (fun j => filter (fun i => f i j) ins') S)
              (flat_map (fun j => filter (fun i => f i j) (a :: ins')) S).
Proof.
  intros f S a ins' H.
  destruct (filter_length_1_split (f a) S H) as (S1 & j0 & S2 & -> & Hj & H1 & H2).
  rewrite !flat_map_app.
  rewrite (flat_map_ext_in' (fun j => filter (fun i => f i j) (a :: ins'))
                            (fun j => filter (fun i => f i j) ins') S1).
  2:{ intros x Hx. cbn [filter]. rewrite (H1 x Hx). reflexivity. }
  change (flat_map (fun j => filter (fun i => f i j) (a :: ins')) (j0 :: S2))
    with (filter (fun i => f i j0) (a :: ins') ++ flat_map (fun j => filter (fun i => f i j) (a :: ins')) S2).
  change (flat_map (fun j => filter (fun i => f i j) ins') (j0 :: S2))
    with (filter (fun i => f i j0) ins' ++ flat_map (fun j => filter (fun i => f i j) ins') S2).
  rewrite (flat_map_ext_in' (fun j => filter (fun i => f i j) (a :: ins'))
                            (fun j => filter (fun i => f i j) ins') S2).
  2:{ intros x Hx. cbn [filter]. rewrite (H2 x Hx). reflexivity. }
  cbn [filter]. rewrite Hj.
  cbn [app]. apply Permutation_middle.
Qed.

Lemma perm_partition : forall (f : nat -> nat -> bool) S ins,
  (forall i, In i ins -> length (filter (f i) S) = 1%nat) ->
  Permutation ins (flat_map (fun j => filter (fun i => f i j) ins) S).
Proof.
  intros f S ins. induction ins as [|a ins IH]; intro H.
  - clear H. cbn [filter]. induction S as [|s0 S IHS]; cbn [flat_map app]; [apply perm_nil | exact IHS].
  - apply (Permutation_trans (l' := a :: flat_map (fun j => filter (fun i => f i j) ins) S)).
    + apply perm_skip. apply IH. intros i Hi. apply H. right. exact Hi.
    + apply flat_map_insert. apply H. left. reflexivity.
Qed.

Lemma pairwiseb_FOP : forall (f : nat -> nat -> bool) s,
  pairwiseb f s = true -> ForallOrdPairs (fun a b => f a b = true) s.
Proof.
  intros f s. induction s as [|a s IH]; cbn [pairwiseb]; intro H; [constructor|].
  apply andb_true_iff in H. destruct H as [H1 H2]. constructor.
  - apply Forall_forall. rewrite forallb_forall in H1. exact H1.
  - apply IH. exact H2.
Qed.

Lemma FOP_impl : forall (R R' : nat -> nat -> Prop) s,
  (forall a b, R a b -> R' a b) -> ForallOrdPairs R s -> ForallOrdPairs R' s.
Proof.
  intros R R' s HR H. induction H as [|a s Ha Hs IH]; constructor.
  - apply (Forall_impl _ (HR a) Ha).
  - exact IH.
Qed.

(* ---------- soundness of the checker ---------- *)

Theorem spec_okb_sound_gen : forall data ins t, spec_okb data ins t = true -> spec data ins t.
Proof.
  intros data ins t H. unfold spec_okb in H.
  apply andb_true_iff in H. destruct H as [H Hpw].
  apply andb_true_iff in H. destruct H as [H Hsub].
  apply andb_true_iff in H. destruct H as [Hown Hcells].
  split; [|split].
  - exists (assigned data ins t). split; [|apply cells_okb_Routed; exact Hcells].
    rewrite assigned_flat_map. apply (perm_partition (coincb data)).
    intros i Hi. rewrite forallb_forall in Hown. apply Nat.eqb_eq. apply Hown. exact Hi.
  - intros j Hj. rewrite forallb_forall in Hsub. specialize (Hsub j Hj).
    apply existsb_exists in Hsub. destruct Hsub as (x & Hx & E). apply Nat.eqb_eq in E. subst x. exact Hx.
  - unfold noncoinc_list. apply pairwiseb_FOP in Hpw.
    apply (FOP_impl (fun a b => negb (coincb data a b) = true)); [|exact Hpw].
    intros a b Hab Hco. apply coincb_iff in Hco. rewrite Hco in Hab. discriminate.
Qed.

(* ---------- F24: the shipped code loses the absorbed mass on subdivide ---------- *)

(* cum_consistent is defined in QuadTree_SpecExec (it is also run on the dump of the real tree) *)

Lemma Routed_cum : forall data l t, Routed data l t -> qcum t = length l /\ cum_consistent t = true.
Proof.
  intros data l t H.
  induction H as [c com | c j cnt cum com l Hne Hco Hin (Hc & _)
                 | c cum com nw ne sw se l l1 l2 l3 l4 HP R1 [C1 K1] R2 [C2 K2] R3 [C3 K3] R4 [C4 K4] Hin (Hc & _)];
    cbn [qcum cum_consistent length].
  - auto.
  - auto.
  - split; [exact Hc|]. rewrite K1, K2, K3, K4, C1, C2, C3, C4, !andb_true_r.
    apply Nat.eqb_eq. rewrite Hc, (Permutation_length HP), !app_length. lia.
Qed.

Definition f24_data : list pt := [(-(1#2), -(1#2)); (-(1#2), -(1#2)); (1#2, 1#2)].
Definition f24_root : cell := mkCell 0 0 1 1.
Definition f24_order : list nat := [0; 1; 2]%nat.

Lemma f24_inside : forall i, In i f24_order -> inside f24_data f24_root i.
Proof.
  intros i [<-|[<-|[<-|[]]]]; eexists; (split; [reflexivity | vm_compute; reflexivity]).
Qed.

Theorem routed_once_shipped_refuted_gen :
  exists data root order t,
    NoDup order /\ (forall i, In i order -> inside data root i) /\
    fill_order false 3 data order (init root) = Done true t /\
    ~ spec data order t /\
    (* the very cell: NW child has mass 1 although two inserted points lie in its box *)
    (exists c st com ne sw se rc rcom, t = Node rc 3 rcom (Leaf c st 1 com) ne sw se /\
       inside data c 0%nat /\ inside data c 1%nat).
Proof.
  exists f24_data, f24_root, f24_order.
  destruct (fill_order false 3 f24_data f24_order (init f24_root)) as [ok t| |] eqn:E;
    vm_compute in E; try discriminate.
  injection E as <- <-.
  eexists. split; [repeat constructor; cbn; intuition lia|].
  split; [exact f24_inside|]. split; [reflexivity|]. split.
  - intros [(l & HP & HR) _]. apply Routed_cum in HR. destruct HR as [_ HR].
    vm_compute in HR. discriminate.
  - do 8 eexists. split; [reflexivity|].
    split; eexists; (split; [reflexivity | vm_compute; reflexivity]).
Qed.
