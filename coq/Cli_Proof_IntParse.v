(* ====================================================================== *)
(*  Cli_Proof_IntParse.v — facts about the model of cxxopts'               *)
(*  integer_parser<int> (Cli_IntParse_Model.v):                            *)
(*   * whatever it accepts is an int (int_parse_in_range);                 *)
(*   * a decimal numeral (optionally with '-') whose value fits is read as *)
(*     its value (int_parse_decimal / int_parse_negative_decimal), so the  *)
(*     integer options receive exactly the number written;                 *)
(*   * the overflow test `result > next` misses some wrap-arounds          *)
(*     (int_parse_wrap_quirk: "4772185890" is read as 477218594).          *)
(* ====================================================================== *)
From Coq Require Import String Ascii List ZArith Bool Arith Lia.
From TK Require Import Cli_Model Cli_IntParse_Model.
Import ListNotations.
Local Open Scope string_scope.

Lemma accumulate_nonneg : forall hex s acc u, (0 <= acc)%Z -> accumulate hex s acc = Some u -> (0 <= u)%Z.
Proof.
  induction s as [|c r IH]; intros acc u Hacc H; cbn [accumulate] in H.
  - injection H as <-. exact Hacc.
  - destruct (digit_value hex c) as [d|]; [|discriminate H].
    destruct (_ <? acc)%Z; [discriminate H|].
    apply (IH _ u) in H; [exact H|]. apply Z.mod_pos_bound. reflexivity.
Qed.

Theorem int_parse_in_range : forall s z, int_parse s = Some z -> (-2147483648 <= z <= 2147483647)%Z.
Proof.
  intros s z H. unfold int_parse in H.
  destruct (split_integer s) as [[[neg hex] v]|]; [|discriminate H].
  destruct (accumulate hex v 0%Z) as [u|] eqn:E; [|discriminate H].
  pose proof (accumulate_nonneg hex v 0%Z u (Z.le_refl 0) E) as Hu.
  destruct neg.
  - destruct (2147483648 <? u)%Z eqn:L; [discriminate H|]. injection H as <-.
    apply Z.ltb_ge in L. lia.
  - destruct (2147483647 <? u)%Z eqn:L; [discriminate H|]. injection H as <-.
    apply Z.ltb_ge in L. lia.
Qed.

Lemma digit_bounds : forall c, is_digit c = true -> (0 <= Z.of_nat (nat_of_ascii c - 48) <= 9)%Z.
Proof.
  intros c H. unfold is_digit in H. apply andb_true_iff in H. destruct H as [H1 H2].
  apply Nat.leb_le in H1. apply Nat.leb_le in H2. lia.
Qed.

Lemma digits_val_ge : forall s acc, all_digits s = true -> (0 <= acc)%Z -> (acc <= digits_val s acc)%Z.
Proof.
  induction s as [|c r IH]; intros acc Hs Hacc; cbn [digits_val]; [lia|].
  cbn [all_digits] in Hs. apply andb_true_iff in Hs. destruct Hs as [Hc Hr].
  pose proof (digit_bounds c Hc) as Hd.
  specialize (IH (10 * acc + Z.of_nat (nat_of_ascii c - 48))%Z Hr). lia.
Qed.

Lemma accumulate_digits : forall s acc, all_digits s = true -> (0 <= acc)%Z ->
  (digits_val s acc < two32)%Z -> accumulate false s acc = Some (digits_val s acc).
Proof.
  induction s as [|c r IH]; intros acc Hs Hacc Hlt; [reflexivity|].
  cbn [all_digits] in Hs. apply andb_true_iff in Hs. destruct Hs as [Hc Hr].
  pose proof (digit_bounds c Hc) as Hd.
  cbn [accumulate digits_val] in *. unfold digit_value. rewrite Hc. unfold code.
  set (n := (10 * acc + Z.of_nat (nat_of_ascii c - 48))%Z) in *.
  assert (Hn : (0 <= n)%Z) by (unfold n; lia).
  pose proof (digits_val_ge r n Hr Hn) as Hge.
  replace (acc * 10 + Z.of_nat (nat_of_ascii c - 48))%Z with n by (unfold n; lia).
  rewrite Z.mod_small by lia.
  assert (Hcmp : (n <? acc)%Z = false) by (apply Z.ltb_ge; unfold n; lia).
  rewrite Hcmp. apply IH; assumption.
Qed.

Lemma digit_is_alnum : forall c, is_digit c = true -> is_alnum c = true.
Proof. intros c H. unfold is_alnum. rewrite H. reflexivity. Qed.

Lemma all_digits_alnum : forall s, all_digits s = true -> all_alnum s = true.
Proof.
  induction s as [|c r IH]; intro H; [reflexivity|].
  cbn [all_digits] in H. apply andb_true_iff in H. destruct H as [Hc Hr].
  cbn [all_alnum]. rewrite (digit_is_alnum c Hc), (IH Hr). reflexivity.
Qed.

Lemma digit_not_dash : forall c, is_digit c = true -> Ascii.eqb c "-" = false.
Proof.
  intros c H. destruct (Ascii.eqb c "-") eqn:E; [|reflexivity].
  apply Ascii.eqb_eq in E. subst c. discriminate H.
Qed.

Lemma digit_not_x : forall c, is_digit c = true -> Ascii.eqb c "x" = false.
Proof.
  intros c H. destruct (Ascii.eqb c "x") eqn:E; [|reflexivity].
  apply Ascii.eqb_eq in E. subst c. discriminate H.
Qed.

Lemma split_digits_tail : forall r, is_empty r = false -> all_digits r = true ->
  (if is_empty r || negb (all_alnum r) then None
   else match r with
        | String c0 (String c1 r') =>
          if Ascii.eqb c0 "0" && Ascii.eqb c1 "x" && negb (is_empty r') then Some (false, true, r')
          else Some (false, false, r)
        | _ => Some (false, false, r)
        end) = Some (false, false, r) /\
  (if is_empty r || negb (all_alnum r) then None
   else match r with
        | String c0 (String c1 r') =>
          if Ascii.eqb c0 "0" && Ascii.eqb c1 "x" && negb (is_empty r') then Some (true, true, r')
          else Some (true, false, r)
        | _ => Some (true, false, r)
        end) = Some (true, false, r).
Proof.
  intros r He Hd. rewrite He, (all_digits_alnum r Hd). cbn [orb negb].
  destruct r as [|c0 [|c1 r']]; [discriminate He|split; reflexivity|].
  cbn [all_digits] in Hd. apply andb_true_iff in Hd. destruct Hd as [_ Hd].
  apply andb_true_iff in Hd. destruct Hd as [H1 _].
  rewrite (digit_not_x c1 H1). rewrite andb_false_r. cbn [andb]. split; reflexivity.
Qed.

(* a decimal numeral that fits in an int is read as its value *)
Theorem int_parse_decimal : forall s, is_empty s = false -> all_digits s = true ->
  (digits_val s 0 <= 2147483647)%Z -> int_parse s = Some (digits_val s 0%Z).
Proof.
  intros s He Hd Hfit. unfold int_parse, split_integer.
  destruct s as [|c r]; [discriminate He|].
  pose proof Hd as Hd'. cbn [all_digits] in Hd'. apply andb_true_iff in Hd'. destruct Hd' as [Hc _].
  rewrite (digit_not_dash c Hc).
  destruct (split_digits_tail (String c r) He Hd) as [-> _].
  rewrite accumulate_digits; [|exact Hd|lia|unfold two32; lia].
  assert (L : (2147483647 <? digits_val (String c r) 0)%Z = false) by (apply Z.ltb_ge; exact Hfit).
  rewrite L. reflexivity.
Qed.

Theorem int_parse_negative_decimal : forall s, is_empty s = false -> all_digits s = true ->
  (digits_val s 0 <= 2147483648)%Z -> int_parse (String "-" s) = Some (- digits_val s 0)%Z.
Proof.
  intros s He Hd Hfit. unfold int_parse, split_integer. rewrite Ascii.eqb_refl.
  destruct (split_digits_tail s He Hd) as [_ ->].
  rewrite accumulate_digits; [|exact Hd|lia|unfold two32; lia].
  assert (L : (2147483648 <? digits_val s 0)%Z = false) by (apply Z.ltb_ge; exact Hfit).
  rewrite L. reflexivity.
Qed.

(* what is NOT an int for cxxopts: empty text, a sign '+', a fraction, trailing letters in base 10 *)
Theorem int_parse_rejects :
  int_parse "" = None /\ int_parse "+5" = None /\ int_parse "1.5" = None /\ int_parse "12abc" = None /\
  int_parse "0x" = None /\ int_parse "0x1g" = None /\ int_parse "2147483648" = None /\
  int_parse "-2147483649" = None.
Proof. vm_compute. repeat split. Qed.

Theorem int_parse_hex : int_parse "0x10" = Some 16%Z /\ int_parse "-0x5" = Some (-5)%Z /\ int_parse "0xABC" = Some 2748%Z.
Proof. vm_compute. repeat split. Qed.

(* quirk of cxxopts 3.1.1 (not of tapkee): `if (result > next) throw` does not see every wrap-around of
   the unsigned accumulation; 4772185890 = 2^32 + 477218594 is accepted *)
Theorem int_parse_wrap_quirk : int_parse "4772185890" = Some 477218594%Z.
Proof. vm_compute. reflexivity. Qed.
