(* Conn_Proof_Strong.v — the repaired test (forward search + search over the reversed
   lists) decides strong connectivity; strong connectivity and hence the repaired
   decision are invariant under relabelling of the samples; reachability gives finite
   geodesics. *)
From Coq Require Import List Arith Bool ZArith Lia Permutation.
From TK Require Import Conn_Model Conn_Spec Conn_Proof_Graph Conn_Proof_Dfs.
Import ListNotations.

(* ------------------------------------------------------------ reversed lists *)
Lemma nth_repeat_nil : forall (A : Type) n b, nth b (repeat (@nil A) n) [] = [].
Proof. induction n; destruct b; cbn; auto. Qed.

Lemma add_rev_edges_spec : forall i row rev,
  (forall j, In j row -> j < length rev) ->
  exists rev', add_rev_edges i row rev = COk rev' /\ length rev' = length rev /\
    forall a b, In a (nth b rev' []) <-> In a (nth b rev []) \/ (a = i /\ In b row).
Proof.
  intros i row. induction row as [|j t IH]; intros rev Hlt; cbn [add_rev_edges].
  - exists rev. split; auto. split; auto. intros a b. split; auto. intros [H|[_ []]]; auto.
  - assert (Hj : j < length rev) by (apply Hlt; left; auto).
    destruct (nth_error_lt_Some _ _ _ Hj) as [r Er]. rewrite Er.
    set (rev1 := set_nth rev j (r ++ [i])).
    assert (Hl1 : length rev1 = length rev) by (unfold rev1; apply set_nth_length).
    destruct (IH rev1) as [rev' [E [Hl Hin]]].
    { intros x Hx. rewrite Hl1. apply Hlt. right; auto. }
    exists rev'. split; auto. split; [lia|].
    intros a b. rewrite Hin. unfold rev1.
    destruct (Nat.eq_dec b j) as [->|Hne].
    + rewrite nth_set_nth_eq by auto. rewrite in_app_iff.
      rewrite (nth_error_nth_default _ rev j r [] Er). cbn.
      split.
      * intros [[H|[H|[]]]|[H1 H2]]; auto.
      * intros [H|[H1 [H2|H2]]]; auto.
    + rewrite nth_set_nth_neq by auto. cbn. split.
      * intros [H|[H1 H2]]; auto.
      * intros [H|[H1 [H2|H2]]]; auto. congruence.
Qed.

Lemma rev_loop_spec : forall nb cnt i rev,
  i + cnt <= length nb ->
  (forall row, In row nb -> forall j, In j row -> j < length rev) ->
  exists rev', rev_loop nb cnt i rev = COk rev' /\ length rev' = length rev /\
    forall a b, In a (nth b rev' []) <->
                In a (nth b rev []) \/ (i <= a < i + cnt /\ In b (nth a nb [])).
Proof.
  intros nb cnt. induction cnt as [|cnt IH]; intros i rev Hi Hlt; cbn [rev_loop].
  - exists rev. split; auto. split; auto. intros a b. split; auto. intros [H|[H _]]; auto. lia.
  - assert (Hil : i < length nb) by lia.
    destruct (nth_error_lt_Some _ _ _ Hil) as [row Erow]. rewrite Erow.
    assert (Hrin : In row nb) by (eapply nth_error_In; eauto).
    destruct (add_rev_edges_spec i row rev (Hlt row Hrin)) as [rev1 [E1 [Hl1 Hin1]]].
    rewrite E1.
    destruct (IH (S i) rev1) as [rev' [E [Hl Hin]]]; [lia| |].
    { intros r Hr j Hj. rewrite Hl1. eapply Hlt; eauto. }
    exists rev'. split; auto. split; [lia|].
    intros a b. rewrite Hin, Hin1.
    rewrite <- (nth_error_nth_default _ nb i row [] Erow).
    split.
    + intros [[H|[-> H]]|[H1 H2]]; auto.
      * right. split; auto. lia.
      * right. split; auto. lia.
    + intros [H|[H1 H2]]; auto.
      destruct (Nat.eq_dec a i) as [->|Hne]; auto.
      right. split; auto. lia.
Qed.

Lemma reverse_lists_spec : forall N nb, wf_graph N nb ->
  exists rev, reverse_lists N nb = COk rev /\ wf_graph N rev /\
    forall a b, edge rev b a <-> edge nb a b.
Proof.
  intros N nb Hwf. pose proof Hwf as [Hl Hr]. unfold reverse_lists.
  destruct (rev_loop_spec nb N 0 (repeat [] N)) as [rev [E [Hlen Hin]]].
  - lia.
  - intros row Hrow j Hj. rewrite repeat_length. eapply Hr; eauto.
  - rewrite repeat_length in Hlen.
    assert (Hedge : forall a b, edge rev b a <-> edge nb a b).
    { intros a b. unfold edge. rewrite Hin. rewrite nth_repeat_nil. cbn. split.
      - intros [[]|[_ H]]; auto.
      - intros H. right. split; auto.
        assert (a < N /\ b < N) by (eapply wf_edge; eauto). lia. }
    exists rev. split; auto. split; auto.
    split; auto.
    intros row Hrow a Ha. apply In_nth with (d := []) in Hrow.
    destruct Hrow as [b [Hb Eb]]. subst row.
    assert (He : edge nb a b) by (apply Hedge; exact Ha).
    eapply wf_edge in He; eauto. lia.
Qed.

Lemma reach_reversed : forall g1 g2,
  (forall a b, edge g2 b a -> edge g1 a b) ->
  forall i j, reach g2 i j -> reach g1 j i.
Proof.
  intros g1 g2 H i j Hr. induction Hr as [|i m j He Hr IH].
  - apply reach_refl.
  - eapply reach_step_r; eauto.
Qed.

(* ------------------------------------------------------------ the repaired test *)
Lemma is_connected_fixed_correct : forall N nb, 0 < N -> wf_graph N nb ->
  exists b, is_connected_fixed N nb = COk b /\ (b = true <-> strongly_connected N nb).
Proof.
  intros N nb HN Hwf. unfold is_connected_fixed.
  destruct (all_reachable_from_first_correct N nb HN Hwf) as [b1 [E1 H1]]. rewrite E1.
  destruct b1.
  - destruct (reverse_lists_spec N nb Hwf) as [rev [Er [Hwr Hedge]]]. rewrite Er.
    destruct (all_reachable_from_first_correct N rev HN Hwr) as [b2 [E2 H2]].
    exists b2. split; auto. rewrite H2.
    assert (Hf : all_from_first N nb) by (apply H1; auto).
    split.
    + intros Hb i j Hi Hj. eapply reach_trans; [|apply Hf; auto].
      eapply reach_reversed; [|apply Hb; auto]. intros a b. apply Hedge.
    + intros Hs j Hj. eapply reach_reversed; [|apply (Hs j 0); auto].
      intros a b. apply Hedge.
  - exists false. split; auto. split; [discriminate|].
    intros Hs. apply H1. intros j Hj. apply Hs; auto.
Qed.

(* ------------------------------------------------------------ permutations *)
Lemma pos_nth : forall p v d, NoDup p -> v < length p -> pos p (nth v p d) = v.
Proof.
  induction p as [|h t IH]; intros v d Hnd Hv; cbn in Hv; [lia|].
  inversion Hnd as [|? ? Hnotin Hnd']; subst.
  destruct v; cbn.
  - rewrite Nat.eqb_refl. reflexivity.
  - destruct (h =? nth v t d) eqn:E.
    + apply Nat.eqb_eq in E. exfalso. apply Hnotin. rewrite E. apply nth_In. lia.
    + f_equal. apply IH; auto. lia.
Qed.

Lemma nth_pos : forall p x d, In x p -> pos p x < length p /\ nth (pos p x) p d = x.
Proof.
  induction p as [|h t IH]; intros x d Hin; [destruct Hin|].
  cbn. destruct (h =? x) eqn:E.
  - apply Nat.eqb_eq in E. split; [lia|auto].
  - destruct Hin as [->|Hin]; [rewrite Nat.eqb_refl in E; discriminate|].
    destruct (IH x d Hin) as [H1 H2]. split; [lia|auto].
Qed.

Lemma is_perm_facts : forall N p, is_perm N p ->
  length p = N /\ NoDup p /\ forall x, In x p <-> x < N.
Proof.
  unfold is_perm. intros N p H. split; [|split].
  - rewrite (Permutation_length H). apply seq_length.
  - eapply Permutation_NoDup; [apply Permutation_sym; eauto|apply seq_NoDup].
  - intros x. split; intros Hx.
    + eapply Permutation_in in Hx; eauto. apply in_seq in Hx. lia.
    + eapply Permutation_in; [apply Permutation_sym; eauto|]. apply in_seq. lia.
Qed.

Section Relabel.
Variable N : nat.
Variable nb : graph.
Variable p : list nat.
Hypothesis Hwf : wf_graph N nb.
Hypothesis Hp : is_perm N p.

Let f (x : nat) : nat := pos p x.      (* old index -> new index *)
Let g (v : nat) : nat := nth v p 0.    (* new index -> old index *)

Lemma rl_len : length p = N. Proof. apply is_perm_facts; auto. Qed.
Lemma rl_g_lt : forall v, v < N -> g v < N.
Proof.
  intros v Hv. destruct (is_perm_facts N p Hp) as [Hl [_ Hin]]. apply Hin. apply nth_In. lia.
Qed.
Lemma rl_f_lt : forall x, x < N -> f x < N.
Proof.
  intros x Hx. destruct (is_perm_facts N p Hp) as [Hl [_ Hin]].
  rewrite <- Hl. apply (nth_pos p x 0). apply Hin; auto.
Qed.
Lemma rl_fg : forall v, v < N -> f (g v) = v.
Proof.
  intros v Hv. destruct (is_perm_facts N p Hp) as [Hl [Hnd _]]. apply pos_nth; auto. lia.
Qed.
Lemma rl_gf : forall x, x < N -> g (f x) = x.
Proof.
  intros x Hx. destruct (is_perm_facts N p Hp) as [Hl [_ Hin]].
  apply (nth_pos p x 0). apply Hin; auto.
Qed.

Lemma rl_row : forall v, v < N -> nth v (relabel p nb) [] = map f (nth (g v) nb []).
Proof.
  intros v Hv. unfold relabel.
  set (F := fun old => map (pos p) (nth old nb [])).
  rewrite (nth_indep (map F p) [] (F 0)) by (rewrite map_length, rl_len; auto).
  rewrite map_nth. reflexivity.
Qed.

Lemma rl_wf : wf_graph N (relabel p nb).
Proof.
  split.
  - unfold relabel. rewrite map_length. apply rl_len.
  - intros row Hrow j Hj. apply In_nth with (d := []) in Hrow.
    destruct Hrow as [v [Hv Ev]]. unfold relabel in Hv. rewrite map_length, rl_len in Hv.
    rewrite rl_row in Ev by auto. subst row.
    apply in_map_iff in Hj. destruct Hj as [y [<- Hy]].
    apply rl_f_lt. assert (edge nb (g v) y) by exact Hy.
    eapply wf_edge; eauto.
Qed.

Lemma rl_reach_old_new : forall a b, reach nb a b -> a < N ->
  reach (relabel p nb) (f a) (f b).
Proof.
  intros a b H. induction H as [|a c b He Hr IH]; intros Ha.
  - apply reach_refl.
  - assert (Hc : c < N) by (eapply wf_edge; eauto).
    eapply reach_step; [|apply IH; auto].
    unfold edge. rewrite rl_row by (apply rl_f_lt; auto). rewrite rl_gf by auto.
    apply in_map. exact He.
Qed.

Lemma rl_reach_new_old : forall v w, reach (relabel p nb) v w -> v < N ->
  reach nb (g v) (g w).
Proof.
  intros v w H. induction H as [|v u w He Hr IH]; intros Hv.
  - apply reach_refl.
  - unfold edge in He. rewrite rl_row in He by auto.
    apply in_map_iff in He. destruct He as [y [Ey Hy]].
    assert (HyN : y < N). { assert (edge nb (g v) y) by exact Hy. eapply wf_edge; eauto. }
    assert (Hu : u < N) by (rewrite <- Ey; apply rl_f_lt; auto).
    eapply reach_step; [|apply IH; auto].
    rewrite <- Ey. rewrite rl_gf by auto. exact Hy.
Qed.

Lemma rl_strong : strongly_connected N (relabel p nb) <-> strongly_connected N nb.
Proof.
  split; intros H i j Hi Hj.
  - rewrite <- (rl_gf i), <- (rl_gf j) by auto.
    apply rl_reach_new_old; [|apply rl_f_lt; auto].
    apply H; apply rl_f_lt; auto.
  - rewrite <- (rl_fg i), <- (rl_fg j) by auto.
    apply rl_reach_old_new; [|apply rl_g_lt; auto].
    apply H; apply rl_g_lt; auto.
Qed.

End Relabel.

Lemma is_connected_fixed_perm : forall N nb p, 0 < N -> wf_graph N nb -> is_perm N p ->
  is_connected_fixed N (relabel p nb) = is_connected_fixed N nb.
Proof.
  intros N nb p HN Hwf Hp.
  destruct (is_connected_fixed_correct N nb HN Hwf) as [b [E H]].
  destruct (is_connected_fixed_correct N (relabel p nb) HN (rl_wf N nb p Hwf Hp)) as [b' [E' H']].
  rewrite E, E'. f_equal.
  rewrite (rl_strong N nb p Hwf Hp) in H'.
  destruct b, b'; auto.
  - apply (proj2 H'). apply (proj1 H). auto.
  - symmetry. apply (proj2 H). apply (proj1 H'). auto.
Qed.

(* ------------------------------------------------------------ finiteness of geodesics *)
Lemma reach_geodesic_finite : forall nb w i j d,
  reach nb i j -> is_geodesic nb w i j d -> exists z, d = Some z.
Proof.
  intros nb w i j d Hr Hg. destruct d as [z|]; [eauto|].
  apply reach_iff_walk in Hr. destruct Hr as [vs Hw]. exfalso. eapply Hg; eauto.
Qed.

Lemma unreachable_geodesic_infinite : forall nb w i j d,
  ~ reach nb i j -> is_geodesic nb w i j d -> d = None.
Proof.
  intros nb w i j d Hn Hg. destruct d as [z|]; auto.
  destruct Hg as [[vs [Hw _]] _]. exfalso. apply Hn. apply reach_iff_walk. eauto.
Qed.
