(* ====================================================================== *)
(*  Lap_Proof_Exec.v — the boolean decision procedures decide the spec,    *)
(*  and the extracted model's output is accepted by the extracted spec     *)
(*  (property C09: what the check RUNS is what the theorems are about)     *)
(*                                                                         *)
(*  mat_eqb_ok / vec_eqb_ok     boolean equality on the box <-> meq / veq  *)
(*  lap_matrix_b_ok             lap_matrix_b = true <-> well-formed, L =    *)
(*                              matL, D = degD (entrywise on the box)       *)
(*  dm_matrix_b_ok              dm_matrix_b = true <-> well-formed, M =     *)
(*                              dm_sym K n s                                *)
(*  lap_run_accepted            lap_run = LOk (L, D) -> lap_spec_run L D =  *)
(*                              true   (closed instance Qc, any oracle)    *)
(* ====================================================================== *)
Require Import Arith Lia List Bool ZArith QArith Qcanon.
From TK Require Import Mat_Sums Mat_Core Mat_Qc Lap_Model Lap_Spec Lap_Exec Lap_Proof_Lap.
Import ListNotations.
Local Open Scope list_scope.
Local Open Scope nat_scope.

Section EqbOk.
  Context {F : Type} {Fo : FieldOps F}.
  Variable eqb : F -> F -> bool.
  Hypothesis eqb_ok : forall x y, eqb x y = true <-> x = y.

  Lemma vec_eqb_ok n (x y : vec F) : vec_eqb eqb n x y = true <-> veq n x y.
  Proof.
    unfold vec_eqb, veq. rewrite forallb_forall. split.
    - intros H i Hi. apply eqb_ok. apply H. apply in_seq. lia.
    - intros H i Hi. apply in_seq in Hi. apply eqb_ok. apply H. lia.
  Qed.

  Lemma mat_eqb_ok n m (A B : mat F) : mat_eqb eqb n m A B = true <-> meq n m A B.
  Proof.
    unfold mat_eqb, meq. rewrite forallb_forall. split.
    - intros H i j Hi Hj. apply eqb_ok.
      assert (Hin : In i (seq 0 n)) by (apply in_seq; lia).
      specialize (H i Hin). rewrite forallb_forall in H. apply H. apply in_seq. lia.
    - intros H i Hi. apply in_seq in Hi. rewrite forallb_forall. intros j Hj. apply in_seq in Hj.
      apply eqb_ok. apply H; lia.
  Qed.

  Lemma lap_matrix_b_ok (heat : nat -> nat -> F) k nbrs n (L : list (list F)) (D : list F) :
    lap_matrix_b heat k nbrs eqb n L D = true <->
    (wf_mat n n L /\ length D = n /\
     meq n n (mof L) (matL heat k nbrs n) /\ veq n (vof D) (degD heat k nbrs n)).
  Proof.
    unfold lap_matrix_b. rewrite !andb_true_iff, wf_matb_ok, Nat.eqb_eq, mat_eqb_ok, vec_eqb_ok. tauto.
  Qed.

  Lemma dm_matrix_b_ok (K : mat F) n (M : list (list F)) (s : list F) :
    dm_matrix_b K n eqb M s = true <->
    (wf_mat n n M /\ length s = n /\ meq n n (mof M) (dm_sym K n (vof s))).
  Proof.
    unfold dm_matrix_b. rewrite !andb_true_iff, wf_matb_ok, Nat.eqb_eq, mat_eqb_ok. tauto.
  Qed.
End EqbOk.


(* the spec matrices only read the heat table inside the n x n box *)
Section HeatExt.
  Context {F : Type} {Fo : FieldOps F} {Ff : IsField F}.
  Variable heat heat' : nat -> nat -> F.
  Variable k n : nat.
  Variable nbrs : list (list nat).
  Hypothesis Hh : forall i j, i < n -> j < n -> heat i j = heat' i j.

  Lemma adjA_ext i j : i < n -> j < n -> adjA heat k nbrs i j = adjA heat' k nbrs i j.
  Proof.
    intros Hi Hj. unfold adjA. apply sumn_ext. intros p _.
    destruct (Nat.eqb (nb_at nbrs i p) j); [apply Hh; assumption|reflexivity].
  Qed.

  Lemma matW_ext i j : i < n -> j < n -> matW heat k nbrs i j = matW heat' k nbrs i j.
  Proof. intros Hi Hj. unfold matW. rewrite !adjA_ext by assumption. reflexivity. Qed.

  Lemma degD_ext i : i < n -> degD heat k nbrs n i = degD heat' k nbrs n i.
  Proof. intros Hi. unfold degD. apply sumn_ext. intros j Hj. apply matW_ext; assumption. Qed.

  Lemma matL_ext i j : i < n -> j < n -> matL heat k nbrs n i j = matL heat' k nbrs n i j.
  Proof.
    intros Hi Hj. unfold matL, mdiag. rewrite matW_ext by assumption.
    destruct (Nat.eqb i j); [rewrite degD_ext by assumption|]; reflexivity.
  Qed.
End HeatExt.

(* the two ways of writing the argument of exp agree in a field *)
Lemma exp_arg_agree (d w : Qc) : lap_exp_arg d w = dm_exp_arg d w.
Proof. unfold lap_exp_arg, dm_exp_arg. change (@fmul Qc QcOps) with Qcmult.
       change (@fopp Qc QcOps) with Qcopp. change (@fdiv Qc QcOps) with Qcdiv.
       unfold Qcdiv. ring. Qed.

(* the extracted model's output is accepted by the extracted spec decision procedure *)
Theorem lap_run_accepted (dist : list (list Qc)) (width : Qc) (expo : Qc -> Qc) (n : nat)
        (nbrs : list (list nat)) (L : list (list Qc)) (D : list Qc) :
  lap_run dist width expo n nbrs = LOk (L, D) ->
  lap_spec_run dist width expo n nbrs L D = true.
Proof.
  unfold lap_run, laplacian_dense, lap_spec_run. intros H.
  destruct (compute_laplacian (mof dist) width expo n nbrs) as [[ts D0]|a b c] eqn:E; [|discriminate].
  inversion H. subst L D. clear H.
  pose proof (@compute_laplacian_spec_k Qc QcOps QcField (mof dist) width expo n nbrs
                (length (hd [] nbrs)) ts D0 eq_refl E) as [HL [_ [_ [HM HD]]]].
  apply (lap_matrix_b_ok qeqb qeqb_ok). split; [apply mtab_wf|]. split; [exact HL|].
  assert (Hheat : forall i j, i < n -> j < n ->
            heat_of (mof dist) width expo i j =
            mof (mtab n n (fun i0 j0 => expo (dm_exp_arg (mof dist i0 j0) width))) i j).
  { intros i j Hi Hj. rewrite mof_mtab by assumption. unfold heat_of.
    f_equal. apply exp_arg_agree. }
  (* matL / degD only read heat at (i, nb_at i q) with nb_at < n and i < n: rewrite under the sums *)
  split.
  - intros r c Hr Hc. rewrite mof_mtab by assumption. rewrite (HM r c Hr Hc).
    apply (matL_ext _ _ (length (hd [] nbrs)) n nbrs Hheat r c Hr Hc).
  - intros r Hr. unfold vof. rewrite (HD r Hr).
    apply (degD_ext _ _ (length (hd [] nbrs)) n nbrs Hheat r Hr).
Qed.

(* ---------------------------------------------------------------------- *)
(*  the same for the diffusion matrix                                       *)
(* ---------------------------------------------------------------------- *)
From TK Require Import Lap_Proof_Dm.

Section DmExt.
  Context {F : Type} {Fo : FieldOps F} {Ff : IsField F}.
  Variable K K' : mat F.
  Variable n : nat.
  Hypothesis HK : forall i j, i < n -> j < n -> K i j = K' i j.

  Lemma dm_P_ext i : i < n -> dm_P K n i = dm_P K' n i.
  Proof. intros Hi. unfold dm_P, rowsum. apply sumn_ext. intros j Hj. apply HK; assumption. Qed.

  Lemma dm_K1_ext i j : i < n -> j < n -> dm_K1 K n i j = dm_K1 K' n i j.
  Proof.
    intros Hi Hj. rewrite !dm_K1_entry by assumption.
    rewrite (dm_P_ext i Hi), (dm_P_ext j Hj), (HK i j Hi Hj). reflexivity.
  Qed.

  Lemma dm_Q_ext i : i < n -> dm_Q K n i = dm_Q K' n i.
  Proof. intros Hi. unfold dm_Q, rowsum. apply sumn_ext. intros j Hj. apply dm_K1_ext; assumption. Qed.

  Lemma dm_sym_ext (s s' : vec F) i j :
    (forall t, t < n -> s t = s' t) -> i < n -> j < n -> dm_sym K n s i j = dm_sym K' n s' i j.
  Proof.
    intros Hs Hi Hj. rewrite !dm_sym_entry by assumption.
    rewrite (dm_K1_ext i j Hi Hj), (Hs i Hi), (Hs j Hj). reflexivity.
  Qed.
End DmExt.

Theorem dm_run_accepted (dist : list (list Qc)) (width : Qc) (expo sqrto : Qc -> Qc) (n : nat) :
  let K := dm_kernel (mof dist) width expo in
  let s := map sqrto (dm_sqrt_args_run dist width expo n) in
  (forall i, i < n -> dm_P K n i <> 0%F) ->
  (forall i, i < n -> vof s i <> 0%F) ->
  dm_spec_run dist width expo n (dm_run dist width expo sqrto n) s = true.
Proof.
  intros K s HP Hs0. unfold dm_spec_run, dm_run.
  assert (Hlen : length s = n).
  { unfold s, dm_sqrt_args_run. rewrite map_length, dm_sqrt_args_ok. unfold vtab. apply tab_length. }
  assert (Hsv : forall i, i < n -> vof s i = dm_p2 (mof dist) width expo sqrto n i).
  { intros i Hi. unfold s, dm_sqrt_args_run, vof. rewrite dm_sqrt_args_ok.
    rewrite (nth_indep _ 0%F (sqrto 0%F)) by (rewrite map_length; unfold vtab; rewrite tab_length; exact Hi).
    rewrite map_nth. unfold dm_p2. f_equal.
    change (nth i (vtab n (colsum n (dm_k1 (mof dist) width expo n))) 0%F)
      with (vof (vtab n (colsum n (dm_k1 (mof dist) width expo n))) i).
    apply vof_vtab. exact Hi. }
  apply (dm_matrix_b_ok qeqb qeqb_ok). rewrite compute_diffusion_matrix_ok.
  split; [apply mtab_wf|]. split; [exact Hlen|].
  intros i j Hi Hj. rewrite mof_mtab by assumption.
  assert (Hs0' : forall t, t < n -> dm_p2 (mof dist) width expo sqrto n t <> 0%F).
  { intros t Ht. rewrite <- (Hsv t Ht). apply Hs0. exact Ht. }
  destruct (dm_matrix_is_spec (mof dist) width expo sqrto n HP Hs0') as [_ HM].
  rewrite (HM i j Hi Hj).
  apply dm_sym_ext; try assumption.
  - intros a b Ha Hb. rewrite mof_mtab by assumption. unfold dm_kernel, dm_gk, dm_exp_arg.
    destruct (Nat.leb a b) eqn:E.
    + apply Nat.leb_le in E. rewrite Nat.min_l, Nat.max_r by lia. reflexivity.
    + apply Nat.leb_gt in E. rewrite Nat.min_r, Nat.max_l by lia. reflexivity.
  - intros t Ht. symmetry. apply Hsv. exact Ht.
Qed.
