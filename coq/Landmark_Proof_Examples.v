(* ====================================================================== *)
(*  Landmark_Proof_Examples.v — concrete instances (over Qc) showing that  *)
(*  the hypotheses of the C11 theorems are satisfiable, and regression     *)
(*  witnesses (F21 bounds).  1-D configuration x = (7,-7,1,-1,3,0),        *)
(*  landmarks 0,1,2,3 (centred: mean 0), target dimension 1:               *)
(*  B = z z^T, eigenvalue 100, eigenvector z/10, sqrt 10.                  *)
(* ====================================================================== *)
Require Import Field Ring Arith Lia List Bool Permutation ZArith QArith Qcanon.
From TK Require Import Mat_Sums Mat_Core Mat_Qc Landmark_Model Landmark_Spec
                       Landmark_Proof_Trace Landmark_Proof_Euclid Landmark_Proof_Main Landmark_Proof_Ratio
                       Landmark_Proof_Unique.
Import ListNotations.
Require String.
Import String.StringSyntax.
Local Open Scope nat_scope.

Definition ex_X : mat Qc := mof [[qz 7]; [qz (-7)]; [qz 1]; [qz (-1)]; [qz 3]; [qz 0]].
Definition ex_dist : mat Qc := fun a b => lm_qabs (ex_X a 0%nat - ex_X b 0%nat)%Qc.
Definition ex_lm : list nat := [0; 1; 2; 3].
(* dense answer: only the last column / value (the selected ones for d = 1) matter *)
Definition ex_W : mat Qc := fun r c => if Nat.eqb c 3 then (ex_X r 0%nat / qz 10)%Qc else Q2Qc 0.
Definition ex_w : vec Qc := fun c => if Nat.eqb c 3 then qz 100 else Q2Qc 0.
Definition ex_s : vec Qc := fun _ => qz 10.

Definition ex_run := lmds_embed 6 1 keep_all ex_lm ex_dist ex_W ex_w ex_s.

Definition ex_ws : list (nat * vec Qc) :=
  match ex_run with LOk ws => ws | LOOB _ _ _ => [] end.

Lemma ex_run_ok : ex_run = LOk ex_ws.
Proof.
  unfold ex_ws. destruct ex_run eqn:E; [reflexivity|]. exfalso.
  assert (H : exists ws, ex_run = LOk ws).
  { apply lmds_embed_total; [|cbn; lia].
    repeat constructor. }
  destruct H as [ws H]. rewrite H in E. discriminate.
Qed.

(* the embedding the model computes: x / 1 up to the sign of the eigenvector = x itself *)
Example ex_embedding :
  map (fun o => match o with Some [v] => Some (this v) | _ => None end) (emb_table 6 1 ex_ws)
  = [Some (7#1); Some (-7#1); Some (1#1); Some (-1#1); Some (3#1); Some (0#1)]%Q.
Proof. vm_compute. reflexivity. Qed.

Example lmds_reproduces_euclidean_nonvacuous :
  NoDup ex_lm /\
  @of_nat Qc _ (length ex_lm) <> 0%F /\ @two Qc _ <> 0%F /\
  (forall a b, a < 6 -> b < 6 -> (ex_dist a b * ex_dist a b)%F = lm_sqdist 1 ex_X a b) /\
  ex_run = LOk ex_ws /\
  meq 4 1 (mmul 4 (lmds_matrix ex_lm ex_dist) (sel_vecs 4 1 ex_W))
          (mmul 1 (sel_vecs 4 1 ex_W) (mdiag (sel_vals 4 1 ex_w))) /\
  lm_rank_d 4 1 (lmds_matrix ex_lm ex_dist) (sel_vecs 4 1 ex_W) (sel_vals 4 1 ex_w) /\
  (forall c, c < 1 -> (ex_s c * ex_s c)%F = sel_vals 4 1 ex_w c) /\
  (forall c, c < 1 -> @keep_all c = true -> sel_vals 4 1 ex_w c <> 0%F) /\
  (forall c, c < 1 -> @keep_all c = false -> ex_s c = 0%F) /\
  landmarks_span 6 1 ex_lm ex_X.
Proof.
  split. { repeat constructor; cbn; intuition lia. }
  split. { apply Qc_of_nat_neq0. cbn. lia. }
  split. { exact Qc_two_neq0. }
  split.
  { intros a b Ha Hb.
    assert (H : forallb (fun a => forallb (fun b =>
                qeqb (ex_dist a b * ex_dist a b)%F (lm_sqdist 1 ex_X a b)) (seq 0 6)) (seq 0 6) = true)
      by (vm_compute; reflexivity).
    pose proof (forall_lt_by_compute 6 _ H a Ha) as H1. cbv beta in H1.
    pose proof (forall_lt_by_compute 6 _ H1 b Hb) as H3. cbv beta in H3.
    apply qeqb_ok in H3. exact H3. }
  split. { exact ex_run_ok. }
  split. { apply meq_by_compute. vm_compute. reflexivity. }
  split. { unfold lm_rank_d. apply meq_by_compute. vm_compute. reflexivity. }
  split. { intros c Hc. assert (c = 0) by lia. subst c. apply qeqb_ok. vm_compute. reflexivity. }
  split. { intros c Hc _. assert (c = 0) by lia. subst c. intros H.
           apply (f_equal this) in H. vm_compute in H. discriminate. }
  split. { intros c Hc H. discriminate H. }
  intros a Ha Hnin.
  assert (Ha' : a = 4 \/ a = 5).
  { destruct (Nat.eq_dec a 4) as [|n4]; [tauto|]. destruct (Nat.eq_dec a 5) as [|n5]; [tauto|].
    exfalso. apply Hnin. unfold ex_lm. cbn [In]. lia. }
  destruct Ha' as [-> | ->].
  - exists (fun i => if Nat.eqb i 0 then qfrac 3 7 else Q2Qc 0). intros k Hk.
    assert (k = 0) by lia. subst k. apply qeqb_ok. vm_compute. reflexivity.
  - exists (fun _ => Q2Qc 0). intros k Hk.
    assert (k = 0) by lia. subst k. apply qeqb_ok. vm_compute. reflexivity.
Qed.

(* selection: a permutation of 0..5 and count 4 *)
Example landmarks_prefix_nonvacuous :
  Permutation [3; 1; 5; 0; 2; 4] (seq 0 6) /\ 4 <= 6 /\
  select_landmarks [3; 1; 5; 0; 2; 4] 4 = LOk [3; 1; 5; 0].
Proof.
  split; [|split; [lia|reflexivity]].
  cbn [seq]. apply NoDup_Permutation.
  - repeat constructor; cbn; intuition lia.
  - repeat constructor; cbn; intuition lia.
  - intros x. cbn [In]. lia.
Qed.

(* F21: N = 6, three landmarks, target_dimension = 5 (< N: accepted by the constructor's
   InRange(1, N)) — the model leaves the eigenvector matrix whatever the solver answered *)
(* intrinsic dimension 1 < target dimension 2 (the case finding F42 is about): the second selected
   eigenvalue is 0, its column is dropped (keep 0 = false; columns are in ascending order, so the
   null one comes first), the sqrt oracle answers 0 for it *)
Definition ex2_W : mat Qc := fun r c => if Nat.eqb c 3 then (ex_X r 0%nat / qz 10)%Qc
                                        else if Nat.eqb c 2 then qfrac 1 2 else Q2Qc 0.
Definition ex2_w : vec Qc := fun c => if Nat.eqb c 3 then qz 100 else Q2Qc 0.
Definition ex2_s : vec Qc := fun c => if Nat.eqb c 1 then qz 10 else Q2Qc 0.
Definition ex2_keep : nat -> bool := fun c => Nat.eqb c 1.
Definition ex2_run := lmds_embed 6 2 ex2_keep ex_lm ex_dist ex2_W ex2_w ex2_s.
Definition ex2_ws : list (nat * vec Qc) := match ex2_run with LOk ws => ws | LOOB _ _ _ => [] end.

Lemma ex2_run_ok : ex2_run = LOk ex2_ws.
Proof.
  unfold ex2_ws. destruct ex2_run eqn:E; [reflexivity|]. exfalso.
  assert (H : exists ws, ex2_run = LOk ws).
  { apply lmds_embed_total; [|cbn; lia]. repeat constructor. }
  destruct H as [ws H]. rewrite H in E. discriminate.
Qed.

Example ex2_embedding :
  map (fun o => match o with Some [u; v] => Some (this u, this v) | _ => None end) (emb_table 6 2 ex2_ws)
  = [Some (0#1, 7#1); Some (0#1, -7#1); Some (0#1, 1#1); Some (0#1, -1#1); Some (0#1, 3#1);
     Some (0#1, 0#1)]%Q.
Proof. vm_compute. reflexivity. Qed.

Example lmds_reproduces_euclidean_nonvacuous_dropped_column :
  NoDup ex_lm /\
  @of_nat Qc _ (length ex_lm) <> 0%F /\ @two Qc _ <> 0%F /\
  (forall a b, a < 6 -> b < 6 -> (ex_dist a b * ex_dist a b)%F = lm_sqdist 1 ex_X a b) /\
  ex2_run = LOk ex2_ws /\
  meq 4 2 (mmul 4 (lmds_matrix ex_lm ex_dist) (sel_vecs 4 2 ex2_W))
          (mmul 2 (sel_vecs 4 2 ex2_W) (mdiag (sel_vals 4 2 ex2_w))) /\
  lm_rank_d 4 2 (lmds_matrix ex_lm ex_dist) (sel_vecs 4 2 ex2_W) (sel_vals 4 2 ex2_w) /\
  (forall c, c < 2 -> (ex2_s c * ex2_s c)%F = sel_vals 4 2 ex2_w c) /\
  (forall c, c < 2 -> ex2_keep c = true -> sel_vals 4 2 ex2_w c <> 0%F) /\
  (forall c, c < 2 -> ex2_keep c = false -> ex2_s c = 0%F) /\
  landmarks_span 6 1 ex_lm ex_X.
Proof.
  destruct lmds_reproduces_euclidean_nonvacuous as [H1 [H2 [H3 [H4 [_ [_ [_ [_ [_ [_ H10]]]]]]]]]].
  split; [exact H1|]. split; [exact H2|]. split; [exact H3|]. split; [exact H4|].
  split. { exact ex2_run_ok. }
  split. { apply meq_by_compute. vm_compute. reflexivity. }
  split. { unfold lm_rank_d. apply meq_by_compute. vm_compute. reflexivity. }
  split. { intros c Hc. destruct c as [|[|c]]; [| |lia]; apply qeqb_ok; vm_compute; reflexivity. }
  split. { intros c Hc Hk. destruct c as [|[|c]]; [discriminate Hk| |lia].
           intros H. apply (f_equal this) in H. vm_compute in H. discriminate. }
  split. { intros c Hc Hk. destruct c as [|[|c]]; [reflexivity|discriminate Hk|lia]. }
  exact H10.
Qed.

(* ratio = 1 at full strength: x = (7,-7,1,-1), all four samples landmarks in the order 2,0,3,1.
   MDS's matrix is x x^T: full orthonormal eigendecomposition with rational entries
   (1,1,1,1)/2, (1,1,-1,-1)/2, (1,-1,-7,7)/10 for 0 and x/10 for the simple eigenvalue 100 *)
Definition ex4_X : mat Qc := mof [[qz 7]; [qz (-7)]; [qz 1]; [qz (-1)]].
Definition ex4_dist : mat Qc := fun a b => lm_qabs (ex4_X a 0%nat - ex4_X b 0%nat)%Qc.
Definition ex4_lm : list nat := [2; 0; 3; 1].
Definition ex4_W0 : mat Qc :=
  mof [[qfrac 1 2; qfrac 1 2; qfrac 1 10; qfrac 7 10];
       [qfrac 1 2; qfrac 1 2; qfrac (-1) 10; qfrac (-7) 10];
       [qfrac 1 2; qfrac (-1) 2; qfrac (-7) 10; qfrac 1 10];
       [qfrac 1 2; qfrac (-1) 2; qfrac 7 10; qfrac (-1) 10]].
Definition ex4_w0 : vec Qc := fun c => if Nat.eqb c 3 then qz 100 else Q2Qc 0.
(* the landmark run's answer: the eigenvector in landmark order, with the opposite sign *)
Definition ex4_W : mat Qc := fun r c => if Nat.eqb c 3 then (- (ex4_X (nth r ex4_lm 0%nat) 0%nat / qz 10))%Qc
                                        else Q2Qc 0.

Example ratio_one_upto_sign_nonvacuous :
  Permutation ex4_lm (seq 0 4) /\
  (forall a b, a < 4 -> b < 4 -> ex4_dist a b = ex4_dist b a) /\
  (exists ws, lmds_embed 4 1 keep_all ex4_lm ex4_dist ex4_W ex4_w0 ex_s = LOk ws) /\
  lm_eig_contract 4 1 (lmds_matrix ex4_lm ex4_dist) (sel_vecs 4 1 ex4_W) (sel_vals 4 1 ex4_w0) /\
  (exists Y0, mds_embed 4 1 ex4_W0 ex4_w0 ex_s = LOk Y0) /\
  full_eig 4 (mds_matrix_full 4 ex4_dist) ex4_W0 ex4_w0 /\
  (forall c j, c < 1 -> j < 4 -> j <> 4 - 1 + c -> ex4_w0 j <> ex4_w0 (4 - 1 + c)).
Proof.
  split.
  { cbn [seq]. apply NoDup_Permutation.
    - repeat constructor; cbn; intuition lia.
    - repeat constructor; cbn; intuition lia.
    - intros x. unfold ex4_lm. cbn [In]. lia. }
  split.
  { intros a b Ha Hb.
    assert (H : forallb (fun a => forallb (fun b => qeqb (ex4_dist a b) (ex4_dist b a)) (seq 0 4)) (seq 0 4) = true)
      by (vm_compute; reflexivity).
    pose proof (forall_lt_by_compute 4 _ H a Ha) as H1. cbv beta in H1.
    pose proof (forall_lt_by_compute 4 _ H1 b Hb) as H3. cbv beta in H3.
    apply qeqb_ok in H3. exact H3. }
  split. { apply lmds_embed_total; [|cbn; lia]. repeat constructor. }
  split. { split; apply meq_by_compute; vm_compute; reflexivity. }
  split. { eexists. reflexivity. }
  split. { split; [|split]; apply meq_by_compute; vm_compute; reflexivity. }
  intros c j Hc Hj Hne. assert (c = 0) by lia. subst c.
  assert (Hj' : j = 0 \/ j = 1 \/ j = 2) by lia.
  intros H. destruct Hj' as [-> | [-> | ->]]; apply (f_equal this) in H; vm_compute in H; discriminate.
Qed.

(* the same configuration for Landmark Isomap at ratio 1 (geodesics = the metric itself):
   B B^T has the simple eigenvalue 100^2, q = s = 10 *)
Definition ex4_w2 : vec Qc := fun c => if Nat.eqb c 3 then qz 10000 else Q2Qc 0.
Definition ex4_G : mat Qc := fun a b => ex4_dist (lmk ex4_lm a) b.

Example ratio_one_lisomap_nonvacuous :
  Permutation ex4_lm (seq 0 4) /\ @of_nat Qc _ 4 <> 0%F /\ @two Qc _ <> 0%F /\
  (forall a b, a < 4 -> b < 4 -> ex4_dist a b = ex4_dist b a) /\
  (exists Y, lisomap_embed 4 4 1 ex4_G ex4_W ex4_w2 ex_s = LOk Y) /\
  lm_eig_contract 4 1 (lisomap_sym 4 (lisomap_matrix 4 4 ex4_G)) (sel_vecs 4 1 ex4_W) (sel_vals 4 1 ex4_w2) /\
  (exists Y0, mds_embed 4 1 ex4_W0 ex4_w0 ex_s = LOk Y0) /\
  full_eig 4 (isomap_matrix 4 ex4_dist) ex4_W0 ex4_w0 /\
  (forall c, c < 1 -> sel_vals 4 1 ex4_w2 c = (sel_vals 4 1 ex4_w0 c * sel_vals 4 1 ex4_w0 c)%F) /\
  (forall c j, c < 1 -> j < 4 -> j <> 4 - 1 + c ->
      (ex4_w0 j * ex4_w0 j)%F <> (ex4_w0 (4 - 1 + c)%nat * ex4_w0 (4 - 1 + c)%nat)%F) /\
  (forall c, c < 1 -> (ex_s c * ex_s c)%F = sel_vals 4 1 ex4_w0 c /\ ex_s c = ex_s c /\ ex_s c <> 0%F).
Proof.
  destruct ratio_one_upto_sign_nonvacuous as [H1 [H2 _]].
  split; [exact H1|]. split. { apply Qc_of_nat_neq0. lia. } split. { exact Qc_two_neq0. }
  split; [exact H2|].
  split. { eexists. reflexivity. }
  split. { split; apply meq_by_compute; vm_compute; reflexivity. }
  split. { eexists. reflexivity. }
  split. { split; [|split]; apply meq_by_compute; vm_compute; reflexivity. }
  split. { intros c Hc. assert (c = 0) by lia. subst c. apply qeqb_ok. vm_compute. reflexivity. }
  split.
  { intros c j Hc Hj Hne. assert (c = 0) by lia. subst c.
    assert (Hj' : j = 0 \/ j = 1 \/ j = 2) by lia.
    intros H. destruct Hj' as [-> | [-> | ->]]; apply (f_equal this) in H; vm_compute in H; discriminate. }
  intros c Hc. assert (c = 0) by lia. subst c. split; [apply qeqb_ok; vm_compute; reflexivity|].
  split; [reflexivity|]. intros H. apply (f_equal this) in H. vm_compute in H. discriminate.
Qed.

(* ratio = 1: all six samples are landmarks, in a shuffled order *)
Definition ex_perm : list nat := [3; 1; 5; 0; 2; 4].

Example ratio_one_nonvacuous :
  Permutation ex_perm (seq 0 6) /\
  (forall a b, a < 6 -> b < 6 -> ex_dist a b = ex_dist b a) /\
  exists ws, lmds_embed 6 1 keep_all ex_perm ex_dist ex_W ex_w ex_s = LOk ws.
Proof.
  split.
  { cbn [seq]. apply NoDup_Permutation.
    - repeat constructor; cbn; intuition lia.
    - repeat constructor; cbn; intuition lia.
    - intros x. unfold ex_perm. cbn [In]. lia. }
  split.
  { intros a b Ha Hb.
    assert (H : forallb (fun a => forallb (fun b => qeqb (ex_dist a b) (ex_dist b a)) (seq 0 6)) (seq 0 6) = true)
      by (vm_compute; reflexivity).
    pose proof (forall_lt_by_compute 6 _ H a Ha) as H1. cbv beta in H1.
    pose proof (forall_lt_by_compute 6 _ H1 b Hb) as H3. cbv beta in H3.
    apply qeqb_ok in H3. exact H3. }
  apply lmds_embed_total; [|cbn; lia]. repeat constructor.
Qed.

(* Landmark Isomap, dense branch: a 2-landmark, 3-sample instance runs *)
Example lisomap_runs :
  exists Y, lisomap_embed 3 2 1 (mof [[qz 0; qz 1; qz 2]; [qz 1; qz 0; qz 1]])
                          (fun _ _ => qz 1) (fun _ => qz 1) (fun _ => qz 1) = LOk Y.
Proof. eexists. reflexivity. Qed.

Local Open Scope string_scope.
Example lmds_bounds_witness :
  lmds_embed 6 5 keep_all [0; 1; 2] ex_dist ex_W ex_w ex_s =
  LOOB "solver.eigenvectors().rightCols(target_dimension)" 5 3.
Proof. reflexivity. Qed.
