(* ====================================================================== *)
(*  Equiv_Proof_Effects.v — C12: the allow-listed process state cannot     *)
(*  influence a call that draws nothing (proofs for Equiv_Effects.v).      *)
(* ====================================================================== *)
Require Import Arith List Bool Lia.
From TK Require Import Equiv_Effects.
Import ListNotations.

(* the logger never matters: flags and ps_sink may differ arbitrarily *)
Lemma logger_blind : forall A (p : prog A) s s',
  same_streams s s' ->
  fst (run p s) = fst (run p s') /\ effects p s = effects p s' /\
  same_streams (snd (run p s)) (snd (run p s')).
Proof.
  intros A p; induction p as [a | k IH | k IH | l m k IH]; intros s s' Hs.
  - cbn. auto.
  - destruct Hs as (Hr & Hp & Hd & Hsh). cbn [run effects].
    assert (Hv : ps_rnd s (ps_pos s) = ps_rnd s' (ps_pos s')) by (rewrite Hr, Hp; reflexivity).
    rewrite Hv.
    destruct (IH (ps_rnd s' (ps_pos s')) (do_draw s) (do_draw s')) as (H1 & H2 & H3).
    { unfold same_streams, do_draw; cbn. rewrite Hp. auto. }
    rewrite H2. auto.
  - destruct Hs as (Hr & Hp & Hd & Hsh). cbn [run effects].
    assert (Hv : ps_dev s (ps_shuf s) = ps_dev s' (ps_shuf s')) by (rewrite Hd, Hsh; reflexivity).
    rewrite Hv.
    destruct (IH (ps_dev s' (ps_shuf s')) (do_shuffle s) (do_shuffle s')) as (H1 & H2 & H3).
    { unfold same_streams, do_shuffle; cbn. rewrite Hsh. auto. }
    rewrite H2. auto.
  - cbn [run effects]. apply IH.
    destruct Hs as (Hr & Hp & Hd & Hsh). unfold same_streams, do_log; cbn. auto.
Qed.

(* a call whose executed path contains no draw and no shuffle returns the same value from EVERY
   process state, draws nothing there either, and leaves both streams where they were *)
Lemma no_effects_state_independent : forall A (p : prog A) s,
  effects p s = 0 ->
  forall s', fst (run p s') = fst (run p s) /\ effects p s' = 0 /\
             ps_pos (snd (run p s')) = ps_pos s' /\ ps_shuf (snd (run p s')) = ps_shuf s'.
Proof.
  intros A p; induction p as [a | k IH | k IH | l m k IH]; intros s He s'.
  - cbn. auto.
  - cbn in He. discriminate.
  - cbn in He. discriminate.
  - cbn [run effects] in *.
    destruct (IH (do_log l m s) He (do_log l m s')) as (H1 & H2 & H3 & H4).
    cbn in H3, H4. auto.
Qed.

(* history form: after ANY earlier calls the result is that of a fresh process *)
Lemma no_effects_history_independent : forall A (h : list (prog unit)) (p : prog A) s0,
  effects p s0 = 0 -> forall s, fst (run_history h p s) = fst (run p s0).
Proof.
  intros A h; induction h as [| q r IH]; intros p s0 He s.
  - cbn. apply (no_effects_state_independent A p s0 He s).
  - cbn. apply IH. exact He.
Qed.

(* ... and a logger-only history (level switches, messages) never matters, draws or not *)
Lemma logger_history_blind : forall A (p : prog A) s flags snk,
  fst (run p (mk_pstate (ps_rnd s) (ps_pos s) (ps_dev s) (ps_shuf s) flags snk)) = fst (run p s).
Proof.
  intros A p s flags snk. apply logger_blind. unfold same_streams; cbn. auto.
Qed.

(* the hypothesis is needed: a call that draws does depend on the state (the randomised methods) *)
Lemma draw_depends_on_state_refuted :
  exists (p : prog nat) s s', effects p s = 1 /\ fst (run p s) <> fst (run p s').
Proof.
  exists (Draw (fun v => Ret v)),
         (mk_pstate (fun _ => 0) 0 (fun _ => 0) 0 (fun _ => false) []),
         (mk_pstate (fun _ => 1) 0 (fun _ => 0) 0 (fun _ => false) []).
  cbn. split; [reflexivity | discriminate].
Qed.

(* non-vacuity: a logging, non-drawing program *)
Example no_effects_nonvacuous :
  exists (p : prog nat) s, effects p s = 0 /\ fst (run p s) = 7.
Proof.
  exists (Log 0 1 (Log 2 5 (Ret 7))), (mk_pstate (fun i => i) 3 (fun i => i) 1 (fun _ => true) []).
  cbn. auto.
Qed.
