(* Spe_Fa_Exec.v — executable instance of the factor-analysis model at Qc (definitions only).
   The theorems fa_translation_invariant / fa_output_centred hold for ARBITRARY oracle functions
   inv / logdet / stop; here the inverse oracle is instantiated by an exact Gauss-Jordan elimination
   so that fa_embed itself (the function the theorems are about) can be replayed against
   routines/fa.hpp on small cases with fa_epsilon = 0 (then `fabs(newll - ll) < 0` never holds, the
   loop runs max_iteration rounds and the log-likelihood is never looked at).
   The contract of every oracle call (M * inv M = I on the n x n box) is re-checked by
   inv_contract_b; the OCaml driver wraps the oracle and records any failure. *)
Require Import List Arith ZArith QArith Qcanon.
From TK Require Import Mat_Sums Mat_Core Mat_Qc Spe_Model.
Import ListNotations.
Local Open Scope nat_scope.

Definition qzero : Qc := Q2Qc 0.
Definition qone : Qc := Q2Qc 1.

Definition row_scale (a : Qc) (r : list Qc) : list Qc := List.map (Qcmult a) r.

Fixpoint row_sub_mul (r : list Qc) (a : Qc) (p : list Qc) : list Qc :=
  match r, p with
  | x :: r', y :: p' => Qcminus x (Qcmult a y) :: row_sub_mul r' a p'
  | _, _ => []
  end.

(* first row of `todo` whose entry in column c is not zero, and the other rows in their order *)
Fixpoint extract_pivot (c : nat) (todo : list (list Qc)) : option (list Qc * list (list Qc)) :=
  match todo with
  | [] => None
  | r :: t =>
    if Qc_eq_bool (nth c r qzero) qzero then
      match extract_pivot c t with
      | Some pt => Some (fst pt, r :: snd pt)
      | None => None
      end
    else Some (r, t)
  end.

Fixpoint gauss_jordan (cols : list nat) (done todo : list (list Qc)) : option (list (list Qc)) :=
  match cols with
  | [] => Some done
  | c :: cs =>
    match extract_pivot c todo with
    | None => None
    | Some pt =>
      let p' := row_scale (Qcinv (nth c (fst pt) qzero)) (fst pt) in
      let elim := fun r => row_sub_mul r (nth c r qzero) p' in
      gauss_jordan cs (List.map elim done ++ [p']) (List.map elim (snd pt))
    end
  end.

Definition qc_inverse_opt (n : nat) (M : mat Qc) : option (mat Qc) :=
  let aug := tab n (fun i => tab n (fun j => M i j) ++ tab n (fun j => if Nat.eqb i j then qone else qzero)) in
  match gauss_jordan (seq 0 n) [] aug with
  | Some rows => Some (fun i j => nth (n + j) (nth i rows []) qzero)
  | None => None
  end.

(* contract of one oracle call: M * R = I inside the n x n box *)
Definition inv_contract_b (n : nat) (M R : mat Qc) : bool :=
  forallb (fun i => forallb (fun j =>
     Qc_eq_bool (@mmul Qc QcOps n M R i j) (if Nat.eqb i j then qone else qzero)) (seq 0 n)) (seq 0 n).

(* samples as a list of rows; A0 as a list of rows (D x d); the oracles are arguments (driver closures) *)
Definition fa_embed_qc (inv : nat -> mat Qc -> mat Qc) (max_iter n D d : nat) (A0 S : list (list Qc))
  : list (list Qc) :=
  @fa_embed Qc QcOps inv (fun _ _ => qzero) (fun _ _ => false) max_iter n D d qzero
            (@mof Qc QcOps A0) (@mof Qc QcOps S).

(* ---- on a range (Spe_Des_Model): pool row id = feature vector of sample id ---- *)
From TK Require Import Spe_Des_Model.
Definition fa_embed_des_qc (inv : nat -> mat Qc -> mat Qc) (max_iter D d : nat) (A0 pool : list (list Qc))
           (range : list nat) : list (list Qc) :=
  @fa_embed_des Qc QcOps inv (fun _ _ => qzero) (fun _ _ => false) max_iter D d qzero
                (@mof Qc QcOps A0) (fun id => @mof Qc QcOps pool id) range.

(* the never-stopping trajectory with fa_epsilon = eps: per round (X^T A_t, invC_t, quadratic term of ll_t);
   same start as fa_core: A = memo(A0), sig = I *)
Definition fa_observe_qc (inv : nat -> mat Qc -> mat Qc) (rounds D d : nat) (eps : Qc)
           (A0 pool : list (list Qc)) (range : list nat)
  : list (list (list Qc) * list (list Qc) * Qc) :=
  @fa_observe Qc QcOps inv rounds (length range) D d eps
              (@mof Qc QcOps (@fa_data_des Qc QcOps D (fun id => @mof Qc QcOps pool id) range))
              (@memo Qc QcOps D d (@mof Qc QcOps A0)) (@mI Qc QcOps).
