(* ====================================================================== *)
(*  Mds_Proof.v — proofs for C05 (all sizes, all inputs, abstract field)   *)
(* ====================================================================== *)
Require Import Field Ring Arith Lia List Bool.
From TK Require Import Mat_Sums Mat_Core Mat_EigSelect Mds_Model Mds_Spec.
Import ListNotations.

Section MdsProof.
  Context {F : Type} {Fo : FieldOps F} {Ff : IsField F}.
  Add Field MdsProofField : (@Fth F Fo Ff).
  Local Open Scope F_scope.

  (* ---------------- centring: compatibility and linearity ---------------- *)
  Lemma colmean_meq n A B j :
    meq n n A B -> j < n -> colmean n A j = colmean n B j.
  Proof.
    intros H Hj. unfold colmean, colsum. f_equal. apply sumn_ext. intros i Hi. apply H; assumption.
  Qed.

  Lemma grandmean_meq n A B : meq n n A B -> grandmean n n A = grandmean n n B.
  Proof.
    intros H. unfold grandmean, totsum. f_equal. apply sumn_ext. intros i Hi.
    apply sumn_ext. intros j Hj. apply H; assumption.
  Qed.

  Lemma center_matrix_meq n A B :
    meq n n A B -> meq n n (center_matrix n A) (center_matrix n B).
  Proof.
    intros H i j Hi Hj. unfold center_matrix.
    rewrite (H i j Hi Hj), (grandmean_meq n A B H).
    rewrite (colmean_meq n A B j H Hj), (colmean_meq n A B i H Hi). reflexivity.
  Qed.

  Lemma double_center_meq n A B :
    meq n n A B -> meq n n (double_center n A) (double_center n B).
  Proof.
    intros H. unfold double_center. apply mmul_meq; [apply meq_refl|].
    apply mmul_meq; [assumption|apply meq_refl].
  Qed.

  Lemma double_center_madd n A B i j :
    double_center n (madd A B) i j = double_center n A i j + double_center n B i j.
  Proof.
    unfold double_center.
    rewrite (mmul_ext_r n (Jn n) _ (madd (mmul n A (Jn n)) (mmul n B (Jn n))))
      by (intros; apply mmul_madd_l).
    apply mmul_madd_r.
  Qed.

  Lemma double_center_mscale n c A i j :
    double_center n (mscale c A) i j = c * double_center n A i j.
  Proof.
    unfold double_center.
    rewrite (mmul_ext_r n (Jn n) _ (mscale c (mmul n A (Jn n))))
      by (intros; apply mmul_mscale_l).
    apply mmul_mscale_r.
  Qed.

  (* a matrix constant along rows (or columns) is annihilated *)
  Lemma double_center_rowfun n (a : vec F) i j :
    of_nat n <> 0 -> i < n -> j < n -> double_center n (fun i _ => a i) i j = 0.
  Proof.
    intros Hn Hi Hj. unfold double_center.
    rewrite (mmul_ext_r n (Jn n) _ (fun _ _ => 0)).
    - unfold mmul. apply sumn_zero'. intros; ring.
    - intros t Ht. rewrite mmul_Jn_r by assumption. unfold rowsum. cbv beta.
      rewrite sumn_const. field. assumption.
  Qed.

  Lemma double_center_colfun n (a : vec F) i j :
    of_nat n <> 0 -> i < n -> j < n -> double_center n (fun _ j => a j) i j = 0.
  Proof.
    intros Hn Hi Hj. unfold double_center.
    rewrite mmul_Jn_l by assumption. unfold colsum.
    rewrite (sumn_ext n _ (fun _ => a j - / of_nat n * sumn n a)).
    2:{ intros s Hs. rewrite mmul_Jn_r by assumption. reflexivity. }
    rewrite mmul_Jn_r by assumption. unfold rowsum. cbv beta.
    change (sumn n (fun j0 => a j0)) with (sumn n a).
    rewrite sumn_const. field. assumption.
  Qed.

  (* J (X X^T) J = (J X)(J X)^T : the Gram matrix of the centred samples *)
  Lemma double_center_gram n D (X : mat F) i j :
    of_nat n <> 0 -> i < n -> j < n ->
    double_center n (mmul D X (mtrans X)) i j =
      dot D (centered n X i) (centered n X j).
  Proof.
    intros Hn Hi Hj. unfold double_center.
    rewrite (mmul_ext_r n (Jn n) _ (mmul D X (mmul n (mtrans X) (Jn n))))
      by (intros; apply mmul_assoc).
    rewrite <- mmul_assoc.
    unfold mmul at 1. unfold dot. apply sumn_ext. intros t Ht.
    rewrite mmul_Jn_l, mmul_Jn_r by assumption.
    unfold centered, colmean, rowsum, colsum, mtrans. field. assumption.
  Qed.

  (* ---------------- assembled matrices ---------------- *)
  Lemma dist_sq_matrix_sym n (dist : mat F) : msym n (dist_sq_matrix dist).
  Proof.
    intros i j _ _. unfold dist_sq_matrix.
    destruct (Nat.leb i j) eqn:E1; destruct (Nat.leb j i) eqn:E2; try reflexivity.
    - apply Nat.leb_le in E1. apply Nat.leb_le in E2. assert (i = j) by lia. subst. reflexivity.
    - apply Nat.leb_gt in E1. apply Nat.leb_gt in E2. lia.
  Qed.

  Lemma kernel_matrix_sym n (kern : mat F) : msym n (kernel_matrix kern).
  Proof. exact (read_upper_sym n kern). Qed.

  (* center_is_JMJ: what centerMatrix computes IS J M J on symmetric input *)
  Theorem center_is_JMJ n M :
    of_nat n <> 0 -> msym n M ->
    meq n n (center_matrix n M) (double_center n M) /\
    (forall i j, i < n -> j < n ->
       center_matrix n M i j =
         M i j - rowmean n M i - colmean n M j + grandmean n n M).
  Proof.
    intros Hn HM. split.
    - apply center_matrix_sym; assumption.
    - intros i j Hi Hj. rewrite (center_matrix_sym n M Hn HM i j Hi Hj).
      apply double_center_entry; assumption.
  Qed.

  Theorem mds_matrix_is_JD2J n (dist : mat F) :
    of_nat n <> 0 ->
    meq n n (mds_matrix n dist)
            (mscale neg_half (double_center n (dist_sq_matrix dist))).
  Proof.
    intros Hn i j Hi Hj. unfold mds_matrix, mscale.
    rewrite (center_matrix_sym n _ Hn (dist_sq_matrix_sym n dist) i j Hi Hj). ring.
  Qed.

  Theorem kpca_matrix_is_JKJ n (kern : mat F) :
    of_nat n <> 0 ->
    meq n n (kpca_matrix n kern) (double_center n (kernel_matrix kern)).
  Proof.
    intros Hn. unfold kpca_matrix. apply center_matrix_sym; [assumption|].
    apply kernel_matrix_sym.
  Qed.

  (* the executable (memoised, list) versions compute exactly these matrices *)
  Lemma center_exec_ok n L : center_exec n L = mtab n n (center_matrix n (mof L)).
  Proof.
    unfold center_exec. apply mtab_ext. intros i j Hi Hj. unfold center_matrix.
    rewrite !vof_vtab by assumption. reflexivity.
  Qed.

  Lemma mds_matrix_exec_ok n L : mds_matrix_exec n L = mtab n n (mds_matrix n (mof L)).
  Proof.
    unfold mds_matrix_exec. rewrite center_exec_ok. apply mtab_ext. intros i j Hi Hj.
    rewrite mof_mtab by assumption. unfold mds_matrix. f_equal.
    apply center_matrix_meq; try assumption. apply mof_mtab_meq.
  Qed.

  Lemma kpca_matrix_exec_ok n L : kpca_matrix_exec n L = mtab n n (kpca_matrix n (mof L)).
  Proof.
    unfold kpca_matrix_exec. rewrite center_exec_ok. apply mtab_ext.
    unfold kpca_matrix. apply center_matrix_meq. apply mof_mtab_meq.
  Qed.

  (* ---------------- mds_identity ---------------- *)
  Lemma sqdist_expand D (X : mat F) i j :
    sqdist D X i j =
      mmul D X (mtrans X) i i + mmul D X (mtrans X) j j
      - two * mmul D X (mtrans X) i j.
  Proof.
    unfold sqdist, mmul, mtrans, two. rewrite <- sumn_add, <- sumn_mul_l, <- sumn_sub.
    apply sumn_ext. intros; ring.
  Qed.

  Lemma sqdist_sym D (X : mat F) i j : sqdist D X i j = sqdist D X j i.
  Proof. unfold sqdist. apply sumn_ext. intros; ring. Qed.

  (* -1/2 J D2 J is the Gram matrix of the centred configuration *)
  Theorem mds_identity n D (X : mat F) (dist : mat F) :
    of_nat n <> 0 -> two <> 0 ->
    (forall i j, i < n -> j < n -> i <= j -> dist i j * dist i j = sqdist D X i j) ->
    forall i j, i < n -> j < n ->
      mds_matrix n dist i j = dot D (centered n X i) (centered n X j).
  Proof.
    intros Hn H2 Hd i j Hi Hj.
    rewrite (mds_matrix_is_JD2J n dist Hn i j Hi Hj). unfold mscale.
    set (G := mmul D X (mtrans X)).
    assert (HD2 : meq n n (dist_sq_matrix dist)
                    (madd (madd (fun i _ => G i i) (fun _ j => G j j)) (mscale (- two) G))).
    { intros a b Ha Hb. unfold dist_sq_matrix, madd, mscale.
      destruct (Nat.leb a b) eqn:E.
      - apply Nat.leb_le in E. rewrite Hd by assumption. rewrite sqdist_expand. fold G. ring.
      - apply Nat.leb_gt in E. rewrite Hd by (try assumption; lia).
        rewrite sqdist_sym, sqdist_expand. fold G. ring. }
    rewrite (double_center_meq n _ _ HD2 i j Hi Hj).
    rewrite !double_center_madd, double_center_mscale.
    rewrite double_center_rowfun, double_center_colfun by assumption.
    unfold G. rewrite double_center_gram by assumption.
    unfold neg_half, two in *. field. assumption.
  Qed.

  (* ---------------- sqrt_scaling ---------------- *)
  Lemma scale_cols_gram n (Vs : mat F) (s : vec F) a b :
    mmul n (mtrans (scale_cols Vs s)) (scale_cols Vs s) a b =
      s a * s b * mmul n (mtrans Vs) Vs a b.
  Proof.
    unfold mmul, mtrans, scale_cols. rewrite <- sumn_mul_l. apply sumn_ext. intros; ring.
  Qed.

  Theorem sqrt_scaling n d (B Vs : mat F) (lam s : vec F) :
    eig_contract n d B Vs lam ->
    (forall c, c < d -> s c * s c = lam c) ->
    let Y := scale_cols Vs s in
    factor_spec n d B Y lam /\
    (forall i j, mmul d Y (mtrans Y) i j =
                 mmul d (mmul d Vs (mdiag lam)) (mtrans Vs) i j).
  Proof.
    intros [Horth Heig] Hs Y. split; [split|].
    - intros a b Ha Hb. unfold Y. rewrite (scale_cols_gram n).
      rewrite (Horth a b Ha Hb). unfold mI, mdiag, delta.
      destruct (Nat.eqb a b) eqn:E.
      + apply Nat.eqb_eq in E. subst b. rewrite <- (Hs a Ha). ring.
      + ring.
    - intros i c Hi Hc. rewrite mmul_diag_r by assumption.
      unfold Y, scale_cols.
      transitivity (s c * mmul n B Vs i c).
      { unfold mmul. rewrite <- sumn_mul_l. apply sumn_ext. intros; ring. }
      rewrite (Heig i c Hi Hc). rewrite mmul_diag_r by assumption. ring.
    - intros i j. unfold mmul at 1 2. apply sumn_ext. intros c Hc.
      rewrite mmul_diag_r by assumption. unfold Y, scale_cols, mtrans.
      rewrite <- (Hs c Hc). ring.
  Qed.

  (* ---------------- scale_equivariance ---------------- *)
  Lemma colmean_mscale n c A j : of_nat n <> 0 -> colmean n (mscale c A) j = c * colmean n A j.
  Proof.
    intros Hn. unfold colmean, colsum, mscale. rewrite sumn_mul_l. field. assumption.
  Qed.

  Lemma grandmean_mscale n c A :
    of_nat n <> 0 -> grandmean n n (mscale c A) = c * grandmean n n A.
  Proof.
    intros Hn. unfold grandmean, totsum, mscale.
    rewrite (sumn_ext n _ (fun i => c * sumn n (fun j => A i j)))
      by (intros; apply sumn_mul_l).
    rewrite sumn_mul_l, of_nat_mul. field. assumption.
  Qed.

  Lemma center_matrix_mscale n c A i j :
    of_nat n <> 0 -> center_matrix n (mscale c A) i j = c * center_matrix n A i j.
  Proof.
    intros Hn. unfold center_matrix. rewrite grandmean_mscale, !colmean_mscale by assumption.
    unfold mscale. ring.
  Qed.

  Lemma mds_matrix_scale n c (dist : mat F) i j :
    of_nat n <> 0 -> i < n -> j < n ->
    mds_matrix n (mscale c dist) i j = c * c * mds_matrix n dist i j.
  Proof.
    intros Hn Hi Hj. unfold mds_matrix.
    assert (H : meq n n (dist_sq_matrix (mscale c dist)) (mscale (c * c) (dist_sq_matrix dist))).
    { intros a b _ _. unfold dist_sq_matrix, mscale. destruct (Nat.leb a b); ring. }
    rewrite (center_matrix_meq n _ _ H i j Hi Hj).
    rewrite center_matrix_mscale by assumption. ring.
  Qed.

  (* all distances multiplied by c: same eigenvectors, eigenvalues times c^2,
     a valid sqrt answer is c * s and the embedding is c * Y *)
  Theorem scale_equivariance n d c (B B' Vs : mat F) (lam s : vec F) :
    meq n n B' (mscale (c * c) B) ->
    eig_contract n d B Vs lam ->
    (forall k, k < d -> s k * s k = lam k) ->
    let lam' := vscale (c * c) lam in
    let s' := vscale c s in
    eig_contract n d B' Vs lam' /\
    (forall k, k < d -> s' k * s' k = lam' k) /\
    (forall i k, scale_cols Vs s' i k = c * scale_cols Vs s i k).
  Proof.
    intros HB [Horth Heig] Hs lam' s'. split; [split|split].
    - exact Horth.
    - intros i k Hi Hk. rewrite mmul_diag_r by assumption.
      rewrite (mmul_ext_l n B' (mscale (c * c) B)) by (intros; apply HB; assumption).
      rewrite mmul_mscale_l. rewrite (Heig i k Hi Hk). rewrite mmul_diag_r by assumption.
      unfold lam', vscale. ring.
    - intros k Hk. unfold s', lam', vscale. rewrite <- (Hs k Hk). ring.
    - intros i k. unfold scale_cols, s', vscale. ring.
  Qed.

  (* ---------------- selection out of a full dense answer ---------------- *)
  (* dense solver contract on the whole spectrum: V is N x N *)
  Definition full_contract (N : nat) (B V : mat F) (Lam : vec F) : Prop :=
    meq N N (mmul N (mtrans V) V) mI /\
    meq N N (mmul N B V) (mmul N V (mdiag Lam)).

  Lemma select_contract N d off (B V : mat F) (Lam : vec F) :
    off + d <= N ->
    full_contract N B V Lam ->
    eig_contract N d B (select_cols N V (off, d)) (select_vals Lam (off, d)).
  Proof.
    intros Hd [Horth Heig]. split.
    - intros a b Ha Hb. unfold select_cols. cbn [fst].
      transitivity (mmul N (mtrans V) V (off + a)%nat (off + b)%nat); [reflexivity|].
      rewrite Horth by lia. unfold mI, delta.
      destruct (Nat.eqb a b) eqn:E.
      + apply Nat.eqb_eq in E. subst. rewrite Nat.eqb_refl. reflexivity.
      + apply Nat.eqb_neq in E.
        assert (E' : Nat.eqb (off + a) (off + b) = false) by (apply Nat.eqb_neq; lia).
        rewrite E'. reflexivity.
    - intros i c Hi Hc. rewrite mmul_diag_r by assumption.
      unfold select_cols, select_vals. cbn [fst].
      transitivity (mmul N B V i (off + c)%nat); [reflexivity|].
      rewrite Heig by lia. rewrite mmul_diag_r by lia. reflexivity.
  Qed.

  (* the embedding produced from a dense answer through the view (N-d, d) *)
  Theorem mds_factor_partial N d (B V : mat F) (Lam s : vec F) :
    d <= N ->
    full_contract N B V Lam ->
    (forall c, c < d -> s c * s c = Lam (N - d + c)%nat) ->
    let Y := scale_cols (select_cols N V ((N - d)%nat, d)) s in
    factor_spec N d B Y (select_vals Lam ((N - d)%nat, d)) /\
    (forall i j, mmul d Y (mtrans Y) i j =
       sumn d (fun c => V i (N - d + c)%nat * Lam (N - d + c)%nat * V j (N - d + c)%nat)).
  (* PARTIAL w.r.t. the property text: that this rank-d matrix is the BEST rank-d positive
     semi-definite approximation of B (Eckart-Young-Mirsky) is classical mathematics that is
     cited, not proved here; what is proved is that Y is the scaled eigenvector block of the
     d LAST (= largest, under the solver's ascending-order contract) eigenpairs. *)
  Proof.
    intros Hd HC Hs Y.
    assert (HC' := select_contract N d (N - d)%nat B V Lam ltac:(lia) HC).
    destruct (sqrt_scaling N d B _ _ s HC' Hs) as [Hf Hg]. split; [exact Hf|].
    intros i j. fold Y in Hg. rewrite Hg. unfold mmul at 1. apply sumn_ext. intros c Hc.
    rewrite mmul_diag_r by assumption. unfold select_cols, select_vals, mtrans. cbn [fst].
    reflexivity.
  Qed.

  (* ---------------- mds_recovers_euclidean_partial ---------------- *)
  Lemma sqdist_from_gram d (Y : mat F) i j :
    sqdist d Y i j =
      mmul d Y (mtrans Y) i i + mmul d Y (mtrans Y) j j
      - mmul d Y (mtrans Y) i j - mmul d Y (mtrans Y) j i.
  Proof.
    unfold sqdist, mmul, mtrans. rewrite <- sumn_add, <- !sumn_sub.
    apply sumn_ext. intros; ring.
  Qed.

  (* B = V Lam V^T from orthogonality on both sides *)
  Lemma spectral_form N (B V : mat F) (Lam : vec F) :
    full_contract N B V Lam ->
    meq N N (mmul N V (mtrans V)) mI ->
    forall i j, i < N -> j < N ->
      B i j = sumn N (fun t => V i t * Lam t * V j t).
  Proof.
    intros [_ Heig] HVVt i j Hi Hj.
    rewrite <- (mmul_I_r N B i j Hj).
    rewrite <- (mmul_ext_r N B (mmul N V (mtrans V)) mI i j)
      by (intros; apply HVVt; assumption).
    rewrite <- mmul_assoc. unfold mmul at 1. apply sumn_ext. intros t Ht.
    rewrite (Heig i t Hi Ht). rewrite mmul_diag_r by assumption. unfold mtrans. ring.
  Qed.

  Lemma centered_form_diff n (M : mat F) i j :
    center_matrix n M i i + center_matrix n M j j
      - center_matrix n M i j - center_matrix n M j i =
    M i i + M j j - M i j - M j i.
  Proof. unfold center_matrix. ring. Qed.

  Theorem mds_recovers_euclidean_partial N d (V : mat F) (Lam s : vec F) (dist : mat F) :
    two <> 0 -> d <= N ->
    full_contract N (mds_matrix N dist) V Lam ->
    meq N N (mmul N V (mtrans V)) mI ->
    (forall t, (t < N - d)%nat -> Lam t = 0) ->
    (forall c, c < d -> s c * s c = Lam (N - d + c)%nat) ->
    (forall i, i < N -> dist i i = 0) ->
    let Y := scale_cols (select_cols N V ((N - d)%nat, d)) s in
    forall i j, i < N -> j < N -> i <= j ->
      sqdist d Y i j = dist i j * dist i j.
  (* PARTIAL: the hypothesis "all but the d selected eigenvalues vanish" is what "the points
     span at most d dimensions" gives through mds_identity (B = Xc Xc^T has rank <= d and is
     positive semi-definite); that rank argument is not formalised.  The oracle must be the
     FULL decomposition (dense solver). *)
  Proof.
    intros H2 Hd HC HVVt Hzero Hs Hdiag Y i j Hi Hj Hij.
    assert (HB : forall a b, a < N -> b < N ->
               mmul d Y (mtrans Y) a b = mds_matrix N dist a b).
    { intros a b Ha Hb.
      destruct (mds_factor_partial N d _ V Lam s Hd HC Hs) as [_ Hg]. fold Y in Hg.
      rewrite Hg. rewrite (spectral_form N _ V Lam HC HVVt a b Ha Hb).
      set (f := fun t => V a t * Lam t * V b t).
      replace (sumn N f) with (sumn ((N - d) + d)%nat f) by (f_equal; lia).
      rewrite sumn_split. unfold f.
      rewrite (sumn_zero' (N - d)%nat).
      2:{ intros t Ht. rewrite Hzero by assumption. ring. }
      ring. }
    rewrite sqdist_from_gram. rewrite !HB by assumption.
    unfold mds_matrix.
    transitivity ((center_matrix N (dist_sq_matrix dist) i i
                   + center_matrix N (dist_sq_matrix dist) j j
                   - center_matrix N (dist_sq_matrix dist) i j
                   - center_matrix N (dist_sq_matrix dist) j i) * neg_half); [ring|].
    rewrite centered_form_diff.
    rewrite (dist_sq_matrix_sym N dist j i Hj Hi).
    unfold dist_sq_matrix. rewrite !Nat.leb_refl.
    assert (E : Nat.leb i j = true) by (apply Nat.leb_le; assumption). rewrite E.
    rewrite (Hdiag i Hi), (Hdiag j Hj). unfold neg_half, two in *. field. assumption.
  Qed.

End MdsProof.
