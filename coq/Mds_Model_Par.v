(* ====================================================================== *)
(*  Mds_Model_Par.v — C05, wave 3: the worksharing loop of                 *)
(*  routines/multidimensional_scaling.hpp compute_distance_matrix (full-   *)
(*  matrix overload) as executed by ONE call.  Definitions only (NO proofs)*)
(*                                                                          *)
(*    DenseSymmetricMatrix distance_matrix(n_vectors, n_vectors);          *)
(*    #pragma omp parallel                                                  *)
(*    {   IndexType i_index_iter, j_index_iter;                             *)
(*    #pragma omp for nowait                                                *)
(*        for (i = 0; i < n; ++i)                                           *)
(*            for (j = i; j < n; ++j)                                       *)
(*            {   d = callback.distance(begin[i], begin[j]); d *= d;        *)
(*                distance_matrix(i, j) = d; distance_matrix(j, i) = d; }   *)
(*    }                                                                     *)
(*                                                                          *)
(*  `DenseSymmetricMatrix(n, n)` does not initialise: the matrix before    *)
(*  the loop is `init`, ARBITRARY.  The `parallel` creates a team of        *)
(*  T >= 1 threads for THIS call (T depends on OMP_NUM_THREADS, on          *)
(*  OMP_THREAD_LIMIT, on whether the caller is already inside a parallel    *)
(*  region and on max-active-levels: all of that only changes T); the       *)
(*  `omp for` splits the rows 0..n-1 among that team; every thread writes   *)
(*  its rows into the same matrix.  The model is parametric in the          *)
(*  schedule (one list of rows per thread, executed thread after thread:    *)
(*  the theorem shows the result does not depend on the order);             *)
(*  `static_shares` is the static schedule without chunk size (q = n / T    *)
(*  rows each, the first n mod T threads one more).                         *)
(*                                                                          *)
(*  `cdm_orphaned` is the same loop WITHOUT its own `parallel` (an orphaned *)
(*  worksharing construct): called from inside the caller's team of T       *)
(*  threads it binds to that team, and a call made by thread `me` alone     *)
(*  executes only the share of `me`.                                        *)
(* ====================================================================== *)
Require Import Arith List Bool.
From TK Require Import Mat_Sums Mat_Core Mds_Model.
Import ListNotations.

Section MdsModelPar.
  Context {F : Type} {Fo : FieldOps F}.
  Local Open Scope F_scope.

  (* distance_matrix(i, j) = d; distance_matrix(j, i) = d; *)
  Definition set2 (M : mat F) (i j : nat) (v : F) : mat F :=
    fun a b => if (Nat.eqb a i && Nat.eqb b j) || (Nat.eqb a j && Nat.eqb b i) then v else M a b.

  (* the inner loop from column s on: for (j = s; j < s + len; ++j) *)
  Definition fill_from (dist : mat F) (i s len : nat) (M : mat F) : mat F :=
    fold_left (fun M j => set2 M i j (dist i j * dist i j)) (seq s len) M.

  (* one iteration of the outer loop: for (j = i; j < n; ++j) *)
  Definition fill_row (n : nat) (dist : mat F) (i : nat) (M : mat F) : mat F :=
    fill_from dist i i (n - i) M.

  (* the rows one thread executes, in order *)
  Definition fill_rows (n : nat) (dist : mat F) (rows : list nat) (M : mat F) : mat F :=
    fold_left (fun M i => fill_row n dist i M) rows M.

  (* a team: every thread executes its share *)
  Definition team_fill (n : nat) (dist : mat F) (shares : list (list nat)) (M : mat F) : mat F :=
    fill_rows n dist (concat shares) M.

  (* static schedule, no chunk size *)
  Definition static_start (n T t : nat) : nat := t * (n / T) + Nat.min t (n mod T).
  Definition static_len (n T t : nat) : nat := n / T + (if Nat.ltb t (n mod T) then 1 else 0).
  Definition static_share (n T t : nat) : list nat := seq (static_start n T t) (static_len n T t).
  Definition static_shares (n T : nat) : list (list nat) := map (static_share n T) (seq 0 T).

  (* shipped code: the call's own team of T threads *)
  Definition cdm_own_team (n : nat) (dist : mat F) (T : nat) (init : mat F) : mat F :=
    team_fill n dist (static_shares n T) init.

  (* orphaned `omp for` bound to the CALLER's team of T threads; this call is made by thread `me` only *)
  Definition cdm_orphaned (n : nat) (dist : mat F) (T me : nat) (init : mat F) : mat F :=
    fill_rows n dist (static_share n T me) init.

  (* "row i of the loop writes position (a, b)" *)
  Definition touch (n i a b : nat) : bool :=
    (Nat.eqb a i && Nat.leb i b && Nat.ltb b n) || (Nat.eqb b i && Nat.leb i a && Nat.ltb a n).
End MdsModelPar.
