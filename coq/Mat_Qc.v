(* ====================================================================== *)
(*  Mat_Qc.v — the closed, executable instance of the matrix library       *)
(*                                                                         *)
(*    QcOps : FieldOps Qc      QcField : IsField Qc  (:= Qcft)             *)
(*  so that for a generic theorem `foo` (Context {F} {Fo} {Ff})            *)
(*      Definition foo_Qc := @foo Qc QcOps QcField.                        *)
(*  is closed ("Closed under the global context") and every generic        *)
(*  function `g` runs under vm_compute / extracts as `@g Qc QcOps`.        *)
(*                                                                         *)
(*    Qc_two_neq0       : two <> 0                                         *)
(*    Qc_of_nat         : of_nat n = Q2Qc (Z.of_nat n # 1)                 *)
(*    Qc_of_nat_neq0    : n <> 0 -> of_nat n <> 0   (the J_n hypothesis)   *)
(*    qz z, qfrac a b   : Qc literals from Z / Z and positive              *)
(*    qeqb, qeqb_ok     : boolean equality on Qc                           *)
(*    vlist_eqb, mlist_eqb (+ _ok) : boolean equality of list models       *)
(*    Q of a Qc for printing: `this q` (numerator `Qnum`, denominator      *)
(*    `Qden`, already in lowest terms).                                    *)
(* ====================================================================== *)

Require Import Field Ring Arith Lia List Bool ZArith QArith Qcanon.
From TK Require Import Mat_Sums Mat_Core.
Import ListNotations.

Global Instance QcOps : FieldOps Qc := {|
  fzero := Q2Qc 0; fone := Q2Qc 1;
  fadd := Qcplus; fmul := Qcmult; fsub := Qcminus; fopp := Qcopp;
  fdiv := Qcdiv; finv := Qcinv |}.

Global Instance QcField : IsField Qc := {| Fth := Qcft |}.

Definition qz (z : Z) : Qc := Q2Qc (z # 1).
Definition qfrac (a : Z) (b : positive) : Qc := Q2Qc (a # b).

Definition qeqb (x y : Qc) : bool := Qc_eq_bool x y.

Lemma qeqb_ok x y : qeqb x y = true <-> x = y.
Proof.
  unfold qeqb. split.
  - apply Qc_eq_bool_correct.
  - intros ->. unfold Qc_eq_bool. destruct (Qc_eq_dec y y) as [_|H]; [reflexivity|].
    exfalso. apply H. reflexivity.
Qed.

Fixpoint vlist_eqb (l l' : list Qc) : bool :=
  match l, l' with
  | [], [] => true
  | a :: r, a' :: r' => qeqb a a' && vlist_eqb r r'
  | _, _ => false
  end.

Fixpoint mlist_eqb (L L' : list (list Qc)) : bool :=
  match L, L' with
  | [], [] => true
  | a :: r, a' :: r' => vlist_eqb a a' && mlist_eqb r r'
  | _, _ => false
  end.

Lemma vlist_eqb_ok l l' : vlist_eqb l l' = true <-> l = l'.
Proof.
  revert l'. induction l as [|a r IH]; intros [|a' r']; cbn [vlist_eqb];
    try (split; [discriminate|discriminate]); try (split; reflexivity).
  rewrite andb_true_iff, qeqb_ok, IH. split.
  - intros [-> ->]. reflexivity.
  - intros H. inversion H. split; reflexivity.
Qed.

Lemma mlist_eqb_ok L L' : mlist_eqb L L' = true <-> L = L'.
Proof.
  revert L'. induction L as [|a r IH]; intros [|a' r']; cbn [mlist_eqb];
    try (split; [discriminate|discriminate]); try (split; reflexivity).
  rewrite andb_true_iff, vlist_eqb_ok, IH. split.
  - intros [-> ->]. reflexivity.
  - intros H. inversion H. split; reflexivity.
Qed.

Lemma Qc_two_neq0 : (@two Qc QcOps) <> 0%F.
Proof.
  unfold two. cbn. intros H. apply (f_equal this) in H. vm_compute in H. discriminate.
Qed.

Lemma Qc_of_nat n : @of_nat Qc QcOps n = Q2Qc (Z.of_nat n # 1).
Proof.
  induction n as [|n IH].
  - reflexivity.
  - cbn [of_nat]. rewrite IH. cbn [fadd fone QcOps].
    apply Qc_is_canon. unfold Qcplus. cbn [this Q2Qc].
    rewrite !Qred_correct. unfold Qeq, Qplus. cbn [Qnum Qden].
    rewrite Nat2Z.inj_succ. lia.
Qed.

Lemma Qc_of_nat_neq0 n : n <> 0%nat -> @of_nat Qc QcOps n <> 0%F.
Proof.
  intros Hn H. rewrite Qc_of_nat in H. cbn [fzero QcOps] in H.
  apply Q2Qc_eq_iff in H. unfold Qeq in H. cbn [Qnum Qden] in H. lia.
Qed.

(* ---------------- closedness + execution smoke tests ---------------- *)
Definition center_matrix_sym_Qc := @center_matrix_sym Qc QcOps QcField.
Definition double_center_entry_Qc := @double_center_entry Qc QcOps QcField.
Definition sym_avg_upper_only_Qc := @sym_avg_upper_only Qc QcOps QcField.

Example mat_qc_runs :
  mlist_eqb
    (mtab 2 2 (center_matrix 2 (mof [[qz 0; qz 4]; [qz 4; qz 0]])))
    [[qz (-2); qz 2]; [qz 2; qz (-2)]] = true.
Proof. vm_compute. reflexivity. Qed.

Example mat_qc_runs_J :
  mlist_eqb
    (mtab 2 2 (double_center 2 (mof [[qz 0; qz 4]; [qz 4; qz 0]])))
    (mtab 2 2 (center_matrix 2 (mof [[qz 0; qz 4]; [qz 4; qz 0]]))) = true.
Proof. vm_compute. reflexivity. Qed.

(* ---------------- proving meq / veq at Qc by computation ---------------- *)
Lemma meq_by_compute n m (A B : mat Qc) :
  mlist_eqb (mtab n m A) (mtab n m B) = true -> meq n m A B.
Proof. intros H. apply mtab_inj. apply mlist_eqb_ok. exact H. Qed.

Lemma veq_by_compute n (x y : vec Qc) :
  vlist_eqb (vtab n x) (vtab n y) = true -> veq n x y.
Proof. intros H. apply vlist_eqb_ok in H. intros i Hi. exact (tab_inj n x y H i Hi). Qed.

(* bounded universal quantifier by computation *)
Lemma forall_lt_by_compute n (P : nat -> bool) :
  forallb P (seq 0 n) = true -> forall i, (i < n)%nat -> P i = true.
Proof.
  intros H i Hi. rewrite forallb_forall in H. apply H. apply in_seq. lia.
Qed.
