(* Properties_C04.v — C04: Isomap geodesics are exact shortest paths; Isomap is classical
   MDS of them.  Statements only; proofs live in Dijkstra_Proof*.v. *)
From Coq Require Import List ZArith Bool Arith Qcanon.
From TK Require Import Mat_Sums Mat_Core Mat_Qc.
From TK Require Import Dijkstra_Model Dijkstra_Spec Dijkstra_IsoModel Dijkstra_IsoExec Dijkstra_Sched_Model
     Dijkstra_Proof_Base Dijkstra_Proof_Spec Dijkstra_Proof Dijkstra_Proof_Iso Dijkstra_Proof_IsoExec
     Dijkstra_Proof_Sched Dijkstra_IsoEmbed Dijkstra_IsoSelect Dijkstra_IsoOptimal Dijkstra_FibC_Model
     Dijkstra_Proof_FibC Dijkstra_Scale Dijkstra_IsoFrobenius Dijkstra_PQC_Model Dijkstra_Proof_PQC
     Dijkstra_Proof_PQC_Heap Dijkstra_Proof_PQC_Sched Dijkstra_IsoPipe_Model Dijkstra_Proof_IsoPipe.
From TK Require Mds_Proof_Optimal Mds_Proof_OptimalClamped.
From Coq Require Import Permutation.
Import ListNotations.
Local Open Scope Z_scope.

(* ---- the specification is what it claims: minimum walk weight / unreachable ---- *)
Theorem sp_is_shortest_path : forall nbrs w N K k v,
    wf_graph nbrs N K -> nonneg_w nbrs w -> (k < N)%nat -> (v < N)%nat ->
    is_sp nbrs w k v (sp nbrs w N k v).
Proof. intros; eapply sp_char; eassumption. Qed.
Print Assumptions sp_is_shortest_path.

(* ---- first overload, both heap configurations, every admissible queue behaviour ---- *)
Theorem dijkstra_pq_correct : forall nbrs w N K pick,
    wf_graph nbrs N K -> nonneg_w nbrs w -> pick_ok pick -> (0 < N)%nat ->
    full_matrix PQ nbrs w pick N = DOk (sp_matrix nbrs w N).
Proof. intros; eapply full_matrix_correct; eassumption. Qed.
Print Assumptions dijkstra_pq_correct.

Theorem dijkstra_fib_correct : forall nbrs w N K pick,
    wf_graph nbrs N K -> nonneg_w nbrs w -> pick_ok pick -> (0 < N)%nat ->
    full_matrix FIB nbrs w pick N = DOk (sp_matrix nbrs w N).
Proof. intros; eapply full_matrix_correct; eassumption. Qed.
Print Assumptions dijkstra_fib_correct.

(* the Fibonacci configuration with the heap NOT abstracted: the queue is the executable pointer-order
   model of fibonacci_heap.hpp of property C16 (consolidate, cascading cuts, A[Dn] with the constructor's Dn);
   every heap call is discharged by C16's refinement theorems.  No `pick`: the tie-breaking is the heap's own. *)
Theorem dijkstra_fib_concrete_correct : forall nbrs w N K,
    wf_graph nbrs N K -> nonneg_w nbrs w -> (0 < N)%nat ->
    full_matrix_fibc nbrs w N = DOk (sp_matrix nbrs w N).
Proof. exact full_matrix_fibc_correct. Qed.
Print Assumptions dijkstra_fib_concrete_correct.

Theorem landmark_fib_concrete_correct : forall nbrs w N K lm,
    wf_graph nbrs N K -> nonneg_w nbrs w -> (0 < N)%nat -> Forall (fun v => (v < N)%nat) lm ->
    landmark_matrix_fibc nbrs w N lm = DOk (sp_landmarks nbrs w N lm).
Proof. exact landmark_matrix_fibc_correct. Qed.
Print Assumptions landmark_fib_concrete_correct.

(* the instrumented copy (which also lists the calls of the distance callback) computes the same row *)
Theorem fib_concrete_trace_erasure : forall nbrs w N K src fidx,
    fst (row_fibc_tr nbrs w N K src fidx) = row_fibc nbrs w N K src fidx.
Proof. exact row_fibc_tr_erase. Qed.
Print Assumptions fib_concrete_trace_erasure.

(* ---- the priority-queue configuration with the queue NOT abstracted (wave 2): std::priority_queue over
   std::vector = libstdc++'s binary heap (push_heap: sift up; pop_heap: the last cell sinks from the root to a leaf
   along the smaller children, then rises), Dijkstra_PQC_Model.v.  No `pick`: the tie-breaking is the heap's own. ---- *)
(* push_heap / pop_heap permute the vector (plus / minus one cell), keep the heap order, and the first cell of a
   heap-ordered vector has a minimal key: std::priority_queue meets the contract `pick_ok` assumed above *)
Theorem binary_heap_refines_queue :
    (forall x c, Permutation (bh_push x c) (x :: c)) /\
    (forall top rest, Permutation (bh_pop (top :: rest)) rest) /\
    (forall x c, heap_ord c -> heap_ord (bh_push x c)) /\
    (forall top rest, heap_ord (top :: rest) -> heap_ord (bh_pop (top :: rest))) /\
    (forall top rest, heap_ord (top :: rest) -> is_min top (top :: rest) = true).
Proof.
  split; [exact bh_push_perm|]. split; [exact bh_pop_perm|]. split; [exact bh_push_ord|].
  split; [exact bh_pop_ord | exact heap_ord_is_min].
Qed.
Print Assumptions binary_heap_refines_queue.

Theorem dijkstra_pq_concrete_correct : forall nbrs w N K,
    wf_graph nbrs N K -> nonneg_w nbrs w -> (0 < N)%nat ->
    full_matrix_pqc nbrs w N = DOk (sp_matrix nbrs w N).
Proof. exact full_matrix_pqc_correct. Qed.
Print Assumptions dijkstra_pq_concrete_correct.

Theorem landmark_pq_concrete_correct : forall nbrs w N K lm,
    wf_graph nbrs N K -> nonneg_w nbrs w -> (0 < N)%nat -> Forall (fun v => (v < N)%nat) lm ->
    landmark_matrix_pqc nbrs w N lm = DOk (sp_landmarks nbrs w N lm).
Proof. exact landmark_matrix_pqc_correct. Qed.
Print Assumptions landmark_pq_concrete_correct.

(* "identical for both priority-queue back-ends", with both queues concrete (libstdc++ binary heap, tapkee's
   Fibonacci heap): no abstraction of the tie-breaking left on either side *)
Theorem concrete_backends_equal : forall nbrs w N K lm,
    wf_graph nbrs N K -> nonneg_w nbrs w -> (0 < N)%nat -> Forall (fun v => (v < N)%nat) lm ->
    full_matrix_pqc nbrs w N = full_matrix_fibc nbrs w N /\
    landmark_matrix_pqc nbrs w N lm = landmark_matrix_fibc nbrs w N lm.
Proof. exact pqc_fibc_agree. Qed.
Print Assumptions concrete_backends_equal.

(* the instrumented copy (which also lists the calls of the distance callback) computes the same row *)
Theorem pq_concrete_trace_erasure : forall nbrs w N K src fidx,
    fst (row_pqc_tr nbrs w N K src fidx) = row_pqc nbrs w N K src fidx.
Proof. exact row_pqc_tr_erase. Qed.
Print Assumptions pq_concrete_trace_erasure.

Theorem backends_equal : forall nbrs w N K pick1 pick2,
    wf_graph nbrs N K -> nonneg_w nbrs w -> pick_ok pick1 -> pick_ok pick2 -> (0 < N)%nat ->
    full_matrix PQ nbrs w pick1 N = full_matrix FIB nbrs w pick2 N.
Proof. exact backends_agree. Qed.
Print Assumptions backends_equal.

(* each row is a function of its source alone: row k of the matrix is sp_row k, whatever
   the other rows, the queue's tie-breaking, or the flavour *)
Theorem rows_depend_only_on_source : forall fl nbrs w N K pick k,
    wf_graph nbrs N K -> nonneg_w nbrs w -> pick_ok pick -> (k < N)%nat ->
    row_fl fl nbrs w pick N K k k = DOk (sp_row nbrs w N k).
Proof.
  intros [] nbrs w N K pick k Hwf Hnn Hp Hk; cbn [row_fl];
    [apply row_pq_eq_sp | apply row_fib_eq_sp]; assumption.
Qed.
Print Assumptions rows_depend_only_on_source.

(* ---- clauses on the values ---- *)
Theorem geodesic_zero_diagonal : forall nbrs w N K k,
    wf_graph nbrs N K -> nonneg_w nbrs w -> (k < N)%nat -> sp nbrs w N k k = Some 0.
Proof. intros; eapply sp_zero_diagonal; eassumption. Qed.
Print Assumptions geodesic_zero_diagonal.

Theorem geodesic_le_edge : forall nbrs w N K i j,
    wf_graph nbrs N K -> nonneg_w nbrs w -> edge nbrs i j ->
    exists d, sp nbrs w N i j = Some d /\ d <= w i j.
Proof. intros; eapply sp_le_edge; eassumption. Qed.
Print Assumptions geodesic_le_edge.

Theorem geodesic_ge_direct : forall nbrs w N K,
    wf_graph nbrs N K -> nonneg_w nbrs w -> metric_w w N ->
    forall i j d, (i < N)%nat -> (j < N)%nat -> sp nbrs w N i j = Some d -> w i j <= d.
Proof. intros; eapply sp_ge_direct; eassumption. Qed.
Print Assumptions geodesic_ge_direct.

Theorem dijkstra_finite_iff_reach : forall nbrs w N K k v,
    wf_graph nbrs N K -> nonneg_w nbrs w -> (k < N)%nat -> (v < N)%nat ->
    (sp nbrs w N k v <> None <-> exists W, path nbrs w k v W).
Proof. intros; eapply sp_finite_iff_reach; eassumption. Qed.
Print Assumptions dijkstra_finite_iff_reach.

(* ---- second overload (landmarks) ----
   `landmark_matrix`       = the source BEFORE commit c3eaff6 (fix F4): `f[k] = true`
   `landmark_matrix_fixed` = the CURRENT source:                         `f[landmarks[k]] = true` *)
(* old code, priority-queue build: correct (f[] is write-only there) *)
Theorem landmark_pq_correct : forall nbrs w N K pick lm,
    wf_graph nbrs N K -> nonneg_w nbrs w -> pick_ok pick -> (0 < N)%nat ->
    Forall (fun v => (v < N)%nat) lm -> (length lm <= N)%nat ->
    landmark_matrix PQ nbrs w pick N lm = DOk (sp_landmarks nbrs w N lm).
Proof. intros; eapply landmark_matrix_pq_correct; eassumption. Qed.
Print Assumptions landmark_pq_correct.

(* old code, Fibonacci build (regression theorem): `f[k] = true` flags vertex k instead of landmarks[k];
   vertex k is then never inserted and nothing behind it is reached (defect F4) *)
Theorem landmark_fib_refuted :
    exists nbrs w N K lm,
      wf_graph nbrs N K /\ nonneg_w nbrs w /\ Forall (fun v => (v < N)%nat) lm /\
      NoDup lm /\ (length lm <= N)%nat /\
      forall pick, pick_ok pick ->
        exists m, landmark_matrix FIB nbrs w pick N lm = DOk m /\
                  m <> sp_landmarks nbrs w N lm.
Proof. exact landmark_fib_wrong. Qed.
Print Assumptions landmark_fib_refuted.

(* the current source (fixes/F04_landmark_frontier_flag.patch, `f[landmarks[k]] = true`): both builds;
   every landmark row equals the corresponding row of the full matrix *)
Theorem landmark_row : forall fl nbrs w N K pick lm,
    wf_graph nbrs N K -> nonneg_w nbrs w -> pick_ok pick -> (0 < N)%nat ->
    Forall (fun v => (v < N)%nat) lm ->
    landmark_matrix_fixed fl nbrs w pick N lm = DOk (sp_landmarks nbrs w N lm) /\
    forall r src, nth_error lm r = Some src ->
                  nth r (sp_landmarks nbrs w N lm) [] = nth src (sp_matrix nbrs w N) [].
Proof.
  intros fl nbrs w N K pick lm Hwf Hnn Hp HN Hlm. split.
  - eapply landmark_matrix_fixed_correct; eassumption.
  - intros r src Hr. apply landmark_rows_are_full_rows; [assumption|].
    rewrite Forall_forall in Hlm. apply Hlm. eapply nth_error_In; eassumption.
Qed.
Print Assumptions landmark_row.

(* ---- every OpenMP schedule: any team size, any assignment of rows to threads, any order, whatever the
   previous row left in the thread's private s[], f[] and whatever the uninitialised matrix held ---- *)
Theorem threads_independent_full : forall fl nbrs w N K pick garbage sched inits,
    wf_graph nbrs N K -> nonneg_w nbrs w -> pick_ok pick ->
    (forall k, length (garbage k) = N) ->
    length inits = length sched -> Forall (tstate_ok N) inits ->
    Permutation (concat sched) (seq 0 N) ->
    full_matrix_sched fl nbrs w pick N K garbage sched inits = DOk (sp_matrix nbrs w N).
Proof. exact full_matrix_any_schedule. Qed.
Print Assumptions threads_independent_full.

Theorem threads_independent_landmark : forall fl nbrs w N K pick lm garbage sched inits,
    wf_graph nbrs N K -> nonneg_w nbrs w -> pick_ok pick ->
    Forall (fun v => (v < N)%nat) lm ->
    (forall k, length (garbage k) = N) ->
    length inits = length sched -> Forall (tstate_ok N) inits ->
    Permutation (concat sched) (seq 0 (length lm)) ->
    landmark_matrix_sched fl nbrs w pick N K lm garbage sched inits = DOk (sp_landmarks nbrs w N lm).
Proof. exact landmark_matrix_any_schedule. Qed.
Print Assumptions threads_independent_landmark.

(* every OpenMP schedule, priority-queue configuration over the concrete binary heap (per-thread s[], f[] and queue
   reused across the rows a thread is given; no `pick`) *)
Theorem threads_independent_pq_concrete : forall nbrs w N K lm garbage sched inits schedl initsl,
    wf_graph nbrs N K -> nonneg_w nbrs w -> Forall (fun v => (v < N)%nat) lm ->
    (forall k, length (garbage k) = N) ->
    length inits = length sched -> Forall (tstate_ok N) inits -> Permutation (concat sched) (seq 0 N) ->
    length initsl = length schedl -> Forall (tstate_ok N) initsl ->
    Permutation (concat schedl) (seq 0 (length lm)) ->
    full_matrix_sched_pqc nbrs w N K garbage sched inits = DOk (sp_matrix nbrs w N) /\
    landmark_matrix_sched_pqc nbrs w N K lm garbage schedl initsl = DOk (sp_landmarks nbrs w N lm).
Proof.
  intros; split; [apply full_matrix_pqc_any_schedule | apply landmark_matrix_pqc_any_schedule]; assumption.
Qed.
Print Assumptions threads_independent_pq_concrete.

(* ---- Isomap = classical MDS of the geodesics ----
   `iso_shipped` = embed() BEFORE commit 1e09b35 (fix F23), `iso_fixed` = the CURRENT embed() *)
(* old code (regression theorem): centerMatrix subtracts column means along both axes; with asymmetric
   geodesics the solver does not see -1/2 J S J (defect F23) *)
Theorem isomap_center_refuted :
    exists (n : nat) (G : mat Qc) (i j : nat),
      (i < n)%nat /\ (j < n)%nat /\
      G = geo_qc (sp_matrix f4_nbrs f4_w n) /\
      seen_by_dense (iso_shipped n G) i j <> mds_ref n G i j /\
      iso_shipped n G i j <> mds_ref n G i j.
Proof.
  exists 3%nat, f23_G, 0%nat, 0%nat.
  split; [auto with arith | split; [auto with arith | split; [reflexivity | exact iso_shipped_not_mds]]].
Qed.
Print Assumptions isomap_center_refuted.

(* the exact discrepancy, for every n and G: -1/4 (delta_i + delta_j) *)
Theorem isomap_shipped_gap : forall n (G : mat Qc) i j,
    n <> 0%nat -> (i < n)%nat -> (j < n)%nat ->
    seen_by_dense (iso_shipped n G) i j =
    (mds_ref n G i j - (asym_delta n G i + asym_delta n G j) / (two * two))%F.
Proof. exact iso_shipped_seen_Qc. Qed.
Print Assumptions isomap_shipped_gap.

(* the current source (fixes/F23_isomap_symmetrize.patch): the matrix handed to the eigensolver IS
   -1/2 J S J, S = (G.^2 + (G.^2)^T)/2, for every geodesic table G (symmetric or not) *)
Theorem isomap_is_mds : forall n (G : mat Qc), n <> 0%nat ->
    meq n n (iso_fixed n G) (mds_ref n G).
Proof. exact iso_fixed_is_mds_Qc. Qed.
Print Assumptions isomap_is_mds.

(* the old code was already right on symmetric geodesics (mutual neighbourhoods) *)
Theorem isomap_shipped_ok_if_symmetric : forall n (G : mat Qc), n <> 0%nat ->
    msym n G -> meq n n (iso_shipped n G) (mds_ref n G).
Proof. exact iso_shipped_ok_if_symmetric_Qc. Qed.
Print Assumptions isomap_shipped_ok_if_symmetric.

(* ---- embed() END TO END up to the eigensolver call (wave 4): geodesic routine (both queues concrete) composed with
   the squaring / averaging / centring statements = classical MDS of the shortest-path lengths of the neighbourhood
   graph, for EVERY well-formed graph (complete or not) and EVERY non-negative weight function (no triangle
   inequality, no symmetry) ---- *)
Theorem isomap_pipeline_is_mds_of_shortest_paths : forall nbrs w N K,
    wf_graph nbrs N K -> nonneg_w nbrs w -> (0 < N)%nat ->
    embed_handed_pqc nbrs w N = mds_of_shortest_paths nbrs w N /\
    embed_handed_fibc nbrs w N = mds_of_shortest_paths nbrs w N.
Proof. exact embed_handed_is_mds_of_shortest_paths. Qed.
Print Assumptions isomap_pipeline_is_mds_of_shortest_paths.

(* the fast path "k = N-1: the graph is complete, so the geodesics are the direct distances" (NOT in the shipped code;
   the kind of change the correspondence run must catch) is refuted by a symmetric, zero-diagonal, positive but
   non-metric table (squared distances of three points on a line), on which the shipped pipeline is right *)
Theorem isomap_complete_graph_shortcut_refuted :
  exists nbrs t N,
    wf_graph nbrs N (N - 1) /\ nonneg_w nbrs (table_w t) /\
    (forall u v, (u < N)%nat -> (v < N)%nat -> table_w t u v = table_w t v u) /\
    (forall u, (u < N)%nat -> table_w t u u = 0) /\
    embed_handed_shortcut nbrs (table_w t) N <> mds_of_shortest_paths nbrs (table_w t) N /\
    embed_handed_pqc nbrs (table_w t) N = mds_of_shortest_paths nbrs (table_w t) N.
Proof. exact embed_complete_graph_shortcut_refuted. Qed.
Print Assumptions isomap_complete_graph_shortcut_refuted.

(* the memoised list-level functions that the correspondence run extracts and executes are the tables of
   the functions above; the extracted decision procedure is sound and complete *)
Theorem isomap_exec_is_mds : forall n t, n <> 0%nat -> iso_current_exec n t = mds_ref_exec n t.
Proof. exact iso_current_exec_is_mds. Qed.
Print Assumptions isomap_exec_is_mds.

Theorem isomap_exec_faithful : forall n t,
    iso_current_exec n t = mtab n n (iso_fixed n (geo_of_table t)) /\
    iso_old_exec n t = mtab n n (iso_shipped n (geo_of_table t)) /\
    mds_ref_exec n t = mtab n n (mds_ref n (geo_of_table t)).
Proof.
  intros n t. split; [apply iso_current_exec_ok | split; [apply iso_old_exec_ok | apply mds_ref_exec_ok]].
Qed.
Print Assumptions isomap_exec_faithful.

Theorem check_mds_decides : forall n t obs,
    check_mds n t obs = true <-> obs_of obs = mtab n n (mds_ref n (geo_of_table t)).
Proof. exact check_mds_iff. Qed.
Print Assumptions check_mds_decides.

Theorem isomap_old_exec_refuted : iso_old_exec 3 f23_table <> mds_ref_exec 3 f23_table.
Proof. exact iso_old_exec_refuted. Qed.
Print Assumptions isomap_old_exec_refuted.

(* last statements of embed(): columns scaled by sqrt(lambda).  Eigensolver and sqrt are oracles (their
   contracts are the hypotheses; validated at run time).  PARTIAL: not proved that the returned eigenpairs
   are the d largest (selection: property C05) nor that this choice is optimal (Eckart-Young). *)
Theorem isomap_embedding_partial : forall (n d : nat) (G V : mat Qc) (lam s : vec Qc),
    n <> 0%nat ->
    (forall i j, (i < n)%nat -> (j < d)%nat ->
        sumn n (fun t => iso_fixed n G i t * V t j) = lam j * V i j)%F ->
    (forall a b, (a < d)%nat -> (b < d)%nat -> sumn n (fun t => V t a * V t b) = delta a b)%F ->
    (forall j, (j < d)%nat -> s j * s j = lam j)%F ->
    let Y := scale_cols V s in
    (forall i j, (i < n)%nat -> (j < d)%nat ->
        sumn n (fun t => mds_ref n G i t * Y t j) = lam j * Y i j)%F /\
    (forall a b, (a < d)%nat -> (b < d)%nat ->
        sumn n (fun t => Y t a * Y t b) = if Nat.eqb a b then lam a else 0)%F /\
    (forall i k, sumn d (fun j => Y i j * Y k j) = sumn d (fun j => lam j * (V i j * V k j)))%F.
Proof. exact isomap_embedding_mds. Qed.
Print Assumptions isomap_embedding_partial.

(* the same with the selection of the dense LargestEigenvalues path inside (sym_avg, rightCols(d), tail(d)) and
   the clamp sqrt(max(lambda,0)): under the contract of a FULL self-adjoint decomposition (ascending) the returned
   columns are eigenvectors of -1/2 J S J for the d LARGEST eigenvalues, orthogonal, of squared length
   max(lambda_j, 0) — the classical-MDS configuration.  PARTIAL only in that Eckart-Young optimality of that
   configuration (a fact about classical MDS) and the oracles themselves stay outside. *)
Theorem isomap_embedding_top_d_partial : forall (n d : nat) (G Vf : mat Qc) (Lf s : vec Qc),
    n <> 0%nat -> (d <= n)%nat ->
    (forall i j, (i < n)%nat -> (j < n)%nat ->
        sumn n (fun t => seen_by_dense (iso_fixed n G) i t * Vf t j) = Lf j * Vf i j)%F ->
    (forall a b, (a < n)%nat -> (b < n)%nat -> sumn n (fun t => Vf t a * Vf t b) = delta a b)%F ->
    (forall a b, (a <= b)%nat -> (b < n)%nat -> (Lf a <= Lf b)%Qc) ->
    (forall j, (j < d)%nat -> (0 <= sel_vals n d Lf j)%Qc -> s j * s j = sel_vals n d Lf j)%F ->
    (forall j, (j < d)%nat -> (sel_vals n d Lf j < 0)%Qc -> s j = 0)%F ->
    let lam := sel_vals n d Lf in
    let Y := scale_cols (sel_cols n d Vf) s in
    (forall j t, (j < d)%nat -> (t < n - d)%nat -> (Lf t <= lam j)%Qc) /\
    (forall i j, (i < n)%nat -> (j < d)%nat ->
        sumn n (fun t => mds_ref n G i t * Y t j) = lam j * Y i j)%F /\
    (forall a b, (a < d)%nat -> (b < d)%nat ->
        sumn n (fun t => Y t a * Y t b) =
        if Nat.eqb a b then (if Qclt_le_dec (lam a) 0 then 0 else lam a) else 0)%F.
Proof. exact isomap_embedding_top_d. Qed.
Print Assumptions isomap_embedding_top_d_partial.

(* why the d LARGEST: Ky Fan's maximum principle, proved here over Qc (Bessel, Parseval, a weighted-sum
   inequality).  Under the full-decomposition contract (now also V V^T = I), for ANY n x d matrix W with orthonormal
   columns, sum_j w_j^T (-1/2 J S J) w_j is at most its value at the columns embed() gets back, which is the sum of
   the d largest eigenvalues: the returned subspace retains the most of the doubly-centred inner products —
   the variational characterisation of classical MDS.  (quad n B w = w^T B w.) *)
Theorem isomap_subspace_optimal : forall (n d : nat) (G Vf : mat Qc) (Lf : vec Qc) (W : mat Qc),
    n <> 0%nat -> (d <= n)%nat ->
    (forall i j, (i < n)%nat -> (j < n)%nat ->
        sumn n (fun t => seen_by_dense (iso_fixed n G) i t * Vf t j) = Lf j * Vf i j)%F ->
    (forall a b, (a < n)%nat -> (b < n)%nat -> sumn n (fun t => Vf t a * Vf t b) = delta a b)%F ->
    (forall a b, (a < n)%nat -> (b < n)%nat -> sumn n (fun m => Vf a m * Vf b m) = delta a b)%F ->
    (forall a b, (a <= b)%nat -> (b < n)%nat -> qle (Lf a) (Lf b)) ->
    (forall a b, (a < d)%nat -> (b < d)%nat -> sumn n (fun t => W t a * W t b) = delta a b)%F ->
    qle (sumn d (fun j => quad n (mds_ref n G) (mcol W j)))
        (sumn d (fun j => quad n (mds_ref n G) (mcol (sel_cols n d Vf) j))) /\
    sumn d (fun j => quad n (mds_ref n G) (mcol (sel_cols n d Vf) j)) = sumn d (fun j => sel_vals n d Lf j).
Proof. exact Dijkstra_IsoOptimal.isomap_subspace_optimal. Qed.
Print Assumptions isomap_subspace_optimal.

(* ---- scale equivariance: a change of the unit of length commutes with everything (wave 2) ----
   The correspondence run multiplies weight tables by 2^-70 .. 2^70 and keeps the model on the integer table;
   these theorems are what makes that legitimate, and what an ABSOLUTE tolerance in a relax / pop / stale-entry
   comparison falsifies (seeded change C04_1_r2). *)
Theorem geodesic_spec_scale_equivariant : forall c nbrs w N k v, 0 < c ->
    sp nbrs (scale_w c w) N k v = scale_o c (sp nbrs w N k v).
Proof. exact sp_scale. Qed.
Print Assumptions geodesic_spec_scale_equivariant.

(* both heap configurations, any two admissible tie-breakings (they may differ between the two runs) *)
Theorem dijkstra_scale_equivariant : forall fl1 fl2 nbrs w N K pick1 pick2 c,
    wf_graph nbrs N K -> nonneg_w nbrs w -> pick_ok pick1 -> pick_ok pick2 -> (0 < N)%nat -> 0 < c ->
    exists m, full_matrix fl2 nbrs w pick2 N = DOk m /\
              full_matrix fl1 nbrs (scale_w c w) pick1 N = DOk (scale_mat c m).
Proof. exact full_matrix_scale. Qed.
Print Assumptions dijkstra_scale_equivariant.

Theorem landmark_scale_equivariant : forall fl1 fl2 nbrs w N K pick1 pick2 lm c,
    wf_graph nbrs N K -> nonneg_w nbrs w -> pick_ok pick1 -> pick_ok pick2 -> (0 < N)%nat ->
    Forall (fun v => (v < N)%nat) lm -> 0 < c ->
    exists m, landmark_matrix_fixed fl2 nbrs w pick2 N lm = DOk m /\
              landmark_matrix_fixed fl1 nbrs (scale_w c w) pick1 N lm = DOk (scale_mat c m).
Proof. exact landmark_matrix_scale. Qed.
Print Assumptions landmark_scale_equivariant.

(* the same over the concrete Fibonacci heap of property C16 *)
Theorem fib_concrete_scale_equivariant : forall nbrs w N K lm c,
    wf_graph nbrs N K -> nonneg_w nbrs w -> (0 < N)%nat -> Forall (fun v => (v < N)%nat) lm -> 0 < c ->
    exists m ml, full_matrix_fibc nbrs w N = DOk m /\
                 full_matrix_fibc nbrs (scale_w c w) N = DOk (scale_mat c m) /\
                 landmark_matrix_fibc nbrs w N lm = DOk ml /\
                 landmark_matrix_fibc nbrs (scale_w c w) N lm = DOk (scale_mat c ml).
Proof. exact fibc_scale. Qed.
Print Assumptions fib_concrete_scale_equivariant.

(* embed(): geodesics times c -> the matrix handed to the solver times c^2 (every n, every table, every c) *)
Theorem isomap_matrix_scale_equivariant : forall n (c : Qc) (G : mat Qc) i j,
    (iso_fixed n (mscale c G) i j = (c * c) * iso_fixed n G i j)%F.
Proof. exact (@iso_fixed_scale Qc QcOps QcField). Qed.
Print Assumptions isomap_matrix_scale_equivariant.

(* ... the oracle contract is carried along (same eigenvectors, eigenvalues times c^2, sqrt factors times c) and
   the returned embedding is c times the embedding *)
Theorem isomap_embedding_scale_equivariant : forall (n d : nat) (c : Qc) (B V : mat Qc) (lam s : vec Qc),
    (forall i j, (i < n)%nat -> (j < d)%nat -> sumn n (fun t => B i t * V t j) = lam j * V i j)%F ->
    (forall j, (j < d)%nat -> s j * s j = lam j)%F ->
    (forall i j, (i < n)%nat -> (j < d)%nat ->
        sumn n (fun t => mscale (c * c) B i t * V t j) = ((c * c) * lam j) * V i j)%F /\
    (forall j, (j < d)%nat -> (c * s j) * (c * s j) = (c * c) * lam j)%F /\
    (forall i j, scale_cols V (fun j => c * s j) i j = c * scale_cols V s i j)%F.
Proof. exact (@embed_contract_scale Qc QcOps QcField). Qed.
Print Assumptions isomap_embedding_scale_equivariant.

(* ---- Eckart-Young in the Frobenius norm (wave 2; composes property C05's Mds_Proof_OptimalClamped.v) ----
   Under the full-decomposition contract and sqrt(max(x,0)): for EVERY orthonormal n x d frame Q and EVERY d x d
   matrix C with Q C Q^T positive semi-definite (over the reals: every Gram matrix of a d-dimensional configuration),
   | -1/2 J S J - Y Y^T |_F^2 <= | -1/2 J S J - Q C Q^T |_F^2 for the Y that embed() returns; eigenvalues of any sign
   (geodesic distances need not be Euclidean).  The oracles stay hypotheses. *)
Theorem isomap_frobenius_optimal : forall (n d : nat) (G Vf : mat Qc) (Lf s : vec Qc) (Q C : mat Qc),
    n <> 0%nat -> (d <= n)%nat ->
    (forall i j, (i < n)%nat -> (j < n)%nat ->
        sumn n (fun t => seen_by_dense (iso_fixed n G) i t * Vf t j) = Lf j * Vf i j)%F ->
    (forall a b, (a < n)%nat -> (b < n)%nat -> sumn n (fun t => Vf t a * Vf t b) = delta a b)%F ->
    (forall a b, (a < n)%nat -> (b < n)%nat -> sumn n (fun m => Vf a m * Vf b m) = delta a b)%F ->
    (forall a b, (a <= b)%nat -> (b < n)%nat -> (Lf a <= Lf b)%Qc) ->
    (forall j, (j < d)%nat -> (0 <= sel_vals n d Lf j)%Qc -> s j * s j = sel_vals n d Lf j)%F ->
    (forall j, (j < d)%nat -> (sel_vals n d Lf j < 0)%Qc -> s j = 0)%F ->
    (forall a b, (a < d)%nat -> (b < d)%nat -> sumn n (fun t => Q t a * Q t b) = delta a b)%F ->
    (forall x : vec Qc, (0 <= Mds_Proof_OptimalClamped.qf n (Mds_Proof_Optimal.lowrank d Q C) x)%Qc) ->
    let Y := scale_cols (sel_cols n d Vf) s in
    (Mds_Proof_Optimal.fro2 n n (msub (mds_ref n G) (mmul d Y (mtrans Y))) <=
     Mds_Proof_Optimal.fro2 n n (msub (mds_ref n G) (Mds_Proof_Optimal.lowrank d Q C)))%Qc.
Proof. exact isomap_frobenius_optimal_clamped. Qed.
Print Assumptions isomap_frobenius_optimal.

(* ---- non-vacuity: the hypotheses are satisfiable together ---- *)
Example hypotheses_satisfiable :
    wf_graph f4_nbrs 3 1 /\ nonneg_w f4_nbrs f4_w /\ metric_w f4_w 3 /\
    pick_ok pick_first_min /\ pick_ok pick_last_min /\
    Forall (fun v => (v < 3)%nat) f4_lm /\ (length f4_lm <= 3)%nat /\
    edge f4_nbrs 0 1 /\ (exists W, path f4_nbrs f4_w 0 2 W).
Proof. exact c04_hypotheses_satisfiable. Qed.

Example isomap_hypotheses_satisfiable :
    (3 <> 0)%nat /\ msym 3 (fun i j : nat => qz (Z.of_nat i + Z.of_nat j)).
Proof.
  split; [discriminate|]. intros i j _ _. f_equal. apply Z.add_comm.
Qed.

(* a schedule with two threads, rows handed out of order, garbage in every array *)
Example schedule_hypotheses_satisfiable :
    full_matrix_sched FIB f4_nbrs f4_w pick_first_min 3 1
                      (fun k => [Some 7; None; Some (-1)])
                      [[2; 0]; [1]]%nat
                      [mkT [true; true; false] [false; true; true] []; mkT [true; true; true] [true; true; true] []]
    = DOk (sp_matrix f4_nbrs f4_w 3).
Proof. exact schedule_example. Qed.

(* the oracle contract of isomap_embedding_partial holds for a concrete eigenpair (lambda = 4) *)
Example embedding_hypotheses_satisfiable :
    let n := 4%nat in let d := 1%nat in
    let lam : vec Qc := fun _ => qz 4 in let s : vec Qc := fun _ => qz 2 in
      n <> 0%nat /\
      (forall i j, (i < n)%nat -> (j < d)%nat ->
          sumn n (fun t => iso_fixed n emb_G i t * emb_V t j) = lam j * emb_V i j)%F /\
      (forall a b, (a < d)%nat -> (b < d)%nat -> sumn n (fun t => emb_V t a * emb_V t b) = delta a b)%F /\
      (forall j, (j < d)%nat -> s j * s j = lam j)%F /\
      scale_cols emb_V s 1%nat 0%nat = qz (-1).
Proof. exact isomap_embedding_contract_satisfiable. Qed.

(* the full-decomposition contract of isomap_embedding_top_d_partial holds for the same four samples
   (Hadamard basis / 2, spectrum 0,0,0,4) *)
Example select_hypotheses_satisfiable :
    let n := 4%nat in let d := 1%nat in let s : vec Qc := fun _ => qz 2 in
    n <> 0%nat /\ (d <= n)%nat /\
    (forall i j, (i < n)%nat -> (j < n)%nat ->
        sumn n (fun t => seen_by_dense (iso_fixed n emb_G) i t * emb_Vf t j) = emb_Lf j * emb_Vf i j)%F /\
    (forall a b, (a < n)%nat -> (b < n)%nat -> sumn n (fun t => emb_Vf t a * emb_Vf t b) = delta a b)%F /\
    (forall a b, (a <= b)%nat -> (b < n)%nat -> (emb_Lf a <= emb_Lf b)%Qc) /\
    (forall j, (j < d)%nat -> (0 <= sel_vals n d emb_Lf j)%Qc -> s j * s j = sel_vals n d emb_Lf j)%F /\
    (forall j, (j < d)%nat -> (sel_vals n d emb_Lf j < 0)%Qc -> s j = 0)%F /\
    scale_cols (sel_cols n d emb_Vf) s 1%nat 0%nat = qz (-1).
Proof. exact isomap_select_contract_satisfiable. Qed.

(* the contract of isomap_subspace_optimal (rows of the eigenvector matrix orthonormal too) and a competitor
   frame that retains strictly less (0 < 4) *)
Example optimal_hypotheses_satisfiable :
    let n := 4%nat in let d := 1%nat in let W : mat Qc := fun _ _ => qfrac 1 2 in
    n <> 0%nat /\ (d <= n)%nat /\
    (forall i j, (i < n)%nat -> (j < n)%nat ->
        sumn n (fun t => seen_by_dense (iso_fixed n emb_G) i t * emb_Vf t j) = emb_Lf j * emb_Vf i j)%F /\
    (forall a b, (a < n)%nat -> (b < n)%nat -> sumn n (fun t => emb_Vf t a * emb_Vf t b) = delta a b)%F /\
    (forall a b, (a < n)%nat -> (b < n)%nat -> sumn n (fun m => emb_Vf a m * emb_Vf b m) = delta a b)%F /\
    (forall a b, (a <= b)%nat -> (b < n)%nat -> qle (emb_Lf a) (emb_Lf b)) /\
    (forall a b, (a < d)%nat -> (b < d)%nat -> sumn n (fun t => W t a * W t b) = delta a b)%F /\
    sumn d (fun j => quad n (mds_ref n emb_G) (mcol W j)) = qz 0 /\
    sumn d (fun j => sel_vals n d emb_Lf j) = qz 4.
Proof. exact isomap_optimal_contract_satisfiable. Qed.

(* scaling: the F4 witness graph with a unit 2^70 times finer (computed by the model, not deduced) *)
Example scale_hypotheses_satisfiable :
    full_matrix FIB f4_nbrs (scale_w (2 ^ 70) f4_w) pick_first_min 3 =
    DOk (scale_mat (2 ^ 70) (sp_matrix f4_nbrs f4_w 3)) /\ 0 < 2 ^ 70.
Proof. exact scale_example. Qed.

(* the contract of isomap_frobenius_optimal for the four samples, with a positive semi-definite competitor (the Gram
   matrix of the constant configuration) that is strictly worse: 0 < 17 *)
Example frobenius_hypotheses_satisfiable :
    let n := 4%nat in let d := 1%nat in let s : vec Qc := fun _ => qz 2 in
    let Q : mat Qc := fun _ _ => qfrac 1 2 in let C : mat Qc := fun _ _ => fone in
    n <> 0%nat /\ (d <= n)%nat /\
    (forall i j, (i < n)%nat -> (j < n)%nat ->
        sumn n (fun t => seen_by_dense (iso_fixed n emb_G) i t * emb_Vf t j) = emb_Lf j * emb_Vf i j)%F /\
    (forall a b, (a < n)%nat -> (b < n)%nat -> sumn n (fun t => emb_Vf t a * emb_Vf t b) = delta a b)%F /\
    (forall a b, (a < n)%nat -> (b < n)%nat -> sumn n (fun m => emb_Vf a m * emb_Vf b m) = delta a b)%F /\
    (forall a b, (a <= b)%nat -> (b < n)%nat -> (emb_Lf a <= emb_Lf b)%Qc) /\
    (forall j, (j < d)%nat -> (0 <= sel_vals n d emb_Lf j)%Qc -> s j * s j = sel_vals n d emb_Lf j)%F /\
    (forall j, (j < d)%nat -> (sel_vals n d emb_Lf j < 0)%Qc -> s j = 0)%F /\
    (forall a b, (a < d)%nat -> (b < d)%nat -> sumn n (fun t => Q t a * Q t b) = delta a b)%F /\
    (forall x : vec Qc, (0 <= Mds_Proof_OptimalClamped.qf n (Mds_Proof_Optimal.lowrank d Q C) x)%Qc) /\
    (let Y := scale_cols (sel_cols n d emb_Vf) s in
     Mds_Proof_Optimal.fro2 n n (msub (mds_ref n emb_G) (mmul d Y (mtrans Y))) = qz 0) /\
    Mds_Proof_Optimal.fro2 n n (msub (mds_ref n emb_G) (Mds_Proof_Optimal.lowrank d Q C)) = qz 17.
Proof. exact isomap_frobenius_contract_satisfiable. Qed.

(* the concrete binary-heap configuration on the F4 witness graph (computed), and a heap-ordered vector *)
Example pq_concrete_hypotheses_satisfiable :
    full_matrix_pqc f4_nbrs f4_w 3 = DOk (sp_matrix f4_nbrs f4_w 3) /\
    landmark_matrix_pqc f4_nbrs f4_w 3 f4_lm = DOk (sp_landmarks f4_nbrs f4_w 3 f4_lm).
Proof. exact pqc_example. Qed.

(* a heap-ordered vector with ties (hypothesis of binary_heap_refines_queue), and what push / pop make of it *)
Example heap_hypotheses_satisfiable :
    heap_ord [(0%nat, 1); (1%nat, 3); (2%nat, 1); (3%nat, 3)] /\
    bh_push (4%nat, 0) [(0%nat, 1); (1%nat, 3); (2%nat, 1); (3%nat, 3)] =
      [(4%nat, 0); (0%nat, 1); (2%nat, 1); (3%nat, 3); (1%nat, 3)] /\
    bh_pop [(0%nat, 1); (1%nat, 3); (2%nat, 1); (3%nat, 3)] = [(2%nat, 1); (1%nat, 3); (3%nat, 3)].
Proof. exact heap_ord_example. Qed.

(* two threads, rows out of order, garbage in every array: the concrete priority-queue configuration (computed) *)
Example schedule_pq_concrete_hypotheses_satisfiable :
    full_matrix_sched_pqc f4_nbrs f4_w 3 1
                      (fun k => [Some 7; None; Some (-1)])
                      [[2; 0]; [1]]%nat
                      [mkT [true; true; false] [false; true; true] []; mkT [true; true; true] [true; true; true] []]
    = DOk (sp_matrix f4_nbrs f4_w 3).
Proof. exact schedule_pqc_example. Qed.

Example isomap_pipeline_hypotheses_satisfiable :
  wf_graph line3_nbrs 3 2 /\ nonneg_w line3_nbrs (table_w line3_sq) /\ (0 < 3)%nat /\
  exists B, embed_handed_pqc line3_nbrs (table_w line3_sq) 3 = Handed B.
Proof. exact pipeline_hypotheses_satisfiable. Qed.
