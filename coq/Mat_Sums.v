(* ====================================================================== *)
(*  Mat_Sums.v — abstract field + finite sums (shared matrix-algebra lib)  *)
(*                                                                         *)
(*  API (see also Mat_Core.v, Mat_Qc.v)                                    *)
(*  ---------------------------------------------------------------------  *)
(*  Classes                                                                *)
(*    FieldOps F   : fzero fone fadd fmul fsub fopp fdiv finv              *)
(*    IsField F    : Fth : field_theory fzero fone fadd ... (@eq F)        *)
(*  Notations (scope F_scope, delimiter %F):  0 1 + * - / (unary -)        *)
(*                                                                         *)
(*  How to start a file that uses the library:                             *)
(*      From TK Require Import Mat_Sums Mat_Core.                          *)
(*      Section MyTopic.                                                   *)
(*        Context {F : Type} {Fo : FieldOps F} {Ff : IsField F}.           *)
(*        Add Field MyTopicField : (@Fth F Fo Ff).                         *)
(*        Local Open Scope F_scope.                                        *)
(*        ... `ring` / `field` work on F; all lemmas below apply with no   *)
(*        explicit field arguments ...                                     *)
(*      End MyTopic.                                                       *)
(*  Closed instances: Mat_Qc.v (`QcOps`, `QcField`): a generic theorem     *)
(*  `foo` becomes closed by `Definition foo_Qc := @foo Qc _ _.`            *)
(*                                                                         *)
(*  Definitions                                                            *)
(*    of_nat n          n-fold 1 + ... + 1                                 *)
(*    two               1 + 1     (`ring` does not know other numerals)    *)
(*    sumn n f          f 0 + f 1 + ... + f (n-1)       (left fold)        *)
(*    delta i j         if i =? j then 1 else 0                            *)
(*    dot n x y         sumn n (fun t => x t * y t)                        *)
(*  Lemmas                                                                 *)
(*    sumn_ext sumn_zero sumn_zero' sumn_add sumn_sub sumn_opp             *)
(*    sumn_mul_l sumn_mul_r sumn_const sumn_swap sumn_split sumn_S_l       *)
(*    sumn_S sumn_delta_l sumn_delta_r sumn_delta_sub_l sumn_mul_sumn      *)
(*    sumn_single sumn_if_lt of_nat_S of_nat_add of_nat_mul of_nat_1       *)
(*    dot_comm dot_add_l dot_scale_l dot_ext                               *)
(*  Everything is axiom free.  No order on F is assumed (and none needed). *)
(* ====================================================================== *)

Require Import Field Ring Arith Lia List Bool.

Class FieldOps (F : Type) := {
  fzero : F; fone : F;
  fadd : F -> F -> F; fmul : F -> F -> F; fsub : F -> F -> F; fopp : F -> F;
  fdiv : F -> F -> F; finv : F -> F
}.

Class IsField (F : Type) {Fo : FieldOps F} := {
  Fth : field_theory fzero fone fadd fmul fsub fopp fdiv finv (@eq F)
}.

Declare Scope F_scope.
Delimit Scope F_scope with F.
Infix "+" := fadd : F_scope.
Infix "*" := fmul : F_scope.
Infix "-" := fsub : F_scope.
Infix "/" := fdiv : F_scope.
Notation "- x" := (fopp x) : F_scope.
Notation "/ x" := (finv x) : F_scope.
Notation "0" := fzero : F_scope.
Notation "1" := fone : F_scope.

Section Sums.
  Context {F : Type} {Fo : FieldOps F} {Ff : IsField F}.
  Add Field MatSumsField : (@Fth F Fo Ff).
  Local Open Scope F_scope.

  Definition two : F := 1 + 1.

  Fixpoint of_nat (n : nat) : F :=
    match n with O => 0 | S k => of_nat k + 1 end.

  Fixpoint sumn (n : nat) (f : nat -> F) : F :=
    match n with O => 0 | S k => sumn k f + f k end.

  Definition delta (i j : nat) : F := if Nat.eqb i j then 1 else 0.

  Definition dot (n : nat) (x y : nat -> F) : F := sumn n (fun t => x t * y t).

  (* ---------------- of_nat ---------------- *)
  Lemma of_nat_S n : of_nat (S n) = of_nat n + 1.
  Proof. reflexivity. Qed.

  Lemma of_nat_1 : of_nat 1 = 1.
  Proof. cbn [of_nat]. ring. Qed.

  Lemma of_nat_add n m : of_nat (n + m) = of_nat n + of_nat m.
  Proof.
    induction m as [|m IH].
    - rewrite Nat.add_0_r. cbn [of_nat]. ring.
    - rewrite Nat.add_succ_r. cbn [of_nat]. rewrite IH. ring.
  Qed.

  Lemma of_nat_mul n m : of_nat (n * m) = of_nat n * of_nat m.
  Proof.
    induction n as [|n IH].
    - cbn [of_nat Nat.mul]. ring.
    - cbn [Nat.mul]. rewrite of_nat_add, IH. cbn [of_nat]. ring.
  Qed.

  (* ---------------- sumn ---------------- *)
  Lemma sumn_S n f : sumn (S n) f = sumn n f + f n.
  Proof. reflexivity. Qed.

  Lemma sumn_ext n f g :
    (forall i, i < n -> f i = g i) -> sumn n f = sumn n g.
  Proof.
    induction n as [|n IH]; intros H; cbn [sumn]; [reflexivity|].
    rewrite IH by (intros; apply H; lia). rewrite H by lia. reflexivity.
  Qed.

  Lemma sumn_zero n : sumn n (fun _ => 0) = 0.
  Proof. induction n as [|n IH]; cbn [sumn]; [reflexivity|]. rewrite IH. ring. Qed.

  Lemma sumn_zero' n f : (forall i, i < n -> f i = 0) -> sumn n f = 0.
  Proof. intros H. rewrite (sumn_ext n f (fun _ => 0)) by exact H. apply sumn_zero. Qed.

  Lemma sumn_add n f g : sumn n (fun i => f i + g i) = sumn n f + sumn n g.
  Proof. induction n as [|n IH]; cbn [sumn]; [ring|]. rewrite IH. ring. Qed.

  Lemma sumn_sub n f g : sumn n (fun i => f i - g i) = sumn n f - sumn n g.
  Proof. induction n as [|n IH]; cbn [sumn]; [ring|]. rewrite IH. ring. Qed.

  Lemma sumn_opp n f : sumn n (fun i => - f i) = - sumn n f.
  Proof. induction n as [|n IH]; cbn [sumn]; [ring|]. rewrite IH. ring. Qed.

  Lemma sumn_mul_l n c f : sumn n (fun i => c * f i) = c * sumn n f.
  Proof. induction n as [|n IH]; cbn [sumn]; [ring|]. rewrite IH. ring. Qed.

  Lemma sumn_mul_r n c f : sumn n (fun i => f i * c) = sumn n f * c.
  Proof. induction n as [|n IH]; cbn [sumn]; [ring|]. rewrite IH. ring. Qed.

  Lemma sumn_const n c : sumn n (fun _ => c) = of_nat n * c.
  Proof. induction n as [|n IH]; cbn [sumn of_nat]; [ring|]. rewrite IH. ring. Qed.

  Lemma sumn_swap n m (f : nat -> nat -> F) :
    sumn n (fun i => sumn m (fun j => f i j)) =
    sumn m (fun j => sumn n (fun i => f i j)).
  Proof.
    induction n as [|n IH]; cbn [sumn].
    - symmetry. apply sumn_zero.
    - rewrite IH. rewrite <- sumn_add. reflexivity.
  Qed.

  Lemma sumn_split n m f :
    sumn (n + m) f = sumn n f + sumn m (fun i => f (n + i)%nat).
  Proof.
    induction m as [|m IH].
    - rewrite Nat.add_0_r. cbn [sumn]. ring.
    - rewrite Nat.add_succ_r. cbn [sumn]. rewrite IH. ring.
  Qed.

  (* index shift: peel the FIRST term *)
  Lemma sumn_S_l n f : sumn (S n) f = f 0%nat + sumn n (fun i => f (S i)).
  Proof.
    change (S n) with (1 + n)%nat. rewrite sumn_split. cbn [sumn Nat.add]. ring.
  Qed.

  Lemma sumn_single n i f :
    i < n -> (forall j, j < n -> j <> i -> f j = 0) -> sumn n f = f i.
  Proof.
    induction n as [|n IH]; intros Hi H; [lia|]. cbn [sumn].
    destruct (Nat.eq_dec i n) as [->|Hne].
    - rewrite sumn_zero' by (intros; apply H; lia). ring.
    - rewrite IH by (try lia; intros; apply H; lia).
      rewrite (H n) by lia. ring.
  Qed.

  Lemma delta_eq i : delta i i = 1.
  Proof. unfold delta. rewrite Nat.eqb_refl. reflexivity. Qed.

  Lemma delta_neq i j : i <> j -> delta i j = 0.
  Proof. unfold delta. intros H. apply Nat.eqb_neq in H. rewrite H. reflexivity. Qed.

  Lemma delta_sym i j : delta i j = delta j i.
  Proof. unfold delta. rewrite Nat.eqb_sym. reflexivity. Qed.

  Lemma sumn_delta_l n i f : i < n -> sumn n (fun j => delta i j * f j) = f i.
  Proof.
    intros Hi. rewrite (sumn_single n i) by
      (try assumption; intros j _ Hj; rewrite delta_neq by congruence; ring).
    rewrite delta_eq. ring.
  Qed.

  Lemma sumn_delta_r n i f : i < n -> sumn n (fun j => f j * delta j i) = f i.
  Proof.
    intros Hi. rewrite (sumn_single n i) by
      (try assumption; intros j _ Hj; rewrite delta_neq by congruence; ring).
    rewrite delta_eq. ring.
  Qed.

  (* the workhorse for centring: (delta - u) against a vector *)
  Lemma sumn_delta_sub_l n i u f :
    i < n -> sumn n (fun s => (delta i s - u) * f s) = f i - u * sumn n f.
  Proof.
    intros Hi.
    rewrite (sumn_ext n _ (fun s => delta i s * f s - u * f s)) by (intros; ring).
    rewrite sumn_sub, sumn_delta_l, sumn_mul_l by assumption. reflexivity.
  Qed.

  Lemma sumn_delta_sub_r n j u f :
    j < n -> sumn n (fun t => f t * (delta t j - u)) = f j - u * sumn n f.
  Proof.
    intros Hj.
    rewrite (sumn_ext n _ (fun t => f t * delta t j - u * f t)) by (intros; ring).
    rewrite sumn_sub, sumn_delta_r, sumn_mul_l by assumption. reflexivity.
  Qed.

  Lemma sumn_mul_sumn n m f g :
    sumn n f * sumn m g = sumn n (fun i => sumn m (fun j => f i * g j)).
  Proof.
    rewrite <- sumn_mul_r. apply sumn_ext. intros i _.
    rewrite sumn_mul_l. reflexivity.
  Qed.

  (* restrict a sum to a prefix by a guard *)
  Lemma sumn_if_lt n k f :
    k <= n -> sumn n (fun i => if Nat.ltb i k then f i else 0) = sumn k f.
  Proof.
    intros Hk. replace n with (k + (n - k))%nat by lia. rewrite sumn_split.
    rewrite (sumn_ext k _ f).
    2:{ intros i Hi. apply Nat.ltb_lt in Hi. rewrite Hi. reflexivity. }
    rewrite (sumn_zero' (n - k)).
    2:{ intros i _. cbv beta. destruct (Nat.ltb (k + i) k) eqn:E; [|reflexivity].
        apply Nat.ltb_lt in E. lia. }
    ring.
  Qed.

  (* ---------------- dot ---------------- *)
  Lemma dot_comm n x y : dot n x y = dot n y x.
  Proof. unfold dot. apply sumn_ext. intros; ring. Qed.

  Lemma dot_ext n x x' y y' :
    (forall i, i < n -> x i = x' i) -> (forall i, i < n -> y i = y' i) ->
    dot n x y = dot n x' y'.
  Proof. intros Hx Hy. unfold dot. apply sumn_ext. intros i Hi. rewrite Hx, Hy by assumption. reflexivity. Qed.

  Lemma dot_add_l n x x' y : dot n (fun i => x i + x' i) y = dot n x y + dot n x' y.
  Proof.
    unfold dot. rewrite <- sumn_add. apply sumn_ext. intros; ring.
  Qed.

  Lemma dot_sub_l n x x' y : dot n (fun i => x i - x' i) y = dot n x y - dot n x' y.
  Proof.
    unfold dot. rewrite <- sumn_sub. apply sumn_ext. intros; ring.
  Qed.

  Lemma dot_scale_l n c x y : dot n (fun i => c * x i) y = c * dot n x y.
  Proof.
    unfold dot. rewrite <- sumn_mul_l. apply sumn_ext. intros; ring.
  Qed.

End Sums.

Arguments sumn {F Fo} n f.
Arguments of_nat {F Fo} n.
Arguments delta {F Fo} i j.
Arguments dot {F Fo} n x y.
Arguments two {F Fo}.
