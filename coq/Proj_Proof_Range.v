(* ====================================================================== *)
(*  Proj_Proof_Range.v — C07, second layer (wave 2):                        *)
(*   (a) the iterator range [begin, end) is an arbitrary list of sample    *)
(*       ids: row k of the embedding belongs to sample ids[k], and the     *)
(*       returned function applied to THAT sample reproduces it;           *)
(*   (b) project() computed block by block (any consecutive blocks) is     *)
(*       project() — what a blocked / batched rewrite has to preserve;     *)
(*   (c) scale equivariance: mean, embedding and projection commute with   *)
(*       scaling the data by any s (no absolute threshold may appear       *)
(*       anywhere in the tail of embed()).                                 *)
(*  Generic over every field.                                              *)
(* ====================================================================== *)
Require Import Field Ring Arith Lia List Bool.
From TK Require Import Mat_Sums Mat_Core Proj_Model Proj_Spec Proj_Proof.
Import ListNotations.

Section ProjRange.
  Context {F : Type} {Fo : FieldOps F} {Ff : IsField F}.
  Add Field ProjRangeField : (@Fth F Fo Ff).
  Local Open Scope nat_scope.
  Local Open Scope F_scope.

  (* ---------------- (a) index ranges ---------------- *)
  Definition sample (Xall : list (list F)) (id : nat) : list F := nth id Xall [].

  Lemma gather_exec_ok (Xall : list (list F)) (ids : list nat) :
    Forall (fun id => id < length Xall) ids ->
    gather_exec Xall ids = POk (map (sample Xall) ids).
  Proof.
    induction ids as [|id r IH]; intros H; [reflexivity|].
    apply Forall_cons_iff in H. destruct H as [Hid Hr]. cbn [gather_exec map].
    destruct (nth_error Xall id) as [x|] eqn:E.
    - rewrite (IH Hr). f_equal. f_equal. symmetry. apply (nth_error_nth _ _ _ E).
    - apply nth_error_None in E. lia.
  Qed.

  (* an id outside the data set is reported, never replaced by a default vector *)
  Lemma gather_exec_inv (Xall : list (list F)) (ids : list nat) Xs :
    gather_exec Xall ids = POk Xs ->
    Forall (fun id => id < length Xall) ids /\ Xs = map (sample Xall) ids.
  Proof.
    revert Xs. induction ids as [|id r IH]; intros Xs H.
    - cbn [gather_exec] in H. inversion H. split; [constructor|reflexivity].
    - cbn [gather_exec] in H. destruct (nth_error Xall id) as [x|] eqn:E; [|discriminate].
      destruct (gather_exec Xall r) as [rows|a b c] eqn:E2; [|discriminate].
      inversion H; subst Xs; clear H. destruct (IH rows eq_refl) as [Hr Hrows].
      assert (Hid : id < length Xall) by (apply nth_error_Some; congruence).
      split; [constructor; assumption|]. cbn [map]. rewrite Hrows. f_equal.
      symmetry. apply (nth_error_nth _ _ _ E).
  Qed.

  Lemma gather_wf M D (Xall : list (list F)) (ids : list nat) :
    wf_mat M D Xall -> Forall (fun id => id < M) ids ->
    wf_mat (length ids) D (map (sample Xall) ids).
  Proof.
    intros [HM HD] Hids. split; [apply map_length|].
    apply Forall_forall. intros x Hx. apply in_map_iff in Hx. destruct Hx as [id [Ex Hin]].
    rewrite Forall_forall in Hids. specialize (Hids id Hin).
    rewrite Forall_forall in HD. subst x. apply HD. unfold sample. apply nth_In. lia.
  Qed.

  Lemma nth_map_sample (Xall : list (list F)) (ids : list nat) k :
    k < length ids -> nth k (map (sample Xall) ids) [] = sample Xall (nth k ids 0%nat).
  Proof.
    intros Hk. rewrite (nth_indep _ [] (sample Xall 0%nat)) by (rewrite map_length; assumption).
    apply map_nth.
  Qed.

  (* THE C07 core over an arbitrary range: row k of project(P, m, begin, end, ...) is
     P^T (x_{ids[k]} - m) and it is what the returned function computes on sample ids[k] *)
  Theorem project_range_row M D d (P : list (list F)) (m : list F)
          (Xall : list (list F)) (ids : list nat) (Y : list (list F)) :
    wf_mat D d P -> length m = D -> wf_mat M D Xall -> Forall (fun id => id < M) ids ->
    project_range D d P m Xall ids = POk Y ->
    length Y = length ids /\
    forall k, k < length ids ->
      mpi_project_exec D d P m (sample Xall (nth k ids 0%nat)) = POk (nth k Y []) /\
      nth k Y [] = vtab d (mpi_project D (mof P) (vof m) (mof Xall (nth k ids 0%nat))).
  Proof.
    intros HP Hm HX Hids HY. unfold project_range in HY.
    assert (Hids' : Forall (fun id => id < length Xall) ids) by (destruct HX as [HM _]; rewrite HM; assumption).
    rewrite (gather_exec_ok Xall ids Hids') in HY.
    pose proof (gather_wf M D Xall ids HX Hids) as HW.
    split.
    - rewrite (project_exec_ok _ D d P m _ HP Hm HW) in HY. inversion HY. unfold mtab. apply tab_length.
    - intros k Hk.
      destruct (embedding_row_is_projection _ D d P m _ Y HP Hm HW HY k Hk) as [H1 H2].
      rewrite nth_map_sample in H1 by assumption. split; [exact H1|].
      rewrite H2. unfold vtab. apply tab_ext. intros c _. unfold mpi_project. apply sumn_ext. intros t _.
      unfold mof at 2. rewrite nth_map_sample by assumption. reflexivity.
  Qed.

  (* a bad id makes project()/compute_mean fail visibly *)
  Theorem project_range_checked D d (P : list (list F)) (m : list F) (Xall : list (list F)) ids Y :
    project_range D d P m Xall ids = POk Y -> Forall (fun id => id < length Xall) ids.
  Proof.
    unfold project_range. destruct (gather_exec Xall ids) as [Xs|a b c] eqn:E; [|discriminate].
    intros _. apply (gather_exec_inv _ _ _ E).
  Qed.

  (* the tail of embed() over an arbitrary range *)
  Theorem projecting_embed_tail_range_ok M D d (P : list (list F)) (Xall : list (list F)) (ids : list nat) :
    wf_mat D d P -> wf_mat M D Xall -> Forall (fun id => id < M) ids ->
    let N := length ids in
    let Xs := map (sample Xall) ids in
    exists Y m,
      projecting_embed_tail_range D d P Xall ids = POk (Y, PFMatrix P m) /\
      m = vtab D (mean_vec N (mof Xs)) /\
      (of_nat N <> 0 -> output_consistent N D d (mof Xs) (mof Y) (mof P) (vof m)) /\
      forall k, k < N ->
        pf_apply D d (PFMatrix P m) (sample Xall (nth k ids 0%nat)) = Some (POk (nth k Y [])).
  Proof.
    intros HP HX Hids N Xs. unfold projecting_embed_tail_range.
    assert (Hids' : Forall (fun id => id < length Xall) ids) by (destruct HX as [HM _]; rewrite HM; assumption).
    rewrite (gather_exec_ok Xall ids Hids').
    pose proof (gather_wf M D Xall ids HX Hids) as HW.
    destruct (projecting_embed_tail_ok N D d P Xs HP HW) as [Y [m [H1 [H2 [_ [H4 H5]]]]]].
    exists Y, m. split; [exact H1|]. split; [exact H2|]. split; [exact H4|].
    intros k Hk. specialize (H5 k Hk). unfold Xs in H5. rewrite nth_map_sample in H5 by assumption.
    exact H5.
  Qed.

  (* ---------------- (b) blocks ---------------- *)
  Lemma project_rows_app D d (P : list (list F)) (m : list F) (A B : list (list F)) :
    project_rows D d P m (A ++ B) =
    match project_rows D d P m A with
    | PDim a b c => PDim a b c
    | POk ra => match project_rows D d P m B with
                | POk rb => POk (ra ++ rb)
                | PDim a b c => PDim a b c
                end
    end.
  Proof.
    induction A as [|x A IH]; cbn [app project_rows].
    - destruct (project_rows D d P m B); reflexivity.
    - destruct (negb (Nat.eqb (length x) D)); [reflexivity|]. rewrite IH.
      destruct (project_rows D d P m A) as [ra|a b c]; [|reflexivity].
      destruct (project_rows D d P m B) as [rb|a b c]; reflexivity.
  Qed.

  (* whatever the block sizes: the blocked loop IS the per-sample loop on the concatenation
     (in particular every sample of every block, the last one included, gets its row) *)
  Theorem project_blocks_ok D d (P : list (list F)) (m : list F) (blocks : list (list (list F))) :
    project_blocks D d P m blocks = project_rows D d P m (concat blocks).
  Proof.
    induction blocks as [|b r IH]; [reflexivity|].
    cbn [project_blocks concat]. rewrite project_rows_app, IH. reflexivity.
  Qed.

  Theorem project_blocks_rows N D d (P : list (list F)) (m : list F) (blocks : list (list (list F))) :
    wf_mat D d P -> length m = D -> wf_mat N D (concat blocks) ->
    project_blocks D d P m blocks =
    POk (mtab N d (project_mat D (mof P) (vof m) (mof (concat blocks)))).
  Proof.
    intros HP Hm HX. rewrite project_blocks_ok.
    pose proof (project_exec_ok N D d P m (concat blocks) HP Hm HX) as H.
    unfold project_exec in H. apply wf_matb_ok in HP. rewrite HP, Hm, Nat.eqb_refl in H. exact H.
  Qed.

  (* ---------------- (c) scale equivariance ---------------- *)
  Lemma div_scale (s a n : F) : (s * a) / n = s * (a / n).
  Proof. rewrite !(Fdiv_def (@Fth F Fo Ff)). ring. Qed.

  Theorem mean_vec_scale N (s : F) (X : mat F) t :
    mean_vec N (fun i u => s * X i u) t = s * mean_vec N X t.
  Proof. unfold mean_vec. rewrite sumn_mul_l. apply div_scale. Qed.

  Theorem mpi_project_scale D (P : mat F) (s : F) (m x : vec F) c :
    mpi_project D P (fun t => s * m t) (fun t => s * x t) c = s * mpi_project D P m x c.
  Proof.
    unfold mpi_project. rewrite <- sumn_mul_l. apply sumn_ext. intros t _. ring.
  Qed.

  Theorem mpi_project_scale_matrix D (P : mat F) (s : F) (m x : vec F) c :
    mpi_project D (fun t c => s * P t c) m x c = s * mpi_project D P m x c.
  Proof.
    unfold mpi_project. rewrite <- sumn_mul_l. apply sumn_ext. intros t _. ring.
  Qed.

  (* the whole tail at function level: scaling the data scales the embedding, with the SAME P *)
  Theorem embedding_scale N D (P : mat F) (s : F) (X : mat F) i c :
    project_mat D P (mean_vec N (fun i u => s * X i u)) (fun i u => s * X i u) i c =
    s * project_mat D P (mean_vec N X) X i c.
  Proof.
    unfold project_mat. rewrite <- sumn_mul_l. apply sumn_ext. intros t _.
    rewrite mean_vec_scale. ring.
  Qed.

  (* list level: the executed loops *)
  Lemma lscale_length s (l : list F) : length (lscale s l) = length l.
  Proof. apply map_length. Qed.

  Lemma vof_lscale s (l : list F) t : t < length l -> vof (lscale s l) t = s * vof l t.
  Proof.
    intros Ht. unfold vof, lscale. rewrite (nth_map_lt (fun a => s * a) l t 0 0) by assumption. reflexivity.
  Qed.

  Lemma mlscale_wf N D s (Xs : list (list F)) : wf_mat N D Xs -> wf_mat N D (mlscale s Xs).
  Proof.
    intros [HN HD]. split; [unfold mlscale; rewrite map_length; assumption|].
    apply Forall_forall. intros x Hx. unfold mlscale in Hx. apply in_map_iff in Hx.
    destruct Hx as [y [E Hy]]. subst x. rewrite lscale_length. rewrite Forall_forall in HD. apply HD. assumption.
  Qed.

  Lemma mof_mlscale N D s (Xs : list (list F)) i t :
    wf_mat N D Xs -> i < N -> t < D -> mof (mlscale s Xs) i t = s * mof Xs i t.
  Proof.
    intros [HN HD] Hi Ht. unfold mof, mlscale.
    rewrite (nth_indep _ [] (lscale s [])) by (rewrite map_length; lia).
    rewrite map_nth. fold (vof (lscale s (nth i Xs [])) t). fold (vof (nth i Xs []) t).
    apply vof_lscale. rewrite Forall_forall in HD. rewrite (HD (nth i Xs [])); [assumption|].
    apply nth_In. lia.
  Qed.

  Lemma lscale_map {A} s (f : A -> F) (l : list A) : lscale s (map f l) = map (fun j => s * f j) l.
  Proof. unfold lscale. apply map_map. Qed.

  Lemma lscale_vtab n s (x : vec F) : lscale s (vtab n x) = vtab n (fun t => s * x t).
  Proof. unfold lscale, vtab, tab. rewrite map_map. reflexivity. Qed.

  Theorem compute_mean_exec_scale N D s (Xs : list (list F)) m :
    wf_mat N D Xs -> compute_mean_exec D Xs = POk m ->
    compute_mean_exec D (mlscale s Xs) = POk (lscale s m).
  Proof.
    intros HX Hm. rewrite (compute_mean_exec_ok N D Xs HX) in Hm. inversion Hm; subst m; clear Hm.
    rewrite (compute_mean_exec_ok N D _ (mlscale_wf N D s Xs HX)). f_equal.
    rewrite lscale_vtab. apply vtab_ext. intros t Ht. unfold mean_vec.
    rewrite <- div_scale. f_equal. rewrite <- sumn_mul_l. apply sumn_ext. intros i Hi.
    apply (mof_mlscale N D); assumption.
  Qed.

  Theorem project_exec_scale N D d s (P : list (list F)) (m : list F) (Xs Y : list (list F)) :
    wf_mat D d P -> length m = D -> wf_mat N D Xs ->
    project_exec D d P m Xs = POk Y ->
    project_exec D d P (lscale s m) (mlscale s Xs) = POk (mlscale s Y).
  Proof.
    intros HP Hm HX HY. rewrite (project_exec_ok N D d P m Xs HP Hm HX) in HY.
    inversion HY; subst Y; clear HY.
    assert (Hm' : length (lscale s m) = D) by (rewrite lscale_length; assumption).
    rewrite (project_exec_ok N D d P _ _ HP Hm' (mlscale_wf N D s Xs HX)). f_equal.
    unfold mlscale at 2, mtab at 2, tab. rewrite map_map. unfold mtab, tab. apply map_ext_in.
    intros i Hi. apply in_seq in Hi. rewrite lscale_map. apply map_ext. intros c.
    unfold project_mat.
    rewrite <- sumn_mul_l. apply sumn_ext. intros t Ht.
    rewrite (mof_mlscale N D) by (assumption || lia). rewrite vof_lscale by lia. ring.
  Qed.

  (* the executed tail of embed(): data scaled by ANY s -> the same P, mean and embedding scaled by s,
     and the returned function applied to a scaled sample gives the scaled row *)
  Theorem projecting_embed_tail_scale N D d s (P Xs : list (list F)) :
    wf_mat D d P -> wf_mat N D Xs ->
    exists Y m,
      projecting_embed_tail D d P Xs = POk (Y, PFMatrix P m) /\
      projecting_embed_tail D d P (mlscale s Xs) = POk (mlscale s Y, PFMatrix P (lscale s m)) /\
      forall i, i < N ->
        pf_apply D d (PFMatrix P (lscale s m)) (lscale s (nth i Xs [])) = Some (POk (lscale s (nth i Y []))).
  Proof.
    intros HP HX.
    destruct (projecting_embed_tail_ok N D d P Xs HP HX) as [Y [m [H1 [H2 [H3 _]]]]].
    exists Y, m. split; [exact H1|].
    assert (Hmean : compute_mean_exec D Xs = POk m) by (rewrite H2; apply compute_mean_exec_ok; assumption).
    assert (Hm : length m = D) by (rewrite H2; apply tab_length).
    assert (Hproj : project_exec D d P m Xs = POk Y) by (rewrite H3; apply project_exec_ok; assumption).
    assert (Htail : projecting_embed_tail D d P (mlscale s Xs) = POk (mlscale s Y, PFMatrix P (lscale s m))).
    { unfold projecting_embed_tail.
      rewrite (compute_mean_exec_scale N D s Xs m HX Hmean).
      rewrite (project_exec_scale N D d s P m Xs Y HP Hm HX Hproj). reflexivity. }
    split; [exact Htail|].
    intros i Hi.
    destruct (projecting_embed_tail_ok N D d P (mlscale s Xs) HP (mlscale_wf N D s Xs HX))
      as [Y' [m' [H1' [_ [_ [_ H5']]]]]].
    rewrite Htail in H1'. inversion H1'; subst Y' m'; clear H1'.
    specialize (H5' i Hi).
    assert (E1 : nth i (mlscale s Xs) [] = lscale s (nth i Xs [])).
    { unfold mlscale. rewrite (nth_indep _ [] (lscale s [])) by (rewrite map_length; destruct HX; lia).
      apply map_nth. }
    assert (E2 : nth i (mlscale s Y) [] = lscale s (nth i Y [])).
    { assert (HYl : length Y = N) by (rewrite H3; unfold mtab; apply tab_length).
      unfold mlscale. rewrite (nth_indep _ [] (lscale s [])) by (rewrite map_length; lia).
      apply map_nth. }
    rewrite E1, E2 in H5'. exact H5'.
  Qed.

  (* packaged statements used by Properties_C07.v *)
  Theorem project_blockwise_all N D d (P : list (list F)) (m : list F) (blocks : list (list (list F))) :
    project_blocks D d P m blocks = project_rows D d P m (concat blocks) /\
    (wf_mat D d P -> length m = D -> wf_mat N D (concat blocks) ->
     project_blocks D d P m blocks = POk (mtab N d (project_mat D (mof P) (vof m) (mof (concat blocks))))).
  Proof.
    split; [apply project_blocks_ok|apply project_blocks_rows].
  Qed.

  Theorem scale_equivariant_all N D (P X : mat F) (s : F) (m x : vec F) :
    (forall t, mean_vec N (fun i u => s * X i u) t = s * mean_vec N X t) /\
    (forall c, mpi_project D P (fun t => s * m t) (fun t => s * x t) c = s * mpi_project D P m x c) /\
    (forall c, mpi_project D (fun t c => s * P t c) m x c = s * mpi_project D P m x c) /\
    (forall i c, project_mat D P (mean_vec N (fun i u => s * X i u)) (fun i u => s * X i u) i c =
                 s * project_mat D P (mean_vec N X) X i c).
  Proof.
    split; [exact (mean_vec_scale N s X)|].
    split; [exact (mpi_project_scale D P s m x)|]. split; [exact (mpi_project_scale_matrix D P s m x)|].
    exact (embedding_scale N D P s X).
  Qed.

End ProjRange.
