(* Par_Weight_Proof.v — property C15: the weight-matrix regions under EVERY schedule: no race, and the
   matrix assembled from the shared triplet container equals the single-threaded one (the sum over the
   blocks of all iterations), whatever the order in which the critical sections ran. *)
From Coq Require Import ZArith List String Bool Lia Arith Permutation.
Import ListNotations.
From TK Require Import Par_Model Par_Spec Par_Proof Par_Region_Model Par_Region_Proof Par_Fill_Model Par_Fill_Proof
  Par_Weight_Model.

Lemma crit_accs_ok : forall var, check_shared (crit_accs var) = true.
Proof.
  intros var. unfold check_shared, crit_accs, access_ok, same_var. cbn.
  rewrite String.eqb_refl. reflexivity.
Qed.

Section WeightProof.
  Variable cs : list Z.
  Variable T : nat -> list triplet.
  Notation body := (weight_body cs T).
  Notation run := (run key_eqb).

  Lemma within_wr_cols : forall (R W : key -> Prop) l k,
    within R W k -> within R W (wr_cols Z (list triplet) 0%Z l k).
  Proof. intros R W l k H. induction l as [|c l IH]; cbn; auto. Qed.

  Lemma within_rd_cols : forall (R W : key -> Prop) l k,
    within R W k -> within R W (rd_cols Z (list triplet) l k).
  Proof. intros R W l k H. induction l as [|c l IH]; cbn; auto. Qed.

  Lemma weight_body_within : forall (R W : key -> Prop) i, within R W (body i).
  Proof. intros. apply within_wr_cols, within_rd_cols. exact I. Qed.

  Lemma weight_body_reinit : forall i, reinit (fun _ => False) (body i).
  Proof.
    intros i. unfold weight_body.
    apply (proj2 (reinit_wr_cols Z (list triplet) 0%Z cs _ _)).
    apply (proj2 (reinit_rd_cols Z (list triplet) 0%Z cs _ _)).
    split; [intros c Hc; left; exists c; auto|exact I].
  Qed.

  (* the log an iteration produces when it runs alone *)
  Lemma run_wr_cols_log : forall t i l k (st : state key Z (list triplet)),
    exists st', run t i (wr_cols Z (list triplet) 0%Z l k) st = run t i k st' /\ clog st' = clog st.
  Proof.
    intros t i l. induction l as [|c l IH]; intros k st; cbn.
    - exists st. auto.
    - destruct (IH k (wr key_eqb t (Pr (ykey c)) 0%Z st)) as (st' & H1 & H2). exists st'. auto.
  Qed.

  Lemma run_rd_cols_log : forall t i l k (st : state key Z (list triplet)),
    clog (run t i (rd_cols Z (list triplet) l k) st) = clog (run t i k st).
  Proof. intros t i l. induction l as [|c l IH]; intros k st; cbn; auto. Qed.

  Lemma run_body_log : forall t i (st : state key Z (list triplet)),
    clog (run t i (body i) st) = (i, T i) :: clog st.
  Proof.
    intros t i st. unfold weight_body.
    destruct (run_wr_cols_log t i cs (rd_cols Z (list triplet) cs (Crit (T i) Ret)) st) as (st' & H1 & H2).
    rewrite H1, run_rd_cols_log. cbn. rewrite H2. reflexivity.
  Qed.

  Lemma seq_run_log : forall l (st : state key Z (list triplet)),
    clog (seq_run key_eqb body l st) = rev (map (fun i => (i, T i)) l) ++ clog st.
  Proof.
    induction l as [|i l IH]; intros st; cbn; [reflexivity|].
    rewrite IH, run_body_log, <- app_assoc. reflexivity.
  Qed.

  (* THE theorem: whatever the schedule, the assembled weight matrix is the single-threaded one, i.e. the
     sum over the blocks T 0 ... T (n-1) (exact arithmetic) *)
  Theorem weight_matrix_all_schedules : forall n asg (m0 : key -> Z) p0 sch qs st,
    valid_asg n asg ->
    run_sched key_eqb sch (init_queues body asg, mkState m0 p0 []) = (qs, st) ->
    ~ race qs /\
    (done qs -> forall r c,
       from_triplets (apply_log (clog st)) r c = from_triplets (List.concat (map T (seq 0 n))) r c).
  Proof.
    intros n asg m0 p0 sch qs st Hasg Hrun.
    destruct (region_bernstein Z (list triplet) (crit_accs "sparse_triplets") n body m0
                (crit_accs_ok _) (fun i _ => weight_body_within _ _ i) (fun i _ => weight_body_reinit i)
                asg p0 p0 sch qs st Hasg Hrun) as [Hnr Hfin].
    split; [exact Hnr|]. intros Hdone r c. destruct (Hfin Hdone) as [_ Hlog].
    rewrite (critical_order_irrelevant _ _ Hlog r c). f_equal.
    unfold apply_log. rewrite seq_run_log. cbn [clog]. rewrite app_nil_r, rev_involutive, map_map. reflexivity.
  Qed.
End WeightProof.
