(* Shapes_Proof_Rows.v -- C01, wave 4: the clause "row i of the returned matrix describes input sample i" for the
   landmark triangulation (routines/landmarks.hpp).  select_landmarks_random shuffles the sample indices, so the landmark
   embedding comes in SHUFFLED order; the scatter `embedding.row(landmarks[j]) = landmarks_embedding.first.row(j)` is
   what restores sample order.  Proved for every landmark list without repetitions (in particular every permutation of
   all samples: landmark_ratio = 1), every number of samples, every row type. *)
From Coq Require Import ZArith List Bool Lia String Arith PeanoNat.
From TK Require Import Shapes_Model Shapes_Src ShapesSrc Shapes_Proof_Tie.
Import ListNotations.

Lemma lm_pos_notin : forall i lm, ~ In i lm -> lm_pos i lm = None.
Proof.
  intros i lm. induction lm as [|x t IH]; intros H; cbn [lm_pos]; [reflexivity|].
  destruct (Nat.eqb x i) eqn:E.
  - apply Nat.eqb_eq in E. exfalso. apply H. left. exact E.
  - rewrite IH; [reflexivity|]. intro Hc. apply H. right. exact Hc.
Qed.

(* the scatter loop: afterwards a landmark sample holds its landmark row and is no longer to be processed; every other
   position is untouched *)
Lemma tri_scatter_spec : forall (A : Type) (dflt : A) lm le emb tp emb' tp',
  NoDup lm -> List.length le = List.length lm ->
  tri_scatter lm le emb tp = (emb', tp') ->
  forall i, match lm_pos i lm with
            | Some j => emb' i = nth j le dflt /\ tp' i = false
            | None => emb' i = emb i /\ tp' i = tp i
            end.
Proof.
  intros A dflt lm. induction lm as [|x t IH]; intros le emb tp emb' tp' ND HL HS i.
  - cbn [tri_scatter] in HS. inversion HS; subst. cbn [lm_pos]. split; reflexivity.
  - destruct le as [|r le']; [cbn in HL; discriminate|].
    cbn [tri_scatter] in HS. inversion ND as [|x' t' Hnotin ND']; subst.
    assert (HL' : List.length le' = List.length t) by (cbn in HL; lia).
    specialize (IH le' (fupd emb x r) (fupd tp x false) emb' tp' ND' HL' HS i).
    cbn [lm_pos]. destruct (Nat.eqb x i) eqn:E.
    + apply Nat.eqb_eq in E. subst i. rewrite (lm_pos_notin x t Hnotin) in IH.
      destruct IH as (I1 & I2). unfold fupd in I1, I2. rewrite Nat.eqb_refl in I1, I2. cbn [nth]. split; assumption.
    + destruct (lm_pos i t) as [j|] eqn:P; cbn [option_map].
      * cbn [nth]. exact IH.
      * destruct IH as (I1 & I2). unfold fupd in I1, I2.
        assert (E' : Nat.eqb i x = false) by (rewrite Nat.eqb_sym; exact E).
        rewrite E' in I1, I2. split; assumption.
Qed.

(* THE CLAUSE: row i of what triangulate() returns is the row of SAMPLE i, whatever order the landmarks come in *)
Theorem tri_rows_in_sample_order : forall (A : Type) (dflt : A) N lm le (tri : nat -> A),
  NoDup lm -> List.length le = List.length lm ->
  tri_rows N lm le tri dflt = map (sample_row lm le tri dflt) (List.seq 0%nat N).
Proof.
  intros A dflt N lm le tri ND HL. unfold tri_rows.
  destruct (tri_scatter lm le (fun _ => dflt) (fun _ => true)) as [emb tp] eqn:HS.
  apply map_ext. intros i.
  pose proof (tri_scatter_spec A dflt lm le _ _ emb tp ND HL HS i) as H.
  unfold sample_row. destruct (lm_pos i lm) as [j|].
  - destruct H as (H1 & H2). rewrite H2. exact H1.
  - destruct H as (H1 & H2). rewrite H2. reflexivity.
Qed.

Lemma lm_pos_nth : forall lm j, NoDup lm -> (j < List.length lm)%nat -> lm_pos (nth j lm O) lm = Some j.
Proof.
  induction lm as [|x t IH]; intros j ND Hj; [cbn in Hj; lia|].
  inversion ND as [|x' t' Hnotin ND']; subst. destruct j as [|j]; cbn [nth lm_pos].
  - rewrite Nat.eqb_refl. reflexivity.
  - cbn in Hj. destruct (Nat.eqb x (nth j t O)) eqn:E.
    + apply Nat.eqb_eq in E. exfalso. apply Hnotin. rewrite E. apply nth_In. lia.
    + rewrite IH; [reflexivity|exact ND'|lia].
Qed.

(* ... in particular: the coordinates of landmark number j land in row landmarks[j] (every permutation of the samples) *)
Corollary tri_rows_landmark_row : forall (A : Type) (dflt : A) N lm le (tri : nat -> A) j,
  NoDup lm -> List.length le = List.length lm -> (j < List.length lm)%nat -> (nth j lm O < N)%nat ->
  nth (nth j lm O) (tri_rows N lm le tri dflt) dflt = nth j le dflt.
Proof.
  intros A dflt N lm le tri j ND HL Hj HN. rewrite tri_rows_in_sample_order by assumption.
  set (i := nth j lm O) in *.
  rewrite nth_indep with (d' := sample_row lm le tri dflt O) by (rewrite map_length, seq_length; exact HN).
  rewrite map_nth. rewrite seq_nth by exact HN. cbn [plus]. unfold sample_row, i.
  rewrite lm_pos_nth by assumption. reflexivity.
Qed.

(* ... and a sample that is not a landmark gets its own triangulation *)
Corollary tri_rows_other_row : forall (A : Type) (dflt : A) N lm le (tri : nat -> A) i,
  NoDup lm -> List.length le = List.length lm -> (i < N)%nat -> ~ In i lm ->
  nth i (tri_rows N lm le tri dflt) dflt = tri i.
Proof.
  intros A dflt N lm le tri i ND HL HN Hnot. rewrite tri_rows_in_sample_order by assumption.
  rewrite nth_indep with (d' := sample_row lm le tri dflt O) by (rewrite map_length, seq_length; exact HN).
  rewrite map_nth. rewrite seq_nth by exact HN. cbn [plus]. unfold sample_row.
  rewrite lm_pos_notin by exact Hnot. reflexivity.
Qed.

(* as the SOURCE has it: every return statement of triangulate() returns the scattered matrix *)
Theorem tri_rows_src_in_sample_order : forall F, facts_agree F ->
  forall (A : Type) (dflt : A) (g : bool) (alt : list A) N lm le (tri : nat -> A),
  NoDup lm -> List.length le = List.length lm ->
  tri_rows_src F g alt N lm le tri dflt = map (sample_row lm le tri dflt) (List.seq 0%nat N).
Proof.
  intros F (_ & _ & _ & _ & _ & _ & _ & T5 & _) A dflt g alt N lm le tri ND HL.
  unfold tri_rows_src, tri_rows_ret, tri_returns_ok. rewrite T5. cbn [strs_eqb List.length Nat.eqb combine forallb fst snd andb negb].
  rewrite String.eqb_refl. cbn [andb negb]. apply tri_rows_in_sample_order; assumption.
Qed.

Corollary src_tri_rows_in_sample_order :
  forall (A : Type) (dflt : A) (g : bool) (alt : list A) N lm le (tri : nat -> A),
  NoDup lm -> List.length le = List.length lm ->
  tri_rows_src gen_facts g alt N lm le tri dflt = map (sample_row lm le tri dflt) (List.seq 0%nat N).
Proof. exact (tri_rows_src_in_sample_order gen_facts src_facts_tied). Qed.

(* a return statement that hands back the landmark embedding itself ("every sample is a landmark, nothing to
   triangulate"): two samples, landmarks shuffled to [1; 0] -- row 0 of the result is sample 1's row *)
Theorem tri_rows_early_return_refuted :
  exists (lm : list nat) (le : list Z),
    NoDup lm /\ List.length le = List.length lm /\ List.length lm = 2%nat /\
    tri_rows_ret false (Nat.eqb (List.length lm) 2%nat) le 2%nat lm le (fun _ => 0%Z) 0%Z
      <> map (sample_row lm le (fun _ => 0%Z) 0%Z) (List.seq 0%nat 2%nat).
Proof.
  exists [1; 0]%nat, [10; 20]%Z. repeat split.
  - constructor; [cbn; intros [H|[]]; discriminate|]. constructor; [cbn; intros []|constructor].
  - vm_compute. discriminate.
Qed.
