(* ====================================================================== *)
(*  Mds_Proof_Qc.v — C05 at Qc (ordered): the clamp sqrt(max(lambda,0)).   *)
(* ====================================================================== *)
Require Import Field Ring Arith Lia List Bool ZArith QArith Qcanon.
From TK Require Import Mat_Sums Mat_Core Mat_Qc Mat_EigSelect Mds_Model Mds_Spec Mds_Exec Mds_Proof Mds_Proof_Isomap Dijkstra_Spec
                       Mds_Proof_Solver.
Import ListNotations.
Local Open Scope nat_scope.

Lemma Qc_sq_zero (x : Qc) : (x * x = 0)%Qc -> x = Q2Qc 0.
Proof.
  intros H. destruct (Qc_eq_dec x (Q2Qc 0)) as [E|E]; [assumption|].
  exfalso. apply (Qcmult_integral_l x x) in H; [|exact E]. exact (E H).
Qed.

Lemma qmax0_nonneg x : (0 <= x)%Qc -> qmax0 x = x.
Proof. intros H. unfold qmax0. apply qleb_ok in H. rewrite H. reflexivity. Qed.

Lemma qmax0_neg x : ~ (0 <= x)%Qc -> qmax0 x = Q2Qc 0.
Proof.
  intros H. unfold qmax0. destruct (qleb (Q2Qc 0) x) eqn:E; [|reflexivity].
  exfalso. apply H. apply qleb_ok. exact E.
Qed.

(* With the clamp the property's clauses hold for the CLAMPED eigenvalues, for any solver
   answer meeting the contract, also when some retained eigenvalue is negative:
   Y^T Y = diag(max(lambda,0)),  B Y = Y diag(max(lambda,0)),
   Y Y^T = Vs diag(max(lambda,0)) Vs^T   (the positive semi-definite truncation). *)
Theorem sqrt_scaling_clamped_Qc n d (B Vs : mat Qc) (lam s : vec Qc) :
  eig_contract n d B Vs lam ->
  (forall c, c < d -> (s c * s c)%Qc = qmax0 (lam c)) ->
  let Y := scale_cols Vs s in
  factor_spec n d B Y (clamp0 lam) /\
  (forall i j, mmul d Y (mtrans Y) i j =
               mmul d (mmul d Vs (mdiag (clamp0 lam))) (mtrans Vs) i j).
Proof.
  intros HC Hs Y.
  destruct (@sqrt_scaling_gen Qc QcOps QcField n d B Vs lam (clamp0 lam) s HC Hs) as [H1 [H2 H3]].
  split; [split|]; [exact H1| |exact H3].
  intros i c Hi Hc. unfold Y. rewrite (H2 i c Hi Hc).
  rewrite !(@mmul_diag_r Qc QcOps QcField) by assumption.
  unfold clamp0. destruct (qleb (Q2Qc 0) (lam c)) eqn:Eq;
    [assert (Hle : (0 <= lam c)%Qc) by (apply qleb_ok; exact Eq)
    |assert (Hneg : ~ (0 <= lam c)%Qc) by (intros K; apply qleb_ok in K; rewrite K in Eq; discriminate)].
  - rewrite qmax0_nonneg by assumption. reflexivity.
  - rewrite qmax0_neg by assumption.
    assert (Hz : s c = Q2Qc 0).
    { apply Qc_sq_zero. rewrite (Hs c Hc). apply qmax0_neg. assumption. }
    change (scale_cols Vs s i c) with (Vs i c * s c)%F. rewrite Hz.
    cbn [fmul QcOps]. ring.
Qed.

(* for Euclidean input nothing is clamped: the exact-arithmetic recovery theorem applies to
   the clamped code as it stands *)
Theorem mds_recovers_euclidean_clamped_partial_Qc N d (V : mat Qc) (Lam s : vec Qc) (dist : mat Qc) :
  d <= N ->
  full_contract N (mds_matrix N dist) V Lam ->
  meq N N (mmul N V (mtrans V)) mI ->
  (forall t, t < N - d -> Lam t = Q2Qc 0) ->
  (forall c, c < d -> (0 <= Lam (N - d + c)%nat)%Qc) ->
  (forall c, c < d -> (s c * s c)%Qc = qmax0 (Lam (N - d + c)%nat)) ->
  (forall i, i < N -> dist i i = Q2Qc 0) ->
  let Y := scale_cols (select_cols N V (N - d, d)) s in
  forall i j, i < N -> j < N -> i <= j ->
    sqdist d Y i j = (dist i j * dist i j)%Qc.
Proof.
  intros Hd HC HVVt Hzero Hpos Hs Hdiag Y i j Hi Hj Hij.
  apply (@mds_recovers_euclidean_partial Qc QcOps QcField N d V Lam s dist Qc_two_neq0 Hd HC HVVt
           Hzero); try assumption.
  intros c Hc. cbn [fmul QcOps]. etransitivity; [exact (Hs c Hc)|]. apply qmax0_nonneg. apply Hpos. assumption.
Qed.

(* ---------------- closed instances and the executable functions ---------------- *)
Theorem center_is_JMJ_Qc (n : nat) (M : mat Qc) :
  n <> 0 -> msym n M -> meq n n (center_matrix n M) (double_center n M).
Proof.
  intros Hn HM. apply (@center_is_JMJ Qc QcOps QcField n M); [|assumption].
  apply Qc_of_nat_neq0. assumption.
Qed.

Section ExecOk.
  Context {F : Type} {Fo : FieldOps F} {Ff : IsField F}.
  Theorem exec_models_ok (n : nat) (L : list (list F)) :
    mds_matrix_exec n L = mtab n n (mds_matrix n (mof L)) /\
    kpca_matrix_exec n L = mtab n n (kpca_matrix n (mof L)) /\
    center_exec n L = mtab n n (center_matrix n (mof L)) /\
    isomap_matrix_exec n L = mtab n n (isomap_matrix n (mof L)).
  Proof.
    split; [apply mds_matrix_exec_ok|split; [apply kpca_matrix_exec_ok|split; [apply center_exec_ok|]]].
    unfold isomap_matrix_exec. rewrite center_exec_ok. apply mtab_ext. intros i j Hi Hj.
    rewrite mof_mtab by assumption. unfold isomap_matrix. f_equal.
    apply center_matrix_meq; try assumption. apply mof_mtab_meq.
  Qed.
End ExecOk.

(* the executable "mathematical object" is J M J, literally by matrix products *)
Theorem jmj_exec_ok (n : nat) (L : list (list Qc)) :
  jmj_exec n L = mtab n n (double_center n (mof L)).
Proof.
  unfold jmj_exec, double_center. apply mtab_ext. intros i j Hi Hj.
  apply (@mmul_ext_r Qc QcOps). intros t Ht. apply (@mof_mtab Qc QcOps); assumption.
Qed.

Theorem spec_mds_exec_ok (n : nat) (L : list (list Qc)) :
  spec_mds_exec n L =
    mtab n n (mscale neg_half (double_center n (fun i j => (mof L i j * mof L i j)%Qc))).
Proof.
  unfold spec_mds_exec. rewrite jmj_exec_ok. apply mtab_ext. intros i j Hi Hj.
  rewrite (@mof_mtab Qc QcOps) by assumption. unfold mscale, neg_half.
  rewrite (double_center_meq n _ (fun i j => (mof L i j * mof L i j)%Qc)
             (mof_mtab_meq n n _) i j Hi Hj).
  cbn [fmul fopp fdiv fone QcOps]. ring.
Qed.

(* the boolean decision procedures decide the Prop-level specifications *)
Theorem factor_spec_tol_b_ok n d tol (B Y : list (list Qc)) (lam : list Qc) :
  factor_spec_tol_b n d tol B Y lam = Some true ->
  factor_spec_tol n d tol (mof B) (mof Y) (vof lam).
Proof.
  unfold factor_spec_tol_b, factor_spec_tol.
  destruct (wf_matb n n B && wf_matb n d Y && Nat.eqb (length lam) d); [|discriminate].
  intros H. injection H as H. apply andb_true_iff in H. destruct H as [H1 H2].
  apply within_b_ok in H1. apply within_b_ok in H2. split; [exact H1|].
  intros i c Hi Hc. specialize (H2 i c Hi Hc).
  rewrite (@mof_mtab Qc QcOps) in H2 by assumption. exact H2.
Qed.

Lemma within_zero_eq n m (A B : mat Qc) : within n m (Q2Qc 0) A B -> meq n m A B.
Proof.
  intros H i j Hi Hj. specialize (H i j Hi Hj).
  unfold qabs in H. destruct (qleb (Q2Qc 0) (A i j - B i j)%Qc) eqn:E.
  - apply qleb_ok in E.
    assert (K : (A i j - B i j = 0)%Qc) by (apply Qcle_antisym; assumption).
    apply (f_equal (fun x => (x + B i j)%Qc)) in K. ring_simplify in K. exact K.
  - assert (E' : ~ (0 <= A i j - B i j)%Qc) by (intros K; apply qleb_ok in K; rewrite K in E; discriminate).
    exfalso. apply E'. apply Qcopp_le_compat in H. rewrite Qcopp_involutive in H. exact H.
Qed.

(* tolerance 0: the procedure decides factor_spec itself *)
Theorem factor_spec_exact_b_ok n d (B Y : list (list Qc)) (lam : list Qc) :
  factor_spec_tol_b n d (Q2Qc 0) B Y lam = Some true ->
  factor_spec n d (mof B) (mof Y) (vof lam).
Proof.
  intros H. apply factor_spec_tol_b_ok in H. destruct H as [H1 H2].
  split; apply within_zero_eq; assumption.
Qed.

Theorem dist_reproduced_tol_b_ok n d tol (Y D2 : list (list Qc)) :
  dist_reproduced_tol_b n d tol Y D2 = Some true ->
  within n n tol (sqdist d (mof Y)) (mof D2).
Proof.
  unfold dist_reproduced_tol_b. destruct (wf_matb n d Y && wf_matb n n D2); [|discriminate].
  intros H. injection H as H. apply within_b_ok. exact H.
Qed.

Theorem spec_exec_ok (n : nat) (L : list (list Qc)) :
  Mds_Exec.c05_spec_kpca n L = mtab n n (double_center n (mof L)) /\
  Mds_Exec.c05_spec_mds n L =
    mtab n n (mscale neg_half (double_center n (fun i j => (mof L i j * mof L i j)%Qc))).
Proof. split; [exact (jmj_exec_ok n L)|exact (spec_mds_exec_ok n L)]. Qed.

(* isomap_k_full at Qc with the integer weights embedded by qz *)
Theorem isomap_k_full_Qc nbrs (w : nat -> nat -> Z) N (G : mat Qc) :
  complete_graph nbrs N ->
  Dijkstra_Spec.metric_w w N ->
  (forall i j, i < N -> j < N -> w i j = w j i) ->
  (forall i j, i < N -> j < N ->
     exists o, Dijkstra_Spec.is_sp nbrs w i j o /\
               match o with Some g => G i j = qz g | None => False end) ->
  meq N N (isomap_matrix N G) (mds_matrix N (fun i j => qz (w i j))).
Proof.
  intros Hc Hm Hs HG.
  exact (@isomap_k_full Qc QcOps QcField qz nbrs w N G Qc_two_neq0 Hc Hm Hs HG).
Qed.

(* ---------------- non-vacuity witness for the optimality theorems ---------------- *)
From TK Require Import Spectral_KyFan Mds_Proof_Optimal.
Definition exo_B : mat Qc := mof [[qfrac 36 25; qfrac 48 25]; [qfrac 48 25; qfrac 64 25]].
Definition exo_V : mat Qc := mof [[qfrac 4 5; qfrac 3 5]; [qfrac (-3) 5; qfrac 4 5]].
Definition exo_lam : vec Qc := vof [qz 0; qz 4].
Definition exo_Q : mat Qc := mof [[qfrac 3 5]; [qfrac 4 5]].
Definition exo_s : vec Qc := vof [qz 2].
Lemma exo_ok :
  msym 2 exo_B /\
  meq 2 2 (mmul 2 (mtrans exo_V) exo_V) mI /\
  meq 2 2 (mmul 2 exo_V (mtrans exo_V)) mI /\
  meq 2 2 (mmul 2 exo_B exo_V) (mmul 2 exo_V (mdiag exo_lam)) /\
  Spectral_KyFan.ascending 2 exo_lam /\
  (forall t, t < 2 -> fle 0%F (exo_lam t)) /\
  (forall c, c < 1 -> (exo_s c * exo_s c)%F = exo_lam (2 - 1 + c)%nat) /\
  meq 1 1 (mmul 2 (mtrans exo_Q) exo_Q) mI.
Proof.
  split.
  { intros i j Hi Hj. destruct i as [|[|i]]; destruct j as [|[|j]]; try lia; reflexivity. }
  split; [apply meq_by_compute; vm_compute; reflexivity|].
  split; [apply meq_by_compute; vm_compute; reflexivity|].
  split; [apply meq_by_compute; vm_compute; reflexivity|].
  split.
  { intros a b Hab Hb. destruct a as [|[|a]]; destruct b as [|[|b]]; try lia;
      cbn [fle QcOrdered]; unfold Qcle; vm_compute; discriminate. }
  split.
  { intros t Ht. destruct t as [|[|t]]; try lia; cbn [fle QcOrdered]; unfold Qcle; vm_compute; discriminate. }
  split.
  { intros c Hc. assert (c = 0) by lia. subst. apply Qc_is_canon. vm_compute. reflexivity. }
  apply meq_by_compute. vm_compute. reflexivity.
Qed.
