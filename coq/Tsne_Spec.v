(* Tsne_Spec.v — what property C17 says, against the mathematical objects, and the
   boolean decision procedures the check runs on the implementation's own outputs.

   Dense (abstract field F, Mat_Sums):
     centred N D X        every coordinate of X sums to zero over the N samples
     true_sqdist D X n m  |x_n - x_m|^2
     is_joint N P         P symmetric on the N x N box and its entries sum to one
     grad_spec N D P Y    dC_n = sum_{m<>n} (p_nm - q_nm) w_nm (y_n - y_m),
                          w_nm = 1/(1+|y_n-y_m|^2), q_nm = w_nm / sum_{k<>l} w_kl
                          (the published closed form of 1/4 grad KL(P||Q))
   Perplexity (Q, oracles): entropy_within — the accepted row's H is within tol of
     log(perplexity).
   Neighbours: Knn_Spec.is_knn (shared with C02) against the TRUE metric; nth_ok is the
     contract of std::nth_element used by the build oracle.
   Sparse symmetrisation: wf_csr, lookup, sym_spec (the result is a well-formed CSR with
     distinct columns per row whose entry (r, x) is half of P(r,x)+P(x,r), present exactly
     when P(r,x) or P(x,r) is), and its decision procedure sym_spec_b for V = Q. *)
From Coq Require Import List Arith Bool ZArith QArith Permutation Lia.
From TK Require Import Mat_Sums Knn_Spec Tsne_Model Tsne_Vp_Model Tsne_Sym_Model.
Import ListNotations.

(* ====================================================================== *)
Section DenseSpec.
  Context {F : Type} {Fo : FieldOps F} {Ff : IsField F}.
  Local Open Scope F_scope.

  Definition centred (N D : nat) (X : buf) : Prop :=
    forall d, (d < D)%nat -> sumn N (fun n => X n d) = 0.

  Definition true_sqdist (D : nat) (X : buf) : buf :=
    fun n m => sumn D (fun d => (X n d - X m d) * (X n d - X m d)).

  Definition is_joint (N : nat) (P : buf) : Prop :=
    (forall n m, (n < N)%nat -> (m < N)%nat -> P n m = P m n) /\ total N P = 1.

  Definition w_t (D : nat) (Y : buf) (n m : nat) : F := 1 / (1 + true_sqdist D Y n m).
  Definition Z_t (N D : nat) (Y : buf) : F :=
    sumn N (fun k => sumn N (fun l => if Nat.eqb k l then 0 else w_t D Y k l)).
  Definition q_t (N D : nat) (Y : buf) (n m : nat) : F := w_t D Y n m / Z_t N D Y.
  Definition grad_spec (N D : nat) (P Y : buf) : buf :=
    fun n d => sumn N (fun m =>
      if Nat.eqb n m then 0
      else (P n m - q_t N D Y n m) * w_t D Y n m * (Y n d - Y m d)).
End DenseSpec.

(* ====================================================================== *)
Local Open Scope Q_scope.

Definition Qabs_lt (x t : Q) : Prop := x < t /\ - x < t.

Definition entropy_within (logf : Q -> Q) (tol perplexity : Q) (ev : evalr) : Prop :=
  Qabs_lt (e_H ev - logf perplexity) tol.

(* all entries of a max-normalised list are at most 1 and 1 is attained *)
Definition max_normalised (l : list Q) : Prop :=
  (forall x, In x l -> x <= 1) /\ exists x, In x l /\ x == 1.

(* ====================================================================== *)
(* contract of std::nth_element(_items+lower+1, _items+median, _items+upper,
   DistanceComparator(_items[lower])) with m = median - (lower+1) *)
Local Open Scope Z_scope.
Definition nth_ok (d : dist) (vp : Z) (m : nat) (orig res : list Z) : Prop :=
  Permutation orig res /\
  match skipn m res with
  | [] => True
  | p :: after =>
      (forall x, In x (firstn m res) -> d vp x <= d vp p) /\
      (forall y, In y after -> d vp p <= d vp y)
  end.
Local Close Scope Z_scope.

(* ====================================================================== *)
Section SymSpec.
  Variable V : Type.
  Variable vadd : V -> V -> V.
  Variable vhalf : V -> V.

  Definition rowp (p : csr V) (n : nat) : nat := nth n (row_P p) 0%nat.
  Definition seg {T} (p : csr V) (l : list T) (n : nat) : list T :=
    firstn (rowp p (n + 1) - rowp p n) (skipn (rowp p n) l).
  Definition row_cols (p : csr V) (n : nat) : list nat := seg p (col_P p) n.
  Definition row_vals (p : csr V) (n : nat) : list V := seg p (val_P p) n.
  Definition row_entries (p : csr V) (n : nat) : list (nat * V) :=
    combine (row_cols p n) (row_vals p n).

  Definition wf_csr (N : nat) (p : csr V) : Prop :=
    length (row_P p) = (N + 1)%nat /\
    rowp p 0 = 0%nat /\
    (forall n, (n < N)%nat -> (rowp p n <= rowp p (n + 1))%nat) /\
    rowp p N = length (col_P p) /\
    length (val_P p) = length (col_P p) /\
    (forall c, In c (col_P p) -> (c < N)%nat) /\
    (forall n, (n < N)%nat -> NoDup (row_cols p n)).

  Definition lookup (p : csr V) (n c : nat) : option V :=
    option_map snd (find (fun e => Nat.eqb (fst e) c) (row_entries p n)).

  (* what entry (r, x) of the symmetrised matrix has to be; the operands of the sum are
     in the order the code adds them (row index <= column index first) *)
  Definition sym_entry (p : csr V) (r x : nat) : option V :=
    match lookup p r x, lookup p x r with
    | Some a, Some b => Some (vhalf (if (r <=? x)%nat then vadd a b else vadd b a))
    | Some a, None => Some (vhalf a)
    | None, Some b => Some (vhalf b)
    | None, None => None
    end.

  Definition sym_spec (N : nat) (p s : csr V) : Prop :=
    wf_csr N s /\
    forall r x, (r < N)%nat -> (x < N)%nat -> lookup s r x = sym_entry p r x.
End SymSpec.

Arguments rowp {V} p n.
Arguments row_cols {V} p n.
Arguments row_vals {V} p n.
Arguments row_entries {V} p n.
Arguments wf_csr {V} N p.
Arguments lookup {V} p n c.
Arguments sym_entry {V} vadd vhalf p r x.
Arguments sym_spec {V} vadd vhalf N p s.

(* ---------- decision procedures (V = Q, values compared with Qeq) ---------- *)
Fixpoint nat_nodup_b (l : list nat) : bool :=
  match l with [] => true | x :: r => negb (existsb (Nat.eqb x) r) && nat_nodup_b r end.

Definition wf_csr_b {V} (N : nat) (p : csr V) : bool :=
  Nat.eqb (length (row_P p)) (N + 1) &&
  Nat.eqb (rowp p 0) 0 &&
  forallb (fun n => rowp p n <=? rowp p (n + 1))%nat (seq 0 N) &&
  Nat.eqb (rowp p N) (length (col_P p)) &&
  Nat.eqb (length (val_P p)) (length (col_P p)) &&
  forallb (fun c => c <? N)%nat (col_P p) &&
  forallb (fun n => nat_nodup_b (row_cols p n)) (seq 0 N).

Definition oq_eqb (a b : option Q) : bool :=
  match a, b with
  | Some x, Some y => Qeq_bool x y
  | None, None => true
  | _, _ => false
  end.

Definition qhalf (x : Q) : Q := Qred (x / 2).

Definition sym_spec_b (N : nat) (p s : csr Q) : bool :=
  wf_csr_b N s &&
  forallb (fun r => forallb (fun x =>
     oq_eqb (lookup s r x) (sym_entry Qplus qhalf p r x)) (seq 0 N)) (seq 0 N).
