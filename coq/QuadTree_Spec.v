(* QuadTree_Spec.v — what property C18 says, against the mathematical objects
   (index lists, exact sums), and boolean decision procedures for it.

   "Routed" is the reading of "each cell's mass and centre of mass equal the count
   and mean of the points inside its box" that is satisfiable for points lying on
   an edge shared by two closed boxes: the inserted indices are partitioned down
   the tree (each index is assigned to exactly one root-to-leaf path), every cell
   on the path contains the point, every cell's cum is the number of indices routed
   through it and cum * com their coordinate sum, and all indices that end in a
   leaf coincide with the index the leaf stores.  Which of several admissible
   children takes an edge point is NOT part of the specification (tie-breaking is
   free); neither is the geometry of the children nor the ghost multiplicity. *)
From Coq Require Import List Arith Bool ZArith QArith Permutation.
From TK Require Import QuadTree_Model.
Import ListNotations.
Local Open Scope Q_scope.

Definition pt_eq (p q : pt) : Prop := fst p == fst q /\ snd p == snd q.

(* indices i and j denote coincident points of data (both must be valid) *)
Definition coinc (data : list pt) (i j : nat) : Prop :=
  exists pi pj, nth_error data i = Some pi /\ nth_error data j = Some pj /\ pt_eq pi pj.

(* index i is valid and its point lies in the closed box c *)
Definition inside (data : list pt) (c : cell) (i : nat) : Prop :=
  exists p, nth_error data i = Some p /\ contains c p = true.

Definition pt_at (data : list pt) (i : nat) : pt := nth i data (0, 0).

Fixpoint sumx (data : list pt) (l : list nat) : Q :=
  match l with [] => 0 | i :: r => fst (pt_at data i) + sumx data r end.
Fixpoint sumy (data : list pt) (l : list nat) : Q :=
  match l with [] => 0 | i :: r => snd (pt_at data i) + sumy data r end.

(* cum is the count and com the mean of the points with indices l
   (stated without division; `agg_ok_mean` in QuadTree_Proof gives com == sum / cum) *)
Definition agg_ok (data : list pt) (l : list nat) (cum : nat) (com : pt) : Prop :=
  cum = length l /\ Qn cum * fst com == sumx data l /\ Qn cum * snd com == sumy data l.

Inductive Routed (data : list pt) : list nat -> qt -> Prop :=
| R_empty c com : Routed data [] (Leaf c None 0 com)
| R_leaf c j cnt cum com l :
    l <> [] ->
    (forall i, In i l -> coinc data i j) ->          (* stored, or absorbed by a coincident stored one *)
    (forall i, In i l -> inside data c i) ->
    agg_ok data l cum com ->
    Routed data l (Leaf c (Some (j, cnt)) cum com)
| R_node c cum com nw ne sw se l l1 l2 l3 l4 :
    Permutation l (l1 ++ l2 ++ l3 ++ l4) ->
    Routed data l1 nw -> Routed data l2 ne -> Routed data l3 sw -> Routed data l4 se ->
    (forall i, In i l -> inside data c i) ->
    agg_ok data l cum com ->
    Routed data l (Node c cum com nw ne sw se).

(* pairwise non-coincident (in particular pairwise distinct when the indices are valid) *)
Definition noncoinc_list (data : list pt) (s : list nat) : Prop :=
  ForallOrdPairs (fun a b => ~ coinc data a b) s.

(* The structural part of C18 for a tree t built from the index sequence ins *)
Definition spec (data : list pt) (ins : list nat) (t : qt) : Prop :=
  (exists l, Permutation ins l /\ Routed data l t) /\
  incl (all_indices t) ins /\
  noncoinc_list data (all_indices t).

(* no two inserted indices coincide (the hypothesis of the force clauses) *)
Definition NoCo (data : list pt) (l : list nat) : Prop :=
  NoDup l /\ forall a b, In a l -> In b l -> coinc data a b -> a = b.

(* ---------- exact all-pairs Student-t sums ---------- *)

Definition qij (p q : pt) : Q := 1 / (1 + sqdist p q).

Definition feq (a b : facc) : Prop :=
  fst (fst a) == fst (fst b) /\ snd (fst a) == snd (fst b) /\ snd a == snd b.
Definition fadd (a b : facc) : facc :=
  (fst (fst a) + fst (fst b), snd (fst a) + snd (fst b), snd a + snd b).

(* sum over j in l, j <> i, of (q^2 (p - y_j), q) with q = 1/(1 + |p - y_j|^2) *)
Fixpoint exact_sums (data : list pt) (p : pt) (i : nat) (l : list nat) : facc :=
  match l with
  | [] => (0, 0, 0)
  | j :: r =>
    if (j =? i)%nat then exact_sums data p i r
    else
      let pj := pt_at data j in
      let q := qij p pj in
      fadd (q * q * (fst p - fst pj), q * q * (snd p - snd pj), q) (exact_sums data p i r)
  end.

(* ---------- boolean decision procedure for `spec` (runs on the dump of the real tree) ---------- *)

Definition coincb (data : list pt) (i j : nat) : bool :=
  match nth_error data i, nth_error data j with
  | Some a, Some b => pt_eqb a b
  | _, _ => false
  end.

Definition insideb (data : list pt) (c : cell) (i : nat) : bool :=
  match nth_error data i with Some p => contains c p | None => false end.

(* the inserted indices a cell answers for: those coinciding with an index stored below it *)
Fixpoint assigned (data : list pt) (ins : list nat) (t : qt) : list nat :=
  match t with
  | Leaf _ None _ _ => []
  | Leaf _ (Some (j, _)) _ _ => filter (fun i => coincb data i j) ins
  | Node _ _ _ nw ne sw se =>
    assigned data ins nw ++ assigned data ins ne ++ assigned data ins sw ++ assigned data ins se
  end.

Definition agg_okb (data : list pt) (l : list nat) (cum : nat) (com : pt) : bool :=
  (cum =? length l)%nat && Qeq_bool (Qn cum * fst com) (sumx data l)
  && Qeq_bool (Qn cum * snd com) (sumy data l).

Fixpoint cells_okb (data : list pt) (ins : list nat) (t : qt) : bool :=
  match t with
  | Leaf _ None cum _ => (cum =? 0)%nat
  | Leaf c (Some (j, _)) cum com =>
    let l := assigned data ins t in
    negb (match l with [] => true | _ => false end)
    && forallb (insideb data c) l && agg_okb data l cum com
  | Node c cum com nw ne sw se =>
    let l := assigned data ins t in
    forallb (insideb data c) l && agg_okb data l cum com
    && cells_okb data ins nw && cells_okb data ins ne && cells_okb data ins sw && cells_okb data ins se
  end.

Fixpoint pairwiseb (f : nat -> nat -> bool) (s : list nat) : bool :=
  match s with
  | [] => true
  | a :: r => forallb (fun b => f a b) r && pairwiseb f r
  end.

Definition spec_okb (data : list pt) (ins : list nat) (t : qt) : bool :=
  let s := all_indices t in
  forallb (fun i => (length (filter (fun j => coincb data i j) s) =? 1)%nat) ins
  && cells_okb data ins t
  && forallb (fun j => existsb (Nat.eqb j) ins) s
  && pairwiseb (fun a b => negb (coincb data a b)) s.

(* all-pairs sums, executable (same function; `pt_at` is total) *)
Definition exact_sums_red (data : list pt) (p : pt) (i : nat) (l : list nat) : facc :=
  let '(a, b, c) := exact_sums data p i l in (Qred a, Qred b, Qred c).
