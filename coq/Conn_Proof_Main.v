(* Conn_Proof_Main.v — the statements of Properties_C03.v, assembled. *)
From Coq Require Import List Arith Bool ZArith Lia Permutation.
From TK Require Import Conn_Model Conn_Spec Conn_Proof_Graph Conn_Proof_Dfs
     Conn_Proof_Strong Conn_Proof_Warshall Conn_Proof.
Import ListNotations.

Lemma decides_to_iff : forall (r : cres bool) (P : Prop),
  (exists b, r = COk b /\ (b = true <-> P)) ->
  (exists b, r = COk b) /\ (r = COk true <-> P).
Proof.
  intros r P [b [E H]]. split; [eauto|]. rewrite E. split.
  - intros Hb. inversion Hb; subst. apply H; auto.
  - intros HP. f_equal. apply H; auto.
Qed.

(* ---------------- shipped code: what it decides *)
Lemma main_dfs_sound_complete : forall N nb, 0 < N -> wf_graph N nb -> uniform nb ->
  (exists b, is_connected N nb = COk b) /\
  (is_connected N nb = COk true <-> forall j, j < N -> reach nb 0 j).
Proof.
  intros N nb HN Hwf Hu. apply decides_to_iff. apply is_connected_correct; auto.
Qed.

(* ---------------- shipped code: refutations *)
Lemma main_cc_strong_refuted :
  exists N k pts nb i j,
    NoDup pts /\ is_knn_graph (pdist pts) N k nb /\ wf_graph N nb /\ uniform nb /\
    i < N /\ j < N /\ is_connected N nb = COk true /\ ~ reach nb i j.
Proof.
  exists 3, 1, w3_pts, w3, 1, 0.
  destruct w3_refutes as [H1 [H2 [H3 H4]]].
  split.
  { unfold w3_pts. repeat constructor; cbn; intuition congruence. }
  split; [rewrite w3_is_knn; apply w3_knn_exact; lia|].
  split; [exact H2|]. split; [exact H3|]. split; [lia|]. split; [lia|].
  split; [exact H1|exact H4].
Qed.

Lemma main_cc_order_refuted :
  exists N nb p, wf_graph N nb /\ uniform nb /\ is_perm N p /\
    is_connected N nb = COk true /\ is_connected N (relabel p nb) = COk false.
Proof.
  exists 3, w3, [2; 1; 0].
  destruct w3_refutes as [_ [H2 [H3 _]]]. destruct w3_order as [Hp [Ha Hb]].
  split; [exact H2|]. split; [exact H3|]. split; [exact Hp|]. split; [exact Ha|exact Hb].
Qed.

Lemma main_fn_shipped_refuted :
  exists pts k,
    let N := length pts in
    let knn := knn_brute pts in
    NoDup pts /\ 3 <= k /\
    (forall k', k' <= N - 1 -> is_knn_graph (pdist pts) N k' (knn k')) /\
    exists g i j, find_neighbors is_connected knn N N k true = COk (k, g) /\
      i < N /\ j < N /\ ~ reach g i j /\
      (forall w d, is_geodesic g w i j d -> d = None) /\
      (* the same samples in reversed order get twice as many neighbours *)
      exists p, is_perm N p /\
        find_neighbors is_connected (fun k' => relabel p (knn k')) N N k true
        = COk (2 * k, relabel p (knn (2 * k))).
Proof.
  exists w8_pts, 3. cbv zeta.
  change (length w8_pts) with 8.
  destruct w8_shipped as [H1 [H2 H3]].
  split.
  { unfold w8_pts. repeat constructor; cbn; intuition congruence. }
  split; [lia|]. split; [apply w8_knn_exact|].
  exists (knn_brute w8_pts 3), 3, 0.
  split; auto. split; [lia|]. split; [lia|]. split; auto. split.
  - intros w d Hg. eapply unreachable_geodesic_infinite; eauto.
  - exists w8_rev. split.
    + unfold is_perm, w8_rev. apply Permutation_sym.
      change [7; 6; 5; 4; 3; 2; 1; 0] with (rev (seq 0 8)). apply Permutation_rev.
    + exact w8_shipped_order.
Qed.

(* ---------------- repaired code *)
Lemma main_cc_strong : forall N nb, 0 < N -> wf_graph N nb ->
  (exists b, is_connected_fixed N nb = COk b) /\
  (is_connected_fixed N nb = COk true <-> forall i j, i < N -> j < N -> reach nb i j).
Proof.
  intros N nb HN Hwf. apply decides_to_iff. apply is_connected_fixed_correct; auto.
Qed.

Lemma main_cc_perm : forall N nb p, 0 < N -> wf_graph N nb -> is_perm N p ->
  is_connected_fixed N (relabel p nb) = is_connected_fixed N nb.
Proof. exact is_connected_fixed_perm. Qed.

Section Search.
Variable dist : nat -> nat -> Z.
Variable knn : nat -> graph.
Variable N : nat.
(* property C02's conclusion, for every k the recursion can ask for *)
Hypothesis Hknn : forall k, k <= N - 1 -> is_knn_graph dist N k (knn k).
Hypothesis HN : 1 <= N.

Lemma search_check_fixed : forall k, k <= N - 1 ->
  exists b, is_connected_fixed N (knn k) = COk b /\ (b = true <-> strongly_connected N (knn k)).
Proof.
  intros k Hk. apply is_connected_fixed_correct; [lia|].
  eapply knn_graph_wf; eauto.
Qed.

Lemma search_check_shipped : forall k, k <= N - 1 ->
  exists b, is_connected N (knn k) = COk b /\ (b = true <-> all_from_first N (knn k)).
Proof.
  intros k Hk. apply is_connected_correct; [lia| |].
  - eapply knn_graph_wf; eauto.
  - eapply knn_graph_uniform; [|apply Hknn; auto]. lia.
Qed.

Lemma search_complete_strong : strongly_connected N (knn (N - 1)).
Proof. eapply knn_complete_strong. apply Hknn. lia. Qed.

Lemma search_complete_first : all_from_first N (knn (N - 1)).
Proof. intros j Hj. apply search_complete_strong; lia. Qed.

Lemma main_cc_minimal : forall k, 1 <= k ->
  exists j, find_neighbors is_connected_fixed knn N N k true
            = COk (kseq N k j, knn (kseq N k j)) /\
    strongly_connected N (knn (kseq N k j)) /\
    forall j', j' < j -> ~ strongly_connected N (knn (kseq N k j')).
Proof.
  intros k Hk.
  apply (fn_terminates is_connected_fixed knn N (strongly_connected N)
                       search_check_fixed search_complete_strong k Hk HN).
Qed.

Lemma main_cc_terminates : forall k, 1 <= k ->
  exists k' g, find_neighbors is_connected_fixed knn N N k true = COk (k', g).
Proof.
  intros k Hk. destruct (main_cc_minimal k Hk) as [j [E _]]. eauto.
Qed.

Lemma main_cc_keeps_k_iff : forall k k' g, 1 <= k -> k <= N - 1 ->
  find_neighbors is_connected_fixed knn N N k true = COk (k', g) ->
  (k' = k <-> strongly_connected N (knn k)).
Proof.
  intros k k' g Hk HkN.
  apply (fn_keeps_k_iff is_connected_fixed knn N (strongly_connected N)
                        search_check_fixed search_complete_strong k k' g Hk HkN).
Qed.

Lemma main_cc_finite : forall k k' g, 1 <= k ->
  find_neighbors is_connected_fixed knn N N k true = COk (k', g) ->
  forall w i j d, i < N -> j < N -> is_geodesic g w i j d -> exists z, d = Some z.
Proof.
  intros k k' g Hk Hfn w i j d Hi Hj Hg.
  destruct (main_cc_minimal k Hk) as [jj [E [Hs _]]].
  rewrite E in Hfn. inversion Hfn; subst.
  eapply reach_geodesic_finite; [|exact Hg]. apply Hs; auto.
Qed.

(* what the shipped recursion computes: the same, for reachability from sample 0 *)
Lemma main_fn_shipped_minimal : forall k, 1 <= k ->
  exists j, find_neighbors is_connected knn N N k true
            = COk (kseq N k j, knn (kseq N k j)) /\
    all_from_first N (knn (kseq N k j)) /\
    forall j', j' < j -> ~ all_from_first N (knn (kseq N k j')).
Proof.
  intros k Hk.
  apply (fn_terminates is_connected knn N (all_from_first N)
                       search_check_shipped search_complete_first k Hk HN).
Qed.

(* relabelling the samples relabels the result and leaves the number of neighbours alone *)
Variable p : list nat.
Hypothesis Hp : is_perm N p.

Lemma fn_relabel : forall fuel k cc,
  find_neighbors is_connected_fixed (fun k' => relabel p (knn k')) N fuel k cc =
  match find_neighbors is_connected_fixed knn N fuel k cc with
  | COk (k', g) => COk (k', relabel p g)
  | COOB s i z => COOB s i z
  | CFuel => CFuel
  end.
Proof.
  induction fuel as [|fuel IH]; intros k cc; cbn [find_neighbors]; auto.
  rewrite clamp_min.
  destruct cc; auto.
  assert (Hle : Nat.min k (N - 1) <= N - 1) by lia.
  rewrite is_connected_fixed_perm; [|lia|eapply knn_graph_wf; eauto|auto].
  destruct (search_check_fixed _ Hle) as [b [E _]]. rewrite E.
  destruct b; auto.
Qed.

Lemma main_cc_result_perm : forall k k' g, 1 <= k ->
  find_neighbors is_connected_fixed knn N N k true = COk (k', g) ->
  find_neighbors is_connected_fixed (fun k' => relabel p (knn k')) N N k true
  = COk (k', relabel p g).
Proof.
  intros k k' g Hk E. rewrite fn_relabel. rewrite E. reflexivity.
Qed.

End Search.

(* ---------------- the decision procedures used by the harness as spec oracles *)
Lemma main_spec_oracles : forall N nb, 0 < N -> wf_b N nb = true ->
  (strong_b N nb = true <-> strongly_connected N nb) /\
  (from_first_b N nb = true <-> all_from_first N nb).
Proof.
  intros N nb HN Hw. apply wf_b_spec in Hw. split.
  - apply strong_b_spec; auto.
  - apply from_first_b_spec; auto.
Qed.

(* ---------------- non-vacuity *)
Lemma nv_graph : 0 < 8 /\ wf_graph 8 (knn_brute w8_pts 3) /\ uniform (knn_brute w8_pts 3) /\
                 is_perm 8 w8_rev.
Proof.
  split; [lia|]. split; [apply wf_b_spec; vm_compute; reflexivity|].
  split; [apply uniform_b_spec; vm_compute; reflexivity|].
  unfold is_perm, w8_rev. apply Permutation_sym.
  change [7; 6; 5; 4; 3; 2; 1; 0] with (rev (seq 0 8)). apply Permutation_rev.
Qed.

Lemma nv_search :
  (forall k, k <= 8 - 1 -> is_knn_graph (pdist w8_pts) 8 k (knn_brute w8_pts k)) /\ 1 <= 8 /\
  find_neighbors is_connected_fixed (knn_brute w8_pts) 8 8 3 true = COk (6, knn_brute w8_pts 6) /\
  find_neighbors is_connected_fixed (knn_brute w8_pts) 8 8 6 true = COk (6, knn_brute w8_pts 6).
Proof.
  split; [apply w8_knn_exact|]. split; [lia|]. split; vm_compute; reflexivity.
Qed.
