(* ====================================================================== *)
(*  Mds_Proof_Par.v — C05, wave 3: the worksharing loop of                 *)
(*  compute_distance_matrix fills the WHOLE matrix, for every content of    *)
(*  the uninitialised allocation and every team size, because the team is   *)
(*  the call's own; the orphaned variant (no `parallel` of its own) leaves  *)
(*  every row outside the caller-thread's share uninitialised.              *)
(* ====================================================================== *)
Require Import Arith Lia List Bool QArith Qcanon.
From TK Require Import Mat_Sums Mat_Core Mat_Qc Mds_Model Mds_Model_Par.
Import ListNotations.
Local Open Scope nat_scope.

Ltac bd :=
  repeat match goal with
         | |- context [Nat.eqb ?x ?y] => destruct (Nat.eqb_spec x y)
         | |- context [Nat.leb ?x ?y] => destruct (Nat.leb_spec x y)
         | |- context [Nat.ltb ?x ?y] => destruct (Nat.ltb_spec x y)
         end.

Section MdsProofPar.
  Context {F : Type} {Fo : FieldOps F}.

  (* closed form of the inner loop *)
  Lemma fill_from_spec : forall (dist : mat F) (i len s : nat) (M : mat F) (a b : nat),
      i <= s ->
      fill_from dist i s len M a b =
      if (Nat.eqb a i && Nat.leb s b && Nat.ltb b (s + len)) || (Nat.eqb b i && Nat.leb s a && Nat.ltb a (s + len))
      then dist_sq_matrix dist a b else M a b.
  Proof.
    intros dist i len. induction len as [|len IH]; intros s M a b His.
    - unfold fill_from. cbn [seq fold_left]. bd; cbn [andb orb]; try reflexivity; lia.
    - unfold fill_from in *. cbn [seq fold_left]. rewrite IH by lia.
      unfold set2, dist_sq_matrix.
      bd; cbn [andb orb]; subst; try reflexivity; try lia.
  Qed.

  Lemma fill_row_spec : forall (n : nat) (dist : mat F) (i : nat) (M : mat F) (a b : nat),
      fill_row n dist i M a b = if touch n i a b then dist_sq_matrix dist a b else M a b.
  Proof.
    intros n dist i M a b. unfold fill_row. rewrite fill_from_spec by lia. unfold touch.
    bd; cbn [andb orb]; try reflexivity; lia.
  Qed.

  Lemma fill_rows_spec : forall (n : nat) (dist : mat F) (rows : list nat) (M : mat F) (a b : nat),
      fill_rows n dist rows M a b =
      if existsb (fun i => touch n i a b) rows then dist_sq_matrix dist a b else M a b.
  Proof.
    intros n dist rows. induction rows as [|i rows IH]; intros M a b.
    - reflexivity.
    - unfold fill_rows in *. cbn [fold_left existsb]. rewrite IH. rewrite fill_row_spec.
      destruct (touch n i a b); destruct (existsb (fun i0 => touch n i0 a b) rows); reflexivity.
  Qed.

  Lemma touch_min : forall n a b, a < n -> b < n -> touch n (Nat.min a b) a b = true.
  Proof.
    intros n a b Ha Hb. unfold touch.
    destruct (Nat.le_ge_cases a b) as [H|H].
    - rewrite (Nat.min_l _ _ H). bd; cbn [andb orb]; try reflexivity; lia.
    - rewrite (Nat.min_r _ _ H). bd; cbn [andb orb]; try reflexivity; lia.
  Qed.

  Lemma touch_inv : forall n i a b, touch n i a b = true -> i = Nat.min a b /\ a < n /\ b < n.
  Proof.
    intros n i a b. unfold touch. bd; cbn [andb orb]; intro Htouch; try discriminate; lia.
  Qed.

  (* every schedule whose shares cover the rows fills the whole matrix, whatever the allocation contained *)
  Theorem team_fill_full : forall (n : nat) (dist : mat F) (shares : list (list nat)) (init : mat F),
      (forall i, i < n -> In i (concat shares)) ->
      meq n n (team_fill n dist shares init) (dist_sq_matrix dist).
  Proof.
    intros n dist shares init Hcov a b Ha Hb. unfold team_fill. rewrite fill_rows_spec.
    assert (Hex : existsb (fun i => touch n i a b) (concat shares) = true).
    { apply existsb_exists. exists (Nat.min a b). split.
      - apply Hcov. lia.
      - apply touch_min; assumption. }
    rewrite Hex. reflexivity.
  Qed.

  (* a call that executes only SOME rows leaves every position whose smaller index is not among them as allocated *)
  Theorem fill_rows_untouched : forall (n : nat) (dist : mat F) (rows : list nat) (init : mat F) (a b : nat),
      ~ In (Nat.min a b) rows ->
      fill_rows n dist rows init a b = init a b.
  Proof.
    intros n dist rows init a b Hni. rewrite fill_rows_spec.
    destruct (existsb (fun i => touch n i a b) rows) eqn:Hex; [|reflexivity].
    apply existsb_exists in Hex. destruct Hex as [i [Hin Ht]].
    apply touch_inv in Ht. destruct Ht as [Hi _]. subst i. contradiction.
  Qed.
End MdsProofPar.

(* ---------------------------------------------------------------- the static schedule covers 0..n-1 *)
Lemma static_next : forall n T t,
    static_start n T (S t) = static_start n T t + static_len n T t.
Proof.
  intros n T t. unfold static_start, static_len. rewrite Nat.mul_succ_l.
  destruct (Nat.ltb_spec t (n mod T)) as [H|H].
  - rewrite (Nat.min_l (S t)) by lia. rewrite (Nat.min_l t) by lia. lia.
  - rewrite (Nat.min_r (S t)) by lia. rewrite (Nat.min_r t) by lia. lia.
Qed.

Lemma static_end : forall n T, 0 < T -> static_start n T T = n.
Proof.
  intros n T HT. unfold static_start.
  assert (Hm : n mod T < T) by (apply Nat.mod_upper_bound; lia).
  rewrite (Nat.min_r T) by lia.
  pose proof (Nat.div_mod n T ltac:(lia)) as Hd. lia.
Qed.

Lemma static_prefix_cover : forall n T t i,
    t <= T -> i < static_start n T t -> exists u, u < t /\ In i (static_share n T u).
Proof.
  intros n T t. induction t as [|t IH]; intros i Ht Hi.
  - unfold static_start in Hi. cbn in Hi. lia.
  - rewrite static_next in Hi.
    destruct (Nat.lt_ge_cases i (static_start n T t)) as [Hlt|Hge].
    + destruct (IH i ltac:(lia) Hlt) as [u [Hu Hin]]. exists u. split; [lia|assumption].
    + exists t. split; [lia|]. unfold static_share. apply in_seq. lia.
Qed.

Theorem static_shares_cover : forall n T i, 0 < T -> i < n -> In i (concat (static_shares n T)).
Proof.
  intros n T i HT Hi.
  destruct (static_prefix_cover n T T i (le_n T)) as [u [Hu Hin]].
  { rewrite static_end by assumption. assumption. }
  apply in_concat. exists (static_share n T u). split; [|assumption].
  unfold static_shares. apply in_map. apply in_seq. lia.
Qed.

(* the shipped routine: its own team of ANY size T >= 1, ANY content of the fresh allocation *)
Theorem cdm_own_team_full : forall (F : Type) (Fo : FieldOps F) (n T : nat) (dist init : mat F),
    0 < T -> meq n n (cdm_own_team n dist T init) (dist_sq_matrix dist).
Proof.
  intros F Fo n T dist init HT. unfold cdm_own_team. apply team_fill_full.
  intros i Hi. apply static_shares_cover; assumption.
Qed.

(* the orphaned variant, called by thread `me` of the caller's team: the rows of the other shares keep the content
   of the allocation *)
Theorem cdm_orphaned_untouched : forall (F : Type) (Fo : FieldOps F) (n T me : nat) (dist init : mat F) (a b : nat),
    ~ In (Nat.min a b) (static_share n T me) ->
    cdm_orphaned n dist T me init a b = init a b.
Proof.
  intros F Fo n T me dist init a b H. unfold cdm_orphaned. apply fill_rows_untouched. assumption.
Qed.

(* witness: 2 samples, caller's team of 2, the call is made by thread 0: row 1 is never written *)
Definition par_dist : mat Qc := fun _ _ => 0%Qc.
Definition par_init : mat Qc := fun _ _ => 1%Qc.

Theorem cdm_orphaned_refuted :
  exists (n T me : nat) (dist init : mat Qc),
    me < T /\ ~ meq n n (cdm_orphaned n dist T me init) (dist_sq_matrix dist).
Proof.
  exists 2, 2, 0, par_dist, par_init. split; [lia|].
  intro H. specialize (H 1 1 ltac:(lia) ltac:(lia)).
  vm_compute in H. discriminate H.
Qed.

(* with a team of one (serial caller, or nested parallelism) the orphaned variant is indistinguishable *)
Theorem cdm_orphaned_serial_full : forall (F : Type) (Fo : FieldOps F) (n : nat) (dist init : mat F),
    meq n n (cdm_orphaned n dist 1 0 init) (dist_sq_matrix dist).
Proof.
  intros F Fo n dist init a b Ha Hb. unfold cdm_orphaned. rewrite fill_rows_spec.
  assert (Hex : existsb (fun i => touch n i a b) (static_share n 1 0) = true).
  { apply existsb_exists. exists (Nat.min a b). split.
    - unfold static_share, static_start, static_len. apply in_seq.
      rewrite Nat.div_1_r, Nat.mod_1_r. cbn. lia.
    - apply touch_min; assumption. }
  rewrite Hex. reflexivity.
Qed.
