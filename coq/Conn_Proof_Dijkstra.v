(* Conn_Proof_Dijkstra.v — the link between the connectivity check (this slice) and the
   model of tapkee's own shortest-path routine (property C04, Dijkstra_Model.v:
   compute_shortest_distances_matrix under both heap configurations):

     the graph returned by find_neighbors(..., check_connectivity = true)
       -> the model of compute_shortest_distances_matrix runs to completion on it (no
          out-of-range access, fuel suffices) and every entry of its result is finite;
     the graph the shipped recursion (reachability from sample 0 only) returned on the
     8-point witness -> the same routine leaves entry (3,0) infinite.

   Only C04's *theorems* are used (full_matrix_correct, sp_finite_iff_reach); nothing of
   its proofs is repeated here. *)
From Coq Require Import List Arith Bool ZArith Lia Permutation.
From TK Require Import Conn_Model Conn_Spec Conn_Proof_Graph Conn_Proof_Dfs
     Conn_Proof_Strong Conn_Proof_Warshall Conn_Proof Conn_Proof_Main.
From TK Require Dijkstra_Model Dijkstra_Spec Dijkstra_Proof_Base Dijkstra_Proof.
Import ListNotations.

Module DM := Dijkstra_Model.
Module DS := Dijkstra_Spec.
Module DB := Dijkstra_Proof_Base.
Module DP := Dijkstra_Proof.

(* ------------------------------------------------------------ the two notions of edge *)
Lemma edge_conn_dijkstra : forall g i j, edge g i j <-> DS.edge g i j.
Proof.
  intros g i j. split.
  - intros H. apply edge_inv in H. exact H.
  - intros [row [E Hin]]. eapply edge_of_nth_error; eauto.
Qed.

Lemma pathn_cons : forall g w i j, DS.edge g i j ->
  forall l W n, DS.pathn g w j l W n -> exists W', DS.pathn g w i l W' (S n).
Proof.
  intros g w i j He l W n H. induction H as [|u v W n H [W' IH] Huv].
  - exists (0 + w i j)%Z. eapply DS.pn_snoc; [apply DS.pn_nil|exact He].
  - exists (W' + w u v)%Z. eapply DS.pn_snoc; eauto.
Qed.

Lemma reach_path : forall g w i j, reach g i j -> exists W, DS.path g w i j W.
Proof.
  intros g w i j H. induction H as [i|i j l He Hr [W [n IH]]].
  - exists 0%Z, 0. apply DS.pn_nil.
  - apply edge_conn_dijkstra in He.
    destruct (pathn_cons g w i j He l W n IH) as [W' H']. exists W', (S n). exact H'.
Qed.

Lemma pathn_reach : forall g w i j W n, DS.pathn g w i j W n -> reach g i j.
Proof.
  intros g w i j W n H. induction H as [|u v W n H IH Huv].
  - apply reach_refl.
  - eapply reach_step_r; eauto. apply edge_conn_dijkstra; auto.
Qed.

Lemma path_reach : forall g w i j W, DS.path g w i j W -> reach g i j.
Proof. intros g w i j W [n H]. eapply pathn_reach; eauto. Qed.

(* ------------------------------------------------------------ exact k-NN lists are a
   graph in the sense of Dijkstra_Spec (uniform list length K, entries below N) *)
Lemma knn_graph_dwf : forall dist N k g, is_knn_graph dist N k g -> DS.wf_graph g N k.
Proof.
  intros dist N k g [Hl Hrows]. split; auto.
  apply Forall_forall. intros row Hin.
  apply In_nth with (d := []) in Hin. destruct Hin as [i [Hi Ei]]. subst row.
  rewrite Hl in Hi. destruct (Hrows i Hi) as [Hlen [_ [Hlt _]]].
  split; auto. apply Forall_forall. intros j Hj. apply Hlt; auto.
Qed.

Lemma entry_sp_matrix : forall g w N i j, i < N ->
  DS.entry_of (DS.sp_matrix g w N) i j = DS.sp g w N i j.
Proof.
  intros g w N i j Hi. unfold DS.entry_of, DS.sp_matrix, DS.sp.
  rewrite (nth_indep _ [] (DS.sp_row g w N 0)) by (rewrite map_length, seq_length; auto).
  rewrite map_nth. rewrite seq_nth by auto. reflexivity.
Qed.

(* ------------------------------------------------------------ strongly connected k-NN
   graph -> the model of compute_shortest_distances_matrix returns only finite entries *)
Lemma strong_dijkstra_finite : forall dist N k g fl w pick,
  0 < N -> is_knn_graph dist N k g -> strongly_connected N g ->
  DS.nonneg_w g w -> DB.pick_ok pick ->
  DM.full_matrix fl g w pick N = DM.DOk (DS.sp_matrix g w N) /\
  forall i j, i < N -> j < N -> exists z, DS.entry_of (DS.sp_matrix g w N) i j = Some z.
Proof.
  intros dist N k g fl w pick HN Hknn Hs Hnn Hp.
  pose proof (knn_graph_dwf _ _ _ _ Hknn) as Hwf.
  split.
  - eapply DP.full_matrix_correct; eauto.
  - intros i j Hi Hj. rewrite entry_sp_matrix by auto.
    destruct (DS.sp g w N i j) as [z|] eqn:E; [eauto|].
    exfalso.
    assert (Hne : DS.sp g w N i j <> None).
    { apply (DP.sp_finite_iff_reach g w N k Hwf Hnn i j Hi Hj).
      apply reach_path. apply Hs; auto. }
    apply Hne; exact E.
Qed.

Lemma unreachable_dijkstra_infinite : forall dist N k g fl w pick i j,
  0 < N -> is_knn_graph dist N k g -> i < N -> j < N -> ~ reach g i j ->
  DS.nonneg_w g w -> DB.pick_ok pick ->
  exists m, DM.full_matrix fl g w pick N = DM.DOk m /\ DS.entry_of m i j = None.
Proof.
  intros dist N k g fl w pick i j HN Hknn Hi Hj Hnr Hnn Hp.
  pose proof (knn_graph_dwf _ _ _ _ Hknn) as Hwf.
  exists (DS.sp_matrix g w N). split.
  - eapply DP.full_matrix_correct; eauto.
  - rewrite entry_sp_matrix by auto.
    destruct (DS.sp g w N i j) as [z|] eqn:E; auto.
    exfalso. apply Hnr.
    assert (Hne : DS.sp g w N i j <> None) by (rewrite E; discriminate).
    apply (DP.sp_finite_iff_reach g w N k Hwf Hnn i j Hi Hj) in Hne.
    destruct Hne as [W HW]. eapply path_reach; eauto.
Qed.

(* ------------------------------------------------------------ the statements *)
Lemma main_cc_dijkstra_finite : forall dist knn N,
  (forall k, k <= N - 1 -> is_knn_graph dist N k (knn k)) -> 1 <= N ->
  forall k k' g, 1 <= k ->
  find_neighbors is_connected_fixed knn N N k true = COk (k', g) ->
  forall fl w pick, DS.nonneg_w g w -> DB.pick_ok pick ->
  exists m, DM.full_matrix fl g w pick N = DM.DOk m /\
    forall i j, i < N -> j < N -> exists z, DS.entry_of m i j = Some z.
Proof.
  intros dist knn N Hknn HN k k' g Hk Hfn fl w pick Hnn Hp.
  destruct (main_cc_minimal dist knn N Hknn HN k Hk) as [jj [E [Hs _]]].
  rewrite E in Hfn. inversion Hfn; subst. clear Hfn.
  assert (Hk' : is_knn_graph dist N (kseq N k jj) (knn (kseq N k jj)))
    by (apply Hknn; apply kseq_le).
  assert (HN0 : 0 < N) by lia.
  destruct (strong_dijkstra_finite dist N _ _ fl w pick HN0 Hk' Hs Hnn Hp) as [A B].
  exists (DS.sp_matrix (knn (kseq N k jj)) w N). split; auto.
Qed.

(* all weights 1 on the 8-point witness: the shipped recursion returns the 3-neighbour
   lists, and the model of tapkee's Dijkstra (either heap) leaves entry (3,0) infinite *)
Lemma main_fn_shipped_dijkstra_refuted :
  exists pts k,
    let N := length pts in
    let knn := knn_brute pts in
    NoDup pts /\ 3 <= k /\
    (forall k', k' <= N - 1 -> is_knn_graph (pdist pts) N k' (knn k')) /\
    exists g, find_neighbors is_connected knn N N k true = COk (k, g) /\
      forall fl pick, DB.pick_ok pick ->
      exists m i j, i < N /\ j < N /\
        DM.full_matrix fl g (pdist pts) pick N = DM.DOk m /\ DS.entry_of m i j = None.
Proof.
  exists w8_pts, 3. cbv zeta. change (length w8_pts) with 8.
  destruct w8_shipped as [H1 [H2 H3]].
  split.
  { unfold w8_pts. repeat constructor; cbn; intuition congruence. }
  split; [lia|]. split; [apply w8_knn_exact|].
  exists (knn_brute w8_pts 3). split; [exact H1|].
  intros fl pick Hp.
  destruct (unreachable_dijkstra_infinite (pdist w8_pts) 8 3 (knn_brute w8_pts 3) fl
              (pdist w8_pts) pick 3 0) as [m [Em Hm]]; auto; try lia.
  - apply w8_knn_exact. lia.
  - intros u v _. unfold pdist, l1. lia.
  - exists m, 3, 0. repeat split; auto; lia.
Qed.

(* ------------------------------------------------------------ non-vacuity *)
Lemma nv_dijkstra :
  DS.nonneg_w (knn_brute w8_pts 6) (pdist w8_pts) /\ DB.pick_ok DM.pick_first_min /\
  find_neighbors is_connected_fixed (knn_brute w8_pts) 8 8 3 true = COk (6, knn_brute w8_pts 6).
Proof.
  split; [intros u v _; unfold pdist, l1; lia|].
  split; [apply DB.pick_first_min_ok|]. vm_compute; reflexivity.
Qed.

(* ------------------------------------------------------------ the landmark overload
   (Landmark Isomap; after fix F4 `f[landmarks[k]] = true`): row r is the geodesic row of
   landmark lm[r]; all its entries are finite as well *)
Lemma entry_sp_landmarks : forall g w N lm r src j,
  nth_error lm r = Some src ->
  DS.entry_of (DS.sp_landmarks g w N lm) r j = DS.sp g w N src j.
Proof.
  intros g w N lm r src j Hr. unfold DS.entry_of, DS.sp_landmarks, DS.sp.
  assert (Hlt : r < length lm) by (apply nth_error_Some; congruence).
  rewrite (nth_indep _ [] (DS.sp_row g w N 0)) by (rewrite map_length; auto).
  rewrite map_nth. rewrite (nth_error_nth_default _ lm r src 0 Hr). reflexivity.
Qed.

Lemma main_cc_landmark_finite : forall dist knn N,
  (forall k, k <= N - 1 -> is_knn_graph dist N k (knn k)) -> 1 <= N ->
  forall k k' g, 1 <= k ->
  find_neighbors is_connected_fixed knn N N k true = COk (k', g) ->
  forall fl w pick lm, DS.nonneg_w g w -> DB.pick_ok pick -> Forall (fun v => v < N) lm ->
  exists m, DM.landmark_matrix_fixed fl g w pick N lm = DM.DOk m /\
    forall r j, r < length lm -> j < N -> exists z, DS.entry_of m r j = Some z.
Proof.
  intros dist knn N Hknn HN k k' g Hk Hfn fl w pick lm Hnn Hp Hlm.
  destruct (main_cc_minimal dist knn N Hknn HN k Hk) as [jj [E [Hs _]]].
  rewrite E in Hfn. inversion Hfn; subst. clear Hfn.
  set (g := knn (kseq N k jj)) in *.
  assert (Hk' : is_knn_graph dist N (kseq N k jj) g) by (apply Hknn; apply kseq_le).
  pose proof (knn_graph_dwf _ _ _ _ Hk') as Hwf.
  assert (HN0 : 0 < N) by lia.
  exists (DS.sp_landmarks g w N lm). split.
  - eapply DP.landmark_matrix_fixed_correct; eauto.
  - intros r j Hr Hj.
    destruct (nth_error lm r) as [src|] eqn:Er; [|apply nth_error_None in Er; lia].
    rewrite (entry_sp_landmarks g w N lm r src j Er).
    assert (Hsrc : src < N).
    { rewrite Forall_forall in Hlm. apply Hlm. eapply nth_error_In; eauto. }
    destruct (DS.sp g w N src j) as [z|] eqn:Esp; [eauto|]. exfalso.
    assert (Hne : DS.sp g w N src j <> None).
    { apply (DP.sp_finite_iff_reach g w N _ Hwf Hnn src j Hsrc Hj).
      apply reach_path. apply Hs; auto. }
    apply Hne; exact Esp.
Qed.
