(* ====================================================================== *)
(*  Pca_Proof_Sign.v — last clause of C06: PCA, Kernel PCA (linear kernel) *)
(*  and MDS (Euclidean distances) agree up to the sign of each column.     *)
(*  All three return, for the centred Gram matrix G = X_c X_c^T, columns y *)
(*  with  G y = mu y  and  <y,y> = mu  (PCA: Pca_Proof.pca_gram_factor with *)
(*  mu = N lam; KPCA / MDS: Properties_C05, factor_spec).  If the          *)
(*  eigenvalue mu is SIMPLE (its eigenspace is spanned by one vector u)    *)
(*  two such columns are equal or opposite.  Every field with decidable    *)
(*  equality (Qc has it).                                                  *)
(* ====================================================================== *)
Require Import Field Ring Arith Lia List Bool.
From TK Require Import Mat_Sums Mat_Core Proj_Model Pca_Model Pca_Spec Pca_Proof.

Section Sign.
  Context {F : Type} {Fo : FieldOps F} {Ff : IsField F}.
  Add Field SignField : (@Fth F Fo Ff).
  Local Open Scope nat_scope.
  Local Open Scope F_scope.

  Definition is_eigvec (n : nat) (G : mat F) (mu : F) (v : vec F) : Prop :=
    forall i, i < n -> mv n G v i = mu * v i.

  (* mu is a simple eigenvalue of G: every eigenvector is a multiple of u *)
  Definition simple_eigenvalue (n : nat) (G : mat F) (mu : F) (u : vec F) : Prop :=
    forall v, is_eigvec n G mu v -> exists c, veq n v (vscale c u).

  Lemma mul_zero_r_inv (x y : F) : x * y = 0 -> x <> 0 -> y = 0.
  Proof.
    intros H Hx. transitivity (/ x * (x * y)); [field; assumption|]. rewrite H. ring.
  Qed.

  Theorem eigvec_unique_up_to_sign
          (eq_dec : forall a b : F, {a = b} + {a <> b}) n (G : mat F) mu (u y z : vec F) :
    simple_eigenvalue n G mu u ->
    is_eigvec n G mu y -> is_eigvec n G mu z ->
    dot n y y = dot n z z -> dot n y y <> 0 ->
    veq n z y \/ veq n z (vscale (- (1)) y).
  Proof.
    intros Hs Hy Hz Hn Hne.
    destruct (Hs y Hy) as [a Ha]. destruct (Hs z Hz) as [b Hb].
    assert (Ey : dot n y y = a * a * dot n u u).
    { rewrite (dot_ext n y (vscale a u) y (vscale a u) Ha Ha). unfold vscale.
      rewrite dot_scale_l, dot_comm, dot_scale_l. ring. }
    assert (Ez : dot n z z = b * b * dot n u u).
    { rewrite (dot_ext n z (vscale b u) z (vscale b u) Hb Hb). unfold vscale.
      rewrite dot_scale_l, dot_comm, dot_scale_l. ring. }
    assert (Hu : dot n u u <> 0).
    { intros E. apply Hne. rewrite Ey, E. ring. }
    assert (Hab : (b - a) * (b + a) = 0).
    { apply (mul_zero_r_inv (dot n u u)); [|assumption].
      transitivity (b * b * dot n u u - a * a * dot n u u); [ring|]. rewrite <- Ey, <- Ez, Hn. ring. }
    destruct (eq_dec b a) as [E|E].
    - left. intros i Hi. rewrite (Hb i Hi), (Ha i Hi), E. reflexivity.
    - right. assert (E2 : b + a = 0).
      { apply (mul_zero_r_inv (b - a)); [assumption|]. intros H. apply E.
        transitivity (b - a + a); [ring|]. rewrite H. ring. }
      intros i Hi. rewrite (Hb i Hi). unfold vscale. rewrite (Ha i Hi). unfold vscale.
      replace b with (- a) by (transitivity (b + a - a); [rewrite E2|]; ring). ring.
  Qed.

  (* a column of a Gram factor: eigenvector of G for mu, squared norm mu *)
  Definition gram_factor_col (n : nat) (G : mat F) (mu : F) (y : vec F) : Prop :=
    is_eigvec n G mu y /\ dot n y y = mu.

  (* THEOREM: column c of the PCA embedding coincides, up to sign, with column c of ANY other
     embedding whose column is a Gram-factor column for the same (simple, non-zero) eigenvalue
     N lam_c — in particular with Kernel PCA's and MDS's (Properties_C05: factor_spec) *)
  Theorem pca_column_unique_up_to_sign
          (eq_dec : forall a b : F, {a = b} + {a <> b})
          N D d (X P : mat F) (lam : vec F) (c : nat) (u z : vec F) :
    of_nat N <> 0 -> c < d ->
    eig_contract D d (cov_spec N X) P lam ->
    let mu := of_nat N * lam c in
    mu <> 0 ->
    simple_eigenvalue N (centred_gram N D X) mu u ->
    gram_factor_col N (centred_gram N D X) mu z ->
    let y := fun k => pca_embedding N D X P k c in
    veq N z y \/ veq N z (vscale (- (1)) y).
  Proof.
    intros HN Hc Hcon mu Hmu Hs [Hz Hzn] y.
    destruct (pca_gram_factor N D d X P lam HN Hcon) as [HG HY].
    assert (Hy : is_eigvec N (centred_gram N D X) mu y).
    { intros i _. unfold mv, y. specialize (HG i c Hc). unfold mmul in HG. rewrite HG. reflexivity. }
    assert (Hyn : dot N y y = mu).
    { unfold dot, y. rewrite (HY c c Hc Hc). rewrite Nat.eqb_refl. reflexivity. }
    apply (eigvec_unique_up_to_sign eq_dec N (centred_gram N D X) mu u y z Hs Hy Hz).
    - rewrite Hyn, Hzn. reflexivity.
    - rewrite Hyn. exact Hmu.
  Qed.
End Sign.
