(* QuadTree_Proof_Sqrt.v — the one lemma over the reals that justifies writing the
   summary criterion of computeNonEdgeForces without the square root.
   Depends on the classical-reals axioms of the standard library (printed by
   Print Assumptions in Properties_C18.v); nothing else in the C18 slice does. *)
From Coq Require Import Reals Lra.
Local Open Scope R_scope.

(* ---------- the summary criterion, sqrt-free ---------- *)
(* The C++ tests  max(hh,hw) / sqrt(D) < theta  in doubles.  Over the reals, for m >= 0,
   theta >= 0 and D > 0 this is  m^2 < theta^2 * D ; for D = 0 the quotient is +inf (m > 0) or
   NaN (m = 0) and the comparison is false, which is the `0 < D` conjunct. *)
Lemma summary_sqrt_free : forall m theta D : R,
  (0 <= m)%R -> (0 <= theta)%R -> (0 < D)%R ->
  (m / sqrt D < theta)%R <-> (m * m < theta * theta * D)%R.
Proof.
  intros m theta D Hm Ht HD.
  assert (Hs : (0 < sqrt D)%R) by (apply sqrt_lt_R0; exact HD).
  assert (Hsq : (sqrt D * sqrt D = D)%R) by (apply sqrt_sqrt; lra).
  split; intro H.
  - assert (H1 : (m < theta * sqrt D)%R).
    { apply (Rmult_lt_compat_r (sqrt D)) in H; [|exact Hs].
      unfold Rdiv in H. rewrite Rmult_assoc, Rinv_l in H; lra. }
    rewrite <- Hsq.
    replace (theta * theta * (sqrt D * sqrt D))%R with ((theta * sqrt D) * (theta * sqrt D))%R by ring.
    apply Rmult_le_0_lt_compat; lra.
  - apply (Rmult_lt_reg_r (sqrt D)); [exact Hs|].
    unfold Rdiv. rewrite Rmult_assoc, Rinv_l, Rmult_1_r by lra.
    destruct (Rlt_le_dec m (theta * sqrt D)) as [Hlt|Hge]; [exact Hlt|exfalso].
    assert ((theta * sqrt D) * (theta * sqrt D) <= m * m)%R.
    { apply Rmult_le_compat; try lra; apply Rmult_le_pos; lra. }
    replace ((theta * sqrt D) * (theta * sqrt D))%R with (theta * theta * (sqrt D * sqrt D))%R in H0 by ring.
    rewrite Hsq in H0. lra.
Qed.
