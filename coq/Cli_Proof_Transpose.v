(* ====================================================================== *)
(*  Cli_Proof_Transpose.v — transposeInPlace on a matrix kept as rows:     *)
(*  entries are swapped, shape is swapped, transposing twice is the        *)
(*  identity, and column i of the transposed file is line i of the file    *)
(*  (so that without --transpose-input a line is a sample).                *)
(*  Also the line loop shipped before fix F41.                             *)
(* ====================================================================== *)
From Coq Require Import String Ascii List Arith Bool Lia.
From TK Require Import Cli_Model Cli_Spec Cli_Proof_Files.
Import ListNotations.

Lemma nth_error_filter_map_all : forall (A B : Type) (f : A -> option B) l i,
  (forall x, In x l -> f x <> None) ->
  nth_error (filter_map f l) i = match nth_error l i with Some x => f x | None => None end.
Proof.
  induction l as [|a l IH]; intros i H; [destruct i; reflexivity|].
  cbn [filter_map]. destruct (f a) eqn:E.
  - destruct i as [|i]; cbn [nth_error]; [rewrite E; reflexivity|].
    apply IH. intros x Hx. apply H. right. exact Hx.
  - exfalso. apply (H a); [left; reflexivity|exact E].
Qed.

Lemma nth_error_map_seq : forall (B : Type) (f : nat -> B) n s j,
  j < n -> nth_error (map f (seq s n)) j = Some (f (s + j)).
Proof.
  induction n as [|n IH]; intros s j Hj; [lia|].
  cbn [seq map]. destruct j as [|j]; cbn [nth_error].
  - rewrite Nat.add_0_r. reflexivity.
  - rewrite IH by lia. f_equal. f_equal. lia.
Qed.

Lemma list_ext : forall (A : Type) (l1 l2 : list A),
  (forall i, nth_error l1 i = nth_error l2 i) -> l1 = l2.
Proof.
  induction l1 as [|a l1 IH]; destruct l2 as [|b l2]; intro H; try reflexivity;
    try (specialize (H 0); discriminate H).
  f_equal.
  - specialize (H 0). cbn in H. injection H. auto.
  - apply IH. intro i. exact (H (S i)).
Qed.

Lemma filter_map_map : forall (A B C : Type) (g : A -> B) (f : B -> option C) l,
  filter_map f (map g l) = filter_map (fun x => f (g x)) l.
Proof. induction l as [|a l IH]; [reflexivity|]. cbn. rewrite IH. reflexivity. Qed.

Lemma filter_map_ext_in : forall (A B : Type) (f g : A -> option B) l,
  (forall x, In x l -> f x = g x) -> filter_map f l = filter_map g l.
Proof.
  induction l as [|a l IH]; intro H; [reflexivity|].
  cbn. rewrite (H a) by (left; reflexivity).
  rewrite IH by (intros x Hx; apply H; right; exact Hx). reflexivity.
Qed.

Lemma filter_map_nth_seq : forall (A : Type) (r pre : list A),
  filter_map (fun j => nth_error (pre ++ r) j) (seq (length pre) (length r)) = r.
Proof.
  induction r as [|x r IH]; intro pre; [reflexivity|].
  cbn [length seq filter_map].
  rewrite nth_error_app2 by lia. rewrite Nat.sub_diag. cbn [nth_error].
  f_equal.
  specialize (IH (pre ++ [x])). rewrite <- app_assoc in IH. cbn [app] in IH.
  rewrite app_length in IH. cbn [length] in IH. rewrite Nat.add_1_r in IH. exact IH.
Qed.

Section Transpose.
  Variable V : Type.

  Lemma width_rect : forall c (m : list (list V)), rect V c m -> m <> [] -> width V m = c.
  Proof.
    intros c [|r m] H Hne; [congruence|]. inversion H; subst. reflexivity.
  Qed.

  Lemma rect_nth_some : forall c (m : list (list V)) j, rect V c m -> j < c ->
    forall r, In r m -> nth_error r j <> None.
  Proof.
    intros c m j H Hj r Hr. unfold rect in H. rewrite Forall_forall in H.
    specialize (H r Hr). intro Hn. apply nth_error_None in Hn. lia.
  Qed.

  Theorem transpose_entry : forall c (m : list (list V)) i j, rect V c m -> m <> [] -> j < c ->
    entry V (transpose V m) j i = entry V m i j.
  Proof.
    intros c m i j H Hne Hj. unfold entry, transpose.
    rewrite (width_rect c m H Hne). rewrite nth_error_map_seq by exact Hj. cbn [plus].
    unfold col. apply nth_error_filter_map_all. apply (rect_nth_some c m j H Hj).
  Qed.

  Lemma col_length : forall c (m : list (list V)) j, rect V c m -> j < c ->
    length (col V j m) = length m.
  Proof.
    induction m as [|r m IH]; intros j H Hj; [reflexivity|].
    inversion H as [|? ? Hr Hm]; subst. unfold col. cbn [filter_map].
    destruct (nth_error r j) eqn:E.
    - cbn [length]. f_equal. apply IH; assumption.
    - apply nth_error_None in E. lia.
  Qed.

  Lemma transpose_length : forall (m : list (list V)), length (transpose V m) = width V m.
  Proof. intro m. unfold transpose. rewrite map_length. apply seq_length. Qed.

  Theorem transpose_rect : forall c (m : list (list V)), rect V c m -> m <> [] ->
    length (transpose V m) = c /\ rect V (length m) (transpose V m).
  Proof.
    intros c m H Hne. split.
    - rewrite transpose_length. apply width_rect; assumption.
    - unfold rect, transpose. apply Forall_map. apply Forall_forall. intros j Hj.
      apply in_seq in Hj. rewrite (width_rect c m H Hne) in Hj.
      apply (col_length c); [exact H|lia].
  Qed.

  Lemma matrix_ext : forall (m1 m2 : list (list V)), length m1 = length m2 ->
    (forall i j, entry V m1 i j = entry V m2 i j) -> m1 = m2.
  Proof.
    induction m1 as [|r1 m1 IH]; destruct m2 as [|r2 m2]; intros Hl He; try reflexivity;
      try discriminate Hl.
    f_equal.
    - apply list_ext. intro j. exact (He 0 j).
    - apply IH; [cbn in Hl; lia|]. intros i j. exact (He (S i) j).
  Qed.

  Theorem transpose_involutive : forall c (m : list (list V)), rect V c m -> m <> [] -> 0 < c ->
    transpose V (transpose V m) = m.
  Proof.
    intros c m H Hne Hc.
    destruct (transpose_rect c m H Hne) as [HlenT HrectT].
    assert (HneT : transpose V m <> []).
    { intro E. rewrite E in HlenT. cbn in HlenT. lia. }
    assert (Hn : 0 < length m) by (destruct m; [congruence|cbn; lia]).
    destruct (transpose_rect (length m) (transpose V m) HrectT HneT) as [HlenTT _].
    apply matrix_ext; [exact HlenTT|].
    intros i j.
    destruct (Nat.lt_ge_cases i (length m)) as [Hi|Hi].
    - rewrite (transpose_entry (length m) (transpose V m) j i HrectT HneT Hi).
      destruct (Nat.lt_ge_cases j c) as [Hj|Hj].
      + apply (transpose_entry c m i j H Hne Hj).
      + unfold entry.
        assert (E1 : nth_error (transpose V m) j = None) by (apply nth_error_None; lia).
        rewrite E1.
        destruct (nth_error m i) as [r|] eqn:E2; [|reflexivity].
        symmetry. apply nth_error_None.
        unfold rect in H. rewrite Forall_forall in H.
        rewrite (H r (nth_error_In _ _ E2)). exact Hj.
    - unfold entry.
      assert (E1 : nth_error (transpose V (transpose V m)) i = None) by (apply nth_error_None; lia).
      assert (E2 : nth_error m i = None) by (apply nth_error_None; lia).
      rewrite E1, E2. reflexivity.
  Qed.

  (* without --transpose-input the file is transposed once: sample i (column i of the feature
     matrix) is line i of the file *)
  Theorem line_is_sample : forall c (m : list (list V)) i r, rect V c m -> nth_error m i = Some r ->
    sample V i (transpose V m) = r.
  Proof.
    intros c m i r H Hi.
    assert (Hne : m <> []) by (intro E; rewrite E in Hi; destruct i; discriminate Hi).
    unfold sample, transpose. rewrite (width_rect c m H Hne).
    unfold col at 1. rewrite filter_map_map.
    assert (Hlen : length r = c).
    { unfold rect in H. rewrite Forall_forall in H. apply H. exact (nth_error_In _ _ Hi). }
    rewrite (filter_map_ext_in _ _ _ (fun j => nth_error r j)).
    - rewrite <- Hlen. exact (filter_map_nth_seq V r []).
    - intros j Hj. apply in_seq in Hj. unfold col.
      rewrite nth_error_filter_map_all by (apply (rect_nth_some c m j H); lia).
      rewrite Hi. reflexivity.
  Qed.

  (* with --transpose-output line j of the output file is coordinate j of every sample *)
  Theorem transposed_output_line : forall c (E : list (list V)) j, rect V c E -> E <> [] -> j < c ->
    nth_error (transpose V E) j = Some (col V j E).
  Proof.
    intros c E j H Hne Hj. unfold transpose. rewrite (width_rect c E H Hne).
    rewrite nth_error_map_seq by exact Hj. reflexivity.
  Qed.
End Transpose.

(* ------------------- the line loop shipped before F41 ------------------- *)
Local Open Scope string_scope.

Lemma split_lines_tail : forall ls t, Forall (fun l => has_char nl l = false) ls ->
  split nl (file_of_lines ls ++ t) = (ls ++ split nl t)%list.
Proof.
  unfold file_of_lines. induction ls as [|l ls IH]; intros t H; [reflexivity|].
  inversion H as [|? ? Hl Hls]; subst.
  cbn [map]. rewrite concat_cons. rewrite !app_assoc_s. cbn [append].
  rewrite split_app by exact Hl. rewrite IH by exact Hls. reflexivity.
Qed.

Lemma drop_last_snoc_nonempty : forall l x, is_empty x = false ->
  drop_last_empty (l ++ [x])%list = (l ++ [x])%list.
Proof.
  induction l as [|y l IH]; intros x Hx.
  - cbn. rewrite Hx. reflexivity.
  - specialize (IH x Hx). destruct l as [|z r]; cbn [app] in *.
    + cbn. rewrite Hx. reflexivity.
    + change (y :: drop_last_empty (z :: r ++ [x])%list = y :: z :: (r ++ [x])%list).
      rewrite IH. reflexivity.
Qed.

(* a file whose last line is not terminated by a newline: `while (ifs) { getline(ifs, str); ...}`
   processes that line twice, `while (getline(ifs, str))` once *)
Theorem unterminated_last_line : forall ls l,
  Forall (fun x => has_char nl x = false) ls -> has_char nl l = false -> is_empty l = false ->
  lines_shipped (file_of_lines ls ++ l) = (ls ++ [l; l])%list /\
  lines_fixed (file_of_lines ls ++ l) = (ls ++ [l])%list.
Proof.
  intros ls l Hls Hl Hne. unfold lines_shipped, lines_fixed.
  rewrite split_lines_tail by exact Hls. rewrite (split_nochar nl l Hl).
  rewrite last_str_snoc. rewrite Hne. split.
  - rewrite <- app_assoc. reflexivity.
  - apply drop_last_snoc_nonempty. exact Hne.
Qed.

Theorem shipped_loop_refuted_old :
  exists content,
    read_data_shipped string (fun s => Some s) (ascii_of_nat 44) content = RMat [["1"; "2"]; ["3"; "4"]; ["3"; "4"]] /\
    read_data_fixed string (fun s => Some s) (ascii_of_nat 44) content = RMat [["1"; "2"]; ["3"; "4"]].
Proof.
  exists ("1,2" ++ String nl "3,4"). split; vm_compute; reflexivity.
Qed.
