(* CoverTree_Proof_Total.v — structure of the result of the cover-tree batch query model, with no
   assumption on the distance function or on the audit:
     ct_query_rows    the rows returned are one per sample stored in the tree (the first components
                      are a permutation of leaf_points top);
     ct_query_total   with fuel ct_fuel top the query never runs out of fuel and never reaches the
                      undefined `children.begin()` of a leaf, provided every leaf carries scale 100
                      (leaf100_b, checked on every dumped tree). *)
From Coq Require Import List ZArith Bool Lia Permutation.
From TK Require Import Knn_Spec CoverTree_Model.
Import ListNotations.

Section Total.
Variable oc : bool.
Variable d : dist.
Variable K : nat.
Variable au : bool -> ctree -> list ext -> bool.

Notation lp := leaf_points.

Lemma lp_inner' : forall p m pd sc c0 rest, lp (CN p m pd sc (c0 :: rest)) = flat_map lp (c0 :: rest).
Proof. reflexivity. Qed.

Lemma size_child_le' : forall chi l, In chi l -> (size chi <= fold_right (fun c a => (size c + a)%nat) O l)%nat.
Proof.
  intros chi l. induction l as [|a l IHl]; intros Hin; [destruct Hin|]. cbn [fold_right].
  destruct Hin as [->|Hin]; [lia | specialize (IHl Hin); lia].
Qed.

(* ---------- rows of brute_nearest: exactly the samples below the query node, in order ---------- *)
Definition bn_t := ctree -> list dnode -> list ext -> bool -> list row * bool.

Lemma bn_others_rows : forall (bn : bn_t) ub zero l,
  (forall chi, In chi l -> forall z u o, map fst (fst (bn chi z u o)) = lp chi) ->
  forall acc okk, map fst (fst (bn_others oc d K au bn ub zero l acc okk)) = map fst acc ++ flat_map lp l.
Proof.
  intros bn ub zero l. induction l as [|chi l IH]; intros Hbn acc okk.
  - cbn. now rewrite app_nil_r.
  - change (bn_others oc d K au bn ub zero (chi :: l) acc okk) with
      (let nub := setter K (eadd (ub0 ub) (c_pard chi)) in
       let '(nub1, nzero, ok1) := copy_zero_set oc d au chi nub zero okk in
       let '(rows1, ok2) := bn chi nzero nub1 ok1 in
       bn_others oc d K au bn ub zero l (acc ++ rows1) ok2).
    cbv zeta.
    destruct (copy_zero_set oc d au chi _ zero okk) as [[nub1 nzero] ok1].
    destruct (bn chi nzero nub1 ok1) as [rows1 ok2] eqn:E.
    rewrite IH by (intros c Hc; apply Hbn; now right).
    rewrite map_app. cbn [flat_map]. rewrite <- app_assoc. f_equal. f_equal.
    pose proof (Hbn chi (or_introl eq_refl) nzero nub1 ok1) as H. rewrite E in H. exact H.
Qed.

Lemma brute_nearest_rows : forall n Q, (size Q <= n)%nat ->
  forall zero ub ok, map fst (fst (brute_nearest oc d K au Q zero ub ok)) = lp Q.
Proof.
  induction n as [|n IH]; intros Q Hs; [destruct Q; cbn [size] in Hs; lia|].
  intros zero ub ok. destruct Q as [p m pd sc ch]. destruct ch as [|c0 rest].
  - reflexivity.
  - cbn [brute_nearest]. cbn [size fold_right] in Hs.
    destruct (brute_nearest oc d K au c0 zero ub ok) as [rows0 ok0] eqn:E0.
    rewrite bn_others_rows.
    + rewrite lp_inner'. cbn [flat_map]. f_equal.
      pose proof (IH c0 ltac:(lia) zero ub ok) as H. rewrite E0 in H. exact H.
    + intros chi Hc z u o. apply IH. pose proof (size_child_le' chi rest Hc). lia.
Qed.

(* ---------- rows of internal_batch ---------- *)
Definition rec_t := ctree -> list centry -> list dnode -> nat -> nat -> list ext -> bool -> option (list row * bool).

Lemma ib_loop_rows : forall (rec : rec_t) ub cover zero cs ms l,
  (forall chi, In chi l -> forall cv z u o rows ok', rec chi cv z cs ms u o = Some (rows, ok') ->
      Permutation (map fst rows) (lp chi)) ->
  forall acc okk rows ok', ib_loop oc d K au rec ub cover zero cs ms l acc okk = Some (rows, ok') ->
  exists rows', rows = acc ++ rows' /\ Permutation (map fst rows') (flat_map lp l).
Proof.
  intros rec ub cover zero cs ms l. induction l as [|chi l IH]; intros Hrec acc okk rows ok' E.
  - cbn in E. injection E as <- _. exists []. split; [now rewrite app_nil_r | constructor].
  - change (ib_loop oc d K au rec ub cover zero cs ms (chi :: l) acc okk) with
      (let nub := setter K (eadd (ub0 ub) (c_pard chi)) in
       let '(nub1, nzero, ok1) := copy_zero_set oc d au chi nub zero okk in
       let '(nub2, ncover, ok2) := copy_cover_sets oc d au chi nub1 cs (S ms - cs) cover ok1 in
       match rec chi ncover nzero cs ms nub2 ok2 with
       | None => None
       | Some (rows1, ok3) => ib_loop oc d K au rec ub cover zero cs ms l (acc ++ rows1) ok3
       end) in E.
    cbv zeta in E.
    destruct (copy_zero_set oc d au chi _ zero okk) as [[nub1 nzero] ok1].
    destruct (copy_cover_sets oc d au chi nub1 cs (S ms - cs) cover ok1) as [[nub2 ncover] ok2].
    destruct (rec chi ncover nzero cs ms nub2 ok2) as [[rows1 ok3]|] eqn:E3; [|discriminate].
    destruct (IH (fun c Hc => Hrec c (or_intror Hc)) _ _ _ _ E) as [rows' [-> Hp]].
    exists (rows1 ++ rows'). split; [now rewrite app_assoc|].
    rewrite map_app. cbn [flat_map]. apply Permutation_app; [|assumption].
    apply (Hrec chi (or_introl eq_refl) _ _ _ _ _ _ E3).
Qed.

Lemma internal_batch_rows : forall fuel Q cover zero cs ms ub ok rows ok',
  internal_batch oc d K au fuel Q cover zero cs ms ub ok = Some (rows, ok') ->
  Permutation (map fst rows) (lp Q).
Proof.
  induction fuel as [|f IH]; intros Q cover zero cs ms ub ok rows ok' E; [discriminate|].
  cbn [internal_batch] in E.
  destruct (Nat.ltb ms cs).
  - injection E as E.
    pose proof (brute_nearest_rows (size Q) Q (Nat.le_refl _) zero ub ok) as H. rewrite E in H.
    cbn [fst] in H. rewrite H. apply Permutation_refl.
  - destruct (Nat.leb (c_scale Q) cs && negb (Nat.eqb (c_scale Q) 100)).
    + destruct Q as [p m pd sc ch]. cbn [c_ch] in E. destruct ch as [|c0 rest]; [discriminate|].
      destruct (ib_loop oc d K au (internal_batch oc d K au f) ub cover zero cs ms rest [] ok) as [[rows1 ok1]|] eqn:E1;
        [|discriminate].
      destruct (internal_batch oc d K au f c0 cover zero cs ms ub ok1) as [[rows0 ok2]|] eqn:E0; [|discriminate].
      injection E as <- _.
      destruct (ib_loop_rows _ ub cover zero cs ms rest
                  (fun c _ cv z u o r o' H => IH c cv z cs ms u o r o' H) _ _ _ _ E1) as [rows' [-> Hp]].
      cbn [app]. rewrite map_app, lp_inner'. cbn [flat_map].
      eapply Permutation_trans; [apply Permutation_app_comm|].
      apply Permutation_app; [apply (IH _ _ _ _ _ _ _ _ _ E0) | exact Hp].
    + apply (IH _ _ _ _ _ _ _ _ _ E).
Qed.

Lemma ct_query_rows_lemma : forall fuel top rows ok,
  ct_query oc d K au fuel top = Some (rows, ok) -> Permutation (map fst rows) (lp top).
Proof. intros fuel top rows ok E. unfold ct_query in E. apply (internal_batch_rows _ _ _ _ _ _ _ _ _ _ E). Qed.

(* ---------- totality ---------- *)
Definition cover_bound (M : nat) (cover : list centry) : Prop :=
  forall e, In e cover -> (maxscale (snd (snd e)) <= M)%nat.

Lemma maxscale_ge_scale : forall t, (c_scale t <= maxscale t)%nat.
Proof.
  intros [p m pd sc ch]. cbn [c_scale maxscale]. induction ch as [|c r IH]; cbn [fold_right]; lia.
Qed.

Lemma maxscale_child : forall t c, In c (c_ch t) -> (maxscale c <= maxscale t)%nat.
Proof.
  intros [p m pd sc ch] c Hc. cbn [c_ch] in Hc. cbn [maxscale].
  induction ch as [|a r IH]; [destruct Hc|]. cbn [fold_right].
  destruct Hc as [->|Hc]; [lia | specialize (IH Hc); lia].
Qed.

Lemma cover_bound_app : forall M cover s dist n, cover_bound M cover -> (maxscale n <= M)%nat ->
  cover_bound M (cover ++ [(s, (dist, n))]).
Proof.
  intros M cover s dist n H Hn e He. apply in_app_or in He. destruct He as [He|[<-|[]]]; [now apply H | exact Hn].
Qed.

Definition dst_bound (M : nat) (st : dstate) : Prop := cover_bound M (ds_cover st) /\ (ds_ms st <= M)%nat.

Lemma descend_child_bound : forall M Q pdist chi st,
  dst_bound M st -> (maxscale chi <= M)%nat -> dst_bound M (descend_child d au Q pdist chi st).
Proof.
  intros M Q pdist chi st [Hc Hm] Hchi. unfold descend_child.
  pose proof (maxscale_ge_scale chi) as Hsc.
  destruct (shell pdist (c_pard chi) _); [|split; assumption].
  destruct (le_e (dd d (c_p Q) (c_p chi)) _); [|split; assumption].
  destruct (negb (is_leaf chi)).
  - split; cbn [ds_cover ds_ms]; [now apply cover_bound_app | lia].
  - destruct (le_e _ _); split; assumption.
Qed.

Lemma descend_children_bound : forall M Q pdist chs st,
  dst_bound M st -> (forall c, In c chs -> (maxscale c <= M)%nat) ->
  dst_bound M (descend_children d au Q pdist chs st).
Proof.
  intros M Q pdist chs. induction chs as [|c r IH]; intros st Hst Hch; cbn [descend_children]; [assumption|].
  apply IH; [|intros c' Hc'; apply Hch; now right].
  apply descend_child_bound; [assumption | apply Hch; now left].
Qed.

Lemma descend_first_bound : forall M Q pdist ud chi st ok1,
  dst_bound M st -> (maxscale chi <= M)%nat -> dst_bound M (descend_first Q pdist ud chi st ok1).
Proof.
  intros M Q pdist ud chi st ok1 [Hc Hm] Hchi. unfold descend_first.
  pose proof (maxscale_ge_scale chi) as Hsc.
  destruct (le_e pdist (eadd ud (c_maxd chi))); [|split; assumption].
  destruct (negb (is_leaf chi)).
  - split; cbn [ds_cover ds_ms]; [now apply cover_bound_app | lia].
  - destruct (le_e pdist ud); split; assumption.
Qed.

Lemma descend_parent_bound : forall M Q pdist par st,
  dst_bound M st -> (maxscale par <= M)%nat -> dst_bound M (descend_parent d au Q pdist par st).
Proof.
  intros M Q pdist par st Hst Hpar. unfold descend_parent.
  destruct (le_e pdist _); [|exact Hst].
  destruct (c_ch par) as [|chi rest] eqn:Hch; [exact Hst|].
  assert (Hc : forall c, In c (chi :: rest) -> (maxscale c <= M)%nat).
  { intros c Hc. pose proof (maxscale_child par c) as H. rewrite Hch in H. specialize (H Hc). lia. }
  apply descend_children_bound; [|intros c Hc'; apply Hc; now right].
  apply descend_first_bound; [exact Hst | apply Hc; now left].
Qed.

Lemma descend_loop_bound : forall M Q parents st,
  dst_bound M st -> (forall e, In e parents -> (maxscale (snd (snd e)) <= M)%nat) ->
  dst_bound M (descend_loop d au Q parents st).
Proof.
  intros M Q parents. induction parents as [|[s [pdist par]] r IH]; intros st Hst Hp; cbn [descend_loop]; [assumption|].
  apply IH; [|intros e He; apply Hp; now right].
  apply descend_parent_bound; [assumption|]. apply (Hp (s, (pdist, par))). now left.
Qed.

Lemma descend_bound : forall M Q cs ub ms cover zero ok,
  cover_bound M cover -> (ms <= M)%nat -> dst_bound M (descend d au Q cs (DS ub ms cover zero ok)).
Proof.
  intros M Q cs ub ms cover zero ok Hc Hm. unfold descend.
  assert (H : dst_bound M (descend_loop d au Q (filter (in_slot cs) (ds_cover (DS ub ms cover zero ok)))
                                        (DS ub ms cover zero ok))).
  { apply descend_loop_bound; [split; assumption|]. intros e He. apply filter_In in He. apply Hc, He. }
  destruct H as [H1 H2]. split; cbn [ds_cover ds_ms]; [|exact H2].
  intros e He. apply filter_In in He. apply H1, He.
Qed.

Lemma copy_slot_incl : forall qc s cover ub ok ub' out ok',
  copy_slot oc d au qc ub s cover ok = (ub', out, ok') ->
  forall e, In e out -> exists e0, In e0 cover /\ snd (snd e0) = snd (snd e).
Proof.
  intros qc s cover. induction cover as [|[es [edist en]] rest IH]; intros ub ok ub' out ok' E e He.
  - cbn [copy_slot] in E. injection E as _ <- _. destruct He.
  - cbn [copy_slot] in E. destruct (Nat.eqb es s).
    + destruct (shell edist (c_pard qc) _).
      * destruct (le_e (dd d (c_p qc) (c_p en)) _).
        -- destruct (copy_slot oc d au qc _ s rest _) as [[ub2 out2] ok2] eqn:E2. injection E as _ <- _.
           destruct He as [<-|He].
           ++ exists (es, (edist, en)). split; [now left | reflexivity].
           ++ destruct (IH _ _ _ _ _ E2 e He) as [e0 [H0 H1]]. exists e0. split; [now right | assumption].
        -- destruct (IH _ _ _ _ _ E e He) as [e0 [H0 H1]]. exists e0. split; [now right | assumption].
      * destruct (IH _ _ _ _ _ E e He) as [e0 [H0 H1]]. exists e0. split; [now right | assumption].
    + destruct (IH _ _ _ _ _ E e He) as [e0 [H0 H1]]. exists e0. split; [now right | assumption].
Qed.

Lemma copy_cover_sets_bound : forall M qc cover n s ub ok ub' out ok',
  copy_cover_sets oc d au qc ub s n cover ok = (ub', out, ok') -> cover_bound M cover -> cover_bound M out.
Proof.
  intros M qc cover n. induction n as [|n IH]; intros s ub ok ub' out ok' E Hc.
  - cbn [copy_cover_sets] in E. injection E as _ <- _. intros e [].
  - cbn [copy_cover_sets] in E.
    destruct (copy_slot oc d au qc ub s cover ok) as [[ub1 out1] ok1] eqn:E1.
    destruct (copy_cover_sets oc d au qc ub1 (S s) n cover ok1) as [[ub2 out2] ok2] eqn:E2.
    injection E as _ <- _. intros e He. apply in_app_or in He. destruct He as [He|He].
    + destruct (copy_slot_incl _ _ _ _ _ _ _ _ E1 e He) as [e0 [H0 H1]]. rewrite <- H1. now apply Hc.
    + apply (IH _ _ _ _ _ _ E2 Hc e He).
Qed.

Definition rec_total (M cs : nat) (rec : rec_t) (chi : ctree) : Prop :=
  forall cv z ms u o, cover_bound M cv -> (ms <= M)%nat -> rec chi cv z cs ms u o <> None.

Lemma ib_loop_total : forall M (rec : rec_t) ub cover zero cs ms l,
  (forall chi, In chi l -> rec_total M cs rec chi) -> cover_bound M cover -> (ms <= M)%nat ->
  forall acc okk, ib_loop oc d K au rec ub cover zero cs ms l acc okk <> None.
Proof.
  intros M rec ub cover zero cs ms l. induction l as [|chi l IH]; intros Hrec Hc Hm acc okk.
  - cbn. discriminate.
  - change (ib_loop oc d K au rec ub cover zero cs ms (chi :: l) acc okk) with
      (let nub := setter K (eadd (ub0 ub) (c_pard chi)) in
       let '(nub1, nzero, ok1) := copy_zero_set oc d au chi nub zero okk in
       let '(nub2, ncover, ok2) := copy_cover_sets oc d au chi nub1 cs (S ms - cs) cover ok1 in
       match rec chi ncover nzero cs ms nub2 ok2 with
       | None => None
       | Some (rows1, ok3) => ib_loop oc d K au rec ub cover zero cs ms l (acc ++ rows1) ok3
       end).
    cbv zeta.
    destruct (copy_zero_set oc d au chi _ zero okk) as [[nub1 nzero] ok1].
    destruct (copy_cover_sets oc d au chi nub1 cs (S ms - cs) cover ok1) as [[nub2 ncover] ok2] eqn:E2.
    pose proof (copy_cover_sets_bound M _ _ _ _ _ _ _ _ _ E2 Hc) as Hnc.
    destruct (rec chi ncover nzero cs ms nub2 ok2) as [[rows1 ok3]|] eqn:E3.
    + apply IH; [intros c Hc'; apply Hrec; now right | assumption | assumption].
    + exfalso. exact (Hrec chi (or_introl eq_refl) _ _ _ _ _ Hnc Hm E3).
Qed.

Lemma leaf100_child : forall p m pd sc c0 rest c,
  leaf100_b (CN p m pd sc (c0 :: rest)) = true -> In c (c0 :: rest) -> leaf100_b c = true.
Proof.
  intros p m pd sc c0 rest c H Hc. cbn [leaf100_b] in H. rewrite forallb_forall in H. now apply H.
Qed.

Lemma internal_batch_total : forall M fuel Q cover zero cs ms ub ok,
  leaf100_b Q = true -> cover_bound M cover -> (ms <= M)%nat ->
  (size Q + (S M - cs) < fuel)%nat ->
  internal_batch oc d K au fuel Q cover zero cs ms ub ok <> None.
Proof.
  intros M. induction fuel as [|f IH]; intros Q cover zero cs ms ub ok Hl Hc Hm Hf; [lia|].
  cbn [internal_batch].
  destruct (Nat.ltb ms cs) eqn:Hlt; [discriminate|]. apply Nat.ltb_ge in Hlt.
  destruct (Nat.leb (c_scale Q) cs && negb (Nat.eqb (c_scale Q) 100)) eqn:Hsplit.
  - destruct Q as [p m pd sc ch]. cbn [c_ch c_scale] in *. destruct ch as [|c0 rest].
    + (* a leaf has scale 100: the split test is false *)
      cbn [leaf100_b] in Hl. apply Nat.eqb_eq in Hl. subst sc.
      apply andb_true_iff in Hsplit. destruct Hsplit as [_ H]. cbn in H. discriminate.
    + cbn [size fold_right] in Hf.
      assert (Hrec : forall chi, In chi rest -> rec_total M cs (internal_batch oc d K au f) chi).
      { intros chi Hchi cv z ms' u o Hcv Hms'. apply IH; try assumption.
        - apply (leaf100_child p m pd sc c0 rest chi Hl). now right.
        - pose proof (size_child_le' chi rest Hchi). lia. }
      destruct (ib_loop oc d K au (internal_batch oc d K au f) ub cover zero cs ms rest [] ok) as [[rows1 ok1]|] eqn:E1.
      * destruct (internal_batch oc d K au f c0 cover zero cs ms ub ok1) as [[rows0 ok2]|] eqn:E0; [discriminate|].
        exfalso. revert E0. apply IH; try assumption.
        -- apply (leaf100_child p m pd sc c0 rest c0 Hl). now left.
        -- lia.
      * exfalso. exact (ib_loop_total M _ ub cover zero cs ms rest Hrec Hc Hm [] ok E1).
  - destruct (descend_bound M Q cs ub ms cover zero ok Hc Hm) as [Hc' Hm'].
    apply IH; try assumption. lia.
Qed.

Lemma ct_query_total_lemma : forall top,
  leaf100_b top = true -> ct_query oc d K au (ct_fuel top) top <> None.
Proof.
  intros top Hl. unfold ct_query. apply (internal_batch_total (maxscale top)); try assumption.
  - intros e [<-|[]]. cbn [snd]. lia.
  - lia.
  - unfold ct_fuel. lia.
Qed.

End Total.
