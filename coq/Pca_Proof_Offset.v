(* ====================================================================== *)
(*  Pca_Proof_Offset.v — C06, wave 3: a common OFFSET of the data.          *)
(*  Moving every sample by the same vector o changes neither the sample    *)
(*  covariance (specification), nor what compute_covariance_matrix returns *)
(*  (current centred code and the expanded form E[xx^T] - m m^T alike,     *)
(*  over an exact field), nor the embedding for the same P.  So every      *)
(*  output of PCA is a function of the spread about the mean only, and     *)
(*  "to rounding error" in the property means: relative to that spread.    *)
(*  The expanded form forms numbers of size |x|^2 = (offset + spread)^2    *)
(*  on the way; the centred form does not.  Generic over every field.      *)
(* ====================================================================== *)
Require Import Field Ring Arith Lia List Bool.
From TK Require Import Mat_Sums Mat_Core Proj_Model Proj_Spec Proj_Proof Proj_Proof_Range Proj_Proof_Offset
  Pca_Model Pca_Spec Pca_Proof.
Import ListNotations.

Section PcaOffset.
  Context {F : Type} {Fo : FieldOps F} {Ff : IsField F}.
  Add Field PcaOffsetField : (@Fth F Fo Ff).
  Local Open Scope nat_scope.
  Local Open Scope F_scope.

  Definition mtransX (o : vec F) (X : mat F) : mat F := fun k t => X k t + o t.

  Lemma centred_translate N (o : vec F) (X : mat F) k t :
    of_nat N <> 0 -> centred N (mtransX o X) k t = centred N X k t.
  Proof.
    intros HN. unfold centred, mtransX. rewrite (mean_vec_translate N X o t HN). ring.
  Qed.

  (* the specification: cov(X + o) = cov(X) *)
  Theorem cov_spec_translate N (o : vec F) (X : mat F) i j :
    of_nat N <> 0 -> cov_spec N (mtransX o X) i j = cov_spec N X i j.
  Proof.
    intros HN. unfold cov_spec. f_equal. apply sumn_ext. intros k _.
    rewrite !centred_translate by assumption. reflexivity.
  Qed.

  (* the code (current, centred): what compute_mean + compute_covariance_matrix return *)
  Theorem pca_matrix_translate N (o : vec F) (X : mat F) :
    of_nat N <> 0 -> forall i j, pca_matrix N (mtransX o X) i j = pca_matrix N X i j.
  Proof.
    intros HN i j. rewrite !cov_is_covariance_every_N. apply cov_spec_translate. assumption.
  Qed.

  (* ... and the expanded form (F8 .. F49), in exact arithmetic *)
  Theorem pca_matrix_expanded_translate N (o : vec F) (X : mat F) :
    of_nat N <> 0 -> forall i j, pca_matrix_expanded N (mtransX o X) i j = pca_matrix_expanded N X i j.
  Proof.
    intros HN i j. rewrite !(cov_expanded_is_covariance N _ HN). apply cov_spec_translate. assumption.
  Qed.

  (* the oracle contract is about the matrix only, hence unchanged; the embedding with the SAME P too *)
  Theorem pca_embedding_translate N D (o : vec F) (X P : mat F) k a :
    of_nat N <> 0 -> pca_embedding N D (mtransX o X) P k a = pca_embedding N D X P k a.
  Proof. intros HN. unfold pca_embedding, mtransX. apply embedding_translate. assumption. Qed.

  Theorem eig_contract_translate N D d (o : vec F) (X P : mat F) (lam : vec F) :
    of_nat N <> 0 ->
    eig_contract D d (pca_matrix N X) P lam -> eig_contract D d (pca_matrix N (mtransX o X)) P lam.
  Proof.
    intros HN [Ho He]. split; [exact Ho|]. intros i a Hi Ha. rewrite <- (He i a Hi Ha).
    unfold mmul. apply sumn_ext. intros t _. rewrite pca_matrix_translate by assumption. reflexivity.
  Qed.

  (* packaged for Properties_C06.v *)
  Theorem offset_invariant_all N D d (o : vec F) (X P : mat F) (lam : vec F) :
    of_nat N <> 0 ->
    (forall t, mean_vec N (mtransX o X) t = mean_vec N X t + o t) /\
    (forall i j, cov_spec N (mtransX o X) i j = cov_spec N X i j) /\
    (forall i j, pca_matrix N (mtransX o X) i j = pca_matrix N X i j) /\
    (forall i j, pca_matrix_expanded N (mtransX o X) i j = pca_matrix_expanded N X i j) /\
    (eig_contract D d (pca_matrix N X) P lam -> eig_contract D d (pca_matrix N (mtransX o X)) P lam) /\
    (forall k a, pca_embedding N D (mtransX o X) P k a = pca_embedding N D X P k a).
  Proof.
    intros HN. split; [intros t; apply (mean_vec_translate N X o t HN)|].
    split; [intros i j; apply cov_spec_translate; assumption|].
    split; [apply pca_matrix_translate; assumption|].
    split; [apply pca_matrix_expanded_translate; assumption|].
    split; [apply eig_contract_translate; assumption|].
    intros k a. apply pca_embedding_translate. assumption.
  Qed.

  Theorem centred_and_expanded_all N D (X : mat F) (Xs : list (list F)) :
    (forall i j, pca_matrix N X i j = cov_spec N X i j) /\
    (of_nat N <> 0 -> forall i j, pca_matrix_expanded N X i j = cov_spec N X i j) /\
    (of_nat N <> 0 -> forall i j, pca_matrix N X i j = pca_matrix_expanded N X i j) /\
    (wf_mat N D Xs -> pca_matrix_expanded_exec D Xs = POk (mtab D D (pca_matrix_expanded N (mof Xs)))).
  Proof.
    split; [apply cov_is_covariance_every_N|]. split; [apply cov_expanded_is_covariance|].
    split; [apply cov_centred_equals_expanded|apply pca_matrix_expanded_exec_ok].
  Qed.

End PcaOffset.
