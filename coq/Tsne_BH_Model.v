(* Tsne_BH_Model.v — executable model of TSNE::computeGradient (tsne.hpp, Barnes-Hut branch) on
   top of agent c18's quadtree model (QuadTree_Model.v, QuadTree_SpecExec.nonedge_loop).
   No proofs in this file.

   computeGradient(P, row_P, col_P, val_P, Y, N, D = 2, dC, theta):
     tree  = new QuadTree(Y, N)                      -> the tree `t` is a parameter here (C18's
                                                        fill_order builds it; C18 proves its theorems
                                                        for every tree so built)
     pos_f = computeEdgeForces(row_P, col_P, val_P)  -> edge_row, one row of (col, val) pairs per n
     for n: computeNonEdgeForces(n, theta, neg_f + n*D, &sum_Q)   -> nonedge_loop (one running sum_Q)
     dC[i] = pos_f[i] - neg_f[i] / sum_Q
   Numbers: Q (exact), as in C18. *)
From Coq Require Import List QArith.
From TK Require Import QuadTree_Model QuadTree_Spec QuadTree_SpecExec.
Import ListNotations.
Local Open Scope Q_scope.

(* computeEdgeForces, row n:  D = val_P[i] / (1 + |y_n - y_c|^2);  pos_f[n] += D * (y_n - y_c) *)
Definition edge_row (data : list pt) (n : nat) (row : list (nat * Q)) : Q * Q :=
  fold_left (fun acc cv =>
               let pn := pt_at data n in
               let pc := pt_at data (fst cv) in
               let Dv := snd cv / (1 + sqdist pn pc) in
               (fst acc + Dv * (fst pn - fst pc), snd acc + Dv * (snd pn - snd pc)))
            row (0, 0).

Fixpoint combine_grad (n : nat) (data : list pt) (rows : list (list (nat * Q))) (negs : list (Q * Q)) (Z : Q)
  : list (Q * Q) :=
  match rows, negs with
  | row :: rows', neg :: negs' =>
      let pos := edge_row data n row in
      (fst pos - fst neg / Z, snd pos - snd neg / Z) :: combine_grad (S n) data rows' negs' Z
  | _, _ => []
  end.

Definition bh_gradient (data : list pt) (rows : list (list (nat * Q))) (theta : Q) (t : qt) : option (list (Q * Q)) :=
  match nonedge_loop data theta t (seq 0 (length rows)) 0 with
  | Some (negs, Z) => Some (combine_grad 0 data rows negs Z)
  | None => None
  end.

(* the closed form for a sparse P: edge forces minus the exact all-pairs repulsion over the exact sum *)
Fixpoint closed_rows (n : nat) (data : list pt) (order : list nat) (rows : list (list (nat * Q))) (Z : Q)
  : list (Q * Q) :=
  match rows with
  | [] => []
  | row :: rows' =>
      let pos := edge_row data n row in
      let ex := exact_sums data (pt_at data n) n order in
      (fst pos - fst (fst ex) / Z, snd pos - snd (fst ex) / Z) :: closed_rows (S n) data order rows' Z
  end.
