(* ====================================================================== *)
(*  Lle_Exec.v — the closed Qc instances of the C08 model / spec functions *)
(*  that are extracted and run against the C++ (NO proofs here).           *)
(*  c08_lle_run      lle_run with the certifying solver (ldlt().solve)     *)
(*  c08_ltsa_run     ltsa_run  (E i = oracle answers of the local solver)  *)
(*  c08_hlle_run     hlle_run_sf (sqrt-free Gram-Schmidt, see Lle_Model)   *)
(*  c08_dense        sparse_matrix_from_triplets as a dense table          *)
(*  c08_local_gram   the matrix the local eigensolver sees                 *)
(*  c08_matrix_verdict  msym_b and const_vector_b on an assembled matrix  *)
(* ====================================================================== *)
Require Import Arith List Bool ZArith QArith Qcanon.
From TK Require Import Mat_Sums Mat_Core Mat_Qc Lle_Model Lle_Spec.
Import ListNotations.

Definition c08_lle_run := @lle_run Qc QcOps (solve_checked qeqb).
(* the loop-free formula G G^T (the code before repair F51).  The model of the repaired routine is
   Lle_Model.ltsa_run_gs (Gram-Schmidt over the columns of G); its exact evaluation on binary64 oracle vectors is
   far too slow in extracted Qc (> 15 min for the quick tier), so the entrywise stream runs this formula and only
   compares it where every selected local eigenvalue is non-zero (there the loop changes G by rounding only);
   rank-deficient neighbourhoods are covered by the null-space clauses of the check (C08_ltsa_gs_fixes). *)
Definition c08_ltsa_run := @ltsa_run Qc QcOps.
Definition c08_ltsa_run_gs := @ltsa_run_gs Qc QcOps (fun x => qeqb x 0%F).
Definition c08_hlle_run := @hlle_run_sf Qc QcOps (fun x => qeqb x 0%F).
Definition c08_dense (n : nat) (T : list (@triplet Qc)) : list (list Qc) :=
  mtab n n (from_triplets_fast T).
Definition c08_local_gram (k : nat) (kern : mat Qc) (nb : nat -> nat) : list (list Qc) :=
  local_centered_gram_exec k kern nb.
Definition c08_eig_contract_b := eig_contract_b.
Definition c08_embedding_verdict := embedding_verdict.
(* spec clauses on an assembled matrix: 0 ok, 1 not symmetric, 2 M 1 <> mu 1 *)
Definition c08_matrix_verdict (n : nat) (tol : Qc) (M : mat Qc) (mu : Qc) : nat :=
  if negb (msym_b n tol M) then 1
  else if negb (const_vector_b n tol M mu) then 2 else 0.
Definition c08_mof := @mof Qc QcOps.
Definition c08_vof := @vof Qc QcOps.
Definition c08_nbrs_of := @nbrs_of.
Definition c08_k_of := @k_of.
